(* Proofs/NormalR.v — theorems about the real-number normal density / distribution function
   of RealSpec/Normal.v.  No axioms beyond the stdlib real numbers. *)
From Coq Require Import Reals Lra Psatz ssreflect.
From Coquelicot Require Import Coquelicot.
From MM Require Import RealSpec.Normal.
Open Scope R_scope.

Section Normal.
Variables mu sigma : R.
Hypothesis sigma_pos : 0 < sigma.

Lemma sqrt_2PI_pos : 0 < sqrt (2 * PI).
Proof. apply sqrt_lt_R0. generalize PI_RGT_0; lra. Qed.

Lemma phi_den_pos : 0 < sigma * sqrt (2 * PI).
Proof. apply Rmult_lt_0_compat; [exact sigma_pos | exact sqrt_2PI_pos]. Qed.

Lemma phi_pos : forall x, 0 < phi mu sigma x.
Proof.
  intros x. unfold phi. apply Rdiv_lt_0_compat; [apply exp_pos | exact phi_den_pos].
Qed.

Lemma phi_continuous : forall x, continuous (phi mu sigma) x.
Proof.
  intros x. unfold phi.
  apply: ex_derive_continuous.
  auto_derive.
  generalize phi_den_pos sqrt_2PI_pos PI_RGT_0 sigma_pos; intros.
  repeat split; try lra; try nra.
Qed.

Lemma phi_ex_RInt : forall a b, ex_RInt (phi mu sigma) a b.
Proof.
  intros a b. apply: ex_RInt_continuous. intros z _. apply phi_continuous.
Qed.

Lemma Phi_is_integral_of_phi :
  forall a b, RInt (phi mu sigma) a b = Phi mu sigma b - Phi mu sigma a.
Proof.
  intros a b. unfold Phi.
  generalize (RInt_Chasles (phi mu sigma) mu a b (phi_ex_RInt _ _) (phi_ex_RInt _ _)).
  rewrite /plus /=. lra.
Qed.

Lemma Phi_derive : forall x, is_derive (Phi mu sigma) x (phi mu sigma x).
Proof.
  intros x. unfold Phi.
  evar_last.
  apply: is_derive_plus.
  apply: is_derive_const.
  apply: (is_derive_RInt (phi mu sigma) _ mu).
  apply filter_forall. intros y. apply: RInt_correct. apply phi_ex_RInt.
  apply phi_continuous.
  rewrite /plus /zero /=. ring.
Qed.

Lemma Phi_increasing : forall a b, a < b -> Phi mu sigma a < Phi mu sigma b.
Proof.
  intros a b Hab.
  apply Rminus_lt_0. rewrite <- Phi_is_integral_of_phi.
  apply RInt_gt_0; auto.
  intros; apply phi_pos.
  intros; apply phi_continuous.
Qed.

Lemma Phi_monotone : forall a b, a <= b -> Phi mu sigma a <= Phi mu sigma b.
Proof.
  intros a b [H | ->]; [left; now apply Phi_increasing | right; reflexivity].
Qed.

Lemma phi_symmetric : forall d, phi mu sigma (mu - d) = phi mu sigma (mu + d).
Proof.
  intros d. unfold phi. do 2 f_equal. f_equal. f_equal. ring.
Qed.

Lemma phi_reflect : forall x, phi mu sigma (2 * mu - x) = phi mu sigma x.
Proof.
  intros x. replace (2 * mu - x) with (mu - (x - mu)) by ring.
  rewrite phi_symmetric. f_equal. ring.
Qed.

Lemma RInt_point_0 : forall f (a : R), RInt f a a = 0 :> R.
Proof. intros f a. apply (RInt_point a f). Qed.

Lemma Phi_centre : Phi mu sigma mu = 1 / 2.
Proof. unfold Phi. rewrite RInt_point_0. ring. Qed.

Lemma Phi_symmetric : forall d, Phi mu sigma (mu - d) + Phi mu sigma (mu + d) = 1.
Proof.
  intros d. unfold Phi.
  assert (H : RInt (phi mu sigma) mu (mu - d) = - RInt (phi mu sigma) mu (mu + d)).
  { replace mu with (-1 * mu + 2 * mu) at 2 by ring.
    replace (mu - d) with (-1 * (mu + d) + 2 * mu) by ring.
    rewrite -(RInt_comp_lin (phi mu sigma) (-1) (2 * mu) mu (mu + d)); last by apply phi_ex_RInt.
    rewrite -[RHS](RInt_opp (phi mu sigma)); last by apply phi_ex_RInt.
    apply RInt_ext. intros x _. rewrite /scal /= /mult /= /opp /=.
    replace (-1 * x + 2 * mu) with (2 * mu - x) by ring.
    rewrite phi_reflect. ring. }
  lra.
Qed.

End Normal.

Lemma phi_standard : forall mu sigma x, 0 < sigma ->
  phi mu sigma x = / sigma * phi 0 1 ((x - mu) / sigma).
Proof.
  intros mu sigma x Hs. unfold phi.
  replace (- (((x - mu) / sigma - 0) * ((x - mu) / sigma - 0)) / (2 * 1 * 1))
    with (- ((x - mu) * (x - mu)) / (2 * sigma * sigma)) by (field; lra).
  generalize sqrt_2PI_pos; intros. field. lra.
Qed.

Lemma Phi_standard : forall mu sigma x, 0 < sigma ->
  Phi mu sigma x = Phi 0 1 ((x - mu) / sigma).
Proof.
  intros mu sigma x Hs. unfold Phi. f_equal.
  replace 0 with (/ sigma * mu + - mu / sigma) at 2 by (field; lra).
  replace ((x - mu) / sigma) with (/ sigma * x + - mu / sigma) by (field; lra).
  rewrite -(RInt_comp_lin (phi 0 1) (/ sigma) (- mu / sigma) mu x);
    last by (apply phi_ex_RInt; lra).
  apply RInt_ext. intros y _. rewrite /scal /= /mult /=.
  rewrite (phi_standard mu sigma y Hs). do 2 f_equal. field; lra.
Qed.

(* ---------------------------------------------------------------------------------------- *)
(* The Gaussian bound: int_0^x exp(-t^2) dt < sqrt(PI)/2                                      *)
(* ---------------------------------------------------------------------------------------- *)

Definition gE (x : R) : R := RInt (fun t => exp (- (t * t))) 0 x.
Definition gf (u t : R) : R := exp (- (u * u) * (1 + t * t)) / (1 + t * t).
Definition gG (x : R) : R := RInt (fun t => gf x t) 0 1.

Lemma gauss_continuous : forall t, continuous (fun t => exp (- (t * t))) t.
Proof. intros t. apply: ex_derive_continuous. auto_derive. exact I. Qed.

Lemma gauss_ex_RInt : forall a b, ex_RInt (fun t => exp (- (t * t))) a b.
Proof. intros a b. apply: ex_RInt_continuous. intros z _. apply gauss_continuous. Qed.

Lemma gE_derive : forall x, is_derive gE x (exp (- (x * x))).
Proof.
  intros x. unfold gE.
  apply (is_derive_RInt (fun t => exp (- (t * t))) _ 0).
  - apply filter_forall. intros y. apply: RInt_correct. apply gauss_ex_RInt.
  - apply gauss_continuous.
Qed.

Lemma gf_derive : forall u t,
  is_derive (fun z => gf z t) u (-2 * u * exp (- (u * u) * (1 + t * t))).
Proof.
  intros u t. unfold gf. assert (0 < 1 + t * t) by nra.
  auto_derive. lra. field. lra.
Qed.

Lemma gf_ex_RInt : forall x a b, ex_RInt (fun t => gf x t) a b.
Proof.
  intros x a b. apply: ex_RInt_continuous. intros t _. unfold gf.
  apply: ex_derive_continuous. auto_derive. assert (0 < 1 + t * t) by nra. lra.
Qed.

Lemma gG_derive : forall x, is_derive gG x (-2 * exp (- (x * x)) * gE x).
Proof.
  intros x. unfold gG. evar_last.
  apply is_derive_RInt_param.
  - apply filter_forall. intros y t _. eexists. apply gf_derive.
  - intros t _.
    apply continuity_2d_pt_ext with (fun u v => -2 * u * exp (- (u * u) * (1 + v * v))).
    { intros u v. symmetry. apply is_derive_unique, gf_derive. }
    apply continuity_2d_pt_mult.
    + apply continuity_2d_pt_mult; [apply continuity_2d_pt_const | apply continuity_2d_pt_id1].
    + apply (continuity_1d_2d_pt_comp exp).
      * apply continuity_pt_filterlim. apply: continuous_exp.
      * apply continuity_2d_pt_mult.
        -- apply continuity_2d_pt_opp. apply continuity_2d_pt_mult; apply continuity_2d_pt_id1.
        -- apply continuity_2d_pt_plus; [apply continuity_2d_pt_const|].
           apply continuity_2d_pt_mult; apply continuity_2d_pt_id2.
  - apply filter_forall. intros y. apply gf_ex_RInt.
  - rewrite (RInt_ext _ (fun t => scal (-2 * exp (- (x * x)))
                                   (scal x (exp (- ((x * t + 0) * (x * t + 0))))))); last first.
    { intros t _. rewrite (is_derive_unique _ _ _ (gf_derive x t)).
      rewrite /scal /= /mult /=.
      replace (- (x * x) * (1 + t * t)) with (- (x * x) + - ((x * t + 0) * (x * t + 0))) by ring.
      rewrite exp_plus. ring. }
    rewrite RInt_scal; last first.
    { apply (ex_RInt_comp_lin (fun s => exp (- (s * s)))). apply gauss_ex_RInt. }
    rewrite (RInt_comp_lin (fun s => exp (- (s * s)))); last by apply gauss_ex_RInt.
    rewrite /scal /= /mult /= /gE. do 2 f_equal; ring.
Qed.

Lemma gF_derive : forall x, is_derive (fun x => gE x * gE x + gG x) x 0.
Proof.
  intros x. auto_derive.
  - split; [eexists; apply gE_derive | split; [eexists; apply gE_derive | split; auto ]].
    eexists; apply gG_derive.
  - rewrite (is_derive_unique _ _ _ (gE_derive x)) (is_derive_unique _ _ _ (gG_derive x)). ring.
Qed.

Lemma gG_0 : gG 0 = PI / 4.
Proof.
  unfold gG.
  transitivity (minus (atan 1) (atan 0)).
  2:{ rewrite atan_0 atan_1. rewrite /minus /plus /opp /=. ring. }
  apply is_RInt_unique.
  apply (is_RInt_ext (fun t => / (1 + t ^ 2))).
  { intros t _. unfold gf. replace (- (0 * 0) * (1 + t * t)) with 0 by ring.
    rewrite exp_0. assert (0 < 1 + t * t) by nra. change (@eq R (/ (1 + t ^ 2)) (1 / (1 + t * t))). field. nra. }
  apply (is_RInt_derive atan (fun t => / (1 + t ^ 2))).
  - intros t _. rewrite -Rsqr_pow2. apply is_derive_atan.
  - intros t _. apply: ex_derive_continuous. auto_derive. nra.
Qed.

Lemma gE_0 : gE 0 = 0.
Proof. unfold gE. now rewrite (RInt_point 0). Qed.

Lemma gF_const : forall x, gE x * gE x + gG x = PI / 4.
Proof.
  intros x.
  generalize (is_RInt_derive (fun x => gE x * gE x + gG x) (fun _ => 0) 0 x) => H.
  assert (H1 : is_RInt (fun _ : R => 0) 0 x (minus (gE x * gE x + gG x) (gE 0 * gE 0 + gG 0))).
  { apply H. intros; apply gF_derive. intros; apply continuous_const. }
  generalize (is_RInt_unique _ _ _ _ H1) => E1.
  generalize (is_RInt_unique _ _ _ _ (is_RInt_const 0 x 0)) => E2.
  rewrite E1 in E2. rewrite /minus /plus /opp /scal /= /mult /= in E2.
  rewrite gG_0 gE_0 in E2. lra.
Qed.

Lemma gG_pos : forall x, 0 <= gG x.
Proof.
  intros x. unfold gG. apply RInt_ge_0; [lra | apply gf_ex_RInt | ].
  intros t _. unfold gf. left. apply Rdiv_lt_0_compat; [apply exp_pos | nra].
Qed.

Lemma gE_increasing : forall a b, a < b -> gE a < gE b.
Proof.
  intros a b Hab. unfold gE.
  generalize (RInt_Chasles _ 0 a b (gauss_ex_RInt 0 a) (gauss_ex_RInt a b)).
  rewrite /plus /= => <-.
  assert (0 < RInt (fun t => exp (- (t * t))) a b); [|lra].
  apply RInt_gt_0; auto. intros; apply exp_pos. intros; apply gauss_continuous.
Qed.

Lemma gE_le : forall x, 0 <= x -> gE x <= sqrt PI / 2.
Proof.
  intros x Hx.
  assert (H0 : 0 <= gE x).
  { destruct Hx as [Hx | <-]; [|rewrite gE_0; lra]. left. rewrite -gE_0. now apply gE_increasing. }
  generalize (gF_const x) (gG_pos x) PI_RGT_0 => HF HG HPI.
  assert (Hs : sqrt PI * sqrt PI = PI) by (apply sqrt_sqrt; lra).
  assert (0 < sqrt PI) by (apply sqrt_lt_R0; lra).
  destruct (Rle_dec (gE x) (sqrt PI / 2)) as [L | L]; auto.
  exfalso. nra.
Qed.

Theorem gauss_bound : forall x, 0 <= x ->
  0 <= RInt (fun t => exp (- (t * t))) 0 x < sqrt PI / 2.
Proof.
  intros x Hx. fold (gE x). split.
  - destruct Hx as [Hx | <-]; [|rewrite gE_0; lra]. left. rewrite -gE_0. now apply gE_increasing.
  - apply Rlt_le_trans with (gE (x + 1)); [apply gE_increasing; lra | apply gE_le; lra].
Qed.

(* ---------------------------------------------------------------------------------------- *)
(* Phi takes values strictly between 0 and 1                                                  *)
(* ---------------------------------------------------------------------------------------- *)

Lemma Phi_std_gauss : forall z, Phi 0 1 z = 1 / 2 + / sqrt PI * gE (z / sqrt 2).
Proof.
  intros z. unfold Phi, gE. f_equal.
  generalize PI_RGT_0 => HPI.
  assert (H2 : 0 < sqrt 2) by (apply sqrt_lt_R0; lra).
  assert (HP : 0 < sqrt PI) by (apply sqrt_lt_R0; lra).
  replace 0 with (sqrt 2 * 0 + 0) at 2 by ring.
  replace z with (sqrt 2 * (z / sqrt 2) + 0) at 1 by (field; lra).
  rewrite -(RInt_comp_lin (phi 0 1) (sqrt 2) 0 0 (z / sqrt 2)); last by (apply phi_ex_RInt; lra).
  rewrite -[RHS](RInt_scal (fun t => exp (- (t * t))) 0 (z / sqrt 2) (/ sqrt PI));
    last by apply gauss_ex_RInt.
  apply RInt_ext. intros y _. rewrite /scal /= /mult /= /phi.
  rewrite sqrt_mult; [ | lra | lra].
  replace (- ((sqrt 2 * y + 0 - 0) * (sqrt 2 * y + 0 - 0)) / (2 * 1 * 1))
    with (- (y * y) * (sqrt 2 * sqrt 2) / 2) by (field; lra).
  rewrite sqrt_sqrt; [|lra].
  replace (- (y * y) * 2 / 2) with (- (y * y)) by field.
  field. lra.
Qed.

Lemma Phi_std_range_pos : forall z, 0 <= z -> 1 / 2 <= Phi 0 1 z < 1.
Proof.
  intros z Hz. rewrite Phi_std_gauss.
  generalize PI_RGT_0 => HPI.
  assert (H2 : 0 < sqrt 2) by (apply sqrt_lt_R0; lra).
  assert (HP : 0 < sqrt PI) by (apply sqrt_lt_R0; lra).
  assert (Hz2 : 0 <= z / sqrt 2).
  { apply Rmult_le_pos; auto. left; now apply Rinv_0_lt_compat. }
  destruct (gauss_bound _ Hz2) as [G1 G2]. fold (gE (z / sqrt 2)) in G1, G2.
  assert (HI : 0 < / sqrt PI) by now apply Rinv_0_lt_compat.
  split.
  - assert (0 <= / sqrt PI * gE (z / sqrt 2)) by (apply Rmult_le_pos; lra). lra.
  - assert (/ sqrt PI * gE (z / sqrt 2) < / sqrt PI * (sqrt PI / 2))
      by (apply Rmult_lt_compat_l; lra).
    replace (/ sqrt PI * (sqrt PI / 2)) with (1 / 2) in H by (field; lra). lra.
Qed.

Theorem Phi_range : forall mu sigma x, 0 < sigma -> 0 < Phi mu sigma x < 1.
Proof.
  intros mu sigma x Hs. rewrite (Phi_standard mu sigma x Hs).
  set (z := (x - mu) / sigma).
  destruct (Rle_dec 0 z) as [Hz | Hz].
  - generalize (Phi_std_range_pos z Hz); lra.
  - assert (Hz' : 0 <= - z) by lra.
    generalize (Phi_std_range_pos _ Hz') (Phi_symmetric 0 1 Rlt_0_1 (- z)).
    replace (0 - - z) with z by ring. replace (0 + - z) with (- z) by ring. lra.
Qed.

(* lower half / upper half refinement *)
Lemma Phi_ge_half : forall mu sigma x, 0 < sigma -> mu <= x -> 1 / 2 <= Phi mu sigma x.
Proof.
  intros mu sigma x Hs Hx. rewrite -(Phi_centre mu sigma). now apply Phi_monotone.
Qed.

Lemma Phi_le_half : forall mu sigma x, 0 < sigma -> x <= mu -> Phi mu sigma x <= 1 / 2.
Proof.
  intros mu sigma x Hs Hx. rewrite -(Phi_centre mu sigma). now apply Phi_monotone.
Qed.

Print Assumptions Phi_symmetric.
Print Assumptions Phi_standard.
Print Assumptions Phi_range.

(* Proofs/NumSound.v — (group hF) soundness of the shared number layer Base/Num.v, over Z/Q only:
   what [two_pow], [pos_odd_part], [dyadic] and [decode_bits] compute, stated against an
   explicit sign / exponent-field / mantissa-field formula of IEEE-754 binary64; totality of
   the float parsers [pX]/[pQ]; and iff-readings of the comparators.  Everything here is
   closed under the global context.  The real-number readings (Q2R/Rabs/sqrt) and the
   statement against Flocq's [b64_of_bits] are in Proofs/NumSoundR.v. *)
From MM Require Import Base.Num Proofs.CheckBase.
From Coq Require Import Lqa Lia Qpower Znumtheory.
Local Open Scope Z_scope.

(* ---------- two_pow ---------- *)
Lemma shiftl_pow2 z e : 0 <= e -> Z.shiftl z e = z * 2 ^ e.
Proof. intro H. apply Z.shiftl_mul_pow2. exact H. Qed.

Lemma two_pow_nonneg e : 0 <= e -> two_pow e = inject_Z (2 ^ e).
Proof.
  intro H. unfold two_pow. destruct (0 <=? e) eqn:E; [|apply Z.leb_gt in E; lia].
  rewrite shiftl_pow2 by exact H. f_equal. lia.
Qed.
Lemma two_pow_neg e : e < 0 -> two_pow e = (1 # Z.to_pos (2 ^ (- e)))%Q.
Proof.
  intro H. unfold two_pow. destruct (0 <=? e) eqn:E; [apply Z.leb_le in E; lia|].
  rewrite shiftl_pow2 by lia. do 2 f_equal. lia.
Qed.

Lemma inject_Z_pow2 n : 0 <= n -> (inject_Z (2 ^ n) == Qpower 2 n)%Q.
Proof. intro H. exact (Zpower_Qpower 2 n H). Qed.

Lemma Qinv_inject_pos z : 0 < z -> (1 # Z.to_pos z == / inject_Z z)%Q.
Proof. intro H. destruct z as [|p|p]; try lia. cbn. reflexivity. Qed.

(* [two_pow e] is the rational 2^e, for every integer e *)
Theorem two_pow_spec e : (two_pow e == Qpower 2 e)%Q.
Proof.
  destruct (Z_lt_le_dec e 0) as [H|H].
  - rewrite two_pow_neg by exact H.
    rewrite Qinv_inject_pos by (apply Z.pow_pos_nonneg; lia).
    rewrite inject_Z_pow2 by lia. rewrite Qpower_opp. rewrite Qinv_involutive. reflexivity.
  - rewrite two_pow_nonneg by exact H. apply inject_Z_pow2. exact H.
Qed.

Lemma two_pow_pos e : (0 < two_pow e)%Q.
Proof.
  destruct (Z_lt_le_dec e 0) as [H|H].
  - rewrite two_pow_neg by exact H. reflexivity.
  - rewrite two_pow_nonneg by exact H. change 0%Q with (inject_Z 0). rewrite <- Zlt_Qlt.
    apply Z.pow_pos_nonneg; lia.
Qed.

Lemma two_pow_plus a b : (two_pow (a + b) == two_pow a * two_pow b)%Q.
Proof. rewrite !two_pow_spec. apply Qpower_plus. discriminate. Qed.

Lemma two_pow_0 : two_pow 0 = 1%Q.
Proof. reflexivity. Qed.

(* ---------- pos_odd_part ---------- *)
(* p = p' * 2^(t' - t) with p' odd: all trailing zero bits, and only those, are stripped *)
Theorem pos_odd_part_spec p : forall t p' t', pos_odd_part p t = (p', t') ->
  t <= t' /\ Zpos p = Zpos p' * 2 ^ (t' - t) /\ Z.odd (Zpos p') = true.
Proof.
  induction p as [q IH|q IH|]; intros t p' t' H; cbn [pos_odd_part] in H.
  - injection H as <- <-. rewrite Z.sub_diag. split; [lia|]. split; [rewrite Z.pow_0_r; lia|reflexivity].
  - apply IH in H. destruct H as (H1 & H2 & H3). split; [lia|]. split; [|exact H3].
    replace (t' - t) with (Z.succ (t' - (t + 1))) by lia. rewrite Z.pow_succ_r by lia.
    rewrite Pos2Z.inj_xO, H2. ring.
  - injection H as <- <-. rewrite Z.sub_diag. split; [lia|]. split; reflexivity.
Qed.

(* ---------- dyadic ---------- *)
(* the two output shapes of [dyadic]: integer when the exponent is >= 0, else z / 2^-e *)
Definition dy (z e : Z) : Q :=
  if 0 <=? e then inject_Z (Z.shiftl z e) else (z # Z.to_pos (Z.shiftl 1 (- e)))%Q.

Lemma dy_spec z e : (dy z e == inject_Z z * two_pow e)%Q.
Proof.
  unfold dy, two_pow. destruct (0 <=? e) eqn:E.
  - apply Z.leb_le in E. rewrite !shiftl_pow2 by exact E. rewrite Z.mul_1_l, inject_Z_mult. reflexivity.
  - unfold Qeq, Qmult, inject_Z. cbn [Qnum Qden]. rewrite Pos.mul_1_l. ring.
Qed.

Lemma dyadic_dy_pos p e p' t : pos_odd_part p 0 = (p', t) -> dyadic (Zpos p) e = dy (Zpos p') (e + t).
Proof. intro H. unfold dyadic, dy. rewrite H. reflexivity. Qed.
Lemma dyadic_dy_neg p e p' t : pos_odd_part p 0 = (p', t) -> dyadic (Zneg p) e = dy (Zneg p') (e + t).
Proof. intro H. unfold dyadic, dy. rewrite H. reflexivity. Qed.

(* [dyadic m e] is the rational m * 2^e, for ALL integers m and e *)
Theorem dyadic_two_pow m e : (dyadic m e == inject_Z m * two_pow e)%Q.
Proof.
  destruct m as [|p|p].
  - cbn. rewrite Qmult_0_l. reflexivity.
  - destruct (pos_odd_part p 0) as [p' t] eqn:E. rewrite (dyadic_dy_pos _ _ _ _ E), dy_spec.
    apply pos_odd_part_spec in E. destruct E as (_ & E & _). rewrite Z.sub_0_r in E.
    rewrite E, inject_Z_mult, two_pow_plus. rewrite (two_pow_nonneg t) by
      (destruct (Z_lt_le_dec t 0) as [L|L]; [|exact L]; rewrite (Z.pow_neg_r 2 t L) in E; lia).
    ring.
  - destruct (pos_odd_part p 0) as [p' t] eqn:E. rewrite (dyadic_dy_neg _ _ _ _ E), dy_spec.
    apply pos_odd_part_spec in E. destruct E as (_ & E & _). rewrite Z.sub_0_r in E.
    change (Zneg p) with (- Zpos p). change (Zneg p') with (- Zpos p').
    rewrite E, !inject_Z_opp, inject_Z_mult, two_pow_plus. rewrite (two_pow_nonneg t) by
      (destruct (Z_lt_le_dec t 0) as [L|L]; [|exact L]; rewrite (Z.pow_neg_r 2 t L) in E; lia).
    ring.
Qed.

Theorem dyadic_spec m e : (dyadic m e == inject_Z m * Qpower 2 e)%Q.
Proof. rewrite dyadic_two_pow, two_pow_spec. reflexivity. Qed.

Lemma dyadic_opp m e : (dyadic (- m) e == - dyadic m e)%Q.
Proof. rewrite !dyadic_two_pow, inject_Z_opp. ring. Qed.

(* [dyadic] returns the fraction in lowest terms (so decoded floats are canonical: equal values
   are equal terms), without computing a gcd *)
Lemma Qred_coprime n d : Z.gcd n (Zpos d) = 1 -> Qred (n # d) = (n # d)%Q.
Proof.
  intro G. unfold Qred.
  pose proof (Z.ggcd_gcd n (Zpos d)) as H1. pose proof (Z.ggcd_correct_divisors n (Zpos d)) as H2.
  destruct (Z.ggcd n (Zpos d)) as [g [aa bb]]. cbn [fst snd] in *. rewrite G in H1. subst g.
  destruct H2 as [Ha Hb]. rewrite Z.mul_1_l in Ha, Hb. subst aa bb. reflexivity.
Qed.
Lemma odd_rel_prime_2 z : Z.odd z = true -> rel_prime z 2.
Proof.
  intro O. apply Zgcd_1_rel_prime.
  pose proof (Z.gcd_nonneg z 2) as N. pose proof (Z.gcd_divide_r z 2) as D. pose proof (Z.gcd_divide_l z 2) as L.
  apply Z.divide_pos_le in D; [|lia].
  assert (C : Z.gcd z 2 = 0 \/ Z.gcd z 2 = 1 \/ Z.gcd z 2 = 2) by lia.
  destruct C as [C|[C|C]]; [|exact C|].
  - apply Z.gcd_eq_0_r in C. discriminate.
  - rewrite C in L. destruct L as [c ->]. rewrite Z.odd_mul in O. cbn in O. rewrite Bool.andb_false_r in O. discriminate.
Qed.
Lemma gcd_odd_pow2 z k : Z.odd z = true -> 0 <= k -> Z.gcd z (2 ^ k) = 1.
Proof. intros O K. apply Zgcd_1_rel_prime. apply Zpow_facts.rel_prime_Zpower_r; [exact K|apply odd_rel_prime_2; exact O]. Qed.

Lemma dy_reduced z e : Z.odd z = true -> Qred (dy z e) = dy z e.
Proof.
  intro O. unfold dy. destruct (0 <=? e) eqn:E.
  - unfold inject_Z. apply Qred_coprime. apply Z.gcd_1_r.
  - apply Z.leb_gt in E. apply Qred_coprime. rewrite shiftl_pow2 by lia. rewrite Z.mul_1_l.
    rewrite Z2Pos.id by (apply Z.pow_pos_nonneg; lia). apply gcd_odd_pow2; [exact O|lia].
Qed.
Theorem dyadic_reduced m e : Qred (dyadic m e) = dyadic m e.
Proof.
  destruct m as [|p|p].
  - reflexivity.
  - destruct (pos_odd_part p 0) as [p' t] eqn:E. rewrite (dyadic_dy_pos _ _ _ _ E).
    apply pos_odd_part_spec in E. apply dy_reduced. tauto.
  - destruct (pos_odd_part p 0) as [p' t] eqn:E. rewrite (dyadic_dy_neg _ _ _ _ E).
    apply pos_odd_part_spec in E. apply dy_reduced. change (Zneg p') with (- Zpos p'). rewrite Z.odd_opp. tauto.
Qed.

(* ---------- decode_bits against the IEEE-754 binary64 field formula ---------- *)
Lemma p52 : 2 ^ 52 = 4503599627370496. Proof. reflexivity. Qed.
Lemma p63 : 2 ^ 63 = 9223372036854775808. Proof. reflexivity. Qed.
Lemma p64 : 2 ^ 64 = 18446744073709551616. Proof. reflexivity. Qed.
Lemma p11 : 2 ^ 11 = 2048. Proof. reflexivity. Qed.

(* the three fields of a bit pattern *)
Definition f_sign (b : Z) : bool := Z.testbit b 63.
Definition f_exp (b : Z) : Z := (b / 2 ^ 52) mod 2 ^ 11.
Definition f_man (b : Z) : Z := b mod 2 ^ 52.
(* ... and the pattern made of three fields *)
Definition bits_join (s : bool) (e m : Z) : Z := (if s then 2 ^ 63 else 0) + e * 2 ^ 52 + m.

(* the value of a finite binary64 with sign s, biased-exponent field e (0 <= e < 2047) and
   mantissa field m:  (-1)^s * (if e = 0 then m else 2^52 + m) * 2^(if e = 0 then -1074 else e - 1075) *)
Definition float_mant (e m : Z) : Z := if e =? 0 then m else 2 ^ 52 + m.
Definition float_expo (e : Z) : Z := if e =? 0 then -1074 else e - 1075.
Definition float_value (s : bool) (e m : Z) : Q :=
  ((if s then -1 else 1) * inject_Z (float_mant e m) * Qpower 2 (float_expo e))%Q.

(* what [decode_bits] does, in terms of the fields; holds for every integer b *)
Definition decode_fields (s : bool) (e m : Z) : xreal :=
  if e =? 2047 then (if m =? 0 then XInf s else XNaN)
  else XFin (dyadic (if s then - float_mant e m else float_mant e m) (float_expo e)).

Lemma decode_bits_fields b : decode_bits b = decode_fields (f_sign b) (f_exp b) (f_man b).
Proof.
  unfold decode_bits, decode_fields, f_sign, f_exp, f_man, float_mant, float_expo.
  rewrite Z.shiftr_div_pow2 by lia.
  change 2047 with (Z.ones 11). change 4503599627370495 with (Z.ones 52).
  rewrite !Z.land_ones by lia. reflexivity.
Qed.

Lemma f_exp_range b : 0 <= f_exp b < 2048.
Proof. unfold f_exp. rewrite p11. apply Z.mod_pos_bound. lia. Qed.
Lemma f_man_range b : 0 <= f_man b < 2 ^ 52.
Proof. unfold f_man. apply Z.mod_pos_bound. rewrite p52. lia. Qed.

(* fields of a joined pattern *)
Lemma bits_join_range s e m : 0 <= e < 2048 -> 0 <= m < 2 ^ 52 -> 0 <= bits_join s e m < 2 ^ 64.
Proof. intros He Hm. unfold bits_join. rewrite p52 in *. rewrite p63, p64. destruct s; lia. Qed.

Lemma f_man_join s e m : 0 <= e < 2048 -> 0 <= m < 2 ^ 52 -> f_man (bits_join s e m) = m.
Proof.
  intros He Hm. unfold f_man, bits_join. symmetry.
  apply Z.mod_unique_pos with (q := (if s then 2048 else 0) + e); [exact Hm|].
  rewrite p63, p52. destruct s; ring.
Qed.
Lemma join_div52 s e m : 0 <= e < 2048 -> 0 <= m < 2 ^ 52 ->
  bits_join s e m / 2 ^ 52 = (if s then 2048 else 0) + e.
Proof.
  intros He Hm. unfold bits_join. symmetry. apply Z.div_unique_pos with (r := m); [exact Hm|].
  rewrite p63, p52. destruct s; ring.
Qed.
Lemma f_exp_join s e m : 0 <= e < 2048 -> 0 <= m < 2 ^ 52 -> f_exp (bits_join s e m) = e.
Proof.
  intros He Hm. unfold f_exp. rewrite join_div52 by assumption. symmetry.
  apply Z.mod_unique_pos with (q := if s then 1 else 0); [rewrite p11; exact He|].
  rewrite p11. destruct s; ring.
Qed.
Lemma f_sign_join s e m : 0 <= e < 2048 -> 0 <= m < 2 ^ 52 -> f_sign (bits_join s e m) = s.
Proof.
  intros He Hm. unfold f_sign.
  assert (D : bits_join s e m / 2 ^ 63 = if s then 1 else 0).
  { unfold bits_join. symmetry. apply Z.div_unique_pos with (r := e * 2 ^ 52 + m).
    - rewrite p52 in *. rewrite p63. lia.
    - destruct s; ring. }
  assert (T := Z.testbit_spec' (bits_join s e m) 63 ltac:(lia)). rewrite D in T.
  destruct (Z.testbit (bits_join s e m) 63); destruct s; try reflexivity; vm_compute in T; discriminate.
Qed.

Lemma decode_bits_join s e m : 0 <= e < 2048 -> 0 <= m < 2 ^ 52 ->
  decode_bits (bits_join s e m) = decode_fields s e m.
Proof.
  intros He Hm. rewrite decode_bits_fields, f_sign_join, f_exp_join, f_man_join by assumption. reflexivity.
Qed.

(* every 64-bit pattern is the join of its fields *)
Lemma bits_join_fields b : 0 <= b < 2 ^ 64 -> b = bits_join (f_sign b) (f_exp b) (f_man b).
Proof.
  intro Hb. unfold bits_join, f_sign, f_exp, f_man.
  assert (T := Z.testbit_spec' b 63 ltac:(lia)).
  assert (D1 := Z.div_mod b (2 ^ 52) ltac:(rewrite p52; lia)).
  assert (D2 := Z.div_mod (b / 2 ^ 52) (2 ^ 11) ltac:(rewrite p11; lia)).
  assert (D3 : b / 2 ^ 52 / 2 ^ 11 = b / 2 ^ 63).
  { rewrite Z.div_div by (rewrite ?p52, ?p11; lia). reflexivity. }
  rewrite D3 in D2.
  assert (R : 0 <= b / 2 ^ 63 < 2).
  { split; [apply Z.div_pos; rewrite ?p63; lia|]. apply Z.div_lt_upper_bound; rewrite ?p63, ?p64 in *; lia. }
  assert (M : (b / 2 ^ 63) mod 2 = b / 2 ^ 63) by (apply Z.mod_small; exact R).
  rewrite M in T.
  rewrite p63, p52, p11 in *.
  destruct (Z.testbit b 63); cbn in T; lia.
Qed.

(* the dyadic produced for a finite pattern is the field formula *)
Lemma decode_fields_value s e m : forall q,
  decode_fields s e m = XFin q -> e <> 2047 /\ (q == float_value s e m)%Q.
Proof.
  intros q H. unfold decode_fields in H. destruct (e =? 2047) eqn:E.
  - destruct (m =? 0); discriminate.
  - apply Z.eqb_neq in E. split; [exact E|]. injection H as <-. unfold float_value.
    destruct s; rewrite ?dyadic_opp, dyadic_spec; ring.
Qed.

(* MAIN (Q level, closed): decode_bits of the pattern with fields s, e, m *)
Theorem decode_bits_finite s e m : 0 <= e < 2047 -> 0 <= m < 2 ^ 52 ->
  exists q, decode_bits (bits_join s e m) = XFin q /\ (q == float_value s e m)%Q.
Proof.
  intros He Hm. rewrite decode_bits_join by lia.
  destruct (decode_fields s e m) as [| |q] eqn:D.
  - unfold decode_fields in D. destruct (e =? 2047) eqn:E; [apply Z.eqb_eq in E; lia|discriminate].
  - unfold decode_fields in D. destruct (e =? 2047) eqn:E; [apply Z.eqb_eq in E; lia|discriminate].
  - exists q. split; [reflexivity|]. apply decode_fields_value in D. tauto.
Qed.
Theorem decode_bits_inf s : decode_bits (bits_join s 2047 0) = XInf s.
Proof. rewrite decode_bits_join by (rewrite ?p52; lia). reflexivity. Qed.
Theorem decode_bits_nan s m : 0 < m < 2 ^ 52 -> decode_bits (bits_join s 2047 m) = XNaN.
Proof.
  intro Hm. rewrite decode_bits_join by lia. unfold decode_fields. cbn.
  destruct (m =? 0) eqn:E; [apply Z.eqb_eq in E; lia|reflexivity].
Qed.

(* ... and conversely, read off any pattern (no range condition needed: [decode_bits] only
   looks at bits 0..63) *)
Theorem decode_bits_XFin b q : decode_bits b = XFin q ->
  f_exp b <> 2047 /\ (q == float_value (f_sign b) (f_exp b) (f_man b))%Q.
Proof. rewrite decode_bits_fields. apply decode_fields_value. Qed.
Theorem decode_bits_XInf b s : decode_bits b = XInf s <-> f_exp b = 2047 /\ f_man b = 0 /\ f_sign b = s.
Proof.
  rewrite decode_bits_fields. unfold decode_fields. destruct (f_exp b =? 2047) eqn:E.
  - apply Z.eqb_eq in E. destruct (f_man b =? 0) eqn:M.
    + apply Z.eqb_eq in M. split; [intro H; injection H as <-; auto|intros (_ & _ & ->); reflexivity].
    + apply Z.eqb_neq in M. split; [discriminate|intros (_ & M' & _); contradiction].
  - apply Z.eqb_neq in E. split; [discriminate|intros (E' & _); contradiction].
Qed.
Theorem decode_bits_XNaN b : decode_bits b = XNaN <-> f_exp b = 2047 /\ f_man b <> 0.
Proof.
  rewrite decode_bits_fields. unfold decode_fields. destruct (f_exp b =? 2047) eqn:E.
  - apply Z.eqb_eq in E. destruct (f_man b =? 0) eqn:M.
    + apply Z.eqb_eq in M. split; [discriminate|intros (_ & M'); contradiction].
    + apply Z.eqb_neq in M. split; auto.
  - apply Z.eqb_neq in E. split; [discriminate|intros (E' & _); contradiction].
Qed.
Theorem decode_bits_finite_iff b : is_fin (decode_bits b) = true <-> f_exp b <> 2047.
Proof.
  rewrite decode_bits_fields. unfold decode_fields. destruct (f_exp b =? 2047) eqn:E.
  - apply Z.eqb_eq in E. destruct (f_man b =? 0); cbn; split; try discriminate; intro; contradiction.
  - apply Z.eqb_neq in E. cbn. tauto.
Qed.

Lemma float_value_zero s : (float_value s 0 0 == 0)%Q.
Proof. unfold float_value, float_mant. cbn [Z.eqb inject_Z]. ring. Qed.

(* a decoded finite float is a fraction in lowest terms *)
Theorem decode_bits_reduced b q : decode_bits b = XFin q -> Qred q = q.
Proof.
  rewrite decode_bits_fields. unfold decode_fields. destruct (f_exp b =? 2047); [destruct (f_man b =? 0); discriminate|].
  intro H. injection H as <-. apply dyadic_reduced.
Qed.
(* hence two decoded floats with the same value are the same term *)
Theorem decode_bits_canonical b1 b2 q1 q2 :
  decode_bits b1 = XFin q1 -> decode_bits b2 = XFin q2 -> (q1 == q2)%Q -> q1 = q2.
Proof.
  intros H1 H2 E. rewrite <- (decode_bits_reduced _ _ H1), <- (decode_bits_reduced _ _ H2). apply Qred_complete. exact E.
Qed.

(* only bits 0..63 of the transported integer matter *)
Lemma fields_mod64 b : f_sign (b mod 2 ^ 64) = f_sign b /\ f_exp (b mod 2 ^ 64) = f_exp b /\ f_man (b mod 2 ^ 64) = f_man b.
Proof.
  assert (D := Z.div_mod b (2 ^ 64) ltac:(rewrite p64; lia)).
  set (q := b / 2 ^ 64) in *. set (r := b mod 2 ^ 64) in *.
  split; [|split].
  - unfold f_sign. apply Z.mod_pow2_bits_low. lia.
  - unfold f_exp.
    assert (E : b / 2 ^ 52 = q * 2 ^ 12 + r / 2 ^ 52).
    { rewrite D. replace (2 ^ 64 * q + r) with (q * 2 ^ 12 * 2 ^ 52 + r) by (rewrite p64, p52; change (2 ^ 12) with 4096; ring).
      apply Z.div_add_l. rewrite p52. lia. }
    rewrite E. replace (q * 2 ^ 12 + r / 2 ^ 52) with (r / 2 ^ 52 + (q * 2) * 2 ^ 11) by (rewrite p11; change (2 ^ 12) with 4096; ring).
    symmetry. apply Z_mod_plus_full.
  - unfold f_man. symmetry. rewrite D at 1. fold r.
    replace (2 ^ 64 * q + r) with (r + (q * 2 ^ 12) * 2 ^ 52) by (rewrite p64, p52; change (2 ^ 12) with 4096; ring).
    apply Z_mod_plus_full.
Qed.
Theorem decode_bits_mod64 b : decode_bits b = decode_bits (b mod 2 ^ 64).
Proof. rewrite !decode_bits_fields. destruct (fields_mod64 b) as (-> & -> & ->). reflexivity. Qed.
Lemma mod64_range b : 0 <= b mod 2 ^ 64 < 2 ^ 64.
Proof. apply Z.mod_pos_bound. rewrite p64. lia. Qed.

(* the finite values are the binary64 ones: an integer of at most 53 bits times a power of two
   in the binary64 exponent range, so |q| < 2^1024 *)
Theorem decode_bits_XFin_shape b q : decode_bits b = XFin q ->
  exists M E, (q == inject_Z M * Qpower 2 E)%Q /\ Z.abs M < 2 ^ 53 /\ -1074 <= E <= 971.
Proof.
  intro H. apply decode_bits_XFin in H. destruct H as [He Hq].
  pose proof (f_exp_range b) as Re. pose proof (f_man_range b) as Rm. rewrite p52 in Rm.
  exists (if f_sign b then - float_mant (f_exp b) (f_man b) else float_mant (f_exp b) (f_man b)), (float_expo (f_exp b)).
  split; [|split].
  - rewrite Hq. unfold float_value. destruct (f_sign b); rewrite ?inject_Z_opp; ring.
  - unfold float_mant. change (2 ^ 53) with 9007199254740992. rewrite p52.
    destruct (f_sign b); destruct (f_exp b =? 0); lia.
  - unfold float_expo. destruct (f_exp b =? 0) eqn:E; [lia|]. apply Z.eqb_neq in E. lia.
Qed.

(* ---------- totality of the float parsers ---------- *)
(* [decode_bits] is a total function; [pX] consumes exactly one integer and never fails on a
   non-empty line; [pQ] fails exactly on the NaN / infinity patterns *)
Theorem pX_total b r : pX (b :: r) = Some (decode_bits b, r).
Proof. reflexivity. Qed.
Theorem pX_none l : pX l = None <-> l = [].
Proof. destruct l; cbn; split; intro H; try reflexivity; discriminate. Qed.
Theorem pQ_total b r : f_exp b <> 2047 -> exists q, pQ (b :: r) = Some (q, r) /\ decode_bits b = XFin q.
Proof.
  intro H. apply decode_bits_finite_iff in H. cbn. destruct (decode_bits b) as [| |q]; try discriminate.
  exists q. auto.
Qed.
Theorem pQ_none b r : pQ (b :: r) = None <-> f_exp b = 2047.
Proof.
  cbn. destruct (decode_bits b) as [|s|q] eqn:D.
  - apply decode_bits_XNaN in D. tauto.
  - apply decode_bits_XInf in D. tauto.
  - apply decode_bits_XFin in D. split; [discriminate|tauto].
Qed.
Theorem pQ_none_iff b r : pQ (b :: r) = None <-> decode_bits b = XNaN \/ exists s, decode_bits b = XInf s.
Proof.
  cbn. destruct (decode_bits b) as [|s|q]; split; auto; try discriminate.
  - eauto.
  - intros [H|[s H]]; discriminate.
Qed.

(* ---------- comparators, iff-readings over Q (complements CheckBase) ---------- *)
Local Open Scope Q_scope.
Theorem within_spec tol e o : within tol e o = true <-> e - tol <= o /\ o <= e + tol.
Proof.
  rewrite within_iff. rewrite Qabs_Qle_condition. split; intros [H1 H2]; split; lra.
Qed.
Theorem within_false tol e o : within tol e o = false <-> tol < Qabs (o - e).
Proof. unfold within. apply Qle_bool_false. Qed.
Theorem within_sym tol e o : within tol e o = within tol o e.
Proof.
  apply Bool.eq_iff_eq_true. rewrite !within_spec. split; intros [H1 H2]; split; lra.
Qed.
Theorem within_neg_tol tol e o : tol < 0 -> within tol e o = false.
Proof. intro H. apply within_false. pose proof (Qabs_nonneg (o - e)). lra. Qed.
Theorem close_spec rel abs e o : close rel abs e o = true <-> Qabs (o - e) <= abs + rel * Qabs e.
Proof. unfold close. apply within_iff. Qed.
Theorem close_sqrt_spec tol v s : close_sqrt tol v s = true <-> 0 <= s /\ Qabs (s * s - v) <= tol.
Proof.
  unfold close_sqrt. rewrite Bool.andb_true_iff, within_iff. unfold Qleb. rewrite Qle_bool_iff. tauto.
Qed.
Theorem xwithin_spec tol e o : xwithin tol e o = true <->
  match e, o with
  | XNaN, XNaN => True
  | XInf a, XInf b => a = b
  | XFin x, XFin y => Qabs (y - x) <= tol
  | _, _ => False
  end.
Proof.
  destruct e as [|a|x], o as [|b|y]; cbn; try (split; [discriminate|contradiction]); try tauto.
  - split; [apply Bool.eqb_prop|intros ->; apply Bool.eqb_reflx].
  - apply within_iff.
Qed.
Theorem xeq_spec e o : xeq e o = true <->
  match e, o with
  | XNaN, XNaN => True
  | XInf a, XInf b => a = b
  | XFin x, XFin y => y == x
  | _, _ => False
  end.
Proof.
  unfold xeq. rewrite xwithin_spec. destruct e as [|a|x], o as [|b|y]; try tauto.
  split; intro H.
  - apply Qabs_le0 in H. lra.
  - rewrite H. setoid_replace (x - x) with 0 by ring. cbn. lra.
Qed.
Local Close Scope Q_scope.

(* ---------- the other helpers of Base/Num.v ---------- *)
Theorem ulp53_spec : (ulp53 == Qpower 2 (-53))%Q.
Proof. reflexivity. Qed.

Local Open Scope Q_scope.
Theorem Qsum_app l1 l2 : Qsum (l1 ++ l2) == Qsum l1 + Qsum l2.
Proof. induction l1 as [|x l IH]; cbn; [ring|rewrite IH; ring]. Qed.

(* [Qmaxabs l] is the largest absolute value in l (0 for the empty list) *)
Lemma fold_maxabs_ge l : forall m, m <= fold_left (fun m x => Qmaxb m (Qabs x)) l m /\
  Forall (fun x => Qabs x <= fold_left (fun m x => Qmaxb m (Qabs x)) l m) l.
Proof.
  induction l as [|x l IH]; intro m; cbn [fold_left]; [split; [apply Qle_refl|constructor]|].
  destruct (IH (Qmaxb m (Qabs x))) as [H1 H2]. destruct (Qmaxb_spec m (Qabs x)) as (A & B & _).
  split; [lra|]. constructor; [lra|exact H2].
Qed.
Lemma fold_maxabs_in l : forall m, fold_left (fun m x => Qmaxb m (Qabs x)) l m = m \/
  exists x, In x l /\ fold_left (fun m x => Qmaxb m (Qabs x)) l m = Qabs x.
Proof.
  induction l as [|x l IH]; intro m; cbn [fold_left]; [left; reflexivity|].
  destruct (IH (Qmaxb m (Qabs x))) as [H|(y & Hy & H)].
  - destruct (Qmaxb_spec m (Qabs x)) as (_ & _ & [E|E]); rewrite H, E; [left; reflexivity|right; exists x; split; [left; reflexivity|reflexivity]].
  - right. exists y. split; [right; exact Hy|exact H].
Qed.
Theorem Qmaxabs_spec l :
  0 <= Qmaxabs l /\ Forall (fun x => Qabs x <= Qmaxabs l) l /\
  (l = [] /\ Qmaxabs l = 0 \/ exists x, In x l /\ Qmaxabs l == Qabs x).
Proof.
  unfold Qmaxabs. destruct (fold_maxabs_ge l 0) as [H1 H2]. split; [exact H1|]. split; [exact H2|].
  destruct l as [|y l]; [left; split; reflexivity|right].
  destruct (fold_maxabs_in (y :: l) 0) as [E|(x & Hx & E)].
  - exists y. split; [left; reflexivity|]. inversion H2 as [|? ? Hy _]; subst. rewrite E in *.
    pose proof (Qabs_nonneg y). lra.
  - exists x. split; [exact Hx|]. rewrite E. reflexivity.
Qed.

(* [Qlmin d l] / [Qlmax d l]: least / greatest of d and the elements of l *)
Lemma Qlmin_spec d l : Qlmin d l <= d /\ Forall (fun x => Qlmin d l <= x) l /\ (Qlmin d l = d \/ In (Qlmin d l) l).
Proof.
  unfold Qlmin. revert d. induction l as [|x l IH]; intro d; cbn [fold_left].
  - split; [apply Qle_refl|]. split; [constructor|left; reflexivity].
  - destruct (IH (Qminb d x)) as (H1 & H2 & H3). destruct (Qminb_spec d x) as (A & B & C).
    split; [lra|]. split; [constructor; [lra|exact H2]|].
    destruct H3 as [H3|H3]; [|right; right; exact H3].
    destruct C as [C|C]; rewrite H3, C; [left; reflexivity|right; left; reflexivity].
Qed.
Lemma Qlmax_spec d l : d <= Qlmax d l /\ Forall (fun x => x <= Qlmax d l) l /\ (Qlmax d l = d \/ In (Qlmax d l) l).
Proof.
  unfold Qlmax. revert d. induction l as [|x l IH]; intro d; cbn [fold_left].
  - split; [apply Qle_refl|]. split; [constructor|left; reflexivity].
  - destruct (IH (Qmaxb d x)) as (H1 & H2 & H3). destruct (Qmaxb_spec d x) as (A & B & C).
    split; [lra|]. split; [constructor; [lra|exact H2]|].
    destruct H3 as [H3|H3]; [|right; right; exact H3].
    destruct C as [C|C]; rewrite H3, C; [left; reflexivity|right; left; reflexivity].
Qed.
Local Close Scope Q_scope.

(* [qdiag] renders the reduced fraction: numerator / denominator is the value *)
Theorem qdiag_spec q : exists n d, qdiag q = [n; Zpos d] /\ (n # d == q)%Q.
Proof. unfold qdiag. exists (Qnum (Qred q)), (Qden (Qred q)). split; [reflexivity|]. destruct (Qred q) eqn:E. cbn. rewrite <- E. apply Qred_correct. Qed.

(* the in-kernel cross-check: the list of disagreeing indices is empty exactly when the
   function reproduces every recorded verdict *)
Lemma crosscheck_go_nil (f : list Z -> list Z) cases : forall i,
  (fix go (l : list (list Z * list Z)) (i : Z) : list Z :=
     match l with
     | [] => []
     | (line, v) :: t => if list_Z_eqb (f line) v then go t (i + 1) else i :: go t (i + 1)
     end) cases i = [] <-> Forall (fun lv => f (fst lv) = snd lv) cases.
Proof.
  induction cases as [|[line v] t IH]; intro i.
  - split; [constructor|reflexivity].
  - destruct (list_Z_eqb (f line) v) eqn:E.
    + apply list_Z_eqb_eq in E. rewrite IH. split; [intro H; constructor; [exact E|exact H]|intro H; inversion H; assumption].
    + split; [discriminate|]. intro H. inversion H as [|? ? H1 _]; subst. cbn in H1.
      apply list_Z_eqb_eq in H1. congruence.
Qed.
Theorem crosscheck_nil f cases : crosscheck f cases = [] <-> Forall (fun lv => f (fst lv) = snd lv) cases.
Proof. unfold crosscheck. apply crosscheck_go_nil. Qed.

(* ---------- non-vacuity: concrete patterns ---------- *)
Example decode_one : decode_bits 0x3FF0000000000000 = XFin 1.
Proof. reflexivity. Qed.
Example decode_minus_three_halves : decode_bits 0xBFF8000000000000 = XFin (-3 # 2).
Proof. reflexivity. Qed.
Example decode_min_subnormal : decode_bits 1 = XFin (two_pow (-1074)).
Proof. vm_compute. reflexivity. Qed.
Example decode_neg_zero : decode_bits 0x8000000000000000 = XFin 0.
Proof. reflexivity. Qed.
Example decode_pinf : decode_bits 0x7FF0000000000000 = XInf false.
Proof. reflexivity. Qed.
Example decode_ninf : decode_bits 0xFFF0000000000000 = XInf true.
Proof. reflexivity. Qed.
Example decode_qnan : decode_bits 0x7FF8000000000001 = XNaN.
Proof. reflexivity. Qed.
Example join_one : bits_join false 1023 0 = 0x3FF0000000000000.
Proof. reflexivity. Qed.

Print Assumptions two_pow_spec.
Print Assumptions pos_odd_part_spec.
Print Assumptions dyadic_spec.
Print Assumptions decode_bits_finite.
Print Assumptions decode_bits_inf.
Print Assumptions decode_bits_nan.
Print Assumptions decode_bits_XFin.
Print Assumptions decode_bits_XInf.
Print Assumptions decode_bits_XNaN.
Print Assumptions bits_join_fields.
Print Assumptions dyadic_reduced.
Print Assumptions decode_bits_reduced.
Print Assumptions decode_bits_canonical.
Print Assumptions decode_bits_mod64.
Print Assumptions decode_bits_XFin_shape.
Print Assumptions pX_total.
Print Assumptions pQ_none.
Print Assumptions pQ_none_iff.
Print Assumptions within_spec.
Print Assumptions close_spec.
Print Assumptions close_sqrt_spec.
Print Assumptions xwithin_spec.
Print Assumptions xeq_spec.
Print Assumptions Qmaxabs_spec.
Print Assumptions Qlmin_spec.
Print Assumptions Qlmax_spec.
Print Assumptions qdiag_spec.
Print Assumptions crosscheck_nil.

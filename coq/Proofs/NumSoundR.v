(* Proofs/NumSoundR.v — (group hF) real-number readings of the shared number layer Base/Num.v.
   1. [decode_bits] against Flocq's IEEE-754 binary64 ([Bits.b64_of_bits], [B2R]): a pattern
      decodes to [XFin q] exactly when the float is finite, and then [Q2R q] IS its real value;
      [XNaN] exactly for NaNs; [XInf s] exactly for the infinity of sign s.  Round trip with
      [bits_of_b64].
   2. the comparators [within]/[close]/[xwithin]/[close_sqrt] over [Q2R] with [Rabs]/[sqrt].
   Real-number statements depend on the stdlib axioms of the reals only. *)
From MM Require Import Base.Num Proofs.CheckBase Proofs.NumSound.
From Coq Require Import Reals Qreals Lia Lra.
From Flocq Require Import Core.Raux Core.Defs Core.Zaux IEEE754.Binary IEEE754.Bits.
Local Open Scope R_scope.

(* ---------- Q2R helpers ---------- *)
Lemma Q2R_inject_Z z : Q2R (inject_Z z) = IZR z.
Proof. unfold Q2R, inject_Z. cbn. field. Qed.

Lemma Q2R_Qabs q : Q2R (Qabs q) = Rabs (Q2R q).
Proof.
  destruct (Qlt_le_dec q 0) as [H|H].
  - rewrite (Qeq_eqR _ _ (Qabs_neg q (Qlt_le_weak _ _ H))), Q2R_opp.
    apply Qlt_Rlt in H. rewrite RMicromega.Q2R_0 in H. rewrite Rabs_left by exact H. reflexivity.
  - rewrite (Qeq_eqR _ _ (Qabs_pos q H)).
    apply Qle_Rle in H. rewrite RMicromega.Q2R_0 in H. rewrite Rabs_pos_eq by exact H. reflexivity.
Qed.

Lemma Q2R_two_pow e : Q2R (two_pow e) = bpow radix2 e.
Proof.
  destruct (Z_lt_le_dec e 0) as [H|H].
  - rewrite two_pow_neg by exact H. destruct e as [|p|p]; try lia. cbn [Z.opp bpow].
    unfold Q2R. cbn [Qnum Qden].
    assert (P : (0 < 2 ^ Z.pos p)%Z) by (apply Z.pow_pos_nonneg; lia).
    rewrite Z2Pos.id by exact P.
    change (Z.pow_pos radix2 p) with (2 ^ Z.pos p)%Z. apply Rmult_1_l.
  - rewrite two_pow_nonneg by exact H. rewrite Q2R_inject_Z. exact (IZR_Zpower radix2 e H).
Qed.

Lemma Q2R_dyadic m e : Q2R (dyadic m e) = IZR m * bpow radix2 e.
Proof. rewrite (Qeq_eqR _ _ (dyadic_two_pow m e)), Q2R_mult, Q2R_inject_Z, Q2R_two_pow. reflexivity. Qed.

(* ---------- decode_bits against Flocq ---------- *)
Lemma B2FF_b64_of_bits b : B2FF 53 1024 (b64_of_bits b) = binary_float_of_bits_aux 52 11 b.
Proof. unfold b64_of_bits, binary_float_of_bits. apply B2FF_FF2B. Qed.

(* Flocq's sign bit of an in-range pattern is bit 63 *)
Lemma flocq_sign b : (0 <= b < 2 ^ 64)%Z -> Zle_bool (2 ^ 52 * 2 ^ 11) b = f_sign b.
Proof.
  intro Hb. pose proof (bits_join_fields b Hb) as J. pose proof (f_exp_range b) as He.
  pose proof (f_man_range b) as Hm. unfold bits_join in J. rewrite p52, p63, ?p11 in *.
  destruct (f_sign b).
  - apply Zle_bool_true. lia.
  - apply Zle_bool_false. lia.
Qed.

Lemma Zeq_bool_eqb x y : Zeq_bool x y = (x =? y)%Z.
Proof. unfold Zeq_bool. rewrite Z.eqb_compare. reflexivity. Qed.

(* the Flocq full-float of a pattern, by fields *)
Definition ff_of_fields (s : bool) (e m : Z) : full_float :=
  if (e =? 0)%Z then match m with Zpos p => F754_finite s p (-1074) | _ => F754_zero s end
  else if (e =? 2047)%Z then match m with Zpos p => F754_nan s p | _ => F754_infinity s end
  else match (m + 2 ^ 52)%Z with Zpos p => F754_finite s p (e - 1075) | _ => F754_zero s end.

Lemma aux_fields b : (0 <= b < 2 ^ 64)%Z ->
  binary_float_of_bits_aux 52 11 b = ff_of_fields (f_sign b) (f_exp b) (f_man b).
Proof.
  intro Hb. unfold binary_float_of_bits_aux, split_bits. rewrite (flocq_sign b Hb).
  fold (f_man b). fold (f_exp b). pose proof (f_man_range b) as Hm. pose proof (f_exp_range b) as He.
  unfold ff_of_fields. rewrite !Zeq_bool_eqb.
  change (2 ^ 11 - 1)%Z with 2047%Z.
  destruct (f_exp b =? 0)%Z eqn:E0.
  - change (SpecFloat.emin (52 + 1) (2 ^ (11 - 1))) with (-1074)%Z.
    destruct (f_man b) as [|p|p]; try reflexivity. lia.
  - destruct (f_exp b =? 2047)%Z eqn:E1.
    + destruct (f_man b) as [|p|p]; try reflexivity. lia.
    + destruct (f_man b + 2 ^ 52)%Z as [|p|p] eqn:P; try (rewrite p52 in *; lia).
      f_equal. change (SpecFloat.emin (52 + 1) (2 ^ (11 - 1))) with (-1074)%Z. lia.
Qed.

Lemma FF2R_ff_of_fields s e m : (0 <= m)%Z -> e <> 2047%Z ->
  FF2R radix2 (ff_of_fields s e m) = IZR (if s then - float_mant e m else float_mant e m) * bpow radix2 (float_expo e).
Proof.
  intros Hm He. unfold ff_of_fields, float_mant, float_expo.
  destruct (e =? 0)%Z eqn:E0.
  - destruct m as [|p|p]; try lia.
    + cbn [FF2R]. destruct s; cbn [Z.opp IZR]; ring.
    + cbn [FF2R]. unfold F2R. cbn [Fnum Fexp]. destruct s; reflexivity.
  - apply Z.eqb_neq in He. rewrite He. rewrite (Z.add_comm (2 ^ 52) m).
    destruct (m + 2 ^ 52)%Z as [|p|p] eqn:P; try (rewrite p52 in *; lia).
    cbn [FF2R]. unfold F2R. cbn [Fnum Fexp]. destruct s; reflexivity.
Qed.

Local Notation fl_is_nan := Flocq.IEEE754.Binary.is_nan.

(* MAIN (against Flocq): a 64-bit pattern decodes to [XFin q] iff the binary64 it denotes is
   finite, and q is then exactly its real value *)
Theorem decode_bits_b64_fin b q : (0 <= b < 2 ^ 64)%Z -> decode_bits b = XFin q ->
  is_finite 53 1024 (b64_of_bits b) = true /\ Q2R q = B2R 53 1024 (b64_of_bits b).
Proof.
  intros Hb D. pose proof (f_man_range b) as Hm.
  rewrite <- is_finite_B2FF, <- FF2R_B2FF, B2FF_b64_of_bits, (aux_fields b Hb).
  rewrite decode_bits_fields in D. unfold decode_fields in D.
  destruct (f_exp b =? 2047)%Z eqn:E; [destruct (f_man b =? 0)%Z; discriminate|].
  apply Z.eqb_neq in E. injection D as <-. split.
  - unfold ff_of_fields. apply Z.eqb_neq in E. rewrite E.
    destruct (f_exp b =? 0)%Z; [destruct (f_man b); reflexivity|].
    destruct (f_man b + 2 ^ 52)%Z; reflexivity.
  - rewrite Q2R_dyadic, FF2R_ff_of_fields by (lia || exact E). reflexivity.
Qed.

Theorem decode_bits_b64_nan b : (0 <= b < 2 ^ 64)%Z ->
  decode_bits b = XNaN <-> fl_is_nan 53 1024 (b64_of_bits b) = true.
Proof.
  intro Hb. pose proof (f_man_range b) as Hm.
  rewrite <- is_nan_B2FF, B2FF_b64_of_bits, (aux_fields b Hb), decode_bits_XNaN.
  unfold ff_of_fields. destruct (f_exp b =? 0)%Z eqn:E0.
  - apply Z.eqb_eq in E0. rewrite E0.
    split; [intros [H _]; discriminate|]. destruct (f_man b); discriminate.
  - destruct (f_exp b =? 2047)%Z eqn:E1.
    + apply Z.eqb_eq in E1. destruct (f_man b) as [|p|p]; [| |lia].
      * cbn. split; [intros [_ H]; now destruct H|discriminate].
      * cbn. split; [reflexivity|]. intros _. split; [exact E1|discriminate].
    + apply Z.eqb_neq in E1. split; [intros [H _]; contradiction|].
      destruct (f_man b + 2 ^ 52)%Z; discriminate.
Qed.

Theorem decode_bits_b64_inf b s : (0 <= b < 2 ^ 64)%Z ->
  decode_bits b = XInf s <-> b64_of_bits b = B754_infinity 53 1024 s.
Proof.
  intro Hb. pose proof (f_man_range b) as Hm.
  assert (K : b64_of_bits b = B754_infinity 53 1024 s <-> B2FF 53 1024 (b64_of_bits b) = F754_infinity s).
  { split; [intros ->; reflexivity|]. destruct (b64_of_bits b); cbn; try discriminate. intro H. injection H as ->. reflexivity. }
  rewrite K, B2FF_b64_of_bits, (aux_fields b Hb), decode_bits_XInf.
  unfold ff_of_fields. destruct (f_exp b =? 0)%Z eqn:E0.
  - apply Z.eqb_eq in E0. rewrite E0.
    split; [intros [H _]; discriminate|]. destruct (f_man b); discriminate.
  - destruct (f_exp b =? 2047)%Z eqn:E1.
    + apply Z.eqb_eq in E1. destruct (f_man b) as [|p|p]; [| |lia].
      * split; [intros (_ & _ & ->); reflexivity|]. intro H. injection H as ->. auto.
      * split; [intros (_ & H & _); discriminate|discriminate].
    + apply Z.eqb_neq in E1. split; [intros [H _]; contradiction|].
      destruct (f_man b + 2 ^ 52)%Z; discriminate.
Qed.

(* the three cases are exhaustive, so the converse of [decode_bits_b64_fin] holds too *)
Theorem decode_bits_b64_fin_iff b : (0 <= b < 2 ^ 64)%Z ->
  is_finite 53 1024 (b64_of_bits b) = true <->
  exists q, decode_bits b = XFin q /\ Q2R q = B2R 53 1024 (b64_of_bits b).
Proof.
  intro Hb. split.
  - intro F. destruct (decode_bits b) as [|s|q] eqn:D.
    + apply (decode_bits_b64_nan b Hb) in D. destruct (b64_of_bits b); discriminate.
    + apply (decode_bits_b64_inf b s Hb) in D. rewrite D in F. discriminate.
    + exists q. split; [reflexivity|]. apply (decode_bits_b64_fin b q Hb D).
  - intros (q & D & _). apply (decode_bits_b64_fin b q Hb D).
Qed.

(* round trip with the encoder: the pattern Flocq emits for a finite binary64 f decodes to
   the exact real value of f *)
Theorem decode_bits_of_b64 (f : binary64) : is_finite 53 1024 f = true ->
  exists q, decode_bits (bits_of_b64 f) = XFin q /\ Q2R q = B2R 53 1024 f.
Proof.
  intro F.
  assert (R : (0 <= bits_of_b64 f < 2 ^ 64)%Z).
  { exact (bits_of_binary_float_range 52 11 ltac:(reflexivity) ltac:(reflexivity) f). }
  assert (E : b64_of_bits (bits_of_b64 f) = f).
  { exact (binary_float_of_bits_of_binary_float 52 11 ltac:(reflexivity) ltac:(reflexivity) ltac:(reflexivity) f). }
  pose proof (proj1 (decode_bits_b64_fin_iff _ R)) as H. rewrite E in H. exact (H F).
Qed.
Theorem decode_bits_of_b64_inf s : decode_bits (bits_of_b64 (B754_infinity 53 1024 s)) = XInf s.
Proof. destruct s; reflexivity. Qed.
Theorem decode_bits_of_b64_nan (f : binary64) : fl_is_nan 53 1024 f = true -> decode_bits (bits_of_b64 f) = XNaN.
Proof.
  intro N.
  assert (R : (0 <= bits_of_b64 f < 2 ^ 64)%Z).
  { exact (bits_of_binary_float_range 52 11 ltac:(reflexivity) ltac:(reflexivity) f). }
  assert (E : b64_of_bits (bits_of_b64 f) = f).
  { exact (binary_float_of_bits_of_binary_float 52 11 ltac:(reflexivity) ltac:(reflexivity) ltac:(reflexivity) f). }
  apply (decode_bits_b64_nan _ R). rewrite E. exact N.
Qed.

(* ---------- any transported integer; the float parsers end to end ---------- *)
(* the binary64 a case-line integer denotes (the Go side writes math.Float64bits, which is
   already in [0, 2^64); other integers are read modulo 2^64, as [decode_bits] does) *)
Definition b64_of_line (b : Z) : binary64 := b64_of_bits (b mod 2 ^ 64).
Lemma b64_of_line_in_range b : (0 <= b < 2 ^ 64)%Z -> b64_of_line b = b64_of_bits b.
Proof. intro H. unfold b64_of_line. rewrite Z.mod_small by exact H. reflexivity. Qed.

Theorem decode_bits_b64_all b :
  match decode_bits b with
  | XFin q => is_finite 53 1024 (b64_of_line b) = true /\ Q2R q = B2R 53 1024 (b64_of_line b)
  | XNaN => fl_is_nan 53 1024 (b64_of_line b) = true
  | XInf s => b64_of_line b = B754_infinity 53 1024 s
  end.
Proof.
  unfold b64_of_line. pose proof (mod64_range b) as R. rewrite (decode_bits_mod64 b).
  destruct (decode_bits (b mod 2 ^ 64)) as [|s|q] eqn:D.
  - apply (decode_bits_b64_nan _ R). exact D.
  - apply (decode_bits_b64_inf _ s R). exact D.
  - apply (decode_bits_b64_fin _ q R D).
Qed.

(* [pQ] yields exactly the real value of the finite float at the head of the line; [pX] yields
   its exact classification *)
Theorem pQ_sound_R l q r : pQ l = Some (q, r) ->
  exists b, l = b :: r /\ is_finite 53 1024 (b64_of_line b) = true /\ Q2R q = B2R 53 1024 (b64_of_line b).
Proof.
  intro H. apply pQ_some in H. destruct H as (b & -> & D). exists b. split; [reflexivity|].
  pose proof (decode_bits_b64_all b) as A. rewrite D in A. exact A.
Qed.
Theorem pX_sound_R l x r : pX l = Some (x, r) ->
  exists b, l = b :: r /\
    match x with
    | XFin q => is_finite 53 1024 (b64_of_line b) = true /\ Q2R q = B2R 53 1024 (b64_of_line b)
    | XNaN => fl_is_nan 53 1024 (b64_of_line b) = true
    | XInf s => b64_of_line b = B754_infinity 53 1024 s
    end.
Proof.
  intro H. apply pX_some in H. destruct H as (b & -> & ->). exists b. split; [reflexivity|].
  apply decode_bits_b64_all.
Qed.

(* unit round-off *)
Theorem Q2R_ulp53 : Q2R ulp53 = bpow radix2 (-53).
Proof. change ulp53 with (two_pow (-53)). apply Q2R_two_pow. Qed.

(* ---------- comparators over the reals ---------- *)
Theorem within_sound_R tol e o : within tol e o = true -> Rabs (Q2R o - Q2R e) <= Q2R tol.
Proof.
  intro H. apply within_sound in H. apply Qle_Rle in H. rewrite Q2R_Qabs, Q2R_minus in H. exact H.
Qed.
Theorem within_complete_R tol e o : Rabs (Q2R o - Q2R e) <= Q2R tol -> within tol e o = true.
Proof.
  intro H. apply within_iff. apply Rle_Qle. rewrite Q2R_Qabs, Q2R_minus. exact H.
Qed.
Theorem close_sound_R rel abs e o : close rel abs e o = true ->
  Rabs (Q2R o - Q2R e) <= Q2R abs + Q2R rel * Rabs (Q2R e).
Proof.
  intro H. apply close_sound in H. apply Qle_Rle in H.
  rewrite Q2R_Qabs, Q2R_minus, Q2R_plus, Q2R_mult, Q2R_Qabs in H. exact H.
Qed.
(* expected value finite: the observation is a finite float whose real value is within tol *)
Theorem xwithin_fin_R tol e o : xwithin tol (XFin e) o = true ->
  exists q, o = XFin q /\ Rabs (Q2R q - Q2R e) <= Q2R tol.
Proof.
  intro H. destruct o as [| |q]; try discriminate. exists q. split; [reflexivity|].
  apply within_sound_R. exact H.
Qed.
Theorem xeq_fin_R e o : xeq (XFin e) o = true -> exists q, o = XFin q /\ Q2R q = Q2R e.
Proof. intro H. apply xeq_fin in H. destruct H as (q & -> & H). exists q. split; [reflexivity|]. apply Qeq_eqR. exact H. Qed.

(* the full reading of [xwithin] *)
Theorem xwithin_spec_R tol e o : xwithin tol e o = true <->
  match e, o with
  | XNaN, XNaN => True
  | XInf a, XInf b => a = b
  | XFin x, XFin y => Rabs (Q2R y - Q2R x) <= Q2R tol
  | _, _ => False
  end.
Proof.
  rewrite xwithin_spec. destruct e as [|a|x], o as [|b|y]; try tauto.
  split; intro H.
  - apply Qle_Rle in H. rewrite Q2R_Qabs, Q2R_minus in H. exact H.
  - apply Rle_Qle. rewrite Q2R_Qabs, Q2R_minus. exact H.
Qed.
(* relative reading of [close] when the expected value is not 0 *)
Theorem close_sound_rel_R rel abs e o : close rel abs e o = true -> Q2R e <> 0 ->
  Rabs (Q2R o - Q2R e) / Rabs (Q2R e) <= Q2R rel + Q2R abs / Rabs (Q2R e).
Proof.
  intros H N. apply close_sound_R in H. pose proof (Rabs_pos_lt _ N) as P.
  apply Rmult_le_reg_r with (r := Rabs (Q2R e)); [exact P|].
  unfold Rdiv. rewrite Rmult_assoc, Rinv_l by lra. rewrite Rmult_plus_distr_r, Rmult_assoc, Rinv_l by lra. lra.
Qed.

(* close_sqrt compares squares; over the reals that bounds the distance to the square root.
   With s >= 0, v >= 0:  |s - sqrt v| * (s + sqrt v) = |s^2 - v| <= tol. *)
Lemma sqrt_gap (s v : R) : 0 <= s -> 0 <= v -> Rabs (s - sqrt v) * (s + sqrt v) = Rabs (s * s - v).
Proof.
  intros Hs Hv. pose proof (sqrt_pos v) as Hq. pose proof (sqrt_sqrt v Hv) as Hqq.
  replace (s * s - v) with ((s - sqrt v) * (s + sqrt v)) by (rewrite <- Hqq at 3; ring).
  rewrite Rabs_mult. f_equal. symmetry. apply Rabs_pos_eq. lra.
Qed.

(* general bound, including v = 0:  |s - sqrt v| <= sqrt tol *)
Theorem close_sqrt_sound_abs tol v s : close_sqrt tol v s = true -> 0 <= Q2R v ->
  0 <= Q2R s /\ Rabs (Q2R s - sqrt (Q2R v)) <= sqrt (Q2R tol).
Proof.
  intros H Hv. apply close_sqrt_sound_Q in H. destruct H as [Hs Ht].
  apply Qle_Rle in Hs, Ht. rewrite RMicromega.Q2R_0 in Hs. rewrite Q2R_Qabs, Q2R_minus, Q2R_mult in Ht.
  split; [exact Hs|].
  pose proof (sqrt_gap _ _ Hs Hv) as G. pose proof (sqrt_pos (Q2R v)) as Hq.
  set (d := Rabs (Q2R s - sqrt (Q2R v))) in *.
  assert (Hd : 0 <= d) by apply Rabs_pos.
  assert (D : d <= Q2R s + sqrt (Q2R v)).
  { unfold d. apply Rabs_le. lra. }
  assert (Q : d * d <= Q2R tol) by nra.
  rewrite <- (sqrt_square d Hd). apply sqrt_le_1_alt. exact Q.
Qed.

(* v > 0:  |s - sqrt v| <= tol / sqrt v *)
Theorem close_sqrt_sound tol v s : close_sqrt tol v s = true -> 0 < Q2R v ->
  0 <= Q2R s /\ Rabs (Q2R s - sqrt (Q2R v)) <= Q2R tol / sqrt (Q2R v).
Proof.
  intros H Hv. apply close_sqrt_sound_Q in H. destruct H as [Hs Ht].
  apply Qle_Rle in Hs, Ht. rewrite RMicromega.Q2R_0 in Hs. rewrite Q2R_Qabs, Q2R_minus, Q2R_mult in Ht.
  split; [exact Hs|].
  pose proof (sqrt_gap _ _ Hs (Rlt_le _ _ Hv)) as G. pose proof (sqrt_lt_R0 _ Hv) as Hq.
  set (d := Rabs (Q2R s - sqrt (Q2R v))) in *.
  assert (Hd : 0 <= d) by apply Rabs_pos.
  apply Rmult_le_reg_r with (r := sqrt (Q2R v)); [exact Hq|].
  unfold Rdiv. rewrite Rmult_assoc, Rinv_l by lra. rewrite Rmult_1_r. nra.
Qed.

(* relative form: if the caller's tolerance on the square is at most r * v, the observation is
   within r * sqrt v of the root, i.e. relative error r *)
Theorem close_sqrt_sound_rel tol v s r : close_sqrt tol v s = true -> 0 < Q2R v ->
  Q2R tol <= r * Q2R v -> Rabs (Q2R s - sqrt (Q2R v)) <= r * sqrt (Q2R v).
Proof.
  intros H Hv Hr. destruct (close_sqrt_sound tol v s H Hv) as [_ B].
  pose proof (sqrt_lt_R0 _ Hv) as Hq. pose proof (sqrt_sqrt _ (Rlt_le _ _ Hv)) as Hqq.
  eapply Rle_trans; [exact B|].
  apply Rmult_le_reg_r with (r := sqrt (Q2R v)); [exact Hq|].
  unfold Rdiv. rewrite Rmult_assoc, Rinv_l by lra. rewrite Rmult_1_r, Rmult_assoc, Hqq. exact Hr.
Qed.

(* v = 0: the observation is at most sqrt tol (and 0 if tol = 0) *)
Theorem close_sqrt_sound_zero tol v s : close_sqrt tol v s = true -> Q2R v = 0 ->
  0 <= Q2R s <= sqrt (Q2R tol).
Proof.
  intros H Hv. destruct (close_sqrt_sound_abs tol v s H ltac:(lra)) as [Hs B].
  rewrite Hv, sqrt_0, Rminus_0_r in B. rewrite Rabs_pos_eq in B by exact Hs. lra.
Qed.

(* the form of DESIGN section 3: a tolerance rel * v on the square gives relative error rel on
   the root, for every v >= 0 (v = 0 forces s = 0) *)
Theorem close_sqrt_sound_design rel v s : close_sqrt (rel * v) v s = true -> 0 <= Q2R v ->
  Rabs (Q2R s - sqrt (Q2R v)) <= Q2R rel * sqrt (Q2R v).
Proof.
  intros H Hv. destruct (Rle_lt_or_eq_dec _ _ Hv) as [P|Z].
  - apply (close_sqrt_sound_rel _ _ _ _ H P). rewrite Q2R_mult. lra.
  - destruct (close_sqrt_sound_abs _ _ _ H Hv) as [_ B]. rewrite Q2R_mult, <- Z, Rmult_0_r in B.
    rewrite <- Z. rewrite sqrt_0 in *. lra.
Qed.

(* non-vacuity *)
Example close_sqrt_ex : close_sqrt (1 # 100) 2 (1414 # 1000) = true.
Proof. reflexivity. Qed.
Example b64_one : B2R 53 1024 (b64_of_bits 0x3FF0000000000000) = 1.
Proof.
  destruct (decode_bits_b64_fin 0x3FF0000000000000 1 ltac:(rewrite p64; lia) eq_refl) as [_ H].
  rewrite <- H. apply RMicromega.Q2R_1.
Qed.

Print Assumptions Q2R_dyadic.
Print Assumptions decode_bits_b64_fin.
Print Assumptions decode_bits_b64_fin_iff.
Print Assumptions decode_bits_b64_nan.
Print Assumptions decode_bits_b64_inf.
Print Assumptions decode_bits_of_b64.
Print Assumptions decode_bits_of_b64_nan.
Print Assumptions within_sound_R.
Print Assumptions close_sound_R.
Print Assumptions xwithin_fin_R.
Print Assumptions close_sqrt_sound_abs.
Print Assumptions close_sqrt_sound.
Print Assumptions close_sqrt_sound_rel.
Print Assumptions decode_bits_b64_all.
Print Assumptions pQ_sound_R.
Print Assumptions pX_sound_R.
Print Assumptions xwithin_spec_R.
Print Assumptions close_sound_rel_R.
Print Assumptions close_sqrt_sound_zero.
Print Assumptions close_sqrt_sound_design.

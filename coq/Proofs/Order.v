(* Proofs about Model/Order.v: the fuelled recursive DFS (pre-order, post-order, Euler tour)
   satisfies the inductive specification Spec/Dfs.v, and the set-theoretic consequences of
   that specification. *)
From Coq Require Import List ZArith NArith Lia Bool Permutation.
From MM Require Import Base.GCGraph Model.Marks Spec.Dfs Model.Order.
Import ListNotations.

(* ------------------------------------------------------------------------------------ *)
(* generic list facts                                                                    *)
(* ------------------------------------------------------------------------------------ *)

Lemma NoDup_app_intro : forall (A : Type) (l1 l2 : list A),
  NoDup l1 -> NoDup l2 -> (forall x, In x l1 -> ~ In x l2) -> NoDup (l1 ++ l2).
Proof.
  intros A l1 l2 H1 H2. induction H1 as [|a l Ha Hl IH]; intros Hdis; simpl.
  - exact H2.
  - constructor.
    + rewrite in_app_iff. intros [Hc|Hc].
      * exact (Ha Hc).
      * apply (Hdis a); [left; reflexivity | exact Hc].
    + apply IH. intros x Hx. apply Hdis. right. exact Hx.
Qed.

Lemma filter_all_true : forall (A : Type) (f : A -> bool) (l : list A),
  (forall x, In x l -> f x = true) -> filter f l = l.
Proof.
  intros A f l. induction l as [|a t IH]; intros Hall; simpl.
  - reflexivity.
  - rewrite (Hall a (or_introl eq_refl)). f_equal. apply IH.
    intros x Hx. apply Hall. right. exact Hx.
Qed.

(* ------------------------------------------------------------------------------------ *)
(* enters / exits                                                                        *)
(* ------------------------------------------------------------------------------------ *)

Lemma enters_app : forall a b, enters (a ++ b) = enters a ++ enters b.
Proof. intros a b. unfold enters. rewrite filter_app, map_app. reflexivity. Qed.

Lemma exits_app : forall a b, exits (a ++ b) = exits a ++ exits b.
Proof. intros a b. unfold exits. rewrite filter_app, map_app. reflexivity. Qed.

Lemma enters_wrap : forall n evs, enters (Enter n :: evs ++ [Exit n]) = n :: enters evs.
Proof.
  intros n evs. unfold enters. simpl. rewrite filter_app, map_app. simpl.
  rewrite app_nil_r. reflexivity.
Qed.

Lemma exits_wrap : forall n evs, exits (Enter n :: evs ++ [Exit n]) = exits evs ++ [n].
Proof.
  intros n evs. unfold exits. simpl. rewrite filter_app, map_app. simpl. reflexivity.
Qed.

(* non-dependent mutual induction principle *)
Scheme dfs_node_min := Minimality for dfs_node Sort Prop
  with dfs_succs_min := Minimality for dfs_succs Sort Prop.
Combined Scheme dfs_min from dfs_node_min, dfs_succs_min.

(* ------------------------------------------------------------------------------------ *)
(* PART A — consequences of the specification                                            *)
(* ------------------------------------------------------------------------------------ *)
Section SpecFacts.
  Variable out : N -> list N.

  (* ---- A1: the specification is deterministic ---- *)
  Lemma dfs_det_both :
    (forall V n e1 V1, dfs_node out V n e1 V1 ->
       forall e2 V2, dfs_node out V n e2 V2 -> e1 = e2 /\ V1 = V2) /\
    (forall V l e1 V1, dfs_succs out V l e1 V1 ->
       forall e2 V2, dfs_succs out V l e2 V2 -> e1 = e2 /\ V1 = V2).
  Proof.
    apply (dfs_min out
      (fun V n e1 V1 => forall e2 V2, dfs_node out V n e2 V2 -> e1 = e2 /\ V1 = V2)
      (fun V l e1 V1 => forall e2 V2, dfs_succs out V l e2 V2 -> e1 = e2 /\ V1 = V2)).
    - intros V n evs V' _ IH e2 V2 H2.
      inversion H2 as [V0 n0 evs0 V0' Hs2]; subst.
      destruct (IH _ _ Hs2) as [E1 E2]. subst. split; reflexivity.
    - intros V e2 V2 H2. inversion H2; subst. split; reflexivity.
    - intros V s t evs V' Hin _ IH e2 V2 H2.
      inversion H2 as [ | V0 s0 t0 evs0 V0' Hin0 Hs0 | V0 s0 t0 ea Va eb Vb Hnin0 Hn0 Hs0]; subst.
      + apply IH. exact Hs0.
      + contradiction.
    - intros V s t e1 V1 e2 V2 Hnin _ IHn _ IHs e3 V3 H3.
      inversion H3 as [ | V0 s0 t0 evs0 V0' Hin0 Hs0 | V0 s0 t0 ea Va eb Vb Hnin0 Hn0 Hs0]; subst.
      + contradiction.
      + destruct (IHn _ _ Hn0) as [E1 E2]. subst.
        destruct (IHs _ _ Hs0) as [E1 E2]. subst. split; reflexivity.
  Qed.

  Theorem dfs_det : forall V n e1 V1, dfs_node out V n e1 V1 ->
    forall e2 V2, dfs_node out V n e2 V2 -> e1 = e2 /\ V1 = V2.
  Proof. exact (proj1 dfs_det_both). Qed.

  Theorem dfs_succs_det : forall V l e1 V1, dfs_succs out V l e1 V1 ->
    forall e2 V2, dfs_succs out V l e2 V2 -> e1 = e2 /\ V1 = V2.
  Proof. exact (proj2 dfs_det_both). Qed.

  (* ---- A2: the event sequence is properly nested ---- *)
  Lemma dfs_nested_both :
    (forall V n evs V', dfs_node out V n evs V' -> nested evs) /\
    (forall V l evs V', dfs_succs out V l evs V' -> nested evs).
  Proof.
    apply (dfs_min out (fun _ _ evs _ => nested evs) (fun _ _ evs _ => nested evs)).
    - intros V n evs V' _ IH. apply nested_wrap. exact IH.
    - intros V. apply nested_nil.
    - intros V s t evs V' _ _ IH. exact IH.
    - intros V s t e1 V1 e2 V2 _ _ IH1 _ IH2. apply nested_app; assumption.
  Qed.

  Theorem dfs_nested : forall V n evs V', dfs_node out V n evs V' -> nested evs.
  Proof. exact (proj1 dfs_nested_both). Qed.

  Theorem dfs_succs_nested : forall V l evs V', dfs_succs out V l evs V' -> nested evs.
  Proof. exact (proj2 dfs_nested_both). Qed.

  (* ---- A3: the visited sets ---- *)
  Definition dfs_sets_stmt (V : list N) (evs : list event) (V' : list N) : Prop :=
    NoDup (enters evs) /\
    (forall x, In x (enters evs) -> ~ In x V) /\
    (forall x, In x V' <-> In x V \/ In x (enters evs)) /\
    Permutation (enters evs) (exits evs).

  Lemma dfs_sets_both :
    (forall V n evs V', dfs_node out V n evs V' -> ~ In n V -> dfs_sets_stmt V evs V') /\
    (forall V l evs V', dfs_succs out V l evs V' -> dfs_sets_stmt V evs V').
  Proof.
    apply (dfs_min out
      (fun V n evs V' => ~ In n V -> dfs_sets_stmt V evs V')
      (fun V l evs V' => dfs_sets_stmt V evs V')).
    - intros V n evs V' _ IH Hn.
      destruct IH as (Hnd & Hfresh & Hset & Hperm).
      unfold dfs_sets_stmt. rewrite enters_wrap, exits_wrap.
      split; [|split; [|split]].
      + constructor; [|exact Hnd].
        intro Hc. apply (Hfresh _ Hc). left. reflexivity.
      + intros x [Hx|Hx].
        * subst x. exact Hn.
        * intro HV. apply (Hfresh _ Hx). right. exact HV.
      + intro x. rewrite Hset. simpl. tauto.
      + apply Permutation_trans with (n :: exits evs).
        * apply perm_skip. exact Hperm.
        * apply Permutation_cons_append.
    - intros V. unfold dfs_sets_stmt. simpl.
      split; [constructor|split; [|split]].
      + intros x [].
      + intro x. tauto.
      + constructor.
    - intros V s t evs V' _ _ IH. exact IH.
    - intros V s t e1 V1 e2 V2 Hnin _ IH1 _ IH2.
      destruct (IH1 Hnin) as (Hnd1 & Hfresh1 & Hset1 & Hperm1).
      destruct IH2 as (Hnd2 & Hfresh2 & Hset2 & Hperm2).
      unfold dfs_sets_stmt. rewrite enters_app, exits_app.
      split; [|split; [|split]].
      + apply NoDup_app_intro; [exact Hnd1 | exact Hnd2 |].
        intros x Hx1 Hx2. apply (Hfresh2 _ Hx2). apply Hset1. right. exact Hx1.
      + intros x Hx. apply in_app_or in Hx. destruct Hx as [Hx|Hx].
        * apply Hfresh1. exact Hx.
        * intro HV. apply (Hfresh2 _ Hx). apply Hset1. left. exact HV.
      + intro x. rewrite Hset2, Hset1, in_app_iff. tauto.
      + apply Permutation_app; assumption.
  Qed.

  Theorem dfs_sets : forall V n evs V', dfs_node out V n evs V' -> ~ In n V ->
    NoDup (enters evs) /\ (forall x, In x (enters evs) -> ~ In x V) /\
    (forall x, In x V' <-> In x V \/ In x (enters evs)) /\ Permutation (enters evs) (exits evs).
  Proof. exact (proj1 dfs_sets_both). Qed.

  Theorem dfs_succs_sets : forall V l evs V', dfs_succs out V l evs V' ->
    NoDup (enters evs) /\ (forall x, In x (enters evs) -> ~ In x V) /\
    (forall x, In x V' <-> In x V \/ In x (enters evs)) /\ Permutation (enters evs) (exits evs).
  Proof. exact (proj2 dfs_sets_both). Qed.

  (* ---- A4: the root is entered first and left last ---- *)
  Theorem dfs_ends : forall V n evs V', dfs_node out V n evs V' ->
    hd_error (enters evs) = Some n /\ exists l, exits evs = l ++ [n].
  Proof.
    intros V n evs V' H. inversion H as [V0 n0 evs0 V0' Hs]; subst.
    rewrite enters_wrap, exits_wrap. split.
    - reflexivity.
    - exists (exits evs0). reflexivity.
  Qed.

  (* ---- A5: the nodes visited from the empty set are exactly the reachable ones ---- *)
  Lemma dfs_paths_both :
    (forall V n evs V', dfs_node out V n evs V' ->
       forall x, In x (enters evs) -> path out n x) /\
    (forall V l evs V', dfs_succs out V l evs V' ->
       forall x, In x (enters evs) -> exists s, In s l /\ path out s x).
  Proof.
    apply (dfs_min out
      (fun V n evs V' => forall x, In x (enters evs) -> path out n x)
      (fun V l evs V' => forall x, In x (enters evs) -> exists s, In s l /\ path out s x)).
    - intros V n evs V' _ IH x Hx. rewrite enters_wrap in Hx. destruct Hx as [Hx|Hx].
      + subst x. apply path_refl.
      + destruct (IH _ Hx) as (s & Hs & Hp). apply path_step with s; assumption.
    - intros V x Hx. destruct Hx.
    - intros V s t evs V' _ _ IH x Hx. destruct (IH _ Hx) as (s' & Hs' & Hp).
      exists s'. split; [right; exact Hs' | exact Hp].
    - intros V s t e1 V1 e2 V2 _ _ IH1 _ IH2 x Hx.
      rewrite enters_app in Hx. apply in_app_or in Hx. destruct Hx as [Hx|Hx].
      + exists s. split; [left; reflexivity | apply IH1; exact Hx].
      + destruct (IH2 _ Hx) as (s' & Hs' & Hp). exists s'. split; [right; exact Hs' | exact Hp].
  Qed.

  Definition dfs_closed_stmt (V V' : list N) : Prop :=
    (forall x, In x V -> In x V') /\
    (forall u, In u V' -> ~ In u V -> forall s, In s (out u) -> In s V').

  Lemma dfs_closed_both :
    (forall V n evs V', dfs_node out V n evs V' -> In n V' /\ dfs_closed_stmt V V') /\
    (forall V l evs V', dfs_succs out V l evs V' ->
       (forall s, In s l -> In s V') /\ dfs_closed_stmt V V').
  Proof.
    apply (dfs_min out
      (fun V n evs V' => In n V' /\ dfs_closed_stmt V V')
      (fun V l evs V' => (forall s, In s l -> In s V') /\ dfs_closed_stmt V V')).
    - intros V n evs V' _ (Hl & Hmono & Hcl). split; [|split].
      + apply Hmono. left. reflexivity.
      + intros x Hx. apply Hmono. right. exact Hx.
      + intros u Hu HnV s Hs. destruct (N.eq_dec u n) as [E|E].
        * subst u. apply Hl. exact Hs.
        * apply (Hcl u Hu); [|exact Hs]. intros [Hc|Hc]; [congruence | contradiction].
    - intros V. split; [|split].
      + intros s [].
      + auto.
      + intros u Hu HnV. contradiction.
    - intros V s t evs V' Hin _ (Hl & Hmono & Hcl). split; [|split].
      + intros s' [Hs'|Hs'].
        * subst s'. apply Hmono. exact Hin.
        * apply Hl. exact Hs'.
      + exact Hmono.
      + exact Hcl.
    - intros V s t e1 V1 e2 V2 _ _ (Hs1 & Hmono1 & Hcl1) _ (Hl2 & Hmono2 & Hcl2).
      split; [|split].
      + intros s' [Hs'|Hs'].
        * subst s'. apply Hmono2. exact Hs1.
        * apply Hl2. exact Hs'.
      + intros x Hx. apply Hmono2, Hmono1. exact Hx.
      + intros u Hu HnV s' Hs'. destruct (in_dec N.eq_dec u V1) as [Hin1|Hnin1].
        * apply Hmono2. apply (Hcl1 u Hin1 HnV). exact Hs'.
        * apply (Hcl2 u Hu Hnin1). exact Hs'.
  Qed.

  Theorem dfs_reachable : forall r evs V', dfs_node out [] r evs V' ->
    forall v, In v (enters evs) <-> path out r v.
  Proof.
    intros r evs V' H v. split.
    - apply (proj1 dfs_paths_both _ _ _ _ H).
    - intro Hp.
      destruct (proj1 dfs_closed_both _ _ _ _ H) as (Hr & _ & Hcl).
      destruct (dfs_sets _ _ _ _ H (fun F : In r [] => F)) as (_ & _ & Hset & _).
      assert (Hin : In v V').
      { clear Hset H. induction Hp as [u|u w x Hw _ IH].
        - exact Hr.
        - apply IH. apply (Hcl u Hr); [intros [] | exact Hw]. }
      apply Hset in Hin. destruct Hin as [[]|Hin]. exact Hin.
  Qed.
End SpecFacts.

(* ------------------------------------------------------------------------------------ *)
(* PART B — the model satisfies the specification                                        *)
(* ------------------------------------------------------------------------------------ *)

Lemma nodes_upto_In : forall n u, In u (nodes_upto n) <-> (u < n)%N.
Proof.
  intros n u. unfold nodes_upto. rewrite in_map_iff. split.
  - intros (k & Hk & Hin). apply in_seq in Hin. lia.
  - intro Hu. exists (N.to_nat u). split.
    + apply N2Nat.id.
    + apply in_seq. lia.
Qed.

Lemma nodes_upto_length : forall n, length (nodes_upto n) = N.to_nat n.
Proof. intro n. unfold nodes_upto. rewrite map_length, seq_length. reflexivity. Qed.

Section WithMarks.
  Hypothesis Hnew  : forall i, m_test m_new i = false.
  Hypothesis Hmark : forall m i j, m_test (m_mark m i) j = (j =? Z.of_N i)%Z || m_test m j.
  Local Opaque m_test m_mark m_new.

  Variable out : N -> list N.

  Definition keep (pe px : bool) (e : event) : bool := if is_enter e then pe else px.
  Definition agrees (V : list N) (m : marks) : Prop :=
    forall x, In x V <-> m_test m (Z.of_N x) = true.

  Lemma agrees_new : agrees [] m_new.
  Proof. intro x. rewrite Hnew. simpl. split; [tauto | discriminate]. Qed.

  Lemma agrees_mark : forall V m n, agrees V m -> agrees (n :: V) (m_mark m n).
  Proof.
    intros V m n Hag x. rewrite Hmark. simpl. rewrite orb_true_iff, Z.eqb_eq.
    pose proof (Hag x) as Hx.
    split; intros [H|H].
    - left. lia.
    - right. apply Hx. exact H.
    - left. lia.
    - right. apply Hx. exact H.
  Qed.

  (* ---- B1 ---- *)
  Definition rec_ok (pe px : bool) (rec : N -> dstate -> option dstate) : Prop :=
    forall n m acc s' V, rec n (m, acc) = Some s' -> agrees V m ->
      exists evs V', dfs_node out V n evs V' /\ agrees V' (fst s') /\
                     snd s' = rev (filter (keep pe px) evs) ++ acc.

  Lemma visit_succs_sound : forall pe px rec, rec_ok pe px rec ->
    forall l m acc s' V, visit_succs rec l (m, acc) = Some s' -> agrees V m ->
      exists evs V', dfs_succs out V l evs V' /\ agrees V' (fst s') /\
                     snd s' = rev (filter (keep pe px) evs) ++ acc.
  Proof.
    intros pe px rec Hrec l. induction l as [|v t IH]; intros m acc s' V Hrun Hag; simpl in Hrun.
    - inversion Hrun; subst s'. exists [], V. split; [apply dfs_done|]. split; [exact Hag|reflexivity].
    - destruct (m_test m (Z.of_N v)) eqn:Et.
      + destruct (IH _ _ _ _ Hrun Hag) as (evs & V' & Hd & Hag' & Hacc).
        exists evs, V'. split; [|split; assumption].
        apply dfs_skip; [|exact Hd]. apply Hag. exact Et.
      + destruct (rec v (m, acc)) as [[m1 acc1]|] eqn:Er; [|discriminate].
        destruct (Hrec _ _ _ _ _ Er Hag) as (e1 & V1 & Hd1 & Hag1 & Hacc1).
        simpl in Hag1, Hacc1.
        destruct (IH _ _ _ _ Hrun Hag1) as (e2 & V2 & Hd2 & Hag2 & Hacc2).
        exists (e1 ++ e2), V2. split; [|split].
        * apply dfs_descend with V1; [|exact Hd1|exact Hd2].
          intro Hin. apply Hag in Hin. congruence.
        * exact Hag2.
        * rewrite Hacc2, Hacc1, filter_app, rev_app_distr, app_assoc. reflexivity.
  Qed.

  Lemma keep_wrap : forall pe px n evs acc,
    rev (filter (keep pe px) (Enter n :: evs ++ [Exit n])) ++ acc =
    (if px then [Exit n] else []) ++ rev (filter (keep pe px) evs) ++
    (if pe then Enter n :: acc else acc).
  Proof.
    intros pe px n evs acc.
    change (Enter n :: evs ++ [Exit n]) with ([Enter n] ++ evs ++ [Exit n]).
    rewrite !filter_app, !rev_app_distr. unfold keep at 1 3. simpl.
    destruct pe, px; simpl; rewrite <- ?app_assoc; simpl; rewrite ?app_nil_r; reflexivity.
  Qed.

  Theorem visit_sound : forall fuel pe px n m acc s' V,
    visit out pe px fuel n (m, acc) = Some s' -> agrees V m ->
    exists evs V', dfs_node out V n evs V' /\ agrees V' (fst s') /\
                   snd s' = rev (filter (keep pe px) evs) ++ acc.
  Proof.
    induction fuel as [|f IHf]; intros pe px n m acc s' V Hrun Hag; simpl in Hrun.
    - discriminate.
    - destruct (visit_succs (visit out pe px f) (out n)
                  (m_mark m n, if pe then Enter n :: acc else acc)) as [[m2 acc2]|] eqn:Es;
        [|discriminate].
      inversion Hrun; subst s'. simpl.
      assert (Hrec : rec_ok pe px (visit out pe px f)).
      { intros n0 m0 acc0 s0 V0. apply IHf. }
      destruct (visit_succs_sound pe px _ Hrec _ _ _ _ _ Es (agrees_mark V m n Hag))
        as (evs & V' & Hd & Hag' & Hacc).
      simpl in Hag', Hacc.
      exists (Enter n :: evs ++ [Exit n]), V'. split; [|split].
      + apply dfs_visit. exact Hd.
      + exact Hag'.
      + rewrite keep_wrap, Hacc. destruct px; reflexivity.
  Qed.

  (* ---- B2: enough fuel ---- *)
  (* the marks only grow *)
  Definition mle (m m' : marks) : Prop := forall j, m_test m j = true -> m_test m' j = true.
  (* number of unmarked elements of l *)
  Definition unm (m : marks) (l : list N) : nat :=
    length (filter (fun u => negb (m_test m (Z.of_N u))) l).

  Lemma mle_refl : forall m, mle m m.
  Proof. intros m j H. exact H. Qed.

  Lemma mle_trans : forall a b c, mle a b -> mle b c -> mle a c.
  Proof. intros a b c Hab Hbc j H. apply Hbc, Hab, H. Qed.

  Lemma mle_mark : forall m i, mle m (m_mark m i).
  Proof. intros m i j H. rewrite Hmark, H. apply orb_true_r. Qed.

  Lemma unm_le_length : forall m l, (unm m l <= length l)%nat.
  Proof.
    intros m l. unfold unm. induction l as [|a t IH]; simpl.
    - lia.
    - destruct (negb (m_test m (Z.of_N a))); simpl; lia.
  Qed.

  Lemma unm_mono : forall m m' l, mle m m' -> (unm m' l <= unm m l)%nat.
  Proof.
    intros m m' l Hle. unfold unm. induction l as [|a t IH]; simpl.
    - lia.
    - destruct (m_test m (Z.of_N a)) eqn:Ea.
      + rewrite (Hle _ Ea). simpl. exact IH.
      + destruct (m_test m' (Z.of_N a)); simpl; lia.
  Qed.

  Lemma unm_strict : forall m m' l u, mle m m' -> In u l ->
    m_test m (Z.of_N u) = false -> m_test m' (Z.of_N u) = true ->
    (unm m' l < unm m l)%nat.
  Proof.
    intros m m' l u Hle. induction l as [|a t IH]; intros Hin Hu Hu'.
    - destruct Hin.
    - pose proof (unm_mono m m' t Hle) as Hmono. unfold unm in *. simpl.
      destruct Hin as [Ha|Hin].
      + subst a. rewrite Hu, Hu'. simpl. lia.
      + specialize (IH Hin Hu Hu').
        destruct (m_test m (Z.of_N a)) eqn:Ea.
        * rewrite (Hle _ Ea). simpl. exact IH.
        * destruct (m_test m' (Z.of_N a)); simpl; lia.
  Qed.

  Lemma unm_mark : forall m l u, In u l -> m_test m (Z.of_N u) = false ->
    (unm (m_mark m u) l < unm m l)%nat.
  Proof.
    intros m l u Hin Hu. apply unm_strict with u; [apply mle_mark | exact Hin | exact Hu |].
    rewrite Hmark, Z.eqb_refl. reflexivity.
  Qed.

  Definition rec_total (n : N) (f : nat) (rec : N -> dstate -> option dstate) : Prop :=
    forall r m acc, (r < n)%N -> m_test m (Z.of_N r) = false ->
      (unm m (nodes_upto n) <= f)%nat ->
      exists s', rec r (m, acc) = Some s' /\ mle m (fst s').

  Lemma visit_succs_total : forall n f rec, rec_total n f rec ->
    forall l m acc, (forall v, In v l -> (v < n)%N) ->
      (unm m (nodes_upto n) <= f)%nat ->
      exists s', visit_succs rec l (m, acc) = Some s' /\ mle m (fst s').
  Proof.
    intros n f rec Hrec l. induction l as [|v t IH]; intros m acc Hl Hm; simpl.
    - exists (m, acc). split; [reflexivity | apply mle_refl].
    - assert (Ht : forall w, In w t -> (w < n)%N) by (intros w Hw; apply Hl; right; exact Hw).
      destruct (m_test m (Z.of_N v)) eqn:Et.
      + apply IH; assumption.
      + destruct (Hrec v m acc (Hl v (or_introl eq_refl)) Et Hm) as ([m1 acc1] & Er & Hle1).
        rewrite Er. simpl in Hle1.
        destruct (IH m1 acc1 Ht) as (s' & Hs' & Hle2).
        * pose proof (unm_mono m m1 (nodes_upto n) Hle1). lia.
        * exists s'. split; [exact Hs' | apply mle_trans with m1; assumption].
  Qed.

  Theorem visit_fuel : forall n, out_wf out n -> forall fuel pe px r m acc,
    (r < n)%N -> m_test m (Z.of_N r) = false ->
    (unm m (nodes_upto n) <= fuel)%nat ->
    exists s', visit out pe px fuel r (m, acc) = Some s' /\ mle m (fst s').
  Proof.
    intros n Hwf fuel. induction fuel as [|f IHf]; intros pe px r m acc Hr Hu Hm.
    - exfalso.
      assert (Hlt : (unm (m_mark m r) (nodes_upto n) < unm m (nodes_upto n))%nat).
      { apply unm_mark; [apply nodes_upto_In; exact Hr | exact Hu]. }
      lia.
    - simpl.
      assert (Hlt : (unm (m_mark m r) (nodes_upto n) < unm m (nodes_upto n))%nat).
      { apply unm_mark; [apply nodes_upto_In; exact Hr | exact Hu]. }
      assert (Hrec : rec_total n f (visit out pe px f)).
      { intros r0 m0 acc0. apply IHf. }
      destruct (visit_succs_total n f _ Hrec (out r) (m_mark m r)
                  (if pe then Enter r :: acc else acc)) as ([m2 acc2] & Es & Hle).
      + intros v Hv. apply (Hwf r v Hv).
      + lia.
      + rewrite Es. eexists. split; [reflexivity|]. simpl. simpl in Hle.
        apply mle_trans with (m_mark m r); [apply mle_mark | exact Hle].
  Qed.

  (* ---- run_visit ---- *)
  Lemma run_visit_sound : forall pe px fuel r l, run_visit out pe px fuel r = Some l ->
    exists evs V', dfs_node out [] r evs V' /\ l = filter (keep pe px) evs.
  Proof.
    intros pe px fuel r l Hrun. unfold run_visit in Hrun.
    destruct (visit out pe px fuel r (m_new, [])) as [s|] eqn:Ev; [|discriminate].
    inversion Hrun; subst l. rewrite <- rev_alt.
    destruct (visit_sound _ _ _ _ _ _ _ _ Ev agrees_new) as (evs & V' & Hd & _ & Hacc).
    exists evs, V'. split; [exact Hd|].
    rewrite Hacc, app_nil_r, rev_involutive. reflexivity.
  Qed.

  Lemma run_visit_total : forall n r fuel pe px, out_wf out n -> (r < n)%N ->
    (N.to_nat n <= fuel)%nat ->
    exists evs V', dfs_node out [] r evs V' /\
                   run_visit out pe px fuel r = Some (filter (keep pe px) evs).
  Proof.
    intros n r fuel pe px Hwf Hr Hfuel.
    destruct (visit_fuel n Hwf fuel pe px r m_new [] Hr (Hnew _)) as (s & Hs & _).
    { pose proof (unm_le_length m_new (nodes_upto n)) as H. rewrite nodes_upto_length in H. lia. }
    assert (Hrun : run_visit out pe px fuel r = Some (rev (snd s))).
    { unfold run_visit. rewrite Hs, <- rev_alt. reflexivity. }
    destruct (run_visit_sound _ _ _ _ _ Hrun) as (evs & V' & Hd & El).
    exists evs, V'. split; [exact Hd|]. rewrite Hrun, El. reflexivity.
  Qed.

  Lemma keep_enters : forall evs, map ev_node (filter (keep true false) evs) = enters evs.
  Proof.
    intro evs. unfold enters. f_equal. apply filter_ext. intros [a|a]; reflexivity.
  Qed.

  Lemma keep_exits : forall evs, map ev_node (filter (keep false true) evs) = exits evs.
  Proof.
    (* keep false true and is_exit are convertible *)
    intro evs. reflexivity.
  Qed.

  Lemma keep_all : forall evs, filter (keep true true) evs = evs.
  Proof. intro evs. apply filter_all_true. intros [a|a] _; reflexivity. Qed.

  (* ---- B3 ---- *)
  Theorem traversals_are_dfs : forall n r fuel, out_wf out n -> (r < n)%N ->
    (N.to_nat n < fuel)%nat ->
    exists evs V', dfs_node out [] r evs V' /\
      preorder out fuel r = Some (enters evs) /\
      postorder out fuel r = Some (exits evs) /\
      euler out fuel r = Some evs.
  Proof.
    intros n r fuel Hwf Hr Hfuel.
    assert (Hf : (N.to_nat n <= fuel)%nat) by lia.
    destruct (run_visit_total n r fuel true false Hwf Hr Hf) as (e1 & V1 & Hd1 & H1).
    destruct (run_visit_total n r fuel false true Hwf Hr Hf) as (e2 & V2 & Hd2 & H2).
    destruct (run_visit_total n r fuel true true Hwf Hr Hf) as (e3 & V3 & Hd3 & H3).
    destruct (dfs_det out _ _ _ _ Hd1 _ _ Hd2) as [E12 _].
    destruct (dfs_det out _ _ _ _ Hd1 _ _ Hd3) as [E13 _].
    subst e2 e3.
    exists e1, V1. split; [exact Hd1|]. unfold preorder, postorder, euler.
    rewrite H1, H2, H3. simpl. rewrite keep_enters, keep_exits, keep_all.
    repeat split; reflexivity.
  Qed.

  (* ---- B4 ---- *)
  Theorem preorder_sound : forall fuel r l, preorder out fuel r = Some l ->
    exists evs V', dfs_node out [] r evs V' /\ l = enters evs.
  Proof.
    intros fuel r l H. unfold preorder in H.
    destruct (run_visit out true false fuel r) as [es|] eqn:Er; [|discriminate].
    simpl in H. inversion H; subst l.
    destruct (run_visit_sound _ _ _ _ _ Er) as (evs & V' & Hd & Ees).
    exists evs, V'. split; [exact Hd|]. subst es. apply keep_enters.
  Qed.

  Theorem postorder_sound : forall fuel r l, postorder out fuel r = Some l ->
    exists evs V', dfs_node out [] r evs V' /\ l = exits evs.
  Proof.
    intros fuel r l H. unfold postorder in H.
    destruct (run_visit out false true fuel r) as [es|] eqn:Er; [|discriminate].
    simpl in H. inversion H; subst l.
    destruct (run_visit_sound _ _ _ _ _ Er) as (evs & V' & Hd & Ees).
    exists evs, V'. split; [exact Hd|]. subst es. apply keep_exits.
  Qed.

  Theorem euler_sound : forall fuel r l, euler out fuel r = Some l ->
    exists evs V', dfs_node out [] r evs V' /\ l = evs.
  Proof.
    intros fuel r l H. unfold euler in H.
    destruct (run_visit_sound _ _ _ _ _ H) as (evs & V' & Hd & Ees).
    exists evs, V'. split; [exact Hd|]. subst l. apply keep_all.
  Qed.
End WithMarks.

Print Assumptions dfs_det.
Print Assumptions dfs_reachable.
Print Assumptions traversals_are_dfs.

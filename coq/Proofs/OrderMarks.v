(* Proofs/OrderMarks.v — the traversal theorems of Proofs/Order.v with their two premises
   about the visited set discharged by the NodeMarks refinement (Proofs/Marks.v). *)
From Coq Require Import List ZArith NArith Lia Bool Permutation.
From MM Require Import Base.GCGraph Model.Marks Spec.Dfs Model.Order Proofs.Marks Proofs.Order.
Import ListNotations.

Theorem traversals_dfs : forall out n r fuel, out_wf out n -> (r < n)%N -> (N.to_nat n < fuel)%nat ->
  exists evs V', dfs_node out [] r evs V' /\
    preorder out fuel r = Some (enters evs) /\
    postorder out fuel r = Some (exits evs) /\
    euler out fuel r = Some evs.
Proof. intros out. exact (traversals_are_dfs new_spec mark_spec out). Qed.

Theorem preorder_is_dfs : forall out fuel r l, preorder out fuel r = Some l ->
  exists evs V', dfs_node out [] r evs V' /\ l = enters evs.
Proof. intros out. exact (preorder_sound new_spec mark_spec out). Qed.

Theorem postorder_is_dfs : forall out fuel r l, postorder out fuel r = Some l ->
  exists evs V', dfs_node out [] r evs V' /\ l = exits evs.
Proof. intros out. exact (postorder_sound new_spec mark_spec out). Qed.

Theorem euler_is_dfs : forall out fuel r l, euler out fuel r = Some l ->
  exists evs V', dfs_node out [] r evs V' /\ l = evs.
Proof. intros out. exact (euler_sound new_spec mark_spec out). Qed.

(* everything the specification implies for a traversal from the empty visited set *)
Theorem dfs_facts : forall out r evs V', dfs_node out [] r evs V' ->
  (forall v, In v (enters evs) <-> path out r v) /\
  NoDup (enters evs) /\
  hd_error (enters evs) = Some r /\
  Permutation (enters evs) (exits evs) /\
  (exists l, exits evs = l ++ [r]) /\
  nested evs.
Proof.
  intros out r evs V' H.
  destruct (dfs_sets out _ _ _ _ H (fun F => F)) as (Hnd & _ & _ & Hperm).
  destruct (dfs_ends out _ _ _ _ H) as (Hhd & Hlast).
  repeat split; auto.
  - apply (dfs_reachable out r evs V' H).
  - apply (dfs_reachable out r evs V' H).
  - eapply dfs_nested; eauto.
Qed.

Lemma reverse_spec : forall xs, reverse xs = rev xs.
Proof. intros xs. unfold reverse. symmetry. apply rev_alt. Qed.

(* Proofs/Quantile.v — theorems about Model/Quantile.v (C10). *)
From MM Require Import Base.Num Base.GASort Model.Sample Model.Quantile Spec.Quantile.
From Coq Require Import Qround Lia Lqa Qfield Permutation Sorted.
Local Open Scope Q_scope.

(* results are compared up to == on the value *)
Definition qr_eq (a b : qr) : Prop :=
  match a, b with
  | RNaN, RNaN => True
  | RVal u, RVal v => u == v
  | RPanic, RPanic => True
  | _, _ => False
  end.

Lemma qr_eq_refl : forall a, qr_eq a a.
Proof. destruct a; simpl; auto. reflexivity. Qed.
Lemma qr_eq_sym : forall a b, qr_eq a b -> qr_eq b a.
Proof. destruct a, b; simpl; auto. intro H; symmetry; exact H. Qed.
Lemma qr_eq_trans : forall a b c, qr_eq a b -> qr_eq b c -> qr_eq a c.
Proof. destruct a, b, c; simpl; auto; try tauto. intros H1 H2; rewrite H1; exact H2. Qed.

(* ---------- small helpers ---------- *)
Lemma nth_error_nth' : forall (l : list Q) i, (i < length l)%nat -> nth_error l i = Some (nth i l 0).
Proof.
  induction l as [|a t IH]; intros [|i] H; simpl in *; try lia; auto. apply IH. lia.
Qed.

Lemma Qofnat_nonneg : forall n, 0 <= Qofnat n.
Proof. intros. unfold Qofnat. change 0 with (inject_Z 0). rewrite <- Zle_Qle. lia. Qed.

Lemma Qltb_true : forall a b, Qltb a b = true <-> a < b.
Proof.
  intros a b. unfold Qltb. rewrite negb_true_iff. split; intro H.
  - apply Qnot_le_lt. intro C. apply Qle_bool_iff in C. congruence.
  - destruct (Qle_bool b a) eqn:E; [|reflexivity]. apply Qle_bool_iff in E. lra.
Qed.
Lemma Qltb_false : forall a b, Qltb a b = false <-> b <= a.
Proof. intros a b. unfold Qltb. rewrite negb_false_iff. apply Qle_bool_iff. Qed.
Lemma Qle_bool_false : forall a b, Qle_bool a b = false <-> b < a.
Proof.
  intros a b. split; intro H.
  - apply Qnot_le_lt. intro C. apply Qle_bool_iff in C. congruence.
  - destruct (Qle_bool a b) eqn:E; [|reflexivity]. apply Qle_bool_iff in E. lra.
Qed.

(* ====================================================================== *)
(* order statistics of an ascending list                                   *)
(* ====================================================================== *)
Definition ascending (l : list Q) : Prop := StronglySorted Qle l.

Lemma ostat_index_lt : forall (l : list Q) k, l <> [] ->
  (Z.to_nat (Z.max 1 (Z.min k (Z.of_nat (length l))) - 1) < length l)%nat.
Proof. intros l k H. destruct l; [congruence|]. simpl length. lia. Qed.

Lemma ascending_nth_le : forall l i j, ascending l -> (i <= j < length l)%nat -> nth i l 0 <= nth j l 0.
Proof.
  intros l i j H Hij. rewrite <- (Qsort_id l H). apply Qsort_nth_le. exact Hij.
Qed.

Lemma ostat_mono : forall l k k', ascending l -> l <> [] -> (k <= k')%Z -> ostat_c l k <= ostat_c l k'.
Proof.
  intros l k k' Hs Hne Hk. unfold ostat_c. apply ascending_nth_le; [exact Hs|].
  split; [lia|apply ostat_index_lt; exact Hne].
Qed.

(* interp lies between the two order statistics it interpolates *)
Lemma interp_between : forall l h, ascending l -> l <> [] ->
  ostat_c l (Qfloor h) <= interp_c l h /\ interp_c l h <= ostat_c l (Qfloor h + 1).
Proof.
  intros l h Hs Hne. unfold interp_c.
  pose proof (ostat_mono l (Qfloor h) (Qfloor h + 1) Hs Hne ltac:(lia)) as M.
  pose proof (Qfloor_le h) as F1. pose proof (Qlt_floor h) as F2.
  rewrite inject_Z_plus in F2. change (inject_Z 1) with 1 in F2.
  set (a := ostat_c l (Qfloor h)) in *. set (b := ostat_c l (Qfloor h + 1)) in *.
  set (f := h - inject_Z (Qfloor h)).
  assert (0 <= f) by (unfold f; lra). assert (f <= 1) by (unfold f; lra).
  split; nra.
Qed.

(* MONOTONE in the position *)
Lemma interp_mono : forall l h h', ascending l -> l <> [] -> h <= h' -> interp_c l h <= interp_c l h'.
Proof.
  intros l h h' Hs Hne Hh.
  pose proof (Qfloor_resp_le _ _ Hh) as Fk.
  destruct (Z.eq_dec (Qfloor h) (Qfloor h')) as [E|N].
  - unfold interp_c. rewrite <- E.
    pose proof (ostat_mono l (Qfloor h) (Qfloor h + 1) Hs Hne ltac:(lia)) as M.
    set (a := ostat_c l (Qfloor h)) in *. set (b := ostat_c l (Qfloor h + 1)) in *. nra.
  - destruct (interp_between l h Hs Hne) as [_ U].
    destruct (interp_between l h' Hs Hne) as [L _].
    pose proof (ostat_mono l (Qfloor h + 1) (Qfloor h') Hs Hne ltac:(lia)) as M. lra.
Qed.

Lemma interp_bounds : forall l h, ascending l -> l <> [] ->
  ostat_c l 1 <= interp_c l h /\ interp_c l h <= ostat_c l (Z.of_nat (length l)).
Proof.
  intros l h Hs Hne. destruct (interp_between l h Hs Hne) as [L U].
  assert (E1 : forall k, ostat_c l 1 <= ostat_c l k).
  { intro k. unfold ostat_c. apply ascending_nth_le; [exact Hs|].
    split; [lia|apply ostat_index_lt; exact Hne]. }
  assert (E2 : forall k, ostat_c l k <= ostat_c l (Z.of_nat (length l))).
  { intro k. unfold ostat_c. apply ascending_nth_le; [exact Hs|].
    split; [lia|apply ostat_index_lt; exact Hne]. }
  split; [eapply Qle_trans; [apply E1|exact L]|eapply Qle_trans; [exact U|apply E2]].
Qed.

(* CONTINUITY at the break points: at an integer position h = k the piece on the left
   (floor = k-1, fraction -> 1) and the piece on the right (floor = k, fraction 0) agree;
   so it does not matter on which side of k the float Modf lands *)
Lemma interp_at_integer : forall l (k : Z), interp_c l (inject_Z k) == ostat_c l k.
Proof. intros l k. unfold interp_c. rewrite Qfloor_Z. ring. Qed.

Lemma interp_left_limit : forall l (k : Z),
  ostat_c l (k - 1) + 1 * (ostat_c l (k - 1 + 1) - ostat_c l (k - 1)) == interp_c l (inject_Z k).
Proof.
  intros l k. rewrite interp_at_integer. replace (k - 1 + 1)%Z with k by lia. ring.
Qed.

Lemma interp_continuous_at_breaks : forall l (k : Z),
  ostat_c l (k - 1) + 1 * (ostat_c l (k - 1 + 1) - ostat_c l (k - 1)) == interp_c l (inject_Z k) /\
  interp_c l (inject_Z k) == ostat_c l k.
Proof. intros l k. split; [exact (interp_left_limit l k)|exact (interp_at_integer l k)]. Qed.

(* LIPSCHITZ: moving the position by d moves the result by at most d * (max - min) *)
Lemma interp_lipschitz_up : forall l (n : nat) h h', ascending l -> l <> [] -> h <= h' ->
  (Z.to_nat (Qfloor h' - Qfloor h) <= n)%nat ->
  interp_c l h' - interp_c l h <= (h' - h) * (ostat_c l (Z.of_nat (length l)) - ostat_c l 1).
Proof.
  intros l n. induction n as [|n IH]; intros h h' Hs Hne Hh Hn;
    pose proof (Qfloor_resp_le _ _ Hh) as Fk;
    assert (R : forall k, ostat_c l (k + 1) - ostat_c l k <= ostat_c l (Z.of_nat (length l)) - ostat_c l 1).
  1,3: intro k; unfold ostat_c;
       pose proof (ascending_nth_le l (Z.to_nat (Z.max 1 (Z.min (k + 1) (Z.of_nat (length l))) - 1))
                     (Z.to_nat (Z.max 1 (Z.min (Z.of_nat (length l)) (Z.of_nat (length l))) - 1)) Hs
                     ltac:(split; [lia|apply ostat_index_lt; exact Hne]));
       pose proof (ascending_nth_le l (Z.to_nat (Z.max 1 (Z.min 1 (Z.of_nat (length l))) - 1))
                     (Z.to_nat (Z.max 1 (Z.min k (Z.of_nat (length l))) - 1)) Hs
                     ltac:(split; [lia|apply ostat_index_lt; exact Hne]));
       lra.
  - (* same piece *)
    assert (E : Qfloor h = Qfloor h') by lia.
    unfold interp_c at 1 2. rewrite <- E.
    pose proof (ostat_mono l (Qfloor h) (Qfloor h + 1) Hs Hne ltac:(lia)) as M.
    specialize (R (Qfloor h)).
    set (a := ostat_c l (Qfloor h)) in *. set (b := ostat_c l (Qfloor h + 1)) in *.
    set (r := ostat_c l (Z.of_nat (length l)) - ostat_c l 1) in *. nra.
  - destruct (Z.eq_dec (Qfloor h) (Qfloor h')) as [E|N].
    + unfold interp_c at 1 2. rewrite <- E.
      pose proof (ostat_mono l (Qfloor h) (Qfloor h + 1) Hs Hne ltac:(lia)) as M.
      specialize (R (Qfloor h)).
      set (a := ostat_c l (Qfloor h)) in *. set (b := ostat_c l (Qfloor h + 1)) in *.
      set (r := ostat_c l (Z.of_nat (length l)) - ostat_c l 1) in *. nra.
    + (* split at the next integer above h *)
      set (k1 := (Qfloor h + 1)%Z).
      assert (Hk1 : inject_Z k1 <= h').
      { eapply Qle_trans; [|apply Qfloor_le]. rewrite <- Zle_Qle. unfold k1. lia. }
      assert (Hk1' : h <= inject_Z k1) by (unfold k1; pose proof (Qlt_floor h); lra).
      assert (S1 : interp_c l h' - interp_c l (inject_Z k1) <=
                   (h' - inject_Z k1) * (ostat_c l (Z.of_nat (length l)) - ostat_c l 1)).
      { apply IH; try assumption. rewrite Qfloor_Z. unfold k1. lia. }
      assert (S2 : interp_c l (inject_Z k1) - interp_c l h <=
                   (inject_Z k1 - h) * (ostat_c l (Z.of_nat (length l)) - ostat_c l 1)).
      { rewrite interp_at_integer. unfold interp_c, k1.
        pose proof (ostat_mono l (Qfloor h) (Qfloor h + 1) Hs Hne ltac:(lia)) as M.
        specialize (R (Qfloor h)).
        pose proof (Qfloor_le h) as F1. pose proof (Qlt_floor h) as F2.
        rewrite inject_Z_plus in *. change (inject_Z 1) with 1 in *.
        set (a := ostat_c l (Qfloor h)) in *. set (b := ostat_c l (Qfloor h + 1)) in *.
        set (r := ostat_c l (Z.of_nat (length l)) - ostat_c l 1) in *.
        set (fl := inject_Z (Qfloor h)) in *. nra. }
      set (r := ostat_c l (Z.of_nat (length l)) - ostat_c l 1) in *. lra.
Qed.

Lemma interp_lipschitz : forall l h h', ascending l -> l <> [] ->
  Qabs (interp_c l h' - interp_c l h) <= Qabs (h' - h) * (ostat_c l (Z.of_nat (length l)) - ostat_c l 1).
Proof.
  intros l h h' Hs Hne.
  destruct (Qlt_le_dec h' h) as [L|G].
  - pose proof (interp_mono l h' h Hs Hne ltac:(lra)) as M.
    pose proof (interp_lipschitz_up l _ h' h Hs Hne ltac:(lra) (Nat.le_refl _)) as B.
    rewrite (Qabs_neg (interp_c l h' - interp_c l h)) by lra.
    rewrite (Qabs_neg (h' - h)) by lra.
    set (r := ostat_c l (Z.of_nat (length l)) - ostat_c l 1) in *. lra.
  - pose proof (interp_mono l h h' Hs Hne G) as M.
    pose proof (interp_lipschitz_up l _ h h' Hs Hne G (Nat.le_refl _)) as B.
    rewrite (Qabs_pos (interp_c l h' - interp_c l h)) by lra.
    rewrite (Qabs_pos (h' - h)) by lra. exact B.
Qed.

(* ====================================================================== *)
(* the unweighted branch computes interp_c                                  *)
(* ====================================================================== *)
Lemma idx_nth : forall (l : list Q) i, (0 <= i)%Z -> (Z.to_nat i < length l)%nat -> idx l i = Some (nth (Z.to_nat i) l 0).
Proof.
  intros l i H0 H1. unfold idx. destruct (i <? 0)%Z eqn:E; [apply Z.ltb_lt in E; lia|].
  apply nth_error_nth'. exact H1.
Qed.

Lemma quantile_unw_interp : forall c l q, l <> [] ->
  exists v, quantile_unw c l q = RVal v /\ v == interp_c l (quantile_pos c (length l) q).
Proof.
  intros c l q Hne. unfold quantile_unw, interp_c.
  set (n := quantile_pos c (length l) q). set (k := Qfloor n).
  assert (Hlen : (0 < length l)%nat) by (destruct l; [congruence|simpl; lia]).
  destruct (k <=? 0)%Z eqn:E1.
  - apply Z.leb_le in E1. rewrite (idx_nth l 0) by (simpl; lia).
    eexists. split; [reflexivity|]. unfold ostat_c.
    replace (Z.to_nat (Z.max 1 (Z.min k (Z.of_nat (length l))) - 1)) with (Z.to_nat 0) by lia.
    replace (Z.to_nat (Z.max 1 (Z.min (k + 1) (Z.of_nat (length l))) - 1)) with (Z.to_nat 0) by lia.
    ring.
  - apply Z.leb_gt in E1.
    destruct (Z.of_nat (length l) <=? k)%Z eqn:E2.
    + apply Z.leb_le in E2. rewrite (idx_nth l (Z.of_nat (length l) - 1)) by lia.
      eexists. split; [reflexivity|]. unfold ostat_c.
      replace (Z.to_nat (Z.max 1 (Z.min k (Z.of_nat (length l))) - 1)) with (Z.to_nat (Z.of_nat (length l) - 1)) by lia.
      replace (Z.to_nat (Z.max 1 (Z.min (k + 1) (Z.of_nat (length l))) - 1)) with (Z.to_nat (Z.of_nat (length l) - 1)) by lia.
      ring.
    + apply Z.leb_gt in E2.
      rewrite (idx_nth l (k - 1)) by lia. rewrite (idx_nth l k) by lia.
      eexists. split; [reflexivity|]. unfold ostat_c.
      replace (Z.to_nat (Z.max 1 (Z.min k (Z.of_nat (length l))) - 1)) with (Z.to_nat (k - 1)) by lia.
      replace (Z.to_nat (Z.max 1 (Z.min (k + 1) (Z.of_nat (length l))) - 1)) with (Z.to_nat k) by lia.
      reflexivity.
Qed.

(* ====================================================================== *)
(* Bounds = first and last order statistic                                  *)
(* ====================================================================== *)
Lemma bounds_fold_spec : forall l a b mn mx, fold_left bounds_step l (a, b) = (mn, mx) ->
  ((mn = a \/ In mn l) /\ (forall x, In x l -> mn <= x) /\ mn <= a) /\
  ((mx = b \/ In mx l) /\ (forall x, In x l -> x <= mx) /\ b <= mx).
Proof.
  induction l as [|y t IH]; intros a b mn mx H.
  - simpl in H. inversion H; subst. repeat split; auto; try lra; intros x [].
  - change (fold_left bounds_step t (if Qltb y a then y else a, if Qltb b y then y else b) = (mn, mx)) in H.
    apply IH in H. destruct H as [[M1 [M2 M3]] [X1 [X2 X3]]].
    split; split.
    + destruct M1 as [M1|M1]; [|right; right; exact M1].
      destruct (Qltb y a); [right; left; symmetry; exact M1|left; exact M1].
    + split.
      * intros x [<-|Hx]; [|apply M2; exact Hx].
        destruct (Qltb y a) eqn:E; [lra|apply Qltb_false in E; lra].
      * destruct (Qltb y a) eqn:E; [apply Qltb_true in E; lra|lra].
    + destruct X1 as [X1|X1]; [|right; right; exact X1].
      destruct (Qltb b y); [right; left; symmetry; exact X1|left; exact X1].
    + split.
      * intros x [<-|Hx]; [|apply X2; exact Hx].
        destruct (Qltb b y) eqn:E; [lra|apply Qltb_false in E; lra].
      * destruct (Qltb b y) eqn:E; [apply Qltb_true in E; lra|lra].
Qed.

(* Bounds(xs) = (least element, greatest element) *)
Lemma bounds_spec : forall l mn mx, bounds l = Some (mn, mx) ->
  (In mn l /\ forall x, In x l -> mn <= x) /\ (In mx l /\ forall x, In x l -> x <= mx).
Proof.
  intros l mn mx H0. destruct l as [|x0 t]; [discriminate|].
  assert (H : fold_left bounds_step (x0 :: t) (x0, x0) = (mn, mx)) by (unfold bounds in H0; congruence).
  clear H0. apply bounds_fold_spec in H. destruct H as [[M1 [M2 M3]] [X1 [X2 X3]]].
  split; split.
  - destruct M1 as [->|M1]; [left; reflexivity|exact M1].
  - exact M2.
  - destruct X1 as [->|X1]; [left; reflexivity|exact X1].
  - exact X2.
Qed.

Lemma last_nth : forall (l : list Q) d, l <> [] -> last l d = nth (length l - 1) l d.
Proof.
  induction l as [|a t IH]; intros d H; [congruence|].
  destruct t as [|b t']; [reflexivity|].
  change (last (a :: b :: t') d) with (last (b :: t') d). rewrite IH by discriminate.
  simpl. rewrite Nat.sub_0_r. reflexivity.
Qed.

Lemma last_nonempty_default : forall (l : list Q) d d', l <> [] -> last l d = last l d'.
Proof.
  induction l as [|a l IH]; intros d d' H; [congruence|]. destruct l as [|b l]; [reflexivity|].
  change (last (a :: b :: l) d) with (last (b :: l) d). change (last (a :: b :: l) d') with (last (b :: l) d').
  apply IH. discriminate.
Qed.
Lemma last_cons_default : forall (t : list Q) x d, last (x :: t) d = last t x.
Proof.
  intros t x d. destruct t as [|b t]; [reflexivity|].
  change (last (x :: b :: t) d) with (last (b :: t) d). apply last_nonempty_default. discriminate.
Qed.

Lemma ostat_first : forall l, ostat_c l 1 = nth 0 l 0.
Proof. intros. unfold ostat_c. f_equal. lia. Qed.
Lemma ostat_last : forall l, l <> [] -> ostat_c l (Z.of_nat (length l)) = last l 0.
Proof.
  intros l H. unfold ostat_c. rewrite (last_nth l 0 H). f_equal. destruct l; [congruence|simpl length]. lia.
Qed.

Lemma bounds_ostat : forall l mn mx, bounds l = Some (mn, mx) ->
  mn == ostat_c (Qsort l) 1 /\ mx == ostat_c (Qsort l) (Z.of_nat (length (Qsort l))).
Proof.
  intros l mn mx H. destruct (bounds_spec l mn mx H) as [[I1 L1] [I2 L2]].
  assert (Hne : l <> []) by (destruct l; [discriminate|discriminate]).
  assert (Hne' : Qsort l <> []).
  { intro E. apply (f_equal (@length Q)) in E. rewrite Qsort_length in E. destruct l; [congruence|discriminate]. }
  rewrite ostat_first, (ostat_last _ Hne').
  split; apply Qle_antisym.
  - apply L1. apply Qsort_in. apply nth_In. rewrite Qsort_length. destruct l; [congruence|simpl; lia].
  - apply Qsort_min. exact I1.
  - apply Qsort_max. exact I2.
  - apply L2. apply Qsort_in. rewrite (last_nth _ 0 Hne'). apply nth_In.
    rewrite Qsort_length. destruct l; [congruence|simpl; lia].
Qed.

(* ====================================================================== *)
(* Quantile = Hyndman-Fan with constant c, for every 0 <= c < 1             *)
(* ====================================================================== *)
Definition unsorted (xs : list Q) : sample := mkSample xs None false.
Definition marked_sorted (xs : list Q) : sample := mkSample xs None true.

Lemma Qsort_nonempty : forall l, l <> [] -> Qsort l <> [].
Proof.
  intros l H E. apply (f_equal (@length Q)) in E. rewrite Qsort_length in E. destruct l; [congruence|discriminate].
Qed.

Lemma Qfloor_eq : forall t i, inject_Z i <= t -> t < inject_Z (i + 1) -> Qfloor t = i.
Proof.
  intros t i H1 H2. pose proof (Qfloor_le t) as F1. pose proof (Qlt_floor t) as F2.
  assert (A : (i < Qfloor t + 1)%Z) by (rewrite Zlt_Qlt; eapply Qle_lt_trans; eauto).
  assert (B : (Qfloor t < i + 1)%Z) by (rewrite Zlt_Qlt; eapply Qle_lt_trans; eauto).
  lia.
Qed.

Lemma interp_low : forall l h, h < 1 -> interp_c l h == ostat_c l 1.
Proof.
  intros l h H. unfold interp_c.
  assert (E : (Qfloor h <= 0)%Z).
  { pose proof (Qfloor_le h) as F. assert ((Qfloor h < 1)%Z) by (rewrite Zlt_Qlt; eapply Qle_lt_trans; eauto). lia. }
  assert (A : ostat_c l (Qfloor h) = ostat_c l 1) by (unfold ostat_c; f_equal; lia).
  assert (B : ostat_c l (Qfloor h + 1) = ostat_c l 1) by (unfold ostat_c; f_equal; lia).
  rewrite A, B. ring.
Qed.

Lemma interp_high : forall l h, Qofnat (length l) <= h -> interp_c l h == ostat_c l (Z.of_nat (length l)).
Proof.
  intros l h H. unfold interp_c.
  assert (E : (Z.of_nat (length l) <= Qfloor h)%Z).
  { pose proof (Qfloor_resp_le _ _ H) as F. unfold Qofnat in F. rewrite Qfloor_Z in F. exact F. }
  assert (A : ostat_c l (Qfloor h) = ostat_c l (Z.of_nat (length l))) by (unfold ostat_c; f_equal; lia).
  assert (B : ostat_c l (Qfloor h + 1) = ostat_c l (Z.of_nat (length l))) by (unfold ostat_c; f_equal; lia).
  rewrite A, B. ring.
Qed.

(* the unsorted, unweighted sample *)
Lemma quantile_unsorted_hf : forall c xs q, 0 <= c -> c < 1 -> xs <> [] ->
  exists v, quantile_c c (unsorted xs) q = RVal v /\ v == hf_def c xs q.
Proof.
  intros c xs q H0 H1 Hne. unfold quantile_c, unsorted, hf_def, clamp01. simpl s_xs.
  destruct xs as [|x0 t] eqn:Exs; [congruence|]. rewrite <- Exs in *.
  assert (Hb : exists mn mx, bounds xs = Some (mn, mx)).
  { rewrite Exs. simpl. destruct (fold_left bounds_step t _) as [a b]. eauto. }
  destruct Hb as [mn [mx Hb]].
  assert (SB : sample_bounds (mkSample xs None false) = bounds xs) by (rewrite Exs; reflexivity).
  destruct (bounds_ostat xs mn mx Hb) as [Emn Emx].
  destruct (Qle_bool q 0) eqn:Q0.
  - rewrite SB, Hb. eexists. split; [reflexivity|]. rewrite Emn.
    symmetry. apply interp_low. lra.
  - destruct (Qle_bool 1 q) eqn:Q1.
    + rewrite SB, Hb. eexists. split; [reflexivity|]. rewrite Emx.
      symmetry. apply interp_high. rewrite Qsort_length. pose proof (Qofnat_nonneg (length xs)). lra.
    + simpl. unfold sample_copy, sample_sort. simpl.
      destruct (quantile_unw_interp c (Qsort xs) q (Qsort_nonempty xs Hne)) as [v [E1 E2]].
      exists v. split; [exact E1|]. rewrite E2. rewrite Qsort_length. unfold quantile_pos.
      apply Qle_bool_false in Q0. apply Qle_bool_false in Q1.
      assert (Eh : c + q * (Qofnat (length xs) + c) == (Qofnat (length xs) + c) * q + c) by ring.
      unfold interp_c. rewrite (Qfloor_comp _ _ Eh). rewrite Eh. reflexivity.
Qed.

(* ascending data marked Sorted *)
Lemma quantile_sorted_hf : forall c xs q, 0 <= c -> c < 1 -> xs <> [] -> ascending xs ->
  exists v, quantile_c c (marked_sorted xs) q = RVal v /\ v == hf_def c xs q.
Proof.
  intros c xs q H0 H1 Hne Hs. unfold quantile_c, marked_sorted, hf_def, clamp01. simpl s_xs.
  rewrite (Qsort_id xs Hs).
  destruct xs as [|x0 t] eqn:Exs; [congruence|]. rewrite <- Exs in *.
  assert (SB : sample_bounds (mkSample xs None true) = Some (ostat_c xs 1, ostat_c xs (Z.of_nat (length xs)))).
  { rewrite ostat_first, (ostat_last xs Hne). rewrite Exs.
    change (Some (x0, last t x0) = Some (nth 0 (x0 :: t) 0, last (x0 :: t) 0)).
    rewrite last_cons_default. reflexivity. }
  destruct (Qle_bool q 0) eqn:Q0.
  - rewrite SB. eexists. split; [reflexivity|]. symmetry. apply interp_low. lra.
  - destruct (Qle_bool 1 q) eqn:Q1.
    + rewrite SB. eexists. split; [reflexivity|]. symmetry. apply interp_high.
      pose proof (Qofnat_nonneg (length xs)). lra.
    + simpl.
      destruct (quantile_unw_interp c xs q Hne) as [v [E1 E2]].
      exists v. split; [exact E1|]. rewrite E2. unfold quantile_pos.
      assert (Eh : c + q * (Qofnat (length xs) + c) == (Qofnat (length xs) + c) * q + c) by ring.
      unfold interp_c. rewrite (Qfloor_comp _ _ Eh). rewrite Eh. reflexivity.
Qed.

(* ---------- consequences ---------- *)
Lemma clamp01_mono : forall q1 q2, q1 <= q2 -> clamp01 q1 <= clamp01 q2.
Proof.
  intros q1 q2 H. unfold clamp01.
  destruct (Qle_bool q1 0) eqn:A1; destruct (Qle_bool q2 0) eqn:A2;
  destruct (Qle_bool 1 q1) eqn:B1; destruct (Qle_bool 1 q2) eqn:B2;
  try apply Qle_bool_iff in A1; try apply Qle_bool_iff in A2;
  try apply Qle_bool_iff in B1; try apply Qle_bool_iff in B2;
  try apply Qle_bool_false in A1; try apply Qle_bool_false in A2;
  try apply Qle_bool_false in B1; try apply Qle_bool_false in B2; lra.
Qed.

Lemma hf_def_mono : forall c xs q1 q2, 0 <= c -> xs <> [] -> q1 <= q2 -> hf_def c xs q1 <= hf_def c xs q2.
Proof.
  intros c xs q1 q2 H0 Hne Hq. unfold hf_def.
  apply interp_mono; [apply Qsort_sorted|apply Qsort_nonempty; exact Hne|].
  pose proof (clamp01_mono q1 q2 Hq). pose proof (Qofnat_nonneg (length xs)).
  assert (0 <= Qofnat (length xs) + c) by lra. nra.
Qed.

Lemma hf_def_bounds : forall c xs q, xs <> [] ->
  ostat_c (Qsort xs) 1 <= hf_def c xs q /\ hf_def c xs q <= ostat_c (Qsort xs) (Z.of_nat (length (Qsort xs))).
Proof. intros. unfold hf_def. apply interp_bounds; [apply Qsort_sorted|apply Qsort_nonempty; assumption]. Qed.

Lemma Forall2_Qeq_ostat : forall l1 l2 k, Forall2 Qeq l1 l2 -> ostat_c l1 k == ostat_c l2 k.
Proof.
  intros l1 l2 k H. unfold ostat_c. rewrite <- (Forall2_same_length _ _ _ _ _ H).
  destruct l1 as [|a t].
  - inversion H; subst. simpl. destruct (Z.to_nat _); reflexivity.
  - apply (Forall2_nth _ _ Qeq); [exact H|]. apply ostat_index_lt. discriminate.
Qed.

Lemma hf_def_perm : forall c xs ys q, Permutation xs ys -> hf_def c xs q == hf_def c ys q.
Proof.
  intros c xs ys q P. unfold hf_def, interp_c.
  rewrite (Permutation_length P).
  pose proof (Qsort_perm_eq xs ys P) as F.
  rewrite !(Forall2_Qeq_ostat _ _ _ F). reflexivity.
Qed.

(* for 0 < q < 1 the sort can be done first, once (used by Check/C10.v) *)
Lemma sample_sort_sorted : forall s, s_sorted (sample_sort s) = true.
Proof. intros [xs [ws|] [|]]; reflexivity. Qed.

Lemma sample_sort_length : forall s,
  (s_ws s = None \/ exists ws, s_ws s = Some ws /\ length ws = length (s_xs s)) ->
  length (s_xs (sample_sort s)) = length (s_xs s).
Proof.
  intros [xs ws st] Hw. unfold sample_sort. cbn [s_sorted]. destruct st; [reflexivity|].
  cbn [s_ws]. destruct ws as [w|].
  - destruct Hw as [Hw|[w' [Hw Hl]]]; [discriminate|]. cbn [s_ws s_xs] in Hw, Hl. inversion Hw; subst w'.
    cbn [s_xs]. rewrite map_length, psort_length, combine_length. lia.
  - cbn [s_xs]. apply Qsort_length.
Qed.

Lemma quantile_mid_sort_first : forall c s q, Qle_bool q 0 = false -> Qle_bool 1 q = false ->
  (s_ws s = None \/ exists ws, s_ws s = Some ws /\ length ws = length (s_xs s)) ->
  quantile_c c s q = quantile_c c (sample_sort s) q.
Proof.
  intros c s q Q0 Q1 Hw. pose proof (sample_sort_length s Hw) as HL.
  destruct (s_sorted s) eqn:Est.
  - unfold sample_sort. rewrite Est. reflexivity.
  - unfold quantile_c. rewrite Q0, Q1, Est, sample_sort_sorted. unfold sample_copy.
    destruct (s_xs s) as [|x0 t] eqn:Ex.
    + destruct (s_xs (sample_sort s)); [reflexivity|discriminate].
    + destruct (s_xs (sample_sort s)) eqn:E; [discriminate|]. reflexivity.
Qed.

Lemma iqr_sort_first : forall c s, iqr_c c s = iqr_c c (sample_sort s).
Proof.
  intros c s. unfold iqr_c. rewrite sample_sort_sorted.
  destruct (s_sorted s) eqn:E; [|reflexivity].
  unfold sample_sort. rewrite E. reflexivity.
Qed.

(* ====================================================================== *)
(* the float constant against the true 1/3                                  *)
(* ====================================================================== *)
Lemma third_f_close : (1 # 3) - third_f == 1 # (3 * 2 ^ 54).
Proof. reflexivity. Qed.

Lemma third_f_range : 0 <= third_f /\ third_f < 1.
Proof. unfold third_f. split; [discriminate|reflexivity]. Qed.

(* third_f IS fl(1/3), the float64 nearest to 1/3: it is a 53-bit significand times 2^-54 (the
   float64 numbers in [1/4, 1/2) are exactly the multiples m * 2^-54 with 2^52 <= m < 2^53), it is
   the value of the bit pattern 0x3FD5555555555555, and NO multiple of 2^-54 is closer to 1/3
   (2^54 = 1 mod 3, so |1/3 - m 2^-54| = |2^54 - 3 m| / (3 2^54) >= 1 / (3 2^54) for every integer m).
   Together with hf_const_close below (which holds for EVERY sample size N and every q) this is
   the whole content of "the code's 1/3.0 versus the textbook 1/3". *)
Lemma third_f_float : third_f == inject_Z 6004799503160661 / inject_Z (2 ^ 54) /\ (2 ^ 52 <= 6004799503160661 < 2 ^ 53)%Z.
Proof. split; [vm_compute; reflexivity|vm_compute; split; [discriminate|reflexivity]]. Qed.
Lemma third_f_bits : decode_bits 0x3FD5555555555555 = XFin third_f.
Proof. vm_compute. reflexivity. Qed.
Lemma third_f_nearest : forall m : Z, (1 # 3) - third_f <= Qabs ((1 # 3) - inject_Z m / inject_Z (2 ^ 54)).
Proof.
  intro m. rewrite third_f_close. change (2 ^ 54)%Z with 18014398509481984%Z.
  change (2 ^ 54)%positive with 18014398509481984%positive.
  apply Qabs_case; intro H; revert H; unfold Qle, Qdiv, Qmult, Qminus, Qplus, Qopp, Qinv, inject_Z, Qnum, Qden; lia.
Qed.

(* the code's constant moves the result by at most (1+q) * 2^-54/3 * (max - min) *)
Lemma hf_const_close : forall xs q, xs <> [] ->
  Qabs (hf_def third_f xs q - hf8_def xs q) <=
  (1 + clamp01 q) * (1 # (3 * 2 ^ 54)) * (ostat_c (Qsort xs) (Z.of_nat (length (Qsort xs))) - ostat_c (Qsort xs) 1).
Proof.
  intros xs q Hne. unfold hf8_def, hf_def.
  pose proof (interp_lipschitz (Qsort xs)
                ((Qofnat (length xs) + (1 # 3)) * clamp01 q + (1 # 3))
                ((Qofnat (length xs) + third_f) * clamp01 q + third_f)
                (Qsort_sorted xs) (Qsort_nonempty xs Hne)) as L.
  eapply Qle_trans; [exact L|].
  pose proof (interp_bounds (Qsort xs) 0 (Qsort_sorted xs) (Qsort_nonempty xs Hne)) as [B1 B2].
  set (r := ostat_c (Qsort xs) (Z.of_nat (length (Qsort xs))) - ostat_c (Qsort xs) 1) in *.
  assert (Hr : 0 <= r) by (unfold r; lra).
  assert (Hc : 0 <= clamp01 q).
  { unfold clamp01. destruct (Qle_bool q 0) eqn:A; [lra|]. destruct (Qle_bool 1 q); [lra|].
    apply Qle_bool_false in A. lra. }
  assert (E : (Qofnat (length xs) + third_f) * clamp01 q + third_f -
              ((Qofnat (length xs) + (1 # 3)) * clamp01 q + (1 # 3)) ==
              - ((1 + clamp01 q) * ((1 # 3) - third_f))) by ring.
  rewrite E, third_f_close. rewrite Qabs_opp.
  rewrite Qabs_pos by (apply Qmult_le_0_compat; [lra|discriminate]).
  lra.
Qed.

(* ====================================================================== *)
(* the weighted branch                                                       *)
(* ====================================================================== *)
Lemma cumw_cons : forall x w t i, cumw ((x, w) :: t) (S i) == w + cumw t i.
Proof. intros. unfold cumw. simpl. reflexivity. Qed.
Lemma cumw_0 : forall x w t, cumw ((x, w) :: t) 0 == w.
Proof. intros. unfold cumw. simpl. ring. Qed.

Lemma Qltb_comp_l : forall a b c, a == b -> Qltb a c = Qltb b c.
Proof.
  intros a b c E. destruct (Qltb b c) eqn:B.
  - apply Qltb_true in B. apply Qltb_true. rewrite E. exact B.
  - apply Qltb_false in B. apply Qltb_false. rewrite E. exact B.
Qed.

(* the scan returns the value at the first position whose cumulative weight exceeds the
   target; if there is none, the last value (or [lastx] for an empty list) *)
Lemma wscan_spec : forall ps t lastx,
  (exists i x w, nth_error ps i = Some (x, w) /\ wscan ps t lastx = Some x /\ first_exceeding ps t i) \/
  ((forall j, (j < length ps)%nat -> cumw ps j <= t) /\
   wscan ps t lastx = match rev ps with [] => lastx | (x, _) :: _ => Some x end).
Proof.
  induction ps as [|[x w] tl IH]; intros t lastx.
  - right. split; [intros j Hj; simpl in Hj; lia|reflexivity].
  - cbn [wscan]. cbv zeta. rewrite (Qltb_comp_l _ _ 0 (Qred_correct (t - w))).
    destruct (Qltb (t - w) 0) eqn:E.
    + apply Qltb_true in E. left. exists 0%nat, x, w. split; [reflexivity|]. split; [reflexivity|].
      unfold first_exceeding. split; [simpl; lia|]. split; [rewrite cumw_0; lra|intros j Hj; lia].
    + apply Qltb_false in E.
      destruct (IH (Qred (t - w)) (Some x)) as [[i [x' [w' [Hn [Hs [Hl [Hc Hb]]]]]]]|[Hall Hs]].
      * left. exists (S i), x', w'. split; [exact Hn|]. split; [exact Hs|].
        unfold first_exceeding. split; [simpl; lia|]. split.
        -- rewrite cumw_cons. rewrite (Qred_correct (t - w)) in Hc. lra.
        -- intros j Hj. destruct j as [|j]; [rewrite cumw_0; lra|].
           rewrite cumw_cons. specialize (Hb j ltac:(lia)). rewrite (Qred_correct (t - w)) in Hb. lra.
      * right. split.
        -- intros j Hj. destruct j as [|j]; [rewrite cumw_0; lra|].
           rewrite cumw_cons. simpl in Hj. specialize (Hall j ltac:(lia)).
           rewrite (Qred_correct (t - w)) in Hall. lra.
        -- rewrite Hs. simpl rev. destruct (rev tl) as [|[x1 w1] r] eqn:Er; simpl; reflexivity.
Qed.

Lemma wtotal_sum : forall ps, wtotal ps == totw ps.
Proof.
  intros ps. unfold wtotal, totw.
  assert (G : forall (l : list (Q * Q)) a, fold_left (fun a p => Qred (a + snd p)) l a == a + Qsum (map snd l)).
  { induction l as [|p t IH]; intros a; simpl; [ring|]. rewrite IH. rewrite (Qred_correct (a + snd p)). ring. }
  rewrite G. ring.
Qed.

(* WEIGHTED SPEC: on an ascending pair list, the result is the first value whose cumulative
   weight exceeds q * W; the last value if none does *)
Lemma quantile_w_spec : forall ps q, ps <> [] ->
  exists v, quantile_w ps q = RVal v /\
  ((exists i w, nth_error ps i = Some (v, w) /\ first_exceeding ps (totw ps * q) i) \/
   ((forall j, (j < length ps)%nat -> cumw ps j <= totw ps * q) /\
    exists w, nth_error ps (length ps - 1) = Some (v, w))).
Proof.
  intros ps q Hne. unfold quantile_w.
  assert (FE : forall t t' i, t == t' -> first_exceeding ps t i -> first_exceeding ps t' i).
  { intros t t' i E [A [B C]]. split; [exact A|]. split; [rewrite <- E; exact B|].
    intros j Hj. rewrite <- E. apply C. exact Hj. }
  assert (Et : wtotal ps * q == totw ps * q) by (rewrite wtotal_sum; reflexivity).
  destruct (wscan_spec ps (wtotal ps * q) None) as [[i [x [w [Hn [Hs Hf]]]]]|[Hall Hs]].
  - rewrite Hs. exists x. split; [reflexivity|]. left. exists i, w. split; [exact Hn|].
    eapply FE; [exact Et|exact Hf].
  - rewrite Hs.
    destruct (rev ps) as [|[x w] r] eqn:Er.
    + apply (f_equal (@rev (Q * Q))) in Er. rewrite rev_involutive in Er. simpl in Er. congruence.
    + exists x. split; [reflexivity|]. right. split.
      * intros j Hj. rewrite <- Et. apply Hall. exact Hj.
      * exists w. apply (f_equal (@rev (Q * Q))) in Er. rewrite rev_involutive in Er. simpl in Er.
        rewrite Er. rewrite app_length. simpl. rewrite Nat.add_sub.
        rewrite nth_error_app2 by lia. rewrite Nat.sub_diag. reflexivity.
Qed.

(* ====================================================================== *)
(* the statements of C10, for the code's constant                           *)
(* ====================================================================== *)
Lemma quantile_code_hf : forall xs q, xs <> [] ->
  exists v, quantile (unsorted xs) q = RVal v /\ v == hf_def third_f xs q.
Proof.
  intros xs q H. destruct third_f_range as [A B]. apply quantile_unsorted_hf; assumption.
Qed.

(* HF8: exactly, for the exact constant 1/3 ... *)
Lemma quantile_is_hf8_exact : forall xs q, xs <> [] ->
  exists v, quantile_c (1 # 3) (unsorted xs) q = RVal v /\ v == hf8_def xs q.
Proof. intros xs q H. apply quantile_unsorted_hf; [discriminate|reflexivity|exact H]. Qed.

(* ... and for the float64 constant the code uses, within (1+q) * 2^-54/3 * (max - min) *)
Lemma quantile_is_hf8 : forall xs q, xs <> [] ->
  exists v, quantile (unsorted xs) q = RVal v /\
  Qabs (v - hf8_def xs q) <=
  (1 + clamp01 q) * (1 # (3 * 2 ^ 54)) * (ostat_c (Qsort xs) (Z.of_nat (length (Qsort xs))) - ostat_c (Qsort xs) 1).
Proof.
  intros xs q H. destruct (quantile_code_hf xs q H) as [v [E1 E2]].
  exists v. split; [exact E1|]. rewrite E2. apply hf_const_close. exact H.
Qed.

Lemma quantile_monotone_in_q : forall xs q1 q2 v1 v2, q1 <= q2 ->
  quantile (unsorted xs) q1 = RVal v1 -> quantile (unsorted xs) q2 = RVal v2 -> v1 <= v2.
Proof.
  intros xs q1 q2 v1 v2 Hq H1 H2.
  destruct xs as [|x0 t] eqn:E; [discriminate|]. rewrite <- E in *.
  assert (Hne : xs <> []) by (rewrite E; discriminate).
  destruct (quantile_code_hf xs q1 Hne) as [u1 [A1 B1]].
  destruct (quantile_code_hf xs q2 Hne) as [u2 [A2 B2]].
  rewrite A1 in H1. rewrite A2 in H2. inversion H1; inversion H2; subst.
  rewrite B1, B2. apply hf_def_mono; [apply third_f_range|exact Hne|exact Hq].
Qed.

Lemma quantile_between_min_max : forall xs q v mn mx,
  bounds xs = Some (mn, mx) -> quantile (unsorted xs) q = RVal v -> mn <= v /\ v <= mx.
Proof.
  intros xs q v mn mx Hb H.
  assert (Hne : xs <> []) by (destruct xs; discriminate).
  destruct (quantile_code_hf xs q Hne) as [u [A B]]. rewrite A in H. inversion H; subst u.
  destruct (bounds_ostat xs mn mx Hb) as [E1 E2].
  destruct (hf_def_bounds third_f xs q Hne) as [L U].
  rewrite B, E1, E2. split; assumption.
Qed.

Lemma quantile_ends : forall xs mn mx, bounds xs = Some (mn, mx) ->
  (forall q, q <= 0 -> quantile (unsorted xs) q = RVal mn) /\
  (forall q, 1 <= q -> quantile (unsorted xs) q = RVal mx).
Proof.
  intros xs mn mx Hb.
  assert (SB : sample_bounds (mkSample xs None false) = Some (mn, mx)).
  { destruct xs; [discriminate|]. exact Hb. }
  split; intros q Hq; unfold quantile, quantile_c, unsorted; cbn [s_xs];
    destruct xs as [|x0 t]; try discriminate.
  - apply Qle_bool_iff in Hq. rewrite Hq, SB. reflexivity.
  - destruct (Qle_bool q 0) eqn:Q0; [apply Qle_bool_iff in Q0; lra|].
    apply Qle_bool_iff in Hq. rewrite Hq, SB. reflexivity.
Qed.

Lemma quantile_perm_invariant : forall xs ys q, Permutation xs ys ->
  qr_eq (quantile (unsorted xs) q) (quantile (unsorted ys) q).
Proof.
  intros xs ys q P.
  destruct xs as [|x0 t] eqn:E.
  - apply Permutation_nil in P. subst ys. simpl. exact I.
  - rewrite <- E in *.
    assert (Hx : xs <> []) by (rewrite E; discriminate).
    assert (Hy : ys <> []).
    { intro Ey. subst ys. apply Permutation_sym, Permutation_nil in P. congruence. }
    destruct (quantile_code_hf xs q Hx) as [u [A B]].
    destruct (quantile_code_hf ys q Hy) as [w [C D]].
    rewrite A, C. simpl. rewrite B, D. apply hf_def_perm. exact P.
Qed.

Lemma quantile_sorted_flag_irrelevant : forall xs q, ascending xs ->
  qr_eq (quantile (marked_sorted xs) q) (quantile (unsorted xs) q).
Proof.
  intros xs q Hs. destruct xs as [|x0 t] eqn:E; [simpl; exact I|]. rewrite <- E in *.
  assert (Hx : xs <> []) by (rewrite E; discriminate).
  destruct third_f_range as [R0 R1].
  destruct (quantile_sorted_hf third_f xs q R0 R1 Hx Hs) as [u [A B]].
  destruct (quantile_code_hf xs q Hx) as [w [C D]].
  unfold quantile in *. rewrite A, C. simpl. rewrite B, D. reflexivity.
Qed.

(* NaN exactly for the empty sample (unweighted) *)
Lemma quantile_nan_iff_empty : forall xs q, quantile (unsorted xs) q = RNaN <-> xs = [].
Proof.
  intros xs q. split.
  - intro H. destruct xs as [|x0 t] eqn:E; [reflexivity|]. rewrite <- E in *.
    assert (Hx : xs <> []) by (rewrite E; discriminate).
    destruct (quantile_code_hf xs q Hx) as [u [A _]]. congruence.
  - intros ->. reflexivity.
Qed.

(* IQR = Quantile(0.75) - Quantile(0.25) *)
Lemma iqr_def : forall s a b,
  (s_ws s = None \/ exists ws, s_ws s = Some ws /\ length ws = length (s_xs s)) ->
  quantile s (3 # 4) = RVal a -> quantile s (1 # 4) = RVal b -> iqr s = RVal (a - b).
Proof.
  intros s a b Hw Ha Hb. unfold iqr, iqr_c, quantile in *.
  rewrite (quantile_mid_sort_first third_f s (3 # 4)) in Ha by (reflexivity || exact Hw).
  rewrite (quantile_mid_sort_first third_f s (1 # 4)) in Hb by (reflexivity || exact Hw).
  destruct (s_sorted s) eqn:E.
  - unfold sample_sort in Ha, Hb. rewrite E in Ha, Hb. rewrite Ha, Hb. reflexivity.
  - unfold sample_copy. rewrite Ha, Hb. reflexivity.
Qed.

(* weighted: the sample is sorted by value with the weights attached, then scanned *)
Lemma quantile_weighted_spec : forall xs ws q, xs <> [] -> length ws = length xs -> 0 < q -> q < 1 ->
  let ps := psort (combine xs ws) in
  exists v, quantile (mkSample xs (Some ws) false) q = RVal v /\
  ((exists i w, nth_error ps i = Some (v, w) /\ first_exceeding ps (totw ps * q) i) \/
   ((forall j, (j < length ps)%nat -> cumw ps j <= totw ps * q) /\
    exists w, nth_error ps (length ps - 1) = Some (v, w))).
Proof.
  intros xs ws q Hne Hl Q0 Q1. destruct xs as [|x0 t]; [congruence|]. intro ps.
  assert (Hps : ps <> []).
  { intro E. apply (f_equal (@length (Q * Q))) in E. unfold ps in E.
    rewrite psort_length, combine_length, Hl, Nat.min_id in E. discriminate. }
  unfold quantile, quantile_c. cbn [s_xs].
  assert (A : Qle_bool q 0 = false) by (apply Qle_bool_false; exact Q0).
  assert (B : Qle_bool 1 q = false) by (apply Qle_bool_false; exact Q1).
  rewrite A, B. cbn [s_sorted]. unfold sample_copy, sample_sort. cbn [s_sorted s_ws s_xs]. fold ps.
  assert (C : combine (map fst ps) (map snd ps) = ps).
  { clear. induction ps as [|[a b] r IH]; simpl; [reflexivity|]. rewrite IH. reflexivity. }
  rewrite C. apply quantile_w_spec. exact Hps.
Qed.

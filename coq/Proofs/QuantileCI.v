(* Proofs/QuantileCI.v — the greedy accumulation of QuantileCI (n <= 30), the c >= 1 short cut,
   the band logic of the normal branch, and SampleCI. *)
From MM Require Import Base.Num Base.GFSum Base.GFComb Model.Choose Model.Binom Model.QuantileCI
                       Proofs.Choose Proofs.Binom.
From Coq Require Import Lqa Lia Qround Sorted Permutation.
Local Open Scope Q_scope.

(* ---------- boolean comparisons on Q ---------- *)
Lemma Qltb_true : forall a b, Qltb a b = true <-> a < b.
Proof.
  intros a b. unfold Qltb. rewrite negb_true_iff. split.
  - intros H. apply Qnot_le_lt. intros L. apply Qle_bool_iff in L. congruence.
  - intros H. destruct (Qle_bool b a) eqn:E; [|reflexivity]. apply Qle_bool_iff in E. lra.
Qed.
Lemma Qltb_false : forall a b, Qltb a b = false <-> b <= a.
Proof.
  intros a b. unfold Qltb. rewrite negb_false_iff. apply Qle_bool_iff.
Qed.
Lemma Qle_bool_false : forall a b, Qle_bool a b = false <-> b < a.
Proof.
  intros a b. split.
  - intros H. apply Qnot_le_lt. intros L. apply Qle_bool_iff in L. congruence.
  - intros H. destruct (Qle_bool a b) eqn:E; [|reflexivity]. apply Qle_bool_iff in E. lra.
Qed.

Lemma Qsum_range_first : forall f lo hi, (lo - 1 <= hi)%Z ->
  Qsum_range f (lo - 1) hi == f (lo - 1)%Z + Qsum_range f lo hi.
Proof.
  intros f lo hi H. rewrite (Qsum_range_split f (lo - 1) lo hi) by lia.
  apply Qplus_comp; [|reflexivity].
  unfold Qsum_range. replace (Z.to_nat (lo - 1 - (lo - 1) + 1)) with 1%nat by lia. simpl.
  replace (lo - 1 + 0)%Z with (lo - 1)%Z by lia. ring.
Qed.
Lemma Qsum_range_single : forall f a, Qsum_range f a a == f a.
Proof.
  intros. unfold Qsum_range. replace (Z.to_nat (a - a + 1)) with 1%nat by lia. simpl.
  replace (a + 0)%Z with a by lia. ring.
Qed.
Lemma Qsum_range_nonneg : forall f lo hi, (forall j, 0 <= f j) -> 0 <= Qsum_range f lo hi.
Proof. intros. unfold Qsum_range. apply Qsum_n_nonneg. intros. apply H. Qed.

(* ================= the greedy accumulation over an abstract PMF ================= *)
Section Greedy.
Variable P : Z -> Q.
Variable n : Z.
Variable x : Z.                              (* the starting bucket (lower mode) *)
Hypothesis Hn : (0 <= n)%Z.
Hypothesis Hx : (0 <= x <= n)%Z.
Hypothesis HP0 : forall k, 0 <= P k.
Hypothesis Hout : forall k, (k < 0 \/ n < k)%Z -> P k == 0.
Hypothesis Htot : Qsum_range P 0 n == 1.

Notation st := QuantileCI.st.
Definition mass (s : st) : Q := Qsum_range P (s_l s) (s_r s - 1).

Definition Inv (s : st) : Prop :=
  (0 <= s_l s)%Z /\ (s_l s <= x)%Z /\ (x < s_r s)%Z /\ (s_r s <= n + 1)%Z /\
  s_acc s == mass s /\ (s_amb s = true -> P (s_l s) == P (s_r s)).

Lemma init_inv : Inv (st_init P x).
Proof.
  unfold Inv, st_init, mass; simpl. repeat split; try lia.
  - replace (x + 1 - 1)%Z with x by lia. rewrite Qsum_range_single. reflexivity.
  - intros H. apply Qeq_bool_iff in H. symmetry. exact H.
Qed.

Lemma more_true : forall c s, more P c s = true -> s_acc s < c /\ (0 < lp P s \/ 0 < rp P s).
Proof.
  intros c s H. unfold more in H. apply andb_prop in H as [H1 H2]. apply Qltb_true in H1.
  split; [exact H1|]. apply orb_prop in H2 as [H2|H2]; apply Qltb_true in H2; auto.
Qed.

Lemma step_inv : forall c s, Inv s -> more P c s = true -> Inv (step P s).
Proof.
  intros c s (I1 & I2 & I3 & I4 & I5 & I6) Hm. apply more_true in Hm as [_ Hmass].
  unfold step, lp, rp in *. destruct (Qle_bool (P (s_r s)) (P (s_l s - 1))) eqn:E.
  - apply Qle_bool_iff in E.
    assert (Hlp : 0 < P (s_l s - 1)) by (destruct Hmass; lra).
    assert (Hl : (0 <= s_l s - 1)%Z).
    { destruct (Z.ltb_spec (s_l s - 1) 0) as [L|L]; [|lia]. rewrite (Hout (s_l s - 1)%Z) in Hlp by lia. lra. }
    unfold Inv, mass; simpl. repeat split; try lia.
    + rewrite Qsum_range_first by lia. rewrite I5. unfold mass. ring.
    + intros H. apply Qeq_bool_iff in H. exact H.
  - apply Qle_bool_false in E.
    assert (Hrp : 0 < P (s_r s)) by (pose proof (HP0 (s_l s - 1)); lra).
    assert (Hr : (s_r s <= n)%Z).
    { destruct (Z.ltb_spec n (s_r s)) as [L|L]; [|lia]. rewrite (Hout (s_r s)) in Hrp by lia. lra. }
    unfold Inv, mass; simpl. repeat split; try lia.
    + replace (s_r s + 1 - 1)%Z with (s_r s - 1 + 1)%Z by lia.
      rewrite Qsum_range_last by lia. rewrite I5. unfold mass.
      replace (s_r s - 1 + 1)%Z with (s_r s) by lia. ring.
    + intros H. apply Qeq_bool_iff in H. lra.
Qed.

(* what the loop returns, relative to where it started *)
Definition Minimal (c : Q) (s s' : st) : Prop :=
  s' = s \/ s_acc s' - P (s_l s') < c \/ s_acc s' - P (s_r s' - 1) < c.

Lemma step_width : forall s, (s_r (step P s) - s_l (step P s) = s_r s - s_l s + 1)%Z /\
                             (s_l (step P s) <= s_l s)%Z /\ (s_r s <= s_r (step P s))%Z.
Proof. intros s. unfold step. destruct (Qle_bool (rp P s) (lp P s)); simpl; lia. Qed.

Lemma step_last : forall s, s_acc (step P s) - P (s_l (step P s)) == s_acc s \/
                            s_acc (step P s) - P (s_r (step P s) - 1) == s_acc s.
Proof.
  intros s. unfold step, lp, rp. destruct (Qle_bool (P (s_r s)) (P (s_l s - 1))); simpl.
  - left. ring.
  - right. replace (s_r s + 1 - 1)%Z with (s_r s) by lia. ring.
Qed.

Lemma loop_spec : forall c fuel s, Inv s -> (n + 1 - (s_r s - s_l s) <= Z.of_nat fuel)%Z ->
  exists s', loop P c fuel s = Some s' /\ Inv s' /\ more P c s' = false /\
             (s_l s' <= s_l s)%Z /\ (s_r s <= s_r s')%Z /\ Minimal c s s'.
Proof.
  intros c. induction fuel as [|f IH]; intros s HI Hf.
  - simpl. destruct (more P c s) eqn:Hm.
    + exfalso. pose proof (step_inv c s HI Hm) as (J1 & J2 & J3 & J4 & _).
      pose proof (step_width s). lia.
    + exists s. split; [reflexivity|]. split; [exact HI|]. split; [exact Hm|]. split; [lia|]. split; [lia|]. left. reflexivity.
  - simpl. destruct (more P c s) eqn:Hm.
    + pose proof (step_inv c s HI Hm) as HI'. pose proof (step_width s) as (W1 & W2 & W3).
      destruct (IH (step P s) HI' ltac:(lia)) as (s' & E & I' & X' & L' & R' & M').
      exists s'. split; [exact E|]. split; [exact I'|]. split; [exact X'|]. split; [lia|]. split; [lia|].
      apply more_true in Hm as [Hacc _].
      unfold Minimal in *. destruct M' as [->|[M'|M']].
      * destruct (step_last s) as [SL|SL]; [right; left | right; right]; rewrite SL; exact Hacc.
      * right; left; exact M'.
      * right; right; exact M'.
    + exists s. split; [reflexivity|]. split; [exact HI|]. split; [exact Hm|]. split; [lia|]. split; [lia|]. left. reflexivity.
Qed.

Lemma clamp_id : forall l r conf amb, (0 <= l)%Z -> (r <= n + 1)%Z ->
  clampR n l r conf amb = mkR l r conf amb.
Proof.
  intros. unfold clampR. destruct (Z.ltb_spec l 0); [lia|]. destruct (Z.ltb_spec (n + 1) r); [lia|]. reflexivity.
Qed.

(* every support bucket has positive mass, or the start bucket carries all the mass (q = 0, q = 1) *)
Definition FullSupport : Prop := (forall k, (0 <= k <= n)%Z -> 0 < P k) \/ P x == 1.

Lemma mass_le_one : forall l r, (0 <= l)%Z -> (r <= n + 1)%Z -> (l <= r)%Z -> Qsum_range P l (r - 1) <= 1.
Proof.
  intros l r Hl Hr Hlr. rewrite <- Htot.
  rewrite (Qsum_range_split P 0 l n) by lia. rewrite (Qsum_range_split P l r n) by lia.
  pose proof (Qsum_range_nonneg P 0 (l - 1) HP0). pose proof (Qsum_range_nonneg P r n HP0). lra.
Qed.

Theorem qci_small_spec : forall c,
  exists res, qci_small P n x c = Some res /\
    (0 <= r_lo res)%Z /\ (r_lo res < r_hi res)%Z /\ (r_hi res <= n + 1)%Z /\               (* orders *)
    r_conf res == Qsum_range P (r_lo res) (r_hi res - 1) /\                               (* Confidence is the mass *)
    (r_lo res <= x < r_hi res)%Z /\                                                        (* contains the start bucket *)
    (r_amb res = true -> Qsum_range P (r_lo res + 1) (r_hi res) == r_conf res) /\          (* Ambiguous *)
    ((2 <= r_hi res - r_lo res)%Z ->                                                       (* an end bucket is needed *)
       r_conf res - P (r_lo res) < c \/ r_conf res - P (r_hi res - 1) < c) /\
    (c <= 1 -> FullSupport -> c <= r_conf res).                                            (* at least c *)
Proof.
  intros c. unfold qci_small.
  destruct (loop_spec c (Z.to_nat (n + 1)) (st_init P x) init_inv) as (s & E & (I1 & I2 & I3 & I4 & I5 & I6) & X & L & R & M).
  { simpl. lia. }
  rewrite E. exists (clampR n (s_l s) (s_r s) (s_acc s) (s_amb s)).
  rewrite clamp_id by lia. simpl. split; [reflexivity|].
  repeat split; try lia.
  - exact I5.
  - intros Ha. specialize (I6 Ha). rewrite I5. unfold mass.
    rewrite (Qsum_range_split P (s_l s) (s_l s + 1) (s_r s - 1)) by lia.
    replace (s_l s + 1 - 1)%Z with (s_l s) by lia. rewrite Qsum_range_single.
    replace (s_r s) with (s_r s - 1 + 1)%Z at 1 by lia. rewrite Qsum_range_last by lia.
    replace (s_r s - 1 + 1)%Z with (s_r s) by lia. rewrite I6. ring.
  - intros W. destruct M as [->|[M|M]]; [simpl in W; lia| left; exact M | right; exact M].
  - intros Hc HF.
    unfold more in X. apply andb_false_iff in X as [X|X].
    + apply Qltb_false in X. exact X.
    + apply orb_false_iff in X as [X1 X2]. apply Qltb_false in X1. apply Qltb_false in X2.
      unfold lp, rp in *. destruct HF as [HF|HF].
      * assert (s_l s = 0%Z).
        { destruct (Z.eq_dec (s_l s) 0) as [|Hne]; [assumption|]. specialize (HF (s_l s - 1)%Z ltac:(lia)). lra. }
        assert (s_r s = (n + 1)%Z).
        { destruct (Z.eq_dec (s_r s) (n + 1)) as [|Hne]; [assumption|]. specialize (HF (s_r s) ltac:(lia)). lra. }
        rewrite I5. unfold mass. rewrite H, H0. replace (n + 1 - 1)%Z with n by lia. rewrite Htot. exact Hc.
      * rewrite I5. unfold mass.
        rewrite (Qsum_range_split P (s_l s) x (s_r s - 1)) by lia.
        rewrite (Qsum_range_split P x (x + 1) (s_r s - 1)) by lia.
        replace (x + 1 - 1)%Z with x by lia. rewrite Qsum_range_single.
        pose proof (Qsum_range_nonneg P (s_l s) (x - 1) HP0). pose proof (Qsum_range_nonneg P (x + 1) (s_r s - 1) HP0).
        lra.
Qed.

(* never more than the whole mass *)
Lemma qci_small_conf_le_one : forall c res, qci_small P n x c = Some res -> r_conf res <= 1.
Proof.
  intros c res H. destruct (qci_small_spec c) as (res' & E & A1 & A2 & A3 & A4 & _).
  rewrite E in H. injection H as <-. rewrite A4. apply mass_le_one; lia.
Qed.

(* ---------- nesting in c: the greedy order does not depend on c ---------- *)
Lemma loop_extends : forall c fuel s s', loop P c fuel s = Some s' -> (s_l s' <= s_l s)%Z /\ (s_r s <= s_r s')%Z.
Proof.
  intros c. induction fuel as [|f IH]; intros s s' H; simpl in H.
  - destruct (more P c s); [discriminate|]. injection H as <-. lia.
  - destruct (more P c s).
    + apply IH in H. pose proof (step_width s). lia.
    + injection H as <-. lia.
Qed.

Lemma more_mono : forall c c' s, c <= c' -> more P c s = true -> more P c' s = true.
Proof.
  intros c c' s Hc H. unfold more in *. apply andb_prop in H as [H1 H2]. rewrite H2, andb_true_r.
  apply Qltb_true in H1. apply Qltb_true. lra.
Qed.

Lemma loop_mono : forall c c', c <= c' -> forall fuel s a b,
  loop P c fuel s = Some a -> loop P c' fuel s = Some b -> (s_l b <= s_l a)%Z /\ (s_r a <= s_r b)%Z.
Proof.
  intros c c' Hc. induction fuel as [|f IH]; intros s a b Ha Hb; simpl in Ha, Hb.
  - destruct (more P c s) eqn:M; [discriminate|]. injection Ha as <-.
    destruct (more P c' s); [discriminate|]. injection Hb as <-. lia.
  - destruct (more P c s) eqn:M.
    + rewrite (more_mono c c' s Hc M) in Hb. eapply IH; eassumption.
    + injection Ha as <-. destruct (more P c' s).
      * apply loop_extends in Hb. pose proof (step_width s). lia.
      * injection Hb as <-. lia.
Qed.

Theorem qci_small_nested : forall c c' r r', c <= c' ->
  qci_small P n x c = Some r -> qci_small P n x c' = Some r' ->
  (r_lo r' <= r_lo r)%Z /\ (r_hi r <= r_hi r')%Z.
Proof.
  intros c c' r r' Hc H H'. unfold qci_small in *.
  destruct (loop P c (Z.to_nat (n + 1)) (st_init P x)) as [a|] eqn:Ea; [|discriminate].
  destruct (loop P c' (Z.to_nat (n + 1)) (st_init P x)) as [b|] eqn:Eb; [|discriminate].
  injection H as <-. injection H' as <-.
  pose proof (loop_mono c c' Hc _ _ _ _ Ea Eb) as [L R].
  unfold clampR; simpl.
  destruct (Z.ltb_spec (s_l a) 0); destruct (Z.ltb_spec (s_l b) 0);
  destruct (Z.ltb_spec (n + 1) (s_r a)); destruct (Z.ltb_spec (n + 1) (s_r b)); lia.
Qed.
End Greedy.

(* ================= instantiation with the binomial PMF ================= *)
Lemma mode_x_range : forall (n : nat) q, 0 <= q <= 1 -> (0 <= mode_x (Z.of_nat n) q <= Z.of_nat n)%Z.
Proof.
  intros n q [Hq0 Hq1]. unfold mode_x. destruct (Qeq_bool q 0) eqn:E; [lia|].
  assert (Hq : 0 < q).
  { destruct (Qlt_le_dec 0 q) as [|L]; [assumption|]. exfalso.
    assert (q == 0) by lra. apply Qeq_bool_iff in H. congruence. }
  set (y := inject_Z (Z.of_nat n + 1) * q).
  pose proof (Qle_ceiling y) as C1. pose proof (Qceiling_lt y) as C2.
  assert (Hn1 : 0 < inject_Z (Z.of_nat n + 1)).
  { change 0 with (inject_Z 0). rewrite <- Zlt_Qlt. lia. }
  assert (Y0 : 0 < y) by (unfold y; apply Qmult_lt_0_compat; assumption).
  assert (Y1 : y <= inject_Z (Z.of_nat n + 1)).
  { unfold y. rewrite <- (Qmult_1_r (inject_Z (Z.of_nat n + 1))) at 2. apply Qmult_le_l; assumption. }
  split.
  - assert (0 < inject_Z (Qceiling y)) by lra. change 0 with (inject_Z 0) in H. rewrite <- Zlt_Qlt in H. lia.
  - assert (inject_Z (Qceiling y - 1) < inject_Z (Z.of_nat n + 1)) by lra. rewrite <- Zlt_Qlt in H. lia.
Qed.

Lemma binom_out : forall (n : nat) q k, (k < 0 \/ Z.of_nat n < k)%Z -> binom_pmf_i (Z.of_nat n) q k == 0.
Proof. intros n q k [H|H]; [rewrite binom_pmf_i_neg | rewrite binom_pmf_i_above]; auto; reflexivity. Qed.

Lemma qpow_0_S : forall k, qpow 0 (S k) == 0.
Proof. intros. simpl. ring. Qed.

Lemma binom_full_support : forall (n : nat) q, 0 <= q <= 1 ->
  FullSupport (binom_pmf_i (Z.of_nat n) q) (Z.of_nat n) (mode_x (Z.of_nat n) q).
Proof.
  intros n q [Hq0 Hq1]. unfold FullSupport.
  destruct (Qeq_bool q 0) eqn:E0.
  { (* q = 0: all the mass in bucket 0 *)
    right. unfold mode_x. rewrite E0. apply Qeq_bool_iff in E0.
    change 0%Z with (Z.of_nat 0). rewrite binom_pmf_i_bterm. unfold bterm.
    rewrite binom_n_0, Nat.sub_0_r, E0. simpl qpow at 1.
    assert (E : 1 - 0 == 1) by ring. rewrite E, qpow_1_l. reflexivity. }
  destruct (Qeq_bool q 1) eqn:E1.
  { (* q = 1: all the mass in bucket n *)
    right. unfold mode_x. rewrite E0. apply Qeq_bool_iff in E1.
    assert (EC : Qceiling (inject_Z (Z.of_nat n + 1) * q) = (Z.of_nat n + 1)%Z).
    { rewrite E1. rewrite Qmult_1_r. unfold Qceiling. rewrite <- inject_Z_opp, Qfloor_Z. lia. }
    rewrite EC. replace (Z.of_nat n + 1 - 1)%Z with (Z.of_nat n) by lia.
    rewrite binom_pmf_i_bterm. unfold bterm. rewrite binom_nn, Nat.sub_diag, E1, qpow_1_l. simpl. reflexivity. }
  left. intros k Hk.
  assert (Hq : 0 < q).
  { destruct (Qlt_le_dec 0 q) as [|L]; [assumption|]. exfalso. assert (q == 0) by lra. apply Qeq_bool_iff in H. congruence. }
  assert (Hq' : q < 1).
  { destruct (Qlt_le_dec q 1) as [|L]; [assumption|]. exfalso. assert (q == 1) by lra. apply Qeq_bool_iff in H. congruence. }
  destruct (Qlt_le_dec 0 (binom_pmf_i (Z.of_nat n) q k)) as [|L]; [assumption|]. exfalso.
  apply (proj2 (binom_bounds_support n q k Hq Hq') Hk).
  pose proof (binom_pmf_nonneg n q k (conj Hq0 Hq1)). lra.
Qed.

Section BinomInst.
Variable n : nat.
Variable q : Q.
Hypothesis Hq : 0 <= q <= 1.
Let P := binom_pmf_i (Z.of_nat n) q.
Let x := mode_x (Z.of_nat n) q.

Theorem qci_binom_spec : forall c,
  exists res, qci_small P (Z.of_nat n) x c = Some res /\
    (0 <= r_lo res)%Z /\ (r_lo res < r_hi res)%Z /\ (r_hi res <= Z.of_nat n + 1)%Z /\
    r_conf res == Qsum_range P (r_lo res) (r_hi res - 1) /\
    (r_lo res <= x < r_hi res)%Z /\
    (r_amb res = true -> Qsum_range P (r_lo res + 1) (r_hi res) == r_conf res) /\
    ((2 <= r_hi res - r_lo res)%Z -> r_conf res - P (r_lo res) < c \/ r_conf res - P (r_hi res - 1) < c) /\
    (c <= 1 -> c <= r_conf res).
Proof.
  intros c.
  destruct (qci_small_spec P (Z.of_nat n) x ltac:(lia) (mode_x_range n q Hq)
              (fun k => binom_pmf_nonneg n q k Hq) (binom_out n q) (binom_pmf_sums_to_one n q) c)
    as (res & E & A1 & A2 & A3 & A4 & A5 & A6 & A7 & A8).
  exists res. repeat split; try assumption; try lia.
  intros Hc. apply A8; [assumption|]. apply binom_full_support. exact Hq.
Qed.

Theorem qci_binom_nested : forall c c' r r', c <= c' ->
  qci_small P (Z.of_nat n) x c = Some r -> qci_small P (Z.of_nat n) x c' = Some r' ->
  (r_lo r' <= r_lo r)%Z /\ (r_hi r <= r_hi r')%Z.
Proof. intros. eapply qci_small_nested; eassumption. Qed.
End BinomInst.

(* c >= 1 *)
Theorem qci_full_spec : forall cdfband n q c l1 r1, 1 <= c ->
  quantile_ci cdfband n q c l1 r1 = Some (mkR 0 (n + 1) 1 false).
Proof.
  intros. unfold quantile_ci. apply Qle_bool_iff in H. rewrite H. reflexivity.
Qed.

(* for n <= 30 and c < 1 QuantileCI is the greedy accumulation on the Binomial(n,q) PMF *)
Theorem quantile_ci_small : forall cdfband (n : nat) q c l1 r1, c < 1 -> (Z.of_nat n <= 30)%Z ->
  quantile_ci cdfband (Z.of_nat n) q c l1 r1 =
  qci_small (binom_pmf_i (Z.of_nat n) q) (Z.of_nat n) (mode_x (Z.of_nat n) q) c.
Proof.
  intros. unfold quantile_ci. apply Qle_bool_false in H. rewrite H.
  unfold qci_threshold. destruct (Z.leb_spec (Z.of_nat n) 30); [reflexivity|lia].
Qed.

(* ================= the start bucket is a mode of Binomial(n, q) ================= *)
Section Mode.
Variable n : nat.
Variable q : Q.
Hypothesis Hq : 0 <= q <= 1.
Let B (k : nat) : Q := bterm q (1 - q) n k.

Lemma bterm_nonneg : forall k, 0 <= B k.
Proof.
  intros k. unfold B. rewrite <- binom_pmf_i_bterm. apply binom_pmf_nonneg. exact Hq.
Qed.

(* B(k+1) (k+1)(1-q) = B(k) (n-k) q *)
Lemma bterm_ratio : forall k, (k < n)%nat ->
  B (S k) * (inject_Z (Z.of_nat (S k)) * (1 - q)) == B k * ((inject_Z (Z.of_nat n) - inject_Z (Z.of_nat k)) * q).
Proof.
  intros k Hk. unfold B, bterm.
  pose proof (binom_succ_mul n k) as H.
  assert (HQ : inject_Z (binom n (S k)) * inject_Z (Z.of_nat (S k)) ==
               inject_Z (binom n k) * (inject_Z (Z.of_nat n) - inject_Z (Z.of_nat k))).
  { rewrite <- inject_Z_mult, H, inject_Z_mult. unfold Z.sub. rewrite inject_Z_plus, inject_Z_opp. reflexivity. }
  replace (n - k)%nat with (S (n - S k)) by lia. simpl qpow.
  transitivity (inject_Z (binom n (S k)) * inject_Z (Z.of_nat (S k)) * (q * qpow q k * qpow (1 - q) (n - S k) * (1 - q))); [ring|].
  rewrite HQ. ring.
Qed.

Let y : Q := inject_Z (Z.of_nat n + 1) * q.

(* (n-k) q - (k+1)(1-q) = (n+1) q - (k+1) *)
Lemma ratio_diff : forall k,
  (inject_Z (Z.of_nat n) - inject_Z (Z.of_nat k)) * q - inject_Z (Z.of_nat (S k)) * (1 - q) == y - inject_Z (Z.of_nat (S k)).
Proof.
  intros k. unfold y. rewrite Nat2Z.inj_succ. unfold Z.succ. rewrite !inject_Z_plus. change (inject_Z 1) with 1. ring.
Qed.

Lemma bterm_up : forall k, (k < n)%nat -> inject_Z (Z.of_nat (S k)) <= y -> B k <= B (S k).
Proof.
  intros k Hk Hy. pose proof (bterm_ratio k Hk) as R. pose proof (ratio_diff k) as D.
  pose proof (bterm_nonneg k) as P0. pose proof (bterm_nonneg (S k)) as P1.
  set (A := inject_Z (Z.of_nat (S k)) * (1 - q)) in *.
  set (Bq := (inject_Z (Z.of_nat n) - inject_Z (Z.of_nat k)) * q) in *.
  assert (A0 : 0 <= A).
  { unfold A. apply Qmult_le_0_compat; [|lra]. change 0 with (inject_Z 0). rewrite <- Zle_Qle. lia. }
  assert (AB : A <= Bq) by lra.
  destruct (Qlt_le_dec 0 A) as [Ap|Az].
  - destruct (Qlt_le_dec (B (S k)) (B k)) as [L|]; [|assumption]. exfalso.
    assert (B (S k) * A < B k * A) by (apply Qmult_lt_compat_r; assumption).
    assert (B k * A <= B k * Bq) by (apply Qmult_le_l_weak || (rewrite !(Qmult_comm (B k)); apply Qmult_le_compat_r; assumption)).
    lra.
  - (* A = 0, i.e. q = 1: then B k = 0 *)
    assert (A == 0) by lra.
    assert (Bq0 : 0 < Bq).
    { assert (Hq1 : q == 1).
      { unfold A in H. apply Qmult_integral in H as [H|H]; [|lra].
        exfalso. assert (0 < inject_Z (Z.of_nat (S k))) by (change 0 with (inject_Z 0); rewrite <- Zlt_Qlt; lia). lra. }
      unfold Bq. rewrite Hq1, Qmult_1_r.
      assert (inject_Z (Z.of_nat k) < inject_Z (Z.of_nat n)) by (rewrite <- Zlt_Qlt; lia). lra. }
    rewrite H, Qmult_0_r in R.
    assert (B k == 0).
    { symmetry in R. apply Qmult_integral in R as [R|R]; [assumption|lra]. }
    lra.
Qed.

Lemma bterm_down : forall k, (k < n)%nat -> y <= inject_Z (Z.of_nat (S k)) -> B (S k) <= B k.
Proof.
  intros k Hk Hy. pose proof (bterm_ratio k Hk) as R. pose proof (ratio_diff k) as D.
  pose proof (bterm_nonneg k) as P0. pose proof (bterm_nonneg (S k)) as P1.
  set (A := inject_Z (Z.of_nat (S k)) * (1 - q)) in *.
  set (Bq := (inject_Z (Z.of_nat n) - inject_Z (Z.of_nat k)) * q) in *.
  assert (B0 : 0 <= Bq).
  { unfold Bq. apply Qmult_le_0_compat; [|lra].
    assert (inject_Z (Z.of_nat k) < inject_Z (Z.of_nat n)) by (rewrite <- Zlt_Qlt; lia). lra. }
  assert (AB : Bq <= A) by lra.
  destruct (Qlt_le_dec 0 A) as [Ap|Az].
  - destruct (Qlt_le_dec (B k) (B (S k))) as [L|]; [|assumption]. exfalso.
    assert (B k * A < B (S k) * A) by (apply Qmult_lt_compat_r; assumption).
    assert (B k * Bq <= B k * A) by (rewrite !(Qmult_comm (B k)); apply Qmult_le_compat_r; assumption).
    lra.
  - (* A = 0 forces q = 1 and then Bq = n - k > 0: impossible *)
    exfalso. assert (HA : A == 0) by lra.
    assert (Hq1 : q == 1).
    { unfold A in HA. apply Qmult_integral in HA as [H|H]; [|lra].
      exfalso. assert (0 < inject_Z (Z.of_nat (S k))) by (change 0 with (inject_Z 0); rewrite <- Zlt_Qlt; lia). lra. }
    assert (0 < Bq).
    { unfold Bq. rewrite Hq1, Qmult_1_r.
      assert (inject_Z (Z.of_nat k) < inject_Z (Z.of_nat n)) by (rewrite <- Zlt_Qlt; lia). lra. }
    lra.
Qed.

Let x : Z := mode_x (Z.of_nat n) q.
Let xn : nat := Z.to_nat x.

Lemma mode_brackets : (forall k, (S k <= xn)%nat -> inject_Z (Z.of_nat (S k)) <= y) /\
                      (forall k, (xn <= k)%nat -> y <= inject_Z (Z.of_nat (S k))).
Proof.
  pose proof (mode_x_range n q Hq) as Hx. fold x in Hx.
  unfold xn, x, mode_x in *. destruct (Qeq_bool q 0) eqn:E.
  - apply Qeq_bool_iff in E. split.
    + intros k Hk. simpl in Hk. lia.
    + intros k _. unfold y. rewrite E, Qmult_0_r. change 0 with (inject_Z 0). rewrite <- Zle_Qle. lia.
  - fold y in Hx |- *. pose proof (Qle_ceiling y) as C1. pose proof (Qceiling_lt y) as C2. split.
    + intros k Hk.
      assert (inject_Z (Z.of_nat (S k)) <= inject_Z (Qceiling y - 1)) by (rewrite <- Zle_Qle; lia). lra.
    + intros k Hk.
      assert (inject_Z (Qceiling y) <= inject_Z (Z.of_nat (S k))) by (rewrite <- Zle_Qle; lia). lra.
Qed.

Lemma mode_ge_below : forall d, (d <= xn)%nat -> B (xn - d) <= B xn.
Proof.
  pose proof (mode_x_range n q Hq) as Hx. fold x in Hx.
  induction d as [|d IH]; intros Hd.
  - rewrite Nat.sub_0_r. lra.
  - specialize (IH ltac:(lia)).
    assert (E : (xn - d)%nat = S (xn - S d)) by lia. rewrite E in IH.
    pose proof (bterm_up (xn - S d) ltac:(unfold xn in *; lia)
                  (proj1 mode_brackets (xn - S d)%nat ltac:(lia))). lra.
Qed.

Lemma mode_ge_above : forall d, B (xn + d) <= B xn.
Proof.
  induction d as [|d IH].
  - rewrite Nat.add_0_r. lra.
  - replace (xn + S d)%nat with (S (xn + d)) by lia.
    destruct (le_lt_dec n (xn + d)) as [L|L].
    + unfold B at 1, bterm. rewrite binom_gt by lia. unfold inject_Z at 1.
      pose proof (bterm_nonneg xn). lra.
    + pose proof (bterm_down (xn + d) L (proj2 mode_brackets (xn + d)%nat ltac:(lia))). lra.
Qed.

(* PMF(k) <= PMF(x) for every k: x is a mode, and by mode_brackets the lower one of two *)
Theorem binom_mode_is_max : forall k, binom_pmf_i (Z.of_nat n) q k <= binom_pmf_i (Z.of_nat n) q x.
Proof.
  intros k. pose proof (mode_x_range n q Hq) as Hx. fold x in Hx.
  assert (EX : binom_pmf_i (Z.of_nat n) q x == B xn).
  { unfold B, xn. rewrite <- binom_pmf_i_bterm. rewrite Z2Nat.id by lia. reflexivity. }
  destruct (Z.ltb_spec k 0) as [L|L].
  { rewrite binom_pmf_i_neg by lia. rewrite EX. apply bterm_nonneg. }
  assert (EK : binom_pmf_i (Z.of_nat n) q k == B (Z.to_nat k)).
  { unfold B. rewrite <- binom_pmf_i_bterm. rewrite Z2Nat.id by lia. reflexivity. }
  rewrite EK, EX.
  destruct (le_lt_dec (Z.to_nat k) xn) as [Lk|Lk].
  - replace (Z.to_nat k) with (xn - (xn - Z.to_nat k))%nat by lia. apply mode_ge_below. lia.
  - replace (Z.to_nat k) with (xn + (Z.to_nat k - xn))%nat by lia. apply mode_ge_above.
Qed.
End Mode.

(* ================= SampleCI ================= *)
Theorem sample_ci_spec : forall N lo hi xs,
  Z.of_nat (length xs) = N -> (0 <= lo <= N)%Z -> (1 <= hi <= N + 1)%Z ->
  exists a b s, sample_ci N lo hi false false xs = SciOk a b s /\
    Permutation xs s /\ Sorted (fun u v => Qle_bool u v = true) s /\
    (lo = 0%Z -> a = XInf true) /\
    ((1 <= lo)%Z -> exists v, nth_error s (Z.to_nat (lo - 1)) = Some v /\ a = XFin v) /\
    (hi = (N + 1)%Z -> b = XInf false) /\
    ((hi <= N)%Z -> exists v, nth_error s (Z.to_nat (hi - 1)) = Some v /\ b = XFin v).
Proof.
  intros N lo hi xs HN Hlo Hhi. unfold sample_ci. simpl orb.
  rewrite HN, Z.eqb_refl. simpl negb. cbv iota.
  set (s := QSort.sort xs).
  assert (Hperm : Permutation xs s) by apply QSort.Permuted_sort.
  assert (Hlen : Z.of_nat (length s) = N) by (rewrite <- (Permutation_length Hperm); exact HN).
  assert (Hsorted : Sorted (fun u v => Qle_bool u v = true) s).
  { pose proof (QSort.Sorted_sort xs) as H. fold s in H. exact H. }
  assert (NTH : forall i, (0 <= i < N)%Z -> exists v, nth_error s (Z.to_nat i) = Some v).
  { intros i Hi. destruct (nth_error s (Z.to_nat i)) as [v|] eqn:E; [exists v; reflexivity|].
    apply nth_error_None in E. lia. }
  destruct (Z.ltb_spec lo 1) as [L1|L1].
  - destruct (Z.leb_spec (Z.of_nat (length s)) (hi - 1)) as [L2|L2].
    + exists (XInf true), (XInf false), s. repeat split; try assumption; try reflexivity; intros; lia.
    + destruct (Z.ltb_spec hi 1); [lia|]. destruct (NTH (hi - 1)%Z ltac:(lia)) as [v Ev]. rewrite Ev. simpl.
      exists (XInf true), (XFin v), s. repeat split; try assumption; try reflexivity; try (intros; lia).
      intros _. exists v. split; [exact Ev|reflexivity].
  - destruct (NTH (lo - 1)%Z ltac:(lia)) as [u Eu]. rewrite Eu. simpl.
    destruct (Z.leb_spec (Z.of_nat (length s)) (hi - 1)) as [L2|L2].
    + exists (XFin u), (XInf false), s. repeat split; try assumption; try reflexivity; try (intros; lia).
      intros _. exists u. split; [exact Eu|reflexivity].
    + destruct (Z.ltb_spec hi 1); [lia|]. destruct (NTH (hi - 1)%Z ltac:(lia)) as [v Ev]. rewrite Ev. simpl.
      exists (XFin u), (XFin v), s. repeat split; try assumption; try reflexivity; try (intros; lia).
      * intros _. exists u. split; [exact Eu|reflexivity].
      * intros _. exists v. split; [exact Ev|reflexivity].
Qed.

(* weighted samples and size mismatches panic *)
Theorem sample_ci_panics : forall N lo hi w sf xs,
  w = true \/ Z.of_nat (length xs) <> N -> sample_ci N lo hi w sf xs = SciPanic.
Proof.
  intros N lo hi w sf xs [->|H]; unfold sample_ci; [reflexivity|].
  destruct (Z.eqb_spec (Z.of_nat (length xs)) N); [contradiction|]. rewrite orb_true_r. reflexivity.
Qed.

(* ================= n > 30: the band logic, for ANY non-decreasing Phi ================= *)
Lemma Zle_from_Qlt : forall a b, inject_Z a < inject_Z b + 1 -> (a <= b)%Z.
Proof.
  intros a b H. change 1 with (inject_Z 1) in H. rewrite <- inject_Z_plus in H. rewrite <- Zlt_Qlt in H. lia.
Qed.

(* ---------- the widening loop and the band logic for ANY band-mass function ---------- *)
Section NormalGen.
Variable cdfband : Z -> Z -> Q.
Variable n : Z.
Variable c : Q.

(* with fuel >= max(l, n+1-r) the loop has really stopped: it made k >= 0 steps, every narrower band
   (l-j, r+j), j < k, had mass < c and did not cover [0, n+1], and at (l-k, r+k) the guard is false *)
Lemma widen_spec : forall fuel l r, (Z.max l (n + 1 - r) <= Z.of_nat fuel)%Z ->
  exists k, (0 <= k)%Z /\ widen cdfband fuel n c l r = ((l - k)%Z, (r + k)%Z) /\
            widen_more cdfband n c (l - k) (r + k) = false /\
            forall j, (0 <= j < k)%Z -> widen_more cdfband n c (l - j) (r + j) = true.
Proof.
  induction fuel as [|f IH]; intros l r Hf.
  - exists 0%Z. rewrite !Z.sub_0_r, !Z.add_0_r. split; [lia|]. split; [reflexivity|]. split; [|intros; lia].
    unfold widen_more. assert (A : (0 <? l)%Z = false) by (apply Z.ltb_ge; lia).
    assert (B : (r <? n + 1)%Z = false) by (apply Z.ltb_ge; lia). rewrite A, B. apply andb_false_r.
  - cbn [widen]. destruct (widen_more cdfband n c l r) eqn:E.
    + destruct (IH (l - 1)%Z (r + 1)%Z ltac:(lia)) as (k & Hk & E1 & E2 & E3).
      exists (k + 1)%Z. split; [lia|].
      replace (l - (k + 1))%Z with (l - 1 - k)%Z by lia. replace (r + (k + 1))%Z with (r + 1 + k)%Z by lia.
      split; [exact E1|]. split; [exact E2|]. intros j Hj.
      destruct (Z.eq_dec j 0) as [->|Hj0]; [rewrite Z.sub_0_r, Z.add_0_r; exact E|].
      replace (l - j)%Z with (l - 1 - (j - 1))%Z by lia. replace (r + j)%Z with (r + 1 + (j - 1))%Z by lia.
      apply E3. lia.
    + exists 0%Z. rewrite !Z.sub_0_r, !Z.add_0_r. split; [lia|]. split; [reflexivity|]. split; [exact E | intros; lia].
Qed.

Variables l1 r1 : Q.
Let l0 := (Qfloor (l1 - (1 # 2)) + 1)%Z.
Let r0 := (Qceiling (r1 - (1 # 2)) + 1)%Z.
Let la := if (r0 <=? l0)%Z then (r0 - 1)%Z else l0.

(* the result in one piece: k widenings, then the left-biased trim, the full-range fix-up and the clamps *)
Theorem qci_normal_gen :
  exists k, (0 <= k)%Z /\
    (forall j, (0 <= j < k)%Z -> cdfband (la - j) (r0 + j) < c /\ (0 < la - j \/ r0 + j < n + 1)%Z) /\
    let lw := (la - k)%Z in
    let rw := (r0 + k)%Z in
    (c <= cdfband lw rw \/ (lw <= 0 /\ n + 1 <= rw)%Z) /\
    let biased := (lw <? rw - 1)%Z && Qle_bool c (cdfband lw (rw - 1)) && Qltb (cdfband lw (rw - 1)) (cdfband lw rw) in
    let r' := if biased then (rw - 1)%Z else rw in
    let full := (lw <=? 0)%Z && (n + 1 <=? r')%Z in
    qci_normal cdfband n c l1 r1 =
    mkR (Z.max lw 0) (Z.min r' (n + 1)) (if full then 1 else if biased then cdfband lw (rw - 1) else cdfband lw rw)
        (biased && negb full).
Proof.
  destruct (widen_spec (widen_fuel n la r0) la r0) as (k & Hk & E1 & E2 & E3).
  { unfold widen_fuel. lia. }
  exists k. split; [exact Hk|]. split.
  { intros j Hj. specialize (E3 j Hj). unfold widen_more in E3. apply andb_prop in E3 as [A B].
    apply Qltb_true in A. split; [exact A|]. apply orb_prop in B as [B|B]; apply Z.ltb_lt in B; lia. }
  cbv zeta. split.
  { unfold widen_more in E2. apply andb_false_iff in E2 as [A|B].
    - left. apply Qltb_false in A. exact A.
    - right. apply orb_false_iff in B as [B1 B2]. apply Z.ltb_ge in B1. apply Z.ltb_ge in B2. lia. }
  unfold qci_normal. fold l0 r0. fold la. rewrite E1.
  set (lw := (la - k)%Z). set (rw := (r0 + k)%Z).
  set (biased := (lw <? rw - 1)%Z && Qle_bool c (cdfband lw (rw - 1)) && Qltb (cdfband lw (rw - 1)) (cdfband lw rw)).
  clearbody biased. destruct biased; cbv beta iota; cbn [negb andb].
  - destruct ((lw <=? 0)%Z && (n + 1 <=? rw - 1)%Z) eqn:F; unfold clampR; cbn [negb andb]; f_equal;
      try (destruct (lw <? 0)%Z eqn:X; [apply Z.ltb_lt in X | apply Z.ltb_ge in X]; lia);
      try (destruct (n + 1 <? rw - 1)%Z eqn:X; [apply Z.ltb_lt in X | apply Z.ltb_ge in X]; lia).
  - destruct ((lw <=? 0)%Z && (n + 1 <=? rw)%Z) eqn:F; unfold clampR; cbn [negb andb]; f_equal;
      try (destruct (lw <? 0)%Z eqn:X; [apply Z.ltb_lt in X | apply Z.ltb_ge in X]; lia);
      try (destruct (n + 1 <? rw)%Z eqn:X; [apply Z.ltb_lt in X | apply Z.ltb_ge in X]; lia).
Qed.

(* Confidence is never below c (c <= 1) — for EVERY band-mass function, whatever l1 and r1 are: the
   widening loop re-checks the mass, so this clause does not depend on the accuracy of InvCDF or CDF *)
Theorem qci_normal_conf_ge_c_gen : c <= 1 -> c <= r_conf (qci_normal cdfband n c l1 r1).
Proof.
  intros Hc. destruct qci_normal_gen as (k & _ & _ & H). cbv zeta in H. destruct H as [Hstop E]. rewrite E. cbn [r_conf].
  set (lw := (la - k)%Z) in *. set (rw := (r0 + k)%Z) in *.
  destruct ((lw <? rw - 1)%Z && Qle_bool c (cdfband lw (rw - 1)) && Qltb (cdfband lw (rw - 1)) (cdfband lw rw)) eqn:Bi.
  - destruct ((lw <=? 0)%Z && (n + 1 <=? rw - 1)%Z); [exact Hc|].
    apply andb_prop in Bi as [Bi _]. apply andb_prop in Bi as [_ B]. apply Qle_bool_iff in B. exact B.
  - destruct ((lw <=? 0)%Z && (n + 1 <=? rw)%Z) eqn:F; [exact Hc|].
    destruct Hstop as [H|[H1 H2]]; [exact H|]. exfalso.
    apply andb_false_iff in F as [F|F]; [apply Z.leb_gt in F | apply Z.leb_gt in F]; lia.
Qed.
End NormalGen.

Section NormalBand.
Variable Phi : Q -> Q.                                   (* norm.CDF *)
Definition band (l r : Z) : Q := Phi (inject_Z r - (1 # 2)) - Phi (inject_Z l - (1 # 2)).

Variable n : Z.
Variables c l1 r1 : Q.
Let l0 := (Qfloor (l1 - (1 # 2)) + 1)%Z.
Let r := (Qceiling (r1 - (1 # 2)) + 1)%Z.
Let l := if (r <=? l0)%Z then (r - 1)%Z else l0.

(* outward rounding to half-integers: l0 - 1/2 is the greatest half-integer <= l1 and
   r - 1/2 the least half-integer >= r1 *)
Lemma band_rounding :
  inject_Z l0 - (1 # 2) <= l1 /\ l1 < inject_Z l0 + (1 # 2) /\
  r1 <= inject_Z r - (1 # 2) /\ inject_Z r - (3 # 2) < r1.
Proof.
  unfold l0, r. rewrite !inject_Z_plus. change (inject_Z 1) with 1.
  pose proof (Qfloor_le (l1 - (1 # 2))) as F1. pose proof (Qlt_floor (l1 - (1 # 2))) as F2.
  pose proof (Qle_ceiling (r1 - (1 # 2))) as C1. pose proof (Qceiling_lt (r1 - (1 # 2))) as C2.
  rewrite inject_Z_plus in F2. change (inject_Z 1) with 1 in F2.
  unfold Z.sub in C2. rewrite inject_Z_plus, inject_Z_opp in C2. change (inject_Z 1) with 1 in C2.
  repeat split; lra.
Qed.

(* the left end of the rounded band: l0, except that an empty rounded band (r <= l0: the interval
   [l1, r1] is a single point on a half-integer, or reversed) keeps the bucket below r.  The band is
   never empty, never starts right of l0, and is the outward rounding whenever l1 < r1. *)
Lemma band_left : (l <= l0)%Z /\ (l < r)%Z /\ (l1 < r1 -> l = l0) /\ (l1 <= r1 -> (l0 <= r)%Z).
Proof.
  destruct band_rounding as (R1 & R2 & R3 & R4).
  assert (Hle : l1 <= r1 -> (l0 <= r)%Z).
  { intros H. apply Zle_from_Qlt. lra. }
  assert (Hlt : l1 < r1 -> (l0 < r)%Z).
  { intros H. assert (l0 <= r - 1)%Z; [|lia]. apply Zle_from_Qlt. unfold Z.sub.
    rewrite inject_Z_plus, inject_Z_opp. change (inject_Z 1) with 1. lra. }
  unfold l. destruct (Z.leb_spec r l0) as [L|L].
  - split; [lia|]. split; [lia|]. split; [|exact Hle]. intros H. specialize (Hlt H). lia.
  - split; [lia|]. split; [lia|]. split; [reflexivity | exact Hle].
Qed.

(* the result: the rounded band widened by k >= 0 buckets on each side — every narrower band had mass
   < c and did not cover [0, n+1]; the band taken has mass >= c or covers [0, n+1] — then one bucket
   shorter on the right with Ambiguous set exactly when that is not empty, still has mass >= c and
   strictly less than the symmetric band; Confidence is the Phi-mass of the (unclamped) band, 1 when the
   band covers [0, n+1]; orders clamped to [0, n+1] *)
Theorem qci_normal_band :
  exists k, (0 <= k)%Z /\
    (forall j, (0 <= j < k)%Z -> band (l - j) (r + j) < c /\ (0 < l - j \/ r + j < n + 1)%Z) /\
    let lw := (l - k)%Z in
    let rw := (r + k)%Z in
    (c <= band lw rw \/ (lw <= 0 /\ n + 1 <= rw)%Z) /\
    let biased := (lw <? rw - 1)%Z && Qle_bool c (band lw (rw - 1)) && Qltb (band lw (rw - 1)) (band lw rw) in
    let r' := if biased then (rw - 1)%Z else rw in
    let full := (lw <=? 0)%Z && (n + 1 <=? r')%Z in
    let res := qci_normal band n c l1 r1 in
    r_lo res = Z.max lw 0 /\ r_hi res = Z.min r' (n + 1) /\
    r_amb res = (biased && negb full) /\
    r_conf res = (if full then 1 else band lw r').
Proof.
  destruct (qci_normal_gen band n c l1 r1) as (k & Hk & Hj & H). fold l0 r l in Hj, H.
  exists k. split; [exact Hk|]. split; [exact Hj|]. cbv zeta in *. destruct H as [Hs E].
  split; [exact Hs|]. rewrite E. cbn [r_lo r_hi r_amb r_conf]. repeat split; try reflexivity.
  destruct ((l - k <? r + k - 1)%Z && Qle_bool c (band (l - k) (r + k - 1)) &&
            Qltb (band (l - k) (r + k - 1)) (band (l - k) (r + k))); reflexivity.
Qed.

(* 0 <= LoOrder < HiOrder <= n+1 for EVERY c, for a central interval [l1, r1] (l1 <= r1) about a
   mean inside [0, n]; no assumption on Phi *)
Theorem qci_normal_orders : forall mu, l1 <= r1 -> l1 + r1 == 2 * mu ->
  0 <= mu <= inject_Z n -> (0 <= n)%Z ->
  let res := qci_normal band n c l1 r1 in
  (0 <= r_lo res)%Z /\ (r_lo res < r_hi res)%Z /\ (r_hi res <= n + 1)%Z.
Proof.
  intros mu Hlr Hsum Hmu Hn res. unfold res.
  destruct qci_normal_band as (k & Hk & _ & H). cbv zeta in H. destruct H as (_ & E1 & E2 & _ & _). rewrite E1, E2.
  destruct band_rounding as (R1 & R2 & R3 & R4).
  destruct band_left as (L1 & L2 & _ & _).
  assert (Ll : (l0 <= n)%Z) by (apply Zle_from_Qlt; lra).
  assert (Lr : (1 <= r)%Z).
  { assert (0 <= r - 1)%Z; [|lia]. apply Zle_from_Qlt. unfold Z.sub. rewrite inject_Z_plus, inject_Z_opp.
    change (inject_Z 1) with 1. change (inject_Z 0) with 0. lra. }
  match goal with |- context [if ?b then _ else _] => destruct b eqn:Bi end; [|lia].
  apply andb_prop in Bi as [Bi _]. apply andb_prop in Bi as [B0 _].
  apply Z.ltb_lt in B0.
  assert (Lr' : (1 <= r + k - 1)%Z).
  { destruct (Z_lt_ge_dec (r + k - 1) 1) as [L|]; [|lia]. exfalso.
    assert (Er : r = 1%Z) by lia. assert (Ek : k = 0%Z) by lia.
    (* then r1 <= 1/2 and l < 0, so l = l0 <= -1 and l1 < -1/2: r1 = 2 mu - l1 > 1/2 *)
    assert (Hr1 : r1 <= 1 # 2). { rewrite Er in R3. change (inject_Z 1) with 1 in R3. lra. }
    assert (El : l = l0).
    { unfold l in *. destruct (Z.leb_spec r l0); [lia | reflexivity]. }
    assert (Hl0 : (l0 <= -1)%Z) by lia.
    assert (inject_Z l0 <= -(1)) by (change (-(1)) with (inject_Z (-1)); rewrite <- Zle_Qle; exact Hl0).
    lra. }
  lia.
Qed.

(* never below c (c <= 1): no hypothesis on Phi, l1 or r1 *)
Theorem qci_normal_conf_ge_c : c <= 1 -> c <= r_conf (qci_normal band n c l1 r1).
Proof. apply qci_normal_conf_ge_c_gen. Qed.

Hypothesis Hmon : forall a b, a <= b -> Phi a <= Phi b.

Lemma qci_alpha_spec : c <= 1 - 2 * qci_alpha c /\ qci_alpha c <= 1 # 2.
Proof.
  unfold qci_alpha. cbv zeta. destruct (Qltb (1 # 2) ((1 - c) / 2)) eqn:E.
  - apply Qltb_true in E. assert (EA : (1 - c) / 2 == (1 # 2) - c * (1 # 2)) by field. rewrite EA in E. lra.
  - apply Qltb_false in E. assert (EA : (1 - c) / 2 == (1 # 2) - c * (1 # 2)) by field. rewrite EA in *. lra.
Qed.

(* when l1 and r1 really bracket the central mass 1 - 2 alpha of a non-decreasing Phi (alpha = qci_alpha c),
   the rounded band already has mass >= c: the loop does not widen, and the result is the outward
   rounding itself (trimmed / clamped) *)
Theorem qci_normal_no_widening : Phi l1 <= qci_alpha c -> 1 - qci_alpha c <= Phi r1 ->
  c <= band l r /\
  let biased := (l <? r - 1)%Z && Qle_bool c (band l (r - 1)) && Qltb (band l (r - 1)) (band l r) in
  let r' := if biased then (r - 1)%Z else r in
  let full := (l <=? 0)%Z && (n + 1 <=? r')%Z in
  qci_normal band n c l1 r1 =
  mkR (Z.max l 0) (Z.min r' (n + 1)) (if full then 1 else if biased then band l (r - 1) else band l r) (biased && negb full).
Proof.
  intros H1 H2.
  assert (Hb : c <= band l r).
  { destruct band_rounding as (R1 & _ & R3 & _). destruct band_left as (L1 & _ & _ & _).
    destruct qci_alpha_spec as [A1 _].
    assert (R1' : inject_Z l - (1 # 2) <= l1).
    { assert (inject_Z l <= inject_Z l0) by (rewrite <- Zle_Qle; exact L1). lra. }
    unfold band. pose proof (Hmon _ _ R1'). pose proof (Hmon _ _ R3). lra. }
  split; [exact Hb|].
  destruct (qci_normal_gen band n c l1 r1) as (k & Hk & Hj & H). fold l0 r l in Hj, H.
  assert (Ek : k = 0%Z).
  { destruct (Z.eq_dec k 0) as [E|E]; [exact E|]. exfalso.
    destruct (Hj 0%Z ltac:(lia)) as [A _]. rewrite Z.sub_0_r, Z.add_0_r in A. lra. }
  subst k. cbv zeta in H. rewrite !Z.sub_0_r, !Z.add_0_r in H. destruct H as [_ E]. exact E.
Qed.
End NormalBand.

(* Proofs/QuantileCIExact.v — with the window switched off (ieps = 0, the float-exact regime of
   Check/C11.v) the admissible-outcome set is EXACTLY the one outcome of the deterministic greedy
   accumulation: the comparator is strict there. *)
From MM Require Import Base.Num Base.GFSum Model.Choose Model.Binom Model.QuantileCI
                       Proofs.Binom Proofs.QuantileCI Proofs.QuantileCISet Proofs.QuantileCIScale
                       Proofs.C06Table Check.C06 Check.C11.
From Coq Require Import Lqa Lia.
Local Open Scope Q_scope.

Section Exact.
Variable P : Z -> Q.
Variable sc : Q.
Hypothesis Hsc : 0 < sc.
Notation st := QuantileCI.st.

Lemma near0 : forall a b, near 0 a b = false.
Proof. intros. unfold near. reflexivity. Qed.

Lemma same_key_refl' : forall s : st, same_key s s = true.
Proof. intros. unfold same_key. rewrite !Z.eqb_refl, Bool.eqb_reflx. reflexivity. Qed.

Lemma step_choices0 : forall s, map (apply_choice P s) (step_choices P 0 s) = [step P s].
Proof.
  intros s. unfold step_choices. rewrite near0. cbn [map].
  destruct (step_is_choice P 0 s) as [_ E]. rewrite E. reflexivity.
Qed.

Lemma guard0 : forall c c' s, c' == sc * c ->
  guard_choices P 0 sc c' s = (negb (more P c s), more P c s).
Proof.
  intros c c' s Hc'. unfold guard_choices, more, has_mass. rewrite near0.
  rewrite (Qltb_comp _ _ _ _ (Qeq_refl (sc * s_acc s)) Hc'), (Qltb_scale sc Hsc).
  destruct (Qltb (s_acc s) c); destruct (Qltb 0 (lp P s) || Qltb 0 (rp P s)); reflexivity.
Qed.

Lemma more_has_mass : forall c s, more P c s = true -> has_mass P s = true.
Proof. intros c s H. unfold more in H. apply andb_prop in H as [_ H]. exact H. Qed.

(* the graph from a single state is the chain of the deterministic steps; walking it for a level c
   stops exactly where the deterministic loop stops *)
Lemma walk_exact : forall c c', c' == sc * c ->
  forall gf s g, graph P 0 gf [s] = Some g ->
  forall lf sf, loop P c lf s = Some sf ->
  walk P 0 sc c' g [s] [] = [sf].
Proof.
  intros c c' Hc'. induction gf as [|gf IH]; intros s g Hg lf sf Hloop; [discriminate|].
  cbn [graph map fold_left] in Hg.
  destruct (more P c s) eqn:Hm.
  - (* the loop goes on *)
    rewrite (more_has_mass c s Hm), step_choices0 in Hg. cbn [snd fold_left insert_st] in Hg.
    destruct (graph P 0 gf [step P s]) as [g'|] eqn:Eg; [|discriminate]. injection Hg as <-.
    destruct lf as [|lf]; simpl in Hloop; rewrite Hm in Hloop; [discriminate|].
    cbn [walk fold_left existsb]. rewrite same_key_refl'. cbn [orb].
    rewrite (guard0 c c' s Hc'), Hm. cbn [negb fold_left insert_st].
    apply (IH _ _ Eg lf sf Hloop).
  - (* the loop stops at s *)
    assert (Esf : sf = s).
    { destruct lf; simpl in Hloop; rewrite Hm in Hloop; injection Hloop as <-; reflexivity. }
    subst sf.
    destruct (graph P 0 gf _) as [g'|]; [|discriminate]. injection Hg as <-.
    cbn [walk fold_left existsb]. rewrite same_key_refl'. cbn [orb].
    rewrite (guard0 c c' s Hc'), Hm. cbn [negb insert_st]. reflexivity.
Qed.

Theorem set_exact_window0 : forall n x c c' g r, c' == sc * c ->
  qci_graph P 0 n [x] = Some g -> qci_small P n x c = Some r ->
  qci_small_set P 0 n g sc c' = [r].
Proof.
  intros n x c c' g r Hc' Hg Hr. unfold qci_small in Hr.
  destruct (loop P c (Z.to_nat (n + 1)) (st_init P x)) as [sf|] eqn:Hloop; [|discriminate]. injection Hr as <-.
  unfold qci_graph in Hg. cbn [fold_left] in Hg. unfold init_choices in Hg. rewrite near0 in Hg.
  cbn [fold_left insert_st] in Hg.
  pose proof (walk_exact c c' Hc' _ _ _ Hg _ _ Hloop) as W.
  unfold qci_small_set.
  destruct g as [|nodes g']; [destruct (Z.to_nat (n + 3)); discriminate|].
  assert (En : map fst nodes = [st_init P x]).
  { destruct (Z.to_nat (n + 3)) as [|f]; [discriminate|]. cbn [graph map] in Hg.
    destruct (graph P 0 f _); [|discriminate]. injection Hg as <- _. reflexivity. }
  rewrite En, W. reflexivity.
Qed.
End Exact.

(* In the float-exact regime (window 0, start candidates = the model's lower mode) the set the
   comparator computes for (n, q = a/2^e, c) is exactly one outcome, and it is the result of the
   deterministic model on the rational Binomial(n,q) PMF at level c (Confidence as the integer
   numerator over d^n). *)
Theorem comparator_outs_exact : forall (n : nat) (q : Q), 0 <= q <= 1 ->
  let N := Z.of_nat n in
  let d := Zpos (Qden q) in
  let Pw := scaled_pmf N (binom_weights N (Qnum q) (d - Qnum q)) in
  forall e c g r, (0 <= e)%Z -> d = Z.shiftl 1 e ->
  qci_graph Pw 0 N (mode_candidates N q true) = Some g ->
  qci_small (binom_pmf_i N q) N (mode_x N q) c = Some r ->
  exists r', small_outs Pw N g e true c = [r'] /\
             r_lo r' = r_lo r /\ r_hi r' = r_hi r /\ r_amb r' = r_amb r /\
             r_conf r' == inject_Z (d ^ N) * r_conf r.
Proof.
  intros n q Hq N d Pw e c g r He Hd Hg Hr.
  assert (HD : 0 < inject_Z (d ^ N)).
  { change 0 with (inject_Z 0). rewrite <- Zlt_Qlt. apply Z.pow_pos_nonneg; unfold d, N; lia. }
  assert (HP : forall k, Pw k == inject_Z (d ^ N) * binom_pmf_i N q k).
  { intros k. apply scaled_pmf_is_scaled. exact Hq. }
  destruct (qci_small_scale_fwd (binom_pmf_i N q) Pw _ HD HP N (mode_x N q) c r Hr) as (r1 & H1 & A & B & C & E).
  exists r1. split; [|auto].
  unfold small_outs. unfold mode_candidates in Hg. cbn [orb] in Hg.
  apply (set_exact_window0 Pw (inject_Z (Zpos (Qden c)))) with (x := mode_x N q) (c := inject_Z (d ^ N) * c).
  - change 0 with (inject_Z 0). rewrite <- Zlt_Qlt. lia.
  - apply comparator_level; assumption.
  - exact Hg.
  - exact H1.
Qed.

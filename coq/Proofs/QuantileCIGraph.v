(* Proofs/QuantileCIGraph.v — the transition graph of the admissible-set computation always exists
   within its fuel n+3: the hypothesis [qci_graph ... = Some g] of the set theorems is satisfiable for
   every input of the comparator (it never answers "malformed" for want of fuel). *)
From MM Require Import Base.Num Base.GFSum Model.Choose Model.Binom Model.QuantileCI
                       Proofs.Binom Proofs.QuantileCI Proofs.QuantileCISet Proofs.QuantileCIScale
                       Proofs.QuantileCISetScale Proofs.C06Table Check.C06 Check.C11.
From Coq Require Import Lqa Lia Qabs.
Local Open Scope Q_scope.

Section GraphExists.
Variable P : Z -> Q.
Variable ieps : Q.
Variable n : Z.
Hypothesis Hn : (0 <= n)%Z.
Hypothesis HP0 : forall k, 0 <= P k.
Hypothesis Hout : forall k, (k < 0 \/ n < k)%Z -> P k == 0.
Hypothesis Hieps : ieps == 0 \/ 1 < ieps.
Notation st := QuantileCI.st.

(* a massless side is never within the window of a side with mass *)
Lemma near_zero : forall b, 0 < b -> near ieps 0 b = false /\ near ieps b 0 = false.
Proof.
  intros b Hb. assert (Hi : 0 <= ieps) by (destruct Hieps; lra).
  rewrite !near_equiv by exact Hi.
  destruct Hieps as [E|E].
  - apply Qeq_bool_iff in E. rewrite E. split; reflexivity.
  - assert (X : forall a c, Qabs (a - c) == b -> Qmaxb (Qabs a) (Qabs c) == b -> near_exact ieps a c = false).
    { intros a c H1 H2. unfold near_exact. apply Qle_bool_false. rewrite H1, H2.
      setoid_replace b with (1 * b) at 1 by ring. apply Qmult_lt_compat_r; assumption. }
    assert (Ab : Qabs b == b) by (apply Qabs_pos; lra).
    assert (M1 : Qmaxb 0 b == b).
    { unfold Qmaxb. assert (L : Qle_bool 0 b = true) by (apply Qle_bool_iff; lra). rewrite L. reflexivity. }
    assert (M2 : Qmaxb b 0 == b).
    { unfold Qmaxb. assert (L : Qle_bool b 0 = false) by (apply Qle_bool_false; exact Hb). rewrite L. reflexivity. }
    split; rewrite X; try (rewrite andb_false_r; reflexivity).
    + setoid_replace (0 - b) with (- b) by ring. rewrite Qabs_opp. exact Ab.
    + rewrite (Qmaxb_comp (Qabs 0) 0 (Qabs b) b); [exact M1 | reflexivity | exact Ab].
    + setoid_replace (b - 0) with b by ring. exact Ab.
    + rewrite (Qmaxb_comp (Qabs b) b (Qabs 0) 0); [exact M2 | exact Ab | reflexivity].
Qed.

(* states of depth k: inside [0, n+1], width k+1 *)
Definition Dk (k : Z) (s : st) : Prop := (0 <= s_l s)%Z /\ (s_r s <= n + 1)%Z /\ (s_r s - s_l s = k + 1)%Z.

Lemma near_comp0 : forall a b, a == 0 -> near ieps a b = near ieps 0 b.
Proof. intros a b H. apply near_comp; [destruct Hieps; lra | exact H | reflexivity]. Qed.
Lemma near_comp0r : forall a b, b == 0 -> near ieps a b = near ieps a 0.
Proof. intros a b H. apply near_comp; [destruct Hieps; lra | reflexivity | exact H]. Qed.

Lemma succ_Dk : forall k s ch, Dk k s -> has_mass P s = true -> In ch (step_choices P ieps s) ->
  Dk (k + 1) (apply_choice P s ch).
Proof.
  intros k s [amb goleft] (D1 & D2 & D3) Hm Hch.
  assert (Hl : 0 < lp P s -> (1 <= s_l s)%Z).
  { intros H. unfold lp in H. destruct (Z_lt_ge_dec (s_l s - 1) 0) as [L|L]; [|lia].
    rewrite (Hout (s_l s - 1)%Z) in H by lia. lra. }
  assert (Hr : 0 < rp P s -> (s_r s <= n)%Z).
  { intros H. unfold rp in H. destruct (Z_lt_ge_dec n (s_r s)) as [L|L]; [|lia].
    rewrite (Hout (s_r s)) in H by lia. lra. }
  assert (Lp : 0 <= lp P s) by apply HP0. assert (Rp : 0 <= rp P s) by apply HP0.
  assert (Both : near ieps (lp P s) (rp P s) = true -> 0 < lp P s /\ 0 < rp P s).
  { intros Hnear. unfold has_mass in Hm. apply orb_prop in Hm.
    destruct (Qlt_le_dec 0 (lp P s)) as [A|A]; destruct (Qlt_le_dec 0 (rp P s)) as [B|B]; try (split; assumption); exfalso.
    - assert (E : rp P s == 0) by lra. rewrite (near_comp0r _ _ E) in Hnear.
      destruct (near_zero _ A) as [_ N]. congruence.
    - assert (E : lp P s == 0) by lra. rewrite (near_comp0 _ _ E) in Hnear.
      destruct (near_zero _ B) as [N _]. congruence.
    - destruct Hm as [Hm|Hm]; apply Qltb_true in Hm; lra. }
  unfold step_choices in Hch. destruct (near ieps (lp P s) (rp P s)) eqn:Hnear.
  - destruct (Both eq_refl) as [A B]. specialize (Hl A). specialize (Hr B).
    unfold apply_choice, Dk. destruct goleft; simpl; lia.
  - destruct Hch as [Hch|[]]. injection Hch as _ Hg.
    unfold apply_choice, Dk. destruct goleft; simpl.
    + apply Qle_bool_iff in Hg.
      assert (A : 0 < lp P s).
      { unfold has_mass in Hm. apply orb_prop in Hm as [Hm|Hm]; apply Qltb_true in Hm; lra. }
      specialize (Hl A). lia.
    + apply Qle_bool_false in Hg. assert (B : 0 < rp P s) by lra. specialize (Hr B). lia.
Qed.

Lemma next_Dk : forall k L, Forall (Dk k) L -> Forall (Dk (k + 1)) (nextof (nodes_of P ieps L) []).
Proof.
  intros k L HL. apply Forall_forall. intros u Hu.
  destruct (nextof_in _ _ _ Hu) as [[]|(nd & Hnd & Hu')].
  unfold nodes_of in Hnd. apply in_map_iff in Hnd as (s & <- & Hs). simpl in Hu'.
  unfold succs in Hu'. destruct (has_mass P s) eqn:Hm; [|destruct Hu'].
  apply in_map_iff in Hu' as (ch & <- & Hch).
  rewrite Forall_forall in HL. apply succ_Dk; [apply HL; exact Hs | exact Hm | exact Hch].
Qed.

Lemma graph_exists : forall fuel k L, (0 <= k)%Z -> Forall (Dk k) L -> (n + 2 - k <= Z.of_nat fuel)%Z ->
  exists g, graph P ieps fuel L = Some g.
Proof.
  induction fuel as [|f IH]; intros k L Hk HL Hf.
  - destruct L as [|s L]; [exists []; reflexivity|]. exfalso.
    inversion HL as [|? ? (D1 & D2 & D3) _]; subst. lia.
  - destruct L as [|s L]; [exists []; reflexivity|].
    assert (Hkn : (k <= n)%Z). { inversion HL as [|? ? (D1 & D2 & D3) _]; subst. lia. }
    cbn [graph].
    change (map (fun s0 => (s0, if has_mass P s0 then map (apply_choice P s0) (step_choices P ieps s0) else [])) (s :: L))
      with (nodes_of P ieps (s :: L)).
    change (fold_left (fun a nd => fold_left (fun a0 t => insert_st t a0) (snd nd) a) (nodes_of P ieps (s :: L)) [])
      with (nextof (nodes_of P ieps (s :: L)) []).
    destruct (IH (k + 1)%Z (nextof (nodes_of P ieps (s :: L)) []) ltac:(lia) (next_Dk k _ HL) ltac:(lia)) as [g' Eg].
    rewrite Eg. eexists. reflexivity.
Qed.

Theorem qci_graph_exists : forall xs, (forall x, In x xs -> (0 <= x <= n)%Z) ->
  exists g, qci_graph P ieps n xs = Some g.
Proof.
  intros xs Hxs. unfold qci_graph.
  change (fold_left (fun a x => fold_left (fun a0 t => insert_st t a0) (init_choices P ieps x) a) xs [])
    with (initall P ieps xs []).
  apply (graph_exists _ 0%Z); [lia| |lia].
  apply Forall_forall. intros u Hu. destruct (initall_in _ _ _ _ _ Hu) as [[]|(x & Hx & Hu')].
  specialize (Hxs x Hx). unfold init_choices in Hu'.
  assert (E : forall b, Dk 0 (mkSt x (x + 1) (P x) b)) by (intros b; unfold Dk; simpl; lia).
  destruct (near ieps (P (x + 1)) (P x)); simpl in Hu'; intuition (subst; try apply E).
Qed.
End GraphExists.

(* for the comparator: integer masses, either window, its own start candidates *)
Theorem comparator_graph_exists : forall (n : nat) (q : Q) (exact : bool), 0 <= q <= 1 ->
  let N := Z.of_nat n in
  let Pw := scaled_pmf N (binom_weights N (Qnum q) (Zpos (Qden q) - Qnum q)) in
  exists g, qci_graph Pw (if exact then 0 else ieps_border) N (mode_candidates N q exact) = Some g.
Proof.
  intros n q exact Hq. cbv zeta.
  assert (HD : 0 < inject_Z (Zpos (Qden q) ^ Z.of_nat n)).
  { change 0 with (inject_Z 0). rewrite <- Zlt_Qlt. apply Z.pow_pos_nonneg; lia. }
  apply qci_graph_exists.
  - lia.
  - intros k. rewrite scaled_pmf_is_scaled by exact Hq.
    apply Qmult_le_0_compat; [lra | apply binom_pmf_nonneg; exact Hq].
  - intros k Hk. rewrite scaled_pmf_is_scaled by exact Hq.
    rewrite (binom_out n q k Hk). ring.
  - destruct exact; [left; reflexivity | right; unfold ieps_border; reflexivity].
  - intros x Hx. unfold mode_candidates in Hx. pose proof (mode_x_range n q Hq) as Hr.
    destruct (exact || Qeq_bool q 0); [destruct Hx as [<-|[]]; exact Hr|].
    match type of Hx with In _ (if ?b then _ else _) => destruct b end; [|destruct Hx as [<-|[]]; exact Hr].
    apply filter_In in Hx as [_ Hx]. apply andb_prop in Hx as [H1 H2].
    apply Z.leb_le in H1. apply Z.leb_le in H2. lia.
Qed.

(* Proofs/QuantileCILaws.v — the clauses of C11 at the level of QuantileCI itself ([quantile_ci], all c
   including c >= 1), the dispatch of the normal branch, SampleCI on a sample flagged Sorted, and the
   refutation of the order claim for c <= 0 in the normal branch. *)
From MM Require Import Base.Num Base.GFSum Base.GFComb Model.Choose Model.Binom Model.QuantileCI
                       Proofs.Choose Proofs.Binom Proofs.QuantileCI.
From Coq Require Import Lqa Lia Qround Sorted Permutation.
Local Open Scope Q_scope.

(* ---------- dispatch ---------- *)
Theorem quantile_ci_normal : forall cdfband n q c l1 r1, c < 1 -> (30 < n)%Z ->
  quantile_ci cdfband n q c l1 r1 = Some (qci_normal cdfband n c l1 r1).
Proof.
  intros. unfold quantile_ci. apply Qle_bool_false in H. rewrite H.
  unfold qci_threshold. destruct (Z.leb_spec n 30); [lia|reflexivity].
Qed.

(* ---------- the band statement in one piece (any Phi) ---------- *)
Theorem qci_normal_band_full : forall (Phi : Q -> Q) n c l1 r1,
  let l0 := (Qfloor (l1 - (1 # 2)) + 1)%Z in
  let r := (Qceiling (r1 - (1 # 2)) + 1)%Z in
  let l := if (r <=? l0)%Z then (r - 1)%Z else l0 in
  (inject_Z l0 - (1 # 2) <= l1 /\ l1 < inject_Z l0 + (1 # 2) /\ r1 <= inject_Z r - (1 # 2) /\ inject_Z r - (3 # 2) < r1) /\
  ((l <= l0)%Z /\ (l < r)%Z /\ (l1 < r1 -> l = l0) /\ (l1 <= r1 -> (l0 <= r)%Z)) /\
  exists k, (0 <= k)%Z /\
    (forall j, (0 <= j < k)%Z -> band Phi (l - j) (r + j) < c /\ (0 < l - j \/ r + j < n + 1)%Z) /\
    let lw := (l - k)%Z in
    let rw := (r + k)%Z in
    (c <= band Phi lw rw \/ (lw <= 0 /\ n + 1 <= rw)%Z) /\
    let biased := (lw <? rw - 1)%Z && Qle_bool c (band Phi lw (rw - 1)) && Qltb (band Phi lw (rw - 1)) (band Phi lw rw) in
    let r' := if biased then (rw - 1)%Z else rw in
    let full := (lw <=? 0)%Z && (n + 1 <=? r')%Z in
    let res := qci_normal (band Phi) n c l1 r1 in
    r_lo res = Z.max lw 0 /\ r_hi res = Z.min r' (n + 1) /\ r_amb res = (biased && negb full) /\
    r_conf res = (if full then 1 else band Phi lw r').
Proof. intros. split; [apply band_rounding | split; [apply band_left | apply qci_normal_band]]. Qed.

(* ---------- the lower mode at the ends of the q range ---------- *)
Lemma mode_x_q0 : forall n q, q == 0 -> mode_x n q = 0%Z.
Proof. intros n q H. unfold mode_x. apply Qeq_bool_iff in H. rewrite H. reflexivity. Qed.

Lemma mode_x_q1 : forall n q, q == 1 -> (0 <= n)%Z -> mode_x n q = n.
Proof.
  intros n q H Hn. unfold mode_x.
  destruct (Qeq_bool q 0) eqn:E; [apply Qeq_bool_iff in E; rewrite H in E; discriminate|].
  assert (EC : Qceiling (inject_Z (n + 1) * q) = (n + 1)%Z).
  { rewrite H, Qmult_1_r. unfold Qceiling. rewrite <- inject_Z_opp, Qfloor_Z. lia. }
  rewrite EC. lia.
Qed.

(* an end bucket of the whole range carries mass: removing it leaves less than 1 *)
Lemma binom_end_mass : forall (n : nat) q, 0 <= q <= 1 ->
  0 < binom_pmf_i (Z.of_nat n) q 0 \/ 0 < binom_pmf_i (Z.of_nat n) q (Z.of_nat n).
Proof.
  intros n q Hq. destruct (binom_full_support n q Hq) as [F|F].
  - left. apply F. lia.
  - destruct Hq as [Hq0 Hq1].
    destruct (Qeq_bool q 0) eqn:E0.
    + apply Qeq_bool_iff in E0. rewrite (mode_x_q0 _ _ E0) in F. left. lra.
    + destruct (Qeq_bool q 1) eqn:E1.
      * apply Qeq_bool_iff in E1. rewrite (mode_x_q1 _ _ E1) in F by lia. right. lra.
      * (* 0 < q < 1: full support *)
        assert (Hq : 0 < q).
        { destruct (Qlt_le_dec 0 q) as [|L]; [assumption|]. exfalso. assert (H : q == 0) by lra.
          apply Qeq_bool_iff in H. congruence. }
        assert (Hq' : q < 1).
        { destruct (Qlt_le_dec q 1) as [|L]; [assumption|]. exfalso. assert (H : q == 1) by lra.
          apply Qeq_bool_iff in H. congruence. }
        left.
        destruct (Qlt_le_dec 0 (binom_pmf_i (Z.of_nat n) q 0)) as [|L]; [assumption|]. exfalso.
        apply (proj2 (binom_bounds_support n q 0%Z Hq Hq') ltac:(lia)).
        pose proof (binom_pmf_nonneg n q 0%Z (conj Hq0 Hq1)). lra.
Qed.

(* ---------- QuantileCI for n <= 30, every c (c >= 1 included) ---------- *)
Theorem quantile_ci_small_all : forall (n : nat) q, 0 <= q <= 1 -> (Z.of_nat n <= 30)%Z ->
  forall cdfband c l1 r1,
  let N := Z.of_nat n in
  let P := binom_pmf_i N q in
  let x := mode_x N q in
  exists res, quantile_ci cdfband N q c l1 r1 = Some res /\
    (0 <= r_lo res)%Z /\ (r_lo res < r_hi res)%Z /\ (r_hi res <= N + 1)%Z /\
    r_conf res == Qsum_range P (r_lo res) (r_hi res - 1)%Z /\
    (r_lo res <= x < r_hi res)%Z /\
    (r_amb res = true -> Qsum_range P (r_lo res + 1)%Z (r_hi res) == r_conf res) /\
    ((2 <= r_hi res - r_lo res)%Z -> r_conf res - P (r_lo res) < c \/ r_conf res - P (r_hi res - 1)%Z < c) /\
    (c <= 1 -> c <= r_conf res) /\
    (1 <= c -> res = mkR 0 (N + 1) 1 false).
Proof.
  intros n q Hq Hn cdfband c l1 r1. cbv zeta.
  destruct (Qlt_le_dec c 1) as [Hc|Hc].
  - rewrite (quantile_ci_small cdfband n q c l1 r1 Hc Hn).
    destruct (qci_binom_spec n q Hq c) as (res & E & A1 & A2 & A3 & A4 & A5 & A6 & A7 & A8).
    exists res. repeat split; try assumption; try lia. intros Hc'. lra.
  - rewrite (qci_full_spec cdfband (Z.of_nat n) q c l1 r1 Hc).
    pose proof (mode_x_range n q Hq) as Hx.
    exists (mkR 0 (Z.of_nat n + 1) 1 false). cbn [r_lo r_hi r_conf r_amb].
    assert (Etot : Qsum_range (binom_pmf_i (Z.of_nat n) q) 0 (Z.of_nat n + 1 - 1) == 1).
    { replace (Z.of_nat n + 1 - 1)%Z with (Z.of_nat n) by lia. apply binom_pmf_sums_to_one. }
    split; [reflexivity|]. split; [lia|]. split; [lia|]. split; [lia|].
    split; [rewrite Etot; reflexivity|]. split; [lia|].
    split; [intros H; discriminate H|].
    split; [|split; [intros Hc'; lra | reflexivity]].
    intros _. replace (Z.of_nat n + 1 - 1)%Z with (Z.of_nat n) by lia.
    destruct (binom_end_mass n q Hq) as [E|E]; [left | right]; lra.
Qed.

(* nested for every pair c <= c', c' >= 1 included *)
Theorem quantile_ci_small_nested_all : forall (n : nat) q, 0 <= q <= 1 -> (Z.of_nat n <= 30)%Z ->
  forall cdfband c c' l1 r1 l1' r1' r r', c <= c' ->
  quantile_ci cdfband (Z.of_nat n) q c l1 r1 = Some r ->
  quantile_ci cdfband (Z.of_nat n) q c' l1' r1' = Some r' ->
  (r_lo r' <= r_lo r)%Z /\ (r_hi r <= r_hi r')%Z.
Proof.
  intros n q Hq Hn cdfband c c' l1 r1 l1' r1' r r' Hcc H H'.
  destruct (quantile_ci_small_all n q Hq Hn cdfband c l1 r1) as (res & E & A1 & A2 & A3 & _).
  rewrite E in H. injection H as <-.
  destruct (Qlt_le_dec c' 1) as [Hc'|Hc'].
  - assert (Hc : c < 1) by lra.
    rewrite (quantile_ci_small cdfband n q c l1 r1 Hc Hn) in E.
    rewrite (quantile_ci_small cdfband n q c' l1' r1' Hc' Hn) in H'.
    exact (qci_binom_nested n q c c' res r' Hcc E H').
  - rewrite (qci_full_spec cdfband _ q c' l1' r1' Hc') in H'. injection H' as <-.
    cbn [r_lo r_hi]. lia.
Qed.

(* ---------- SampleCI on a sample flagged Sorted: the slice is indexed as it is ---------- *)
Theorem sample_ci_sorted_flag : forall N lo hi xs,
  Z.of_nat (length xs) = N -> (0 <= lo <= N)%Z -> (1 <= hi <= N + 1)%Z ->
  exists a b, sample_ci N lo hi false true xs = SciOk a b xs /\
    (lo = 0%Z -> a = XInf true) /\
    ((1 <= lo)%Z -> exists v, nth_error xs (Z.to_nat (lo - 1)) = Some v /\ a = XFin v) /\
    (hi = (N + 1)%Z -> b = XInf false) /\
    ((hi <= N)%Z -> exists v, nth_error xs (Z.to_nat (hi - 1)) = Some v /\ b = XFin v).
Proof.
  intros N lo hi xs HN Hlo Hhi. unfold sample_ci. simpl orb.
  rewrite HN, Z.eqb_refl. simpl negb. cbv iota.
  assert (NTH : forall i, (0 <= i < N)%Z -> exists v, nth_error xs (Z.to_nat i) = Some v).
  { intros i Hi. destruct (nth_error xs (Z.to_nat i)) as [v|] eqn:E; [exists v; reflexivity|].
    apply nth_error_None in E. lia. }
  destruct (Z.ltb_spec lo 1) as [L1|L1].
  - destruct (Z.leb_spec N (hi - 1)) as [L2|L2].
    + exists (XInf true), (XInf false). repeat split; try reflexivity; intros; lia.
    + destruct (Z.ltb_spec hi 1); [lia|]. destruct (NTH (hi - 1)%Z ltac:(lia)) as [v Ev]. rewrite Ev. simpl.
      exists (XInf true), (XFin v). repeat split; try reflexivity; try (intros; lia).
      intros _. exists v. split; [first [exact Ev | reflexivity]|reflexivity].
  - destruct (NTH (lo - 1)%Z ltac:(lia)) as [u Eu]. rewrite Eu. simpl.
    destruct (Z.leb_spec N (hi - 1)) as [L2|L2].
    + exists (XFin u), (XInf false). repeat split; try reflexivity; try (intros; lia).
      intros _. exists u. split; [first [exact Eu | reflexivity]|reflexivity].
    + destruct (Z.ltb_spec hi 1); [lia|]. destruct (NTH (hi - 1)%Z ltac:(lia)) as [v Ev]. rewrite Ev. simpl.
      exists (XFin u), (XFin v). repeat split; try reflexivity; try (intros; lia).
      * intros _. exists u. split; [first [exact Eu | reflexivity]|reflexivity].
      * intros _. exists v. split; [first [exact Ev | reflexivity]|reflexivity].
Qed.

(* ---------- c <= 0 in the normal branch ----------
   Before "fix: QuantileCI returns an empty or inverted interval for confidence <= 0 when n > 30"
   the code had no cap on alpha, no guard for an empty rounded band and no [rBiased > l] in the trim:
   [qci_normal_pinned] is that older band logic.  With c = 0 (l1 = r1 = mu) its left-biased trim
   accepts the EMPTY band (mass 0 >= c) and LoOrder = HiOrder — QuantileCI(31, 0.5, 0) was
   {LoOrder:16, HiOrder:16, Confidence:0}.  The repaired model has 0 <= Lo < Hi <= n+1 for every c
   (qci_normal_orders). *)
Definition qci_normal_pinned (cdfband : Z -> Z -> Q) (n : Z) (c l1 r1 : Q) : qres :=
  let l := (Qfloor (l1 - (1 # 2)) + 1)%Z in
  let r := (Qceiling (r1 - (1 # 2)) + 1)%Z in
  let conf := cdfband l r in
  let ab := cdfband l (r - 1)%Z in
  let '(conf1, amb1, r1') := if Qle_bool c ab && Qltb ab conf then (ab, true, (r - 1)%Z) else (conf, false, r) in
  let '(conf2, amb2) := if (l <=? 0)%Z && (n + 1 <=? r1')%Z then (1, false) else (conf1, amb1) in
  clampR n l r1' conf2 amb2.

Definition ramp (t : Q) : Q := if Qle_bool t 40 then 0 else if Qle_bool 60 t then 1 else (t - 40) / 20.

Lemma ramp_mono : forall a b, a <= b -> ramp a <= ramp b.
Proof.
  intros a b H. unfold ramp.
  destruct (Qle_bool a 40) eqn:A1; destruct (Qle_bool b 40) eqn:B1;
  destruct (Qle_bool 60 a) eqn:A2; destruct (Qle_bool 60 b) eqn:B2;
  repeat match goal with
         | H : Qle_bool _ _ = true |- _ => apply Qle_bool_iff in H
         | H : Qle_bool _ _ = false |- _ => apply Qle_bool_false in H
         end; unfold Qdiv; change (/ 20) with (1 # 20); lra.
Qed.

Theorem qci_normal_pinned_orders_refuted :
  exists (Phi : Q -> Q) n c l1 r1 mu,
    (forall a b, a <= b -> Phi a <= Phi b) /\ c <= 0 /\ l1 <= r1 /\ l1 + r1 == 2 * mu /\
    0 <= mu <= inject_Z n /\ (0 <= n)%Z /\ Phi l1 == (1 - c) / 2 /\
    (let res := qci_normal_pinned (band Phi) n c l1 r1 in ~ (r_lo res < r_hi res)%Z) /\
    (let res := qci_normal (band Phi) n c l1 r1 in (r_lo res < r_hi res)%Z).
Proof.
  exists ramp, 100%Z, 0, 50, 50, 50. split; [exact ramp_mono|].
  vm_compute. repeat split; discriminate.
Qed.

(* Proofs/QuantileCIMembers.v — (group hJ) EVERY member of the admissible-outcome set that the comparator of
   C11 computes satisfies the clauses of the property (the converse direction of Proofs/QuantileCISet.v, which
   shows that the set contains the deterministic result):
     0 <= lo < hi <= n+1, Confidence == mass of the buckets lo..hi-1, the interval contains one of the start
     candidates, the accumulation was allowed to stop there (no mass next to the interval, or level reached,
     or level within the window), it was allowed to take its last step (the interval without ONE of its end
     buckets is below the level, or within the window of it), and the Ambiguous flag is set only when
     P(lo) and P(hi) are equal or within the window — i.e. the interval shifted up by one has the same
     Confidence up to the window.
   With the window switched off (ieps = 0) "within the window" is impossible and the clauses are the exact
   ones of the property.  Everything over Z/Q/lists, closed under the global context. *)
From MM Require Import Base.Num Base.GFSum Model.QuantileCI Proofs.QuantileCI Proofs.QuantileCISet
                       Proofs.QuantileCISetScale Proofs.QuantileCIGraph.
From Coq Require Import Lqa Lia Qabs.
Local Open Scope Q_scope.

Section Members.
Variable P : Z -> Q.
Variable ieps : Q.
Variable n : Z.
Hypothesis Hnn : (0 <= n)%Z.
Hypothesis HP0 : forall k, 0 <= P k.
Hypothesis Hout : forall k, (k < 0 \/ n < k)%Z -> P k == 0.
Hypothesis Hieps : ieps == 0 \/ 1 < ieps.
Variables sc c : Q.
Variable xs : list Z.
Hypothesis Hxs : forall x, In x xs -> (0 <= x <= n)%Z.
Notation st := QuantileCI.st.

Let Hi : 0 <= ieps.
Proof. destruct Hieps; lra. Qed.

(* "a and b are within the window of each other" (never when the window is off) *)
Definition nearp (a b : Q) : Prop := near ieps a b = true.
(* the guard may answer "go on" at accumulated value a *)
Definition go_ok (a : Q) : Prop := sc * a < c \/ nearp (sc * a) c.
(* the guard may answer "stop" at state s *)
Definition stop_ok (s : st) : Prop := has_mass P s = false \/ c <= sc * s_acc s \/ nearp (sc * s_acc s) c.
Definition amb_ok (s : st) : Prop :=
  s_amb s = true -> P (s_l s) == P (s_r s) \/ nearp (P (s_l s)) (P (s_r s)) \/ nearp (P (s_r s)) (P (s_l s)).
(* static facts: they hold for every state of the transition graph, whatever the level *)
(* on integer masses the accumulated value is an integer (denominator 1) *)
Definition Dint (s : st) : Prop := (forall k, Qden (P k) = 1%positive) -> Qden (s_acc s) = 1%positive.
Definition Sfact (s : st) : Prop :=
  I2 P s /\ (0 <= s_l s)%Z /\ (s_r s <= n + 1)%Z /\ (exists x, In x xs /\ (s_l s <= x < s_r s)%Z) /\ amb_ok s /\ Dint s.
(* dynamic fact, on the key (l, r): the last step was allowed *)
Definition EK (l r : Z) : Prop :=
  (2 <= r - l)%Z ->
  exists a, (a == Qsum_range P l (r - 1) - P l \/ a == Qsum_range P l (r - 1) - P (r - 1)%Z) /\ go_ok a.
Definition Out (u : st) : Prop := Sfact u /\ EK (s_l u) (s_r u) /\ stop_ok u.

Lemma init_Sfact : forall x u, In x xs -> In u (init_choices P ieps x) -> Sfact u /\ (s_r u - s_l u = 1)%Z.
Proof.
  intros x u Hx Hu. unfold init_choices in Hu.
  assert (E : forall b, (b = true -> P x == P (x + 1) \/ nearp (P x) (P (x + 1)) \/ nearp (P (x + 1)) (P x)) ->
              Sfact (mkSt x (x + 1) (P x) b) /\ (s_r (mkSt x (x + 1) (P x) b) - s_l (mkSt x (x + 1) (P x) b) = 1)%Z).
  { intros b Hb. specialize (Hxs x Hx). unfold Sfact, I2, amb_ok; simpl. repeat split; try lia.
    - replace (x + 1 - 1)%Z with x by lia. rewrite Qsum_range_single. reflexivity.
    - exists x. split; [exact Hx | lia].
    - exact Hb.
    - intros HD. apply HD. }
  destruct (near ieps (P (x + 1)) (P x)) eqn:N; simpl in Hu.
  - destruct Hu as [<-|[<-|[]]]; apply E; intros _; right; right; exact N.
  - destruct Hu as [<-|[]]. unfold st_init. apply E. intros Hb. left.
    apply Qeq_bool_iff in Hb. symmetry. exact Hb.
Qed.

Lemma succ_Sfact : forall s ch, Sfact s -> has_mass P s = true -> In ch (step_choices P ieps s) ->
  Sfact (apply_choice P s ch).
Proof.
  intros s ch (HI & H0 & H1 & (x & Hx & Hxi) & Ha & Hd) Hm Hch.
  assert (D : Dk n (s_r s - s_l s - 1) s) by (unfold Dk; destruct HI; lia).
  pose proof (succ_Dk P ieps n HP0 Hout Hieps _ s ch D Hm Hch) as (D0 & D1 & _).
  split; [apply I2_apply; exact HI|]. split; [exact D0|]. split; [exact D1|]. split; [|split].
  - exists x. split; [exact Hx|]. destruct ch as [amb goleft]. unfold apply_choice. destruct goleft; simpl; lia.
  - destruct ch as [amb goleft]. unfold amb_ok, apply_choice.
    unfold step_choices in Hch. destruct (near ieps (lp P s) (rp P s)) eqn:N.
    + destruct Hch as [E|[E|[E|[]]]]; injection E as <- <-; simpl; intros Hb; try discriminate.
      right; left. unfold lp, rp in N. exact N.
    + destruct Hch as [E|[]]. injection E as <- <-.
      destruct (Qle_bool (rp P s) (lp P s)) eqn:L; simpl; intros Hb.
      * left. apply Qeq_bool_iff in Hb. unfold lp, rp in Hb. exact Hb.
      * exfalso. apply Qeq_bool_iff in Hb. apply Qle_bool_false in L. lra.
  - destruct ch as [amb goleft]. unfold Dint, apply_choice, lp, rp. intros HD.
    destruct goleft; simpl; rewrite (Hd HD), HD; reflexivity.
Qed.

Lemma next_Sfact : forall L, Forall Sfact L -> Forall Sfact (nextof (nodes_of P ieps L) []).
Proof.
  intros L HL. apply Forall_forall. intros u Hu.
  destruct (nextof_in _ _ _ Hu) as [[]|(nd & Hnd & Hu')].
  unfold nodes_of in Hnd. apply in_map_iff in Hnd as (s & <- & Hs). simpl in Hu'.
  unfold succs in Hu'. destruct (has_mass P s) eqn:Hm; [|destruct Hu'].
  apply in_map_iff in Hu' as (ch & <- & Hch).
  rewrite Forall_forall in HL. apply succ_Sfact; [apply HL; exact Hs | exact Hm | exact Hch].
Qed.

(* what the fold over one layer adds, with its reasons *)
Lemma wf_in_why : forall reach nodes o nx u,
  (In u (fst (fold_left (WF P ieps sc c reach) nodes (o, nx))) ->
     In u o \/ exists sx, In (u, sx) nodes /\ existsb (same_key u) reach = true /\ fst (guard_choices P ieps sc c u) = true) /\
  (In u (snd (fold_left (WF P ieps sc c reach) nodes (o, nx))) ->
     In u nx \/ exists s sx, In (s, sx) nodes /\ existsb (same_key s) reach = true /\
                             snd (guard_choices P ieps sc c s) = true /\ In u sx).
Proof.
  intros reach. induction nodes as [|[s sx] nodes IH]; intros o nx u; [simpl; tauto|].
  cbn [fold_left]. unfold WF at 2 4.
  destruct (existsb (same_key s) reach) eqn:R.
  - destruct (guard_choices P ieps sc c s) as [stop go] eqn:G.
    destruct (IH (if stop then insert_st s o else o) (if go then insall sx nx else nx) u) as [I1 I2'].
    split; intros H.
    + destruct (I1 H) as [H1|(sx' & Hn & E)]; [|right; exists sx'; split; [right; exact Hn | exact E]].
      destruct stop; [|left; exact H1].
      destruct (ins_in _ _ _ H1) as [->|H2]; [|left; exact H2].
      right. exists sx. split; [left; reflexivity|]. split; [exact R|]. rewrite G. reflexivity.
    + destruct (I2' H) as [H1|(s' & sx' & Hn & E)]; [|right; exists s', sx'; split; [right; exact Hn | exact E]].
      destruct go; [|left; exact H1].
      destruct (insall_in _ _ _ H1) as [H2|H2]; [|left; exact H2].
      right. exists s, sx. split; [left; reflexivity|]. split; [exact R|]. split; [rewrite G; reflexivity | exact H2].
  - destruct (IH o nx u) as [I1 I2']. split; intros H.
    + destruct (I1 H) as [H1|(sx' & Hn & E)]; [left; exact H1 | right; exists sx'; split; [right; exact Hn | exact E]].
    + destruct (I2' H) as [H1|(s' & sx' & Hn & E)]; [left; exact H1 | right; exists s', sx'; split; [right; exact Hn | exact E]].
Qed.

Lemma key_EK : forall reach u, (forall t, In t reach -> EK (s_l t) (s_r t)) -> existsb (same_key u) reach = true ->
  EK (s_l u) (s_r u).
Proof.
  intros reach u HR E. apply existsb_exists in E as (t & Ht & K). apply same_key_spec in K as (A & B & _).
  rewrite A, B. apply HR. exact Ht.
Qed.

Lemma guard_stop : forall s, fst (guard_choices P ieps sc c s) = true -> stop_ok s.
Proof.
  intros s. unfold guard_choices, stop_ok, nearp. cbn [fst]. intros H.
  destruct (has_mass P s); [|left; reflexivity]. cbn [negb orb] in H.
  destruct (Qltb (sc * s_acc s) c) eqn:L; cbn [negb orb] in H.
  - right; right. exact H.
  - right; left. apply Qltb_false in L. exact L.
Qed.
Lemma guard_go : forall s, snd (guard_choices P ieps sc c s) = true -> has_mass P s = true /\ go_ok (s_acc s).
Proof.
  intros s. unfold guard_choices, go_ok, nearp. cbn [snd]. intros H. apply andb_prop in H as [H1 H2].
  split; [exact H1|]. apply orb_prop in H2 as [H2|H2]; [left; apply Qltb_true; exact H2 | right; exact H2].
Qed.

Lemma succ_EK : forall s u, I2 P s -> go_ok (s_acc s) -> In u (succs P ieps s) -> EK (s_l u) (s_r u).
Proof.
  intros s u HI Hgo Hu _. unfold succs in Hu. destruct (has_mass P s); [|destruct Hu].
  apply in_map_iff in Hu as (ch & <- & _).
  pose proof (I2_apply P s ch HI) as [_ A]. destruct HI as [W A0].
  exists (s_acc s). split; [|exact Hgo].
  destruct ch as [amb goleft]. unfold apply_choice in *. destruct goleft; simpl in *.
  - left. rewrite <- A. unfold lp. ring.
  - right. rewrite <- A. unfold rp. replace (s_r s + 1 - 1)%Z with (s_r s) by lia. ring.
Qed.

Lemma walk_members : forall g gf L reach outs, graph P ieps gf L = Some g -> Forall Sfact L ->
  (forall t, In t reach -> EK (s_l t) (s_r t)) -> (forall u, In u outs -> Out u) ->
  forall u, In u (walk P ieps sc c g reach outs) -> Out u.
Proof.
  induction g as [|nodes g IH]; intros gf L reach outs Hg HL HR HO u Hu; [apply HO; exact Hu|].
  destruct L as [|a L'].
  { destruct gf; simpl in Hg; discriminate. }
  destruct (graph_cons P ieps gf a L' _ Hg) as (f0 & g' & -> & E & Hg'). injection E as -> ->.
  change ((a, succs P ieps a) :: nodes_of P ieps L') with (nodes_of P ieps (a :: L')) in *.
  rewrite walk_cons in Hu.
  set (R := fold_left (WF P ieps sc c reach) (nodes_of P ieps (a :: L')) (outs, [])) in *.
  assert (HO' : forall v, In v (fst R) -> Out v).
  { intros v Hv. destruct (proj1 (wf_in_why reach _ outs [] v) Hv) as [H|(sx & Hn & Rk & G)]; [apply HO; exact H|].
    unfold nodes_of in Hn. apply in_map_iff in Hn as (z & E & Hz). injection E as -> _.
    rewrite Forall_forall in HL. split; [apply HL; exact Hz|]. split; [eapply key_EK; eassumption | apply guard_stop; exact G]. }
  assert (HR' : forall t, In t (snd R) -> EK (s_l t) (s_r t)).
  { intros t Ht. destruct (proj2 (wf_in_why reach _ outs [] t) Ht) as [[]|(s & sx & Hn & Rk & G & Hs)].
    unfold nodes_of in Hn. apply in_map_iff in Hn as (z & E & Hz). injection E as -> <-.
    rewrite Forall_forall in HL. destruct (HL _ Hz) as (HI & _). destruct (guard_go _ G) as [_ Hgo].
    eapply succ_EK; eassumption. }
  destruct (snd R) as [|b nx] eqn:ER; [apply HO'; exact Hu|].
  rewrite <- ER in Hu.
  apply (IH f0 _ (snd R) (fst R) Hg' (next_Sfact _ HL)); [| exact HO' | exact Hu].
  rewrite ER. exact HR'.
Qed.

(* every member of the admissible set *)
Theorem set_members : forall g r, qci_graph P ieps n xs = Some g -> In r (qci_small_set P ieps n g sc c) ->
  exists u, Out u /\ r = mkR (s_l u) (s_r u) (s_acc u) (s_amb u).
Proof.
  intros g r Hg Hr. unfold qci_graph in Hg.
  change (fold_left (fun a x0 => fold_left (fun a0 t => insert_st t a0) (init_choices P ieps x0) a) xs [])
    with (initall P ieps xs []) in Hg.
  set (L0 := initall P ieps xs []) in *.
  assert (H0 : forall u, In u L0 -> Sfact u /\ (s_r u - s_l u = 1)%Z).
  { intros u Hu. destruct (initall_in _ _ _ _ _ Hu) as [[]|(y & Hy & H)]. eapply init_Sfact; eassumption. }
  unfold qci_small_set in Hr. destruct g as [|nodes g']; [destruct Hr|].
  apply in_map_iff in Hr as (u & <- & Hu).
  destruct L0 as [|a L'] eqn:EL.
  { destruct (Z.to_nat (n + 3)); simpl in Hg; discriminate. }
  destruct (graph_cons P ieps _ a L' _ Hg) as (f0 & g'' & _ & E & _). injection E as -> ->.
  change ((a, succs P ieps a) :: nodes_of P ieps L') with (nodes_of P ieps (a :: L')) in *.
  replace (map fst (nodes_of P ieps (a :: L'))) with (a :: L') in Hu
    by (unfold nodes_of; rewrite map_map; simpl; f_equal; symmetry; apply map_id).
  assert (HOut : Out u).
  { apply (walk_members _ _ (a :: L') (a :: L') [] Hg).
    - apply Forall_forall. intros v Hv. apply H0. exact Hv.
    - intros t Ht Hw. destruct (H0 t Ht) as [_ W]. lia.
    - intros v [].
    - exact Hu. }
  exists u. split; [exact HOut|].
  destruct HOut as ((_ & B0 & B1 & _) & _). unfold clampR.
  assert (X : (s_l u <? 0)%Z = false) by (apply Z.ltb_ge; lia).
  assert (Y : (n + 1 <? s_r u)%Z = false) by (apply Z.ltb_ge; lia).
  rewrite X, Y. reflexivity.
Qed.

(* the same, spelled out on the outcome *)
Theorem set_members_spec : forall g r, qci_graph P ieps n xs = Some g -> In r (qci_small_set P ieps n g sc c) ->
  (0 <= r_lo r)%Z /\ (r_lo r < r_hi r)%Z /\ (r_hi r <= n + 1)%Z /\
  r_conf r == Qsum_range P (r_lo r) (r_hi r - 1) /\
  (exists x, In x xs /\ (r_lo r <= x < r_hi r)%Z) /\
  (* it may stop here *)
  ((P (r_lo r - 1)%Z == 0 /\ P (r_hi r) == 0) \/ c <= sc * r_conf r \/ nearp (sc * r_conf r) c) /\
  (* at least one end bucket was needed *)
  ((2 <= r_hi r - r_lo r)%Z ->
     exists a, (a == r_conf r - P (r_lo r) \/ a == r_conf r - P (r_hi r - 1)%Z) /\ (sc * a < c \/ nearp (sc * a) c)) /\
  (* Ambiguous: the shifted interval has the same mass up to the window *)
  (r_amb r = true ->
     Qsum_range P (r_lo r + 1) (r_hi r) - r_conf r == P (r_hi r) - P (r_lo r) /\
     (P (r_lo r) == P (r_hi r) \/ nearp (P (r_lo r)) (P (r_hi r)) \/ nearp (P (r_hi r)) (P (r_lo r)))) /\
  (* integer masses: the accumulated Confidence is an integer *)
  ((forall k, Qden (P k) = 1%positive) -> Qden (r_conf r) = 1%positive).
Proof.
  intros g r Hg Hr. destruct (set_members g r Hg Hr) as (u & (((W & A) & B0 & B1 & X & Ha & Hd) & He & Hs) & ->). simpl.
  split; [exact B0|]. split; [exact W|]. split; [exact B1|]. split; [exact A|]. split; [exact X|]. split; [|split; [|split; [|exact Hd]]].
  - destruct Hs as [Hs|[Hs|Hs]]; [left | right; left; exact Hs | right; right; exact Hs].
    unfold has_mass in Hs. apply Bool.orb_false_iff in Hs as [H1 H2].
    apply Qltb_false in H1. apply Qltb_false in H2. unfold lp, rp in *.
    pose proof (HP0 (s_l u - 1)%Z). pose proof (HP0 (s_r u)). split; lra.
  - intros Hw. destruct (He Hw) as (a & Ea & Hgo). exists a. split; [|exact Hgo].
    destruct Ea as [Ea|Ea]; [left | right]; rewrite Ea, A; reflexivity.
  - intros Hb. split; [|apply Ha; exact Hb].
    pose proof (Qsum_range_last P (s_l u + 1) (s_r u - 1) ltac:(lia)) as E1.
    replace (s_r u - 1 + 1)%Z with (s_r u) in E1 by lia.
    pose proof (Qsum_range_first P (s_l u + 1) (s_r u - 1) ltac:(lia)) as E2.
    replace (s_l u + 1 - 1)%Z with (s_l u) in E2 by lia.
    rewrite A, E1, E2. ring.
Qed.
End Members.

(* reading the window: 1/ieps relative closeness (never when the window is off) *)
Lemma nearp_reads : forall ieps a b, 0 <= ieps -> near ieps a b = true ->
  ~ ieps == 0 /\ ieps * Qabs (a - b) <= Qmaxb (Qabs a) (Qabs b).
Proof.
  intros ieps a b Hi H. rewrite near_equiv in H by exact Hi. apply andb_prop in H as [H1 H2].
  split.
  - intros E. apply Qeq_bool_iff in E. rewrite E in H1. discriminate.
  - unfold near_exact in H2. apply Qle_bool_iff in H2. exact H2.
Qed.
Lemma nearp_off : forall a b, near 0 a b = false.
Proof. intros. unfold near. reflexivity. Qed.

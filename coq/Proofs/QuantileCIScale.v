(* Proofs/QuantileCIScale.v — the greedy accumulation of QuantileCI is invariant under a common
   positive factor: running it on masses P' k == D * P k with the confidence level D * c gives the
   same orders and the same Ambiguous flag, and D times the Confidence.  The comparator of C11 runs
   on the integer masses w_k = d^n * PMF(k); this file ties that run to the rational PMF the
   theorems of Proofs/QuantileCI.v are about. *)
From MM Require Import Base.Num Base.GFSum Model.Choose Model.Binom Model.QuantileCI
                       Proofs.Binom Proofs.QuantileCI Proofs.QuantileCISet Proofs.C06Table Check.C06 Check.C11.
From Coq Require Import Lqa Lia.
Local Open Scope Q_scope.

Lemma Qle_bool_scale : forall D, 0 < D -> forall a b, Qle_bool (D * a) (D * b) = Qle_bool a b.
Proof.
  intros D HD a b. destruct (Qle_bool a b) eqn:E.
  - apply Qle_bool_iff in E. apply Qle_bool_iff. apply Qmult_le_l; assumption.
  - apply Qle_bool_false in E. apply Qle_bool_false. apply Qmult_lt_l; assumption.
Qed.

Lemma Qeq_bool_scale : forall D, 0 < D -> forall a b, Qeq_bool (D * a) (D * b) = Qeq_bool a b.
Proof.
  intros D HD a b. destruct (Qeq_bool a b) eqn:E.
  - apply Qeq_bool_iff in E. apply Qeq_bool_iff. rewrite E. reflexivity.
  - destruct (Qeq_bool (D * a) (D * b)) eqn:E'; [|reflexivity]. exfalso.
    apply Qeq_bool_iff in E'. apply Qmult_inj_l in E'; [|lra].
    apply Qeq_bool_iff in E'. congruence.
Qed.

Lemma Qeq_bool_comp2 : forall a a' b b', a == a' -> b == b' -> Qeq_bool a b = Qeq_bool a' b'.
Proof.
  intros a a' b b' Ha Hb. destruct (Qeq_bool a' b') eqn:E.
  - apply Qeq_bool_iff in E. apply Qeq_bool_iff. rewrite Ha, Hb. exact E.
  - destruct (Qeq_bool a b) eqn:E'; [|reflexivity]. exfalso.
    apply Qeq_bool_iff in E'. rewrite Ha, Hb in E'. apply Qeq_bool_iff in E'. congruence.
Qed.

Section Scale.
Variables P P' : Z -> Q.
Variable D : Q.
Hypothesis HD : 0 < D.
Hypothesis HP : forall k, P' k == D * P k.
Notation st := QuantileCI.st.

(* the same interval and flag; the accumulated value scaled by D *)
Definition sceqv (s s' : st) : Prop :=
  s_l s' = s_l s /\ s_r s' = s_r s /\ s_amb s' = s_amb s /\ s_acc s' == D * s_acc s.

Lemma sc_ltb0 : forall k, Qltb 0 (P' k) = Qltb 0 (P k).
Proof.
  intros k. rewrite <- (Qltb_scale D HD 0 (P k)).
  apply Qltb_comp; [ring | apply HP].
Qed.
Lemma sc_le : forall j k, Qle_bool (P' j) (P' k) = Qle_bool (P j) (P k).
Proof. intros. rewrite <- (Qle_bool_scale D HD (P j) (P k)). apply Qleb_comp; apply HP. Qed.
Lemma sc_eq : forall j k, Qeq_bool (P' j) (P' k) = Qeq_bool (P j) (P k).
Proof. intros. rewrite <- (Qeq_bool_scale D HD (P j) (P k)). apply Qeq_bool_comp2; apply HP. Qed.

Lemma sc_init : forall x, sceqv (st_init P x) (st_init P' x).
Proof.
  intros x. unfold sceqv, st_init; simpl. repeat split; try reflexivity.
  - apply sc_eq.
  - apply HP.
Qed.

Lemma sc_more : forall c s s', sceqv s s' -> more P' (D * c) s' = more P c s.
Proof.
  intros c s s' (A & B & _ & E). unfold more, lp, rp. rewrite A, B, !sc_ltb0.
  rewrite (Qltb_comp _ _ _ _ E (Qeq_refl (D * c))), (Qltb_scale D HD). reflexivity.
Qed.

Lemma sc_step : forall s s', sceqv s s' -> sceqv (step P s) (step P' s').
Proof.
  intros s s' (A & B & C & E). unfold step, lp, rp. rewrite A, B, sc_le, sc_eq.
  destruct (Qle_bool (P (s_r s)) (P (s_l s - 1))); unfold sceqv; simpl;
  repeat split; try congruence; rewrite E, HP; ring.
Qed.

Definition opt_sceqv (o o' : option st) : Prop :=
  match o, o' with
  | Some a, Some b => sceqv a b
  | None, None => True
  | _, _ => False
  end.

Lemma sc_loop : forall c fuel s s', sceqv s s' -> opt_sceqv (loop P c fuel s) (loop P' (D * c) fuel s').
Proof.
  intros c. induction fuel as [|f IH]; intros s s' H; simpl; rewrite (sc_more c s s' H);
  destruct (more P c s); simpl; auto.
  apply IH. apply sc_step. exact H.
Qed.

(* the two runs: both succeed or both run out of fuel; same orders, same flag, Confidence * D *)
Definition res_scaled (r r' : qres) : Prop :=
  r_lo r' = r_lo r /\ r_hi r' = r_hi r /\ r_amb r' = r_amb r /\ r_conf r' == D * r_conf r.

Theorem qci_small_scale : forall n x c,
  match qci_small P n x c, qci_small P' n x (D * c) with
  | Some r, Some r' => res_scaled r r'
  | None, None => True
  | _, _ => False
  end.
Proof.
  intros n x c. unfold qci_small.
  pose proof (sc_loop c (Z.to_nat (n + 1)) _ _ (sc_init x)) as H. unfold opt_sceqv in H.
  destruct (loop P c (Z.to_nat (n + 1)) (st_init P x)) as [a|];
  destruct (loop P' (D * c) (Z.to_nat (n + 1)) (st_init P' x)) as [b|]; try exact H.
  destruct H as (A & B & C & E). unfold res_scaled, clampR; simpl. rewrite A, B, C. auto.
Qed.

Theorem qci_small_scale_fwd : forall n x c r, qci_small P n x c = Some r ->
  exists r', qci_small P' n x (D * c) = Some r' /\ res_scaled r r'.
Proof.
  intros n x c r H. pose proof (qci_small_scale n x c) as S. rewrite H in S.
  destruct (qci_small P' n x (D * c)) as [r'|]; [|destruct S]. exists r'. auto.
Qed.

Theorem qci_small_scale_bwd : forall n x c r', qci_small P' n x (D * c) = Some r' ->
  exists r, qci_small P n x c = Some r /\ res_scaled r r'.
Proof.
  intros n x c r' H. pose proof (qci_small_scale n x c) as S. rewrite H in S.
  destruct (qci_small P n x c) as [r|]; [|destruct S]. exists r. auto.
Qed.
End Scale.

(* both directions in one statement, as used by Properties/C11.v *)
Theorem greedy_scale_invariant : forall (P P' : Z -> Q) (D : Q), 0 < D -> (forall k, P' k == D * P k) ->
  forall n x c,
  (forall r, qci_small P n x c = Some r ->
     exists r', qci_small P' n x (D * c) = Some r' /\
       r_lo r' = r_lo r /\ r_hi r' = r_hi r /\ r_amb r' = r_amb r /\ r_conf r' == D * r_conf r) /\
  (forall r', qci_small P' n x (D * c) = Some r' ->
     exists r, qci_small P n x c = Some r /\
       r_lo r' = r_lo r /\ r_hi r' = r_hi r /\ r_amb r' = r_amb r /\ r_conf r' == D * r_conf r).
Proof.
  intros P P' D HD HP n x c. split.
  - intros r H. apply (qci_small_scale_fwd P P' D HD HP). exact H.
  - intros r' H. apply (qci_small_scale_bwd P P' D HD HP). exact H.
Qed.

(* the admissible set computed on scaled masses P' == D * P (with its own scale sc on the
   accumulated value and a level c' == sc * D * c), from any list of start candidates that contains
   x, contains the deterministic result on P *)
Theorem set_contains_det_scaled : forall (P P' : Z -> Q) (D ieps sc : Q), 0 < D -> 0 < sc ->
  (forall k, P' k == D * P k) ->
  forall n xs x c c' g r, c' == sc * (D * c) -> In x xs ->
  qci_graph P' ieps n xs = Some g -> qci_small P n x c = Some r ->
  exists r', In r' (qci_small_set P' ieps n g sc c') /\
             r_lo r' = r_lo r /\ r_hi r' = r_hi r /\ r_amb r' = r_amb r /\ r_conf r' == D * r_conf r.
Proof.
  intros P P' D ieps sc HD Hsc HP n xs x c c' g r Hc' Hx Hg Hr.
  destruct (qci_small_scale_fwd P P' D HD HP n x c r Hr) as (r1 & H1 & A & B & C & E).
  destruct (set_contains_det_gen P' ieps sc Hsc n xs x (D * c) c' g r1 Hc' Hx Hg H1) as (r2 & In2 & A2 & B2 & C2 & E2).
  exists r2. split; [exact In2|]. repeat split; try congruence. rewrite E2. exact E.
Qed.

(* ---------- the masses the comparator uses ---------- *)
(* Check/C11.v: ws = binom_weights n a (d - a) for q = a/d; scaled_pmf n ws k = w_k inside [0, n],
   0 outside.  That is d^n * binom_pmf_i n q k. *)
Theorem scaled_pmf_is_scaled : forall (n : nat) (q : Q), 0 <= q <= 1 -> forall k,
  scaled_pmf (Z.of_nat n) (binom_weights (Z.of_nat n) (Qnum q) (Zpos (Qden q) - Qnum q)) k ==
  inject_Z (Zpos (Qden q) ^ Z.of_nat n) * binom_pmf_i (Z.of_nat n) q k.
Proof.
  intros n q Hq k. unfold scaled_pmf.
  assert (Ha : (0 <= Qnum q <= Zpos (Qden q))%Z).
  { destruct Hq as [H0 H1]. unfold Qle in H0, H1. cbn [Qnum Qden] in H0, H1. lia. }
  destruct (Z.ltb_spec k 0) as [L|L]; cbn [orb].
  { rewrite binom_pmf_i_neg by lia. ring. }
  destruct (Z.ltb_spec (Z.of_nat n) k) as [L2|L2].
  { rewrite binom_pmf_i_above by lia. ring. }
  rewrite binom_weights_nth by lia.
  assert (Hn0 : (0 <= Z.of_nat n)%Z) by lia.
  assert (Hk : (0 <= k <= Z.of_nat n)%Z) by lia.
  rewrite <- (bw_over_den (Z.of_nat n) q Hq k Hk).
  assert (HDn : 0 < inject_Z (Zpos (Qden q) ^ Z.of_nat n)).
  { change 0 with (inject_Z 0). rewrite <- Zlt_Qlt. apply Z.pow_pos_nonneg; lia. }
  field. lra.
Qed.

(* the start candidates of the comparator always include the model's lower mode *)
Lemma mode_candidates_contains : forall (n : nat) q exact, 0 <= q <= 1 ->
  In (mode_x (Z.of_nat n) q) (mode_candidates (Z.of_nat n) q exact).
Proof.
  intros n q exact Hq. unfold mode_candidates.
  destruct (exact || Qeq_bool q 0) eqn:E; [left; reflexivity|].
  match goal with |- context [if ?b then _ else _] => destruct b end; [|left; reflexivity].
  apply orb_false_iff in E as [_ E0].
  pose proof (mode_x_range n q Hq) as Hx.
  set (x := mode_x (Z.of_nat n) q) in *.
  set (y := inject_Z (Z.of_nat n + 1) * q).
  set (m := Qround.Qfloor (y + (1 # 2))).
  assert (Ex : x = (Qround.Qceiling y - 1)%Z) by (unfold x, mode_x; rewrite E0; reflexivity).
  pose proof (Qround.Qfloor_le (y + (1 # 2))) as F1. pose proof (Qround.Qlt_floor (y + (1 # 2))) as F2.
  fold m in F1, F2. rewrite inject_Z_plus in F2. change (inject_Z 1) with 1 in F2.
  pose proof (Qround.Qle_ceiling y) as C1. pose proof (Qround.Qceiling_lt y) as C2.
  unfold Z.sub in C2. rewrite inject_Z_plus, inject_Z_opp in C2. change (inject_Z 1) with 1 in C2.
  (* m - 1/2 <= y < m + 1/2 and ceil y - 1 < y <= ceil y: ceil y is m or m + 1 *)
  assert (H1 : (m <= Qround.Qceiling y)%Z).
  { apply Zle_from_Qlt. lra. }
  assert (H2 : (Qround.Qceiling y <= m + 1)%Z).
  { apply Zle_from_Qlt. rewrite inject_Z_plus. change (inject_Z 1) with 1. lra. }
  apply filter_In. split.
  - assert (x = (m - 1)%Z \/ x = m) as [->| ->] by lia; [left | right; left]; reflexivity.
  - apply andb_true_iff. split; [apply Z.leb_le | apply Z.leb_le]; lia.
Qed.

(* the level the comparator compares against: for q = a/2^e the integer cn * 2^(e n) is
   den(c) * (d^n * c) *)
Lemma comparator_level : forall (n : nat) (d : positive) (e : Z) (c : Q), (0 <= e)%Z -> Zpos d = Z.shiftl 1 e ->
  inject_Z (Z.shiftl (Qnum c) (e * Z.of_nat n)) ==
  inject_Z (Zpos (Qden c)) * (inject_Z (Zpos d ^ Z.of_nat n) * c).
Proof.
  intros n d e c He Hd. rewrite Hd. rewrite Z.shiftl_1_l, Z.shiftl_mul_pow2 by nia.
  rewrite <- Z.pow_mul_r by lia. rewrite inject_Z_mult.
  destruct c as [cn cd]. cbn [Qnum Qden].
  rewrite (Qmake_Qdiv cn cd). field.
  change 0 with (inject_Z 0). intros H. apply inject_Z_injective in H. discriminate.
Qed.

(* What the comparator computes for one (n, q, c) of the n <= 30 branch (Check/C11.v: small_outs over
   the graph started at mode_candidates, integer masses scaled_pmf) contains the deterministic model
   result on the rational Binomial(n,q) PMF at level c: same orders and flag, Confidence as the
   integer numerator over the common denominator d^n.  Any window (exact or not). *)
Theorem comparator_outs_contain_model : forall (n : nat) (q : Q), 0 <= q <= 1 ->
  let N := Z.of_nat n in
  let d := Zpos (Qden q) in
  let Pw := scaled_pmf N (binom_weights N (Qnum q) (d - Qnum q)) in
  forall e (exact : bool) c g r, (0 <= e)%Z -> d = Z.shiftl 1 e ->
  qci_graph Pw (if exact then 0 else ieps_border) N (mode_candidates N q exact) = Some g ->
  qci_small (binom_pmf_i N q) N (mode_x N q) c = Some r ->
  exists r', In r' (small_outs Pw N g e exact c) /\
             r_lo r' = r_lo r /\ r_hi r' = r_hi r /\ r_amb r' = r_amb r /\
             r_conf r' == inject_Z (d ^ N) * r_conf r.
Proof.
  intros n q Hq N d Pw e exact c g r He Hd Hg Hr. unfold small_outs.
  apply (set_contains_det_scaled (binom_pmf_i N q) Pw (inject_Z (d ^ N)) _ (inject_Z (Zpos (Qden c))))
    with (xs := mode_candidates N q exact) (x := mode_x N q) (c := c); try assumption.
  - change 0 with (inject_Z 0). rewrite <- Zlt_Qlt. apply Z.pow_pos_nonneg; unfold d, N; lia.
  - change 0 with (inject_Z 0). rewrite <- Zlt_Qlt. lia.
  - intros k. apply scaled_pmf_is_scaled. exact Hq.
  - apply comparator_level; assumption.
  - apply mode_candidates_contains. exact Hq.
Qed.

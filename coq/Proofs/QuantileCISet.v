(* Proofs/QuantileCISet.v — the admissible-outcome set used by the comparator of C11 always contains
   the result of the deterministic greedy accumulation (the function the theorems are about). *)
From MM Require Import Base.Num Base.GFSum Model.QuantileCI Proofs.QuantileCI.
From Coq Require Import Lqa Lia.
Local Open Scope Q_scope.

Section SetSound.
Variable P : Z -> Q.
Variable ieps : Q.
Notation st := QuantileCI.st.

(* same interval, same flag, equal accumulated value *)
Definition seqv (s t : st) : Prop :=
  s_l s = s_l t /\ s_r s = s_r t /\ s_amb s = s_amb t /\ s_acc s == s_acc t.
(* the accumulated value is the mass of the interval *)
Definition I2 (s : st) : Prop := (s_l s < s_r s)%Z /\ s_acc s == Qsum_range P (s_l s) (s_r s - 1).

Lemma same_key_refl : forall s, same_key s s = true.
Proof. intros. unfold same_key. rewrite !Z.eqb_refl, Bool.eqb_reflx. reflexivity. Qed.
Lemma same_key_spec : forall s t, same_key s t = true <-> s_l s = s_l t /\ s_r s = s_r t /\ s_amb s = s_amb t.
Proof.
  intros. unfold same_key. rewrite !andb_true_iff, !Z.eqb_eq, Bool.eqb_true_iff. tauto.
Qed.
Lemma same_key_trans : forall a b c, same_key a b = true -> same_key b c = true -> same_key a c = true.
Proof. intros a b c. rewrite !same_key_spec. intuition congruence. Qed.
Lemma same_key_sym : forall a b, same_key a b = true -> same_key b a = true.
Proof. intros a b. rewrite !same_key_spec. intuition congruence. Qed.

Lemma key_seqv : forall s t, I2 s -> I2 t -> same_key s t = true -> seqv s t.
Proof.
  intros s t [_ Hs] [_ Ht] K. apply same_key_spec in K as (K1 & K2 & K3).
  unfold seqv. repeat split; try assumption. rewrite Hs, Ht, K1, K2. reflexivity.
Qed.
Lemma seqv_key : forall s t, seqv s t -> same_key s t = true.
Proof. intros s t (A & B & C & _). apply same_key_spec. auto. Qed.

Lemma seqv_lp : forall s t, seqv s t -> lp P s = lp P t /\ rp P s = rp P t.
Proof. intros s t (A & B & _). unfold lp, rp. rewrite A, B. split; reflexivity. Qed.

Lemma Qltb_comp : forall a a' b b', a == a' -> b == b' -> Qltb a b = Qltb a' b'.
Proof. intros. unfold Qltb. rewrite (Qleb_comp _ _ H0 _ _ H). reflexivity. Qed.

Lemma seqv_more : forall c s t, seqv s t -> more P c s = more P c t.
Proof.
  intros c s t H. destruct (seqv_lp s t H) as [L R]. destruct H as (_ & _ & _ & A).
  unfold more. rewrite L, R. rewrite (Qltb_comp _ _ _ _ A (Qeq_refl c)). reflexivity.
Qed.

Lemma seqv_step : forall s t, seqv s t -> seqv (step P s) (step P t).
Proof.
  intros s t H. destruct (seqv_lp s t H) as [L R]. destruct H as (A & B & C & D).
  unfold step. rewrite L, R. destruct (Qle_bool (rp P t) (lp P t)); unfold seqv; simpl;
  repeat split; try congruence; rewrite D; reflexivity.
Qed.

Lemma I2_apply : forall s ch, I2 s -> I2 (apply_choice P s ch).
Proof.
  intros s [amb goleft] [W A]. unfold apply_choice, lp, rp. destruct goleft; unfold I2; simpl; split; try lia.
  - rewrite Qsum_range_first by lia. rewrite A. ring.
  - replace (s_r s + 1 - 1)%Z with (s_r s - 1 + 1)%Z by lia. rewrite Qsum_range_last by lia.
    rewrite A. replace (s_r s - 1 + 1)%Z with (s_r s) by lia. ring.
Qed.

Lemma step_is_choice : forall s,
  In (Qeq_bool (lp P s) (rp P s), Qle_bool (rp P s) (lp P s)) (step_choices P ieps s) /\
  apply_choice P s (Qeq_bool (lp P s) (rp P s), Qle_bool (rp P s) (lp P s)) = step P s.
Proof.
  intros s. split.
  - unfold step_choices. destruct (near ieps (lp P s) (rp P s)); [|left; reflexivity].
    destruct (Qeq_bool (lp P s) (rp P s)) eqn:E.
    + apply Qeq_bool_iff in E. assert (H : Qle_bool (rp P s) (lp P s) = true) by (apply Qle_bool_iff; lra).
      rewrite H. left. reflexivity.
    + destruct (Qle_bool (rp P s) (lp P s)); [right; left; reflexivity | right; right; left; reflexivity].
  - unfold apply_choice, step. destruct (Qle_bool (rp P s) (lp P s)); reflexivity.
Qed.

(* ---------- insertion by key ---------- *)
Lemma ins_in : forall s l t, In t (insert_st s l) -> t = s \/ In t l.
Proof.
  intros s l. induction l as [|a l IH]; intros t H; simpl in H.
  - destruct H as [<-|[]]. left. reflexivity.
  - destruct (same_key s a); [right; exact H|]. destruct H as [<-|H]; [right; left; reflexivity|].
    destruct (IH t H) as [->|H']; [left; reflexivity | right; right; exact H'].
Qed.
Lemma ins_keep : forall s l t, In t l -> In t (insert_st s l).
Proof.
  intros s l. induction l as [|a l IH]; intros t H; simpl; [destruct H|].
  destruct (same_key s a); [exact H|]. destruct H as [<-|H]; [left; reflexivity | right; apply IH; exact H].
Qed.
Lemma ins_has : forall s l, exists t, In t (insert_st s l) /\ same_key s t = true.
Proof.
  intros s l. induction l as [|a l IH]; simpl.
  - exists s. split; [left; reflexivity | apply same_key_refl].
  - destruct (same_key s a) eqn:K.
    + exists a. split; [left; reflexivity | exact K].
    + destruct IH as (t & Ht & Kt). exists t. split; [right; exact Ht | exact Kt].
Qed.

Definition insall (ts acc : list st) : list st := fold_left (fun a t => insert_st t a) ts acc.
Lemma insall_keep : forall ts acc u, In u acc -> In u (insall ts acc).
Proof. induction ts as [|t ts IH]; intros acc u H; simpl; [exact H|]. apply IH. apply ins_keep. exact H. Qed.
Lemma insall_in : forall ts acc u, In u (insall ts acc) -> In u ts \/ In u acc.
Proof.
  induction ts as [|t ts IH]; intros acc u H; simpl in *; [right; exact H|].
  destruct (IH _ _ H) as [H1|H1]; [left; right; exact H1|].
  destruct (ins_in _ _ _ H1) as [->|H2]; [left; left; reflexivity | right; exact H2].
Qed.
Lemma insall_has : forall ts acc t, In t ts -> exists u, In u (insall ts acc) /\ same_key t u = true.
Proof.
  induction ts as [|a ts IH]; intros acc t H; [destruct H|]. simpl.
  destruct H as [->|H]; [|apply IH; exact H].
  destruct (ins_has t acc) as (u & Hu & Ku). exists u. split; [apply insall_keep; exact Hu | exact Ku].
Qed.

Definition nextof (nodes : list (st * list st)) (acc : list st) : list st :=
  fold_left (fun a nd => insall (snd nd) a) nodes acc.
Lemma nextof_keep : forall nodes acc u, In u acc -> In u (nextof nodes acc).
Proof. induction nodes as [|nd nodes IH]; intros acc u H; simpl; [exact H|]. apply IH. apply insall_keep. exact H. Qed.
Lemma nextof_in : forall nodes acc u, In u (nextof nodes acc) -> In u acc \/ exists nd, In nd nodes /\ In u (snd nd).
Proof.
  induction nodes as [|nd nodes IH]; intros acc u H; simpl in *; [left; exact H|].
  destruct (IH _ _ H) as [H1|(nd' & H1 & H2)].
  - destruct (insall_in _ _ _ H1) as [H2|H2]; [right; exists nd; split; [left; reflexivity | exact H2] | left; exact H2].
  - right. exists nd'. split; [right; exact H1 | exact H2].
Qed.
Lemma nextof_has : forall nodes acc nd t, In nd nodes -> In t (snd nd) ->
  exists u, In u (nextof nodes acc) /\ same_key t u = true.
Proof.
  induction nodes as [|a nodes IH]; intros acc nd t H Ht; [destruct H|]. simpl.
  destruct H as [->|H]; [|eapply IH; eassumption].
  destruct (insall_has (snd nd) acc t Ht) as (u & Hu & Ku). exists u. split; [apply nextof_keep; exact Hu | exact Ku].
Qed.

(* ---------- the transition graph ---------- *)
Definition succs (s : st) : list st :=
  if has_mass P s then map (apply_choice P s) (step_choices P ieps s) else [].
Definition nodes_of (L : list st) : list (st * list st) := map (fun s => (s, succs s)) L.

Lemma graph_cons : forall fuel a L g, graph P ieps fuel (a :: L) = Some g ->
  exists f g', fuel = S f /\ g = nodes_of (a :: L) :: g' /\ graph P ieps f (nextof (nodes_of (a :: L)) []) = Some g'.
Proof.
  intros fuel a L g H. destruct fuel as [|f]; [discriminate|].
  cbn [graph] in H.
  change (map (fun s => (s, if has_mass P s then map (apply_choice P s) (step_choices P ieps s) else [])) (a :: L))
    with (nodes_of (a :: L)) in H.
  change (fold_left (fun a0 nd => fold_left (fun a1 t => insert_st t a1) (snd nd) a0) (nodes_of (a :: L)) [])
    with (nextof (nodes_of (a :: L)) []) in H.
  destruct (graph P ieps f (nextof (nodes_of (a :: L)) [])) as [g'|] eqn:E; [|discriminate].
  injection H as <-. exists f, g'. auto.
Qed.

Lemma succs_I2 : forall s u, I2 s -> In u (succs s) -> I2 u.
Proof.
  intros s u Hs Hu. unfold succs in Hu. destruct (has_mass P s); [|destruct Hu].
  apply in_map_iff in Hu as (ch & <- & _). apply I2_apply. exact Hs.
Qed.

Lemma next_I2 : forall L, Forall I2 L -> Forall I2 (nextof (nodes_of L) []).
Proof.
  intros L HL. apply Forall_forall. intros u Hu.
  destruct (nextof_in _ _ _ Hu) as [[]|(nd & Hnd & Hu')].
  unfold nodes_of in Hnd. apply in_map_iff in Hnd as (s & <- & Hs). simpl in Hu'.
  rewrite Forall_forall in HL. eapply succs_I2; [apply HL; exact Hs | exact Hu'].
Qed.

(* ---------- the first layer: all admissible initial states of all start candidates ---------- *)
Definition initall (xs : list Z) (acc : list st) : list st :=
  fold_left (fun a x => insall (init_choices P ieps x) a) xs acc.
Lemma initall_keep : forall xs acc u, In u acc -> In u (initall xs acc).
Proof. induction xs as [|x xs IH]; intros acc u H; simpl; [exact H|]. apply IH. apply insall_keep. exact H. Qed.
Lemma initall_in : forall xs acc u, In u (initall xs acc) ->
  In u acc \/ exists x, In x xs /\ In u (init_choices P ieps x).
Proof.
  induction xs as [|x xs IH]; intros acc u H; simpl in *; [left; exact H|].
  destruct (IH _ _ H) as [H1|(y & Hy & Hu)].
  - destruct (insall_in _ _ _ H1) as [H2|H2]; [right; exists x; split; [left; reflexivity | exact H2] | left; exact H2].
  - right. exists y. split; [right; exact Hy | exact Hu].
Qed.
Lemma initall_has : forall xs acc x t, In x xs -> In t (init_choices P ieps x) ->
  exists u, In u (initall xs acc) /\ same_key t u = true.
Proof.
  induction xs as [|a xs IH]; intros acc x t H Ht; [destruct H|]. simpl.
  destruct H as [->|H]; [|eapply IH; eassumption].
  destruct (insall_has _ acc t Ht) as (u & Hu & Ku). exists u. split; [apply initall_keep; exact Hu | exact Ku].
Qed.

(* ---------- one layer of the walk ---------- *)
Variables sc c : Q.
Variable reach : list st.
Definition WF (acc : list st * list st) (nd : st * list st) : list st * list st :=
  let '(o, nx) := acc in
  let '(s, sx) := nd in
  if existsb (same_key s) reach then
    let '(stop, go) := guard_choices P ieps sc c s in
    ((if stop then insert_st s o else o), (if go then insall sx nx else nx))
  else acc.

Local Opaque guard_choices.
Lemma wf_keep : forall nodes o nx u,
  (In u o -> In u (fst (fold_left WF nodes (o, nx)))) /\ (In u nx -> In u (snd (fold_left WF nodes (o, nx)))).
Proof.
  induction nodes as [|[s sx] nodes IH]; intros o nx u; simpl; [tauto|].
  destruct (existsb (same_key s) reach); [|apply IH].
  destruct (guard_choices P ieps sc c s) as [stop go].
  split; intros H; apply IH.
  - destruct stop; [apply ins_keep|]; exact H.
  - destruct go; [apply insall_keep|]; exact H.
Qed.

Lemma wf_stop : forall nodes o nx s sx, In (s, sx) nodes -> existsb (same_key s) reach = true ->
  fst (guard_choices P ieps sc c s) = true ->
  exists u, In u (fst (fold_left WF nodes (o, nx))) /\ same_key s u = true.
Proof.
  induction nodes as [|[a ax] nodes IH]; intros o nx s sx H R G; [destruct H|]. simpl.
  destruct H as [H|H].
  - injection H as -> ->. rewrite R. destruct (guard_choices P ieps sc c s) as [stop go]. simpl in G. subst stop.
    destruct (ins_has s o) as (u & Hu & Ku). exists u. split; [|exact Ku]. apply wf_keep. exact Hu.
  - destruct (existsb (same_key a) reach); [|eapply IH; eassumption].
    destruct (guard_choices P ieps sc c a) as [stop go]. eapply IH; eassumption.
Qed.

Lemma wf_go : forall nodes o nx s sx t, In (s, sx) nodes -> existsb (same_key s) reach = true ->
  snd (guard_choices P ieps sc c s) = true -> In t sx ->
  exists u, In u (snd (fold_left WF nodes (o, nx))) /\ same_key t u = true.
Proof.
  induction nodes as [|[a ax] nodes IH]; intros o nx s sx t H R G Ht; [destruct H|]. simpl.
  destruct H as [H|H].
  - injection H as -> ->. rewrite R. destruct (guard_choices P ieps sc c s) as [stop go]. simpl in G. subst go.
    destruct (insall_has sx nx t Ht) as (u & Hu & Ku). exists u. split; [|exact Ku]. apply wf_keep. exact Hu.
  - destruct (existsb (same_key a) reach); [|eapply IH; eassumption].
    destruct (guard_choices P ieps sc c a) as [stop go]. eapply IH; eassumption.
Qed.

Lemma wf_in : forall nodes o nx u,
  (In u (fst (fold_left WF nodes (o, nx))) -> In u o \/ exists nd, In nd nodes /\ u = fst nd) /\
  (In u (snd (fold_left WF nodes (o, nx))) -> In u nx \/ exists nd, In nd nodes /\ In u (snd nd)).
Proof.
  induction nodes as [|[s sx] nodes IH]; intros o nx u; simpl; [tauto|].
  destruct (existsb (same_key s) reach).
  - destruct (guard_choices P ieps sc c s) as [stop go].
    destruct (IH (if stop then insert_st s o else o) (if go then insall sx nx else nx) u) as [I1 I2'].
    split; intros H.
    + destruct (I1 H) as [H1|(nd & Hn & E)]; [|right; exists nd; split; [right; exact Hn | exact E]].
      destruct stop; [|left; exact H1].
      destruct (ins_in _ _ _ H1) as [->|H2]; [right; exists (s, sx); split; [left; reflexivity | reflexivity] | left; exact H2].
    + destruct (I2' H) as [H1|(nd & Hn & E)]; [|right; exists nd; split; [right; exact Hn | exact E]].
      destruct go; [|left; exact H1].
      destruct (insall_in _ _ _ H1) as [H2|H2]; [right; exists (s, sx); split; [left; reflexivity | exact H2] | left; exact H2].
  - destruct (IH o nx u) as [I1 I2']. split; intros H.
    + destruct (I1 H) as [H1|(nd & Hn & E)]; [left; exact H1 | right; exists nd; split; [right; exact Hn | exact E]].
    + destruct (I2' H) as [H1|(nd & Hn & E)]; [left; exact H1 | right; exists nd; split; [right; exact Hn | exact E]].
Qed.
Local Transparent guard_choices.
End SetSound.

(* ---------- the walk ---------- *)
Section WalkSound.
Variable P : Z -> Q.
Variable ieps : Q.
Variable sc : Q.
Hypothesis Hsc : 0 < sc.
Notation st := QuantileCI.st.

Lemma seqv_sym : forall s t, seqv s t -> seqv t s.
Proof. intros s t (A & B & C & D). unfold seqv. split; [congruence|]. split; [congruence|]. split; [congruence|]. symmetry. exact D. Qed.
Lemma seqv_trans : forall s t u, seqv s t -> seqv t u -> seqv s u.
Proof. intros s t u (A & B & C & D) (A' & B' & C' & D'). unfold seqv. split; [congruence|]. split; [congruence|]. split; [congruence|]. rewrite D. exact D'. Qed.

Lemma walk_cons : forall c nodes g' reach outs,
  walk P ieps sc c (nodes :: g') reach outs =
  match snd (fold_left (WF P ieps sc c reach) nodes (outs, [])) with
  | [] => fst (fold_left (WF P ieps sc c reach) nodes (outs, []))
  | _ => walk P ieps sc c g' (snd (fold_left (WF P ieps sc c reach) nodes (outs, [])))
                             (fst (fold_left (WF P ieps sc c reach) nodes (outs, [])))
  end.
Proof.
  intros. cbn [walk].
  match goal with |- context [fold_left ?f nodes (outs, [])] =>
    change (fold_left f nodes (outs, [])) with (fold_left (WF P ieps sc c reach) nodes (outs, [])) end.
  destruct (fold_left (WF P ieps sc c reach) nodes (outs, [])) as [o nx]. reflexivity.
Qed.

Lemma walk_keep : forall c g reach outs u, In u outs -> In u (walk P ieps sc c g reach outs).
Proof.
  intros c. induction g as [|nodes g IH]; intros reach outs u H; [exact H|].
  rewrite walk_cons.
  pose proof (proj1 (wf_keep P ieps sc c reach nodes outs [] u) H) as H1.
  destruct (snd (fold_left (WF P ieps sc c reach) nodes (outs, []))); [exact H1 | apply IH; exact H1].
Qed.

Lemma Qltb_scale : forall a b, Qltb (sc * a) (sc * b) = Qltb a b.
Proof.
  intros a b. destruct (Qltb a b) eqn:E.
  - apply Qltb_true in E. apply Qltb_true. apply Qmult_lt_l; assumption.
  - apply Qltb_false in E. apply Qltb_false. apply Qmult_le_l; assumption.
Qed.

Lemma guard_more : forall c0 c' s t, c' == sc * c0 -> seqv t s ->
  (more P c0 s = false -> fst (guard_choices P ieps sc c' t) = true) /\
  (more P c0 s = true -> snd (guard_choices P ieps sc c' t) = true /\ has_mass P t = true).
Proof.
  intros c0 c' s t Hc' H. destruct (seqv_lp P t s H) as [L R]. destruct H as (_ & _ & _ & A).
  unfold guard_choices, more, has_mass. cbn [fst snd].
  rewrite (Qltb_comp _ _ _ _ (Qeq_refl (sc * s_acc t)) Hc').
  rewrite Qltb_scale, L, R.
  rewrite (Qltb_comp _ _ _ _ A (Qeq_refl c0)).
  destruct (Qltb (s_acc s) c0); destruct (Qltb 0 (lp P s) || Qltb 0 (rp P s)); simpl; split; intros; try discriminate; auto.
Qed.

Lemma walk_sound : forall c0 c', c' == sc * c0 -> forall fuel s sf, loop P c0 fuel s = Some sf -> I2 P s ->
  forall gf L g reach outs t, graph P ieps gf L = Some g -> Forall (I2 P) L -> Forall (I2 P) outs ->
  In t L -> existsb (same_key t) reach = true -> seqv t s ->
  exists u, In u (walk P ieps sc c' g reach outs) /\ seqv u sf.
Proof.
  intros c0 c' Hc'. induction fuel as [|fuel IH]; intros s sf Hloop Hs gf L g reach outs t Hg HL Ho Ht Hr Hts.
  all: destruct L as [|a L']; [destruct Ht|].
  all: destruct (graph_cons P ieps gf a L' g Hg) as (f0 & g' & -> & -> & Hg').
  all: rewrite walk_cons.
  all: set (R := fold_left (WF P ieps sc c' reach) (nodes_of P ieps (a :: L')) (outs, [])).
  all: assert (Hnode : In (t, succs P ieps t) (nodes_of P ieps (a :: L')))
         by (unfold nodes_of; apply in_map_iff; exists t; split; [reflexivity | exact Ht]).
  all: assert (HtI : I2 P t) by (rewrite Forall_forall in HL; apply HL; exact Ht).
  all: assert (HoI : forall u, In u (fst R) -> I2 P u).
  1,3: intros u Hu; destruct (proj1 (wf_in P ieps sc c' reach _ outs [] u) Hu) as [H1|(nd & Hn & ->)];
       [rewrite Forall_forall in Ho; apply Ho; exact H1|];
       unfold nodes_of in Hn; apply in_map_iff in Hn as (z & <- & Hz); simpl;
       rewrite Forall_forall in HL; apply HL; exact Hz.
  all: simpl in Hloop; destruct (more P c0 s) eqn:Hm; try discriminate.
  (* the loop stops at s *)
  1,3: injection Hloop as <-;
       destruct (wf_stop P ieps sc c' reach _ outs [] t _ Hnode Hr (proj1 (guard_more c0 c' s t Hc' Hts) Hm)) as (u & Hu & Ku);
       fold R in Hu; exists u; split;
       [ destruct (snd R); [exact Hu | apply walk_keep; exact Hu]
       | apply seqv_trans with t; [apply seqv_sym; apply (key_seqv P); [exact HtI | apply HoI; exact Hu | exact Ku] | exact Hts] ].
  (* the loop goes on *)
  destruct (proj2 (guard_more c0 c' s t Hc' Hts) Hm) as [Hgo Hmass].
  destruct (step_is_choice P ieps t) as [Hin Heq].
  assert (Hst : In (step P t) (succs P ieps t)).
  { unfold succs. rewrite Hmass. rewrite <- Heq. apply in_map. exact Hin. }
  destruct (wf_go P ieps sc c' reach _ outs [] t _ (step P t) Hnode Hr Hgo Hst) as (u & Hu & Ku).
  fold R in Hu.
  destruct (nextof_has (nodes_of P ieps (a :: L')) [] _ (step P t) Hnode Hst) as (t' & Ht' & Kt').
  assert (HsI : I2 P (step P s)).
  { destruct (step_is_choice P ieps s) as [_ E]. rewrite <- E. apply I2_apply. exact Hs. }
  assert (HnI : Forall (I2 P) (nextof (nodes_of P ieps (a :: L')) [])) by (apply next_I2; exact HL).
  assert (Ht'I : I2 P t') by (rewrite Forall_forall in HnI; apply HnI; exact Ht').
  destruct (snd R) as [|b nx] eqn:ER; [destruct Hu|].
  rewrite <- ER.
  apply (IH (step P s) sf Hloop HsI f0 _ g' (snd R) (fst R) t' Hg' HnI).
  - apply Forall_forall. exact HoI.
  - exact Ht'.
  - apply existsb_exists. exists u. split; [rewrite ER; exact Hu|].
    apply same_key_trans with (step P t); [apply same_key_sym; exact Kt' | exact Ku].
  - apply (key_seqv P); [exact Ht'I | exact HsI |].
    apply same_key_trans with (step P t); [apply same_key_sym; exact Kt' | apply seqv_key; apply (seqv_step P); exact Hts].
Qed.

(* the deterministic result is always one of the admissible outcomes *)
Theorem set_contains_det_gen : forall n xs x c0 c' g r, c' == sc * c0 -> In x xs ->
  qci_graph P ieps n xs = Some g -> qci_small P n x c0 = Some r ->
  exists r', In r' (qci_small_set P ieps n g sc c') /\
             r_lo r' = r_lo r /\ r_hi r' = r_hi r /\ r_amb r' = r_amb r /\ r_conf r' == r_conf r.
Proof.
  intros n xs x c0 c' g r Hc' Hxs Hg Hr. unfold qci_small in Hr.
  destruct (loop P c0 (Z.to_nat (n + 1)) (st_init P x)) as [sf|] eqn:Hloop; [|discriminate]. injection Hr as <-.
  unfold qci_graph in Hg.
  change (fold_left (fun a x0 => fold_left (fun a0 t => insert_st t a0) (init_choices P ieps x0) a) xs [])
    with (initall P ieps xs []) in Hg.
  set (L0 := initall P ieps xs []) in *.
  assert (Hinit : forall y u, In u (init_choices P ieps y) -> I2 P u).
  { intros y u Hu. unfold init_choices in Hu.
    assert (E : forall b, I2 P (mkSt y (y + 1) (P y) b)).
    { intros b. unfold I2; simpl. split; [lia|]. replace (y + 1 - 1)%Z with y by lia. rewrite Qsum_range_single. reflexivity. }
    destruct (near ieps (P (y + 1)) (P y)); simpl in Hu; intuition (subst; try apply E). }
  assert (HL0 : Forall (I2 P) L0).
  { apply Forall_forall. intros u Hu. destruct (initall_in _ _ _ _ _ Hu) as [[]|(y & _ & H)]. apply (Hinit y). exact H. }
  assert (Hin0 : In (st_init P x) (init_choices P ieps x)).
  { unfold init_choices, st_init. destruct (near ieps (P (x + 1)) (P x)); [|left; reflexivity].
    destruct (Qeq_bool (P (x + 1)) (P x)); [left | right; left]; reflexivity. }
  destruct (initall_has P ieps xs [] x _ Hxs Hin0) as (t0 & Ht0 & Kt0). fold L0 in Ht0.
  assert (HsI : I2 P (st_init P x)) by (apply (Hinit x); exact Hin0).
  destruct L0 as [|a L'] eqn:EL; [destruct Ht0|].
  destruct (graph_cons P ieps _ a L' g Hg) as (f0 & g' & _ & Eg & _).
  assert (Hts : seqv t0 (st_init P x)).
  { apply (key_seqv P); [rewrite Forall_forall in HL0; apply HL0; exact Ht0 | exact HsI | apply same_key_sym; exact Kt0]. }
  destruct (walk_sound c0 c' Hc' _ _ _ Hloop HsI _ (a :: L') g (a :: L') [] t0 Hg HL0 (Forall_nil _) Ht0) as (u & Hu & Su).
  { apply existsb_exists. exists t0. split; [exact Ht0 | apply same_key_refl]. }
  { exact Hts. }
  exists (clampR n (s_l u) (s_r u) (s_acc u) (s_amb u)). split.
  - unfold qci_small_set. rewrite Eg. apply in_map_iff. exists u. split; [reflexivity|].
    replace (map fst (nodes_of P ieps (a :: L'))) with (a :: L').
    + rewrite <- Eg. exact Hu.
    + unfold nodes_of. rewrite map_map. simpl. f_equal. symmetry. apply map_id.
  - destruct Su as (A & B & C & D). unfold clampR; simpl. rewrite A, B, C. repeat split; try reflexivity. exact D.
Qed.

Theorem set_contains_det_eqv : forall n x c0 c' g r, c' == sc * c0 ->
  qci_graph P ieps n [x] = Some g -> qci_small P n x c0 = Some r ->
  exists r', In r' (qci_small_set P ieps n g sc c') /\
             r_lo r' = r_lo r /\ r_hi r' = r_hi r /\ r_amb r' = r_amb r /\ r_conf r' == r_conf r.
Proof. intros n x c0 c' g r Hc'. apply set_contains_det_gen; [exact Hc' | left; reflexivity]. Qed.

Theorem set_contains_det : forall n x c0 g r,
  qci_graph P ieps n [x] = Some g -> qci_small P n x c0 = Some r ->
  exists r', In r' (qci_small_set P ieps n g sc (sc * c0)) /\
             r_lo r' = r_lo r /\ r_hi r' = r_hi r /\ r_amb r' = r_amb r /\ r_conf r' == r_conf r.
Proof. intros n x c0 g r. apply set_contains_det_eqv. reflexivity. Qed.
End WalkSound.

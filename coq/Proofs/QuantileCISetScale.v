(* Proofs/QuantileCISetScale.v — the admissible-outcome SET of C11's comparator is invariant under a
   common positive factor of all masses (and of the level): the computation on masses P' == D * P
   produces, outcome by outcome, the same orders and flags as the computation on P, with the
   Confidence scaled by D — for ANY window 1/ieps.  In particular the set computed on the integer
   masses d^n * PMF is the set on the rational PMF. *)
From MM Require Import Base.Num Base.GFSum Model.Choose Model.Binom Model.QuantileCI
                       Proofs.Binom Proofs.QuantileCI Proofs.QuantileCISet Proofs.QuantileCIScale
                       Proofs.C06Table Check.C06 Check.C11.
From Coq Require Import Lqa Lia Qabs.
Local Open Scope Q_scope.

(* ---------- the window test ---------- *)
Lemma Qmaxb_comp : forall a a' b b', a == a' -> b == b' -> Qmaxb a b == Qmaxb a' b'.
Proof.
  intros a a' b b' Ha Hb. unfold Qmaxb. rewrite (Qleb_comp _ _ Ha _ _ Hb).
  destruct (Qle_bool a' b'); assumption.
Qed.

Lemma Qmaxb_scale : forall D a b, 0 < D -> Qmaxb (D * a) (D * b) == D * Qmaxb a b.
Proof.
  intros D a b HD. unfold Qmaxb. rewrite (Qle_bool_scale D HD). destruct (Qle_bool a b); reflexivity.
Qed.

Lemma Qabs_scale : forall D a, 0 < D -> Qabs (D * a) == D * Qabs a.
Proof. intros D a HD. rewrite Qabs_Qmult. rewrite (Qabs_pos D) by lra. reflexivity. Qed.

Lemma near_exact_comp : forall ieps a a' b b', a == a' -> b == b' ->
  near_exact ieps a b = near_exact ieps a' b'.
Proof.
  intros ieps a a' b b' Ha Hb. unfold near_exact. apply Qleb_comp.
  - rewrite Ha, Hb. reflexivity.
  - apply Qmaxb_comp; [rewrite Ha | rewrite Hb]; reflexivity.
Qed.

Lemma near_exact_scale : forall ieps D a b, 0 < D ->
  near_exact ieps (D * a) (D * b) = near_exact ieps a b.
Proof.
  intros ieps D a b HD. unfold near_exact.
  rewrite <- (Qle_bool_scale D HD (ieps * Qabs (a - b))).
  apply Qleb_comp.
  - assert (E : D * a - D * b == D * (a - b)) by ring. rewrite E, (Qabs_scale D _ HD). ring.
  - rewrite <- (Qmaxb_scale D _ _ HD). apply Qmaxb_comp; apply Qabs_scale; exact HD.
Qed.

(* on integers the comparator decides the same test from bit lengths when that is conclusive *)
Lemma near_exact_int : forall N an bn : Z,
  near_exact (N # 1) (an # 1) (bn # 1) = (N * Z.abs (an - bn) <=? Z.max (Z.abs an) (Z.abs bn))%Z.
Proof.
  intros N an bn. apply Bool.eq_true_iff_eq. unfold near_exact. rewrite Qle_bool_iff, Z.leb_le.
  unfold Qmaxb. destruct (Qle_bool (Qabs (an # 1)) (Qabs (bn # 1))) eqn:E.
  - apply Qle_bool_iff in E. unfold Qle in *. cbn in *. lia.
  - apply Qle_bool_false in E. unfold Qle, Qlt in *. cbn in *. lia.
Qed.

Lemma near_equiv : forall ieps a b, 0 <= ieps ->
  near ieps a b = negb (Qeq_bool ieps 0) && near_exact ieps a b.
Proof.
  intros ieps a b Hi. unfold near. destruct (Qeq_bool ieps 0) eqn:E0; [reflexivity|]. cbn [negb andb].
  destruct a as [an ad], b as [bn bd], ieps as [N nd]. cbn [Qden Qnum].
  destruct ad; try reflexivity. destruct bd; try reflexivity. destruct nd; try reflexivity.
  rewrite near_exact_int.
  assert (HN : (0 < N)%Z).
  { unfold Qle in Hi. cbn in Hi. assert (N <> 0)%Z; [|lia]. intros ->. discriminate E0. }
  set (d := Z.abs (an - bn)). set (m := Z.max (Z.abs an) (Z.abs bn)).
  assert (Hd : (0 <= d)%Z) by (unfold d; lia). assert (Hm : (0 <= m)%Z) by (unfold m; lia).
  destruct (Z.eqb_spec d 0) as [D0|D0].
  { rewrite D0, Z.mul_0_r. symmetry. apply Z.leb_le. exact Hm. }
  assert (Hd' : (0 < d)%Z) by lia.
  pose proof (Z.log2_spec d Hd') as [Ld1 Ld2]. pose proof (Z.log2_spec N HN) as [LN1 LN2].
  pose proof (Z.log2_nonneg d) as Ld0. pose proof (Z.log2_nonneg N) as LN0. pose proof (Z.log2_nonneg m) as Lm0.
  destruct (Z.leb_spec (Z.log2 d + Z.log2 N + 2) (Z.log2 m)) as [C1|C1].
  { symmetry. apply Z.leb_le.
    assert (Hm' : (0 < m)%Z).
    { destruct (Z.eq_dec m 0) as [M0|]; [|lia]. rewrite M0 in C1. cbn in C1. lia. }
    pose proof (Z.log2_spec m Hm') as [Lm1 _].
    assert (P1 : (2 ^ (Z.log2 d + Z.log2 N + 2) <= 2 ^ Z.log2 m)%Z) by (apply Z.pow_le_mono_r; lia).
    replace (Z.log2 d + Z.log2 N + 2)%Z with (Z.succ (Z.log2 N) + Z.succ (Z.log2 d))%Z in P1 by lia.
    rewrite Z.pow_add_r in P1 by lia. nia. }
  destruct (Z.ltb_spec (Z.log2 m + 1) (Z.log2 d + Z.log2 N)) as [C2|C2]; [|reflexivity].
  symmetry. apply Z.leb_gt.
  destruct (Z.eq_dec m 0) as [M0|M0]; [nia|].
  pose proof (Z.log2_spec m ltac:(lia)) as [_ Lm2].
  assert (P1 : (2 ^ Z.succ (Z.log2 m) <= 2 ^ (Z.log2 d + Z.log2 N))%Z) by (apply Z.pow_le_mono_r; lia).
  replace (Z.log2 d + Z.log2 N)%Z with (Z.log2 N + Z.log2 d)%Z in P1 by lia.
  rewrite Z.pow_add_r in P1 by lia. nia.
Qed.

Lemma near_comp : forall ieps a a' b b', 0 <= ieps -> a == a' -> b == b' -> near ieps a b = near ieps a' b'.
Proof. intros. rewrite !near_equiv by assumption. f_equal. apply near_exact_comp; assumption. Qed.

Lemma near_scale : forall ieps D a b, 0 <= ieps -> 0 < D -> near ieps (D * a) (D * b) = near ieps a b.
Proof. intros. rewrite !near_equiv by assumption. f_equal. apply near_exact_scale; assumption. Qed.

(* ---------- generic: related folds ---------- *)
Lemma fold_left_rel : forall (A A' B B' : Type) (RA : A -> A' -> Prop) (RB : B -> B' -> Prop)
  (f : A -> B -> A) (f' : A' -> B' -> A'),
  (forall a a' b b', RA a a' -> RB b b' -> RA (f a b) (f' a' b')) ->
  forall l l', Forall2 RB l l' -> forall a a', RA a a' -> RA (fold_left f l a) (fold_left f' l' a').
Proof.
  intros A A' B B' RA RB f f' Hf l l' H. induction H as [|b b' l l' Hb _ IH]; intros a a' Ha; simpl; [exact Ha|].
  apply IH. apply Hf; assumption.
Qed.

Lemma existsb_rel : forall (A A' : Type) (RA : A -> A' -> Prop) (p : A -> bool) (p' : A' -> bool),
  (forall a a', RA a a' -> p a = p' a') -> forall l l', Forall2 RA l l' -> existsb p l = existsb p' l'.
Proof.
  intros A A' RA p p' Hp l l' H. induction H as [|a a' l l' Ha _ IH]; simpl; [reflexivity|].
  rewrite (Hp _ _ Ha), IH. reflexivity.
Qed.

Lemma map_rel : forall (A A' B B' : Type) (RA : A -> A' -> Prop) (RB : B -> B' -> Prop) (f : A -> B) (f' : A' -> B'),
  (forall a a', RA a a' -> RB (f a) (f' a')) -> forall l l', Forall2 RA l l' -> Forall2 RB (map f l) (map f' l').
Proof.
  intros A A' B B' RA RB f f' Hf l l' H. induction H; simpl; constructor; auto.
Qed.

Section SetScale.
Variables P P' : Z -> Q.
Variables D ieps : Q.
Hypothesis HD : 0 < D.
Hypothesis Hi : 0 <= ieps.
Hypothesis HP : forall k, P' k == D * P k.
Notation st := QuantileCI.st.
Notation R := (sceqv D).

Lemma near_P : forall j k, near ieps (P' j) (P' k) = near ieps (P j) (P k).
Proof.
  intros j k. transitivity (near ieps (D * P j) (D * P k)).
  - apply near_comp; [exact Hi | apply HP | apply HP].
  - apply near_scale; assumption.
Qed.

Lemma R_step_choices : forall s s', R s s' -> step_choices P' ieps s' = step_choices P ieps s.
Proof.
  intros s s' (A & B & _ & _). unfold step_choices, lp, rp. rewrite A, B.
  rewrite near_P, (sc_eq P P' D HD HP), (sc_le P P' D HD HP). reflexivity.
Qed.

Lemma R_apply : forall s s' ch, R s s' -> R (apply_choice P s ch) (apply_choice P' s' ch).
Proof.
  intros s s' [amb goleft] (A & B & C & E). unfold apply_choice, lp, rp. rewrite A, B.
  destruct goleft; unfold sceqv; simpl; repeat split; try congruence; rewrite E, HP; ring.
Qed.

Lemma R_has_mass : forall s s', R s s' -> has_mass P' s' = has_mass P s.
Proof.
  intros s s' (A & B & _ & _). unfold has_mass, lp, rp. rewrite A, B, !(sc_ltb0 P P' D HD HP). reflexivity.
Qed.

Lemma R_same_key : forall s s' t t', R s s' -> R t t' -> same_key s' t' = same_key s t.
Proof.
  intros s s' t t' (A & B & C & _) (A' & B' & C' & _). unfold same_key. rewrite A, B, C, A', B', C'. reflexivity.
Qed.

Lemma R_insert : forall l l', Forall2 R l l' -> forall s s', R s s' -> Forall2 R (insert_st s l) (insert_st s' l').
Proof.
  intros l l' H. induction H as [|t t' l l' Ht Hl IH]; intros s s' Hs; simpl.
  - constructor; [exact Hs | constructor].
  - rewrite (R_same_key _ _ _ _ Hs Ht). destruct (same_key s t).
    + constructor; assumption.
    + constructor; [exact Ht | apply IH; exact Hs].
Qed.

Lemma R_insall : forall ts ts', Forall2 R ts ts' -> forall a a', Forall2 R a a' ->
  Forall2 R (fold_left (fun a t => insert_st t a) ts a) (fold_left (fun a t => insert_st t a) ts' a').
Proof.
  intros ts ts' H a a' Ha.
  apply (fold_left_rel _ _ _ _ (Forall2 R) R (fun a t => insert_st t a) (fun a t => insert_st t a)); try assumption.
  intros x x' b b' Hx Hb. apply R_insert; assumption.
Qed.

(* nodes of the transition graph: a state with its admissible successors *)
Definition R2 (nd nd' : st * list st) : Prop := R (fst nd) (fst nd') /\ Forall2 R (snd nd) (snd nd').

Lemma R_succs : forall s s', R s s' ->
  Forall2 R (if has_mass P s then map (apply_choice P s) (step_choices P ieps s) else [])
            (if has_mass P' s' then map (apply_choice P' s') (step_choices P' ieps s') else []).
Proof.
  intros s s' H. rewrite (R_has_mass _ _ H), (R_step_choices _ _ H).
  destruct (has_mass P s); [|constructor].
  induction (step_choices P ieps s) as [|ch l IH]; simpl; constructor; [apply R_apply; exact H | exact IH].
Qed.

Definition orel {A B : Type} (RR : A -> B -> Prop) (o : option A) (o' : option B) : Prop :=
  match o, o' with Some a, Some b => RR a b | None, None => True | _, _ => False end.

Lemma R_graph : forall fuel L L', Forall2 R L L' ->
  orel (Forall2 (Forall2 R2)) (graph P ieps fuel L) (graph P' ieps fuel L').
Proof.
  induction fuel as [|f IH]; intros L L' H.
  - destruct H; simpl; [constructor | exact I].
  - destruct H as [|s s' L L' Hs HL]; [simpl; constructor|].
    set (LL := s :: L). set (LL' := s' :: L'). assert (HLL : Forall2 R LL LL') by (constructor; assumption).
    change (graph P ieps (S f) LL) with
      (let nodes := map (fun s => (s, if has_mass P s then map (apply_choice P s) (step_choices P ieps s) else [])) LL in
       let next := fold_left (fun a nd => fold_left (fun a t => insert_st t a) (snd nd) a) nodes [] in
       option_map (cons nodes) (graph P ieps f next)).
    change (graph P' ieps (S f) LL') with
      (let nodes := map (fun s => (s, if has_mass P' s then map (apply_choice P' s) (step_choices P' ieps s) else [])) LL' in
       let next := fold_left (fun a nd => fold_left (fun a t => insert_st t a) (snd nd) a) nodes [] in
       option_map (cons nodes) (graph P' ieps f next)).
    cbv zeta.
    set (nodes := map _ LL). set (nodes' := map _ LL').
    assert (Hn : Forall2 R2 nodes nodes').
    { unfold nodes, nodes'. apply (map_rel _ _ _ _ R R2); [|exact HLL].
      intros a a' Ha. split; [exact Ha | apply R_succs; exact Ha]. }
    set (next := fold_left _ nodes []). set (next' := fold_left _ nodes' []).
    assert (Hx : Forall2 R next next').
    { unfold next, next'.
      apply (fold_left_rel _ _ _ _ (Forall2 R) R2
               (fun a nd => fold_left (fun a t => insert_st t a) (snd nd) a)
               (fun a nd => fold_left (fun a t => insert_st t a) (snd nd) a)); [|exact Hn|constructor].
      intros a a' nd nd' Ha [_ Hnd]. apply R_insall; assumption. }
    specialize (IH next next' Hx).
    destruct (graph P ieps f next); destruct (graph P' ieps f next'); simpl in *; try exact IH.
    constructor; assumption.
Qed.

Lemma R_init : forall x, Forall2 R (init_choices P ieps x) (init_choices P' ieps x).
Proof.
  intros x. unfold init_choices. rewrite near_P.
  assert (E : forall b, R (mkSt x (x + 1) (P x) b) (mkSt x (x + 1) (P' x) b)).
  { intros b. unfold sceqv; simpl. repeat split. apply HP. }
  destruct (near ieps (P (x + 1)) (P x)).
  - constructor; [apply E | constructor; [apply E | constructor]].
  - constructor; [apply (sc_init P P' D HD HP) | constructor].
Qed.

Lemma R_qci_graph : forall n xs,
  orel (Forall2 (Forall2 R2)) (qci_graph P ieps n xs) (qci_graph P' ieps n xs).
Proof.
  intros n xs. unfold qci_graph. apply R_graph.
  apply (fold_left_rel _ _ _ _ (Forall2 R) (@eq Z)
           (fun a x => fold_left (fun a t => insert_st t a) (init_choices P ieps x) a)
           (fun a x => fold_left (fun a t => insert_st t a) (init_choices P' ieps x) a)).
  - intros a a' x x' Ha <-. apply R_insall; [apply R_init | exact Ha].
  - induction xs; constructor; auto.
  - constructor.
Qed.

(* ---------- the walk for one level ---------- *)
Variables sc0 sc c c0 c' : Q.
Hypothesis Hsc0 : 0 < sc0.
Hypothesis Hsc : 0 < sc.
Hypothesis Hc0 : c0 == sc0 * c.
Hypothesis Hc' : c' == sc * (D * c).

Lemma R_guard : forall s s', R s s' -> guard_choices P' ieps sc c' s' = guard_choices P ieps sc0 c0 s.
Proof.
  intros s s' H. pose proof (R_has_mass _ _ H) as Hm. destruct H as (_ & _ & _ & E).
  unfold guard_choices. rewrite Hm.
  assert (HsD : 0 < sc * D) by (apply Qmult_lt_0_compat; assumption).
  assert (E1 : sc * s_acc s' == (sc * D) * s_acc s) by (rewrite E; ring).
  assert (E2 : c' == (sc * D) * c) by (rewrite Hc'; ring).
  assert (L1 : Qltb (sc * s_acc s') c' = Qltb (s_acc s) c).
  { rewrite (Qltb_comp _ _ _ _ E1 E2). apply Qltb_scale. exact HsD. }
  assert (L0 : Qltb (sc0 * s_acc s) c0 = Qltb (s_acc s) c).
  { rewrite (Qltb_comp _ _ _ _ (Qeq_refl _) Hc0). apply Qltb_scale. exact Hsc0. }
  assert (N1 : near ieps (sc * s_acc s') c' = near ieps (s_acc s) c).
  { rewrite (near_comp ieps _ _ _ _ Hi E1 E2). apply near_scale; assumption. }
  assert (N0 : near ieps (sc0 * s_acc s) c0 = near ieps (s_acc s) c).
  { rewrite (near_comp ieps _ _ _ _ Hi (Qeq_refl _) Hc0). apply near_scale; assumption. }
  cbv zeta. rewrite L1, L0, N1, N0. reflexivity.
Qed.

Definition RP (a : list st * list st) (a' : list st * list st) : Prop :=
  Forall2 R (fst a) (fst a') /\ Forall2 R (snd a) (snd a').

Lemma R_WF : forall reach reach', Forall2 R reach reach' ->
  forall acc acc' nd nd', RP acc acc' -> R2 nd nd' ->
  RP (WF P ieps sc0 c0 reach acc nd) (WF P' ieps sc c' reach' acc' nd').
Proof.
  intros reach reach' Hr [o nx] [o' nx'] [s sx] [s' sx'] [Ho Hnx] [Hs Hsx]. cbn [fst snd] in *.
  unfold WF.
  assert (Ex : existsb (same_key s') reach' = existsb (same_key s) reach).
  { symmetry. apply (existsb_rel _ _ R); [|exact Hr]. intros a a' Ha. symmetry. apply R_same_key; assumption. }
  rewrite Ex. destruct (existsb (same_key s) reach); [|split; assumption].
  rewrite (R_guard _ _ Hs). destruct (guard_choices P ieps sc0 c0 s) as [stop go].
  split; cbn [fst snd].
  - destruct stop; [apply R_insert|]; assumption.
  - destruct go; [|assumption]. apply R_insall; assumption.
Qed.

Lemma R_walk : forall g g', Forall2 (Forall2 R2) g g' ->
  forall reach reach' outs outs', Forall2 R reach reach' -> Forall2 R outs outs' ->
  Forall2 R (walk P ieps sc0 c0 g reach outs) (walk P' ieps sc c' g' reach' outs').
Proof.
  intros g g' H. induction H as [|nodes nodes' g g' Hn _ IH]; intros reach reach' outs outs' Hr Ho; [exact Ho|].
  rewrite !walk_cons.
  assert (HF : RP (fold_left (WF P ieps sc0 c0 reach) nodes (outs, []))
                  (fold_left (WF P' ieps sc c' reach') nodes' (outs', []))).
  { apply (fold_left_rel _ _ _ _ RP R2); [|exact Hn|split; [exact Ho | constructor]].
    intros a a' b b' Ha Hb. apply R_WF; assumption. }
  destruct HF as [H1 H2].
  destruct H2 as [|x x' nx nx' Hx Hnx].
  - exact H1.
  - apply IH; [constructor; assumption | exact H1].
Qed.

Theorem R_small_set : forall n g g', Forall2 (Forall2 R2) g g' ->
  Forall2 (res_scaled D) (qci_small_set P ieps n g sc0 c0) (qci_small_set P' ieps n g' sc c').
Proof.
  intros n g g' H. unfold qci_small_set. destruct H as [|nodes nodes' g g' Hn Hg]; [constructor|].
  apply (map_rel _ _ _ _ R (res_scaled D)).
  - intros s s' (A & B & C & E). unfold res_scaled, clampR; simpl. rewrite A, B, C. auto.
  - apply R_walk.
    + constructor; assumption.
    + apply (map_rel _ _ _ _ R2 R); [|exact Hn]. intros a a' [Ha _]. exact Ha.
    + constructor.
Qed.
End SetScale.

(* The admissible set on scaled masses is, outcome by outcome, the admissible set on the original
   masses: same orders, same flags, Confidence scaled by D; the two graphs exist together. *)
Theorem set_scale_invariant : forall (P P' : Z -> Q) (D ieps sc0 sc : Q),
  0 < D -> 0 <= ieps -> 0 < sc0 -> 0 < sc -> (forall k, P' k == D * P k) ->
  forall n xs c c0 c', c0 == sc0 * c -> c' == sc * (D * c) ->
  match qci_graph P ieps n xs, qci_graph P' ieps n xs with
  | Some g, Some g' => Forall2 (res_scaled D) (qci_small_set P ieps n g sc0 c0) (qci_small_set P' ieps n g' sc c')
  | None, None => True
  | _, _ => False
  end.
Proof.
  intros P P' D ieps sc0 sc HD Hi Hsc0 Hsc HP n xs c c0 c' Hc0 Hc'.
  pose proof (R_qci_graph P P' D ieps HD Hi HP n xs) as H. unfold orel in H.
  destruct (qci_graph P ieps n xs) as [g|]; destruct (qci_graph P' ieps n xs) as [g'|]; try exact H.
  apply (R_small_set P P' D ieps HD Hi HP sc0 sc c c0 c' Hsc0 Hsc Hc0 Hc'). exact H.
Qed.

(* For the comparator: the outcome set it computes on the integer masses (any window) is, outcome by
   outcome, the admissible set of the RATIONAL Binomial(n,q) PMF at level c (scale 1): same orders and
   flags, Confidence = integer numerator over d^n; and the two transition graphs exist together. *)
Theorem comparator_outs_are_rational_set : forall (n : nat) (q : Q), 0 <= q <= 1 ->
  let N := Z.of_nat n in
  let d := Zpos (Qden q) in
  let Pq := binom_pmf_i N q in
  let Pw := scaled_pmf N (binom_weights N (Qnum q) (d - Qnum q)) in
  forall e (exact : bool) c, (0 <= e)%Z -> d = Z.shiftl 1 e ->
  let eps := if exact then 0 else ieps_border in
  match qci_graph Pq eps N (mode_candidates N q exact), qci_graph Pw eps N (mode_candidates N q exact) with
  | Some g, Some g' => Forall2 (res_scaled (inject_Z (d ^ N))) (qci_small_set Pq eps N g 1 c) (small_outs Pw N g' e exact c)
  | None, None => True
  | _, _ => False
  end.
Proof.
  intros n q Hq N d Pq Pw e exact c He Hd eps. unfold small_outs. fold eps.
  apply (set_scale_invariant Pq Pw (inject_Z (d ^ N)) eps 1 (inject_Z (Zpos (Qden c)))) with (c := c).
  - change 0 with (inject_Z 0). rewrite <- Zlt_Qlt. apply Z.pow_pos_nonneg; unfold d, N; lia.
  - unfold eps, ieps_border. destruct exact; discriminate.
  - reflexivity.
  - change 0 with (inject_Z 0). rewrite <- Zlt_Qlt. lia.
  - intros k. apply scaled_pmf_is_scaled. exact Hq.
  - ring.
  - apply comparator_level; assumption.
Qed.

(* Proofs/QuantileW.v — the weighted branch of Sample.Quantile (C10): its result is determined
   by the MULTISET of (value, weight) pairs, hence independent of the input order and of the
   Sorted flag, and it is non-decreasing in q. *)
From MM Require Import Base.Num Base.GASort Model.Sample Model.Quantile Spec.Quantile Proofs.Quantile.
From Coq Require Import Qround Lia Lqa Permutation Sorted.
Local Open Scope Q_scope.

(* total weight of the pairs whose value is <= y: a function of the multiset of pairs *)
Definition Wle (ps : list (Q * Q)) (y : Q) : Q :=
  Qsum (map snd (filter (fun p => Qle_bool (fst p) y) ps)).
Definition psorted (ps : list (Q * Q)) : Prop := StronglySorted (fun a b => fst a <= fst b) ps.
Definition nonneg (ps : list (Q * Q)) : Prop := Forall (fun p => 0 <= snd p) ps.

Lemma Wle_cons : forall x w tl y,
  Wle ((x, w) :: tl) y == (if Qle_bool x y then w else 0) + Wle tl y.
Proof. intros. unfold Wle. simpl. destruct (Qle_bool x y); simpl; ring. Qed.

Lemma Wle_nonneg : forall ps y, nonneg ps -> 0 <= Wle ps y.
Proof.
  induction ps as [|[x w] tl IH]; intros y H; [unfold Wle; simpl; lra|].
  inversion H; subst. simpl in *. rewrite Wle_cons. specialize (IH y H3).
  destruct (Qle_bool x y); lra.
Qed.

Lemma Qle_bool_comp_r : forall a y y', y == y' -> Qle_bool a y = Qle_bool a y'.
Proof.
  intros a y y' E. destruct (Qle_bool a y') eqn:B.
  - apply Qle_bool_iff in B. apply Qle_bool_iff. rewrite E. exact B.
  - apply Qle_bool_false in B. apply Qle_bool_false. rewrite E. exact B.
Qed.

Lemma Wle_comp : forall ps y y', y == y' -> Wle ps y == Wle ps y'.
Proof.
  induction ps as [|[x w] tl IH]; intros y y' E; [reflexivity|].
  rewrite !Wle_cons, (Qle_bool_comp_r x y y' E), (IH y y' E). reflexivity.
Qed.

Lemma Wle_perm : forall ps ps' y, Permutation ps ps' -> Wle ps y == Wle ps' y.
Proof.
  intros ps ps' y P. induction P as [|[x w] l l' P IH|[x w] [x' w'] l|l l' l'' P1 IH1 P2 IH2].
  - reflexivity.
  - rewrite !Wle_cons, IH. reflexivity.
  - rewrite !Wle_cons. ring.
  - rewrite IH1. exact IH2.
Qed.

Lemma Wle_le_total : forall ps y, nonneg ps -> Wle ps y <= totw ps.
Proof.
  induction ps as [|[x w] tl IH]; intros y H; [unfold Wle, totw; simpl; lra|].
  inversion H; subst. simpl in *. rewrite Wle_cons. specialize (IH y H3).
  unfold totw in *. simpl. destruct (Qle_bool x y); lra.
Qed.

(* the characterisation of the result, in terms of the multiset only *)
Inductive wq_char (ps : list (Q * Q)) (t : Q) (v : Q) : Prop :=
| WQ_exceeds :
    (exists w, In (v, w) ps) -> t < Wle ps v ->
    (forall p, In p ps -> fst p < v -> Wle ps (fst p) <= t) -> wq_char ps t v
| WQ_none :
    (exists w, In (v, w) ps) -> (forall y, Wle ps y <= t) ->
    (forall p, In p ps -> fst p <= v) -> wq_char ps t v.

Lemma psorted_head_le : forall x w tl p, psorted ((x, w) :: tl) -> In p tl -> x <= fst p.
Proof.
  intros x w tl p S Hp. inversion S as [|? ? S' F]; subst.
  rewrite Forall_forall in F. apply (F p Hp).
Qed.

Lemma wscan_comp_t : forall ps t t' l, t == t' -> wscan ps t l = wscan ps t' l.
Proof.
  induction ps as [|[x w] tl IH]; intros t t' l E; [reflexivity|].
  cbn [wscan]. cbv zeta.
  assert (E' : Qred (t - w) == Qred (t' - w)) by (rewrite !Qred_correct, E; reflexivity).
  rewrite (Qltb_comp_l _ _ 0 E'). destruct (Qltb (Qred (t' - w)) 0); [reflexivity|].
  apply IH. exact E'.
Qed.

(* the scan on an ascending pair list with non-negative weights computes the characterised value *)
Lemma wscan_char : forall ps t lastx v, psorted ps -> nonneg ps ->
  wscan ps t lastx = Some v -> (ps = [] /\ lastx = Some v) \/ wq_char ps t v.
Proof.
  induction ps as [|[x w] tl IH]; intros t lastx v S N H; [left; split; [reflexivity|exact H]|].
  right. cbn [wscan] in H. cbv zeta in H.
  rewrite (Qltb_comp_l _ _ 0 (Qred_correct (t - w))) in H.
  inversion N as [|? ? Hw Ntl]; subst. simpl in Hw.
  assert (Stl : psorted tl) by (inversion S; assumption).
  destruct (Qltb (t - w) 0) eqn:E.
  - (* the head already exceeds *)
    apply Qltb_true in E. inversion H; subst v. apply WQ_exceeds.
    + exists w. left. reflexivity.
    + rewrite Wle_cons. assert (Qle_bool x x = true) by (apply Qle_bool_iff; lra). rewrite H0.
      pose proof (Wle_nonneg tl x Ntl). lra.
    + intros p [<-|Hp] Hlt; simpl in Hlt; [lra|].
      pose proof (psorted_head_le x w tl p S Hp). lra.
  - apply Qltb_false in E.
    rewrite (wscan_comp_t tl _ (t - w) _ (Qred_correct (t - w))) in H.
    destruct (IH (t - w) (Some x) v Stl Ntl H) as [[Enil El]|C].
    + (* single element, nothing exceeds *)
      subst tl. inversion El; subst v. apply WQ_none.
      * exists w. left. reflexivity.
      * intro y. rewrite Wle_cons. unfold Wle at 1. simpl. destruct (Qle_bool x y); lra.
      * intros p [<-|[]]. simpl. lra.
    + destruct C as [[wv Hin] Hex Hlow|[wv Hin] Hall Hmax].
      * apply WQ_exceeds.
        -- exists wv. right. exact Hin.
        -- rewrite Wle_cons. pose proof (psorted_head_le x w tl (v, wv) S Hin) as Hxv. simpl in Hxv.
           apply Qle_bool_iff in Hxv. rewrite Hxv. lra.
        -- intros p [<-|Hp] Hlt; simpl in Hlt.
           ++ (* the head itself, x < v *)
              simpl fst. rewrite Wle_cons.
              assert (Qle_bool x x = true) by (apply Qle_bool_iff; lra). rewrite H0.
              assert (B : Wle tl x <= t - w).
              { destruct tl as [|[x1 w1] r]; [unfold Wle; simpl; lra|].
                pose proof (psorted_head_le x w _ (x1, w1) S (or_introl eq_refl)) as L1. simpl in L1.
                destruct (Qle_bool x1 x) eqn:E1.
                - apply Qle_bool_iff in E1. assert (Ex : x1 == x) by lra.
                  rewrite <- (Wle_comp _ x1 x Ex). apply (Hlow (x1, w1)); [left; reflexivity|simpl; lra].
                - (* every remaining value is > x *)
                  apply Qle_bool_false in E1.
                  assert (Z : forall l : list (Q * Q), Forall (fun p => x < fst p) l -> Wle l x == 0).
                  { induction l as [|[a b] l' IHl]; intro F; [reflexivity|].
                    inversion F as [|? ? Fa Fl]; subst. simpl in Fa. rewrite Wle_cons.
                    assert (Ea : Qle_bool a x = false) by (apply Qle_bool_false; exact Fa).
                    rewrite Ea, (IHl Fl). ring. }
                  rewrite Z; [lra|]. constructor; [simpl; exact E1|].
                  inversion Stl as [|? ? S2 F2]; subst. rewrite Forall_forall in *.
                  intros p Hp. specialize (F2 p Hp). simpl in F2. lra. }
              lra.
           ++ rewrite Wle_cons. pose proof (psorted_head_le x w tl p S Hp) as Hxp.
              apply Qle_bool_iff in Hxp. rewrite Hxp. specialize (Hlow p Hp Hlt). lra.
      * apply WQ_none.
        -- exists wv. right. exact Hin.
        -- intro y. rewrite Wle_cons. specialize (Hall y). destruct (Qle_bool x y); lra.
        -- intros p [<-|Hp]; [|apply Hmax; exact Hp].
           simpl. apply (psorted_head_le x w tl (v, wv) S Hin).
Qed.

(* two values characterised for the same multiset and targets t <= t' are ordered *)
Lemma wq_char_mono : forall ps ps' t t' v v', Permutation ps ps' -> t <= t' ->
  wq_char ps t v -> wq_char ps' t' v' -> v <= v'.
Proof.
  intros ps ps' t t' v v' P Ht C C'.
  apply Qnot_lt_le. intro Hlt.
  destruct C' as [[w' Hin'] Hex' Hlow'|[w' Hin'] Hall' Hmax'].
  - destruct C as [[w Hin] Hex Hlow|[w Hin] Hall Hmax].
    + assert (Hin2 : In (v', w') ps) by (eapply Permutation_in; [apply Permutation_sym; exact P|exact Hin']).
      specialize (Hlow (v', w') Hin2 Hlt). simpl in Hlow.
      rewrite (Wle_perm _ _ v' P) in Hlow. lra.
    + specialize (Hall v'). rewrite (Wle_perm _ _ v' P) in Hall. lra.
  - destruct C as [[w Hin] _ _|[w Hin] _ _];
      assert (Hin2 : In (v, w) ps') by (eapply Permutation_in; [exact P|exact Hin]);
      specialize (Hmax' (v, w) Hin2); simpl in Hmax'; lra.
Qed.

Lemma wq_char_unique : forall ps ps' t v v', Permutation ps ps' ->
  wq_char ps t v -> wq_char ps' t v' -> v == v'.
Proof.
  intros ps ps' t v v' P C C'. apply Qle_antisym.
  - eapply wq_char_mono; [exact P|apply Qle_refl|exact C|exact C'].
  - eapply wq_char_mono; [apply Permutation_sym; exact P|apply Qle_refl|exact C'|exact C].
Qed.

Lemma wq_char_comp_t : forall ps t t' v, t == t' -> wq_char ps t v -> wq_char ps t' v.
Proof.
  intros ps t t' v E [H1 H2 H3|H1 H2 H3].
  - apply WQ_exceeds; [exact H1|rewrite <- E; exact H2|intros p Hp Hl; rewrite <- E; apply H3; assumption].
  - apply WQ_none; [exact H1|intro y; rewrite <- E; apply H2|exact H3].
Qed.

(* ---------- the model ---------- *)
Lemma Qsum_perm_local : forall a b, Permutation a b -> Qsum a == Qsum b.
Proof. induction 1; simpl; try rewrite IHPermutation; try ring. rewrite IHPermutation1. exact IHPermutation2. Qed.

Lemma totw_perm : forall ps ps', Permutation ps ps' -> totw ps == totw ps'.
Proof. intros ps ps' P. unfold totw. apply Qsum_perm_local, Permutation_map, P. Qed.

Lemma psort_psorted : forall ps, psorted (psort ps).
Proof. intros. apply psort_sorted. Qed.

Lemma nonneg_perm : forall ps ps', Permutation ps ps' -> nonneg ps -> nonneg ps'.
Proof.
  intros ps ps' P N. unfold nonneg in *. rewrite Forall_forall in *. intros p Hp. apply N.
  eapply Permutation_in; [apply Permutation_sym; exact P|exact Hp].
Qed.

Lemma quantile_w_char : forall ps q, ps <> [] -> psorted ps -> nonneg ps ->
  exists v, quantile_w ps q = RVal v /\ wq_char ps (totw ps * q) v.
Proof.
  intros ps q Hne S N. unfold quantile_w.
  destruct (wscan ps (wtotal ps * q) None) as [v|] eqn:E.
  - exists v. split; [reflexivity|].
    destruct (wscan_char ps _ None v S N E) as [[Hn _]|C]; [congruence|].
    eapply wq_char_comp_t; [|exact C]. rewrite wtotal_sum. reflexivity.
  - exfalso. destruct ps as [|[x w] tl]; [congruence|]. cbn [wscan] in E. cbv zeta in E.
    destruct (Qltb _ 0); [discriminate|].
    clear -E. revert E. generalize (Qred (wtotal ((x, w) :: tl) * q - w)). generalize x.
    induction tl as [|[a b] r IH]; intros x0 t E; [discriminate|].
    cbn [wscan] in E. cbv zeta in E. destruct (Qltb _ 0); [discriminate|]. eapply IH. exact E.
Qed.

(* the 0 < q < 1 path of Quantile on a weighted sample, through the sorted pairs *)
Lemma quantile_weighted_mid : forall xs ws st q, xs <> [] -> length ws = length xs ->
  Qle_bool q 0 = false -> Qle_bool 1 q = false -> (st = true -> StronglySorted Qle xs) ->
  nonneg (combine xs ws) ->
  exists v ps, quantile (mkSample xs (Some ws) st) q = RVal v /\
               Permutation ps (combine xs ws) /\ wq_char ps (totw ps * q) v.
Proof.
  intros xs ws st q Hx Hl Q0 Q1 Hs N.
  assert (Hc : combine xs ws <> []).
  { intro E. apply (f_equal (@length (Q * Q))) in E. rewrite combine_length, Hl, Nat.min_id in E.
    destruct xs; [congruence|discriminate]. }
  unfold quantile, quantile_c. cbn [s_xs]. destruct xs as [|x0 t] eqn:Exs; [congruence|]. rewrite <- Exs in *.
  rewrite Q0, Q1. cbn [s_sorted]. destruct st.
  - (* marked Sorted: the pairs as given are ascending *)
    cbn [s_ws s_xs].
    assert (S : psorted (combine xs ws)).
    { specialize (Hs eq_refl). clear -Hs Hl. revert ws Hl. induction Hs as [|a l Hs IH F]; intros [|w wt] Hl; simpl in *; try discriminate; constructor.
      - apply IH. lia.
      - rewrite Forall_forall in *. intros [b c] Hp. simpl. apply F. eapply in_combine_l. exact Hp. }
    destruct (quantile_w_char (combine xs ws) q Hc S N) as [v [E C]].
    exists v, (combine xs ws). split; [exact E|]. split; [apply Permutation_refl|exact C].
  - unfold sample_copy, sample_sort. cbn [s_sorted s_ws s_xs].
    set (ps := psort (combine xs ws)).
    assert (Cs : combine (map fst ps) (map snd ps) = ps).
    { clear. induction ps as [|[a b] r IH]; simpl; [reflexivity|]. rewrite IH. reflexivity. }
    rewrite Cs.
    assert (P : Permutation ps (combine xs ws)) by apply psort_perm.
    assert (Hps : ps <> []).
    { intro E. rewrite E in P. apply Permutation_nil in P. congruence. }
    destruct (quantile_w_char ps q Hps (psort_psorted _) (nonneg_perm _ _ (Permutation_sym P) N)) as [v [E C]].
    exists v, ps. split; [exact E|]. split; [exact P|exact C].
Qed.

(* WEIGHTED: the result depends only on the multiset of (value, weight) pairs: any two
   presentations (any order, marked Sorted when ascending or not) give the same value *)
Lemma weighted_quantile_presentation_invariant : forall xs ws st ys vs st' q,
  xs <> [] -> length ws = length xs -> length vs = length ys ->
  0 < q -> q < 1 ->
  (st = true -> StronglySorted Qle xs) -> (st' = true -> StronglySorted Qle ys) ->
  nonneg (combine xs ws) -> Permutation (combine xs ws) (combine ys vs) ->
  qr_eq (quantile (mkSample xs (Some ws) st) q) (quantile (mkSample ys (Some vs) st') q).
Proof.
  intros xs ws st ys vs st' q Hx Hl Hl' Q0 Q1 Hs Hs' N P.
  assert (A : Qle_bool q 0 = false) by (apply Qle_bool_false; exact Q0).
  assert (B : Qle_bool 1 q = false) by (apply Qle_bool_false; exact Q1).
  assert (Hy : ys <> []).
  { intro E. subst ys. simpl in P. apply Permutation_sym, Permutation_nil in P.
    apply (f_equal (@length (Q * Q))) in P. rewrite combine_length, Hl, Nat.min_id in P.
    destruct xs; [congruence|discriminate]. }
  destruct (quantile_weighted_mid xs ws st q Hx Hl A B Hs N) as [v [ps [E1 [P1 C1]]]].
  destruct (quantile_weighted_mid ys vs st' q Hy Hl' A B Hs' (nonneg_perm _ _ P N)) as [v' [ps' [E2 [P2 C2]]]].
  rewrite E1, E2. simpl.
  assert (PP : Permutation ps ps').
  { eapply Permutation_trans; [exact P1|]. eapply Permutation_trans; [exact P|apply Permutation_sym; exact P2]. }
  eapply wq_char_unique; [exact PP|exact C1|].
  eapply wq_char_comp_t; [|exact C2]. rewrite (totw_perm _ _ PP). reflexivity.
Qed.

(* WEIGHTED: non-decreasing in q (non-negative weights, at least one positive is not needed) *)
Lemma weighted_quantile_monotone_in_q : forall xs ws st q1 q2 v1 v2,
  xs <> [] -> length ws = length xs -> 0 < q1 -> q1 <= q2 -> q2 < 1 ->
  (st = true -> StronglySorted Qle xs) -> nonneg (combine xs ws) ->
  quantile (mkSample xs (Some ws) st) q1 = RVal v1 ->
  quantile (mkSample xs (Some ws) st) q2 = RVal v2 -> v1 <= v2.
Proof.
  intros xs ws st q1 q2 v1 v2 Hx Hl Q0 Hq Q1 Hs N E1 E2.
  assert (A1 : Qle_bool q1 0 = false) by (apply Qle_bool_false; exact Q0).
  assert (B1 : Qle_bool 1 q1 = false) by (apply Qle_bool_false; lra).
  assert (A2 : Qle_bool q2 0 = false) by (apply Qle_bool_false; lra).
  assert (B2 : Qle_bool 1 q2 = false) by (apply Qle_bool_false; exact Q1).
  destruct (quantile_weighted_mid xs ws st q1 Hx Hl A1 B1 Hs N) as [u1 [ps1 [F1 [P1 C1]]]].
  destruct (quantile_weighted_mid xs ws st q2 Hx Hl A2 B2 Hs N) as [u2 [ps2 [F2 [P2 C2]]]].
  rewrite F1 in E1. rewrite F2 in E2. inversion E1; inversion E2; subst u1 u2.
  assert (PP : Permutation ps1 ps2) by (eapply Permutation_trans; [exact P1|apply Permutation_sym; exact P2]).
  eapply (wq_char_mono ps1 ps2 (totw ps1 * q1) (totw ps2 * q2)); [exact PP| |exact C1|exact C2].
  rewrite <- (totw_perm _ _ PP).
  assert (0 <= totw ps1).
  { pose proof (Wle_nonneg ps1 0 (nonneg_perm _ _ (Permutation_sym P1) N)).
    pose proof (Wle_le_total ps1 0 (nonneg_perm _ _ (Permutation_sym P1) N)). lra. }
  nra.
Qed.

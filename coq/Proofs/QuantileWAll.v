(* Proofs/QuantileWAll.v — (group hL) the weighted Quantile for ALL q.
   For q <= 0 / q >= 1 Sample.Quantile returns the weighted Bounds (sample.go:282-289): the least /
   greatest value carrying a non-zero weight, NaN when nothing carries weight.  Composed with the
   weighted-Bounds theorems of C09 (Proofs/Sample.v: weighted_bounds_unsorted, weighted_bounds_sorted_flag)
   and with the 0 < q < 1 theorems of Proofs/QuantileW.v this gives, for EVERY q:
     - the result depends only on the multiset of (value, weight) pairs (any order, Sorted flag or not),
     - it is non-decreasing in q. *)
From MM Require Import Base.Num Base.GASort Model.Stream Proofs.Stream Model.Sample Model.Quantile Spec.Quantile
  Proofs.Quantile Proofs.QuantileW Proofs.Sample.
From Coq Require Import Qround Lia Lqa Permutation Sorted.
Local Open Scope Q_scope.

(* ---------- obounds_eq is an equivalence ---------- *)
Lemma obounds_eq_refl a : obounds_eq a a.
Proof. destruct a as [[p q]|]; cbn; [split; reflexivity|exact I]. Qed.
Lemma obounds_eq_sym a b : obounds_eq a b -> obounds_eq b a.
Proof.
  destruct a as [[p q]|], b as [[r s]|]; cbn; try tauto. intros [H1 H2]. split; symmetry; assumption.
Qed.
Lemma obounds_eq_trans a b c : obounds_eq a b -> obounds_eq b c -> obounds_eq a c.
Proof.
  destruct a as [[p q]|], b as [[r s]|], c as [[t u]|]; cbn; try tauto.
  intros [H1 H2] [H3 H4]. split; [rewrite H1; exact H3|rewrite H2; exact H4].
Qed.

(* ---------- the values that carry weight: a function of the multiset ---------- *)
Lemma used_perm ps ps' : Permutation ps ps' -> Permutation (used ps) (used ps').
Proof.
  intro P. unfold used. apply Permutation_map.
  induction P as [|x l l' P IH|x y l|l l' l'' P1 IH1 P2 IH2]; cbn.
  - constructor.
  - destruct (nzw x); [constructor; exact IH|exact IH].
  - destruct (nzw x), (nzw y); try apply Permutation_refl. apply perm_swap.
  - eapply Permutation_trans; eassumption.
Qed.

Lemma in_used ps x w : In (x, w) ps -> ~ w == 0 -> In x (used ps).
Proof.
  intros Hin Hw. unfold used. apply in_map_iff. exists (x, w). split; [reflexivity|].
  apply filter_In. split; [exact Hin|]. unfold nzw. cbn.
  destruct (Qeq_bool w 0) eqn:E; [|reflexivity]. apply Qeq_bool_iff in E. contradiction.
Qed.
Lemma used_in ps x : In x (used ps) -> exists w, In (x, w) ps /\ ~ w == 0.
Proof.
  unfold used. intro H. apply in_map_iff in H. destruct H as ([a w] & <- & Hf).
  apply filter_In in Hf. destruct Hf as [Hin Hn]. exists w. split; [exact Hin|].
  unfold nzw in Hn. cbn in Hn. intro E. apply Qeq_bool_iff in E. rewrite E in Hn. discriminate.
Qed.

(* ---------- weighted Bounds, any presentation ---------- *)
Lemma wbounds_any_flag xs ws st : xs <> [] -> length ws = length xs -> (st = true -> StronglySorted Qle xs) ->
  obounds_eq (sample_bounds (mkSample xs (Some ws) st)) (bounds (used (combine xs ws))).
Proof.
  intros Hx Hl Hs. destruct st.
  - eapply obounds_eq_trans; [apply (weighted_bounds_sorted_flag xs ws Hx Hl (Hs eq_refl))|].
    rewrite (weighted_bounds_unsorted xs ws Hx). apply obounds_eq_refl.
  - rewrite (weighted_bounds_unsorted xs ws Hx). apply obounds_eq_refl.
Qed.

Lemma perm_combine_nonempty (xs ws ys vs : list Q) : xs <> [] -> length ws = length xs ->
  Permutation (combine xs ws) (combine ys vs) -> ys <> [].
Proof.
  intros Hx Hl P E. subst ys. cbn in P. apply Permutation_sym, Permutation_nil in P.
  apply (f_equal (@length (Q * Q))) in P. rewrite combine_length, Hl, Nat.min_id in P.
  destruct xs; [congruence|discriminate].
Qed.

(* WEIGHTED BOUNDS depend only on the multiset of (value, weight) pairs *)
Theorem weighted_bounds_presentation_invariant : forall xs ws st ys vs st',
  xs <> [] -> length ws = length xs -> length vs = length ys ->
  (st = true -> StronglySorted Qle xs) -> (st' = true -> StronglySorted Qle ys) ->
  Permutation (combine xs ws) (combine ys vs) ->
  obounds_eq (sample_bounds (mkSample xs (Some ws) st)) (sample_bounds (mkSample ys (Some vs) st')).
Proof.
  intros xs ws st ys vs st' Hx Hl Hl' Hs Hs' P.
  pose proof (perm_combine_nonempty xs ws ys vs Hx Hl P) as Hy.
  eapply obounds_eq_trans; [apply (wbounds_any_flag xs ws st Hx Hl Hs)|].
  eapply obounds_eq_trans; [|apply obounds_eq_sym, (wbounds_any_flag ys vs st' Hy Hl' Hs')].
  apply bounds_same_elements. intro x. pose proof (used_perm _ _ P) as PU.
  split; intro H; [eapply Permutation_in; [exact PU|exact H]|eapply Permutation_in; [apply Permutation_sym; exact PU|exact H]].
Qed.

(* ---------- Quantile at the ends is Bounds ---------- *)
Lemma quantile_lo_end s q : s_xs s <> [] -> Qle_bool q 0 = true ->
  quantile s q = match sample_bounds s with Some (mn, _) => RVal mn | None => RNaN end.
Proof.
  intros Hx Q0. unfold quantile, quantile_c. destruct (s_xs s); [congruence|]. rewrite Q0. reflexivity.
Qed.
Lemma quantile_hi_end s q : s_xs s <> [] -> Qle_bool q 0 = false -> Qle_bool 1 q = true ->
  quantile s q = match sample_bounds s with Some (_, mx) => RVal mx | None => RNaN end.
Proof.
  intros Hx Q0 Q1. unfold quantile, quantile_c. destruct (s_xs s); [congruence|]. rewrite Q0, Q1. reflexivity.
Qed.

(* WEIGHTED, q <= 0 / q >= 1: the least / greatest value carrying a non-zero weight; NaN when
   nothing carries weight *)
Theorem weighted_quantile_ends : forall xs ws st q, xs <> [] -> length ws = length xs ->
  (st = true -> StronglySorted Qle xs) -> q <= 0 \/ 1 <= q ->
  match used (combine xs ws) with
  | [] => quantile (mkSample xs (Some ws) st) q = RNaN
  | u => exists v, quantile (mkSample xs (Some ws) st) q = RVal v /\
                   (q <= 0 -> is_min v u) /\ (0 < q -> is_max v u)
  end.
Proof.
  intros xs ws st q Hx Hl Hs Hq.
  pose proof (wbounds_any_flag xs ws st Hx Hl Hs) as B.
  assert (Hxs : s_xs (mkSample xs (Some ws) st) <> []) by exact Hx.
  destruct (used (combine xs ws)) as [|y r] eqn:Eu.
  - cbn in B. destruct (sample_bounds (mkSample xs (Some ws) st)) as [[a b]|] eqn:Eb; [contradiction|].
    destruct (Qle_bool q 0) eqn:Q0.
    + rewrite (quantile_lo_end _ q Hxs Q0), Eb. reflexivity.
    + assert (Q1 : Qle_bool 1 q = true).
      { apply Qle_bool_false in Q0. destruct Hq as [Hq|Hq]; [lra|apply Qle_bool_iff; exact Hq]. }
      rewrite (quantile_hi_end _ q Hxs Q0 Q1), Eb. reflexivity.
  - destruct (bounds (y :: r)) as [[mn mx]|] eqn:Ebu; [|discriminate].
    destruct (sample_bounds (mkSample xs (Some ws) st)) as [[a b]|] eqn:Eb; [|contradiction].
    cbn in B. destruct B as [Ea Eb'].
    destruct (bounds_spec _ _ _ Ebu) as ((I1 & L1) & (I2 & L2)).
    destruct (Qle_bool q 0) eqn:Q0.
    + rewrite (quantile_lo_end _ q Hxs Q0), Eb. exists a. split; [reflexivity|]. split.
      * intros _. split; [exists mn; split; [exact I1|symmetry; exact Ea]|].
        intros z Hz. rewrite Ea. apply L1. exact Hz.
      * intro Hp. apply Qle_bool_iff in Q0. lra.
    + assert (Q0' : 0 < q) by (apply Qle_bool_false; exact Q0).
      assert (Q1 : Qle_bool 1 q = true) by (destruct Hq as [Hq|Hq]; [lra|apply Qle_bool_iff; exact Hq]).
      rewrite (quantile_hi_end _ q Hxs Q0 Q1), Eb. exists b. split; [reflexivity|]. split.
      * intro Hn. lra.
      * intros _. split; [exists mx; split; [exact I2|symmetry; exact Eb']|].
        intros z Hz. rewrite Eb'. apply L2. exact Hz.
Qed.

(* WEIGHTED, EVERY q: the result depends only on the multiset of (value, weight) pairs: any two
   presentations (any order, marked Sorted when ascending or not) give the same value *)
Theorem weighted_quantile_presentation_invariant_all : forall xs ws st ys vs st' q,
  xs <> [] -> length ws = length xs -> length vs = length ys ->
  (st = true -> StronglySorted Qle xs) -> (st' = true -> StronglySorted Qle ys) ->
  nonneg (combine xs ws) -> Permutation (combine xs ws) (combine ys vs) ->
  qr_eq (quantile (mkSample xs (Some ws) st) q) (quantile (mkSample ys (Some vs) st') q).
Proof.
  intros xs ws st ys vs st' q Hx Hl Hl' Hs Hs' N P.
  pose proof (perm_combine_nonempty xs ws ys vs Hx Hl P) as Hy.
  pose proof (weighted_bounds_presentation_invariant xs ws st ys vs st' Hx Hl Hl' Hs Hs' P) as B.
  assert (Hxs : s_xs (mkSample xs (Some ws) st) <> []) by exact Hx.
  assert (Hys : s_xs (mkSample ys (Some vs) st') <> []) by exact Hy.
  destruct (Qle_bool q 0) eqn:Q0; [|destruct (Qle_bool 1 q) eqn:Q1].
  - rewrite (quantile_lo_end _ q Hxs Q0), (quantile_lo_end _ q Hys Q0).
    destruct (sample_bounds (mkSample xs (Some ws) st)) as [[a b]|],
             (sample_bounds (mkSample ys (Some vs) st')) as [[c d]|]; cbn in *; tauto.
  - rewrite (quantile_hi_end _ q Hxs Q0 Q1), (quantile_hi_end _ q Hys Q0 Q1).
    destruct (sample_bounds (mkSample xs (Some ws) st)) as [[a b]|],
             (sample_bounds (mkSample ys (Some vs) st')) as [[c d]|]; cbn in *; tauto.
  - apply weighted_quantile_presentation_invariant; try assumption; apply Qle_bool_false; assumption.
Qed.

(* ---------- a mid-range result lies between the weighted Bounds ---------- *)
Lemma totw_cons x w tl : totw ((x, w) :: tl) == w + totw tl.
Proof. unfold totw. cbn. reflexivity. Qed.

Lemma Wle_zero ps y : (forall p, In p ps -> fst p <= y -> snd p == 0) -> Wle ps y == 0.
Proof.
  induction ps as [|[x w] tl IH]; intro H; [reflexivity|].
  rewrite Wle_cons. rewrite IH by (intros p Hp; apply H; right; exact Hp).
  destruct (Qle_bool x y) eqn:E; [|ring].
  apply Qle_bool_iff in E. pose proof (H (x, w) (or_introl eq_refl) E) as Z. cbn in Z. rewrite Z. ring.
Qed.
Lemma Wle_total ps y : (forall p, In p ps -> y < fst p -> snd p == 0) -> Wle ps y == totw ps.
Proof.
  induction ps as [|[x w] tl IH]; intro H; [reflexivity|].
  rewrite Wle_cons, totw_cons. rewrite IH by (intros p Hp; apply H; right; exact Hp).
  destruct (Qle_bool x y) eqn:E; [reflexivity|].
  apply Qle_bool_false in E. pose proof (H (x, w) (or_introl eq_refl) E) as Z. cbn in Z. rewrite Z. ring.
Qed.
Lemma totw_nonneg ps : nonneg ps -> 0 <= totw ps.
Proof.
  induction ps as [|[x w] tl IH]; intro N; [unfold totw; cbn; lra|].
  inversion N as [|? ? Hw Ntl]; subst. cbn in Hw. rewrite totw_cons. specialize (IH Ntl). lra.
Qed.
Lemma totw_pos ps x w : nonneg ps -> In (x, w) ps -> ~ w == 0 -> 0 < totw ps.
Proof.
  induction ps as [|[a b] tl IH]; intros N Hin Hw; [destruct Hin|].
  inversion N as [|? ? Hb Ntl]; subst. cbn in Hb. rewrite totw_cons.
  pose proof (totw_nonneg tl Ntl) as T.
  destruct Hin as [E|Hin].
  - injection E as -> ->. assert (0 < w) by (destruct (Qlt_le_dec 0 w) as [L|L]; [exact L|exfalso; apply Hw; lra]). lra.
  - specialize (IH Ntl Hin Hw). lra.
Qed.

Lemma wq_char_between_used ps t q v mn mx : nonneg ps -> t == totw ps * q -> 0 < q -> q < 1 ->
  bounds (used ps) = Some (mn, mx) -> wq_char ps t v -> mn <= v /\ v <= mx.
Proof.
  intros N Et Q0 Q1 Eb C.
  destruct (bounds_spec _ _ _ Eb) as ((I1 & L1) & (I2 & L2)).
  destruct (used_in _ _ I2) as (wmx & Imx & Wmx).
  pose proof (totw_pos ps mx wmx N Imx Wmx) as Tp.
  assert (Tq : totw ps * q < totw ps) by nra.
  assert (T0 : 0 <= totw ps * q) by nra.
  (* every pair beyond mx has weight zero *)
  assert (Zhi : forall p, In p ps -> mx < fst p -> snd p == 0).
  { intros [a b] Hp Hlt. cbn in *. destruct (Qeq_dec b 0) as [E|E]; [exact E|].
    pose proof (L2 a (in_used ps a b Hp E)). lra. }
  assert (Zlo : forall y, y < mn -> forall p, In p ps -> fst p <= y -> snd p == 0).
  { intros y Hy [a b] Hp Hle. cbn in *. destruct (Qeq_dec b 0) as [E|E]; [exact E|].
    pose proof (L1 a (in_used ps a b Hp E)). lra. }
  destruct C as [[w Hin] Hex Hlow|[w Hin] Hall Hmax].
  - split.
    + apply Qnot_lt_le. intro Hlt. rewrite (Wle_zero ps v (Zlo v Hlt)) in Hex. lra.
    + apply Qnot_lt_le. intro Hlt. specialize (Hlow (mx, wmx) Imx Hlt). cbn in Hlow.
      rewrite (Wle_total ps mx Zhi) in Hlow. lra.
  - exfalso. specialize (Hall mx). rewrite (Wle_total ps mx Zhi) in Hall. lra.
Qed.

Lemma weighted_mid_between_bounds xs ws st q v mn mx : xs <> [] -> length ws = length xs ->
  0 < q -> q < 1 -> (st = true -> StronglySorted Qle xs) -> nonneg (combine xs ws) ->
  quantile (mkSample xs (Some ws) st) q = RVal v ->
  sample_bounds (mkSample xs (Some ws) st) = Some (mn, mx) -> mn <= v /\ v <= mx.
Proof.
  intros Hx Hl Q0 Q1 Hs N Ev Eb.
  assert (A : Qle_bool q 0 = false) by (apply Qle_bool_false; exact Q0).
  assert (B : Qle_bool 1 q = false) by (apply Qle_bool_false; exact Q1).
  destruct (quantile_weighted_mid xs ws st q Hx Hl A B Hs N) as (u & ps & Eu & P & C).
  rewrite Eu in Ev. injection Ev as ->.
  pose proof (wbounds_any_flag xs ws st Hx Hl Hs) as OB. rewrite Eb in OB.
  destruct (bounds (used (combine xs ws))) as [[mn' mx']|] eqn:Ebu; [|contradiction].
  cbn in OB. destruct OB as [E1 E2].
  pose proof (bounds_same_elements (used ps) (used (combine xs ws))) as SE.
  assert (SE' : obounds_eq (bounds (used ps)) (bounds (used (combine xs ws)))).
  { apply SE. intro x. pose proof (used_perm _ _ P) as PU.
    split; intro H; [eapply Permutation_in; [exact PU|exact H]|eapply Permutation_in; [apply Permutation_sym; exact PU|exact H]]. }
  rewrite Ebu in SE'. destruct (bounds (used ps)) as [[mn'' mx'']|] eqn:Ebp; [|contradiction].
  cbn in SE'. destruct SE' as [F1 F2].
  destruct (wq_char_between_used ps (totw ps * q) q v mn'' mx'' (nonneg_perm _ _ (Permutation_sym P) N)
              ltac:(reflexivity) Q0 Q1 Ebp C) as [G1 G2].
  split; lra.
Qed.

(* WEIGHTED, EVERY q: non-decreasing in q (non-negative weights) *)
Theorem weighted_quantile_monotone_all : forall xs ws st q1 q2 v1 v2,
  xs <> [] -> length ws = length xs -> q1 <= q2 ->
  (st = true -> StronglySorted Qle xs) -> nonneg (combine xs ws) ->
  quantile (mkSample xs (Some ws) st) q1 = RVal v1 ->
  quantile (mkSample xs (Some ws) st) q2 = RVal v2 -> v1 <= v2.
Proof.
  intros xs ws st q1 q2 v1 v2 Hx Hl Hq Hs N E1 E2.
  set (s := mkSample xs (Some ws) st) in *.
  assert (Hxs : s_xs s <> []) by exact Hx.
  (* the bounds are ordered *)
  assert (BO : forall mn mx, sample_bounds s = Some (mn, mx) -> mn <= mx).
  { intros mn mx Eb. pose proof (wbounds_any_flag xs ws st Hx Hl Hs) as OB. fold s in OB. rewrite Eb in OB.
    destruct (bounds (used (combine xs ws))) as [[mn' mx']|] eqn:Ebu; [|contradiction].
    cbn in OB. destruct OB as [F1 F2]. destruct (bounds_spec _ _ _ Ebu) as ((I1 & L1) & (I2 & L2)).
    pose proof (L1 mx' I2). lra. }
  destruct (Qle_bool q1 0) eqn:A1.
  - (* q1 <= 0: v1 is the lower bound *)
    rewrite (quantile_lo_end s q1 Hxs A1) in E1.
    destruct (sample_bounds s) as [[mn mx]|] eqn:Eb; [|discriminate]. injection E1 as <-.
    destruct (Qle_bool q2 0) eqn:A2.
    + rewrite (quantile_lo_end s q2 Hxs A2), Eb in E2. injection E2 as <-. lra.
    + destruct (Qle_bool 1 q2) eqn:B2.
      * rewrite (quantile_hi_end s q2 Hxs A2 B2), Eb in E2. injection E2 as <-. apply BO. reflexivity.
      * apply Qle_bool_false in A2. apply Qle_bool_false in B2.
        exact (proj1 (weighted_mid_between_bounds xs ws st q2 v2 mn mx Hx Hl A2 B2 Hs N E2 Eb)).
  - destruct (Qle_bool 1 q1) eqn:B1.
    + (* q1 >= 1: so is q2 *)
      assert (A2 : Qle_bool q2 0 = false).
      { apply Qle_bool_false. apply Qle_bool_false in A1. lra. }
      assert (B2 : Qle_bool 1 q2 = true).
      { apply Qle_bool_iff. apply Qle_bool_iff in B1. lra. }
      rewrite (quantile_hi_end s q1 Hxs A1 B1) in E1. rewrite (quantile_hi_end s q2 Hxs A2 B2) in E2.
      destruct (sample_bounds s) as [[mn mx]|]; [|discriminate]. injection E1 as <-. injection E2 as <-. lra.
    + pose proof A1 as A1'. pose proof B1 as B1'. apply Qle_bool_false in A1'. apply Qle_bool_false in B1'.
      assert (A2 : Qle_bool q2 0 = false) by (apply Qle_bool_false; lra).
      destruct (Qle_bool 1 q2) eqn:B2.
      * rewrite (quantile_hi_end s q2 Hxs A2 B2) in E2.
        destruct (sample_bounds s) as [[mn mx]|] eqn:Eb; [|discriminate]. injection E2 as <-.
        exact (proj2 (weighted_mid_between_bounds xs ws st q1 v1 mn mx Hx Hl A1' B1' Hs N E1 Eb)).
      * apply Qle_bool_false in B2.
        exact (weighted_quantile_monotone_in_q xs ws st q1 q2 v1 v2 Hx Hl A1' Hq B2 Hs N E1 E2).
Qed.

Print Assumptions weighted_quantile_presentation_invariant_all.
Print Assumptions weighted_quantile_monotone_all.
Print Assumptions weighted_quantile_ends.

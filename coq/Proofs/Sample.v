(* Proofs/Sample.v — theorems about the descriptive statistics of Model/Sample.v (C09).
   The Welford loops of Mean/Variance are step for step the Add of StreamStats, so the loop
   invariant proved for C13 (Proofs/Stream.v) is reused. *)
From MM Require Import Base.Num Base.GASort Model.Stream Proofs.Stream Model.Sample Spec.Sample.
From Coq Require Import Permutation Sorted Field Lqa Setoid Morphisms NArith Nnat Lia.
Local Open Scope Q_scope.

(* ====================================================================== *)
(* Mean and Variance = iterated StreamStats.Add                             *)
(* ====================================================================== *)
Lemma QofN_succ : forall n, QofN (N.of_nat n + 1) = Qofnat (S n).
Proof. intros n. unfold QofN, Qofnat. f_equal. lia. Qed.

Lemma loops_are_stream : forall xs s n, s_count s = N.of_nat n ->
  mean_loop xs n (s_mean s) = s_mean (fold_left s_add xs s) /\
  var_loop xs n (s_mean s) (s_m2 s) = (s_mean (fold_left s_add xs s), s_m2 (fold_left s_add xs s)).
Proof.
  induction xs as [|x t IH]; intros s n Hc; [split; reflexivity|].
  cbn [mean_loop var_loop fold_left]. cbv zeta.
  assert (Hc' : s_count (s_add s x) = N.of_nat (S n)) by (unfold s_add; simpl; rewrite Hc; lia).
  destruct (IH (s_add s x) (S n) Hc') as [A B].
  assert (Em : s_mean (s_add s x) = Qred (s_mean s + (x - s_mean s) / Qofnat (S n))).
  { unfold s_add; simpl. rewrite Hc, QofN_succ. reflexivity. }
  assert (E2 : s_m2 (s_add s x) = Qred (s_m2 s + (x - s_mean s) * (x - Qred (s_mean s + (x - s_mean s) / Qofnat (S n))))).
  { unfold s_add; simpl. rewrite Hc, QofN_succ. reflexivity. }
  rewrite <- Em. split; [exact A|]. rewrite <- Em in E2. rewrite <- E2. exact B.
Qed.

Lemma fold_add_inv : forall xs s ys, Inv s ys -> Inv (fold_left s_add xs s) (ys ++ xs).
Proof.
  induction xs as [|x t IH]; intros s ys I; simpl.
  - rewrite app_nil_r. exact I.
  - replace (ys ++ x :: t) with ((ys ++ [x]) ++ t) by (rewrite <- app_assoc; reflexivity).
    apply IH. apply add_inv. exact I.
Qed.

Definition stream_of (xs : list Q) : sstate := fold_left s_add xs s_init.
Lemma stream_of_inv : forall xs, Inv (stream_of xs) xs.
Proof. intros xs. apply (fold_add_inv xs s_init [] inv_init). Qed.

(* WELFORD MEAN: the incremental mean is sum/n *)
Lemma welford_mean_eq : forall xs, xs <> [] -> exists m, mean xs = FVal m /\ m == mean_def xs.
Proof.
  intros xs H. unfold mean. destruct xs as [|x0 t] eqn:E; [congruence|]. rewrite <- E in *.
  eexists. split; [reflexivity|].
  destruct (loops_are_stream xs s_init 0 eq_refl) as [A _]. change (s_mean s_init) with 0 in A.
  rewrite A. apply mean_is_batch; [apply stream_of_inv|exact H].
Qed.

(* WELFORD VARIANCE: M2/(n-1) is the sum of squared deviations from the mean over n-1 *)
Lemma welford_var_eq : forall xs, (2 <= length xs)%nat -> exists v, variance xs = FVal v /\ v == var_def xs.
Proof.
  intros xs H. unfold variance. destruct xs as [|x0 [|x1 t]] eqn:E; simpl in H; try lia. rewrite <- E in *.
  eexists. split; [reflexivity|].
  destruct (loops_are_stream xs s_init 0 eq_refl) as [_ B].
  change (s_mean s_init) with 0 in B. change (s_m2 s_init) with 0 in B. rewrite B. simpl snd.
  assert (Hx : xs <> []) by (rewrite E; discriminate).
  rewrite (m2_is_batch _ _ (stream_of_inv xs) Hx). unfold var_def.
  assert (En : Qofnat (length xs - 1) == nQ xs - 1).
  { unfold nQ, Qofnat. assert (L : (1 <= length xs)%nat) by (rewrite E; simpl; lia).
    rewrite Nat2Z.inj_sub by exact L. unfold Z.sub, Qminus. rewrite inject_Z_plus, inject_Z_opp. reflexivity. }
  rewrite En. reflexivity.
Qed.

Lemma variance_small : variance [] = FNaN /\ forall x, variance [x] = FVal 0.
Proof. split; reflexivity. Qed.

(* ====================================================================== *)
(* Sum, Weight                                                              *)
(* ====================================================================== *)
Lemma vsum_eq : forall xs, vsum xs == Qsum xs.
Proof.
  intros xs. unfold vsum.
  assert (G : forall l a, fold_left (fun a x => Qred (a + x)) l a == a + Qsum l).
  { induction l as [|x t IH]; intros a; simpl; [ring|]. rewrite IH. rewrite (Qred_correct (a + x)). ring. }
  rewrite G. ring.
Qed.

Lemma vsum_app : forall a b, vsum (a ++ b) == vsum a + vsum b.
Proof. intros. rewrite !vsum_eq. apply Qsum_app. Qed.

Lemma sample_sum_weighted : forall xs ws st,
  sample_sum (mkSample xs (Some ws) st) == wsum_xw (combine xs ws).
Proof.
  intros xs ws st. unfold sample_sum, wsum_xw. simpl.
  assert (G : forall (l : list (Q * Q)) a, fold_left (fun a p => Qred (a + fst p * snd p)) l a == a + Qsum (map (fun p => fst p * snd p) l)).
  { induction l as [|p t IH]; intros a; simpl; [ring|]. rewrite IH. rewrite (Qred_correct (a + fst p * snd p)). ring. }
  rewrite G. ring.
Qed.

(* ====================================================================== *)
(* weighted mean                                                            *)
(* ====================================================================== *)
Definition nonneg_weights (ps : list (Q * Q)) : Prop := Forall (fun p => 0 <= snd p) ps.

Lemma wsum_xw_cons : forall x w t, wsum_xw ((x, w) :: t) == x * w + wsum_xw t.
Proof. reflexivity. Qed.
Lemma wsum_w_cons : forall (x w : Q) t, wsum_w ((x, w) :: t) == w + wsum_w t.
Proof. reflexivity. Qed.

Lemma nonzero_weight_pos : forall w, 0 <= w -> Qeq_bool w 0 = false -> 0 < w.
Proof.
  intros w Hw E. destruct (Qle_lt_or_eq _ _ Hw) as [L|Eq]; [exact L|].
  assert (Qeq_bool w 0 = true) by (apply Qeq_bool_iff; symmetry; exact Eq). congruence.
Qed.

(* the loop's second result: the total weight (zero weights add nothing) *)
Lemma wmean_loop_wsum : forall ps m wsum, snd (wmean_loop ps m wsum) == wsum + wsum_w ps.
Proof.
  induction ps as [|[x w] t IH]; intros m wsum; cbn [wmean_loop].
  - unfold wsum_w. simpl. ring.
  - rewrite wsum_w_cons. destruct (Qeq_bool w 0) eqn:E.
    + apply Qeq_bool_iff in E. rewrite IH, E. ring.
    + cbv zeta. rewrite IH, Qred_correct. ring.
Qed.

Lemma wmean_loop_eq : forall ps m wsum, nonneg_weights ps -> 0 <= wsum -> 0 < wsum + wsum_w ps ->
  fst (wmean_loop ps m wsum) == (m * wsum + wsum_xw ps) / (wsum + wsum_w ps).
Proof.
  induction ps as [|[x w] t IH]; intros m wsum Hn H0 Hp.
  - unfold wsum_xw, wsum_w in *. simpl in *. field. lra.
  - inversion Hn as [|? ? Hw Ht]; subst. simpl in Hw.
    rewrite wsum_w_cons in Hp. rewrite wsum_xw_cons, wsum_w_cons.
    cbn [wmean_loop]. destruct (Qeq_bool w 0) eqn:E.
    + apply Qeq_bool_iff in E. rewrite IH; [|exact Ht|exact H0|lra].
      rewrite E in *. field. lra.
    + pose proof (nonzero_weight_pos w Hw E) as Hwpos. cbv zeta.
      set (ws' := Qred (wsum + w)). assert (Ews : ws' == wsum + w) by apply Qred_correct.
      set (m' := Qred (m + (x - m) * w / ws')).
      assert (Em : m' == m + (x - m) * w / ws') by apply Qred_correct.
      rewrite IH; [|exact Ht|lra|lra].
      rewrite Em, Ews. field. split; lra.
Qed.

(* Sample.Mean of a weighted non-empty sample: NaN exactly when the total weight is 0 *)
Lemma sample_mean_weighted : forall xs ws st, xs <> [] ->
  sample_mean (mkSample xs (Some ws) st) =
    if Qeq_bool (snd (wmean_loop (combine xs ws) 0 0)) 0 then FNaN else FVal (fst (wmean_loop (combine xs ws) 0 0)).
Proof.
  intros xs ws st Hx. unfold sample_mean. cbn [s_xs s_ws]. destruct xs as [|x0 t]; [congruence|].
  destruct (wmean_loop (combine (x0 :: t) ws) 0 0) as [m wsum]. reflexivity.
Qed.

(* WEIGHTED MEAN: sum(w x)/sum(w) (zero weights contribute nothing), when the total weight is positive *)
Lemma wmean_eq : forall xs ws st, xs <> [] -> nonneg_weights (combine xs ws) -> 0 < wsum_w (combine xs ws) ->
  exists m, sample_mean (mkSample xs (Some ws) st) = FVal m /\ m == wmean_def (combine xs ws).
Proof.
  intros xs ws st Hx Hn Hp. rewrite (sample_mean_weighted xs ws st Hx).
  pose proof (wmean_loop_wsum (combine xs ws) 0 0) as W.
  destruct (Qeq_bool (snd (wmean_loop (combine xs ws) 0 0)) 0) eqn:E.
  { apply Qeq_bool_iff in E. rewrite E in W. lra. }
  eexists. split; [reflexivity|].
  rewrite wmean_loop_eq; [|exact Hn|lra|lra]. unfold wmean_def. field. lra.
Qed.

(* ... and NaN when nothing carries weight (total weight 0), e.g. all weights zero *)
Lemma wmean_nan : forall xs ws st, wsum_w (combine xs ws) == 0 -> sample_mean (mkSample xs (Some ws) st) = FNaN.
Proof.
  intros xs ws st H0. destruct xs as [|x0 t] eqn:E; [reflexivity|]. rewrite <- E in *.
  rewrite (sample_mean_weighted xs ws st ltac:(rewrite E; discriminate)).
  pose proof (wmean_loop_wsum (combine xs ws) 0 0) as W. rewrite H0 in W.
  destruct (Qeq_bool (snd (wmean_loop (combine xs ws) 0 0)) 0) eqn:B; [reflexivity|].
  assert (Qeq_bool (snd (wmean_loop (combine xs ws) 0 0)) 0 = true) by (apply Qeq_bool_iff; rewrite W; ring). congruence.
Qed.

(* ====================================================================== *)
(* order of the data is irrelevant                                          *)
(* ====================================================================== *)
Lemma nQ_perm : forall a b, Permutation a b -> nQ a = nQ b.
Proof. intros a b P. unfold nQ. rewrite (Permutation_length P). reflexivity. Qed.

Lemma mean_def_perm : forall a b, Permutation a b -> mean_def a == mean_def b.
Proof. intros a b P. unfold mean_def. rewrite (Qsum_perm _ _ P), (nQ_perm _ _ P). reflexivity. Qed.

Lemma ssd_center_perm : forall c a b, Permutation a b ->
  Qsum (map (fun x => Qsq (x - c)) a) == Qsum (map (fun x => Qsq (x - c)) b).
Proof. intros c a b P. apply Qsum_perm. apply Permutation_map. exact P. Qed.

Lemma var_def_perm : forall a b, Permutation a b -> var_def a == var_def b.
Proof.
  intros a b P. unfold var_def, ssd_def.
  rewrite (nQ_perm _ _ P). rewrite !ssd_expand.
  unfold Qsumsq. rewrite (Qsum_perm _ _ (Permutation_map Qsq P)).
  rewrite (Qsum_perm _ _ P), (nQ_perm _ _ P), (mean_def_perm _ _ P). reflexivity.
Qed.

Definition fres_eq (a b : fres) : Prop :=
  match a, b with FNaN, FNaN => True | FVal u, FVal v => u == v | FPanic, FPanic => True | _, _ => False end.

Lemma perm_nil_iff : forall (a b : list Q), Permutation a b -> (a = [] <-> b = []).
Proof.
  intros a b P. split; intro H; subst.
  - apply Permutation_nil. exact P.
  - apply Permutation_nil. apply Permutation_sym. exact P.
Qed.

Lemma mean_perm : forall a b, Permutation a b -> fres_eq (mean a) (mean b).
Proof.
  intros a b P. destruct a as [|x0 t] eqn:E.
  - apply Permutation_nil in P. subst. simpl. exact I.
  - rewrite <- E in *. assert (Ha : a <> []) by (rewrite E; discriminate).
    assert (Hb : b <> []) by (intro Hb; apply (perm_nil_iff _ _ P) in Hb; congruence).
    destruct (welford_mean_eq a Ha) as [u [A1 A2]]. destruct (welford_mean_eq b Hb) as [v [B1 B2]].
    rewrite A1, B1. simpl. rewrite A2, B2. apply mean_def_perm. exact P.
Qed.

Lemma variance_perm : forall a b, Permutation a b -> fres_eq (variance a) (variance b).
Proof.
  intros a b P. pose proof (Permutation_length P) as L.
  destruct a as [|x0 [|x1 t]] eqn:E.
  - apply Permutation_nil in P. subst. simpl. exact I.
  - apply Permutation_length_1_inv in P. subst. simpl. reflexivity.
  - rewrite <- E in *. assert (Ha : (2 <= length a)%nat) by (rewrite E; simpl; lia).
    assert (Hb : (2 <= length b)%nat) by lia.
    destruct (welford_var_eq a Ha) as [u [A1 A2]]. destruct (welford_var_eq b Hb) as [v [B1 B2]].
    rewrite A1, B1. simpl. rewrite A2, B2. apply var_def_perm. exact P.
Qed.

Lemma vsum_perm : forall a b, Permutation a b -> vsum a == vsum b.
Proof. intros a b P. rewrite !vsum_eq. apply Qsum_perm. exact P. Qed.

Lemma wsum_xw_perm : forall a b, Permutation a b -> wsum_xw a == wsum_xw b.
Proof. intros a b P. unfold wsum_xw. apply Qsum_perm, Permutation_map, P. Qed.
Lemma wsum_w_perm : forall a b, Permutation a b -> wsum_w a == wsum_w b.
Proof. intros a b P. unfold wsum_w. apply Qsum_perm, Permutation_map, P. Qed.
Lemma wmean_def_perm : forall a b, Permutation a b -> wmean_def a == wmean_def b.
Proof. intros a b P. unfold wmean_def. rewrite (wsum_xw_perm _ _ P), (wsum_w_perm _ _ P). reflexivity. Qed.

(* ====================================================================== *)
(* integer weights = repetition                                             *)
(* ====================================================================== *)
Lemma Qsum_repeat : forall x n, Qsum (repeat x n) == Qofnat n * x.
Proof.
  intros x n. induction n; simpl.
  - unfold Qofnat. simpl. ring.
  - rewrite IHn. unfold Qofnat. rewrite Nat2Z.inj_succ, <- Z.add_1_r, inject_Z_plus. change (inject_Z 1) with 1. ring.
Qed.

Definition nat_pairs (xs : list Q) (ws : list nat) : list (Q * Q) := combine xs (map Qofnat ws).

Lemma repeat_sum : forall xs ws, length ws = length xs ->
  Qsum (repeat_by_weights xs ws) == wsum_xw (nat_pairs xs ws).
Proof.
  induction xs as [|x t IH]; intros [|w wt] H; simpl in *; try discriminate; try reflexivity.
  unfold wsum_xw, nat_pairs in *. simpl. rewrite Qsum_app, Qsum_repeat, IH by lia. ring.
Qed.

Lemma repeat_count : forall xs ws, length ws = length xs ->
  nQ (repeat_by_weights xs ws) == wsum_w (nat_pairs xs ws).
Proof.
  induction xs as [|x t IH]; intros [|w wt] H; simpl in *; try discriminate; try reflexivity.
  unfold wsum_w, nat_pairs in *. simpl. rewrite nQ_app, IH by lia.
  unfold nQ. rewrite repeat_length. reflexivity.
Qed.

(* INT WEIGHTS = REPEAT, the definitions: sum(w x)/sum(w) = mean of the repeated sample, and
   Sum / Weight likewise *)
Lemma int_weights_eq_repeat_def : forall xs ws, length ws = length xs ->
  wsum_xw (nat_pairs xs ws) == Qsum (repeat_by_weights xs ws) /\
  wsum_w (nat_pairs xs ws) == nQ (repeat_by_weights xs ws) /\
  wmean_def (nat_pairs xs ws) == mean_def (repeat_by_weights xs ws).
Proof.
  intros xs ws H. pose proof (repeat_sum xs ws H) as A. pose proof (repeat_count xs ws H) as B.
  split; [symmetry; exact A|]. split; [symmetry; exact B|].
  unfold wmean_def, mean_def. rewrite A, B. reflexivity.
Qed.

Lemma nat_pairs_nonneg : forall xs ws, nonneg_weights (nat_pairs xs ws).
Proof.
  intros xs ws. unfold nonneg_weights, nat_pairs. revert ws.
  induction xs as [|x t IH]; intros [|w wt]; simpl; constructor.
  - simpl. unfold Qofnat. change 0 with (inject_Z 0). rewrite <- Zle_Qle. lia.
  - apply IH.
Qed.

(* ... and the code: Sample.Mean/Sum/Weight of the weighted sample = Mean/Sum/len of the repeated one *)
Lemma int_weights_eq_repeat : forall xs ws st, length ws = length xs ->
  fres_eq (sample_mean (mkSample xs (Some (map Qofnat ws)) st)) (mean (repeat_by_weights xs ws)) /\
  sample_sum (mkSample xs (Some (map Qofnat ws)) st) == vsum (repeat_by_weights xs ws) /\
  sample_weight (mkSample xs (Some (map Qofnat ws)) st) == Qofnat (length (repeat_by_weights xs ws)).
Proof.
  intros xs ws st H.
  destruct (int_weights_eq_repeat_def xs ws H) as [A [B C]].
  split; [|split].
  - destruct (repeat_by_weights xs ws) as [|r0 rt] eqn:Hr.
    + (* all weights zero (or no values): the repeated sample is empty, both are NaN *)
      rewrite (wmean_nan xs (map Qofnat ws) st); [exact I|]. fold (nat_pairs xs ws). rewrite B. reflexivity.
    + rewrite <- Hr in *. assert (Hne : repeat_by_weights xs ws <> []) by (rewrite Hr; discriminate).
      assert (Hx : xs <> []) by (intro E; subst xs; destruct ws; simpl in Hne; congruence).
      assert (Hp : 0 < wsum_w (nat_pairs xs ws)) by (rewrite B; apply nQ_pos; exact Hne).
      destruct (wmean_eq xs (map Qofnat ws) st Hx (nat_pairs_nonneg xs ws) Hp) as [m [M1 M2]].
      destruct (welford_mean_eq _ Hne) as [u [U1 U2]].
      rewrite M1, U1. simpl. rewrite M2, U2. exact C.
  - rewrite sample_sum_weighted, vsum_eq. exact A.
  - unfold sample_weight. simpl. rewrite vsum_eq.
    assert (E : Qsum (map Qofnat ws) == wsum_w (nat_pairs xs ws)).
    { unfold wsum_w, nat_pairs. clear -H. revert ws H.
      induction xs as [|x t IH]; intros [|w wt] H; simpl in *; try discriminate; try reflexivity.
      rewrite IH by lia. reflexivity. }
    rewrite E, B. reflexivity.
Qed.

(* ====================================================================== *)
(* GeoMean: the coefficients of the formal combination sum c_i ln x_i       *)
(* ====================================================================== *)
Lemma Qofnat_S_pos : forall n, 0 < Qofnat (S n).
Proof. intros. unfold Qofnat. change 0 with (inject_Z 0). rewrite <- Zlt_Qlt. lia. Qed.

Lemma Qofnat_S : forall n, Qofnat (S n) == Qofnat n + 1.
Proof. intros. unfold Qofnat. rewrite Nat2Z.inj_succ, <- Z.add_1_r, inject_Z_plus. reflexivity. Qed.

(* unweighted: after all n values every coefficient is 1/n, i.e. GeoMean = exp((1/n) sum ln x_i)
   = (prod x_i)^(1/n) *)
Lemma geo_loop_coeffs : forall xs i cs cs',
  Forall (fun c => c * Qofnat i == 1) cs -> length cs = i ->
  geo_loop xs i cs = Some cs' ->
  Forall (fun c => c * Qofnat (i + length xs) == 1) cs' /\ length cs' = (i + length xs)%nat /\
  Forall (fun x => 0 < x) xs.
Proof.
  induction xs as [|x t IH]; intros i cs cs' Hc Hl H; simpl in H.
  - inversion H; subst. rewrite Nat.add_0_r. repeat split; auto.
  - destruct (Qle_bool x 0) eqn:E; [discriminate|].
    assert (Hx : 0 < x).
    { apply Qnot_le_lt. intro C. apply Qle_bool_iff in C. congruence. }
    apply IH in H.
    + simpl length. replace (i + S (length t))%nat with (S i + length t)%nat by lia.
      destruct H as [A [B C]]. repeat split; auto.
    + apply Forall_app. split.
      * apply Forall_map. eapply Forall_impl; [|exact Hc]. intros c Hc1. cbv beta in *.
        rewrite (Qred_correct (c - c / Qofnat (S i))). pose proof (Qofnat_S_pos i) as P.
        assert (Ec : (c - c / Qofnat (S i)) * Qofnat (S i) == c * (Qofnat (S i) - 1)) by (field; lra).
        rewrite Ec. rewrite Qofnat_S. rewrite <- Hc1. ring.
      * constructor; [|constructor]. rewrite (Qred_correct (1 / Qofnat (S i))). pose proof (Qofnat_S_pos i). field. lra.
    + rewrite app_length, map_length. simpl. lia.
Qed.

Lemma geomean_coeffs : forall xs cs, geomean xs = GExp cs ->
  length cs = length xs /\ Forall (fun c => c == 1 / Qofnat (length xs)) cs /\ Forall (fun x => 0 < x) xs.
Proof.
  intros xs cs H. unfold geomean in H. destruct xs as [|x0 t] eqn:E; [discriminate|]. rewrite <- E in *.
  destruct (geo_loop xs 0 []) as [cs0|] eqn:G; [|discriminate]. inversion H; subst cs0.
  destruct (geo_loop_coeffs xs 0 [] cs (Forall_nil _) eq_refl G) as [A [B C]]. simpl in A, B.
  split; [exact B|]. split; [|exact C].
  eapply Forall_impl; [|exact A]. intros c Hc. cbv beta in Hc.
  assert (P : 0 < Qofnat (length xs)) by (rewrite E; apply Qofnat_S_pos).
  rewrite <- Hc. field. lra.
Qed.

(* NaN exactly for the empty sample or a non-positive value *)
Lemma geomean_nan_iff : forall xs, geomean xs = GNaN <-> xs = [] \/ exists x, In x xs /\ x <= 0.
Proof.
  intros xs. split.
  - intro H. unfold geomean in H. destruct xs as [|x0 t] eqn:E; [left; reflexivity|]. rewrite <- E in *.
    right. destruct (geo_loop xs 0 []) eqn:G; [discriminate|]. clear H E.
    revert G. generalize 0%nat as i. generalize (@nil Q) as cs.
    induction xs as [|x r IH]; intros cs i G; simpl in G; [discriminate|].
    destruct (Qle_bool x 0) eqn:E.
    + exists x. split; [left; reflexivity|apply Qle_bool_iff; exact E].
    + destruct (IH _ _ G) as [y [Hy Ly]]. exists y. split; [right; exact Hy|exact Ly].
  - intros [->|[x [Hx Lx]]]; [reflexivity|].
    unfold geomean. destruct xs as [|x0 t] eqn:E; [reflexivity|]. rewrite <- E in *.
    assert (G : geo_loop xs 0 [] = None).
    { clear E. generalize 0%nat as i. generalize (@nil Q) as cs.
      induction xs as [|y r IH]; intros cs i; [destruct Hx|]. simpl.
      destruct (Qle_bool y 0) eqn:Ey; [reflexivity|].
      destruct Hx as [->|Hx]; [apply Qle_bool_iff in Lx; congruence|]. apply IH. exact Hx. }
    rewrite G. reflexivity.
Qed.

(* weighted: coefficient_i * (total weight so far) = w_i *)
Lemma wgeo_loop_coeffs : forall ps cs wsum ws0 cs' wsum',
  nonneg_weights ps -> 0 <= wsum -> length cs = length ws0 ->
  Forall2 (fun c w => c * wsum == w) cs ws0 ->
  wgeo_loop ps cs wsum = Some (cs', wsum') ->
  Forall2 (fun c w => c * (wsum + wsum_w ps) == w) cs' (ws0 ++ map snd ps) /\ wsum' == wsum + wsum_w ps.
Proof.
  induction ps as [|[x w] t IH]; intros cs wsum ws0 cs' wsum' Hn H0 Hl Hc R; cbn [wgeo_loop map snd] in *.
  - injection R as <- <-. unfold wsum_w. simpl. rewrite app_nil_r. split; [|ring].
    eapply GASort.Forall2_imp; [|exact Hc]. intros c w0 Hcw. cbv beta in *. rewrite <- Hcw. ring.
  - inversion Hn as [|? ? Hw Ht]; subst. simpl in Hw.
    replace (ws0 ++ w :: map snd t) with ((ws0 ++ [w]) ++ map snd t) by (rewrite <- app_assoc; reflexivity).
    destruct (Qeq_bool w 0) eqn:E.
    + apply Qeq_bool_iff in E.
      assert (Ew : wsum + wsum_w ((x, w) :: t) == wsum + wsum_w t) by (unfold wsum_w; simpl; rewrite E; ring).
      destruct (IH (cs ++ [0]) wsum (ws0 ++ [w]) cs' wsum' Ht H0) as [G1 G2]; [| |exact R|].
      * rewrite !app_length. simpl. lia.
      * apply Forall2_app; [exact Hc|]. constructor; [|constructor]. rewrite E. ring.
      * split; [|rewrite G2, Ew; reflexivity].
        eapply GASort.Forall2_imp; [|exact G1]. intros c w0 Hcw. cbv beta in *. rewrite Ew. exact Hcw.
    + destruct (Qle_bool x 0); [discriminate|]. cbv zeta in R.
      pose proof (nonzero_weight_pos w Hw E) as Hwpos.
      set (ws' := Qred (wsum + w)) in *. assert (Ews : ws' == wsum + w) by apply Qred_correct.
      assert (Ew : wsum + wsum_w ((x, w) :: t) == ws' + wsum_w t) by (rewrite wsum_w_cons, Ews; ring).
      destruct (IH (map (fun c => Qred (c - c * w / ws')) cs ++ [Qred (w / ws')]) ws' (ws0 ++ [w]) cs' wsum' Ht) as [G1 G2]; [lra| | |exact R|].
      * rewrite !app_length, map_length. simpl. lia.
      * apply Forall2_app.
        -- clear -Hc Hwpos H0 Ews. clearbody ws'. induction Hc as [|c w0 cs1 ws1 Hcw Hrest IHf]; cbn [map]; constructor; [|exact IHf].
           rewrite (Qred_correct (c - c * w / ws')). rewrite <- Hcw. rewrite Ews. field. lra.
        -- constructor; [|constructor]. rewrite (Qred_correct (w / ws')). rewrite Ews. field. lra.
      * split; [|rewrite G2, Ew; reflexivity].
        eapply GASort.Forall2_imp; [|exact G1]. intros c w0 Hcw. cbv beta in *. rewrite Ew. exact Hcw.
Qed.

(* the early NaN return: exactly when some value <= 0 carries a non-zero weight *)
Definition wnonpos (ps : list (Q * Q)) : Prop := exists x w, In (x, w) ps /\ x <= 0 /\ ~ w == 0.
Lemma wgeo_loop_none_iff : forall ps cs wsum, wgeo_loop ps cs wsum = None <-> wnonpos ps.
Proof.
  induction ps as [|[x w] t IH]; intros cs wsum; cbn [wgeo_loop].
  - split; [discriminate | intros (x & w & [] & _)].
  - destruct (Qeq_bool w 0) eqn:E.
    + rewrite IH. apply Qeq_bool_iff in E. split.
      * intros (x' & w' & I & P). exists x', w'. split; [right; exact I | exact P].
      * intros (x' & w' & [I|I] & P1 & P2); [injection I as <- <-; contradiction | exists x', w'; auto].
    + assert (Nw : ~ w == 0) by (intro C; apply Qeq_bool_iff in C; congruence).
      destruct (Qle_bool x 0) eqn:L.
      * apply Qle_bool_iff in L. split; [intros _; exists x, w; split; [left; reflexivity | split; assumption] | reflexivity].
      * cbv zeta. rewrite IH. assert (Lx : 0 < x) by (apply Qnot_le_lt; intro C; apply Qle_bool_iff in C; congruence). split.
        -- intros (x' & w' & I & P). exists x', w'. split; [right; exact I | exact P].
        -- intros (x' & w' & [I|I] & P1 & P2); [injection I as <- <-; lra | exists x', w'; auto].
Qed.

(* Sample.GeoMean of a weighted non-empty sample, unfolded *)
Lemma sample_geomean_weighted : forall xs ws st, xs <> [] ->
  sample_geomean (mkSample xs (Some ws) st) =
    match wgeo_loop (combine xs ws) [] 0 with
    | None => GNaN
    | Some (cs, wsum) => if Qeq_bool wsum 0 then GNaN else GExp cs
    end.
Proof. intros xs ws st Hx. unfold sample_geomean. cbn [s_xs s_ws]. destruct xs; [congruence | reflexivity]. Qed.

(* weighted GeoMean = exp(sum (w_i/W) ln x_i) = (prod x_i^w_i)^(1/W) *)
Lemma sample_geomean_coeffs : forall xs ws st cs, xs <> [] -> nonneg_weights (combine xs ws) ->
  sample_geomean (mkSample xs (Some ws) st) = GExp cs ->
  Forall2 (fun c w => c * wsum_w (combine xs ws) == w) cs (map snd (combine xs ws)).
Proof.
  intros xs ws st cs Hx Hn H. rewrite (sample_geomean_weighted xs ws st Hx) in H.
  destruct (wgeo_loop (combine xs ws) [] 0) as [[cs' wsum']|] eqn:R; [|discriminate].
  destruct (Qeq_bool wsum' 0); [discriminate|]. injection H as ->.
  destruct (wgeo_loop_coeffs (combine xs ws) [] 0 [] cs wsum' Hn ltac:(lra) eq_refl (Forall2_nil _) R) as [G _].
  simpl in G. eapply GASort.Forall2_imp; [|exact G]. intros c w Hcw. cbv beta in *.
  rewrite <- Hcw. ring.
Qed.

(* weighted GeoMean is NaN EXACTLY when a value <= 0 carries weight or nothing carries weight
   (non-negative weights); a non-positive value of weight zero is ignored *)
Lemma sample_geomean_nan_iff : forall xs ws st, xs <> [] -> nonneg_weights (combine xs ws) ->
  (sample_geomean (mkSample xs (Some ws) st) = GNaN <-> wnonpos (combine xs ws) \/ wsum_w (combine xs ws) == 0).
Proof.
  intros xs ws st Hx Hn. rewrite (sample_geomean_weighted xs ws st Hx).
  destruct (wgeo_loop (combine xs ws) [] 0) as [[cs' wsum']|] eqn:R.
  - destruct (wgeo_loop_coeffs (combine xs ws) [] 0 [] cs' wsum' Hn ltac:(lra) eq_refl (Forall2_nil _) R) as [_ G].
    assert (NP : ~ wnonpos (combine xs ws)).
    { intro C. apply (wgeo_loop_none_iff _ [] 0) in C. congruence. }
    destruct (Qeq_bool wsum' 0) eqn:E.
    + apply Qeq_bool_iff in E. split; [intros _; right; rewrite <- E, G; ring | reflexivity].
    + split; [discriminate|]. intros [C|C]; [contradiction|].
      assert (Qeq_bool wsum' 0 = true) by (apply Qeq_bool_iff; rewrite G, C; ring). congruence.
  - split; [intros _; left; apply (wgeo_loop_none_iff _ [] 0); exact R | reflexivity].
Qed.

(* ====================================================================== *)
(* Sort keeps the pairs; Copy is the identity on contents                   *)
(* ====================================================================== *)
Lemma combine_split_map : forall (ps : list (Q * Q)), combine (map fst ps) (map snd ps) = ps.
Proof. induction ps as [|[a b] r IH]; simpl; [reflexivity|]. rewrite IH. reflexivity. Qed.

(* SORT: the (value, weight) pairs after Sort are a permutation of the pairs before, ascending
   by value; the flag is set *)
Lemma sort_pairs : forall xs ws, length ws = length xs ->
  let s' := sample_sort (mkSample xs (Some ws) false) in
  exists ws', s_ws s' = Some ws' /\ length ws' = length (s_xs s') /\
  Permutation (combine (s_xs s') ws') (combine xs ws) /\
  StronglySorted Qle (s_xs s') /\ s_sorted s' = true.
Proof.
  intros xs ws H. unfold sample_sort. simpl.
  exists (map snd (psort (combine xs ws))). split; [reflexivity|].
  split; [rewrite !map_length; reflexivity|].
  rewrite combine_split_map. split; [apply psort_perm|]. split; [|reflexivity].
  pose proof (psort_sorted (combine xs ws)) as S. induction S as [|p l Hs IH Hf]; simpl; constructor.
  - exact IH.
  - apply Forall_map. exact Hf.
Qed.

Lemma sort_values : forall xs,
  let s' := sample_sort (mkSample xs None false) in
  s_ws s' = None /\ Permutation (s_xs s') xs /\ StronglySorted Qle (s_xs s') /\ s_sorted s' = true.
Proof. intros xs. unfold sample_sort. simpl. repeat split; [apply Qsort_perm|apply Qsort_sorted]. Qed.

(* an already sorted sample is left alone (contents and weights untouched) *)
Lemma sort_sorted_id : forall s, s_sorted s = true -> sample_sort s = s.
Proof. intros s H. unfold sample_sort. rewrite H. reflexivity. Qed.

(* ====================================================================== *)
(* vec                                                                      *)
(* ====================================================================== *)
Lemma linspace_length : forall lo hi num, length (linspace lo hi num) = num.
Proof.
  intros lo hi num. unfold linspace. destruct num as [|[|n]]; try reflexivity.
  rewrite map_length, seq_length. reflexivity.
Qed.

Lemma linspace_one : forall lo hi, linspace lo hi 1 = [lo].
Proof. reflexivity. Qed.

Lemma linspace_nth : forall lo hi num i, (2 <= num)%nat -> (i < num)%nat ->
  nth i (linspace lo hi num) 0 == lo + Qofnat i * (hi - lo) / Qofnat (num - 1).
Proof.
  intros lo hi num i H Hi. unfold linspace. destruct num as [|[|n]]; try lia.
  set (f := fun i0 : nat => Qred (lo + Qofnat i0 * (hi - lo) / Qofnat (S (S n) - 1))).
  rewrite (nth_indep _ 0 (f 0%nat)) by (rewrite map_length, seq_length; exact Hi).
  rewrite (map_nth f (seq 0 (S (S n))) 0%nat i). rewrite seq_nth by exact Hi. unfold f.
  rewrite Qred_correct. reflexivity.
Qed.

(* first value lo, last value hi, evenly spaced *)
Lemma linspace_ends : forall lo hi num, (2 <= num)%nat ->
  nth 0 (linspace lo hi num) 0 == lo /\ nth (num - 1) (linspace lo hi num) 0 == hi.
Proof.
  intros lo hi num H. split.
  - rewrite linspace_nth by lia. unfold Qofnat at 1. simpl inject_Z.
    assert (P : 0 < Qofnat (num - 1)) by (destruct num as [|[|n]]; try lia; apply Qofnat_S_pos).
    field. lra.
  - rewrite linspace_nth by lia.
    assert (P : 0 < Qofnat (num - 1)) by (destruct num as [|[|n]]; try lia; apply Qofnat_S_pos).
    field. lra.
Qed.

Lemma linspace_even : forall lo hi num i, (2 <= num)%nat -> (S i < num)%nat ->
  nth (S i) (linspace lo hi num) 0 - nth i (linspace lo hi num) 0 == (hi - lo) / Qofnat (num - 1).
Proof.
  intros lo hi num i H Hi. rewrite !linspace_nth by lia. rewrite Qofnat_S.
  assert (P : 0 < Qofnat (num - 1)) by (destruct num as [|[|n]]; try lia; apply Qofnat_S_pos).
  field. lra.
Qed.

Lemma vmap_nth : forall f xs i d, (i < length xs)%nat -> nth i (vmap f xs) (f d) = f (nth i xs d).
Proof. intros. unfold vmap. apply map_nth. Qed.
Lemma vmap_length : forall f xs, length (vmap f xs) = length xs.
Proof. intros. apply map_length. Qed.
Lemma vectorize_is_map : forall f xs, vectorize f xs = vmap f xs.
Proof. reflexivity. Qed.
Lemma vconcat_app : forall a b, vconcat (a ++ b) = vconcat a ++ vconcat b.
Proof. intros. apply concat_app. Qed.
Lemma vconcat_cons : forall x r, vconcat (x :: r) = x ++ vconcat r.
Proof. reflexivity. Qed.
Lemma vconcat_length : forall xss, length (vconcat xss) = list_sum (map (@length Q) xss).
Proof. induction xss; simpl; [reflexivity|]. rewrite app_length, IHxss. reflexivity. Qed.

(* ====================================================================== *)
(* Bounds: least / greatest element; Sorted flag; order irrelevant          *)
(* ====================================================================== *)
From MM Require Import Model.Quantile Spec.Quantile Proofs.Quantile.

Lemma bounds_perm : forall a b mn mx mn' mx', Permutation a b ->
  bounds a = Some (mn, mx) -> bounds b = Some (mn', mx') -> mn == mn' /\ mx == mx'.
Proof.
  intros a b mn mx mn' mx' P Ha Hb.
  destruct (bounds_spec a mn mx Ha) as [[I1 L1] [I2 L2]].
  destruct (bounds_spec b mn' mx' Hb) as [[J1 K1] [J2 K2]].
  split; apply Qle_antisym.
  - apply L1. eapply Permutation_in; [apply Permutation_sym; exact P|exact J1].
  - apply K1. eapply Permutation_in; [exact P|exact I1].
  - apply K2. eapply Permutation_in; [exact P|exact I2].
  - apply L2. eapply Permutation_in; [apply Permutation_sym; exact P|exact J2].
Qed.

(* marking ascending data as Sorted: the constant-time path returns the same bounds *)
Lemma bounds_sorted_flag : forall xs mn mx, StronglySorted Qle xs -> bounds xs = Some (mn, mx) ->
  exists a b, sample_bounds (mkSample xs None true) = Some (a, b) /\ a == mn /\ b == mx.
Proof.
  intros xs mn mx Hs Hb. destruct xs as [|x0 t] eqn:E; [discriminate|]. rewrite <- E in *.
  assert (Hne : xs <> []) by (rewrite E; discriminate).
  destruct (bounds_ostat xs mn mx Hb) as [E1 E2]. rewrite (Qsort_id xs Hs) in E1, E2.
  exists (ostat_c xs 1), (ostat_c xs (Z.of_nat (length xs))). split; [|split; symmetry; assumption].
  rewrite ostat_first, (ostat_last xs Hne). rewrite E.
  change (Some (x0, last t x0) = Some (nth 0 (x0 :: t) 0, last (x0 :: t) 0)).
  rewrite last_cons_default. reflexivity.
Qed.

(* ====================================================================== *)
(* histories of Sort / Copy / queries                                       *)
(* ====================================================================== *)
Definition spairs (s : sample) : list (Q * Q) := pairs_of (s_xs s) (s_ws s).
Definition sample_wf (s : sample) : Prop :=
  match s_ws s with Some ws => length ws = length (s_xs s) | None => True end /\
  (s_sorted s = true -> StronglySorted Qle (s_xs s)).
Definition no_poke (ops : list hop) : Prop :=
  Forall (fun o => match o with HPoke _ _ _ => False | _ => True end) ops.
(* what a history preserves: same pairs up to order, same weightedness, flag implies ascending *)
Definition same_multiset (s0 s : sample) : Prop :=
  sample_wf s /\ Permutation (spairs s) (spairs s0) /\ (s_ws s = None <-> s_ws s0 = None).

Lemma sorted_map_fst : forall ps : list (Q * Q),
  StronglySorted (fun a b => fst a <= fst b) ps -> StronglySorted Qle (map fst ps).
Proof.
  intros ps S. induction S as [|p l Hs IH Hf]; simpl; constructor; [exact IH|].
  apply Forall_map. exact Hf.
Qed.

Lemma sample_sort_same : forall s, sample_wf s -> same_multiset s (sample_sort s).
Proof.
  intros [xs ws st] [Hl Hs]. unfold sample_sort. cbn [s_sorted s_ws s_xs] in *.
  destruct st.
  - split; [split; assumption|]. split; [apply Permutation_refl|tauto].
  - destruct ws as [w|].
    + split; [split|split].
      * cbn [s_ws s_xs]. rewrite !map_length. reflexivity.
      * intros _. cbn [s_xs]. apply sorted_map_fst, psort_sorted.
      * unfold spairs, pairs_of. cbn [s_xs s_ws]. rewrite combine_split_map. apply psort_perm.
      * cbn [s_ws]. split; discriminate.
    + split; [split|split].
      * exact I.
      * intros _. cbn [s_xs]. apply Qsort_sorted.
      * unfold spairs, pairs_of. cbn [s_xs s_ws]. apply Permutation_map, Qsort_perm.
      * cbn [s_ws]. tauto.
Qed.

Lemma same_multiset_trans : forall s0 s1 s2, same_multiset s0 s1 -> same_multiset s1 s2 -> same_multiset s0 s2.
Proof.
  intros s0 s1 s2 [W1 [P1 N1]] [W2 [P2 N2]]. split; [exact W2|]. split.
  - eapply Permutation_trans; eassumption.
  - tauto.
Qed.

Lemma Forall_set_nth : forall {A} (P : A -> Prop) l i a, Forall P l -> P a -> Forall P (set_nth l i a).
Proof.
  intros A P l. induction l as [|x t IH]; intros i a Hl Ha; simpl; [constructor|].
  inversion Hl; subst. destruct i; constructor; auto.
Qed.

Lemma h_step_same : forall s0 st o, match o with HPoke _ _ _ => False | _ => True end ->
  Forall (same_multiset s0) st -> Forall (same_multiset s0) (h_step st o).
Proof.
  intros s0 st o Ho H. destruct o as [i|i|i j v|i]; simpl; try contradiction; try exact H.
  - destruct (nth_error st i) as [s|] eqn:E; [|exact H].
    apply Forall_set_nth; [exact H|].
    assert (Hs : same_multiset s0 s).
    { rewrite Forall_forall in H. apply H. eapply nth_error_In. exact E. }
    eapply same_multiset_trans; [exact Hs|]. apply sample_sort_same. apply Hs.
  - destruct (nth_error st i) as [s|] eqn:E; [|exact H].
    apply Forall_app. split; [exact H|]. constructor; [|constructor].
    rewrite Forall_forall in H. apply H. eapply nth_error_In. exact E.
Qed.

(* HISTORY: after ANY interleaving of Sort, Copy and queries, every sample of the store holds
   the (value, weight) pairs of the original sample up to order, is weighted iff the original
   was, and is ascending whenever its Sorted flag is set *)
Lemma history_agrees : forall ops s0, no_poke ops -> sample_wf s0 ->
  Forall (same_multiset s0) (h_run s0 ops).
Proof.
  intros ops s0 Hn Hw. unfold h_run.
  assert (G : forall ops st, no_poke ops -> Forall (same_multiset s0) st ->
                             Forall (same_multiset s0) (fold_left h_step ops st)).
  { induction ops0 as [|o r IH]; intros st Hn0 Hst; simpl; [exact Hst|].
    inversion Hn0; subst. apply IH; [assumption|]. apply h_step_same; assumption. }
  apply G; [exact Hn|]. constructor; [|constructor].
  split; [exact Hw|]. split; [apply Permutation_refl|tauto].
Qed.

(* ... hence every query returns the value of the fresh computation on the same multiset:
   unweighted Mean / Variance / Sum / Bounds *)
Lemma spairs_unweighted : forall s, s_ws s = None -> map fst (spairs s) = s_xs s.
Proof.
  intros s H. unfold spairs, pairs_of. rewrite H. rewrite map_map. simpl. apply map_id.
Qed.

Lemma same_multiset_queries_unweighted : forall s0 s, s_ws s0 = None -> same_multiset s0 s ->
  Permutation (s_xs s) (s_xs s0) /\
  fres_eq (sample_mean s) (sample_mean s0) /\ fres_eq (sample_variance s) (sample_variance s0) /\
  sample_sum s == sample_sum s0 /\ sample_weight s == sample_weight s0.
Proof.
  intros s0 s H0 [W [P N]].
  assert (Hs : s_ws s = None) by tauto.
  assert (Px : Permutation (s_xs s) (s_xs s0)).
  { rewrite <- (spairs_unweighted s Hs), <- (spairs_unweighted s0 H0). apply Permutation_map. exact P. }
  split; [exact Px|].
  assert (Em : forall t, s_ws t = None -> sample_mean t = mean (s_xs t)).
  { intros t Ht. unfold sample_mean. rewrite Ht. destruct (s_xs t); reflexivity. }
  assert (Ev : forall t, s_ws t = None -> sample_variance t = variance (s_xs t)).
  { intros t Ht. unfold sample_variance. rewrite Ht. destruct (s_xs t); reflexivity. }
  rewrite (Em s Hs), (Em s0 H0), (Ev s Hs), (Ev s0 H0).
  split; [apply mean_perm; exact Px|]. split; [apply variance_perm; exact Px|].
  unfold sample_sum, sample_weight. rewrite Hs, H0. split; [apply vsum_perm; exact Px|].
  rewrite (Permutation_length Px). reflexivity.
Qed.

Lemma Qsum_combine_snd : forall (xs ws : list Q), length ws = length xs -> Qsum ws == wsum_w (combine xs ws).
Proof.
  unfold wsum_w. induction xs as [|x t IH]; intros [|w wt] H; simpl in *; try discriminate; try reflexivity.
  rewrite IH by lia. reflexivity.
Qed.

(* weighted Mean / Sum / Weight *)
Lemma same_multiset_queries_weighted : forall s0 s ws0, s_ws s0 = Some ws0 -> sample_wf s0 -> same_multiset s0 s ->
  s_xs s0 <> [] -> nonneg_weights (spairs s0) -> 0 < wsum_w (spairs s0) ->
  fres_eq (sample_mean s) (sample_mean s0) /\ sample_sum s == sample_sum s0 /\ sample_weight s == sample_weight s0.
Proof.
  intros [xs0 w0 st0] [xs w st] ws0 H0 [Wl0 _] [W [P N]] Hx Hn Hp. cbn [s_ws s_xs] in *. subst w0.
  destruct w as [ws|]; [|exfalso; destruct N as [N1 _]; specialize (N1 eq_refl); discriminate].
  unfold spairs, pairs_of in *. cbn [s_xs s_ws] in *.
  assert (Hp'' : 0 < wsum_w (combine xs ws)) by (rewrite (wsum_w_perm _ _ P); exact Hp).
  assert (Hx' : xs <> []).
  { intro E. subst xs. unfold wsum_w in Hp''. simpl in Hp''. lra. }
  assert (Hn' : nonneg_weights (combine xs ws)).
  { unfold nonneg_weights in *. rewrite Forall_forall in *. intros p Hp'. apply Hn.
    eapply Permutation_in; [exact P|exact Hp']. }
  destruct (wmean_eq xs ws st Hx' Hn' Hp'') as [m [M1 M2]].
  destruct (wmean_eq xs0 ws0 st0 Hx Hn Hp) as [m0 [N1 N2]].
  rewrite M1, N1. simpl. split; [rewrite M2, N2; apply wmean_def_perm; exact P|].
  split.
  - rewrite !sample_sum_weighted. apply wsum_xw_perm. exact P.
  - unfold sample_weight. cbn [s_ws]. rewrite !vsum_eq.
    destruct W as [Wl _]. cbn [s_ws s_xs] in Wl.
    rewrite (Qsum_combine_snd xs ws Wl), (Qsum_combine_snd xs0 ws0 Wl0). apply wsum_w_perm. exact P.
Qed.

(* ====================================================================== *)
(* weighted Bounds: zero-weight values are ignored, on both code paths       *)
(* ====================================================================== *)
Definition nzw (p : Q * Q) : bool := negb (Qeq_bool (snd p) 0).
(* the values that carry a non-zero weight, in order *)
Definition used (ps : list (Q * Q)) : list Q := map fst (filter nzw ps).

Lemma used_cons_zero : forall x w t, Qeq_bool w 0 = true -> used ((x, w) :: t) = used t.
Proof. intros x w t E. unfold used. simpl. unfold nzw at 1. simpl. rewrite E. reflexivity. Qed.
Lemma used_cons_nz : forall x w t, Qeq_bool w 0 = false -> used ((x, w) :: t) = x :: used t.
Proof. intros x w t E. unfold used. simpl. unfold nzw at 1. simpl. rewrite E. reflexivity. Qed.

Lemma wb_fold_some : forall ps a,
  fold_left wbounds_step ps (Some a) = Some (fold_left bounds_step (used ps) a).
Proof.
  induction ps as [|[x w] t IH]; intros a; [reflexivity|].
  cbn [fold_left wbounds_step]. destruct (Qeq_bool w 0) eqn:E.
  - rewrite (used_cons_zero x w t E). apply IH.
  - rewrite (used_cons_nz x w t E). cbn [fold_left]. apply IH.
Qed.

Lemma bounds_step_self : forall x, bounds_step (x, x) x = (x, x).
Proof. intros x. unfold bounds_step. simpl. destruct (Qltb x x); reflexivity. Qed.

(* the unsorted weighted scan = Bounds of the values with non-zero weight *)
Lemma wb_fold_none : forall ps, fold_left wbounds_step ps None = bounds (used ps).
Proof.
  induction ps as [|[x w] t IH]; [reflexivity|].
  cbn [fold_left wbounds_step]. destruct (Qeq_bool w 0) eqn:E.
  - rewrite (used_cons_zero x w t E). apply IH.
  - rewrite (used_cons_nz x w t E). rewrite wb_fold_some. unfold bounds. cbn [fold_left].
    rewrite bounds_step_self. reflexivity.
Qed.

Lemma first_nonzero_used : forall ps, first_nonzero ps = hd_error (used ps).
Proof.
  induction ps as [|[x w] t IH]; [reflexivity|].
  cbn [first_nonzero]. destruct (Qeq_bool w 0) eqn:E.
  - rewrite (used_cons_zero x w t E). apply IH.
  - rewrite (used_cons_nz x w t E). reflexivity.
Qed.

Lemma used_rev : forall ps, used (rev ps) = rev (used ps).
Proof.
  intros ps. unfold used. induction ps as [|p t IH]; [reflexivity|].
  simpl. rewrite filter_app, map_app, IH. simpl. destruct (nzw p); simpl; [reflexivity|apply app_nil_r].
Qed.

(* WEIGHTED BOUNDS, not marked Sorted: least and greatest value among those with non-zero
   weight; NaN when there is none *)
Lemma weighted_bounds_unsorted : forall xs ws, xs <> [] ->
  sample_bounds (mkSample xs (Some ws) false) = bounds (used (combine xs ws)).
Proof.
  intros xs ws H. unfold sample_bounds. cbn [s_xs s_ws s_sorted].
  destruct xs as [|x0 t]; [congruence|]. apply wb_fold_none.
Qed.

Definition obounds_eq (a b : option (Q * Q)) : Prop :=
  match a, b with
  | None, None => True
  | Some (p, q), Some (r, s) => p == r /\ q == s
  | _, _ => False
  end.

Lemma sorted_filter_map : forall ps : list (Q * Q),
  StronglySorted Qle (map fst ps) -> StronglySorted Qle (used ps).
Proof.
  intros ps. unfold used. induction ps as [|p t IH]; intro S; simpl; [constructor|].
  simpl in S. inversion S as [|? ? S' F]; subst.
  destruct (nzw p); [|apply IH; exact S'].
  simpl. constructor; [apply IH; exact S'|].
  rewrite Forall_forall in *. intros y Hy. apply F.
  apply in_map_iff in Hy. destruct Hy as [q [E Hq]]. apply filter_In in Hq.
  apply in_map_iff. exists q. split; [exact E|apply Hq].
Qed.

Lemma hd_error_last_rev : forall (l : list Q) d, l <> [] -> hd_error (rev l) = Some (last l d).
Proof.
  intros l d H. destruct (rev l) as [|y r] eqn:E.
  - apply (f_equal (@rev Q)) in E. rewrite rev_involutive in E. simpl in E. congruence.
  - apply (f_equal (@rev Q)) in E. rewrite rev_involutive in E. simpl in E. subst l.
    rewrite last_last. reflexivity.
Qed.

Lemma map_fst_combine : forall (xs ws : list Q), length ws = length xs -> map fst (combine xs ws) = xs.
Proof.
  induction xs as [|x t IH]; intros [|w wt] H; simpl in *; try discriminate; try reflexivity.
  rewrite IH by lia. reflexivity.
Qed.

(* marking ascending weighted data as Sorted changes nothing: the fast path (first / last
   non-zero weight) returns the same bounds as the scan *)
Lemma weighted_bounds_sorted_flag : forall xs ws, xs <> [] -> length ws = length xs -> StronglySorted Qle xs ->
  obounds_eq (sample_bounds (mkSample xs (Some ws) true)) (sample_bounds (mkSample xs (Some ws) false)).
Proof.
  intros xs ws Hx Hl Hs. rewrite (weighted_bounds_unsorted xs ws Hx).
  assert (SB : sample_bounds (mkSample xs (Some ws) true) =
               match first_nonzero (combine xs ws), first_nonzero (rev (combine xs ws)) with
               | Some mn, Some mx => Some (mn, mx) | _, _ => None end).
  { unfold sample_bounds. cbn [s_xs s_ws s_sorted]. destruct xs; [congruence|reflexivity]. }
  rewrite SB. rewrite !first_nonzero_used, used_rev.
  assert (Su : StronglySorted Qle (used (combine xs ws))).
  { apply sorted_filter_map. rewrite (map_fst_combine xs ws Hl). exact Hs. }
  destruct (used (combine xs ws)) as [|y r] eqn:Eu; [simpl; exact I|]. rewrite <- Eu in *.
  assert (Hu : used (combine xs ws) <> []) by (rewrite Eu; discriminate).
  rewrite (hd_error_last_rev _ 0 Hu). rewrite Eu at 1. cbn [hd_error].
  destruct (bounds (used (combine xs ws))) as [[mn mx]|] eqn:Eb; [|rewrite Eu in Eb; discriminate].
  destruct (bounds_ostat _ mn mx Eb) as [E1 E2]. rewrite (Qsort_id _ Su) in E1, E2.
  rewrite ostat_first in E1. rewrite (ostat_last _ Hu) in E2. simpl.
  split; [rewrite E1, Eu; reflexivity|symmetry; exact E2].
Qed.

(* non-negative integer weights: Bounds of the weighted sample = Bounds of the repeated sample *)
Lemma used_nat_pairs_in : forall xs ws x, length ws = length xs ->
  (In x (used (nat_pairs xs ws)) <-> In x (repeat_by_weights xs ws)).
Proof.
  unfold used, nat_pairs. induction xs as [|y t IH]; intros [|w wt] x H; simpl in *; try discriminate; try tauto.
  assert (Ez : Qeq_bool (Qofnat w) 0 = true <-> w = 0%nat).
  { rewrite Qeq_bool_iff. unfold Qofnat. change 0 with (inject_Z 0). rewrite inject_Z_injective. lia. }
  unfold nzw at 1. cbn [snd]. rewrite in_app_iff.
  destruct (Qeq_bool (Qofnat w) 0) eqn:E; cbn [negb].
  - assert (w = 0%nat) by (apply Ez; reflexivity). subst w. simpl. rewrite IH by lia. tauto.
  - assert (w <> 0%nat) by (intro Hw; apply Ez in Hw; congruence).
    simpl. rewrite IH by lia. split.
    + intros [<-|Hx]; [left; destruct w; [congruence|left; reflexivity]|right; exact Hx].
    + intros [Hx|Hx]; [left; symmetry; eapply repeat_spec; exact Hx|right; exact Hx].
Qed.

Lemma bounds_same_elements : forall a b, (forall x, In x a <-> In x b) -> obounds_eq (bounds a) (bounds b).
Proof.
  intros a b H.
  destruct (bounds a) as [[mn mx]|] eqn:Ea; destruct (bounds b) as [[mn' mx']|] eqn:Eb; simpl; auto.
  - destruct (bounds_spec a mn mx Ea) as [[I1 L1] [I2 L2]].
    destruct (bounds_spec b mn' mx' Eb) as [[J1 K1] [J2 K2]].
    split; apply Qle_antisym.
    + apply L1, H, J1. + apply K1, H, I1. + apply K2, H, I2. + apply L2, H, J2.
  - destruct a as [|x t]; [discriminate|]. destruct b; [|discriminate]. destruct (proj1 (H x)). left; reflexivity.
  - destruct b as [|x t]; [discriminate|]. destruct a; [|discriminate]. destruct (proj2 (H x)). left; reflexivity.
Qed.

Lemma int_weights_bounds_eq_repeat : forall xs ws, xs <> [] -> length ws = length xs ->
  obounds_eq (sample_bounds (mkSample xs (Some (map Qofnat ws)) false)) (bounds (repeat_by_weights xs ws)).
Proof.
  intros xs ws Hx Hl. rewrite (weighted_bounds_unsorted xs _ Hx).
  apply bounds_same_elements. intro x. apply used_nat_pairs_in. exact Hl.
Qed.

(* ====================================================================== *)
(* NaN-ness of the weighted Mean / GeoMean: total weight zero, non-positive values *)
(* ====================================================================== *)
Lemma sample_mean_nan_iff : forall xs ws st, xs <> [] ->
  (sample_mean (mkSample xs (Some ws) st) = FNaN <-> wsum_w (combine xs ws) == 0).
Proof.
  intros xs ws st Hx. split; [|apply wmean_nan].
  rewrite (sample_mean_weighted xs ws st Hx). pose proof (wmean_loop_wsum (combine xs ws) 0 0) as W.
  destruct (Qeq_bool (snd (wmean_loop (combine xs ws) 0 0)) 0) eqn:E; [|discriminate].
  intros _. apply Qeq_bool_iff in E. rewrite W in E. lra.
Qed.

Lemma wnonpos_used : forall ps, wnonpos ps <-> exists x, In x (used ps) /\ x <= 0.
Proof.
  intro ps. unfold wnonpos, used. split.
  - intros (x & w & I & L & N). exists x. split; [|exact L]. apply in_map_iff. exists (x, w). split; [reflexivity|].
    apply filter_In. split; [exact I|]. unfold nzw. cbn [snd]. destruct (Qeq_bool w 0) eqn:E; [apply Qeq_bool_iff in E; contradiction | reflexivity].
  - intros (x & I & L). apply in_map_iff in I. destruct I as ([x' w] & <- & I). apply filter_In in I. destruct I as [I N].
    exists x', w. split; [exact I|]. split; [exact L|]. unfold nzw in N. cbn [snd] in N. intro C. apply Qeq_bool_iff in C. rewrite C in N. discriminate.
Qed.

(* INTEGER WEIGHTS: the weighted GeoMean is NaN exactly when the GeoMean of the repeated sample is:
   the repeated sample is empty (all weights zero) or contains a value <= 0 (which then carries weight) *)
Lemma int_weights_geomean_nan_iff : forall xs ws st, length ws = length xs ->
  (sample_geomean (mkSample xs (Some (map Qofnat ws)) st) = GNaN <-> geomean (repeat_by_weights xs ws) = GNaN).
Proof.
  intros xs ws st H. destruct xs as [|x0 t] eqn:E.
  - destruct ws; [|discriminate]. split; reflexivity.
  - rewrite <- E in *. assert (Hx : xs <> []) by (rewrite E; discriminate).
    rewrite (sample_geomean_nan_iff xs (map Qofnat ws) st Hx (nat_pairs_nonneg xs ws)). fold (nat_pairs xs ws).
    rewrite geomean_nan_iff. destruct (int_weights_eq_repeat_def xs ws H) as [_ [B _]].
    rewrite wnonpos_used. split.
    + intros [(x & I & L)|Z0].
      * right. exists x. split; [apply (used_nat_pairs_in xs ws x H); exact I | exact L].
      * left. destruct (repeat_by_weights xs ws) as [|r0 rt] eqn:Hr; [reflexivity|]. exfalso.
        assert (P : 0 < nQ (r0 :: rt)) by (apply nQ_pos; discriminate). rewrite <- B, Z0 in P. lra.
    + intros [Z0|(x & I & L)].
      * right. rewrite B, Z0. reflexivity.
      * left. exists x. split; [apply (used_nat_pairs_in xs ws x H); exact I | exact L].
Qed.

(* ORDER INDEPENDENCE of the NaN-ness (the defect repaired by 93a8d25: [0,4] gave NaN, [4,0] gave 0) *)
Lemma wnonpos_perm : forall a b, Permutation a b -> (wnonpos a <-> wnonpos b).
Proof.
  intros a b P. unfold wnonpos. split; intros (x & w & I & R); exists x, w; (split; [|exact R]).
  - eapply Permutation_in; eassumption.
  - eapply Permutation_in; [apply Permutation_sym|]; eassumption.
Qed.
Lemma nonneg_weights_perm : forall a b, Permutation a b -> nonneg_weights a -> nonneg_weights b.
Proof. intros a b P H. unfold nonneg_weights in *. eapply Permutation_Forall; eassumption. Qed.

Lemma weighted_nan_perm : forall ps ps' st st', Permutation ps ps' -> nonneg_weights ps ->
  (sample_mean (mkSample (map fst ps) (Some (map snd ps)) st) = FNaN <->
   sample_mean (mkSample (map fst ps') (Some (map snd ps')) st') = FNaN) /\
  (sample_geomean (mkSample (map fst ps) (Some (map snd ps)) st) = GNaN <->
   sample_geomean (mkSample (map fst ps') (Some (map snd ps')) st') = GNaN).
Proof.
  intros ps ps' st st' P Hn. pose proof (nonneg_weights_perm _ _ P Hn) as Hn'.
  destruct ps as [|p0 pt] eqn:E.
  - apply Permutation_nil in P. subst ps'. split; split; reflexivity.
  - rewrite <- E in *. assert (Hx : map fst ps <> []) by (rewrite E; discriminate).
    assert (Hx' : map fst ps' <> []).
    { intro C. apply map_eq_nil in C. subst ps'. apply Permutation_sym, Permutation_nil in P. congruence. }
    split.
    + rewrite (sample_mean_nan_iff _ _ st Hx), (sample_mean_nan_iff _ _ st' Hx'), !combine_split_map, (wsum_w_perm _ _ P). reflexivity.
    + rewrite (sample_geomean_nan_iff _ _ st Hx), (sample_geomean_nan_iff _ _ st' Hx'), !combine_split_map by (rewrite combine_split_map; assumption).
      rewrite (wnonpos_perm _ _ P), (wsum_w_perm _ _ P). reflexivity.
Qed.


(* Proofs/Scale.v — C16, the rational part: Linear scales, clamp, NewLog's decision,
   Linear->Linear QQ, and soundness of the closed forms at powers of an integer. *)
From Coq Require Import Lqa Field Qfield Setoid Qround.
From MM Require Import Base.Num Base.GBLemmas Model.Scale.
Local Open Scope Q_scope.

(* ---------- clamp (util.go) ---------- *)
Lemma clampq_range y : 0 <= clampq y /\ clampq y <= 1.
Proof. unfold clampq. destruct (Qltb y 0) eqn:A; [lra|]. destruct (Qltb 1 y) eqn:B; gb_bool; lra. Qed.

Lemma clampq_id y : 0 <= y -> y <= 1 -> clampq y = y.
Proof. intros L U. unfold clampq.
  destruct (Qltb y 0) eqn:A; [gb_bool; lra|]. destruct (Qltb 1 y) eqn:B; [gb_bool; lra|]. reflexivity. Qed.

Lemma clampq_low y : y <= 0 -> clampq y == 0.
Proof. intros L. unfold clampq. destruct (Qltb y 0) eqn:A; [reflexivity|].
  destruct (Qltb 1 y) eqn:B; gb_bool; lra. Qed.
Lemma clampq_high y : 1 <= y -> clampq y == 1.
Proof. intros L. unfold clampq. destruct (Qltb y 0) eqn:A; [gb_bool; lra|].
  destruct (Qltb 1 y) eqn:B; gb_bool; lra. Qed.

Lemma clampq_compat a b : a == b -> clampq a == clampq b.
Proof. intros E. unfold clampq.
  destruct (Qltb a 0) eqn:A1; destruct (Qltb b 0) eqn:B1; gb_bool; try lra;
  destruct (Qltb 1 a) eqn:A2; destruct (Qltb 1 b) eqn:B2; gb_bool; lra. Qed.

Lemma clampq_mono a b : a <= b -> clampq a <= clampq b.
Proof. intros E. unfold clampq.
  destruct (Qltb a 0) eqn:A1; destruct (Qltb b 0) eqn:B1; gb_bool; try lra;
  destruct (Qltb 1 a) eqn:A2; destruct (Qltb 1 b) eqn:B2; gb_bool; lra. Qed.

(* ---------- Linear ---------- *)
Definition nondeg (s : linear) : Prop := ~ l_min s == l_max s.
(* the unclamped interpolation formula *)
Definition lin_y (s : linear) (x : Q) : Q := (x - l_min s) / (l_max s - l_min s).

Lemma lin_map_nondeg s x : nondeg s ->
  lin_map s x = if l_clamp s then clampq (lin_y s x) else lin_y s x.
Proof. intros H. unfold lin_map, lin_y. destruct (Qeqb _ _) eqn:E; [gb_bool; contradiction | reflexivity]. Qed.

Lemma width_nz s : nondeg s -> ~ l_max s - l_min s == 0.
Proof. intros H E. apply H. lra. Qed.

Lemma lin_y_min s : nondeg s -> lin_y s (l_min s) == 0.
Proof. intros H. unfold lin_y. field. now apply width_nz. Qed.
Lemma lin_y_max s : nondeg s -> lin_y s (l_max s) == 1.
Proof. intros H. unfold lin_y. field. now apply width_nz. Qed.

(* Map(Min) = 0 and Map(Max) = 1, clamped or not *)
Lemma lin_map_min s : nondeg s -> lin_map s (l_min s) == 0.
Proof. intros H. rewrite lin_map_nondeg by assumption. destruct (l_clamp s); [|now apply lin_y_min].
  rewrite (clampq_compat _ 0) by now apply lin_y_min. reflexivity. Qed.
Lemma lin_map_max s : nondeg s -> lin_map s (l_max s) == 1.
Proof. intros H. rewrite lin_map_nondeg by assumption. destruct (l_clamp s); [|now apply lin_y_max].
  rewrite (clampq_compat _ 1) by now apply lin_y_max. reflexivity. Qed.

(* affine in x, with non-zero slope 1/(Max-Min) *)
Lemma lin_affine s x : nondeg s -> l_clamp s = false ->
  lin_map s x == / (l_max s - l_min s) * x + - l_min s / (l_max s - l_min s).
Proof. intros H C. rewrite lin_map_nondeg, C by assumption. unfold lin_y. field. now apply width_nz. Qed.
Lemma lin_slope_nz s : nondeg s -> ~ / (l_max s - l_min s) == 0.
Proof. intros H E. apply (width_nz s H). rewrite <- (Qinv_involutive (l_max s - l_min s)), E. reflexivity. Qed.
Lemma lin_affine_comb s t x1 x2 : nondeg s -> l_clamp s = false ->
  lin_map s (t * x1 + (1 - t) * x2) == t * lin_map s x1 + (1 - t) * lin_map s x2.
Proof. intros H C. rewrite !lin_map_nondeg, C by assumption. unfold lin_y. field. now apply width_nz. Qed.

Lemma lin_y_diff s x1 x2 : nondeg s -> lin_y s x2 - lin_y s x1 == (x2 - x1) * / (l_max s - l_min s).
Proof. intros H. unfold lin_y. field. now apply width_nz. Qed.

(* strictly increasing when Min < Max, strictly decreasing when Max < Min *)
Lemma lin_strict_mono_inc s x1 x2 : l_min s < l_max s -> l_clamp s = false -> x1 < x2 ->
  lin_map s x1 < lin_map s x2.
Proof. intros W C L. assert (H : nondeg s) by (intro E; lra).
  rewrite !lin_map_nondeg, C by assumption.
  assert (D := lin_y_diff s x1 x2 H).
  assert (P : 0 < / (l_max s - l_min s)) by (apply Qinv_lt_0_compat; lra).
  assert (0 < (x2 - x1) * / (l_max s - l_min s)) by (apply Qmult_lt_0_compat; lra). lra. Qed.
Lemma lin_strict_mono_dec s x1 x2 : l_max s < l_min s -> l_clamp s = false -> x1 < x2 ->
  lin_map s x2 < lin_map s x1.
Proof. intros W C L. assert (H : nondeg s) by (intro E; lra).
  rewrite !lin_map_nondeg, C by assumption.
  assert (D := lin_y_diff s x1 x2 H).
  assert (P : 0 < / (l_min s - l_max s)) by (apply Qinv_lt_0_compat; lra).
  assert (E : / (l_max s - l_min s) == - / (l_min s - l_max s)).
  { field. split; intro; lra. }
  assert (0 < (x2 - x1) * / (l_min s - l_max s)) by (apply Qmult_lt_0_compat; lra).
  rewrite E in D. lra. Qed.
(* ... and conversely: the direction of Map is the sign of Max - Min *)
Lemma lin_mono_iff s x1 x2 : nondeg s -> l_clamp s = false -> x1 < x2 ->
  (lin_map s x1 < lin_map s x2 <-> l_min s < l_max s).
Proof. intros H C L. split.
  - intros M. destruct (Qlt_le_dec (l_min s) (l_max s)) as [A|A]; [exact A|].
    assert (l_max s < l_min s) by (destruct (Qeq_dec (l_min s) (l_max s)); [contradiction | lra]).
    pose proof (lin_strict_mono_dec s x1 x2 H0 C L). lra.
  - intros W. now apply lin_strict_mono_inc. Qed.

(* Unmap is the inverse of Map on and beyond the domain (every x, every y) *)
Lemma lin_unmap_map s x : nondeg s -> l_clamp s = false -> lin_unmap s (lin_map s x) == x.
Proof. intros H C. rewrite lin_map_nondeg, C by assumption. unfold lin_unmap, lin_y. field. now apply width_nz. Qed.
Lemma lin_map_unmap s y : nondeg s -> l_clamp s = false -> lin_map s (lin_unmap s y) == y.
Proof. intros H C. rewrite lin_map_nondeg, C by assumption. unfold lin_unmap, lin_y. field. now apply width_nz. Qed.
Lemma lin_unmap_0 s : lin_unmap s 0 == l_min s.
Proof. unfold lin_unmap. ring. Qed.
Lemma lin_unmap_1 s : lin_unmap s 1 == l_max s.
Proof. unfold lin_unmap. ring. Qed.

(* clamping *)
Lemma lin_clamp_range s x : l_clamp s = true -> nondeg s -> 0 <= lin_map s x /\ lin_map s x <= 1.
Proof. intros C H. rewrite lin_map_nondeg, C by assumption. apply clampq_range. Qed.
Lemma lin_clamp_is_clamp s x : nondeg s ->
  lin_map (lin_set_clamp s true) x = clampq (lin_map (lin_set_clamp s false) x).
Proof. intros H. rewrite !lin_map_nondeg by exact H. reflexivity. Qed.
(* x inside the domain, whichever way round it is *)
Definition lin_inside (s : linear) (x : Q) : Prop :=
  (l_min s <= x /\ x <= l_max s) \/ (l_max s <= x /\ x <= l_min s).
Lemma lin_y_inside s x : nondeg s -> lin_inside s x -> 0 <= lin_y s x /\ lin_y s x <= 1.
Proof. intros H I.
  assert (D0 := lin_y_diff s (l_min s) x H). assert (D1 := lin_y_diff s x (l_max s) H).
  rewrite lin_y_min in D0 by assumption. rewrite lin_y_max in D1 by assumption.
  destruct (Qlt_le_dec (l_min s) (l_max s)) as [A|A].
  - assert (P : 0 < / (l_max s - l_min s)) by (apply Qinv_lt_0_compat; lra).
    destruct I as [[I1 I2]|[I1 I2]]; [|lra].
    assert (0 <= (x - l_min s) * / (l_max s - l_min s)) by (apply Qmult_le_0_compat; lra).
    assert (0 <= (l_max s - x) * / (l_max s - l_min s)) by (apply Qmult_le_0_compat; lra). lra.
  - assert (l_max s < l_min s) by (destruct (Qeq_dec (l_min s) (l_max s)); [contradiction | lra]).
    assert (P : 0 < / (l_min s - l_max s)) by (apply Qinv_lt_0_compat; lra).
    assert (E : / (l_max s - l_min s) == - / (l_min s - l_max s)) by (field; split; intro; lra).
    rewrite E in D0, D1.
    destruct I as [[I1 I2]|[I1 I2]]; [lra|].
    assert (0 <= (l_min s - x) * / (l_min s - l_max s)) by (apply Qmult_le_0_compat; lra).
    assert (0 <= (x - l_max s) * / (l_min s - l_max s)) by (apply Qmult_le_0_compat; lra). lra. Qed.
Lemma lin_clamp_id_inside s x : nondeg s -> lin_inside s x ->
  lin_map (lin_set_clamp s true) x = lin_map (lin_set_clamp s false) x.
Proof. intros H I. rewrite lin_clamp_is_clamp by assumption.
  rewrite (lin_map_nondeg (lin_set_clamp s false)) by exact H. cbn [l_clamp lin_set_clamp].
  destruct (lin_y_inside s x H I). now apply clampq_id. Qed.

(* a degenerate domain maps everything to 1/2 *)
Lemma lin_degenerate s x : l_min s == l_max s -> lin_map s x = 1 # 2.
Proof. intros E. unfold lin_map. destruct (Qeqb _ _) eqn:B; [reflexivity | gb_bool; contradiction]. Qed.

(* ---------- NewLog ---------- *)
Lemma new_log_accepts_iff (a b : Q) (base : Z) :
  (exists lo hi bs, new_log (XFin a) (XFin b) base = NL_ok lo hi bs) <->
  (2 <= base)%Z /\ ((0 < a /\ 0 < b) \/ (a < 0 /\ b < 0)).
Proof. unfold new_log. cbn [xlt]. split.
  - intros (lo & hi & bs & H).
    destruct (Qltb b a) eqn:S; destruct (base <=? 1)%Z eqn:B; try discriminate;
      apply Z.leb_gt in B; (split; [lia|]); cbn [xle] in H;
      match type of H with (if ?c then _ else _) = _ => destruct c eqn:Z0; [discriminate|] end;
      apply andb_false_iff in Z0; destruct Z0 as [Z0|Z0]; gb_bool; lra.
  - intros [B [[A1 A2]|[A1 A2]]];
      (destruct (Qltb b a) eqn:S; destruct (base <=? 1)%Z eqn:B'; [apply Z.leb_le in B'; lia | | apply Z.leb_le in B'; lia | ]);
      cbn [xle];
      match goal with |- exists _ _ _, (if ?c then _ else _) = _ => destruct c eqn:Z0 end;
      try (apply andb_true_iff in Z0; destruct Z0; gb_bool; lra); eauto. Qed.

(* an accepted range is stored in ascending order with the base unchanged *)
Lemma new_log_result a b base lo hi bs : new_log (XFin a) (XFin b) base = NL_ok lo hi bs ->
  bs = base /\ ((a <= b /\ lo = XFin a /\ hi = XFin b) \/ (b < a /\ lo = XFin b /\ hi = XFin a)).
Proof. unfold new_log. cbn [xlt].
  destruct (Qltb b a) eqn:S; destruct (base <=? 1)%Z; try discriminate;
    match goal with |- (if ?c then _ else _) = _ -> _ => destruct c; [discriminate|] end;
    intros [= <- <- <-]; gb_bool; (split; [reflexivity|]); [right | left]; auto. Qed.

(* ---------- Linear -> Linear QQ ---------- *)
Lemma qq_lin_unmap_map src dst x : nondeg src -> nondeg dst -> l_clamp src = false -> l_clamp dst = false ->
  qq_lin_unmap src dst (qq_lin_map src dst x) == x.
Proof. intros Hs Hd Cs Cd. unfold qq_lin_unmap, qq_lin_map.
  rewrite (lin_map_nondeg dst), Cd by assumption. rewrite (lin_map_nondeg src x), Cs by assumption.
  unfold lin_unmap, lin_y. field. split; now apply width_nz. Qed.
Lemma qq_lin_map_unmap src dst y : nondeg src -> nondeg dst -> l_clamp src = false -> l_clamp dst = false ->
  qq_lin_map src dst (qq_lin_unmap src dst y) == y.
Proof. intros Hs Hd Cs Cd. unfold qq_lin_unmap, qq_lin_map.
  rewrite (lin_map_nondeg src), Cs by assumption. rewrite (lin_map_nondeg dst y), Cd by assumption.
  unfold lin_unmap, lin_y. field. split; now apply width_nz. Qed.
(* QQ maps the source domain onto the destination domain, end to end *)
Lemma qq_lin_ends src dst : nondeg src ->
  qq_lin_map src dst (l_min src) == l_min dst /\ qq_lin_map src dst (l_max src) == l_max dst.
Proof. intros H. unfold qq_lin_map, lin_unmap. rewrite lin_map_min, lin_map_max by assumption. split; ring. Qed.

(* ---------- closed forms at powers of b ---------- *)
Lemma ilog_pos_sound fuel : forall b n k r, (2 <= b)%Z -> (0 < n)%Z ->
  ilog_pos fuel b n k = Some r -> (k <= r)%Z /\ n = (b ^ (r - k))%Z.
Proof.
  induction fuel as [|fuel IH]; intros b n k r Hb Hn; cbn [ilog_pos].
  - destruct (n =? 1)%Z eqn:E; [|discriminate]. intros [= <-]. apply Z.eqb_eq in E. subst.
    rewrite Z.sub_diag. split; [lia | reflexivity].
  - destruct (n =? 1)%Z eqn:E.
    + intros [= <-]. apply Z.eqb_eq in E. subst. rewrite Z.sub_diag. split; [lia | reflexivity].
    + destruct (n mod b =? 0)%Z eqn:M; [|discriminate]. apply Z.eqb_eq in M. intros H.
      assert (Hn' : n = (b * (n / b))%Z) by (rewrite (Z.div_mod n b) at 1 by lia; lia).
      apply IH in H; [| lia | nia].
      destruct H as [L Eq]. split; [lia|].
      rewrite Hn', Eq. replace (r - k)%Z with (Z.succ (r - (k + 1)))%Z by lia.
      rewrite Z.pow_succ_r by lia. reflexivity.
Qed.

Lemma bpow_pos b k : (2 <= b)%Z -> 0 < bpow b k.
Proof. intros Hb. unfold bpow. destruct (0 <=? k)%Z eqn:E.
  - apply Z.leb_le in E. change 0 with (inject_Z 0). rewrite <- Zlt_Qlt. apply Z.pow_pos_nonneg; lia.
  - reflexivity. Qed.

Lemma ilog_sound b q k : ilog b q = Some k -> (2 <= b)%Z /\ q == bpow b k.
Proof.
  unfold ilog. destruct (b <? 2)%Z eqn:Hb; [discriminate|]. apply Z.ltb_ge in Hb.
  assert (Eq : q == Qred q) by (symmetry; apply Qred_correct).
  destruct (Qred q) as [n d]. cbn [Qnum Qden].
  destruct (n <=? 0)%Z eqn:Hn; [discriminate|]. apply Z.leb_gt in Hn.
  destruct (Z.pos d =? 1)%Z eqn:Hd.
  - apply Z.eqb_eq in Hd. intros H. apply ilog_pos_sound in H; try lia. destruct H as [L E].
    split; [exact Hb|]. rewrite Eq. unfold bpow. replace (0 <=? k)%Z with true by (symmetry; apply Z.leb_le; lia).
    rewrite Z.sub_0_r in E. subst n. injection Hd as ->. reflexivity.
  - destruct (n =? 1)%Z eqn:Hn1; [|discriminate]. apply Z.eqb_eq in Hn1. subst n.
    destruct (ilog_pos _ b (Z.pos d) 0) as [k'|] eqn:H; [|discriminate]. cbn [option_map]. intros [= <-].
    apply ilog_pos_sound in H; try lia. destruct H as [L E]. rewrite Z.sub_0_r in E.
    split; [exact Hb|]. rewrite Eq. unfold bpow.
    destruct (0 <=? - k')%Z eqn:S.
    + apply Z.leb_le in S. assert (k' = 0%Z) by lia. subst k'. cbn in E. injection E as ->. reflexivity.
    + rewrite Z.opp_involutive, <- E. reflexivity.
Qed.

(* what the closed form of Log.Map says: the three arguments are b^i, b^j, b^k with
   i <> j, and the value is (k-i)/(j-i), folded for negative domains and clamped *)
Lemma lmap_exact_spec b neg clamp mn mx x v :
  lmap_exact b (LM_val neg clamp mn mx x) = Some v ->
  exists i j k, (2 <= b)%Z /\ mn == bpow b i /\ mx == bpow b j /\ x == bpow b k /\ i <> j /\
    exists y, y == inject_Z (k - i) / inject_Z (j - i) /\
      v = XFin (let y := if neg then 1 - y else y in if clamp then clampq y else y).
Proof.
  cbn [lmap_exact]. destruct (ilog b mn) as [i|] eqn:Hi; [|discriminate].
  destruct (ilog b mx) as [j|] eqn:Hj; [|discriminate].
  destruct (ilog b x) as [k|] eqn:Hk; [|discriminate].
  destruct (i =? j)%Z eqn:Hij; [discriminate|]. apply Z.eqb_neq in Hij. intros [= <-].
  apply ilog_sound in Hi, Hj, Hk. destruct Hi as [Hb Hi], Hj as [_ Hj], Hk as [_ Hk].
  exists i, j, k. repeat (split; [assumption|]).
  exists (Qred (inject_Z (k - i) / inject_Z (j - i))). split; [apply Qred_correct | reflexivity].
Qed.

(* the closed form of Log.Unmap with eps = 0: min = b^i, max = b^j and the exponent
   i + y (j - i) is an integer n; the value is +-b^n *)
Lemma lunmap_exact_spec b neg mn mx y v :
  lunmap_exact b 0 (LU_val neg mn mx y) = Some v ->
  exists i j n, (2 <= b)%Z /\ mn == bpow b i /\ mx == bpow b j /\
    inject_Z i + y * inject_Z (j - i) == inject_Z n /\
    v = if neg then - bpow b n else bpow b n.
Proof.
  cbn [lunmap_exact]. destruct (ilog b mn) as [i|] eqn:Hi; [|discriminate].
  destruct (ilog b mx) as [j|] eqn:Hj; [|discriminate].
  remember (inject_Z i + y * inject_Z (j - i)) as e eqn:He.
  destruct (Qleb _ 0) eqn:L; [|discriminate]. intros [= <-].
  apply ilog_sound in Hi, Hj. destruct Hi as [Hb Hi], Hj as [_ Hj].
  exists i, j, (Qround e). repeat (split; [assumption|]). split; [|reflexivity].
  gb_bool. rewrite <- He. clear He. generalize dependent (inject_Z (Qround e)). intros r L.
  assert (A := Qabs_nonneg (e - r)).
  assert (Z0 : Qabs (e - r) == 0) by lra.
  destruct (Qlt_le_dec (e - r) 0) as [C|C].
  - rewrite Qabs_neg in Z0 by lra. lra.
  - rewrite Qabs_pos in Z0 by lra. lra.
Qed.

(* Proofs/Scc.v — the SCC checker of Spec/Scc.v decides its specification:
     scc_ok g comps = true        <->  scc_spec g comps                 (g well formed)
     scc_edges_ok g comps outs    <->  scc_edges_spec g comps outs      (given scc_spec)
   and the checker's own component map agrees with the position of a node's component. *)
From Coq Require Import List NArith ZArith FMapPositive Lia Bool Permutation.
From MM Require Import Base.GCGraph Base.GCReach Spec.Scc.
Import ListNotations.

Local Arguments cm_get : simpl never.
Local Arguments gm_out : simpl never.
Local Arguments ns_mem : simpl never.
Local Arguments ns_add : simpl never.

(* ------------------------------------------------------------------ list helpers *)
Lemma NoDup_app_iff : forall (A : Type) (l l' : list A),
  NoDup (l ++ l') <-> NoDup l /\ NoDup l' /\ (forall x, In x l -> ~ In x l').
Proof.
  intros A l l'. induction l as [|a l IH]; simpl.
  - split.
    + intros H. split. constructor. split. exact H. intros x [].
    + intros [_ [H _]]. exact H.
  - rewrite !NoDup_cons_iff, IH, in_app_iff. split.
    + intros [Hna [Hl [Hl' Hd]]]. split. split. tauto. exact Hl. split. exact Hl'.
      intros x [Hx|Hx]. subst x. tauto. apply Hd. exact Hx.
    + intros [[Hna Hl] [Hl' Hd]]. split.
      * intros [H|H]. tauto. apply (Hd a). left. reflexivity. exact H.
      * split. exact Hl. split. exact Hl'. intros x Hx. apply Hd. right. exact Hx.
Qed.

Lemma in_nth_lt : forall (A : Type) (ll : list (list A)) (k : nat) (x : A),
  In x (nth k ll []) -> k < length ll.
Proof.
  intros A ll k x H. destruct (Nat.lt_ge_cases k (length ll)) as [L|L]. exact L.
  rewrite nth_overflow in H by exact L. destruct H.
Qed.

Lemma in_concat_nth : forall (A : Type) (ll : list (list A)) (x : A),
  In x (concat ll) <-> exists k, In x (nth k ll []).
Proof.
  intros A ll x. rewrite in_concat. split.
  - intros [l [Hl Hx]]. destruct (In_nth ll l [] Hl) as [k [Hk E]]. exists k. rewrite E. exact Hx.
  - intros [k Hk]. exists (nth k ll []). split; [| exact Hk].
    apply nth_In. eapply in_nth_lt. exact Hk.
Qed.

Lemma NoDup_nodes_upto : forall n, NoDup (nodes_upto n).
Proof.
  intros n. unfold nodes_upto. generalize (seq_NoDup (N.to_nat n) 0). generalize (seq 0 (N.to_nat n)).
  intros l H. induction H as [|a l Hna Hl IH]; simpl. constructor.
  constructor; [| exact IH]. rewrite in_map_iff. intros [b [E Hb]].
  apply Nat2N.inj in E. subst b. exact (Hna Hb).
Qed.

Lemma filter_length_le' : forall (A : Type) (f : A -> bool) (l : list A), length (filter f l) <= length l.
Proof. intros A f l. induction l as [|a l IH]; simpl. lia. destruct (f a); simpl; lia. Qed.

Lemma list_sum_le : forall (f f' : N -> nat) (L : list N), (forall w, f' w <= f w) ->
  list_sum (map f' L) <= list_sum (map f L).
Proof.
  intros f f' L H. induction L as [|a L IH]; simpl. lia. specialize (H a). lia.
Qed.

Lemma list_sum_bump : forall (f f' : N -> nat) (v : N) (L : list N), NoDup L ->
  (forall w, w <> v -> f' w = f w) -> f' v = S (f v) ->
  list_sum (map f' L) <= S (list_sum (map f L)).
Proof.
  intros f f' v L Hnd Hne Hv. induction Hnd as [|a L Hna Hnd IH]; simpl. lia.
  destruct (N.eq_dec a v) as [E|E].
  - subst a. rewrite Hv.
    assert (E : map f' L = map f L).
    { apply map_ext_in. intros w Hw. apply Hne. intros E. subst w. exact (Hna Hw). }
    rewrite E. lia.
  - rewrite (Hne a E). lia.
Qed.

(* ------------------------------------------------------------------ (a) the component map *)
Lemma cm_get_add : forall (m : cmap) (v c w : N),
  cm_get (PositiveMap.add (N.succ_pos v) c m) w = if (w =? v)%N then Some c else cm_get m w.
Proof.
  intros m v c w. unfold cm_get. destruct (N.eqb_spec w v) as [E|E].
  - subst w. apply PositiveMap.gss.
  - apply PositiveMap.gso. intros H. apply E. apply succ_pos_inj. exact H.
Qed.

Lemma cm_add_members_spec : forall n c l m m', cm_add_members n c l m = Some m' ->
  NoDup l /\
  (forall v, In v l -> (v < n)%N /\ cm_get m v = None /\ cm_get m' v = Some c) /\
  (forall v, ~ In v l -> cm_get m' v = cm_get m v).
Proof.
  intros n c l. induction l as [|a t IH]; intros m m' H; cbn [cm_add_members] in H.
  - injection H as H. subst m'. split. constructor. split. intros v []. intros v _. reflexivity.
  - destruct (a <? n)%N eqn:Han; cbn [andb] in H; [| discriminate H].
    destruct (cm_get m a) eqn:Hga; [discriminate H|].
    apply N.ltb_lt in Han.
    destruct (IH _ _ H) as [Hnd [Hin Hout]].
    assert (Hnat : ~ In a t).
    { intros Hat. destruct (Hin a Hat) as [_ [Hn _]]. rewrite cm_get_add, N.eqb_refl in Hn. discriminate Hn. }
    split. constructor; assumption.
    split.
    + intros v [Hv|Hv].
      * subst v. split. exact Han. split. exact Hga.
        rewrite (Hout a Hnat), cm_get_add, N.eqb_refl. reflexivity.
      * destruct (Hin v Hv) as [Hvn [Hg1 Hg2]]. split. exact Hvn. split; [| exact Hg2].
        rewrite cm_get_add in Hg1. destruct (v =? a)%N. discriminate Hg1. exact Hg1.
    + intros v Hv. rewrite Hout.
      * rewrite cm_get_add. destruct (N.eqb_spec v a) as [E|E]; [| reflexivity].
        exfalso. apply Hv. left. symmetry. exact E.
      * intros Hvt. apply Hv. right. exact Hvt.
Qed.

Lemma cm_build_spec : forall n comps c0 m0 m, cm_build n comps c0 m0 = Some m ->
  NoDup (concat comps) /\
  (forall l, In l comps -> l <> []) /\
  (forall v, In v (concat comps) -> (v < n)%N /\ cm_get m0 v = None) /\
  (forall k v, In v (nth k comps []) -> cm_get m v = Some (c0 + N.of_nat k)%N) /\
  (forall v, ~ In v (concat comps) -> cm_get m v = cm_get m0 v).
Proof.
  intros n comps. induction comps as [|l t IH]; intros c0 m0 m H.
  - cbn [cm_build] in H. injection H as H. subst m. cbn [concat].
    split. constructor. split. intros l []. split. intros v [].
    split. intros k v Hv. destruct k; simpl in Hv; contradiction. intros v _. reflexivity.
  - assert (Hl : l <> []). { intros E. subst l. cbn [cm_build] in H. discriminate H. }
    assert (H' : match cm_add_members n c0 l m0 with
                 | None => None | Some m' => cm_build n t (c0 + 1)%N m' end = Some m).
    { destruct l. congruence. exact H. }
    clear H. destruct (cm_add_members n c0 l m0) as [m1|] eqn:Hadd; [| discriminate H'].
    destruct (cm_add_members_spec _ _ _ _ _ Hadd) as [Hnd [Hin Hout]].
    destruct (IH _ _ _ H') as [Hnd' [Hne [Hin' [Hk Hout']]]].
    cbn [concat].
    assert (Hdisj : forall x, In x l -> ~ In x (concat t)).
    { intros x Hx Hx'. destruct (Hin x Hx) as [_ [_ E1]]. destruct (Hin' x Hx') as [_ E2]. congruence. }
    split. { apply NoDup_app_iff. auto. }
    split. { intros l' [E|Hl']. subst l'. exact Hl. apply Hne. exact Hl'. }
    split.
    { intros v Hv. apply in_app_or in Hv. destruct Hv as [Hv|Hv].
      - destruct (Hin v Hv) as [A [B _]]. auto.
      - destruct (Hin' v Hv) as [A B]. split. exact A. rewrite <- B. symmetry. apply Hout.
        intros Hvl. exact (Hdisj v Hvl Hv). }
    split.
    { intros k v Hv. destruct k as [|k]; cbn [nth] in Hv.
      - rewrite Hout'. destruct (Hin v Hv) as [_ [_ E]]. rewrite E. f_equal. lia.
        apply Hdisj. exact Hv.
      - rewrite (Hk k v Hv). f_equal. lia. }
    intros v Hv. rewrite Hout'. apply Hout.
    + intros Hvl. apply Hv. apply in_or_app. left. exact Hvl.
    + intros Hvt. apply Hv. apply in_or_app. right. exact Hvt.
Qed.

Lemma cm_build_cof : forall n comps m, cm_build n comps 0%N (PositiveMap.empty N) = Some m ->
  forall c v, In v (nth c comps []) -> cm_of m v = N.of_nat c.
Proof.
  intros n comps m H c v Hv. destruct (cm_build_spec _ _ _ _ _ H) as [_ [_ [_ [Hk _]]]].
  unfold cm_of. rewrite (Hk c v Hv). reflexivity.
Qed.

Lemma cm_build_partition : forall g comps m,
  cm_build (g_n g) comps 0%N (PositiveMap.empty N) = Some m ->
  length (concat comps) = length g -> Permutation (concat comps) (nodes_upto (g_n g)).
Proof.
  intros g comps m H Hlen. destruct (cm_build_spec _ _ _ _ _ H) as [Hnd [_ [Hin _]]].
  apply NoDup_Permutation_bis. exact Hnd.
  - rewrite length_nodes_upto. unfold g_n. rewrite Nat2N.id. lia.
  - intros v Hv. apply in_nodes_upto. apply Hin. exact Hv.
Qed.

(* T2 *)
Theorem scc_component_correct : forall g comps m,
  cm_build (g_n g) comps 0%N (PositiveMap.empty N) = Some m ->
  forall c v, In v (comp_at comps c) -> cm_of m v = N.of_nat c.
Proof. intros g comps m H c v Hv. eapply cm_build_cof; eauto. Qed.

Theorem scc_component_correct_conv : forall g comps m,
  cm_build (g_n g) comps 0%N (PositiveMap.empty N) = Some m ->
  forall v, (v < g_n g)%N -> length (concat comps) = length g ->
  In v (comp_at comps (N.to_nat (cm_of m v))).
Proof.
  intros g comps m H v Hv Hlen. pose proof (cm_build_partition g comps m H Hlen) as Hp.
  assert (Hin : In v (concat comps)).
  { apply (Permutation_in _ (Permutation_sym Hp)). apply in_nodes_upto. exact Hv. }
  apply in_concat_nth in Hin. destruct Hin as [c Hc].
  rewrite (cm_build_cof _ _ _ H c v Hc), Nat2N.id. exact Hc.
Qed.

(* the list the checker exposes as SubnodeComponent *)
Corollary scc_component_of_correct : forall g comps l,
  scc_component_of g comps = Some l -> length (concat comps) = length g ->
  length l = length g /\
  forall v, (v < g_n g)%N -> In v (comp_at comps (N.to_nat (nth (N.to_nat v) l 0%N))).
Proof.
  intros g comps l H Hlen. unfold scc_component_of in H.
  destruct (cm_build (g_n g) comps 0%N (PositiveMap.empty N)) as [m|] eqn:Hm; [| discriminate H].
  injection H as H. subst l. split.
  - rewrite map_length, length_nodes_upto. unfold g_n. apply Nat2N.id.
  - intros v Hv.
    assert (E : nth (N.to_nat v) (map (fun v0 => cm_of m v0) (nodes_upto (g_n g))) 0%N = cm_of m v).
    { unfold nodes_upto. rewrite map_map.
      rewrite (nth_indep _ 0%N ((fun x => cm_of m (N.of_nat x)) 0%nat)).
      2:{ rewrite map_length, seq_length. lia. }
      rewrite (map_nth (fun x => cm_of m (N.of_nat x))). rewrite seq_nth by lia.
      cbn [plus]. rewrite N2Nat.id. reflexivity. }
    rewrite E. eapply scc_component_correct_conv; eauto.
Qed.

Lemma cm_add_members_complete : forall n c l m, NoDup l ->
  (forall v, In v l -> (v < n)%N /\ cm_get m v = None) ->
  exists m', cm_add_members n c l m = Some m'.
Proof.
  intros n c l. induction l as [|a t IH]; intros m Hnd Hin; cbn [cm_add_members]. eauto.
  apply NoDup_cons_iff in Hnd. destruct Hnd as [Hna Hnd].
  destruct (Hin a (or_introl eq_refl)) as [Han Hga].
  apply N.ltb_lt in Han. rewrite Han, Hga. cbn [andb]. apply IH. exact Hnd.
  intros v Hv. destruct (Hin v (or_intror Hv)) as [A B]. split. exact A.
  rewrite cm_get_add. destruct (N.eqb_spec v a) as [E|E]. subst v. contradiction. exact B.
Qed.

Lemma cm_build_complete : forall n comps c0 m0, NoDup (concat comps) ->
  (forall l, In l comps -> l <> []) ->
  (forall v, In v (concat comps) -> (v < n)%N /\ cm_get m0 v = None) ->
  exists m, cm_build n comps c0 m0 = Some m.
Proof.
  intros n comps. induction comps as [|l t IH]; intros c0 m0 Hnd Hne Hin. cbn [cm_build]. eauto.
  cbn [concat] in *. apply NoDup_app_iff in Hnd. destruct Hnd as [Hl [Ht Hd]].
  destruct (cm_add_members_complete n c0 l m0 Hl) as [m1 Hm1].
  { intros v Hv. apply Hin. apply in_or_app. left. exact Hv. }
  assert (Hlne : l <> []) by (apply Hne; left; reflexivity).
  assert (E : cm_build n (l :: t) c0 m0 = cm_build n t (c0 + 1)%N m1).
  { cbn [cm_build]. rewrite Hm1. destruct l. congruence. reflexivity. }
  rewrite E. apply IH. exact Ht.
  - intros l' Hl'. apply Hne. right. exact Hl'.
  - intros v Hv. destruct (Hin v (in_or_app _ _ _ (or_intror Hv))) as [A B]. split. exact A.
    destruct (cm_add_members_spec _ _ _ _ _ Hm1) as [_ [_ Hout]]. rewrite Hout. exact B.
    intros Hvl. exact (Hd v Hvl Hv).
Qed.

(* ------------------------------------------------------------------ (b) edges go down *)
Lemma edges_down_spec : forall cof g u0, edges_down cof g u0 = true <->
  forall k v, In v (nth k g []) -> (cof v <= cof (u0 + N.of_nat k))%N.
Proof.
  intros cof g. induction g as [|l t IH]; intros u0; cbn [edges_down].
  - split. intros _ k v Hv. destruct k; simpl in Hv; contradiction. reflexivity.
  - rewrite andb_true_iff, forallb_forall, IH. split.
    + intros [H1 H2] k v Hv. destruct k as [|k].
      * replace (u0 + N.of_nat 0)%N with u0 by lia. apply N.leb_le. apply H1. exact Hv.
      * replace (u0 + N.of_nat (S k))%N with (u0 + 1 + N.of_nat k)%N by lia. apply H2. exact Hv.
    + intros H. split.
      * intros v Hv. apply N.leb_le. specialize (H 0%nat v Hv).
        replace (u0 + N.of_nat 0)%N with u0 in H by lia. exact H.
      * intros k v Hv. specialize (H (S k) v Hv).
        replace (u0 + N.of_nat (S k))%N with (u0 + 1 + N.of_nat k)%N in H by lia. exact H.
Qed.

Lemma edges_down_graph : forall cof g, edges_down cof g 0%N = true <->
  forall u v, In v (g_out g u) -> (cof v <= cof u)%N.
Proof.
  intros cof g. rewrite edges_down_spec. unfold g_out. split.
  - intros H u v Hv. specialize (H (N.to_nat u) v Hv). rewrite N2Nat.id in H. exact H.
  - intros H k v Hv. change (0 + N.of_nat k)%N with (N.of_nat k). apply H. rewrite Nat2N.id. exact Hv.
Qed.

Lemma path_mono : forall out (cof : N -> N), (forall u v, In v (out u) -> (cof v <= cof u)%N) ->
  forall u v, path out u v -> (cof v <= cof u)%N.
Proof.
  intros out cof H u v Hp. induction Hp as [u|u v w Hin Hp IH]. lia.
  specialize (H u v Hin). lia.
Qed.

(* ------------------------------------------------------------------ (c) restriction *)
Lemma in_restrict : forall cof c out u v,
  In v (restrict cof c out u) <-> cof u = c /\ cof v = c /\ In v (out u).
Proof.
  intros cof c out u v. unfold restrict. destruct (N.eqb_spec (cof u) c) as [E|E].
  - rewrite filter_In, N.eqb_eq. tauto.
  - simpl. tauto.
Qed.

Lemma restrict_path_sub : forall cof c out u v, path (restrict cof c out) u v -> path out u v.
Proof.
  intros cof c out u v Hp. induction Hp as [u|u v w Hin Hp IH]. constructor.
  apply in_restrict in Hin. destruct Hin as [_ [_ Hin]]. econstructor. exact Hin. exact IH.
Qed.

Lemma restrict_path_sup : forall cof c out, (forall u v, In v (out u) -> (cof v <= cof u)%N) ->
  forall u v, path out u v -> cof u = c -> cof v = c -> path (restrict cof c out) u v.
Proof.
  intros cof c out Hm u v Hp. induction Hp as [u|u v w Hin Hp IH]; intros Hu Hw. constructor.
  pose proof (Hm u v Hin) as H1. pose proof (path_mono out cof Hm v w Hp) as H2.
  assert (Hv : cof v = c) by lia.
  econstructor.
  - apply in_restrict. split. exact Hu. split. exact Hv. exact Hin.
  - apply IH; assumption.
Qed.

Lemma restrict_wf : forall cof c out n, out_wf out n -> out_wf (restrict cof c out) n.
Proof.
  intros cof c out n H u v Huv. apply in_restrict in Huv. destruct Huv as [_ [_ Huv]]. exact (H u v Huv).
Qed.

Lemma edge_count_restrict : forall cof c out n, edge_count (restrict cof c out) n <= edge_count out n.
Proof.
  intros cof c out n. unfold edge_count. apply list_sum_le. intros w. unfold restrict.
  destruct (cof w =? c)%N. apply filter_length_le'. simpl. lia.
Qed.

(* ------------------------------------------------------------------ (d) the transposed graph *)
Lemma gm_out_add : forall (t : gmap) (v : N) (l : list N) (w : N),
  gm_out (PositiveMap.add (N.succ_pos v) l t) w = if (w =? v)%N then l else gm_out t w.
Proof.
  intros t v l w. unfold gm_out. destruct (N.eqb_spec w v) as [E|E].
  - subst w. rewrite PositiveMap.gss. reflexivity.
  - rewrite PositiveMap.gso. reflexivity. intros H. apply E. apply succ_pos_inj. exact H.
Qed.

Lemma tr_add_in : forall l u t v x,
  In x (gm_out (tr_add u l t) v) <-> (x = u /\ In v l) \/ In x (gm_out t v).
Proof.
  intros l u. induction l as [|a r IH]; intros t v x; cbn [tr_add In].
  - tauto.
  - rewrite IH, gm_out_add. destruct (N.eqb_spec v a) as [E|E].
    + subst a. cbn [In]. split.
      * intros [[H1 H2]|[H|H]]; auto.
      * intros [[H1 [H2|H2]]|H]; auto.
    + split.
      * intros [[H1 H2]|H]; auto.
      * intros [[H1 [H2|H2]]|H]; auto. exfalso. apply E. symmetry. exact H2.
Qed.

Lemma tr_build_in : forall g u0 t v x,
  In x (gm_out (tr_build g u0 t) v) <->
  (exists k, x = (u0 + N.of_nat k)%N /\ In v (nth k g [])) \/ In x (gm_out t v).
Proof.
  induction g as [|l r IH]; intros u0 t v x; cbn [tr_build].
  - split. intros H. right. exact H.
    intros [[k [_ Hk]]|H]. destruct k; simpl in Hk; contradiction. exact H.
  - rewrite IH, tr_add_in. split.
    + intros [[k [E Hk]]|[[E Hv]|H]].
      * left. exists (S k). split. lia. exact Hk.
      * left. exists 0%nat. split. lia. exact Hv.
      * right. exact H.
    + intros [[k [E Hk]]|H].
      * destruct k as [|k].
        right. left. split. lia. exact Hk.
        left. exists k. split. lia. exact Hk.
      * right. right. exact H.
Qed.

Definition tr_of (g : graph) : N -> list N := gm_out (tr_build g 0%N (PositiveMap.empty _)).

Lemma tr_of_in : forall g u v, In u (tr_of g v) <-> In v (g_out g u).
Proof.
  intros g u v. unfold tr_of. rewrite tr_build_in. unfold g_out. split.
  - intros [[k [E Hk]]|H].
    + subst u. change (0 + N.of_nat k)%N with (N.of_nat k). rewrite Nat2N.id. exact Hk.
    + unfold gm_out in H. rewrite PositiveMap.gempty in H. destruct H.
  - intros H. left. exists (N.to_nat u). split. rewrite N2Nat.id. reflexivity. exact H.
Qed.

Lemma g_out_in_lt : forall g u v, In v (g_out g u) -> (u < g_n g)%N.
Proof.
  intros g u v H. unfold g_out in H. apply in_nth_lt in H. unfold g_n. lia.
Qed.

Lemma tr_of_wf : forall g, out_wf (tr_of g) (g_n g).
Proof. intros g v u H. apply tr_of_in in H. eapply g_out_in_lt. exact H. Qed.

Lemma path_transpose : forall out tr, (forall u v, In u (tr v) <-> In v (out u)) ->
  forall a b, path tr a b <-> path out b a.
Proof.
  intros out tr H a b. split; intros Hp; induction Hp as [u|u v w Hin Hp IH]; try constructor.
  - eapply path_snoc. exact IH. apply H. exact Hin.
  - eapply path_snoc. exact IH. apply H. exact Hin.
Qed.

Lemma restrict_transpose : forall cof c out tr, (forall u v, In u (tr v) <-> In v (out u)) ->
  forall u v, In u (restrict cof c tr v) <-> In v (restrict cof c out u).
Proof. intros cof c out tr H u v. rewrite !in_restrict, H. tauto. Qed.

Lemma edge_count_empty : forall n, edge_count (gm_out (PositiveMap.empty _)) n = 0.
Proof.
  intros n. unfold edge_count. induction (nodes_upto n) as [|a L IH]; simpl. reflexivity.
  rewrite IH. unfold gm_out. rewrite PositiveMap.gempty. reflexivity.
Qed.

Lemma tr_add_count : forall n l u t,
  edge_count (gm_out (tr_add u l t)) n <= edge_count (gm_out t) n + length l.
Proof.
  intros n l u. induction l as [|a r IH]; intros t; cbn [tr_add length]. lia.
  specialize (IH (PositiveMap.add (N.succ_pos a) (u :: gm_out t a) t)).
  assert (H : edge_count (gm_out (PositiveMap.add (N.succ_pos a) (u :: gm_out t a) t)) n
              <= S (edge_count (gm_out t) n)).
  { unfold edge_count. apply (list_sum_bump _ _ a). apply NoDup_nodes_upto.
    - intros w Hw. cbv beta. rewrite gm_out_add. destruct (N.eqb_spec w a). contradiction. reflexivity.
    - cbv beta. rewrite gm_out_add, N.eqb_refl. reflexivity. }
  lia.
Qed.

Lemma tr_build_count : forall n g u t,
  edge_count (gm_out (tr_build g u t)) n <= edge_count (gm_out t) n + length (concat g).
Proof.
  intros n g. induction g as [|l r IH]; intros u t; cbn [tr_build concat]. simpl. lia.
  rewrite app_length. specialize (IH (u + 1)%N (tr_add u l t)).
  pose proof (tr_add_count n l u t). lia.
Qed.

Lemma tr_of_count : forall g n, edge_count (tr_of g) n <= length (concat g).
Proof.
  intros g n. unfold tr_of. pose proof (tr_build_count n g 0%N (PositiveMap.empty _)) as H.
  rewrite edge_count_empty in H. lia.
Qed.

(* ------------------------------------------------------------------ (e) strong components *)
Lemma comp_strong_sound : forall out tr cof fuel c members,
  comp_strong out tr cof fuel c members = true ->
  exists r rest, members = r :: rest /\
    forall v, In v members -> path (restrict cof c out) r v /\ path (restrict cof c tr) r v.
Proof.
  intros out tr cof fuel c members H. unfold comp_strong in H. destruct members as [|r rest]. discriminate H.
  destruct (reach (restrict cof c out) fuel r) as [s1|] eqn:E1; [| discriminate H].
  destruct (reach (restrict cof c tr) fuel r) as [s2|] eqn:E2; [| discriminate H].
  exists r, rest. split. reflexivity. intros v Hv. rewrite forallb_forall in H. specialize (H v Hv).
  apply andb_true_iff in H. destruct H as [H1 H2]. split.
  - apply (reach_spec _ _ _ _ E1). exact H1.
  - apply (reach_spec _ _ _ _ E2). exact H2.
Qed.

Lemma comp_strong_complete : forall out tr cof fuel n c members,
  out_wf out n -> out_wf tr n ->
  (forall u v, In u (tr v) <-> In v (out u)) ->
  (forall u v, In v (out u) -> (cof v <= cof u)%N) ->
  reach_fuel out n <= fuel -> reach_fuel tr n <= fuel ->
  members <> [] ->
  (forall v, In v members -> (v < n)%N /\ cof v = c) ->
  (forall u v, In u members -> In v members -> path out u v) ->
  comp_strong out tr cof fuel c members = true.
Proof.
  intros out tr cof fuel n c members Hwo Hwt Htr Hm Hfo Hft Hne Hin Hp.
  destruct members as [|r rest]. congruence. unfold comp_strong.
  assert (Hr : In r (r :: rest)) by (left; reflexivity).
  destruct (Hin r Hr) as [Hrn Hrc].
  assert (F1 : reach_fuel (restrict cof c out) n <= fuel).
  { pose proof (edge_count_restrict cof c out n). unfold reach_fuel in *. lia. }
  assert (F2 : reach_fuel (restrict cof c tr) n <= fuel).
  { pose proof (edge_count_restrict cof c tr n). unfold reach_fuel in *. lia. }
  destruct (reach_complete_set (restrict cof c out) n r fuel (restrict_wf cof c out n Hwo) Hrn F1) as [s1 [E1 S1]].
  destruct (reach_complete_set (restrict cof c tr) n r fuel (restrict_wf cof c tr n Hwt) Hrn F2) as [s2 [E2 S2]].
  rewrite E1, E2. apply forallb_forall. intros v Hv. destruct (Hin v Hv) as [Hvn Hvc].
  apply andb_true_iff. split.
  - apply S1. apply restrict_path_sup; auto.
  - apply S2. apply (path_transpose (restrict cof c out) (restrict cof c tr)).
    + apply restrict_transpose. exact Htr.
    + apply restrict_path_sup; auto.
Qed.

Lemma comps_strong_spec : forall out tr cof fuel comps c0,
  comps_strong out tr cof fuel comps c0 = true <->
  forall k, k < length comps -> comp_strong out tr cof fuel (c0 + N.of_nat k)%N (nth k comps []) = true.
Proof.
  intros out tr cof fuel comps. induction comps as [|l t IH]; intros c0; cbn [comps_strong length].
  - split. intros _ k Hk. lia. reflexivity.
  - rewrite andb_true_iff, IH. split.
    + intros [H1 H2] k Hk. destruct k as [|k].
      * replace (c0 + N.of_nat 0)%N with c0 by lia. exact H1.
      * replace (c0 + N.of_nat (S k))%N with (c0 + 1 + N.of_nat k)%N by lia. apply H2. lia.
    + intros H. split.
      * specialize (H 0%nat). replace (c0 + N.of_nat 0)%N with c0 in H by lia. apply H. lia.
      * intros k Hk. specialize (H (S k)).
        replace (c0 + N.of_nat (S k))%N with (c0 + 1 + N.of_nat k)%N in H by lia. apply H. lia.
Qed.

Lemma scc_ok_inv : forall g comps, scc_ok g comps = true ->
  exists m, cm_build (g_n g) comps 0%N (PositiveMap.empty N) = Some m /\
    length (concat comps) = length g /\
    edges_down (cm_of m) g 0%N = true /\
    comps_strong (gm_out (gm_build g)) (tr_of g) (cm_of m) (scc_fuel g) comps 0%N = true.
Proof.
  intros g comps H. unfold scc_ok in H. cbv zeta in H.
  destruct (cm_build (g_n g) comps 0%N (PositiveMap.empty N)) as [m|] eqn:E; [| discriminate H].
  exists m. apply andb_true_iff in H. destruct H as [H H3]. apply andb_true_iff in H. destruct H as [H1 H2].
  apply Nat.eqb_eq in H1. auto.
Qed.

(* T1 *)
Theorem scc_ok_sound : forall g comps, g_wf g -> scc_ok g comps = true -> scc_spec g comps.
Proof.
  intros g comps Hwf H. destruct (scc_ok_inv _ _ H) as [m [Hm [Hlen [Hdown Hstrong]]]].
  pose proof (cm_build_cof _ _ _ Hm) as Hcof.
  destruct (cm_build_spec _ _ _ _ _ Hm) as [_ [Hne _]].
  rewrite edges_down_graph in Hdown.
  constructor.
  - eapply cm_build_partition; eauto.
  - exact Hne.
  - intros c1 c2 u v Hu Hv. unfold comp_at in *. split.
    + intros E. subst c2.
      assert (Hc : c1 < length comps) by (eapply in_nth_lt; exact Hu).
      rewrite comps_strong_spec in Hstrong. specialize (Hstrong c1 Hc).
      change (0 + N.of_nat c1)%N with (N.of_nat c1) in Hstrong.
      destruct (comp_strong_sound _ _ _ _ _ _ Hstrong) as [r [rest [_ Hall]]].
      destruct (Hall u Hu) as [Pu Qu]. destruct (Hall v Hv) as [Pv Qv].
      assert (Hgo : forall a b, path (restrict (cm_of m) (N.of_nat c1) (gm_out (gm_build g))) a b ->
                                path (g_out g) a b).
      { intros a b P. apply restrict_path_sub in P. eapply path_ext; [| exact P]. apply gm_out_build. }
      assert (Htr : forall a b, path (restrict (cm_of m) (N.of_nat c1) (tr_of g)) a b ->
                                path (g_out g) b a).
      { intros a b P. apply restrict_path_sub in P.
        apply (path_transpose (g_out g) (tr_of g)). intros; apply tr_of_in. exact P. }
      split.
      * apply path_trans with r. apply Htr; exact Qu. apply Hgo; exact Pv.
      * apply path_trans with r. apply Htr; exact Qv. apply Hgo; exact Pu.
    + intros [P1 P2]. pose proof (path_mono _ _ Hdown _ _ P1) as L1.
      pose proof (path_mono _ _ Hdown _ _ P2) as L2.
      rewrite (Hcof _ _ Hu), (Hcof _ _ Hv) in *. lia.
  - intros c1 c2 u v Hu Hv Hin. unfold comp_at in *. specialize (Hdown u v Hin).
    rewrite (Hcof _ _ Hu), (Hcof _ _ Hv) in Hdown. lia.
Qed.

(* T4 *)
Lemma scc_spec_cm_build : forall g comps, scc_spec g comps ->
  exists m, cm_build (g_n g) comps 0%N (PositiveMap.empty N) = Some m.
Proof.
  intros g comps [Hp Hne _ _]. apply cm_build_complete.
  - apply (Permutation_NoDup (Permutation_sym Hp)). apply NoDup_nodes_upto.
  - exact Hne.
  - intros v Hv. split. apply in_nodes_upto. eapply Permutation_in; eauto.
    unfold cm_get. apply PositiveMap.gempty.
Qed.

Lemma scc_spec_length : forall g comps, scc_spec g comps -> length (concat comps) = length g.
Proof.
  intros g comps [Hp _ _ _]. rewrite (Permutation_length Hp), length_nodes_upto. unfold g_n. apply Nat2N.id.
Qed.

Theorem scc_ok_complete : forall g comps, g_wf g -> scc_spec g comps -> scc_ok g comps = true.
Proof.
  intros g comps Hwf Hs. destruct (scc_spec_cm_build _ _ Hs) as [m Hm].
  pose proof (cm_build_cof _ _ _ Hm) as Hcof.
  pose proof (scc_spec_length _ _ Hs) as Hlen.
  destruct Hs as [Hp Hne Hmut Hrev]. unfold comp_at in *.
  assert (Hcomp : forall v, (v < g_n g)%N -> exists c, In v (nth c comps [])).
  { intros v Hv. apply in_concat_nth. apply (Permutation_in _ (Permutation_sym Hp)).
    apply in_nodes_upto. exact Hv. }
  assert (Hdown : forall u v, In v (g_out g u) -> (cm_of m v <= cm_of m u)%N).
  { intros u v Hin. destruct (Hcomp u (g_out_in_lt _ _ _ Hin)) as [c1 Hu].
    destruct (Hcomp v (Hwf _ _ Hin)) as [c2 Hv].
    rewrite (Hcof _ _ Hu), (Hcof _ _ Hv). pose proof (Hrev _ _ _ _ Hu Hv Hin). lia. }
  unfold scc_ok. cbv zeta. rewrite Hm. rewrite Hlen, Nat.eqb_refl.
  rewrite (proj2 (edges_down_graph _ _) Hdown). cbn [andb].
  apply comps_strong_spec. intros k Hk. change (0 + N.of_nat k)%N with (N.of_nat k).
  apply comp_strong_complete with (n := g_n g).
  - intros u v Huv. rewrite gm_out_build in Huv. exact (Hwf u v Huv).
  - exact (tr_of_wf g).
  - intros u v. rewrite gm_out_build. apply tr_of_in.
  - intros u v Huv. rewrite gm_out_build in Huv. exact (Hdown u v Huv).
  - unfold reach_fuel, scc_fuel. rewrite (edge_count_ext _ (g_out g)) by (apply gm_out_build).
    rewrite edge_count_graph. unfold g_n. rewrite Nat2N.id. lia.
  - pose proof (tr_of_count g (g_n g)) as Hc. unfold reach_fuel, scc_fuel.
    unfold tr_of in Hc. unfold g_n in *. rewrite Nat2N.id. lia.
  - apply Hne. apply nth_In. exact Hk.
  - intros v Hv. split.
    + apply in_nodes_upto. apply (Permutation_in _ Hp). apply in_concat_nth. exists k. exact Hv.
    + apply (Hcof _ _ Hv).
  - intros u v Hu Hv. eapply path_ext. intros a. symmetry. apply gm_out_build.
    apply (proj1 (Hmut k k u v Hu Hv) eq_refl).
Qed.

Theorem scc_ok_sound_complete : forall g comps, g_wf g -> (scc_ok g comps = true <-> scc_spec g comps).
Proof.
  intros g comps Hwf. split. apply scc_ok_sound; exact Hwf. apply scc_ok_complete; exact Hwf.
Qed.

(* ------------------------------------------------------------------ (g) component edges *)
Lemma ns_of_list_mem : forall l d, ns_mem d (ns_of_list l) = true <-> In d l.
Proof.
  induction l as [|a l IH]; intros d.
  - change (ns_of_list []) with ns_empty. rewrite ns_mem_empty. split. discriminate. intros [].
  - change (ns_of_list (a :: l)) with (ns_add a (ns_of_list l)).
    rewrite ns_mem_add_true, IH. cbn [In]. split; intros [H|H]; auto.
Qed.

Lemma nodup_ns_spec : forall l s, nodup_ns l s = true <->
  NoDup l /\ forall x, In x l -> ns_mem x s = false.
Proof.
  induction l as [|a t IH]; intros s; cbn [nodup_ns].
  - split. intros _. split. constructor. intros x []. reflexivity.
  - rewrite andb_true_iff, negb_true_iff, IH, NoDup_cons_iff. split.
    + intros [Ha [Hnd Hall]]. split.
      * split; [| exact Hnd]. intros Hat. specialize (Hall a Hat).
        rewrite ns_mem_add, N.eqb_refl in Hall. discriminate Hall.
      * intros x [Hx|Hx]. subst x. exact Ha. specialize (Hall x Hx). rewrite ns_mem_add in Hall.
        apply orb_false_iff in Hall. apply Hall.
    + intros [[Hna Hnd] Hall]. split. apply Hall. left. reflexivity. split. exact Hnd.
      intros x Hx. rewrite ns_mem_add. apply orb_false_iff. split.
      * apply N.eqb_neq. intros E. subst x. exact (Hna Hx).
      * apply Hall. right. exact Hx.
Qed.

Lemma comp_targets_in : forall out cof c members d,
  In d (comp_targets out cof c members) <->
  d <> c /\ exists u v, In u members /\ In v (out u) /\ cof v = d.
Proof.
  intros out cof c members d. unfold comp_targets.
  rewrite filter_In, in_map_iff, negb_true_iff, N.eqb_neq. split.
  - intros [[v [E Hv]] Hd]. apply in_flat_map in Hv. destruct Hv as [u [Hu Hv]].
    split. exact Hd. exists u, v. auto.
  - intros [Hd [u [v [Hu [Hv E]]]]]. split; [| exact Hd]. exists v. split. exact E.
    apply in_flat_map. exists u. auto.
Qed.

Lemma out_ok_spec : forall out cof c members oc, out_ok out cof c members oc = true <->
  NoDup oc /\ forall d, In d oc <-> In d (comp_targets out cof c members).
Proof.
  intros out cof c members oc. unfold out_ok. cbv zeta.
  rewrite !andb_true_iff, nodup_ns_spec, !forallb_forall. split.
  - intros [[[Hnd _] H1] H2]. split. exact Hnd. intros d. split.
    + intros Hd. apply ns_of_list_mem. apply H2. exact Hd.
    + intros Hd. apply ns_of_list_mem. apply H1. exact Hd.
  - intros [Hnd H]. split. split. split. exact Hnd. intros x _. apply ns_mem_empty.
    + intros d Hd. apply ns_of_list_mem. apply H. exact Hd.
    + intros d Hd. apply ns_of_list_mem. apply H. exact Hd.
Qed.

Lemma outs_ok_spec : forall out cof comps outs c0, outs_ok out cof comps outs c0 = true <->
  length outs = length comps /\
  forall k, k < length comps ->
    out_ok out cof (c0 + N.of_nat k)%N (nth k comps []) (nth k outs []) = true.
Proof.
  intros out cof comps. induction comps as [|l t IH]; intros outs c0; destruct outs as [|oc ot];
    cbn [outs_ok length].
  - split. intros _. split. reflexivity. intros k Hk. lia. reflexivity.
  - split. discriminate. intros [H _]. discriminate H.
  - split. discriminate. intros [H _]. discriminate H.
  - rewrite andb_true_iff, IH. split.
    + intros [H1 [H2 H3]]. split. lia. intros k Hk. destruct k as [|k].
      * replace (c0 + N.of_nat 0)%N with c0 by lia. exact H1.
      * replace (c0 + N.of_nat (S k))%N with (c0 + 1 + N.of_nat k)%N by lia. apply H3. lia.
    + intros [H1 H2]. split.
      * specialize (H2 0%nat). replace (c0 + N.of_nat 0)%N with c0 in H2 by lia. apply H2. lia.
      * split. lia. intros k Hk. specialize (H2 (S k)).
        replace (c0 + N.of_nat (S k))%N with (c0 + 1 + N.of_nat k)%N in H2 by lia. apply H2. lia.
Qed.

Lemma targets_equiv : forall g comps m, g_wf g ->
  cm_build (g_n g) comps 0%N (PositiveMap.empty N) = Some m ->
  length (concat comps) = length g ->
  forall c d,
  In d (comp_targets (gm_out (gm_build g)) (cm_of m) (N.of_nat c) (nth c comps [])) <->
  (N.to_nat d <> c /\
   exists u v, In u (comp_at comps c) /\ In v (comp_at comps (N.to_nat d)) /\ In v (g_out g u)).
Proof.
  intros g comps m Hwf Hm Hlen c d. rewrite comp_targets_in. unfold comp_at. split.
  - intros [Hd [u [v [Hu [Hv E]]]]]. rewrite gm_out_build in Hv. split. lia.
    exists u, v. split. exact Hu. split; [| exact Hv].
    subst d. apply (scc_component_correct_conv g comps m Hm). apply (Hwf _ _ Hv). exact Hlen.
  - intros [Hd [u [v [Hu [Hv Hin]]]]]. split. lia. exists u, v. split. exact Hu.
    split. rewrite gm_out_build. exact Hin.
    rewrite (cm_build_cof _ _ _ Hm _ _ Hv). apply N2Nat.id.
Qed.

Lemma edges_equiv : forall g comps outs m, g_wf g ->
  cm_build (g_n g) comps 0%N (PositiveMap.empty N) = Some m ->
  length (concat comps) = length g ->
  (outs_ok (gm_out (gm_build g)) (cm_of m) comps outs 0%N = true <-> scc_edges_spec g comps outs).
Proof.
  intros g comps outs m Hwf Hm Hlen. rewrite outs_ok_spec. unfold scc_edges_spec. split.
  - intros [Hl Hall]. split. exact Hl. intros c Hc. specialize (Hall c Hc).
    change (0 + N.of_nat c)%N with (N.of_nat c) in Hall.
    apply out_ok_spec in Hall. destruct Hall as [Hnd Hd]. split. exact Hnd.
    intros d. rewrite Hd. apply targets_equiv; assumption.
  - intros [Hl Hall]. split. exact Hl. intros c Hc. destruct (Hall c Hc) as [Hnd Hd].
    change (0 + N.of_nat c)%N with (N.of_nat c). apply out_ok_spec. split. exact Hnd.
    intros d. rewrite Hd. symmetry. apply targets_equiv; assumption.
Qed.

(* T3 *)
Theorem scc_edges_ok_sound : forall g comps outs, g_wf g -> scc_ok g comps = true ->
  scc_edges_ok g comps outs = true -> scc_edges_spec g comps outs.
Proof.
  intros g comps outs Hwf Hok He. destruct (scc_ok_inv _ _ Hok) as [m [Hm [Hlen _]]].
  unfold scc_edges_ok in He. rewrite Hm in He. apply (edges_equiv g comps outs m Hwf Hm Hlen). exact He.
Qed.

(* T5 *)
Theorem scc_edges_ok_complete : forall g comps outs, g_wf g -> scc_spec g comps ->
  scc_edges_spec g comps outs -> scc_edges_ok g comps outs = true.
Proof.
  intros g comps outs Hwf Hs He. destruct (scc_spec_cm_build _ _ Hs) as [m Hm].
  pose proof (scc_spec_length _ _ Hs) as Hlen.
  unfold scc_edges_ok. rewrite Hm. apply (edges_equiv g comps outs m Hwf Hm Hlen). exact He.
Qed.

Theorem scc_edges_ok_sound_complete : forall g comps outs, g_wf g -> scc_spec g comps ->
  (scc_edges_ok g comps outs = true <-> scc_edges_spec g comps outs).
Proof.
  intros g comps outs Hwf Hs. split.
  - intros He. apply scc_edges_ok_sound; try assumption. apply scc_ok_complete; assumption.
  - apply scc_edges_ok_complete; assumption.
Qed.

Print Assumptions scc_ok_sound.
Print Assumptions scc_component_correct.
Print Assumptions scc_component_correct_conv.
Print Assumptions scc_component_of_correct.
Print Assumptions scc_edges_ok_sound.
Print Assumptions scc_ok_complete.
Print Assumptions scc_edges_ok_complete.
Print Assumptions scc_ok_sound_complete.
Print Assumptions scc_edges_ok_sound_complete.

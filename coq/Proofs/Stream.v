(* Proofs/Stream.v — the StreamStats model equals batch statistics for every
   history of Add and Combine (C13). *)
From MM Require Import Base.Num Model.Stream.
From Coq Require Import Permutation Field Lqa Setoid Morphisms NArith Nnat.
Local Open Scope Q_scope.

(* ---------- batch (definitional) statistics ---------- *)
Definition Qsumsq (xs : list Q) : Q := Qsum (map Qsq xs).
Definition nQ (xs : list Q) : Q := Qofnat (length xs).
Definition mean_def (xs : list Q) : Q := Qsum xs / nQ xs.
Definition meansq_def (xs : list Q) : Q := Qsumsq xs / nQ xs.
(* sum of squared deviations from the mean *)
Definition ssd_def (xs : list Q) : Q := Qsum (map (fun x => Qsq (x - mean_def xs)) xs).
Definition var_def (xs : list Q) : Q := ssd_def xs / (nQ xs - 1).
Definition is_min (m : Q) (xs : list Q) : Prop := (exists x, In x xs /\ x == m) /\ forall y, In y xs -> m <= y.
Definition is_max (m : Q) (xs : list Q) : Prop := (exists x, In x xs /\ x == m) /\ forall y, In y xs -> y <= m.

Record Inv (s : sstate) (xs : list Q) : Prop := {
  inv_count : s_count s = N.of_nat (length xs);
  inv_total : s_total s == Qsum xs;
  inv_mean  : s_mean s * nQ xs == Qsum xs;
  inv_msq   : s_msq s * nQ xs == Qsumsq xs;
  inv_m2    : s_m2 s == Qsumsq xs - nQ xs * (s_mean s * s_mean s);
  inv_min   : xs <> [] -> is_min (s_min s) xs;
  inv_max   : xs <> [] -> is_max (s_max s) xs
}.

(* ---------- small facts ---------- *)
Lemma Qsum_app a b : Qsum (a ++ b) == Qsum a + Qsum b.
Proof. induction a as [|x a IH]; cbn [Qsum app]; [ring | rewrite IH; ring]. Qed.
Lemma Qsumsq_app a b : Qsumsq (a ++ b) == Qsumsq a + Qsumsq b.
Proof. unfold Qsumsq. rewrite map_app. apply Qsum_app. Qed.
Lemma nQ_app a b : nQ (a ++ b) == nQ a + nQ b.
Proof. unfold nQ, Qofnat. rewrite app_length, Nat2Z.inj_add, inject_Z_plus. reflexivity. Qed.
Lemma nQ_single x : nQ [x] == 1.
Proof. reflexivity. Qed.
Lemma nQ_nonneg xs : 0 <= nQ xs.
Proof. unfold nQ, Qofnat. change 0 with (inject_Z 0). rewrite <- Zle_Qle. lia. Qed.
Lemma nQ_pos xs : xs <> [] -> 0 < nQ xs.
Proof. intros H. unfold nQ, Qofnat. change 0 with (inject_Z 0). rewrite <- Zlt_Qlt.
  destruct xs; [congruence | cbn [length]; lia]. Qed.
Lemma QofN_nat n : QofN (N.of_nat n) = Qofnat n.
Proof. unfold QofN, Qofnat. now rewrite nat_N_Z. Qed.

Lemma Qltb_true a b : Qltb a b = true <-> a < b.
Proof. unfold Qltb. rewrite negb_true_iff. split.
  - intros H. apply Qnot_le_lt. intro L. apply Qle_bool_iff in L. congruence.
  - intros H. destruct (Qle_bool b a) eqn:E; [|reflexivity]. apply Qle_bool_iff in E. exfalso. apply (Qlt_not_le _ _ H E). Qed.
Lemma Qltb_false a b : Qltb a b = false <-> b <= a.
Proof. unfold Qltb. rewrite negb_false_iff. apply Qle_bool_iff. Qed.

(* ---------- init / add ---------- *)
Lemma inv_init : Inv s_init [].
Proof. split; cbn; try reflexivity; try (intros H; congruence). Qed.

Lemma is_min_single x : is_min x [x].
Proof. split; [exists x; split; [left|]; reflexivity|]. intros y [<-|[]]. apply Qle_refl. Qed.
Lemma is_max_single x : is_max x [x].
Proof. split; [exists x; split; [left|]; reflexivity|]. intros y [<-|[]]. apply Qle_refl. Qed.

Lemma is_min_app m1 m2 a b : is_min m1 a -> is_min m2 b ->
  is_min (if Qltb m2 m1 then m2 else m1) (a ++ b).
Proof.
  intros [[x [Hx Ex]] L1] [[y [Hy Ey]] L2]. destruct (Qltb m2 m1) eqn:E.
  - apply Qltb_true in E. split.
    + exists y. split; [apply in_or_app; now right | exact Ey].
    + intros z Hz. apply in_app_or in Hz as [Hz|Hz]; [|now apply L2].
      apply Qle_trans with m1; [now apply Qlt_le_weak | now apply L1].
  - apply Qltb_false in E. split.
    + exists x. split; [apply in_or_app; now left | exact Ex].
    + intros z Hz. apply in_app_or in Hz as [Hz|Hz]; [now apply L1|].
      apply Qle_trans with m2; [exact E | now apply L2].
Qed.
Lemma is_max_app m1 m2 a b : is_max m1 a -> is_max m2 b ->
  is_max (if Qltb m1 m2 then m2 else m1) (a ++ b).
Proof.
  intros [[x [Hx Ex]] L1] [[y [Hy Ey]] L2]. destruct (Qltb m1 m2) eqn:E.
  - apply Qltb_true in E. split.
    + exists y. split; [apply in_or_app; now right | exact Ey].
    + intros z Hz. apply in_app_or in Hz as [Hz|Hz]; [|now apply L2].
      apply Qle_trans with m1; [now apply L1 | now apply Qlt_le_weak].
  - apply Qltb_false in E. split.
    + exists x. split; [apply in_or_app; now left | exact Ex].
    + intros z Hz. apply in_app_or in Hz as [Hz|Hz]; [now apply L1|].
      apply Qle_trans with m2; [now apply L2 | exact E].
Qed.

Lemma count_zero_nil s xs : Inv s xs -> (s_count s =? 0)%N = true -> xs = [].
Proof. intros I H. apply N.eqb_eq in H. rewrite (inv_count _ _ I) in H. destruct xs; [reflexivity | cbn in H; lia]. Qed.
Lemma count_nonzero_cons s xs : Inv s xs -> (s_count s =? 0)%N = false -> xs <> [].
Proof. intros I H ->. apply N.eqb_neq in H. rewrite (inv_count _ _ I) in H. cbn in H. congruence. Qed.

Lemma add_inv s xs x : Inv s xs -> Inv (s_add s x) (xs ++ [x]).
Proof.
  intros I. pose proof (inv_count _ _ I) as Hc.
  assert (Hn : QofN (s_count s + 1) == nQ xs + 1).
  { rewrite Hc. replace (N.of_nat (length xs) + 1)%N with (N.of_nat (length (xs ++ [x]))) by (rewrite app_length; cbn; lia).
    rewrite QofN_nat. fold (nQ (xs ++ [x])). rewrite nQ_app. reflexivity. }
  assert (Hpos : ~ nQ xs + 1 == 0).
  { pose proof (nQ_nonneg xs). intro E. lra. }
  split; unfold s_add; cbn [s_count s_total s_mean s_msq s_m2 s_min s_max].
  - rewrite Hc, app_length. cbn. lia.
  - rewrite Qred_correct, Qsum_app, (inv_total _ _ I). cbn. ring.
  - rewrite Qred_correct, nQ_app, nQ_single, Qsum_app, Hn. cbn [Qsum].
    rewrite <- (inv_mean _ _ I). field. exact Hpos.
  - rewrite Qred_correct, nQ_app, nQ_single, Qsumsq_app, Hn. unfold Qsumsq at 2. cbn [map Qsum].
    rewrite <- (inv_msq _ _ I). unfold Qsq. field. exact Hpos.
  - rewrite !Qred_correct, nQ_app, nQ_single, Qsumsq_app, Hn. unfold Qsumsq at 2. cbn [map Qsum].
    rewrite (inv_m2 _ _ I). unfold Qsq.
    (* express Qsumsq xs, Qsum xs through the invariant; pure field identity in mean, n, x *)
    pose proof (inv_mean _ _ I) as Hm.
    field. exact Hpos.
  - intros _. destruct (s_count s =? 0)%N eqn:E.
    + rewrite (count_zero_nil _ _ I E). apply is_min_single.
    + apply (is_min_app (s_min s) x xs [x]); [apply (inv_min _ _ I), (count_nonzero_cons _ _ I E) | apply is_min_single].
  - intros _. destruct (s_count s =? 0)%N eqn:E.
    + rewrite (count_zero_nil _ _ I E). apply is_max_single.
    + apply (is_max_app (s_max s) x xs [x]); [apply (inv_max _ _ I), (count_nonzero_cons _ _ I E) | apply is_max_single].
Qed.

(* ---------- combine (Chan et al. parallel update) ---------- *)
Lemma combine_inv s o xs ys : Inv s xs -> Inv o ys -> Inv (s_combine s o) (xs ++ ys).
Proof.
  intros I J. unfold s_combine.
  destruct (s_count o =? 0)%N eqn:Eo.
  { rewrite (count_zero_nil _ _ J Eo), app_nil_r. exact I. }
  destruct (s_count s =? 0)%N eqn:Es.
  { rewrite (count_zero_nil _ _ I Es). exact J. }
  pose proof (count_nonzero_cons _ _ I Es) as Hx. pose proof (count_nonzero_cons _ _ J Eo) as Hy.
  pose proof (nQ_pos _ Hx) as Px. pose proof (nQ_pos _ Hy) as Py.
  assert (Hs : QofN (s_count s) == nQ xs) by (rewrite (inv_count _ _ I), QofN_nat; reflexivity).
  assert (Ho : QofN (s_count o) == nQ ys) by (rewrite (inv_count _ _ J), QofN_nat; reflexivity).
  assert (Hn : QofN (s_count s + s_count o) == nQ xs + nQ ys).
  { rewrite (inv_count _ _ I), (inv_count _ _ J), <- Nat2N.inj_add, QofN_nat, <- app_length.
    fold (nQ (xs ++ ys)). apply nQ_app. }
  assert (Hpos : ~ nQ xs + nQ ys == 0) by (intro E; lra).
  split; cbn [s_count s_total s_mean s_msq s_m2 s_min s_max].
  - rewrite (inv_count _ _ I), (inv_count _ _ J), app_length. lia.
  - rewrite Qred_correct, Qsum_app, (inv_total _ _ I), (inv_total _ _ J). reflexivity.
  - rewrite Qred_correct, nQ_app, Qsum_app, Hn, Ho, <- (inv_mean _ _ I), <- (inv_mean _ _ J). field. exact Hpos.
  - rewrite Qred_correct, nQ_app, Qsumsq_app, Hn, Ho, <- (inv_msq _ _ I), <- (inv_msq _ _ J). field. exact Hpos.
  - rewrite !Qred_correct, nQ_app, Qsumsq_app, Hn, Hs, Ho, (inv_m2 _ _ I), (inv_m2 _ _ J). field. exact Hpos.
  - intros _. apply is_min_app; [apply (inv_min _ _ I Hx) | apply (inv_min _ _ J Hy)].
  - intros _. apply is_max_app; [apply (inv_max _ _ I Hx) | apply (inv_max _ _ J Hy)].
Qed.

(* ---------- histories: any sequence of Add / Combine over k accumulators ---------- *)
(* the values each accumulator has been fed, in feeding order *)
Definition v_step (vals : list (list Q)) (o : sop) : list (list Q) :=
  match o with
  | SAdd i x => match nth_error vals i with Some v => upd vals i (v ++ [x]) | None => vals end
  | SCombine i j => match nth_error vals i, nth_error vals j with
                    | Some v, Some w => upd vals i (v ++ w)
                    | _, _ => vals
                    end
  | SNop _ => vals
  end.
Definition v_run (k : nat) (ops : list sop) : list (list Q) := fold_left v_step ops (repeat [] k).

Lemma Forall2_nth_error {A B} (R : A -> B -> Prop) l l' i a :
  Forall2 R l l' -> nth_error l i = Some a -> exists b, nth_error l' i = Some b /\ R a b.
Proof. intros F. revert i. induction F as [|x y l l' Hxy F IH]; intros [|i] H; cbn in *; try discriminate.
  - injection H as <-. eauto. - eauto. Qed.
Lemma Forall2_nth_error_None {A B} (R : A -> B -> Prop) l l' i :
  Forall2 R l l' -> nth_error l i = None -> nth_error l' i = None.
Proof. intros F. revert i. induction F as [|x y l l' Hxy F IH]; intros [|i] H; cbn in *; try discriminate; auto. Qed.
Lemma Forall2_upd {A B} (R : A -> B -> Prop) l l' i a b :
  Forall2 R l l' -> R a b -> Forall2 R (upd l i a) (upd l' i b).
Proof. intros F Hab. revert i. induction F as [|x y l l' Hxy F IH]; intros [|i]; unfold upd; cbn; try constructor; auto.
  apply (IH i). Qed.

Lemma step_inv accs vals o : Forall2 Inv accs vals -> Forall2 Inv (s_step accs o) (v_step vals o).
Proof.
  intros F. destruct o as [i x|i j|i]; cbn [s_step v_step]; [| |exact F].
  - destruct (nth_error accs i) as [s|] eqn:E.
    + destruct (Forall2_nth_error _ _ _ _ _ F E) as (v & -> & I). apply Forall2_upd; [exact F | now apply add_inv].
    + rewrite (Forall2_nth_error_None _ _ _ _ F E). exact F.
  - destruct (nth_error accs i) as [s|] eqn:E.
    + destruct (Forall2_nth_error _ _ _ _ _ F E) as (v & -> & I).
      destruct (nth_error accs j) as [t|] eqn:E2.
      * destruct (Forall2_nth_error _ _ _ _ _ F E2) as (w & -> & J). apply Forall2_upd; [exact F | now apply combine_inv].
      * rewrite (Forall2_nth_error_None _ _ _ _ F E2). exact F.
    + rewrite (Forall2_nth_error_None _ _ _ _ F E). destruct (nth_error accs j); exact F.
Qed.

Theorem history_inv k ops : Forall2 Inv (s_run k ops) (v_run k ops).
Proof.
  unfold s_run, v_run.
  assert (F0 : Forall2 Inv (repeat s_init k) (repeat [] k)) by (induction k; cbn; constructor; auto using inv_init).
  revert F0. generalize (repeat s_init k) (repeat (@nil Q) k). induction ops as [|o ops IH]; intros a v F; cbn [fold_left]; [exact F|].
  apply IH, step_inv, F.
Qed.

(* ---------- what the invariant says about the reported statistics ---------- *)
Lemma mean_is_batch s xs : Inv s xs -> xs <> [] -> s_mean s == mean_def xs.
Proof. intros I H. unfold mean_def. rewrite <- (inv_mean _ _ I). pose proof (nQ_pos _ H). field. lra. Qed.
Lemma msq_is_batch s xs : Inv s xs -> xs <> [] -> s_rms_sq s == meansq_def xs.
Proof. intros I H. unfold meansq_def, s_rms_sq. rewrite <- (inv_msq _ _ I). pose proof (nQ_pos _ H). field. lra. Qed.

(* sum of squared deviations about any centre c, expanded *)
Lemma ssd_expand c xs : Qsum (map (fun x => Qsq (x - c)) xs) == Qsumsq xs - 2 * c * Qsum xs + nQ xs * (c * c).
Proof. induction xs as [|x xs IH].
  - unfold Qsumsq, nQ, Qofnat. cbn [map Qsum length Z.of_nat]. change (inject_Z 0) with 0. ring.
  - unfold Qsumsq, nQ in *. cbn [map Qsum length]. rewrite IH. unfold Qofnat.
    rewrite Nat2Z.inj_succ, <- Z.add_1_r, inject_Z_plus. unfold Qsq. change (inject_Z 1) with 1. ring. Qed.

Lemma m2_is_batch s xs : Inv s xs -> xs <> [] -> s_m2 s == ssd_def xs.
Proof. intros I H. unfold ssd_def. rewrite ssd_expand, (inv_m2 _ _ I), <- (mean_is_batch _ _ I H), <- (inv_mean _ _ I). ring. Qed.

Lemma variance_is_batch s xs : Inv s xs -> (2 <= length xs)%nat -> s_variance s == var_def xs.
Proof.
  intros I H. assert (Hx : xs <> []) by (destruct xs; cbn in H; [lia | congruence]).
  unfold s_variance, var_def. rewrite (m2_is_batch _ _ I Hx).
  assert (E : QofN (s_count s - 1) == nQ xs - 1).
  { rewrite (inv_count _ _ I). unfold QofN, nQ, Qofnat. rewrite N2Z.inj_sub by lia. rewrite nat_N_Z.
    unfold Z.sub, Qminus. rewrite inject_Z_plus, inject_Z_opp. reflexivity. }
  rewrite E. reflexivity.
Qed.

(* the statistics of a list do not depend on its order (so it does not matter how a
   stream was split or in which order the parts were combined) *)
Lemma Qsum_perm a b : Permutation a b -> Qsum a == Qsum b.
Proof. induction 1; cbn [Qsum]; try rewrite IHPermutation; try ring. now rewrite IHPermutation1. Qed.
Lemma is_min_unique m m' xs : is_min m xs -> is_min m' xs -> m == m'.
Proof. intros [[x [Hx Ex]] L] [[y [Hy Ey]] L']. apply Qle_antisym.
  - rewrite <- Ey. now apply L. - rewrite <- Ex. now apply L'. Qed.
Lemma is_max_unique m m' xs : is_max m xs -> is_max m' xs -> m == m'.
Proof. intros [[x [Hx Ex]] L] [[y [Hy Ey]] L']. apply Qle_antisym.
  - rewrite <- Ex. now apply L'. - rewrite <- Ey. now apply L. Qed.
Lemma is_min_perm m a b : Permutation a b -> is_min m a -> is_min m b.
Proof. intros P [[x [Hx Ex]] L]. split; [exists x; split; [now apply (Permutation_in _ P)|exact Ex]|].
  intros y Hy. apply L. now apply (Permutation_in _ (Permutation_sym P)). Qed.
Lemma is_max_perm m a b : Permutation a b -> is_max m a -> is_max m b.
Proof. intros P [[x [Hx Ex]] L]. split; [exists x; split; [now apply (Permutation_in _ P)|exact Ex]|].
  intros y Hy. apply L. now apply (Permutation_in _ (Permutation_sym P)). Qed.

Theorem split_order_irrelevant s t xs ys : Inv s xs -> Inv t ys -> Permutation xs ys -> xs <> [] ->
  s_count s = s_count t /\ s_total s == s_total t /\ s_mean s == s_mean t /\ s_rms_sq s == s_rms_sq t /\
  s_m2 s == s_m2 t /\ s_min s == s_min t /\ s_max s == s_max t.
Proof.
  intros I J P Hx. assert (Hy : ys <> []) by (intros ->; apply Permutation_sym, Permutation_nil in P; congruence).
  assert (Hl : length xs = length ys) by now apply Permutation_length.
  assert (Hn : nQ xs == nQ ys) by (unfold nQ; now rewrite Hl).
  assert (Hs : Qsum xs == Qsum ys) by now apply Qsum_perm.
  assert (Hq : Qsumsq xs == Qsumsq ys) by (apply Qsum_perm, Permutation_map, P).
  assert (Hm : s_mean s == s_mean t).
  { rewrite (mean_is_batch _ _ I Hx), (mean_is_batch _ _ J Hy). unfold mean_def. now rewrite Hs, Hn. }
  repeat split.
  - now rewrite (inv_count _ _ I), (inv_count _ _ J), Hl.
  - now rewrite (inv_total _ _ I), (inv_total _ _ J).
  - exact Hm.
  - rewrite (msq_is_batch _ _ I Hx), (msq_is_batch _ _ J Hy). unfold meansq_def. now rewrite Hq, Hn.
  - now rewrite (inv_m2 _ _ I), (inv_m2 _ _ J), Hq, Hn, Hm.
  - apply (is_min_unique _ _ ys); [apply (is_min_perm _ _ _ P), (inv_min _ _ I Hx) | apply (inv_min _ _ J Hy)].
  - apply (is_max_unique _ _ ys); [apply (is_max_perm _ _ _ P), (inv_max _ _ I Hx) | apply (inv_max _ _ J Hy)].
Qed.

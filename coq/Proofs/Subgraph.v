(* scratch/Subgraph.v — specification theorems for Model/Subgraph.v
   (SubgraphKeep / SubgraphRemove).  Axiom-free. *)
From Coq Require Import List NArith ZArith Lia Bool Permutation Sorted.
From MM Require Import Base.GCGraph Base.GCReach Model.Subgraph.
Import ListNotations.

(* ================= generic list lemmas ================= *)

Lemma nth_error_map_opt : forall (A B : Type) (f : A -> B) l i,
  nth_error (map f l) i = option_map f (nth_error l i).
Proof. intros A B f l. induction l as [|a l IH]; intros [|i]; simpl; auto. Qed.

Lemma nth_error_map_inv : forall (A B : Type) (f : A -> B) l i b,
  nth_error (map f l) i = Some b -> exists a, nth_error l i = Some a /\ b = f a.
Proof.
  intros A B f l i b H. rewrite nth_error_map_opt in H.
  destruct (nth_error l i) as [a|]; simpl in H; [|discriminate].
  exists a. split; [reflexivity|]. congruence.
Qed.

(* g_out versus the bounds-checked lookup of the models *)
Lemma nth_error_g_out : forall g u, (u < g_n g)%N -> nth_error g (N.to_nat u) = Some (g_out g u).
Proof.
  intros g u Hlt. destruct (nth_error g (N.to_nat u)) as [outs|] eqn:E.
  - unfold g_out. rewrite (nth_error_nth _ _ _ E). reflexivity.
  - apply nth_error_None in E. unfold g_n in Hlt. lia.
Qed.

(* ================= index_of / no_dup_b ================= *)

Lemma index_of_Some : forall x l k, index_of x l = Some k -> nth_error l k = Some x.
Proof.
  intros x l. induction l as [|y t IH]; intros k H; simpl in H.
  - discriminate.
  - destruct (N.eqb_spec y x) as [E|E].
    + inversion H; subst. reflexivity.
    + destruct (index_of x t) as [k'|]; simpl in H; [|discriminate].
      inversion H; subst. simpl. apply IH. reflexivity.
Qed.

Lemma index_of_In : forall x l, In x l ->
  exists k, index_of x l = Some k /\ nth_error l k = Some x.
Proof.
  intros x l Hin. induction l as [|y t IH]; simpl in *.
  - destruct Hin.
  - destruct (N.eqb_spec y x) as [E|E].
    + exists O. subst. split; reflexivity.
    + destruct Hin as [H|H]; [congruence|].
      destruct (IH H) as [k [Hk1 Hk2]]. exists (S k). rewrite Hk1. split; [reflexivity|exact Hk2].
Qed.

Lemma index_or_0_In : forall x l, In x l -> nth_error l (index_or_0 x l) = Some x.
Proof.
  intros x l Hin. destruct (index_of_In x l Hin) as [k [Hk1 Hk2]].
  unfold index_or_0. rewrite Hk1. exact Hk2.
Qed.

(* with NoDup the index is the unique position *)
Lemma index_of_NoDup : forall x l k, NoDup l -> nth_error l k = Some x -> index_of x l = Some k.
Proof.
  intros x l k Hnd Hk.
  assert (Hin : In x l) by (eapply nth_error_In; exact Hk).
  destruct (index_of_In x l Hin) as [k' [Hk1 Hk2]].
  rewrite Hk1. f_equal.
  rewrite NoDup_nth_error in Hnd. apply Hnd.
  - apply nth_error_Some. congruence.
  - congruence.
Qed.

Lemma existsb_eqb_In : forall x l, existsb (N.eqb x) l = true <-> In x l.
Proof.
  intros x l. rewrite existsb_exists. split.
  - intros [y [Hy E]]. apply N.eqb_eq in E. subst. exact Hy.
  - intros H. exists x. split; [exact H | apply N.eqb_refl].
Qed.

Lemma no_dup_b_spec : forall l, no_dup_b l = true <-> NoDup l.
Proof.
  induction l as [|x t IH]; simpl.
  - split; intros; [constructor | reflexivity].
  - rewrite andb_true_iff, negb_true_iff, IH. split.
    + intros [H1 H2]. constructor; [|exact H2].
      intro Hin. apply existsb_eqb_In in Hin. congruence.
    + intros H. inversion H as [|? ? Hn Hd]; subst. split; [|exact Hd].
      destruct (existsb (N.eqb x) t) eqn:E; [|reflexivity].
      apply existsb_eqb_In in E. contradiction.
Qed.

(* ================= K : SubgraphKeep ================= *)

Definition keep_wf (g : graph) (nodes : list N) (edges : list (N * N)) : Prop :=
  NoDup nodes /\ (forall v, In v nodes -> (v < g_n g)%N) /\
  forall e, In e edges -> In (fst e) nodes /\ exists t, nth_error (g_out g (fst e)) (N.to_nat (snd e)) = Some t /\ In t nodes.

(* closed form of the state after processing the request prefix p *)
Definition keep_tgt (g : graph) (e : N * N) : N := nth (N.to_nat (snd e)) (g_out g (fst e)) 0%N.
Definition keep_sel (o : N) (p : list (N * N)) : list (N * N) := filter (fun e => (fst e =? o)%N) p.
Definition keep_node (g : graph) (nodes : list N) (p : list (N * N)) (o : N) : sgnode :=
  mk_sgnode (map (fun e => N.of_nat (index_or_0 (keep_tgt g e) nodes)) (keep_sel o p))
            o
            (map snd (keep_sel o p)).
Definition keep_result (g : graph) (nodes : list N) (p : list (N * N)) : subgraph :=
  map (keep_node g nodes p) nodes.

(* sg_append at the index of x changes exactly the node built from x *)
Lemma sg_append_map : forall (F F' : N -> sgnode) x a b nodes k,
  NoDup nodes -> index_of x nodes = Some k ->
  (forall o, o <> x -> F' o = F o) ->
  F' x = mk_sgnode (sg_out (F x) ++ [a]) (sg_old (F x)) (sg_oldedges (F x) ++ [b]) ->
  sg_append (map F nodes) k a b = Some (map F' nodes).
Proof.
  intros F F' x a b nodes. induction nodes as [|y t IH]; intros k Hnd Hidx Hne Heq; simpl in Hidx.
  - discriminate.
  - inversion Hnd as [|? ? Hnin Hnd']; subst.
    destruct (N.eqb_spec y x) as [E|E].
    + inversion Hidx; subst. simpl. rewrite Heq. f_equal. f_equal.
      apply map_ext_in. intros o Ho. symmetry. apply Hne. intro; subst; contradiction.
    + destruct (index_of x t) as [k'|] eqn:Ek; simpl in Hidx; [|discriminate].
      inversion Hidx; subst. simpl. rewrite (IH k' Hnd' eq_refl Hne Heq). simpl.
      rewrite (Hne y E). reflexivity.
Qed.

Lemma keep_step_ok : forall g nodes p e,
  NoDup nodes -> (forall v, In v nodes -> (v < g_n g)%N) ->
  In (fst e) nodes -> (exists t, nth_error (g_out g (fst e)) (N.to_nat (snd e)) = Some t) ->
  keep_step g nodes (Some (keep_result g nodes p)) e = Some (keep_result g nodes (p ++ [e])).
Proof.
  intros g nodes p e Hnd Hlt Hin [t Ht]. unfold keep_step. cbv zeta.
  rewrite (nth_error_g_out g (fst e) (Hlt _ Hin)), Ht.
  destruct (index_of_In _ _ Hin) as [k [Hk _]].
  replace (index_or_0 (fst e) nodes) with k by (unfold index_or_0; rewrite Hk; reflexivity).
  unfold keep_result. apply sg_append_map with (x := fst e); auto.
  - intros o Ho. unfold keep_node, keep_sel. rewrite filter_app. simpl.
    destruct (N.eqb_spec (fst e) o) as [E|E]; [congruence|]. rewrite app_nil_r. reflexivity.
  - unfold keep_node, keep_sel. rewrite filter_app. simpl. rewrite N.eqb_refl.
    rewrite !map_app. simpl. unfold keep_tgt at 2. rewrite (nth_error_nth _ _ _ Ht). reflexivity.
Qed.

Lemma keep_fold_ok : forall g nodes,
  NoDup nodes -> (forall v, In v nodes -> (v < g_n g)%N) ->
  forall edges p,
  (forall e, In e edges -> In (fst e) nodes /\
     exists t, nth_error (g_out g (fst e)) (N.to_nat (snd e)) = Some t /\ In t nodes) ->
  fold_left (keep_step g nodes) edges (Some (keep_result g nodes p))
  = Some (keep_result g nodes (p ++ edges)).
Proof.
  intros g nodes Hnd Hlt edges. induction edges as [|e r IH]; intros p Hed; cbn [fold_left].
  - rewrite app_nil_r. reflexivity.
  - destruct (Hed e (or_introl eq_refl)) as [Hin [t [Ht _]]].
    rewrite (keep_step_ok g nodes p e Hnd Hlt Hin (ex_intro _ t Ht)).
    rewrite IH by (intros e' He'; apply Hed; right; exact He').
    rewrite <- app_assoc. reflexivity.
Qed.

Lemma subgraph_keep_closed : forall g nodes edges, keep_wf g nodes edges ->
  subgraph_keep g nodes edges = Some (keep_result g nodes edges).
Proof.
  intros g nodes edges [Hnd [Hlt Hed]]. unfold subgraph_keep.
  assert (H1 : forallb (fun v => (v <? g_n g)%N) nodes = true).
  { apply forallb_forall. intros v Hv. apply N.ltb_lt. apply Hlt. exact Hv. }
  assert (H2 : no_dup_b nodes = true) by (apply no_dup_b_spec; exact Hnd).
  rewrite H1, H2. cbn [andb].
  change (fold_left (keep_step g nodes) edges (Some (keep_result g nodes []))
          = Some (keep_result g nodes ([] ++ edges))).
  apply (keep_fold_ok g nodes Hnd Hlt edges [] Hed).
Qed.

Theorem subgraph_keep_spec : forall g nodes edges, keep_wf g nodes edges ->
  exists s, subgraph_keep g nodes edges = Some s /\
    sg_nodemap s = nodes /\
    forall i nd, nth_error s i = Some nd ->
      (* the edges requested at this node, in request order *)
      sg_oldedges nd = map snd (filter (fun e => (fst e =? sg_old nd)%N) edges) /\
      length (sg_out nd) = length (sg_oldedges nd) /\
      (* each new edge, translated back through NodeMap/EdgeMap, is the old edge *)
      forall j t' e, nth_error (sg_out nd) j = Some t' -> nth_error (sg_oldedges nd) j = Some e ->
        exists t, nth_error nodes (N.to_nat t') = Some t /\ nth_error (g_out g (sg_old nd)) (N.to_nat e) = Some t.
Proof.
  intros g nodes edges Hwf. exists (keep_result g nodes edges).
  split; [apply subgraph_keep_closed; exact Hwf|].
  destruct Hwf as [Hnd [Hlt Hed]].
  split.
  - unfold sg_nodemap, keep_result. rewrite map_map. simpl. apply map_id.
  - intros i nd Hi. unfold keep_result in Hi.
    apply nth_error_map_inv in Hi. destruct Hi as [o [Ho Hnd_eq]]. subst nd. simpl.
    split; [reflexivity|]. split; [rewrite !map_length; reflexivity|].
    intros j t' e Hj1 Hj2.
    apply nth_error_map_inv in Hj1. destruct Hj1 as [ed [Hed1 Ht']].
    rewrite nth_error_map_opt, Hed1 in Hj2. simpl in Hj2. inversion Hj2; subst e. clear Hj2.
    assert (Hin : In ed (keep_sel o edges)) by (eapply nth_error_In; exact Hed1).
    unfold keep_sel in Hin. apply filter_In in Hin. destruct Hin as [Hin Hfst].
    apply N.eqb_eq in Hfst.
    destruct (Hed ed Hin) as [_ [t [Ht Htin]]].
    exists t. subst t'. rewrite Nat2N.id.
    unfold keep_tgt. rewrite (nth_error_nth _ _ _ Ht).
    split; [apply index_or_0_In; exact Htin|].
    rewrite <- Hfst. exact Ht.
Qed.

Theorem subgraph_keep_panics : forall g nodes edges,
  (exists v, In v nodes /\ (g_n g <= v)%N) \/ ~ NoDup nodes -> subgraph_keep g nodes edges = None.
Proof.
  intros g nodes edges H. unfold subgraph_keep.
  destruct (forallb (fun v => (v <? g_n g)%N) nodes) eqn:E1; [|reflexivity].
  destruct (no_dup_b nodes) eqn:E2; [|reflexivity].
  exfalso. destruct H as [[v [Hv Hle]]|Hn].
  - rewrite forallb_forall in E1. specialize (E1 v Hv). apply N.ltb_lt in E1. lia.
  - apply Hn. apply no_dup_b_spec. exact E2.
Qed.

(* ================= R : SubgraphRemove ================= *)

Lemma SSorted_map_seq : forall k a, StronglySorted N.lt (map N.of_nat (seq a k)).
Proof.
  induction k as [|k IH]; intros a; simpl.
  - constructor.
  - constructor; [apply IH|].
    apply Forall_forall. intros x Hx. apply in_map_iff in Hx.
    destruct Hx as [i [Hi Hin]]. apply in_seq in Hin. lia.
Qed.

Lemma SSorted_filter : forall (f : N -> bool) l,
  StronglySorted N.lt l -> StronglySorted N.lt (filter f l).
Proof.
  intros f l H. induction H as [|a l Hs IH Hf]; simpl.
  - constructor.
  - destruct (f a); [|exact IH]. constructor; [exact IH|].
    rewrite Forall_forall in Hf. apply Forall_forall. intros x Hx.
    apply filter_In in Hx. apply Hf. tauto.
Qed.

Lemma in_remove_kept : forall n rm v,
  In v (remove_kept n rm) <-> (v < n)%N /\ zmem (Z.of_N v) rm = false.
Proof.
  intros n rm v. unfold remove_kept. rewrite filter_In, in_nodes_upto, negb_true_iff. tauto.
Qed.

Lemma remove_kept_sorted : forall n rm, StronglySorted N.lt (remove_kept n rm).
Proof. intros n rm. unfold remove_kept, nodes_upto. apply SSorted_filter. apply SSorted_map_seq. Qed.

Section RemoveEdges.
  Variable kept : list N.
  Variable rm : list Z.
  Variable rme : list (Z * Z).
  Variable u : N.

  (* every produced pair is a surviving edge at an index >= j *)
  Lemma remove_edges_sound : forall outs j p, In p (remove_edges kept rm rme u outs j) ->
    (j <= snd p)%N /\
    exists t, nth_error outs (N.to_nat (snd p) - N.to_nat j) = Some t /\
      zmem (Z.of_N t) rm = false /\ zzmem (Z.of_N u, Z.of_N (snd p)) rme = false /\
      fst p = N.of_nat (index_or_0 t kept).
  Proof.
    induction outs as [|t r IH]; intros j p Hin; simpl in Hin.
    - contradiction.
    - assert (Hrest : In p (remove_edges kept rm rme u r (j + 1)%N) ->
        (j <= snd p)%N /\
        exists t0, nth_error (t :: r) (N.to_nat (snd p) - N.to_nat j) = Some t0 /\
          zmem (Z.of_N t0) rm = false /\ zzmem (Z.of_N u, Z.of_N (snd p)) rme = false /\
          fst p = N.of_nat (index_or_0 t0 kept)).
      { intros Hr. apply IH in Hr. destruct Hr as [Hle [t0 [Hn Hrest]]].
        split; [lia|]. exists t0.
        replace (N.to_nat (snd p) - N.to_nat j)%nat
          with (S (N.to_nat (snd p) - N.to_nat (j + 1)))%nat by lia.
        simpl. split; [exact Hn|exact Hrest]. }
      destruct (zmem (Z.of_N t) rm) eqn:E1; [apply Hrest; exact Hin|].
      destruct (zzmem (Z.of_N u, Z.of_N j) rme) eqn:E2; [apply Hrest; exact Hin|].
      destruct Hin as [Hp|Hin]; [|apply Hrest; exact Hin].
      subst p. simpl. split; [lia|]. exists t. rewrite Nat.sub_diag. simpl. auto.
  Qed.

  (* every surviving edge at an index >= j is produced *)
  Lemma remove_edges_complete : forall outs j e t, (j <= e)%N ->
    nth_error outs (N.to_nat e - N.to_nat j) = Some t ->
    zmem (Z.of_N t) rm = false -> zzmem (Z.of_N u, Z.of_N e) rme = false ->
    In e (map snd (remove_edges kept rm rme u outs j)).
  Proof.
    induction outs as [|t r IH]; intros j e t0 Hle Hn Hz Hzz.
    - destruct (N.to_nat e - N.to_nat j)%nat; discriminate Hn.
    - simpl. destruct (N.eq_dec e j) as [E|E].
      + subst e. rewrite Nat.sub_diag in Hn. simpl in Hn. inversion Hn; subst t0.
        rewrite Hz, Hzz. simpl. left. reflexivity.
      + assert (Hr : In e (map snd (remove_edges kept rm rme u r (j + 1)%N))).
        { apply IH with (t := t0); [lia| |exact Hz|exact Hzz].
          replace (N.to_nat e - N.to_nat j)%nat
            with (S (N.to_nat e - N.to_nat (j + 1)))%nat in Hn by lia.
          simpl in Hn. exact Hn. }
        destruct (zmem (Z.of_N t) rm); [exact Hr|].
        destruct (zzmem (Z.of_N u, Z.of_N j) rme); [exact Hr|].
        simpl. right. exact Hr.
  Qed.

  Lemma remove_edges_lb : forall outs j e,
    In e (map snd (remove_edges kept rm rme u outs j)) -> (j <= e)%N.
  Proof.
    intros outs j e He. apply in_map_iff in He. destruct He as [p [Hp Hin]].
    apply remove_edges_sound in Hin. subst e. tauto.
  Qed.

  Lemma remove_edges_sorted : forall outs j,
    StronglySorted N.lt (map snd (remove_edges kept rm rme u outs j)).
  Proof.
    induction outs as [|t r IH]; intros j; simpl.
    - constructor.
    - destruct (zmem (Z.of_N t) rm); [apply IH|].
      destruct (zzmem (Z.of_N u, Z.of_N j) rme); [apply IH|].
      simpl. constructor; [apply IH|].
      apply Forall_forall. intros x Hx. apply remove_edges_lb in Hx. lia.
  Qed.
End RemoveEdges.

Definition remove_node (g : graph) (rm : list Z) (rme : list (Z * Z)) (kept : list N) (u : N) : sgnode :=
  mk_sgnode (map fst (remove_edges kept rm rme u (g_out g u) 0%N)) u
            (map snd (remove_edges kept rm rme u (g_out g u) 0%N)).

Lemma subgraph_remove_closed : forall g rm rme, (zdistinct rm <= length g)%nat ->
  subgraph_remove g rm rme =
  Some (map (remove_node g rm rme (remove_kept (g_n g) rm)) (remove_kept (g_n g) rm)).
Proof.
  intros g rm rme Hd. unfold subgraph_remove.
  assert (Hl : (length g <? zdistinct rm)%nat = false) by (apply Nat.ltb_ge; exact Hd).
  rewrite Hl. reflexivity.
Qed.

Theorem subgraph_remove_spec : forall g rm rme, g_wf g -> (zdistinct rm <= length g)%nat ->
  exists s, subgraph_remove g rm rme = Some s /\
    (* NodeMap: the surviving nodes, ascending *)
    (forall v, In v (sg_nodemap s) <-> (v < g_n g)%N /\ zmem (Z.of_N v) rm = false) /\
    Sorted N.lt (sg_nodemap s) /\
    forall i nd, nth_error s i = Some nd ->
      length (sg_out nd) = length (sg_oldedges nd) /\
      (* EdgeMap: exactly the surviving edge indices, ascending (each once) *)
      Sorted N.lt (sg_oldedges nd) /\
      (forall e, In e (sg_oldedges nd) <->
         exists t, nth_error (g_out g (sg_old nd)) (N.to_nat e) = Some t /\
                   zmem (Z.of_N t) rm = false /\ zzmem (Z.of_N (sg_old nd), Z.of_N e) rme = false) /\
      (* each new edge translated back is the old edge *)
      forall j t' e, nth_error (sg_out nd) j = Some t' -> nth_error (sg_oldedges nd) j = Some e ->
        exists t, nth_error (sg_nodemap s) (N.to_nat t') = Some t /\ nth_error (g_out g (sg_old nd)) (N.to_nat e) = Some t.
Proof.
  intros g rm rme Hwf Hd.
  set (kept := remove_kept (g_n g) rm).
  exists (map (remove_node g rm rme kept) kept).
  split; [apply subgraph_remove_closed; exact Hd|].
  assert (Hnm : sg_nodemap (map (remove_node g rm rme kept) kept) = kept).
  { unfold sg_nodemap. rewrite map_map. simpl. apply map_id. }
  rewrite Hnm.
  split; [intros v; apply in_remove_kept|].
  split; [apply StronglySorted_Sorted; apply remove_kept_sorted|].
  intros i nd Hi. apply nth_error_map_inv in Hi. destruct Hi as [u [Hu Hnd]]. subst nd. simpl.
  split; [rewrite !map_length; reflexivity|].
  split; [apply StronglySorted_Sorted; apply remove_edges_sorted|].
  split.
  - intros e. split.
    + intros He. apply in_map_iff in He. destruct He as [p [Hp Hin]].
      apply remove_edges_sound in Hin. destruct Hin as [_ [t [Hn [Hz [Hzz _]]]]].
      subst e. exists t. rewrite Nat.sub_0_r in Hn. auto.
    + intros [t [Hn [Hz Hzz]]].
      apply remove_edges_complete with (t := t); [lia| |exact Hz|exact Hzz].
      rewrite Nat.sub_0_r. exact Hn.
  - intros j t' e Hj1 Hj2.
    apply nth_error_map_inv in Hj1. destruct Hj1 as [p [Hp Ht']].
    rewrite nth_error_map_opt, Hp in Hj2. simpl in Hj2. inversion Hj2; subst e. clear Hj2.
    assert (Hin : In p (remove_edges kept rm rme u (g_out g u) 0%N)) by (eapply nth_error_In; exact Hp).
    apply remove_edges_sound in Hin. destruct Hin as [_ [t [Hn [Hz [_ Hfst]]]]].
    rewrite Nat.sub_0_r in Hn.
    exists t. split; [|exact Hn].
    subst t'. rewrite Hfst, Nat2N.id. apply index_or_0_In.
    apply in_remove_kept. split; [|exact Hz].
    apply (Hwf u t). eapply nth_error_In. exact Hn.
Qed.

Theorem subgraph_remove_panics : forall g rm rme,
  (length g < zdistinct rm)%nat -> subgraph_remove g rm rme = None.
Proof.
  intros g rm rme H. unfold subgraph_remove.
  assert (Hl : (length g <? zdistinct rm)%nat = true) by (apply Nat.ltb_lt; exact H).
  rewrite Hl. reflexivity.
Qed.

Print Assumptions subgraph_keep_spec.
Print Assumptions subgraph_keep_panics.
Print Assumptions subgraph_remove_spec.
Print Assumptions subgraph_remove_panics.

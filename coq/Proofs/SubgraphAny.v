(* Proofs/SubgraphAny.v — (group hM) SubgraphKeep (graph/subgraph.go:27-60, Model/Subgraph.v) on EVERY
   request, well-formed or not: a closed form of the model's answer.
     pos nodes x      = oldToNew[x]: the position of x in the node list, 0 for an id that is not kept
                        (a Go map returns the zero value for a missing key);
     the call panics  iff a listed node is outside the graph or listed twice, or some requested edge
                        (u, j) does not exist in g (u is not a node or has no j-th out-edge), or edges are
                        requested but no node is kept (newNodes[0] on an empty slice);
     otherwise new node i carries NodeMap(i) = nodes[i] and, in request order, exactly the requested edges e
     with pos (source of e) = i - for i > 0 the requests at nodes[i], for i = 0 the requests at nodes[0] AND
     every request whose source is not kept - each with new target pos (old target): an edge INTO a node
     that is not kept becomes an edge into new node 0, and EdgeMap(i, .) reports (nodes[i], old edge index),
     i.e. for a request whose source is not kept NOT the edge that was requested.
   The property ("exactly the requested subgraph") quantifies over requests that name a subgraph: kept
   nodes distinct and inside the graph, every requested edge between kept nodes (keep_wf); for those the
   closed form is the one of Proofs/Subgraph.v (subgraph_keep_spec) - [keep_any_wf] shows the two agree.
   Everything else here describes what the code does outside the property's quantifier.
   Closed under the global context. *)
From Coq Require Import List NArith ZArith Lia Bool.
From MM Require Import Base.GCGraph Model.Subgraph Proofs.Subgraph.
Import ListNotations.

Definition pos (nodes : list N) (x : N) : nat := index_or_0 x nodes.

(* the requested edge (u, j) exists in g *)
Definition edge_exists (g : graph) (e : N * N) : bool :=
  match nth_error g (N.to_nat (fst e)) with
  | Some outs => match nth_error outs (N.to_nat (snd e)) with Some _ => true | None => false end
  | None => false
  end.

Definition any_sel (nodes : list N) (i : nat) (p : list (N * N)) : list (N * N) :=
  filter (fun e => (pos nodes (fst e) =? i)%nat) p.
Definition any_node (g : graph) (nodes : list N) (p : list (N * N)) (i : nat) : sgnode :=
  mk_sgnode (map (fun e => N.of_nat (pos nodes (keep_tgt g e))) (any_sel nodes i p))
            (nth i nodes 0%N)
            (map snd (any_sel nodes i p)).
Definition any_result (g : graph) (nodes : list N) (p : list (N * N)) : subgraph :=
  map (any_node g nodes p) (seq 0 (length nodes)).

Definition nodes_ok (g : graph) (nodes : list N) : bool :=
  forallb (fun v => (v <? g_n g)%N) nodes && no_dup_b nodes.
Definition keep_any (g : graph) (nodes : list N) (edges : list (N * N)) : option subgraph :=
  if nodes_ok g nodes && forallb (edge_exists g) edges &&
     (match nodes, edges with [], _ :: _ => false | _, _ => true end)
  then Some (any_result g nodes edges) else None.

Lemma map_nth_seq : forall (l : list N) d, map (fun i => nth i l d) (seq 0 (length l)) = l.
Proof.
  induction l as [|x l IH]; intro d; [reflexivity|].
  cbn [length seq map nth]. f_equal. rewrite <- seq_shift, map_map. apply IH.
Qed.

(* ------------------------------------------------------------------ sg_append on a tabulated list *)
Lemma sg_append_seq : forall (F F' : nat -> sgnode) a b n s k,
  (k < n)%nat ->
  (forall j, j <> (s + k)%nat -> F' j = F j) ->
  F' (s + k)%nat = mk_sgnode (sg_out (F (s + k)%nat) ++ [a]) (sg_old (F (s + k)%nat)) (sg_oldedges (F (s + k)%nat) ++ [b]) ->
  sg_append (map F (seq s n)) k a b = Some (map F' (seq s n)).
Proof.
  intros F F' a b. induction n as [|n IH]; intros s k Hk Hne Heq; [lia|].
  cbn [seq map]. destruct k as [|k].
  - cbn [sg_append]. rewrite Nat.add_0_r in Heq. rewrite Heq. do 2 f_equal.
    apply map_ext_in. intros j Hj. apply in_seq in Hj. symmetry. apply Hne. lia.
  - cbn [sg_append]. rewrite (IH (S s) k); [| lia | intros j Hj; apply Hne; lia | replace (S s + k)%nat with (s + S k)%nat by lia; exact Heq].
    cbn [option_map]. rewrite (Hne s) by lia. reflexivity.
Qed.

Lemma sg_append_nil : forall k a b, sg_append [] k a b = None.
Proof. intros [|k] a b; reflexivity. Qed.

Lemma pos_lt : forall nodes x, nodes <> [] -> (pos nodes x < length nodes)%nat.
Proof.
  intros nodes x Hne. unfold pos, index_or_0. destruct (index_of x nodes) as [k|] eqn:E.
  - apply index_of_Some in E. apply nth_error_Some. congruence.
  - destruct nodes; [congruence|cbn; lia].
Qed.

Lemma fold_keep_None : forall g nodes edges, fold_left (keep_step g nodes) edges None = None.
Proof. intros g nodes. induction edges as [|e r IH]; [reflexivity|exact IH]. Qed.

Lemma keep_step_any : forall g nodes p e, nodes <> [] ->
  keep_step g nodes (Some (any_result g nodes p)) e =
  if edge_exists g e then Some (any_result g nodes (p ++ [e])) else None.
Proof.
  intros g nodes p e Hne. unfold keep_step, edge_exists.
  destruct (nth_error g (N.to_nat (fst e))) as [outs|] eqn:Eo; [|reflexivity].
  destruct (nth_error outs (N.to_nat (snd e))) as [oldTo|] eqn:Et; [|reflexivity].
  unfold any_result. apply sg_append_seq.
  - apply pos_lt. exact Hne.
  - intros j Hj. cbn [Nat.add] in Hj. unfold any_node, any_sel. rewrite filter_app. cbn [filter].
    unfold pos in *. destruct (Nat.eqb_spec (index_or_0 (fst e) nodes) j) as [E|E]; [congruence|].
    rewrite app_nil_r. reflexivity.
  - cbn [Nat.add]. unfold any_node, any_sel. rewrite filter_app. cbn [filter].
    unfold pos. rewrite Nat.eqb_refl. rewrite !map_app. cbn [map sg_out sg_old sg_oldedges].
    unfold keep_tgt at 2, g_out. rewrite (nth_error_nth _ _ _ Eo), (nth_error_nth _ _ _ Et). reflexivity.
Qed.

Lemma keep_fold_any : forall g nodes, nodes <> [] -> forall edges p,
  fold_left (keep_step g nodes) edges (Some (any_result g nodes p)) =
  if forallb (edge_exists g) edges then Some (any_result g nodes (p ++ edges)) else None.
Proof.
  intros g nodes Hne. induction edges as [|e r IH]; intro p; cbn [fold_left forallb].
  - rewrite app_nil_r. reflexivity.
  - rewrite keep_step_any by exact Hne. destruct (edge_exists g e); cbn [andb].
    + rewrite IH, <- app_assoc. reflexivity.
    + apply fold_keep_None.
Qed.

(* the model on EVERY request *)
Theorem subgraph_keep_any : forall g nodes edges, subgraph_keep g nodes edges = keep_any g nodes edges.
Proof.
  intros g nodes edges. unfold subgraph_keep, keep_any. fold (nodes_ok g nodes).
  destruct (nodes_ok g nodes); [|reflexivity]. cbn [andb].
  destruct nodes as [|x nodes].
  - destruct edges as [|e r]; [reflexivity|]. cbn [map fold_left].
    assert (E : keep_step g [] (Some []) e = None).
    { unfold keep_step. destruct (nth_error g (N.to_nat (fst e))) as [outs|]; [|reflexivity].
      destruct (nth_error outs (N.to_nat (snd e))); [apply sg_append_nil|reflexivity]. }
    rewrite E, fold_keep_None. destruct (forallb (edge_exists g) (e :: r)); reflexivity.
  - assert (Hne : x :: nodes <> []) by discriminate.
    assert (E0 : forall l, map (fun o => mk_sgnode [] o []) l = any_result g l []).
    { intro l. unfold any_result, any_node, any_sel. cbn [filter].
      rewrite <- (map_map (fun i => nth i l 0%N) (fun o => mk_sgnode [] o [])), map_nth_seq. reflexivity. }
    rewrite E0. refine (eq_trans (keep_fold_any g _ Hne edges []) _). cbn [app].
    destruct (forallb (edge_exists g) edges); [|reflexivity]. destruct edges; reflexivity.
Qed.

(* ------------------------------------------------------------------ reading the closed form *)
(* when does the call panic *)
Theorem keep_any_panics_iff : forall g nodes edges, subgraph_keep g nodes edges = None <->
  ((exists v, In v nodes /\ (g_n g <= v)%N) \/ ~ NoDup nodes) \/
  (exists e, In e edges /\ edge_exists g e = false) \/
  (nodes = [] /\ edges <> []).
Proof.
  intros g nodes edges. rewrite subgraph_keep_any. unfold keep_any, nodes_ok.
  destruct (forallb (fun v => (v <? g_n g)%N) nodes) eqn:E1.
  - destruct (no_dup_b nodes) eqn:E2.
    + destruct (forallb (edge_exists g) edges) eqn:E3.
      * cbn [andb]. rewrite forallb_forall in E1, E3. apply no_dup_b_spec in E2.
        destruct nodes as [|x t]; [destruct edges as [|e r]|].
        -- split; [discriminate|]. intros [[[v [[] _]]|H]|[[e [[] _]]|[_ H]]]; [exfalso; apply H; constructor|congruence].
        -- split; [intros _; right; right; split; [reflexivity|discriminate]|reflexivity].
        -- split; [discriminate|]. intros [[[v [Hv Hge]]|H]|[[e [He Hf]]|[H _]]].
           ++ specialize (E1 _ Hv). apply N.ltb_lt in E1. lia.
           ++ contradiction.
           ++ rewrite (E3 _ He) in Hf. discriminate.
           ++ discriminate.
      * cbn [andb]. split; [intros _|reflexivity]. right. left.
        destruct (forallb_forall (edge_exists g) edges) as [_ Hb].
        destruct (existsb (fun e => negb (edge_exists g e)) edges) eqn:Ex.
        -- apply existsb_exists in Ex. destruct Ex as [e [He Hn]]. exists e. split; [exact He|].
           apply negb_true_iff. exact Hn.
        -- exfalso. rewrite Hb in E3; [discriminate|]. intros e He.
           destruct (edge_exists g e) eqn:Ee; [reflexivity|].
           assert (existsb (fun e => negb (edge_exists g e)) edges = true) by (apply existsb_exists; exists e; rewrite Ee; auto).
           congruence.
    + cbn [andb]. split; [intros _|reflexivity]. left. right. intro Hnd. apply no_dup_b_spec in Hnd. congruence.
  - cbn [andb]. split; [intros _|reflexivity]. left. left.
    destruct (existsb (fun v => negb (v <? g_n g)%N) nodes) eqn:Ex.
    + apply existsb_exists in Ex. destruct Ex as [v [Hv Hn]]. exists v. split; [exact Hv|].
      apply negb_true_iff, N.ltb_ge in Hn. exact Hn.
    + exfalso. assert (forallb (fun v => (v <? g_n g)%N) nodes = true); [|congruence].
      apply forallb_forall. intros v Hv. destruct (v <? g_n g)%N eqn:Ev; [reflexivity|].
      assert (existsb (fun v => negb (v <? g_n g)%N) nodes = true) by (apply existsb_exists; exists v; rewrite Ev; auto).
      congruence.
Qed.

(* the rows of a returned subgraph *)
Theorem keep_any_rows : forall g nodes edges s, subgraph_keep g nodes edges = Some s ->
  sg_nodemap s = nodes /\ length s = length nodes /\
  forall i nd, nth_error s i = Some nd ->
    sg_old nd = nth i nodes 0%N /\
    (* the requests attached to new node i, in request order: those whose source has position i,
       a source that is not kept counting as position 0 *)
    sg_oldedges nd = map snd (filter (fun e => (pos nodes (fst e) =? i)%nat) edges) /\
    sg_out nd = map (fun e => N.of_nat (pos nodes (keep_tgt g e))) (filter (fun e => (pos nodes (fst e) =? i)%nat) edges).
Proof.
  intros g nodes edges s H. rewrite subgraph_keep_any in H. unfold keep_any in H.
  destruct (_ && _ && _); [|discriminate]. injection H as <-. unfold any_result.
  split; [|split].
  - unfold sg_nodemap. rewrite map_map. cbn [any_node sg_old]. apply map_nth_seq.
  - rewrite map_length, seq_length. reflexivity.
  - intros i nd Hi. apply nth_error_map_inv in Hi. destruct Hi as [j [Hj ->]].
    assert (j = i).
    { assert (Hlt : (i < length (seq 0 (length nodes)))%nat) by (apply nth_error_Some; congruence).
      rewrite seq_length in Hlt. rewrite (nth_error_nth' _ 0%nat) in Hj by (rewrite seq_length; exact Hlt).
      rewrite seq_nth in Hj by exact Hlt. injection Hj as <-. reflexivity. }
    subst j. cbn. repeat split; reflexivity.
Qed.

(* position-or-0 spelled out: an id that is kept sits at its position, any other id maps to 0 *)
Lemma pos_spec : forall nodes x,
  (In x nodes -> nth_error nodes (pos nodes x) = Some x) /\ (~ In x nodes -> pos nodes x = 0%nat).
Proof.
  intros nodes x. split.
  - apply index_or_0_In.
  - intro Hn. unfold pos, index_or_0. destruct (index_of x nodes) as [k|] eqn:E; [|reflexivity].
    exfalso. apply Hn. apply index_of_Some in E. eapply nth_error_In. exact E.
Qed.

(* on a well-formed request the general closed form is the one of Proofs/Subgraph.v *)
Lemma keep_any_wf : forall g nodes edges, keep_wf g nodes edges ->
  keep_any g nodes edges = Some (keep_result g nodes edges).
Proof. intros g nodes edges H. rewrite <- subgraph_keep_any. apply subgraph_keep_closed. exact H. Qed.

(* grouped for Properties/C18.v *)
Lemma subgraph_keep_any_request :
  (forall g nodes edges, subgraph_keep g nodes edges = keep_any g nodes edges) /\
  (forall g nodes edges, subgraph_keep g nodes edges = None <->
     ((exists v, In v nodes /\ (g_n g <= v)%N) \/ ~ NoDup nodes) \/
     (exists e, In e edges /\ edge_exists g e = false) \/
     (nodes = [] /\ edges <> [])) /\
  (forall g nodes edges s, subgraph_keep g nodes edges = Some s ->
     sg_nodemap s = nodes /\ length s = length nodes /\
     forall i nd, nth_error s i = Some nd ->
       sg_old nd = nth i nodes 0%N /\
       sg_oldedges nd = map snd (filter (fun e => (pos nodes (fst e) =? i)%nat) edges) /\
       sg_out nd = map (fun e => N.of_nat (pos nodes (keep_tgt g e))) (filter (fun e => (pos nodes (fst e) =? i)%nat) edges)) /\
  (forall nodes x, (In x nodes -> nth_error nodes (pos nodes x) = Some x) /\ (~ In x nodes -> pos nodes x = 0%nat)).
Proof. exact (conj subgraph_keep_any (conj keep_any_panics_iff (conj keep_any_rows pos_spec))). Qed.

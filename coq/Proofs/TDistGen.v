(* Proofs/TDistGen.v — Student's t for every real nu > 0 (RealSpec/TDistGen.v): the laws of
   Proofs/TDistR.v without the restriction nu >= 1, agreement with RealSpec/TDist.v for nu >= 1,
   the normalising constant as an improper integral, and the limits of the CDF at +-infinity.
   No axioms beyond the stdlib real numbers. *)
From Coq Require Import Reals Lra Psatz ssreflect.
From Coquelicot Require Import Coquelicot.
From MM Require Import RealSpec.TDist Proofs.TDistR.
From MM Require Import RealSpec.TDistGen.
Open Scope R_scope.

(* ---------------------------------------------------------------------------------------- *)
(* integrals of the kernel strictly inside (-PI/2, PI/2): any nu                              *)
(* ---------------------------------------------------------------------------------------- *)

Lemma cos_pos_between : forall a b x, - PI / 2 < a < PI / 2 -> - PI / 2 < b < PI / 2 ->
  Rmin a b <= x <= Rmax a b -> 0 < cos x.
Proof.
  intros a b x [Ha1 Ha2] [Hb1 Hb2] [H1 H2]. apply cos_gt_0.
  - apply Rlt_le_trans with (2 := H1). apply Rmin_case; lra.
  - apply Rle_lt_trans with (1 := H2). apply Rmax_case; lra.
Qed.

Lemma tk_ex_RInt : forall nu a b, - PI / 2 < a < PI / 2 -> - PI / 2 < b < PI / 2 ->
  ex_RInt (tkernel nu) a b.
Proof.
  intros nu a b Ha Hb. apply: ex_RInt_continuous. intros z Hz.
  apply tkernel_continuous. now apply (cos_pos_between a b).
Qed.

Lemma tk_RInt_ge_0 : forall nu a b, - PI / 2 < a < PI / 2 -> - PI / 2 < b < PI / 2 ->
  a <= b -> 0 <= RInt (tkernel nu) a b.
Proof.
  intros nu a b Ha Hb Hab. apply RInt_ge_0; auto. now apply tk_ex_RInt.
  intros; apply tkernel_nonneg.
Qed.

Lemma tk_RInt_gt_0 : forall nu a b, - PI / 2 < a < PI / 2 -> - PI / 2 < b < PI / 2 ->
  a < b -> 0 < RInt (tkernel nu) a b.
Proof.
  intros nu a b Ha Hb Hab. apply RInt_gt_0; auto.
  - intros; apply tkernel_pos.
  - intros x Hx. apply tkernel_continuous. apply (cos_pos_between a b); auto.
    rewrite Rmin_left ?Rmax_right; lra.
Qed.

Lemma tk_Chasles : forall nu a b c, - PI / 2 < a < PI / 2 -> - PI / 2 < b < PI / 2 ->
  - PI / 2 < c < PI / 2 ->
  RInt (tkernel nu) a b + RInt (tkernel nu) b c = RInt (tkernel nu) a c.
Proof.
  intros nu a b c Ha Hb Hc.
  apply (RInt_Chasles (tkernel nu) a b c); now apply tk_ex_RInt.
Qed.

Lemma tk_RInt_opp : forall nu A, - PI / 2 < A < PI / 2 ->
  RInt (tkernel nu) 0 (- A) = - RInt (tkernel nu) 0 A.
Proof.
  intros nu A [H1 H2].
  generalize PI_RGT_0 => HPI.
  replace 0 with (-1 * 0 + 0) at 1 by ring.
  replace (- A) with (-1 * A + 0) by ring.
  rewrite -(RInt_comp_lin (tkernel nu) (-1) 0 0 A).
  2:{ replace (-1 * 0 + 0) with 0 by ring. replace (-1 * A + 0) with (- A) by ring.
      apply tk_ex_RInt; lra. }
  rewrite -[RHS](RInt_opp (tkernel nu)); last by (apply tk_ex_RInt; lra).
  apply RInt_ext. intros x _. rewrite /scal /= /mult /= /opp /=.
  replace (-1 * x + 0) with (- x) by ring. rewrite tkernel_even. ring.
Qed.

Lemma tk_RInt_derive : forall nu A, - PI / 2 < A < PI / 2 ->
  is_derive (fun b => RInt (tkernel nu) 0 b) A (tkernel nu A).
Proof.
  intros nu A [H1 H2].
  generalize PI_RGT_0 => HPI.
  apply (is_derive_RInt (tkernel nu) _ 0).
  - assert (He : 0 < Rmin (A - - PI / 2) (PI / 2 - A)) by (apply Rmin_case; lra).
    exists (mkposreal _ He). intros y Hy.
    change (Rabs (y - A) < Rmin (A - - PI / 2) (PI / 2 - A)) in Hy.
    apply Rabs_def2 in Hy. destruct Hy as [Hy1 Hy2].
    generalize (Rmin_l (A - - PI / 2) (PI / 2 - A)) (Rmin_r (A - - PI / 2) (PI / 2 - A)) => M1 M2.
    apply: RInt_correct. apply tk_ex_RInt; lra.
  - apply tkernel_continuous. apply cos_gt_0; lra.
Qed.

(* ---------------------------------------------------------------------------------------- *)
(* integration by parts                                                                       *)
(* ---------------------------------------------------------------------------------------- *)

Definition tF (nu A : R) : R := sin A * Rpower (cos A) nu.

Lemma tF_derive : forall nu A, 0 < cos A ->
  is_derive (tF nu) A ((nu + 1) * tkernel (nu + 2) A - nu * tkernel nu A).
Proof.
  intros nu A Hc. unfold tF, tkernel, Rpower. auto_derive; [exact Hc|].
  assert (E1 : exp ((nu + 2 - 1) * ln (cos A)) = exp (nu * ln (cos A)) * cos A).
  { replace ((nu + 2 - 1) * ln (cos A)) with (nu * ln (cos A) + ln (cos A)) by ring.
    rewrite exp_plus exp_ln //. }
  assert (E2 : exp ((nu - 1) * ln (cos A)) = exp (nu * ln (cos A)) / cos A).
  { replace ((nu - 1) * ln (cos A)) with (nu * ln (cos A) + - ln (cos A)) by ring.
    rewrite exp_plus exp_Ropp exp_ln //. }
  rewrite E1 E2.
  assert (Hs : sin A * sin A = 1 - cos A * cos A).
  { generalize (sin2_cos2 A). unfold Rsqr. lra. }
  set (E := exp (nu * ln (cos A))). set (c := cos A) in *. set (s := sin A) in *.
  replace (s * (nu * (1 * - s * / c) * E)) with (- nu * (s * s) * E / c) by (field; lra).
  rewrite Hs. field. lra.
Qed.

Lemma tF_0 : forall nu, tF nu 0 = 0.
Proof. intros nu. unfold tF. rewrite sin_0. ring. Qed.

Lemma tk_by_parts : forall nu A, - PI / 2 < A < PI / 2 ->
  nu * RInt (tkernel nu) 0 A = (nu + 1) * RInt (tkernel (nu + 2)) 0 A - tF nu A.
Proof.
  intros nu A HA. generalize PI_RGT_0 => HPI.
  assert (H0 : - PI / 2 < 0 < PI / 2) by lra.
  set (df := fun th : R => minus (scal (nu + 1) (tkernel (nu + 2) th)) (scal nu (tkernel nu th))).
  assert (HI : is_RInt df 0 A (minus (tF nu A) (tF nu 0))).
  { apply (is_RInt_derive (tF nu) df).
    - intros x Hx. exact (tF_derive nu x (cos_pos_between 0 A x H0 HA Hx)).
    - intros x Hx. generalize (cos_pos_between 0 A x H0 HA Hx) => Hc.
      unfold df. apply: continuous_minus; apply: continuous_scal_r; now apply tkernel_continuous. }
  assert (HL : is_RInt df 0 A (minus (scal (nu + 1) (RInt (tkernel (nu + 2)) 0 A)) (scal nu (RInt (tkernel nu) 0 A)))).
  { unfold df. apply: is_RInt_minus; apply: is_RInt_scal; apply: RInt_correct; now apply tk_ex_RInt. }
  generalize (is_RInt_unique _ _ _ _ HI). rewrite (is_RInt_unique _ _ _ _ HL).
  rewrite tF_0. rewrite /minus /plus /opp /scal /= /mult /=. lra.
Qed.

(* ---------------------------------------------------------------------------------------- *)
(* the laws for every nu > 0                                                                   *)
(* ---------------------------------------------------------------------------------------- *)

Section TGen.
Variable nu : R.
Hypothesis Hnu : 0 < nu.

Lemma tnorm_gen_unfold : nu * tnorm_gen nu = (nu + 1) * tnorm (nu + 2).
Proof. unfold tnorm_gen, tnorm. field. lra. Qed.

Lemma tnorm_gen_pos : 0 < tnorm_gen nu.
Proof.
  unfold tnorm_gen. apply Rmult_lt_0_compat; [apply Rdiv_lt_0_compat; lra|].
  apply (tnorm_pos (nu + 2)). lra.
Qed.

Lemma sqrt_nu_pos_gen : 0 < sqrt nu.
Proof. apply sqrt_lt_R0; lra. Qed.

Lemma tF_nonneg : forall A, 0 <= A < PI / 2 -> 0 <= tF nu A.
Proof.
  intros A [H1 H2]. unfold tF. apply Rmult_le_pos.
  - apply sin_ge_0; generalize PI_RGT_0; lra.
  - left; apply exp_pos.
Qed.

(* the partial integral stays strictly below the normalising constant *)
Lemma tk_RInt_lt_tnorm : forall A, 0 <= A < PI / 2 -> RInt (tkernel nu) 0 A < tnorm_gen nu.
Proof.
  intros A [H1 H2]. generalize PI_RGT_0 => HPI.
  assert (HA : - PI / 2 < A < PI / 2) by lra.
  generalize (tk_by_parts nu A HA) (tF_nonneg A (conj H1 H2)) tnorm_gen_unfold => BP HF HU.
  assert (H2' : 1 <= nu + 2) by lra.
  assert (HC : RInt (tkernel (nu + 2)) 0 A < tnorm (nu + 2)).
  { unfold tnorm. rewrite -(tkernel_Chasles (nu + 2) 0 A (PI / 2)) //; try lra.
    assert (0 < RInt (tkernel (nu + 2)) A (PI / 2)) by (apply tkernel_RInt_gt_0; lra). lra. }
  apply Rmult_lt_reg_l with nu; [exact Hnu|]. nra.
Qed.

Lemma tk_RInt_bound_gen : forall A, - PI / 2 < A < PI / 2 ->
  - tnorm_gen nu < RInt (tkernel nu) 0 A < tnorm_gen nu.
Proof.
  intros A [H1 H2]. generalize PI_RGT_0 tnorm_gen_pos => HPI HJ.
  destruct (Rle_dec 0 A) as [H0 | H0].
  - generalize (tk_RInt_lt_tnorm A (conj H0 H2)) (tk_RInt_ge_0 nu 0 A ltac:(lra) ltac:(lra) H0). lra.
  - assert (HA : 0 <= - A < PI / 2) by lra.
    generalize (tk_RInt_lt_tnorm _ HA) (tk_RInt_ge_0 nu 0 (- A) ltac:(lra) ltac:(lra) ltac:(lra)).
    rewrite tk_RInt_opp; lra.
Qed.

Lemma tcdf_gen_zero : tcdf_gen nu 0 = 1 / 2.
Proof.
  unfold tcdf_gen. replace (0 / sqrt nu) with 0 by (unfold Rdiv; ring).
  rewrite atan_0. rewrite (RInt_point 0 (tkernel nu)). rewrite /zero /=.
  unfold Rdiv; ring.
Qed.

Lemma tcdf_gen_symmetric : forall x, tcdf_gen nu (- x) + tcdf_gen nu x = 1.
Proof.
  intros x. unfold tcdf_gen.
  replace (- x / sqrt nu) with (- (x / sqrt nu)) by (unfold Rdiv; ring).
  rewrite atan_opp tk_RInt_opp.
  - field. apply Rgt_not_eq, tnorm_gen_pos.
  - apply atan_bound.
Qed.

Lemma tcdf_gen_range : forall x, 0 < tcdf_gen nu x < 1.
Proof.
  intros x. unfold tcdf_gen.
  generalize tnorm_gen_pos => Hn.
  destruct (tk_RInt_bound_gen (atan (x / sqrt nu)) (atan_bound _)) as [H1 H2].
  set (I := RInt _ _ _) in *. set (J := tnorm_gen nu) in *.
  assert (-1 < I / J < 1).
  { split.
    - apply Rmult_lt_reg_r with J; auto. unfold Rdiv. rewrite Rmult_assoc Rinv_l; lra.
    - apply Rmult_lt_reg_r with J; auto. unfold Rdiv. rewrite Rmult_assoc Rinv_l; lra. }
  lra.
Qed.

Lemma tcdf_gen_increasing : forall x y, x < y -> tcdf_gen nu x < tcdf_gen nu y.
Proof.
  intros x y Hxy. unfold tcdf_gen.
  generalize (atan_bound (x / sqrt nu)) (atan_bound (y / sqrt nu)) tnorm_gen_pos sqrt_nu_pos_gen PI_RGT_0
    => Hbx Hby Hn Hs HPI.
  assert (HA : atan (x / sqrt nu) < atan (y / sqrt nu)).
  { apply atan_increasing. apply Rmult_lt_compat_r; auto. now apply Rinv_0_lt_compat. }
  assert (HI : RInt (tkernel nu) 0 (atan (x / sqrt nu)) < RInt (tkernel nu) 0 (atan (y / sqrt nu))).
  { rewrite -(tk_Chasles nu 0 (atan (x / sqrt nu)) (atan (y / sqrt nu))) //; try lra.
    assert (0 < RInt (tkernel nu) (atan (x / sqrt nu)) (atan (y / sqrt nu)))
      by (apply tk_RInt_gt_0; lra).
    lra. }
  apply Rplus_lt_compat_l, Rmult_lt_compat_l; [lra|].
  apply Rmult_lt_compat_r; auto. now apply Rinv_0_lt_compat.
Qed.

Lemma tcdf_gen_monotone : forall x y, x <= y -> tcdf_gen nu x <= tcdf_gen nu y.
Proof.
  intros x y [H | ->]; [left; now apply tcdf_gen_increasing | right; reflexivity].
Qed.

(* ---- density ---- *)
Lemma tpdf_gen_pos : forall x, 0 < tpdf_gen nu x.
Proof.
  intros x. unfold tpdf_gen. apply Rdiv_lt_0_compat; [apply exp_pos|].
  generalize tnorm_gen_pos sqrt_nu_pos_gen => Hn Hs.
  apply Rmult_lt_0_compat; lra.
Qed.

Lemma tpdf_gen_continuous : forall x, continuous (tpdf_gen nu) x.
Proof.
  intros x. unfold tpdf_gen, Rpower.
  generalize tnorm_gen_pos sqrt_nu_pos_gen => Hn Hs.
  set (J := tnorm_gen nu) in *. set (s := sqrt nu) in *.
  apply: ex_derive_continuous. auto_derive.
  assert (0 < x * x / nu + 1).
  { assert (0 <= x * x / nu); [|lra]. apply Rmult_le_pos; [nra|]. left; apply Rinv_0_lt_compat; lra. }
  repeat split; try lra; try nra.
Qed.

Lemma tcdf_gen_derive : forall x, is_derive (tcdf_gen nu) x (tpdf_gen nu x).
Proof.
  intros x.
  generalize tnorm_gen_pos sqrt_nu_pos_gen => Hn Hs.
  assert (Hss : sqrt nu * sqrt nu = nu) by (apply sqrt_sqrt; lra).
  set (u := x / sqrt nu).
  assert (Hg : is_derive (fun x => atan (x / sqrt nu)) x (/ sqrt nu / (1 + u * u))).
  { auto_derive; [auto | ]. unfold u, Rdiv. f_equal; [ring|]. f_equal. ring. }
  assert (HH : is_derive (fun x => RInt (tkernel nu) 0 (atan (x / sqrt nu))) x
                 (/ sqrt nu / (1 + u * u) * tkernel nu (atan u))).
  { apply (is_derive_comp (fun b => RInt (tkernel nu) 0 b) (fun x => atan (x / sqrt nu))).
    - apply tk_RInt_derive. apply atan_bound.
    - exact Hg. }
  unfold tcdf_gen.
  evar_last.
  apply (affine_derive _ x _ (tnorm_gen nu) HH).
  unfold tpdf_gen.
  replace (x * x / nu) with (u * u) by (unfold u; rewrite -{3}Hss; field; lra).
  rewrite -tkernel_atan. field.
  assert (0 < 1 + u * u) by nra. repeat split; lra.
Qed.

Lemma tcdf_gen_is_integral_of_tpdf_gen :
  forall a b, RInt (tpdf_gen nu) a b = tcdf_gen nu b - tcdf_gen nu a.
Proof.
  intros a b. apply is_RInt_unique.
  apply (is_RInt_derive (tcdf_gen nu) (tpdf_gen nu)).
  - intros x _. apply tcdf_gen_derive.
  - intros x _. apply tpdf_gen_continuous.
Qed.

End TGen.

(* ---------------------------------------------------------------------------------------- *)
(* the partial integral as a function continuous up to PI/2                                    *)
(* ---------------------------------------------------------------------------------------- *)

Definition tH (nu A : R) : R :=
  ((nu + 1) * RInt (tkext (nu + 2)) 0 A - sin A * pw nu (cos A)) / nu.

Lemma tkext_RInt_continuous : forall nu A, 1 <= nu -> continuous (fun b => RInt (tkext nu) 0 b) A.
Proof.
  intros nu A Hnu. apply: ex_derive_continuous. exists (tkext nu A).
  apply (is_derive_RInt (tkext nu) _ 0).
  - apply filter_forall. intros y. apply: RInt_correct. apply: ex_RInt_continuous.
    intros z _. now apply tkext_continuous.
  - now apply tkext_continuous.
Qed.

Lemma tH_continuous : forall nu A, 0 < nu -> continuous (tH nu) A.
Proof.
  intros nu A Hnu. unfold tH.
  apply (continuous_scal_l (fun A => (nu + 1) * RInt (tkext (nu + 2)) 0 A - sin A * pw nu (cos A)) (/ nu)).
  apply: continuous_minus.
  - apply: continuous_scal_r. apply tkext_RInt_continuous. lra.
  - apply: continuous_mult.
    + apply continuous_sin.
    + apply (continuous_comp cos (pw nu)); [apply continuous_cos | now apply pw_continuous].
Qed.

Lemma tH_eq : forall nu A, 0 < nu -> - PI / 2 < A < PI / 2 -> tH nu A = RInt (tkernel nu) 0 A.
Proof.
  intros nu A Hnu HA. generalize PI_RGT_0 => HPI. unfold tH.
  rewrite -(tkernel_RInt_ext (nu + 2) 0 A); try lra.
  assert (Hc : 0 < cos A) by (apply cos_gt_0; lra).
  replace (sin A * pw nu (cos A)) with (tF nu A).
  2:{ unfold tF, pw. destruct (Rle_dec (cos A) 0); [lra | reflexivity]. }
  rewrite -(tk_by_parts nu A HA). field. lra.
Qed.

Lemma tH_half_pi : forall nu, 0 < nu -> tH nu (PI / 2) = tnorm_gen nu.
Proof.
  intros nu Hnu. generalize PI_RGT_0 => HPI. unfold tH, tnorm_gen.
  rewrite -(tkernel_RInt_ext (nu + 2) 0 (PI / 2)); try lra.
  rewrite cos_PI2. unfold pw. destruct (Rle_dec 0 0); [|lra]. field. lra.
Qed.

(* the normalising constant IS the improper integral int_0^(PI/2) cos^(nu-1) *)
Theorem tnorm_gen_is_improper : forall nu, 0 < nu ->
  filterlim (fun A => RInt (tkernel nu) 0 A) (at_left (PI / 2)) (locally (tnorm_gen nu)).
Proof.
  intros nu Hnu. generalize PI_RGT_0 => HPI. rewrite -(tH_half_pi nu Hnu).
  apply (filterlim_ext_loc (tH nu)).
  - assert (Hp : 0 < PI / 2) by lra. exists (mkposreal _ Hp). intros y Hy Hlt.
    change (Rabs (y - PI / 2) < PI / 2) in Hy. apply Rabs_def2 in Hy.
    apply tH_eq; [exact Hnu | lra].
  - apply filterlim_filter_le_1 with (2 := tH_continuous nu (PI / 2) Hnu).
    apply filter_le_within.
Qed.

(* a continuous function that vanishes on [a, b) vanishes at b *)
Lemma continuous_zero_left : forall (G : R -> R) a b, a < b ->
  continuous G b -> (forall x, a <= x < b -> G x = 0) -> G b = 0.
Proof.
  intros G a b Hab Hc Hz.
  destruct (Req_dec (G b) 0) as [E | E]; [exact E | exfalso].
  assert (He : 0 < Rabs (G b)) by now apply Rabs_pos_lt.
  move: Hc => /filterlim_locally /(_ (mkposreal _ He)) [d Hd].
  set (x := Rmax a (b - d / 2)).
  assert (Hx : a <= x < b).
  { unfold x. split; [apply Rmax_l|]. apply Rmax_case; [lra|]. generalize (cond_pos d); lra. }
  assert (Hb : ball b d x).
  { change (Rabs (x - b) < d). generalize (cond_pos d) (Rmax_r a (b - d / 2)) => Hd0 Hr. fold x in Hr.
    apply Rabs_def1; lra. }
  specialize (Hd x Hb). change (Rabs (G x - G b) < Rabs (G b)) in Hd.
  rewrite (Hz x Hx) in Hd. replace (0 - G b) with (- G b) in Hd by ring.
  rewrite Rabs_Ropp in Hd. lra.
Qed.

(* for nu >= 1 the new definitions coincide with RealSpec/TDist.v *)
Theorem tnorm_gen_eq : forall nu, 1 <= nu -> tnorm_gen nu = tnorm nu.
Proof.
  intros nu Hnu. generalize PI_RGT_0 => HPI.
  assert (Hnu0 : 0 < nu) by lra.
  rewrite -(tH_half_pi nu Hnu0). unfold tnorm.
  rewrite (tkernel_RInt_ext nu 0 (PI / 2)); try lra.
  set (G := fun A => RInt (tkext nu) 0 A - tH nu A).
  assert (HG : G (PI / 2) = 0).
  { apply (continuous_zero_left G 0 (PI / 2)); [lra | |].
    - apply: continuous_minus; [now apply tkext_RInt_continuous | now apply tH_continuous].
    - intros x Hx. unfold G. rewrite -(tkernel_RInt_ext nu 0 x); try lra.
      rewrite -(tH_eq nu x Hnu0); lra. }
  unfold G in HG. lra.
Qed.

Theorem tcdf_gen_eq : forall nu x, 1 <= nu -> tcdf_gen nu x = tcdf nu x.
Proof. intros nu x Hnu. unfold tcdf_gen, tcdf. now rewrite tnorm_gen_eq. Qed.

Theorem tpdf_gen_eq : forall nu x, 1 <= nu -> tpdf_gen nu x = tpdf nu x.
Proof. intros nu x Hnu. unfold tpdf_gen, tpdf. now rewrite tnorm_gen_eq. Qed.

(* ---------------------------------------------------------------------------------------- *)
(* limits at infinity                                                                         *)
(* ---------------------------------------------------------------------------------------- *)

Lemma atan_near_half_pi : forall d, 0 < d -> exists M, forall x, M < x -> PI / 2 - d < atan x.
Proof.
  intros d Hd. generalize PI_RGT_0 => HPI.
  set (d' := Rmin d (PI / 2)).
  assert (Hd' : 0 < d' <= PI / 2) by (unfold d'; split; [apply Rmin_case; lra | apply Rmin_r]).
  assert (Hdd : d' <= d) by apply Rmin_l.
  set (t := PI / 2 - d' / 2).
  assert (Ht : - PI / 2 < t < PI / 2) by (unfold t; lra).
  exists (tan t). intros x Hx.
  assert (Ht' : - (PI / 2) < t < PI / 2) by lra.
  generalize (atan_increasing _ _ Hx). rewrite (atan_tan t Ht'). unfold t. lra.
Qed.

Section TLim.
Variable nu : R.
Hypothesis Hnu : 0 < nu.

Lemma tcdf_gen_upper_small : forall eps, 0 < eps -> exists M, forall x, M < x -> 1 - eps < tcdf_gen nu x < 1.
Proof.
  intros eps He. generalize (tnorm_gen_pos nu Hnu) (sqrt_nu_pos_gen nu Hnu) PI_RGT_0 => HJ Hs HPI.
  assert (HeJ : 0 < eps * tnorm_gen nu) by now apply Rmult_lt_0_compat.
  move: (tH_continuous nu (PI / 2) Hnu) => /filterlim_locally /(_ (mkposreal _ HeJ)) [d Hd].
  destruct (atan_near_half_pi d (cond_pos d)) as [M0 HM0].
  exists (M0 * sqrt nu). intros x Hx. split; [|apply tcdf_gen_range; exact Hnu].
  assert (Hu : M0 < x / sqrt nu) by (apply Rlt_div_r; lra).
  generalize (HM0 _ Hu) (atan_bound (x / sqrt nu)) => HA1 HA2.
  set (A := atan (x / sqrt nu)) in *.
  assert (Hb : ball (PI / 2) d A) by (change (Rabs (A - PI / 2) < d); apply Rabs_def1; lra).
  specialize (Hd A Hb). change (Rabs (tH nu A - tH nu (PI / 2)) < eps * tnorm_gen nu) in Hd.
  rewrite (tH_half_pi nu Hnu) (tH_eq nu A Hnu HA2) in Hd. apply Rabs_def2 in Hd.
  unfold tcdf_gen. fold A. set (I := RInt (tkernel nu) 0 A) in *. set (J := tnorm_gen nu) in *.
  assert (1 - eps < I / J).
  { apply Rlt_div_r; [exact HJ|]. lra. }
  lra.
Qed.

Theorem tcdf_gen_lim_p_infty : is_lim (tcdf_gen nu) p_infty 1.
Proof.
  apply is_lim_spec. intros eps. simpl.
  destruct (tcdf_gen_upper_small eps (cond_pos eps)) as [M HM].
  exists M. intros x Hx. destruct (HM x Hx). apply Rabs_def1; lra.
Qed.

Theorem tcdf_gen_lim_m_infty : is_lim (tcdf_gen nu) m_infty 0.
Proof.
  apply is_lim_spec. intros eps. simpl.
  destruct (tcdf_gen_upper_small eps (cond_pos eps)) as [M HM].
  exists (- M). intros x Hx.
  assert (Hx' : M < - x) by lra.
  destruct (HM _ Hx'). generalize (tcdf_gen_symmetric nu Hnu x) => HS.
  apply Rabs_def1; lra.
Qed.
End TLim.

Print Assumptions tcdf_gen_range.
Print Assumptions tnorm_gen_eq.
Print Assumptions tcdf_gen_lim_p_infty.

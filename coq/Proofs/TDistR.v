(* Proofs/TDistR.v — theorems about Student's t over Coquelicot reals (RealSpec/TDist.v).
   Note on the definition: tkernel nu theta = Rpower (cos theta) (nu - 1) has the junk value 1
   wherever cos theta <= 0 (Coq's ln is 0 there); in particular at theta = PI/2, where the true
   limit is 0 for nu > 1.  Every integral below is over a sub-range of [-PI/2, PI/2], and
   RInt/ex_RInt only look at the OPEN interval, so the junk value never matters. *)
From Coq Require Import Reals Lra Psatz ssreflect.
From Coquelicot Require Import Coquelicot.
From MM Require Import RealSpec.TDist.
Open Scope R_scope.

(* ---------------------------------------------------------------------------------------- *)
(* Interface lemmas for the certificate generator                                             *)
(* ---------------------------------------------------------------------------------------- *)

Lemma atan_bound : forall u, - PI / 2 < atan u < PI / 2.
Proof. exact Ratan.atan_bound. Qed.

Lemma cos_pos_open : forall a b x,
  - PI / 2 <= a -> a <= PI / 2 -> - PI / 2 <= b -> b <= PI / 2 ->
  Rmin a b < x < Rmax a b -> 0 < cos x.
Proof.
  intros a b x Ha1 Ha2 Hb1 Hb2 [H1 H2].
  apply cos_gt_0.
  - apply Rle_lt_trans with (2 := H1). apply Rmin_case; lra.
  - apply Rlt_le_trans with (1 := H2). apply Rmax_case; lra.
Qed.

Lemma tkernel_pow : forall (n : nat) nu a b, nu = INR n + 1 ->
  - PI / 2 <= a -> a <= PI / 2 -> - PI / 2 <= b -> b <= PI / 2 ->
  RInt (tkernel nu) a b = RInt (fun th => cos th ^ n) a b.
Proof.
  intros n nu a b -> Ha1 Ha2 Hb1 Hb2.
  apply RInt_ext. intros x Hx.
  unfold tkernel. replace (INR n + 1 - 1) with (INR n) by ring.
  apply Rpower_pow. now apply (cos_pos_open a b).
Qed.

Lemma Rpower_half_pow : forall (p : nat) c, 0 < c -> Rpower c (INR p / 2) = sqrt c ^ p.
Proof.
  intros p c Hc.
  rewrite -Rpower_pow; last by apply sqrt_lt_R0.
  rewrite -Rpower_sqrt //. rewrite Rpower_mult. f_equal. field.
Qed.

Lemma tkernel_half : forall (p : nat) nu a b, nu = INR p / 2 + 1 ->
  - PI / 2 <= a -> a <= PI / 2 -> - PI / 2 <= b -> b <= PI / 2 ->
  RInt (tkernel nu) a b = RInt (fun th => sqrt (cos th) ^ p) a b.
Proof.
  intros p nu a b -> Ha1 Ha2 Hb1 Hb2.
  apply RInt_ext. intros x Hx.
  unfold tkernel. replace (INR p / 2 + 1 - 1) with (INR p / 2) by ring.
  apply Rpower_half_pow. now apply (cos_pos_open a b).
Qed.


(* ---------------------------------------------------------------------------------------- *)
(* A continuous extension of the kernel                                                       *)
(* ---------------------------------------------------------------------------------------- *)

(* x^a for x > 0, and 0 for x <= 0: continuous on the whole line when a > 0 *)
Definition pw (a x : R) : R :=
  match Rle_dec x 0 with left _ => 0 | right _ => Rpower x a end.

Lemma pw_continuous : forall a x, 0 < a -> continuous (pw a) x.
Proof.
  intros a x Ha.
  destruct (Rle_dec x 0) as [Hx | Hx].
  - (* x <= 0 : the value is 0 and nearby values are small *)
    apply/filterlim_locally => eps.
    assert (Hd : 0 < Rpower eps (/ a)) by apply exp_pos.
    exists (mkposreal _ Hd). intros y Hy.
    change (Rabs (y - x) < Rpower eps (/ a)) in Hy.
    change (Rabs (pw a y - pw a x) < eps).
    unfold pw at 2. destruct (Rle_dec x 0) as [_ | F]; [ | contradiction].
    unfold pw. destruct (Rle_dec y 0) as [Hy0 | Hy0].
    + rewrite Rminus_0_r Rabs_R0. apply cond_pos.
    + assert (0 < y) by lra.
      assert (y < Rpower eps (/ a)).
      { apply Rabs_def2 in Hy. lra. }
      rewrite Rminus_0_r Rabs_pos_eq; last by (left; apply exp_pos).
      replace (pos eps) with (Rpower (Rpower eps (/ a)) a).
      apply Rlt_Rpower_l; lra.
      rewrite Rpower_mult Rinv_l; last by lra.
      apply Rpower_1, cond_pos.
  - (* x > 0 : locally the honest power *)
    assert (Hx0 : 0 < x) by lra.
    apply (continuous_ext_loc _ (fun y => Rpower y a)).
    + exists (mkposreal _ Hx0). intros y Hy.
      change (Rabs (y - x) < x) in Hy. apply Rabs_def2 in Hy.
      unfold pw. destruct (Rle_dec y 0); [lra | reflexivity].
    + unfold Rpower. apply: ex_derive_continuous. auto_derive. exact Hx0.
Qed.

Definition tkext (nu theta : R) : R :=
  match Req_EM_T nu 1 with left _ => 1 | right _ => pw (nu - 1) (cos theta) end.

Lemma tkext_continuous : forall nu th, 1 <= nu -> continuous (tkext nu) th.
Proof.
  intros nu th Hnu. unfold tkext. destruct (Req_EM_T nu 1) as [E | E].
  - apply continuous_const.
  - apply (continuous_comp cos (pw (nu - 1))).
    + apply continuous_cos.
    + apply pw_continuous. lra.
Qed.

Lemma tkext_eq : forall nu th, 0 < cos th -> tkext nu th = tkernel nu th.
Proof.
  intros nu th Hc. unfold tkext, tkernel, pw.
  destruct (Req_EM_T nu 1) as [-> | E].
  - replace (1 - 1) with 0 by ring. now rewrite Rpower_O.
  - destruct (Rle_dec (cos th) 0); [lra | reflexivity].
Qed.

Lemma tkernel_pos : forall nu th, 0 < tkernel nu th.
Proof. intros; apply exp_pos. Qed.

Lemma tkernel_nonneg : forall nu th, 0 <= tkernel nu th.
Proof. intros; left; apply tkernel_pos. Qed.

Lemma tkernel_even : forall nu th, tkernel nu (- th) = tkernel nu th.
Proof. intros; unfold tkernel; now rewrite cos_neg. Qed.

Lemma tkernel_continuous : forall nu th, 0 < cos th -> continuous (tkernel nu) th.
Proof.
  intros nu th Hc. unfold tkernel, Rpower.
  apply: ex_derive_continuous. auto_derive. exact Hc.
Qed.

Section Bounds.
Variables nu a b : R.
Hypothesis Hnu : 1 <= nu.
Hypothesis Ha1 : - PI / 2 <= a.
Hypothesis Ha2 : a <= PI / 2.
Hypothesis Hb1 : - PI / 2 <= b.
Hypothesis Hb2 : b <= PI / 2.

Lemma tkernel_RInt_ext : RInt (tkernel nu) a b = RInt (tkext nu) a b.
Proof.
  apply RInt_ext. intros x Hx. symmetry. apply tkext_eq. now apply (cos_pos_open a b).
Qed.

Lemma tkernel_ex_RInt : ex_RInt (tkernel nu) a b.
Proof.
  apply (ex_RInt_ext (tkext nu)).
  - intros x Hx. apply tkext_eq. now apply (cos_pos_open a b).
  - apply: ex_RInt_continuous. intros z _. now apply tkext_continuous.
Qed.

Lemma tkernel_RInt_ge_0 : a <= b -> 0 <= RInt (tkernel nu) a b.
Proof.
  intros Hab. apply RInt_ge_0; auto. apply tkernel_ex_RInt.
  intros; apply tkernel_nonneg.
Qed.

Lemma tkernel_RInt_gt_0 : a < b -> 0 < RInt (tkernel nu) a b.
Proof.
  intros Hab. rewrite tkernel_RInt_ext. apply RInt_gt_0; auto.
  - intros x Hx. rewrite tkext_eq. 1: apply tkernel_pos.
    apply (cos_pos_open a b); auto.
    rewrite Rmin_left ?Rmax_right; lra.
  - intros x _. now apply tkext_continuous.
Qed.

End Bounds.

Lemma tkernel_Chasles : forall nu a b c, 1 <= nu ->
  - PI / 2 <= a <= PI / 2 -> - PI / 2 <= b <= PI / 2 -> - PI / 2 <= c <= PI / 2 ->
  RInt (tkernel nu) a b + RInt (tkernel nu) b c = RInt (tkernel nu) a c.
Proof.
  intros nu a b c Hnu [? ?] [? ?] [? ?].
  apply (RInt_Chasles (tkernel nu) a b c); now apply tkernel_ex_RInt.
Qed.

Lemma tkernel_RInt_opp : forall nu A, 1 <= nu -> - PI / 2 <= A <= PI / 2 ->
  RInt (tkernel nu) 0 (- A) = - RInt (tkernel nu) 0 A.
Proof.
  intros nu A Hnu [H1 H2].
  generalize PI_RGT_0 => HPI.
  replace 0 with (-1 * 0 + 0) at 1 by ring.
  replace (- A) with (-1 * A + 0) by ring.
  rewrite -(RInt_comp_lin (tkernel nu) (-1) 0 0 A).
  2:{ replace (-1 * 0 + 0) with 0 by ring. apply tkernel_ex_RInt; lra. }
  rewrite -[RHS](RInt_opp (tkernel nu)); last by (apply tkernel_ex_RInt; lra).
  apply RInt_ext. intros x _. rewrite /scal /= /mult /= /opp /=.
  replace (-1 * x + 0) with (- x) by ring. rewrite tkernel_even. ring.
Qed.

(* ---------------------------------------------------------------------------------------- *)
(* tnorm, tcdf                                                                                *)
(* ---------------------------------------------------------------------------------------- *)

Section TDist.
Variable nu : R.
Hypothesis Hnu : 1 <= nu.

Lemma tnorm_pos : 0 < tnorm nu.
Proof.
  generalize PI_RGT_0 => HPI.
  unfold tnorm. apply tkernel_RInt_gt_0; lra.
Qed.

Lemma sqrt_nu_pos : 0 < sqrt nu.
Proof. apply sqrt_lt_R0; lra. Qed.

Lemma tcdf_zero : tcdf nu 0 = 1 / 2.
Proof.
  unfold tcdf. replace (0 / sqrt nu) with 0 by (unfold Rdiv; ring).
  rewrite atan_0. rewrite (RInt_point 0 (tkernel nu)). rewrite /zero /=.
  unfold Rdiv; ring.
Qed.

Lemma tcdf_symmetric : forall x, tcdf nu (- x) + tcdf nu x = 1.
Proof.
  intros x. unfold tcdf.
  replace (- x / sqrt nu) with (- (x / sqrt nu)) by (unfold Rdiv; ring).
  rewrite atan_opp tkernel_RInt_opp //.
  - field. apply Rgt_not_eq, tnorm_pos.
  - generalize (atan_bound (x / sqrt nu)); lra.
Qed.

(* the partial integral is bounded by the normalising constant *)
Lemma tkernel_RInt_bound : forall A, - PI / 2 <= A <= PI / 2 ->
  - tnorm nu <= RInt (tkernel nu) 0 A <= tnorm nu.
Proof.
  generalize PI_RGT_0 => HPI.
  assert (P : forall A, 0 <= A <= PI / 2 -> 0 <= RInt (tkernel nu) 0 A <= tnorm nu).
  { intros A [H1 H2]. split.
    - apply tkernel_RInt_ge_0; lra.
    - unfold tnorm. rewrite -(tkernel_Chasles nu 0 A (PI / 2)) //; try lra.
      assert (0 <= RInt (tkernel nu) A (PI / 2)) by (apply tkernel_RInt_ge_0; lra).
      lra. }
  intros A [H1 H2]. destruct (Rle_dec 0 A) as [H0 | H0].
  - generalize (P A (conj H0 H2)) tnorm_pos; lra.
  - assert (HA : 0 <= - A <= PI / 2) by lra.
    generalize (P _ HA). rewrite tkernel_RInt_opp //; lra.
Qed.

Lemma tcdf_range : forall x, 0 <= tcdf nu x <= 1.
Proof.
  intros x. unfold tcdf.
  generalize (atan_bound (x / sqrt nu)) tnorm_pos => Hb Hn.
  destruct (tkernel_RInt_bound (atan (x / sqrt nu))) as [H1 H2]; first by lra.
  set (I := RInt _ _ _) in *. set (J := tnorm nu) in *.
  assert (-1 <= I / J <= 1).
  { split.
    - apply Rmult_le_reg_r with J; auto. unfold Rdiv. rewrite Rmult_assoc Rinv_l; lra.
    - apply Rmult_le_reg_r with J; auto. unfold Rdiv. rewrite Rmult_assoc Rinv_l; lra. }
  lra.
Qed.

Lemma tcdf_monotone : forall x y, x <= y -> tcdf nu x <= tcdf nu y.
Proof.
  intros x y Hxy. unfold tcdf.
  generalize (atan_bound (x / sqrt nu)) (atan_bound (y / sqrt nu)) tnorm_pos sqrt_nu_pos
    => Hbx Hby Hn Hs.
  assert (HA : atan (x / sqrt nu) <= atan (y / sqrt nu)).
  { destruct Hxy as [Hlt | ->]; [left | right; reflexivity].
    apply atan_increasing. apply Rmult_lt_compat_r; auto. now apply Rinv_0_lt_compat. }
  assert (HI : RInt (tkernel nu) 0 (atan (x / sqrt nu)) <= RInt (tkernel nu) 0 (atan (y / sqrt nu))).
  { rewrite -(tkernel_Chasles nu 0 (atan (x / sqrt nu)) (atan (y / sqrt nu))) //; try lra.
    assert (0 <= RInt (tkernel nu) (atan (x / sqrt nu)) (atan (y / sqrt nu)))
      by (apply tkernel_RInt_ge_0; lra).
    lra. }
  apply Rplus_le_compat_l, Rmult_le_compat_l; [lra|].
  apply Rmult_le_compat_r; auto. left; now apply Rinv_0_lt_compat.
Qed.

(* strict versions *)
Lemma tcdf_increasing : forall x y, x < y -> tcdf nu x < tcdf nu y.
Proof.
  intros x y Hxy. unfold tcdf.
  generalize (atan_bound (x / sqrt nu)) (atan_bound (y / sqrt nu)) tnorm_pos sqrt_nu_pos
    => Hbx Hby Hn Hs.
  assert (HA : atan (x / sqrt nu) < atan (y / sqrt nu)).
  { apply atan_increasing. apply Rmult_lt_compat_r; auto. now apply Rinv_0_lt_compat. }
  assert (HI : RInt (tkernel nu) 0 (atan (x / sqrt nu)) < RInt (tkernel nu) 0 (atan (y / sqrt nu))).
  { rewrite -(tkernel_Chasles nu 0 (atan (x / sqrt nu)) (atan (y / sqrt nu))) //; try lra.
    assert (0 < RInt (tkernel nu) (atan (x / sqrt nu)) (atan (y / sqrt nu)))
      by (apply tkernel_RInt_gt_0; lra).
    lra. }
  apply Rplus_lt_compat_l, Rmult_lt_compat_l; [lra|].
  apply Rmult_lt_compat_r; auto. now apply Rinv_0_lt_compat.
Qed.

Lemma tcdf_range_strict : forall x, 0 < tcdf nu x < 1.
Proof.
  intros x. split.
  - apply Rle_lt_trans with (tcdf nu (x - 1)); [apply tcdf_range | apply tcdf_increasing; lra].
  - apply Rlt_le_trans with (tcdf nu (x + 1)); [apply tcdf_increasing; lra | apply tcdf_range].
Qed.

End TDist.

(* ---------------------------------------------------------------------------------------- *)
(* density                                                                                    *)
(* ---------------------------------------------------------------------------------------- *)

Lemma tkernel_RInt_derive : forall nu A, 1 <= nu -> - PI / 2 < A < PI / 2 ->
  is_derive (fun b => RInt (tkernel nu) 0 b) A (tkernel nu A).
Proof.
  intros nu A Hnu [H1 H2].
  generalize PI_RGT_0 => HPI.
  apply (is_derive_RInt (tkernel nu) _ 0).
  - assert (He : 0 < Rmin (A - - PI / 2) (PI / 2 - A)) by (apply Rmin_case; lra).
    exists (mkposreal _ He). intros y Hy.
    change (Rabs (y - A) < Rmin (A - - PI / 2) (PI / 2 - A)) in Hy.
    apply Rabs_def2 in Hy. destruct Hy as [Hy1 Hy2].
    generalize (Rmin_l (A - - PI / 2) (PI / 2 - A)) (Rmin_r (A - - PI / 2) (PI / 2 - A)) => M1 M2.
    apply: RInt_correct. apply tkernel_ex_RInt; lra.
  - apply tkernel_continuous. apply cos_gt_0; lra.
Qed.

Lemma affine_derive : forall (H : R -> R) x dH c,
  is_derive H x dH ->
  is_derive (fun x => 1 / 2 + 1 / 2 * (H x / c)) x (1 / 2 * (dH / c)).
Proof.
  intros H x dH c HH. auto_derive.
  - now exists dH.
  - rewrite (is_derive_unique _ _ _ HH). unfold Rdiv; ring.
Qed.

(* cos(atan u)^(nu-1) / (1+u^2) = (1+u^2)^(-(nu+1)/2) *)
Lemma tkernel_atan : forall nu u,
  tkernel nu (atan u) / (1 + u * u) = Rpower (1 + u * u) (- (nu + 1) / 2).
Proof.
  intros nu u. unfold tkernel. rewrite cos_atan.
  assert (Hw : 0 < 1 + u * u) by nra.
  unfold Rsqr. set (w := 1 + u * u) in *.
  replace (1 / sqrt w) with (Rpower w (- / 2)).
  2:{ rewrite Rpower_Ropp Rpower_sqrt //. unfold Rdiv; ring. }
  rewrite Rpower_mult.
  replace (/ w) with (Rpower w (- 1)) by (rewrite Rpower_Ropp Rpower_1 //).
  unfold Rdiv. replace (/ w) with (Rpower w (- 1)) by (rewrite Rpower_Ropp Rpower_1 //).
  rewrite -Rpower_plus. f_equal. field.
Qed.

Section TDensity.
Variable nu : R.
Hypothesis Hnu : 1 <= nu.

Lemma tpdf_pos : forall x, 0 < tpdf nu x.
Proof.
  intros x. unfold tpdf. apply Rdiv_lt_0_compat; [apply exp_pos|].
  generalize (tnorm_pos nu Hnu) (sqrt_nu_pos nu Hnu) => Hn Hs.
  apply Rmult_lt_0_compat; lra.
Qed.

Lemma tpdf_continuous : forall x, continuous (tpdf nu) x.
Proof.
  intros x. unfold tpdf, Rpower.
  generalize (tnorm_pos nu Hnu) (sqrt_nu_pos nu Hnu) => Hn Hs.
  set (J := tnorm nu) in *. set (s := sqrt nu) in *.
  apply: ex_derive_continuous. auto_derive.
  assert (0 < x * x / nu + 1).
  { assert (0 <= x * x / nu); [|lra]. apply Rmult_le_pos; [nra|]. left; apply Rinv_0_lt_compat; lra. }
  repeat split; try lra; try nra.
Qed.

Lemma tcdf_derive : forall x, is_derive (tcdf nu) x (tpdf nu x).
Proof.
  intros x.
  generalize (tnorm_pos nu Hnu) (sqrt_nu_pos nu Hnu) => Hn Hs.
  assert (Hss : sqrt nu * sqrt nu = nu) by (apply sqrt_sqrt; lra).
  set (u := x / sqrt nu).
  assert (Hg : is_derive (fun x => atan (x / sqrt nu)) x (/ sqrt nu / (1 + u * u))).
  { auto_derive; [auto | ]. unfold u, Rdiv. f_equal; [ring|]. f_equal. ring. }
  assert (HH : is_derive (fun x => RInt (tkernel nu) 0 (atan (x / sqrt nu))) x
                 (/ sqrt nu / (1 + u * u) * tkernel nu (atan u))).
  { apply (is_derive_comp (fun b => RInt (tkernel nu) 0 b) (fun x => atan (x / sqrt nu))).
    - apply tkernel_RInt_derive; auto. apply atan_bound.
    - exact Hg. }
  unfold tcdf.
  evar_last.
  apply (affine_derive _ x _ (tnorm nu) HH).
  unfold tpdf.
  replace (x * x / nu) with (u * u) by (unfold u; rewrite -{3}Hss; field; lra).
  rewrite -tkernel_atan. field.
  assert (0 < 1 + u * u) by nra. repeat split; lra.
Qed.

Lemma tcdf_is_integral_of_tpdf :
  forall a b, RInt (tpdf nu) a b = tcdf nu b - tcdf nu a.
Proof.
  intros a b. apply is_RInt_unique.
  apply (is_RInt_derive (tcdf nu) (tpdf nu)).
  - intros x _. apply tcdf_derive.
  - intros x _. apply tpdf_continuous.
Qed.

End TDensity.

Print Assumptions tkernel_half.
Print Assumptions tcdf_range.
Print Assumptions tcdf_derive.

(* Proofs/TTest.v — t-tests and MeanCI (C04). Self-contained (Welford lemmas included). *)
From MM Require Import Base.Num Model.TTest.
From Coq Require Import Field Lqa Setoid Morphisms.
Local Open Scope Q_scope.

(* ====================================================================== *)
(* tail selection over an abstract CDF                                     *)
(* ====================================================================== *)
Section Tails.
Variable F : Q -> Q.
Hypothesis F_ext : forall a b, a == b -> F a == F b.
Hypothesis F_sym : forall t, F (- t) == 1 - F t.
Hypothesis F_range : forall t, 0 <= F t <= 1.

(* swapping the samples negates T: the one-sided p-values are exchanged, the two-sided one is unchanged *)
Theorem ttail_swap t :
  ttail F (-1) (- t) == ttail F 1 t /\ ttail F 1 (- t) == ttail F (-1) t /\ ttail F 0 (- t) == ttail F 0 t.
Proof.
  cbn [ttail]. repeat split.
  - apply F_sym.
  - rewrite F_sym. ring.
  - rewrite (F_ext (Qabs (- t)) (Qabs t)) by apply Qabs_opp. reflexivity.
Qed.

Lemma F_zero : F 0 == 1 # 2.
Proof. pose proof (F_sym 0) as H. rewrite (F_ext (- 0) 0) in H by reflexivity. lra. Qed.

(* every p-value is a probability; for the two-sided one F must also be monotone *)
Theorem ttail_range t :
  0 <= ttail F (-1) t <= 1 /\ 0 <= ttail F 1 t <= 1 /\
  ((forall a b, a <= b -> F a <= F b) -> 0 <= ttail F 0 t <= 1).
Proof.
  cbn [ttail]. pose proof (F_range t) as R1. pose proof (F_range (Qabs t)) as R2.
  split; [lra|]. split; [lra|]. intros Hm.
  pose proof (Hm 0 (Qabs t) (Qabs_nonneg t)) as M. pose proof F_zero as Z.
  generalize dependent (F (Qabs t)). generalize dependent (F 0). intros. lra.
Qed.

(* MeanCI: the interval mean -+ t s/sqrt(n) with F(-t) = alpha = (1-c)/2 has probability content c *)
Theorem meanci_content t c : F (- t) == (1 - c) / 2 -> F t - F (- t) == c.
Proof.
  intros H. pose proof (F_sym t) as S. rewrite H in S. rewrite H.
  assert (E : (1 - c) / 2 == (1 - c) * (1 # 2)) by field. rewrite E in *. lra.
Qed.
End Tails.

(* ====================================================================== *)
(* definitional mean and variance; the Welford loops compute them          *)
(* ====================================================================== *)
Definition mean_def (xs : list Q) : Q := Qsum xs / lenQ xs.
(* sum of squared deviations from c *)
Definition ssd (c : Q) (xs : list Q) : Q := Qsum (map (fun x => (x - c) * (x - c)) xs).
Definition var_def (xs : list Q) : Q := ssd (mean_def xs) xs / (lenQ xs - 1).
Definition sumsq (xs : list Q) : Q := Qsum (map (fun x => x * x) xs).

Lemma Qofnat_S k : Qofnat (S k) == Qofnat k + 1.
Proof. unfold Qofnat. rewrite Nat2Z.inj_succ, <- Z.add_1_r, inject_Z_plus. reflexivity. Qed.
Lemma Qofnat_nonneg k : 0 <= Qofnat k.
Proof. unfold Qofnat. change 0 with (inject_Z 0). rewrite <- Zle_Qle. lia. Qed.
Lemma Qofnat_S_pos k : 0 < Qofnat (S k).
Proof. rewrite Qofnat_S. pose proof (Qofnat_nonneg k). lra. Qed.
Lemma Qofnat_add a b : Qofnat (a + b) == Qofnat a + Qofnat b.
Proof. unfold Qofnat. rewrite Nat2Z.inj_add, inject_Z_plus. reflexivity. Qed.
Lemma Qofnat_le a b : (a <= b)%nat -> Qofnat a <= Qofnat b.
Proof. intros H. unfold Qofnat. rewrite <- Zle_Qle. lia. Qed.
Lemma lenQ_cons x xs : lenQ (x :: xs) == lenQ xs + 1.
Proof. unfold lenQ. cbn [length]. apply Qofnat_S. Qed.
Lemma lenQ_pos xs : xs <> [] -> 0 < lenQ xs.
Proof. destruct xs; [congruence|]. intros _. unfold lenQ. cbn [length]. apply Qofnat_S_pos. Qed.
Lemma lenQ_ge2 xs : (2 <= length xs)%nat -> 2 <= lenQ xs.
Proof. intros H. unfold lenQ. change 2 with (Qofnat 2). now apply Qofnat_le. Qed.

Lemma w_mean_loop_inv xs : forall k m T0, m * Qofnat k == T0 ->
  w_mean_loop xs k m * Qofnat (k + length xs) == T0 + Qsum xs.
Proof.
  induction xs as [|x t IH]; intros k m T0 H; cbn [w_mean_loop length Qsum].
  - rewrite Nat.add_0_r, H. ring.
  - replace (k + S (length t))%nat with (S k + length t)%nat by lia.
    rewrite (IH (S k) _ (T0 + x)); [ring|].
    rewrite Qred_correct. pose proof (Qofnat_S_pos k) as P.
    setoid_replace ((m + (x - m) / Qofnat (S k)) * Qofnat (S k))
      with (m * Qofnat (S k) + (x - m)) by (field; lra).
    rewrite Qofnat_S. rewrite <- H. ring.
Qed.
Lemma w_mean_sum xs : w_mean xs * lenQ xs == Qsum xs.
Proof. unfold w_mean, lenQ. rewrite (w_mean_loop_inv xs 0 0 0) by (cbn; ring). ring. Qed.
Theorem w_mean_eq xs : xs <> [] -> w_mean xs == mean_def xs.
Proof.
  intros H. unfold mean_def. rewrite <- w_mean_sum. pose proof (lenQ_pos xs H). field. lra.
Qed.

Lemma w_var_loop_inv xs : forall k mean m2 S1 S2,
  mean * Qofnat k == S1 -> m2 == S2 - Qofnat k * (mean * mean) ->
  exists mf, mf * Qofnat (k + length xs) == S1 + Qsum xs /\
             w_var_loop xs k mean m2 == S2 + sumsq xs - Qofnat (k + length xs) * (mf * mf).
Proof.
  induction xs as [|x t IH]; intros k mean m2 S1 S2 H1 H2; cbn [w_var_loop length].
  - exists mean. rewrite Nat.add_0_r. unfold sumsq. cbn. split; [rewrite H1; ring | rewrite H2; ring].
  - replace (k + S (length t))%nat with (S k + length t)%nat by lia.
    pose proof (Qofnat_S_pos k) as P.
    set (mean' := Qred (mean + (x - mean) / Qofnat (S k))).
    assert (Em : mean' * Qofnat (S k) == S1 + x).
    { unfold mean'. rewrite Qred_correct.
      setoid_replace ((mean + (x - mean) / Qofnat (S k)) * Qofnat (S k)) with (mean * Qofnat (S k) + (x - mean)) by (field; lra).
      rewrite Qofnat_S, <- H1. ring. }
    destruct (IH (S k) mean' (Qred (m2 + (x - mean) * (x - mean'))) (S1 + x) (S2 + x * x) Em) as (mf & E1 & E2).
    + rewrite Qred_correct, H2.
      (* mean = ((k+1) mean' - x) / k when k > 0; avoid division: use S1 *)
      assert (Ek : mean * Qofnat k == mean' * Qofnat (S k) - x) by (rewrite Em, H1; ring).
      rewrite Qofnat_S in *.
      set (K := Qofnat k) in *.
      (* goal: S2 - K mean^2 + (x - mean)(x - mean') == S2 + x^2 - (K+1) mean'^2 *)
      assert (G : - K * (mean * mean) + (x - mean) * (x - mean') == x * x - (K + 1) * (mean' * mean')).
      { assert (E3 : K * mean == (K + 1) * mean' - x) by (setoid_replace (K * mean) with (mean * K) by ring; rewrite Ek; ring).
        (* multiply out using E3 *)
        setoid_replace (- K * (mean * mean)) with (- (K * mean) * mean) by ring.
        rewrite E3.
        setoid_replace (- ((K + 1) * mean' - x) * mean + (x - mean) * (x - mean'))
          with (x * x - x * mean' - (K * mean) * mean') by ring.
        rewrite E3. ring. }
      setoid_replace (S2 - K * (mean * mean) + (x - mean) * (x - mean'))
        with (S2 + (- K * (mean * mean) + (x - mean) * (x - mean'))) by ring.
      rewrite G. ring.
    + exists mf. split; [rewrite E1; cbn [Qsum]; ring|]. rewrite E2. unfold sumsq. cbn [map Qsum]. ring.
Qed.

Lemma ssd_expand c xs : ssd c xs == sumsq xs - 2 * c * Qsum xs + lenQ xs * (c * c).
Proof.
  unfold ssd, sumsq. induction xs as [|x t IH].
  - cbn [map Qsum]. change (lenQ []) with 0. ring.
  - cbn [map Qsum]. rewrite IH, lenQ_cons. ring.
Qed.
Theorem w_variance_eq xs : (2 <= length xs)%nat -> w_variance xs == var_def xs.
Proof.
  intros H. unfold w_variance. destruct (length xs <=? 1)%nat eqn:E; [apply Nat.leb_le in E; lia|].
  rewrite Qred_correct. unfold var_def.
  destruct (w_var_loop_inv xs 0 0 0 0 0) as (mf & E1 & E2); [cbn; ring | cbn; ring|].
  cbn [plus] in E1, E2. fold (lenQ xs) in E1, E2.
  assert (Hn : 0 < lenQ xs) by (apply lenQ_pos; destruct xs; [cbn in H; lia | discriminate]).
  assert (E1' : Qsum xs == mf * lenQ xs) by (rewrite E1; ring).
  assert (Emf : mf == mean_def xs) by (unfold mean_def; rewrite E1'; field; lra).
  assert (Hl : Qofnat (length xs - 1) == lenQ xs - 1).
  { unfold lenQ. destruct (length xs) as [|m] eqn:El; [lia|]. cbn [Nat.sub]. rewrite Nat.sub_0_r, Qofnat_S. ring. }
  rewrite Hl, E2, ssd_expand, Emf.
  assert (Es : Qsum xs == mean_def xs * lenQ xs) by (unfold mean_def; field; lra).
  rewrite Es. apply Qmult_comp; [ring | reflexivity].
Qed.

Lemma ssd_nonneg c xs : 0 <= ssd c xs.
Proof.
  unfold ssd. induction xs as [|x t IH]; cbn [map Qsum]; [apply Qle_refl|].
  assert (0 <= (x - c) * (x - c)) by (generalize (x - c); intros q; nra). lra.
Qed.
Lemma var_def_nonneg xs : (2 <= length xs)%nat -> 0 <= var_def xs.
Proof.
  intros H. unfold var_def. pose proof (lenQ_ge2 xs H). pose proof (ssd_nonneg (mean_def xs) xs).
  apply Qle_shift_div_l; [lra|]. lra.
Qed.
(* zero variance means: all values equal (to the mean) *)
Lemma ssd_zero_iff c xs : ssd c xs == 0 <-> forall x, In x xs -> x == c.
Proof.
  unfold ssd. induction xs as [|x t IH]; cbn [map Qsum]; [split; [intros _ y []|reflexivity]|].
  pose proof (ssd_nonneg c t) as N. unfold ssd in N.
  assert (Sq : 0 <= (x - c) * (x - c)) by (generalize (x - c); intros q; nra).
  split.
  - intros H y [<-|Hy].
    + assert (E : (x - c) * (x - c) == 0) by lra. apply Qmult_integral in E. destruct E; lra.
    + apply IH; [lra | exact Hy].
  - intros H. assert (E1 : x == c) by (apply H; now left).
    assert (E2 : Qsum (map (fun x0 => (x0 - c) * (x0 - c)) t) == 0) by (apply IH; intros y Hy; apply H; now right).
    rewrite E2, E1. ring.
Qed.
Theorem var_def_zero_iff xs : (2 <= length xs)%nat ->
  (var_def xs == 0 <-> forall x, In x xs -> x == mean_def xs).
Proof.
  intros H. rewrite <- ssd_zero_iff. unfold var_def. pose proof (lenQ_ge2 xs H). split.
  - intros E. apply Qmult_integral_l with (x := / (lenQ xs - 1)).
    + intro C. apply (f_equal Qinv) in C || idtac. assert (lenQ xs - 1 == 0) by (rewrite <- (Qinv_involutive (lenQ xs - 1)), C; reflexivity). lra.
    + rewrite Qmult_comm. exact E.
  - intros E. unfold Qdiv. rewrite E. ring.
Qed.

(* ====================================================================== *)
(* the four tests return the textbook statistic and degrees of freedom     *)
(* ====================================================================== *)
Lemma is_zero_iff q : is_zero q = true <-> q == 0.
Proof. unfold is_zero, Qeqb. apply Qeq_bool_iff. Qed.
Lemma is_zero_false q : is_zero q = false <-> ~ q == 0.
Proof. rewrite <- is_zero_iff. destruct (is_zero q); split; congruence. Qed.
Lemma Qsign_ext a b : a == b -> Qsign a = Qsign b.
Proof.
  unfold Qsign, Qeq. intros H. apply (f_equal Z.sgn) in H. rewrite !Z.sgn_mul in H.
  cbn [Z.sgn] in H. lia.
Qed.
Lemma Qsign_opp a : Qsign (- a) = (- Qsign a)%Z.
Proof. unfold Qsign. destruct a as [n d]. cbn. apply Z.sgn_opp. Qed.
Lemma Qsign_scale c a : 0 < c -> Qsign (c * a) = Qsign a.
Proof.
  unfold Qsign. destruct c as [cn cd], a as [n d]. unfold Qlt. cbn. intros H.
  rewrite Z.sgn_mul. assert (0 < cn)%Z by lia. rewrite (Z.sgn_pos cn) by lia. lia.
Qed.
Lemma nonempty_of_len (xs : list Q) k : (S k <= length xs)%nat -> xs <> [].
Proof. destruct xs; [cbn; lia | discriminate]. Qed.
Lemma leb_false_2 (xs : list Q) : (2 <= length xs)%nat -> (length xs <=? 1)%nat = false /\ (length xs =? 0)%nat = false.
Proof. intros H. split; [apply Nat.leb_gt | apply Nat.eqb_neq]; lia. Qed.

(* pooled two-sample test: T = (m1 - m2) / sqrt(sp^2 (1/n1 + 1/n2)),
   sp^2 = ((n1-1) s1^2 + (n2-1) s2^2) / (n1+n2-2), DoF = n1+n2-2 *)
Theorem pooled_T_textbook x1 x2 : (2 <= length x1)%nat -> (2 <= length x2)%nat ->
  ~ (var_def x1 == 0 /\ var_def x2 == 0) ->
  exists r, two_sample x1 x2 = TOk r /\
    t_n1 r = zlen x1 /\ t_n2 r = zlen x2 /\
    t_sign r = Qsign (mean_def x1 - mean_def x2) /\
    t_sq r == (mean_def x1 - mean_def x2) * (mean_def x1 - mean_def x2) /
              (((lenQ x1 - 1) * var_def x1 + (lenQ x2 - 1) * var_def x2) / (lenQ x1 + lenQ x2 - 2) * (1 / lenQ x1 + 1 / lenQ x2)) /\
    t_dof r == lenQ x1 + lenQ x2 - 2.
Proof.
  intros H1 H2 Hv. unfold two_sample.
  destruct (leb_false_2 x1 H1) as [_ E1]. destruct (leb_false_2 x2 H2) as [_ E2]. rewrite E1, E2. cbn [orb].
  pose proof (w_variance_eq x1 H1) as V1. pose proof (w_variance_eq x2 H2) as V2.
  pose proof (w_mean_eq x1 (nonempty_of_len x1 1 H1)) as M1. pose proof (w_mean_eq x2 (nonempty_of_len x2 1 H2)) as M2.
  destruct (is_zero (w_variance x1) && is_zero (w_variance x2)) eqn:Ez.
  - exfalso. apply andb_prop in Ez as [Z1 Z2]. apply is_zero_iff in Z1, Z2. apply Hv. rewrite <- V1, <- V2. now split.
  - eexists. split; [reflexivity|]. cbn [t_n1 t_n2 t_sign t_sq t_dof]. repeat split.
    + apply Qsign_ext. now rewrite M1, M2.
    + rewrite Qred_correct, M1, M2, V1, V2. reflexivity.
    + apply Qred_correct.
Qed.

(* Welch: T = (m1 - m2) / sqrt(s1^2/n1 + s2^2/n2), Welch-Satterthwaite DoF *)
Theorem welch_T_dof_textbook x1 x2 : (2 <= length x1)%nat -> (2 <= length x2)%nat ->
  ~ (var_def x1 == 0 /\ var_def x2 == 0) ->
  exists r, welch x1 x2 = TOk r /\
    t_n1 r = zlen x1 /\ t_n2 r = zlen x2 /\
    t_sign r = Qsign (mean_def x1 - mean_def x2) /\
    (let a := var_def x1 / lenQ x1 in let b := var_def x2 / lenQ x2 in
     t_sq r == (mean_def x1 - mean_def x2) * (mean_def x1 - mean_def x2) / (a + b) /\
     t_dof r == (a + b) * (a + b) / (a * a / (lenQ x1 - 1) + b * b / (lenQ x2 - 1))).
Proof.
  intros H1 H2 Hv. unfold welch.
  destruct (leb_false_2 x1 H1) as [E1 _]. destruct (leb_false_2 x2 H2) as [E2 _]. rewrite E1, E2. cbn [orb].
  pose proof (w_variance_eq x1 H1) as V1. pose proof (w_variance_eq x2 H2) as V2.
  pose proof (w_mean_eq x1 (nonempty_of_len x1 1 H1)) as M1. pose proof (w_mean_eq x2 (nonempty_of_len x2 1 H2)) as M2.
  destruct (is_zero (w_variance x1) && is_zero (w_variance x2)) eqn:Ez.
  - exfalso. apply andb_prop in Ez as [Z1 Z2]. apply is_zero_iff in Z1, Z2. apply Hv. rewrite <- V1, <- V2. now split.
  - eexists. split; [reflexivity|]. cbn [t_n1 t_n2 t_sign t_sq t_dof]. cbv zeta. repeat split.
    + apply Qsign_ext. now rewrite M1, M2.
    + rewrite Qred_correct, M1, M2, V1, V2. reflexivity.
    + rewrite Qred_correct, V1, V2. reflexivity.
Qed.

(* paired: T = (mean(d) - mu0) sqrt(n) / s_d on the differences d_i = x1_i - x2_i, DoF = n-1 *)
Lemma vdiff_length a b : length a = length b -> length (vdiff a b) = length a.
Proof. revert b. induction a as [|x a IH]; intros [|y b] H; cbn in *; try lia. now rewrite IH by lia. Qed.
Theorem paired_textbook x1 x2 mu0 : length x1 = length x2 -> (2 <= length x1)%nat ->
  let d := vdiff x1 x2 in ~ var_def d == 0 ->
  exists r, paired x1 x2 mu0 = TOk r /\
    t_n1 r = zlen x1 /\ t_n2 r = zlen x2 /\
    t_sign r = Qsign (mean_def d - mu0) /\
    t_sq r == (mean_def d - mu0) * (mean_def d - mu0) * lenQ x1 / var_def d /\
    t_dof r == lenQ x1 - 1.
Proof.
  intros Hl H1 d Hv. unfold paired. rewrite <- Hl, Nat.eqb_refl. cbn [negb].
  destruct (leb_false_2 x1 H1) as [E1 _]. rewrite E1.
  assert (Hd : (2 <= length d)%nat) by (unfold d; rewrite vdiff_length; assumption).
  pose proof (w_variance_eq d Hd) as V. pose proof (w_mean_eq d (nonempty_of_len d 1 Hd)) as M. fold d.
  destruct (is_zero (w_variance d)) eqn:Ez.
  - exfalso. apply is_zero_iff in Ez. apply Hv. now rewrite <- V.
  - eexists. split; [reflexivity|]. cbn [t_n1 t_n2 t_sign t_sq t_dof]. repeat split.
    + apply Qsign_ext. now rewrite M.
    + rewrite Qred_correct, M, V. reflexivity.
    + apply Qred_correct.
Qed.

(* one sample: T = (m - mu0) sqrt(n) / s, DoF = n-1, N2 = 0 *)
Theorem one_sample_textbook x mu0 : (2 <= length x)%nat -> ~ var_def x == 0 ->
  exists r, one_sample x mu0 = TOk r /\
    t_n1 r = zlen x /\ t_n2 r = 0%Z /\
    t_sign r = Qsign (mean_def x - mu0) /\
    t_sq r == (mean_def x - mu0) * (mean_def x - mu0) * lenQ x / var_def x /\
    t_dof r == lenQ x - 1.
Proof.
  intros H1 Hv. unfold one_sample. destruct (leb_false_2 x H1) as [_ E1]. rewrite E1.
  pose proof (w_variance_eq x H1) as V. pose proof (w_mean_eq x (nonempty_of_len x 1 H1)) as M.
  destruct (is_zero (w_variance x)) eqn:Ez.
  - exfalso. apply is_zero_iff in Ez. apply Hv. now rewrite <- V.
  - eexists. split; [reflexivity|]. cbn [t_n1 t_n2 t_sign t_sq t_dof]. repeat split.
    + apply Qsign_ext. now rewrite M.
    + rewrite Qred_correct, M, V. reflexivity.
    + apply Qred_correct.
Qed.

(* ====================================================================== *)
(* the documented errors, exactly                                          *)
(* ====================================================================== *)
(* variance as the code sees it: 0 for fewer than two values *)
Ltac err_fin := intuition (try discriminate; try congruence; try lia; try contradiction).
Theorem two_sample_errors x1 x2 :
  (two_sample x1 x2 = TErr ErrSampleSize <-> length x1 = 0%nat \/ length x2 = 0%nat) /\
  (two_sample x1 x2 = TErr ErrZeroVariance <->
     length x1 <> 0%nat /\ length x2 <> 0%nat /\ w_variance x1 == 0 /\ w_variance x2 == 0) /\
  two_sample x1 x2 <> TErr ErrMismatchedSamples.
Proof.
  unfold two_sample. destruct (length x1 =? 0)%nat eqn:E1; [|destruct (length x2 =? 0)%nat eqn:E2]; cbn [orb].
  - apply Nat.eqb_eq in E1. err_fin.
  - apply Nat.eqb_eq in E2. err_fin.
  - apply Nat.eqb_neq in E1, E2.
    destruct (is_zero (w_variance x1)) eqn:Z1; [destruct (is_zero (w_variance x2)) eqn:Z2|]; cbn [andb].
    + apply is_zero_iff in Z1, Z2. err_fin.
    + apply is_zero_false in Z2. err_fin.
    + apply is_zero_false in Z1. err_fin.
Qed.
Theorem welch_errors x1 x2 :
  (welch x1 x2 = TErr ErrSampleSize <-> (length x1 <= 1)%nat \/ (length x2 <= 1)%nat) /\
  (welch x1 x2 = TErr ErrZeroVariance <->
     (2 <= length x1)%nat /\ (2 <= length x2)%nat /\ w_variance x1 == 0 /\ w_variance x2 == 0) /\
  welch x1 x2 <> TErr ErrMismatchedSamples.
Proof.
  unfold welch. destruct (length x1 <=? 1)%nat eqn:E1; [|destruct (length x2 <=? 1)%nat eqn:E2]; cbn [orb].
  - apply Nat.leb_le in E1. err_fin.
  - apply Nat.leb_le in E2. err_fin.
  - apply Nat.leb_gt in E1, E2.
    destruct (is_zero (w_variance x1)) eqn:Z1; [destruct (is_zero (w_variance x2)) eqn:Z2|]; cbn [andb].
    + apply is_zero_iff in Z1, Z2. err_fin.
    + apply is_zero_false in Z2. err_fin.
    + apply is_zero_false in Z1. err_fin.
Qed.
Theorem paired_errors x1 x2 mu0 :
  (paired x1 x2 mu0 = TErr ErrMismatchedSamples <-> length x1 <> length x2) /\
  (paired x1 x2 mu0 = TErr ErrSampleSize <-> length x1 = length x2 /\ (length x1 <= 1)%nat) /\
  (paired x1 x2 mu0 = TErr ErrZeroVariance <->
     length x1 = length x2 /\ (2 <= length x1)%nat /\ w_variance (vdiff x1 x2) == 0).
Proof.
  unfold paired. destruct (length x1 =? length x2)%nat eqn:E0; cbn [negb].
  - apply Nat.eqb_eq in E0. destruct (length x1 <=? 1)%nat eqn:E1.
    + apply Nat.leb_le in E1. err_fin.
    + apply Nat.leb_gt in E1. destruct (is_zero (w_variance (vdiff x1 x2))) eqn:Z.
      * apply is_zero_iff in Z. err_fin.
      * apply is_zero_false in Z. err_fin.
  - apply Nat.eqb_neq in E0. err_fin.
Qed.
Theorem one_sample_errors x mu0 :
  (one_sample x mu0 = TErr ErrSampleSize <-> length x = 0%nat) /\
  (one_sample x mu0 = TErr ErrZeroVariance <-> length x <> 0%nat /\ w_variance x == 0) /\
  one_sample x mu0 <> TErr ErrMismatchedSamples.
Proof.
  unfold one_sample. destruct (length x =? 0)%nat eqn:E1.
  - apply Nat.eqb_eq in E1. err_fin.
  - apply Nat.eqb_neq in E1. destruct (is_zero (w_variance x)) eqn:Z.
    + apply is_zero_iff in Z. err_fin.
    + apply is_zero_false in Z. err_fin.
Qed.

(* ====================================================================== *)
(* MeanCI                                                                  *)
(* ====================================================================== *)
Theorem meanci_edges xs c :
  (c <= 0 -> snd (meanci xs c) = CIZero) /\
  (0 < c -> (1 <= c \/ (length xs <= 1)%nat) -> snd (meanci xs c) = CIInf) /\
  (0 < c -> c < 1 -> (2 <= length xs)%nat ->
     snd (meanci xs c) = CIStudent (length xs) (w_variance xs) ((1 - c) / 2) /\ w_variance xs == var_def xs) /\
  (xs = [] <-> fst (meanci xs c) = None) /\
  (xs <> [] -> exists m, fst (meanci xs c) = Some m /\ m == mean_def xs).
Proof.
  unfold meanci. cbn [fst snd]. repeat split.
  - intros H. apply Qle_bool_iff in H. now rewrite H.
  - intros H0 H. destruct (Qle_bool c 0) eqn:E; [apply Qle_bool_iff in E; lra|].
    destruct H as [H|H]; [apply Qle_bool_iff in H; now rewrite H|].
    apply Nat.leb_le in H. rewrite H. now rewrite orb_true_r.
  - destruct (Qle_bool c 0) eqn:E; [apply Qle_bool_iff in E; lra|].
    destruct (Qle_bool 1 c) eqn:E1; [apply Qle_bool_iff in E1; lra|].
    destruct (length xs <=? 1)%nat eqn:E2; [apply Nat.leb_le in E2; lia|]. reflexivity.
  - now apply w_variance_eq.
  - intros ->. reflexivity.
  - destruct xs; [reflexivity | discriminate].
  - intros H. destruct xs as [|x t]; [congruence|]. eexists. split; [reflexivity|]. now apply w_mean_eq.
Qed.

(* ====================================================================== *)
(* laws: swapping the samples, affine maps of the data                     *)
(* ====================================================================== *)
Definition tres_same (r r' : tres) : Prop :=
  t_n1 r' = t_n1 r /\ t_n2 r' = t_n2 r /\ t_sign r' = t_sign r /\ t_sq r' == t_sq r /\ t_dof r' == t_dof r.
Definition tres_swapped (r r' : tres) : Prop :=
  t_n1 r' = t_n2 r /\ t_n2 r' = t_n1 r /\ t_sign r' = (- t_sign r)%Z /\ t_sq r' == t_sq r /\ t_dof r' == t_dof r.
(* same error, or both results related *)
Definition tout_rel (R : tres -> tres -> Prop) (a b : tout) : Prop :=
  match a, b with
  | TOk r, TOk r' => R r r'
  | TErr e, TErr e' => e = e'
  | _, _ => False
  end.

Lemma Qsign_swap a b : Qsign (b - a) = (- Qsign (a - b))%Z.
Proof. rewrite <- Qsign_opp. apply Qsign_ext. ring. Qed.

(* T -> -T, same T^2 and DoF, sizes exchanged; same error if any *)
Theorem two_sample_swap x1 x2 : tout_rel tres_swapped (two_sample x1 x2) (two_sample x2 x1).
Proof.
  unfold two_sample. rewrite (orb_comm (length x2 =? 0)%nat).
  destruct ((length x1 =? 0)%nat || (length x2 =? 0)%nat); [reflexivity|].
  rewrite (andb_comm (is_zero (w_variance x2))).
  destruct (is_zero (w_variance x1) && is_zero (w_variance x2)); [reflexivity|].
  cbn [tout_rel]. unfold tres_swapped. cbn [t_n1 t_n2 t_sign t_sq t_dof]. repeat split.
  - apply Qsign_swap.
  - rewrite !Qred_correct. unfold Qdiv. apply Qmult_comp; [ring|]. apply Qinv_comp.
    apply Qmult_comp; [|ring]. apply Qmult_comp; [ring|]. apply Qinv_comp. ring.
  - rewrite !Qred_correct. ring.
Qed.
Theorem welch_swap x1 x2 : tout_rel tres_swapped (welch x1 x2) (welch x2 x1).
Proof.
  unfold welch. rewrite (orb_comm (length x2 <=? 1)%nat).
  destruct ((length x1 <=? 1)%nat || (length x2 <=? 1)%nat); [reflexivity|].
  rewrite (andb_comm (is_zero (w_variance x2))).
  destruct (is_zero (w_variance x1) && is_zero (w_variance x2)); [reflexivity|].
  cbn [tout_rel]. unfold tres_swapped. cbn [t_n1 t_n2 t_sign t_sq t_dof]. repeat split.
  - apply Qsign_swap.
  - rewrite !Qred_correct. unfold Qdiv. apply Qmult_comp; [ring|]. apply Qinv_comp. ring.
  - rewrite !Qred_correct. unfold Qdiv. apply Qmult_comp; [ring|]. apply Qinv_comp. ring.
Qed.

(* ---------- affine maps ---------- *)
Lemma lenQ_map (f : Q -> Q) l : lenQ (map f l) = lenQ l.
Proof. unfold lenQ. now rewrite map_length. Qed.
Lemma Qsum_affine a b l : Qsum (map (fun x => a * x + b) l) == a * Qsum l + lenQ l * b.
Proof.
  induction l as [|x t IH]; cbn [map Qsum]; [change (lenQ []) with 0; ring|]. rewrite IH, lenQ_cons. ring.
Qed.
Lemma mean_def_affine a b l : l <> [] -> mean_def (map (fun x => a * x + b) l) == a * mean_def l + b.
Proof.
  intros H. unfold mean_def. rewrite lenQ_map, Qsum_affine. pose proof (lenQ_pos l H). field. lra.
Qed.
Lemma ssd_affine a b c l : ssd (a * c + b) (map (fun x => a * x + b) l) == a * a * ssd c l.
Proof.
  unfold ssd. induction l as [|x t IH]; cbn [map Qsum]; [ring|]. rewrite IH. ring.
Qed.
Lemma ssd_ext c c' l : c == c' -> ssd c l == ssd c' l.
Proof. intros H. rewrite !ssd_expand, H. reflexivity. Qed.
Lemma var_def_affine a b l : l <> [] -> var_def (map (fun x => a * x + b) l) == a * a * var_def l.
Proof.
  intros H. unfold var_def. rewrite lenQ_map.
  rewrite (ssd_ext _ (a * mean_def l + b)) by (now apply mean_def_affine).
  rewrite ssd_affine. unfold Qdiv. ring.
Qed.
Lemma w_mean_affine a b l : l <> [] -> w_mean (map (fun x => a * x + b) l) == a * w_mean l + b.
Proof.
  intros H. rewrite !w_mean_eq; auto; [now apply mean_def_affine|]. destruct l; [congruence | discriminate].
Qed.
Lemma w_variance_affine a b l : w_variance (map (fun x => a * x + b) l) == a * a * w_variance l.
Proof.
  destruct (Nat.le_gt_cases (length l) 1) as [H|H].
  - unfold w_variance. rewrite map_length. apply Nat.leb_le in H. rewrite H. ring.
  - rewrite !w_variance_eq by (rewrite ?map_length; lia). apply var_def_affine. destruct l; [cbn in H; lia | discriminate].
Qed.
Lemma is_zero_scale a v v' : ~ a == 0 -> v' == a * a * v -> is_zero v' = is_zero v.
Proof.
  intros Ha E. destruct (is_zero v) eqn:Z.
  - apply is_zero_iff in Z. apply is_zero_iff. rewrite E, Z. ring.
  - apply is_zero_false in Z. apply is_zero_false. intro C. apply Z. rewrite E in C.
    apply Qmult_integral in C as [C|C]; [|exact C]. apply Qmult_integral in C as [C|C]; contradiction.
Qed.
(* (c a) / (c b) == a / b for c <> 0, also when b == 0 (Q's division is total) *)
Lemma Qdiv_scale c a b : ~ c == 0 -> (c * a) / (c * b) == a / b.
Proof.
  intros Hc. destruct (Qeq_dec b 0) as [Hb|Hb].
  - unfold Qdiv. rewrite Hb. setoid_replace (c * 0) with 0 by ring. change (/ 0) with 0. ring.
  - field. split; assumption.
Qed.

Lemma len_eqb_map (g : Q -> Q) l k : (length (map g l) =? k)%nat = (length l =? k)%nat.
Proof. now rewrite map_length. Qed.
Lemma len_leb_map (g : Q -> Q) l k : (length (map g l) <=? k)%nat = (length l <=? k)%nat.
Proof. now rewrite map_length. Qed.
Lemma zlen_map (g : Q -> Q) l : zlen (map g l) = zlen l.
Proof. unfold zlen. now rewrite map_length. Qed.

Section Affine.
Variables (a b : Q).
Hypothesis Ha : 0 < a.
Let f := fun x => a * x + b.
Let Hane : ~ a == 0. Proof. lra. Qed.
Let Haa : ~ a * a == 0. Proof. intro C. apply Qmult_integral in C. destruct C; lra. Qed.

(* x -> a x + b (a > 0) on both samples leaves N1, N2, sign T, T^2, DoF (hence P) and errors unchanged *)
Theorem two_sample_affine x1 x2 : tout_rel tres_same (two_sample x1 x2) (two_sample (map f x1) (map f x2)).
Proof.
  unfold two_sample, f. rewrite !len_eqb_map.
  destruct (length x1 =? 0)%nat eqn:E1; [reflexivity|]. destruct (length x2 =? 0)%nat eqn:E2; [reflexivity|]. cbn [orb].
  assert (N1 : x1 <> []) by (destruct x1; [discriminate E1 | discriminate]).
  assert (N2 : x2 <> []) by (destruct x2; [discriminate E2 | discriminate]).
  rewrite (is_zero_scale a _ _ Hane (w_variance_affine a b x1)), (is_zero_scale a _ _ Hane (w_variance_affine a b x2)).
  destruct (is_zero (w_variance x1) && is_zero (w_variance x2)); [reflexivity|].
  cbn [tout_rel]. unfold tres_same. cbn [t_n1 t_n2 t_sign t_sq t_dof]. rewrite !zlen_map, !lenQ_map.
  repeat split.
  - rewrite <- (Qsign_scale a (w_mean x1 - w_mean x2) Ha). apply Qsign_ext.
    rewrite !w_mean_affine by assumption. ring.
  - rewrite !Qred_correct. rewrite !w_mean_affine, !w_variance_affine by assumption.
    set (d := w_mean x1 - w_mean x2). set (n1 := lenQ x1). set (n2 := lenQ x2).
    set (v1 := w_variance x1). set (v2 := w_variance x2).
    rewrite <- (Qdiv_scale (a * a) (d * d) (((n1 - 1) * v1 + (n2 - 1) * v2) / (n1 + n2 - 2) * (1 / n1 + 1 / n2)) Haa).
    unfold Qdiv. apply Qmult_comp; [unfold d; ring|]. apply Qinv_comp. ring.
Qed.
Theorem welch_affine x1 x2 : tout_rel tres_same (welch x1 x2) (welch (map f x1) (map f x2)).
Proof.
  unfold welch, f. rewrite !len_leb_map.
  destruct (length x1 <=? 1)%nat eqn:E1; [reflexivity|]. destruct (length x2 <=? 1)%nat eqn:E2; [reflexivity|]. cbn [orb].
  assert (N1 : x1 <> []) by (destruct x1; [discriminate E1 | discriminate]).
  assert (N2 : x2 <> []) by (destruct x2; [discriminate E2 | discriminate]).
  rewrite (is_zero_scale a _ _ Hane (w_variance_affine a b x1)), (is_zero_scale a _ _ Hane (w_variance_affine a b x2)).
  destruct (is_zero (w_variance x1) && is_zero (w_variance x2)); [reflexivity|].
  cbn [tout_rel]. unfold tres_same. cbn [t_n1 t_n2 t_sign t_sq t_dof]. rewrite !zlen_map, !lenQ_map.
  set (d := w_mean x1 - w_mean x2). set (n1 := lenQ x1). set (n2 := lenQ x2).
  set (v1 := w_variance x1). set (v2 := w_variance x2).
  repeat split.
  - rewrite <- (Qsign_scale a d Ha). apply Qsign_ext. unfold d.
    rewrite !w_mean_affine by assumption. ring.
  - rewrite !Qred_correct. rewrite !w_mean_affine, !w_variance_affine by assumption. fold d v1 v2.
    rewrite <- (Qdiv_scale (a * a) (d * d) (v1 / n1 + v2 / n2) Haa).
    unfold Qdiv. apply Qmult_comp; [unfold d; ring|]. apply Qinv_comp. ring.
  - rewrite !Qred_correct. rewrite !w_variance_affine. fold v1 v2.
    assert (H4 : ~ a * a * (a * a) == 0) by (intro C; apply Qmult_integral in C; destruct C; contradiction).
    rewrite <- (Qdiv_scale (a * a * (a * a)) ((v1 / n1 + v2 / n2) * (v1 / n1 + v2 / n2))
                 (v1 / n1 * (v1 / n1) / (n1 - 1) + v2 / n2 * (v2 / n2) / (n2 - 1)) H4).
    unfold Qdiv. apply Qmult_comp; [ring|]. apply Qinv_comp. ring.
Qed.
(* one sample, mu0 mapped too *)
Theorem one_sample_affine x mu0 : tout_rel tres_same (one_sample x mu0) (one_sample (map f x) (a * mu0 + b)).
Proof.
  unfold one_sample, f. rewrite !len_eqb_map.
  destruct (length x =? 0)%nat eqn:E1; [reflexivity|].
  assert (N1 : x <> []) by (destruct x; [discriminate E1 | discriminate]).
  rewrite (is_zero_scale a _ _ Hane (w_variance_affine a b x)).
  destruct (is_zero (w_variance x)); [reflexivity|].
  cbn [tout_rel]. unfold tres_same. cbn [t_n1 t_n2 t_sign t_sq t_dof]. rewrite !zlen_map, !lenQ_map.
  set (d := w_mean x - mu0). repeat split.
  - rewrite <- (Qsign_scale a d Ha). apply Qsign_ext. unfold d. rewrite w_mean_affine by assumption. ring.
  - rewrite !Qred_correct. rewrite w_mean_affine, w_variance_affine by assumption.
    rewrite <- (Qdiv_scale (a * a) (d * d * lenQ x) (w_variance x) Haa).
    unfold Qdiv. apply Qmult_comp; [unfold d; ring|]. reflexivity.
Qed.
End Affine.

(* ---------- paired test: swap and affine maps act on the differences ---------- *)
Lemma Qsum_ext l l' : Forall2 Qeq l l' -> Qsum l == Qsum l'.
Proof. induction 1 as [|x y l l' H _ IH]; cbn [Qsum]; [reflexivity | now rewrite H, IH]. Qed.
Lemma sumsq_ext l l' : Forall2 Qeq l l' -> sumsq l == sumsq l'.
Proof. unfold sumsq. induction 1 as [|x y l l' H _ IH]; cbn [map Qsum]; [reflexivity | now rewrite H, IH]. Qed.
Lemma Forall2_len {A B} (R : A -> B -> Prop) l l' : Forall2 R l l' -> length l = length l'.
Proof. induction 1; cbn; auto. Qed.
Lemma mean_def_ext l l' : Forall2 Qeq l l' -> mean_def l == mean_def l'.
Proof. intros H. unfold mean_def, lenQ. now rewrite (Qsum_ext _ _ H), (Forall2_len _ _ _ H). Qed.
Lemma var_def_ext l l' : Forall2 Qeq l l' -> var_def l == var_def l'.
Proof.
  intros H. unfold var_def. rewrite !ssd_expand, (mean_def_ext _ _ H), (Qsum_ext _ _ H), (sumsq_ext _ _ H).
  unfold lenQ. now rewrite (Forall2_len _ _ _ H).
Qed.
Lemma w_mean_ext l l' : l <> [] -> Forall2 Qeq l l' -> w_mean l == w_mean l'.
Proof.
  intros N H. rewrite !w_mean_eq; auto; [now apply mean_def_ext|]. inversion H; subst; [congruence | discriminate].
Qed.
Lemma w_variance_ext l l' : Forall2 Qeq l l' -> w_variance l == w_variance l'.
Proof.
  intros H. pose proof (Forall2_len _ _ _ H) as L. destruct (Nat.le_gt_cases (length l) 1) as [C|C].
  - unfold w_variance. rewrite <- L. apply Nat.leb_le in C. rewrite C. reflexivity.
  - rewrite !w_variance_eq by lia. now apply var_def_ext.
Qed.
Lemma vdiff_affine a b x1 : forall x2,
  Forall2 Qeq (vdiff (map (fun x => a * x + b) x1) (map (fun x => a * x + b) x2)) (map (fun d => a * d + 0) (vdiff x1 x2)).
Proof. induction x1 as [|x t IH]; intros [|y u]; cbn [map vdiff]; constructor; [ring | apply IH]. Qed.
Lemma vdiff_swap x1 : forall x2, Forall2 Qeq (vdiff x2 x1) (map (fun d => (-1) * d + 0) (vdiff x1 x2)).
Proof. induction x1 as [|x t IH]; intros [|y u]; cbn [map vdiff]; constructor; [ring | apply IH]. Qed.
Lemma vdiff_length_min a : forall b, length (vdiff a b) = Nat.min (length a) (length b).
Proof. induction a as [|x a IH]; intros [|y b]; cbn; auto. Qed.

(* a list that is pointwise c*d (+0) of the differences: mean scales by c, variance by c^2 *)
Lemma scaled_diff c d d' : d <> [] -> Forall2 Qeq d' (map (fun z => c * z + 0) d) ->
  w_mean d' == c * w_mean d /\ w_variance d' == c * c * w_variance d.
Proof.
  intros N H. split.
  - assert (N' : d' <> []).
    { intro C. subst d'. inversion H as [E|]. destruct d; [congruence | discriminate]. }
    rewrite (w_mean_ext d' (map (fun z => c * z + 0) d) N' H). rewrite w_mean_affine by exact N. ring.
  - rewrite (w_variance_ext _ _ H). apply w_variance_affine.
Qed.

Theorem paired_swap x1 x2 mu0 : tout_rel tres_swapped (paired x1 x2 mu0) (paired x2 x1 (- mu0)).
Proof.
  unfold paired. rewrite (Nat.eqb_sym (length x2)).
  destruct (length x1 =? length x2)%nat eqn:E0; cbn [negb]; [|reflexivity].
  apply Nat.eqb_eq in E0. rewrite <- E0. destruct (length x1 <=? 1)%nat eqn:E1; [reflexivity|].
  apply Nat.leb_gt in E1.
  assert (N : vdiff x1 x2 <> []).
  { intro C. apply (f_equal (@length Q)) in C. rewrite vdiff_length_min, <- E0, Nat.min_id in C. cbn in C. lia. }
  destruct (scaled_diff (-1) (vdiff x1 x2) (vdiff x2 x1) N (vdiff_swap x1 x2)) as [M V].
  assert (Hm1 : ~ -1 == 0) by (intro C; discriminate C).
  rewrite (is_zero_scale (-1) _ _ Hm1 V).
  destruct (is_zero (w_variance (vdiff x1 x2))); [reflexivity|].
  cbn [tout_rel]. unfold tres_swapped. cbn [t_n1 t_n2 t_sign t_sq t_dof].
  assert (EL : lenQ x2 = lenQ x1) by (unfold lenQ; now rewrite E0).
  repeat split.
  - rewrite <- Qsign_opp. apply Qsign_ext. rewrite M. ring.
  - rewrite !Qred_correct, M, V, EL. unfold Qdiv. apply Qmult_comp; [ring|]. apply Qinv_comp. ring.
  - rewrite !Qred_correct, EL. reflexivity.
Qed.

Theorem paired_affine a b x1 x2 mu0 : 0 < a ->
  tout_rel tres_same (paired x1 x2 mu0)
                     (paired (map (fun x => a * x + b) x1) (map (fun x => a * x + b) x2) (a * mu0)).
Proof.
  intros Ha. unfold paired. rewrite !map_length.
  destruct (length x1 =? length x2)%nat eqn:E0; cbn [negb]; [|reflexivity].
  apply Nat.eqb_eq in E0. destruct (length x1 <=? 1)%nat eqn:E1; [reflexivity|]. apply Nat.leb_gt in E1.
  assert (N : vdiff x1 x2 <> []).
  { intro C. apply (f_equal (@length Q)) in C. rewrite vdiff_length_min, <- E0, Nat.min_id in C. cbn in C. lia. }
  destruct (scaled_diff a (vdiff x1 x2) _ N (vdiff_affine a b x1 x2)) as [M V].
  assert (Hane : ~ a == 0) by lra.
  assert (Haa : ~ a * a == 0) by (intro C; apply Qmult_integral in C; destruct C; contradiction).
  rewrite (is_zero_scale a _ _ Hane V).
  destruct (is_zero (w_variance (vdiff x1 x2))); [reflexivity|].
  cbn [tout_rel]. unfold tres_same. cbn [t_n1 t_n2 t_sign t_sq t_dof]. rewrite !zlen_map, !lenQ_map.
  set (d := w_mean (vdiff x1 x2) - mu0). repeat split.
  - rewrite <- (Qsign_scale a d Ha). apply Qsign_ext. rewrite M. unfold d. ring.
  - rewrite !Qred_correct, M, V.
    rewrite <- (Qdiv_scale (a * a) (d * d * lenQ x1) (w_variance (vdiff x1 x2)) Haa).
    unfold Qdiv. apply Qmult_comp; [unfold d; ring|]. reflexivity.
Qed.

(* Proofs/TTest.v — t-tests and MeanCI (C04). Self-contained (Welford lemmas included). *)
From MM Require Import Base.Num Model.TTest.
From Coq Require Import Field Lqa Setoid Morphisms.
Local Open Scope Q_scope.

(* ====================================================================== *)
(* tail selection over an abstract CDF                                     *)
(* ====================================================================== *)
Section Tails.
Variable F : Q -> Q.
Hypothesis F_ext : forall a b, a == b -> F a == F b.
Hypothesis F_sym : forall t, F (- t) == 1 - F t.
Hypothesis F_range : forall t, 0 <= F t <= 1.

(* swapping the samples negates T: the one-sided p-values are exchanged, the two-sided one is unchanged *)
Theorem ttail_swap t :
  ttail F (-1) (- t) == ttail F 1 t /\ ttail F 1 (- t) == ttail F (-1) t /\ ttail F 0 (- t) == ttail F 0 t.
Proof.
  cbn [ttail]. repeat split.
  - apply F_sym.
  - rewrite F_sym. ring.
  - rewrite (F_ext (Qabs (- t)) (Qabs t)) by apply Qabs_opp. reflexivity.
Qed.

Lemma F_zero : F 0 == 1 # 2.
Proof. pose proof (F_sym 0) as H. rewrite (F_ext (- 0) 0) in H by reflexivity. lra. Qed.

(* every p-value is a probability; for the two-sided one F must also be monotone *)
Theorem ttail_range t :
  0 <= ttail F (-1) t <= 1 /\ 0 <= ttail F 1 t <= 1 /\
  ((forall a b, a <= b -> F a <= F b) -> 0 <= ttail F 0 t <= 1).
Proof.
  cbn [ttail]. pose proof (F_range t) as R1. pose proof (F_range (Qabs t)) as R2.
  split; [lra|]. split; [lra|]. intros Hm.
  pose proof (Hm 0 (Qabs t) (Qabs_nonneg t)) as M. pose proof F_zero as Z.
  generalize dependent (F (Qabs t)). generalize dependent (F 0). intros. lra.
Qed.

(* MeanCI: the interval mean -+ t s/sqrt(n) with F(-t) = alpha = (1-c)/2 has probability content c *)
Theorem meanci_content t c : F (- t) == (1 - c) / 2 -> F t - F (- t) == c.
Proof.
  intros H. pose proof (F_sym t) as S. rewrite H in S. rewrite H.
  assert (E : (1 - c) / 2 == (1 - c) * (1 # 2)) by field. rewrite E in *. lra.
Qed.
End Tails.

(* Tarjan.v : functional correctness of the fuelled model of Tarjan's SCC algorithm
   (Model/Scc.v, Sedgewick's single-low-array variant), for every run that returns Some.
     tarjan_components_sound : g_wf g -> tarjan g edges = Some (comps, outs) -> scc_spec g comps
     tarjan_sound            : ... -> scc_spec g comps /\ (edges = true -> scc_edges_spec g comps outs)
   Structure.  A ghost numbering d (d v = tj_index when v was entered) and a ghost list gs of
   the nodes whose connect call is in progress are carried by the invariant [Inv d gs st];
   [Frame] says what a call leaves untouched, [Loop] is the invariant of the successor loop
   (running minimum mn), [PostC] the post-condition of connect on the new stack segment.
   [connect_ok] (induction on the fuel) and [succs_spec] (induction on the successor list)
   preserve them; the two exits of connect are [nonroot_*] and [root_*] (Section AfterLoop).
   Stage 2 layers [Inv2] / [Loop2] / [Frame2] (the out-edge stack, positions by [pos_in]) on top:
   [connect_ok2], [succs_spec2].  Section Final turns the final invariant into the specification. *)
From Coq Require Import List NArith ZArith FMapPositive Lia Bool Permutation.
From MM Require Import Base.GCGraph Base.GCReach Model.Graph Model.Scc Spec.Scc.
Import ListNotations.
Local Open Scope N_scope.

(* ------------------------------------------------------------------ lists *)
Lemma nodup_app_iff : forall (A : Type) (l1 l2 : list A),
  NoDup (l1 ++ l2) <-> NoDup l1 /\ NoDup l2 /\ (forall x, In x l1 -> ~ In x l2).
Proof.
  intros A l1 l2. induction l1 as [|a l1 IH]; simpl.
  - split.
    + intros H. split. constructor. split. exact H. intros x [].
    + intros (_ & H & _). exact H.
  - rewrite !NoDup_cons_iff, IH, in_app_iff. split.
    + intros [Hna [Hl [Hl' Hd]]]. split. split. tauto. exact Hl. split. exact Hl'.
      intros x [Hx|Hx]. subst x. tauto. apply Hd. exact Hx.
    + intros [[Hna Hl] [Hl' Hd]]. split.
      * intros [H|H]. tauto. apply (Hd a). left. reflexivity. exact H.
      * split. exact Hl. split. exact Hl'. intros x Hx. apply Hd. right. exact Hx.
Qed.

Lemma nodup_nodes_upto : forall n, NoDup (nodes_upto n).
Proof.
  intros n. unfold nodes_upto. generalize (seq_NoDup (N.to_nat n) 0). generalize (seq 0 (N.to_nat n)).
  intros l H. induction H as [|a l Hna Hl IH]; simpl. constructor.
  constructor; [| exact IH]. rewrite in_map_iff. intros [b [E Hb]].
  apply Nat2N.inj in E. subst b. exact (Hna Hb).
Qed.

Lemma perm_concat_rev : forall (A : Type) (l : list (list A)),
  Permutation (concat (rev l)) (concat l).
Proof.
  intros A l. induction l as [|a l IH]; simpl. constructor.
  rewrite concat_app. simpl. rewrite app_nil_r.
  apply Permutation_trans with (a ++ concat (rev l)). apply Permutation_app_comm.
  apply Permutation_app_head. exact IH.
Qed.

Lemma in_nth_lt' : forall (A : Type) (ll : list (list A)) (k : nat) (x : A),
  In x (nth k ll []) -> (k < length ll)%nat.
Proof.
  intros A ll k x H. destruct (Nat.lt_ge_cases k (length ll)) as [L|L]. exact L.
  rewrite nth_overflow in H by exact L. destruct H.
Qed.

Lemma g_out_lt : forall g u v, In v (g_out g u) -> u < g_n g.
Proof.
  intros g u v H. unfold g_out in H. apply in_nth_lt' in H. unfold g_n. lia.
Qed.

(* ------------------------------------------------------------------ tries *)
Lemma find_add_eq : forall (A : Type) (m : PositiveMap.t A) u x,
  PositiveMap.find (N.succ_pos u) (PositiveMap.add (N.succ_pos u) x m) = Some x.
Proof. intros. apply PositiveMap.gss. Qed.

Lemma find_add_neq : forall (A : Type) (m : PositiveMap.t A) u v x, v <> u ->
  PositiveMap.find (N.succ_pos v) (PositiveMap.add (N.succ_pos u) x m) = PositiveMap.find (N.succ_pos v) m.
Proof.
  intros A m u v x H. apply PositiveMap.gso. intros E. apply H. apply succ_pos_inj. exact E.
Qed.

(* ------------------------------------------------------------------ the pieces of the model *)
Lemma mark_done_cons : forall cid a t low comp,
  tj_mark_done cid (a :: t) low comp =
  tj_mark_done cid t (PositiveMap.add (N.succ_pos a) LDone low) (PositiveMap.add (N.succ_pos a) cid comp).
Proof. reflexivity. Qed.

Lemma mark_done_notin : forall cid members low comp v, ~ In v members ->
  PositiveMap.find (N.succ_pos v) (fst (tj_mark_done cid members low comp)) = PositiveMap.find (N.succ_pos v) low /\
  PositiveMap.find (N.succ_pos v) (snd (tj_mark_done cid members low comp)) = PositiveMap.find (N.succ_pos v) comp.
Proof.
  intros cid members. induction members as [|a t IH]; intros low comp v Hn.
  - split; reflexivity.
  - rewrite mark_done_cons.
    assert (Hne : v <> a). { intros E. apply Hn. left. symmetry. exact E. }
    assert (Hnt : ~ In v t). { intros H. apply Hn. right. exact H. }
    destruct (IH (PositiveMap.add (N.succ_pos a) LDone low) (PositiveMap.add (N.succ_pos a) cid comp) v Hnt) as [E1 E2].
    rewrite E1, E2. split; apply find_add_neq; exact Hne.
Qed.

Lemma mark_done_in : forall cid members low comp v, In v members ->
  PositiveMap.find (N.succ_pos v) (fst (tj_mark_done cid members low comp)) = Some LDone /\
  PositiveMap.find (N.succ_pos v) (snd (tj_mark_done cid members low comp)) = Some cid.
Proof.
  intros cid members. induction members as [|a t IH]; intros low comp v Hin.
  - destruct Hin.
  - rewrite mark_done_cons. destruct (in_dec N.eq_dec v t) as [Ht|Ht].
    + apply IH. exact Ht.
    + destruct (mark_done_notin cid t (PositiveMap.add (N.succ_pos a) LDone low)
                  (PositiveMap.add (N.succ_pos a) cid comp) v Ht) as [E1 E2].
      rewrite E1, E2. destruct Hin as [E|Hin].
      * subst a. split; apply find_add_eq.
      * contradiction.
Qed.

Lemma tj_pop_app : forall nid A B acc, ~ In nid A ->
  tj_pop nid (A ++ nid :: B) acc = (nid :: rev A ++ acc, B).
Proof.
  intros nid A. induction A as [|a A IH]; intros B acc Hn; simpl.
  - rewrite N.eqb_refl. reflexivity.
  - destruct (N.eqb_spec a nid) as [E|E].
    + exfalso. apply Hn. left. exact E.
    + rewrite IH.
      * rewrite <- app_assoc. reflexivity.
      * intros H. apply Hn. right. exact H.
Qed.

Definition tj_enter (st : tj) (nid : N) : tj :=
  mk_tj (PositiveMap.add (N.succ_pos nid) (LIdx (tj_index st)) (tj_low st))
        (nid :: tj_stack st) (tj_slen st + 1) (tj_index st + 1)
        (tj_out st) (tj_comps st) (tj_ncomps st) (tj_comp st) (tj_outs st).

Definition tj_root (edges : bool) (stackPos nid : N) (st1 : tj) : option tj :=
  let cid := tj_ncomps st1 in
  let '(members, rest) := tj_pop nid (tj_stack st1) [] in
  let '(low', comp') := tj_mark_done cid members (tj_low st1) (tj_comp st1) in
  let '(ocs, outrest) := if edges then tj_popout stackPos (tj_out st1) [] else ([], tj_out st1) in
  Some (mk_tj low' rest stackPos (tj_index st1) outrest
              (members :: tj_comps st1) (cid + 1) comp'
              (dedup_adj (isort (rev_append ocs [])) :: tj_outs st1)).

Lemma tj_connect_S : forall out edges f nid st,
  tj_connect out edges (S f) nid st =
  match tj_succs (tj_connect out edges f) edges (tj_slen st) (out nid) (tj_enter st nid) (tj_index st) with
  | None => None
  | Some (st1, mn) =>
      if mn <? tj_index st then Some (tj_setlow st1 nid (LIdx mn))
      else tj_root edges (tj_slen st) nid st1
  end.
Proof. reflexivity. Qed.

Definition tj_note (edges : bool) (stackPos oid : N) (st1 : tj) : tj :=
  match tj_lowof st1 oid with
  | Some LDone =>
      if edges then
        mk_tj (tj_low st1) (tj_stack st1) (tj_slen st1) (tj_index st1)
              ((tj_compof st1 oid, stackPos) :: tj_out st1)
              (tj_comps st1) (tj_ncomps st1) (tj_comp st1) (tj_outs st1)
      else st1
  | _ => st1
  end.

Definition tj_mn (st1 : tj) (oid mn : N) : N :=
  match tj_lowof st1 oid with Some (LIdx k) => if k <? mn then k else mn | _ => mn end.

Lemma tj_succs_cons : forall rec edges sp oid t st mn,
  tj_succs rec edges sp (oid :: t) st mn =
  match (match tj_lowof st oid with None => rec oid st | Some _ => Some st end) with
  | None => None
  | Some st1 => tj_succs rec edges sp t (tj_note edges sp oid st1) (tj_mn st1 oid mn)
  end.
Proof. reflexivity. Qed.

Lemma lowof_enter_same : forall st nid, tj_lowof (tj_enter st nid) nid = Some (LIdx (tj_index st)).
Proof. intros. unfold tj_lowof, tj_enter. simpl. apply find_add_eq. Qed.

Lemma lowof_enter_other : forall st nid v, v <> nid -> tj_lowof (tj_enter st nid) v = tj_lowof st v.
Proof. intros st nid v H. unfold tj_lowof, tj_enter. simpl. apply find_add_neq. exact H. Qed.

Lemma lowof_setlow_same : forall st nid x, tj_lowof (tj_setlow st nid x) nid = Some x.
Proof. intros. unfold tj_lowof, tj_setlow. simpl. apply find_add_eq. Qed.

Lemma lowof_setlow_other : forall st nid x v, v <> nid -> tj_lowof (tj_setlow st nid x) v = tj_lowof st v.
Proof. intros st nid x v H. unfold tj_lowof, tj_setlow. simpl. apply find_add_neq. exact H. Qed.

(* two states that differ only in the out-edge stack and the Out lists *)
Definition core_eq (a b : tj) : Prop :=
  tj_low a = tj_low b /\ tj_stack a = tj_stack b /\ tj_slen a = tj_slen b /\ tj_index a = tj_index b /\
  tj_comps a = tj_comps b /\ tj_ncomps a = tj_ncomps b /\ tj_comp a = tj_comp b.

Lemma core_eq_note : forall edges sp oid st, core_eq st (tj_note edges sp oid st).
Proof.
  intros edges sp oid st. unfold tj_note, core_eq.
  destruct (tj_lowof st oid) as [[k|]|]; try (repeat split; reflexivity).
  destruct edges; repeat split; reflexivity.
Qed.

(* ------------------------------------------------------------------ lists for the out-edge stack *)
Fixpoint pos_in (stack : list N) (v : N) : N :=
  match stack with
  | [] => 0
  | x :: r => if x =? v then N.of_nat (length r) else pos_in r v
  end.

Lemma pos_in_lt : forall l v, In v l -> pos_in l v < N.of_nat (length l).
Proof.
  induction l as [|x r IH]; intros v Hv. destruct Hv.
  cbn [pos_in length]. destruct (N.eqb_spec x v) as [E|E]. lia.
  destruct Hv as [Hv|Hv]. congruence. specialize (IH v Hv). lia.
Qed.

Lemma pos_in_app_r : forall A B v, ~ In v A -> pos_in (A ++ B) v = pos_in B v.
Proof.
  induction A as [|x A IH]; intros B v Hn. reflexivity.
  cbn [app pos_in]. destruct (N.eqb_spec x v) as [E|E].
  - exfalso. apply Hn. left. exact E.
  - apply IH. intros H. apply Hn. right. exact H.
Qed.

Lemma pos_in_app_l : forall A B v, In v A -> N.of_nat (length B) <= pos_in (A ++ B) v.
Proof.
  induction A as [|x A IH]; intros B v Hv. destruct Hv.
  cbn [app pos_in]. destruct (N.eqb_spec x v) as [E|E].
  - rewrite app_length. lia.
  - destruct Hv as [Hv|Hv]. congruence. apply IH. exact Hv.
Qed.

Lemma popout_spec : forall sp new old acc,
  (forall e, In e new -> sp <= snd e) -> (forall e, In e old -> snd e < sp) ->
  tj_popout sp (new ++ old) acc = (rev (map fst new) ++ acc, old).
Proof.
  intros sp new. induction new as [|e r IH]; intros old acc Hn Ho.
  - cbn [app map rev]. destruct old as [|e r]. reflexivity.
    cbn [tj_popout]. assert (H : snd e <? sp = true). { apply N.ltb_lt. apply Ho. left. reflexivity. }
    rewrite H. reflexivity.
  - cbn [app tj_popout]. assert (H : snd e <? sp = false). { apply N.ltb_ge. apply Hn. left. reflexivity. }
    rewrite H. rewrite IH.
    + cbn [map rev]. rewrite <- app_assoc. reflexivity.
    + intros e' He'. apply Hn. right. exact He'.
    + exact Ho.
Qed.

Lemma dedup_adj_cons2 : forall x y t,
  dedup_adj (x :: y :: t) = if x =? y then dedup_adj (y :: t) else x :: dedup_adj (y :: t).
Proof. reflexivity. Qed.

Lemma dedup_adj_in : forall l z, In z (dedup_adj l) <-> In z l.
Proof.
  induction l as [|x t IH]; intros z. simpl. tauto.
  destruct t as [|y t]. simpl. tauto.
  rewrite dedup_adj_cons2. destruct (N.eqb_spec x y) as [E|E].
  - subst y. rewrite IH. simpl. tauto.
  - change (In z (x :: dedup_adj (y :: t))) with (x = z \/ In z (dedup_adj (y :: t))).
    rewrite IH. simpl. tauto.
Qed.

Fixpoint ssorted (l : list N) : Prop :=
  match l with
  | [] => True
  | x :: t => (forall y, In y t -> x <= y) /\ ssorted t
  end.

Lemma ins_sorted_in : forall x l z, In z (ins_sorted x l) <-> z = x \/ In z l.
Proof.
  intros x l z. induction l as [|y t IH]; cbn [ins_sorted].
  - simpl. split. intros [H|[]]. auto. intros [H|[]]. auto.
  - destruct (x <=? y).
    + simpl. split. intros [H|H]; auto. intros [H|H]; auto.
    + change (In z (y :: ins_sorted x t)) with (y = z \/ In z (ins_sorted x t)). rewrite IH. simpl. tauto.
Qed.

Lemma ins_sorted_ssorted : forall x l, ssorted l -> ssorted (ins_sorted x l).
Proof.
  intros x l. induction l as [|y t IH]; intros Hs; cbn [ins_sorted].
  - simpl. split. intros y []. exact I.
  - destruct Hs as [Hy Ht]. destruct (N.leb_spec x y) as [L|L].
    + split. intros z [Hz|Hz]. subst z. exact L. specialize (Hy z Hz). lia.
      split. exact Hy. exact Ht.
    + split. intros z Hz. apply ins_sorted_in in Hz. destruct Hz as [Hz|Hz]. subst z. lia. apply Hy. exact Hz.
      apply IH. exact Ht.
Qed.

Lemma isort_in : forall l z, In z (isort l) <-> In z l.
Proof.
  induction l as [|x t IH]; intros z. simpl. tauto.
  change (isort (x :: t)) with (ins_sorted x (isort t)). rewrite ins_sorted_in, IH. simpl.
  split; intros [H|H]; auto.
Qed.

Lemma isort_ssorted : forall l, ssorted (isort l).
Proof.
  induction l as [|x t IH]. exact I.
  change (isort (x :: t)) with (ins_sorted x (isort t)). apply ins_sorted_ssorted. exact IH.
Qed.

Lemma dedup_adj_nodup : forall l, ssorted l -> NoDup (dedup_adj l).
Proof.
  induction l as [|x t IH]; intros Hs. constructor.
  destruct t as [|y t]. simpl. constructor. intros []. constructor.
  rewrite dedup_adj_cons2. destruct Hs as [Hx Ht]. destruct (N.eqb_spec x y) as [E|E].
  - apply IH. exact Ht.
  - constructor. 2: apply IH; exact Ht.
    rewrite dedup_adj_in. intros [H|H]. congruence.
    destruct Ht as [Hy _]. specialize (Hy x H). specialize (Hx y (or_introl eq_refl)). lia.
Qed.

Lemma dedup_isort_spec : forall l, NoDup (dedup_adj (isort l)) /\ forall z, In z (dedup_adj (isort l)) <-> In z l.
Proof.
  intros l. split. apply dedup_adj_nodup. apply isort_ssorted.
  intros z. rewrite dedup_adj_in. apply isort_in.
Qed.

Lemma Forall2_impl_in : forall (A B : Type) (R R' : A -> B -> Prop) l l',
  (forall a b, In a l -> R a b -> R' a b) -> Forall2 R l l' -> Forall2 R' l l'.
Proof.
  intros A B R R' l l' H HF. induction HF as [|a b l l' Hab HF IH]. constructor.
  constructor. apply H. left. reflexivity. exact Hab.
  apply IH. intros a' b' Ha'. apply H. right. exact Ha'.
Qed.

Lemma Forall2_len : forall (A B : Type) (R : A -> B -> Prop) l l', Forall2 R l l' -> length l = length l'.
Proof. intros A B R l l' H. induction H; simpl; congruence. Qed.

Lemma Forall2_rev' : forall (A B : Type) (R : A -> B -> Prop) l l', Forall2 R l l' -> Forall2 R (rev l) (rev l').
Proof.
  intros A B R l l' H. induction H as [|a b l l' Hab HF IH]. constructor.
  simpl. apply Forall2_app. exact IH. constructor. exact Hab. constructor.
Qed.

Lemma Forall2_nth' : forall (A B : Type) (R : A -> B -> Prop) l l' da db, Forall2 R l l' ->
  forall c, (c < length l)%nat -> R (nth c l da) (nth c l' db).
Proof.
  intros A B R l l' da db H. induction H as [|a b l l' Hab HF IH]; intros c Hc; simpl in Hc. lia.
  destruct c as [|c]; simpl. exact Hab. apply IH. lia.
Qed.

(* ------------------------------------------------------------------ the invariant *)
Section TJ.
Variable out : N -> list N.
Variable n : N.
Hypothesis Hwf : out_wf out n.
Variable edges : bool.

Record Inv (d : N -> N) (gs : list N) (st : tj) : Prop := mkInv {
  I_nd : NoDup (tj_stack st);
  I_stk : forall v, In v (tj_stack st) <-> exists k, tj_lowof st v = Some (LIdx k);
  I_done : forall v, In v (concat (tj_comps st)) <-> tj_lowof st v = Some LDone;
  I_ndc : NoDup (concat (tj_comps st));
  I_lt : forall v, tj_lowof st v <> None -> v < n;
  I_slen : tj_slen st = N.of_nat (length (tj_stack st));
  I_ncomps : tj_ncomps st = N.of_nat (length (tj_comps st));
  I_idx : forall v, In v (tj_stack st) -> d v < tj_index st;
  I_gs : forall g, In g gs -> In g (tj_stack st);
  I_low : forall v k, tj_lowof st v = Some (LIdx k) ->
      exists w, In w (tj_stack st) /\ k = d w /\ path out v w;
  I_glow : forall g, In g gs -> tj_lowof st g = Some (LIdx (d g));
  I_greach : forall g v, In g gs -> In v (tj_stack st) -> d g <= d v -> path out g v;
  I_black : forall v k, tj_lowof st v = Some (LIdx k) -> ~ In v gs ->
      k < d v /\ forall y, In y (out v) -> tj_lowof st y <> None /\ (In y (tj_stack st) -> k <= d y);
  I_comp : forall l1 m l2, tj_comps st = l1 ++ m :: l2 -> forall v, In v m ->
      tj_compof st v = N.of_nat (length l2);
  I_dsucc : forall v y, tj_lowof st v = Some LDone -> In y (out v) ->
      tj_lowof st y = Some LDone /\ tj_compof st y <= tj_compof st v;
  I_scc : forall m, In m (tj_comps st) -> m <> [] /\ forall u v, In u m -> In v m -> path out u v
}.

Record Frame (d : N -> N) (st : tj) (d' : N -> N) (st' : tj) : Prop := mkFrame {
  F_stk : exists S', tj_stack st' = S' ++ tj_stack st /\ forall v, In v S' -> tj_index st <= d' v;
  F_idx : tj_index st <= tj_index st';
  F_old : forall v, In v (tj_stack st) -> d' v = d v /\ tj_lowof st' v = tj_lowof st v;
  F_done : forall v, tj_lowof st v = Some LDone ->
      tj_lowof st' v = Some LDone /\ tj_compof st' v = tj_compof st v;
  F_vis : forall v, tj_lowof st v <> None -> tj_lowof st' v <> None
}.

Lemma Inv_core : forall d gs a b, core_eq a b -> Inv d gs a -> Inv d gs b.
Proof.
  intros d gs a b H HI. destruct a, b. unfold core_eq in H. simpl in H.
  destruct H as (E1 & E2 & E3 & E4 & E5 & E6 & E7). subst.
  destruct HI. constructor; assumption.
Qed.

Lemma Frame_core : forall d st d' a b, core_eq a b -> Frame d st d' a -> Frame d st d' b.
Proof.
  intros d st d' a b H HF. destruct a, b. unfold core_eq in H. simpl in H.
  destruct H as (E1 & E2 & E3 & E4 & E5 & E6 & E7). subst.
  destruct HF. constructor; assumption.
Qed.

Lemma Frame_refl : forall d st, Frame d st d st.
Proof.
  intros d st. constructor.
  - exists []. split. reflexivity. intros v [].
  - lia.
  - intros v _. split; reflexivity.
  - intros v H. split. exact H. reflexivity.
  - intros v H. exact H.
Qed.

Lemma Frame_trans : forall d st d1 st1 d2 st2,
  Frame d st d1 st1 -> Frame d1 st1 d2 st2 -> Frame d st d2 st2.
Proof.
  intros d st d1 st1 d2 st2 H1 H2.
  destruct (F_stk _ _ _ _ H1) as [S1 [E1 HS1]]. destruct (F_stk _ _ _ _ H2) as [S2 [E2 HS2]].
  pose proof (F_idx _ _ _ _ H1) as Hi1. pose proof (F_idx _ _ _ _ H2) as Hi2.
  constructor.
  - exists (S2 ++ S1). split. rewrite E2, E1, app_assoc. reflexivity.
    intros v Hv. apply in_app_or in Hv. destruct Hv as [Hv|Hv].
    + specialize (HS2 v Hv). lia.
    + destruct (F_old _ _ _ _ H2 v) as [E _]. rewrite E1. apply in_or_app. left. exact Hv.
      rewrite E. apply HS1. exact Hv.
  - lia.
  - intros v Hv. assert (Hv1 : In v (tj_stack st1)). { rewrite E1. apply in_or_app. right. exact Hv. }
    destruct (F_old _ _ _ _ H1 v Hv) as [A1 B1]. destruct (F_old _ _ _ _ H2 v Hv1) as [A2 B2].
    split; congruence.
  - intros v Hv. destruct (F_done _ _ _ _ H1 v Hv) as [A1 B1]. destruct (F_done _ _ _ _ H2 v A1) as [A2 B2].
    split. exact A2. congruence.
  - intros v Hv. apply (F_vis _ _ _ _ H2). apply (F_vis _ _ _ _ H1). exact Hv.
Qed.

Lemma Inv_low_le : forall d gs st v k, Inv d gs st -> tj_lowof st v = Some (LIdx k) -> k <= d v.
Proof.
  intros d gs st v k HI Hk. destruct (in_dec N.eq_dec v gs) as [Hg|Hg].
  - rewrite (I_glow _ _ _ HI v Hg) in Hk. injection Hk as <-. lia.
  - destruct (I_black _ _ _ HI v k Hk Hg). lia.
Qed.

Lemma Inv_nogray_empty : forall d st, Inv d [] st -> tj_stack st = [].
Proof.
  intros d st HI.
  assert (H : forall m v, In v (tj_stack st) -> (N.to_nat (d v) < m)%nat -> False).
  { induction m; intros v Hv Hm. lia.
    apply (I_stk _ _ _ HI) in Hv. destruct Hv as [k Hk].
    destruct (I_black _ _ _ HI v k Hk) as [Hlt _]. intros [].
    destruct (I_low _ _ _ HI v k Hk) as [w [Hw [E _]]]. apply (IHm w Hw). lia. }
  destruct (tj_stack st) as [|v r]. reflexivity.
  exfalso. apply (H (S (N.to_nat (d v))) v). left. reflexivity. lia.
Qed.

Lemma Inv_compof_lt : forall d gs st v, Inv d gs st -> tj_lowof st v = Some LDone ->
  tj_compof st v < tj_ncomps st.
Proof.
  intros d gs st v HI Hv. apply (I_done _ _ _ HI) in Hv. apply in_concat in Hv.
  destruct Hv as [m [Hm Hv]]. apply in_split in Hm. destruct Hm as [l1 [l2 E]].
  rewrite (I_comp _ _ _ HI l1 m l2 E v Hv), (I_ncomps _ _ _ HI), E, app_length. simpl. lia.
Qed.

(* ---- projections of the state transformers ---- *)
Lemma stack_enter : forall st nid, tj_stack (tj_enter st nid) = nid :: tj_stack st. Proof. reflexivity. Qed.
Lemma comps_enter : forall st nid, tj_comps (tj_enter st nid) = tj_comps st. Proof. reflexivity. Qed.
Lemma slen_enter : forall st nid, tj_slen (tj_enter st nid) = tj_slen st + 1. Proof. reflexivity. Qed.
Lemma ncomps_enter : forall st nid, tj_ncomps (tj_enter st nid) = tj_ncomps st. Proof. reflexivity. Qed.
Lemma index_enter : forall st nid, tj_index (tj_enter st nid) = tj_index st + 1. Proof. reflexivity. Qed.
Lemma compof_enter : forall st nid v, tj_compof (tj_enter st nid) v = tj_compof st v. Proof. reflexivity. Qed.
Lemma stack_setlow : forall st nid x, tj_stack (tj_setlow st nid x) = tj_stack st. Proof. reflexivity. Qed.
Lemma comps_setlow : forall st nid x, tj_comps (tj_setlow st nid x) = tj_comps st. Proof. reflexivity. Qed.
Lemma slen_setlow : forall st nid x, tj_slen (tj_setlow st nid x) = tj_slen st. Proof. reflexivity. Qed.
Lemma ncomps_setlow : forall st nid x, tj_ncomps (tj_setlow st nid x) = tj_ncomps st. Proof. reflexivity. Qed.
Lemma index_setlow : forall st nid x, tj_index (tj_setlow st nid x) = tj_index st. Proof. reflexivity. Qed.
Lemma compof_setlow : forall st nid x v, tj_compof (tj_setlow st nid x) v = tj_compof st v. Proof. reflexivity. Qed.
Hint Rewrite stack_enter comps_enter slen_enter ncomps_enter index_enter compof_enter
  stack_setlow comps_setlow slen_setlow ncomps_setlow index_setlow compof_setlow : tjs.

Record Loop (d : N -> N) (gs : list N) (nid : N) (st : tj) (mn : N) (pre : list N) : Prop := mkLoop {
  L_reach : forall g, In g gs -> path out g nid;
  L_gs : forall g, In g gs -> d g < d nid;
  L_pre : forall y, In y pre -> tj_lowof st y <> None /\ (In y (tj_stack st) -> mn <= d y);
  L_mn : mn <= d nid /\ exists w, In w (tj_stack st) /\ mn = d w /\ path out nid w;
  L_above : forall v k, In v (tj_stack st) -> d nid < d v -> tj_lowof st v = Some (LIdx k) -> mn <= k
}.

Definition PostC (st : tj) (oid : N) (st1 : tj) : Prop :=
  tj_lowof st1 oid <> None /\
  forall v k, In v (tj_stack st1) -> ~ In v (tj_stack st) -> tj_lowof st1 v = Some (LIdx k) ->
     exists kc, tj_lowof st1 oid = Some (LIdx kc) /\ kc <= k.

Definition connect_spec (rec : N -> tj -> option tj) : Prop :=
  forall d gs st nid st', Inv d gs st -> tj_lowof st nid = None -> nid < n ->
    (forall g, In g gs -> path out g nid) ->
    rec nid st = Some st' ->
    exists d', Inv d' gs st' /\ Frame d st d' st' /\ PostC st nid st'.

(* ---- stage 2: the out-edge stack ---- *)
Lemma out_enter : forall st nid, tj_out (tj_enter st nid) = tj_out st. Proof. reflexivity. Qed.
Lemma outs_enter : forall st nid, tj_outs (tj_enter st nid) = tj_outs st. Proof. reflexivity. Qed.
Lemma out_setlow : forall st nid x, tj_out (tj_setlow st nid x) = tj_out st. Proof. reflexivity. Qed.
Lemma outs_setlow : forall st nid x, tj_outs (tj_setlow st nid x) = tj_outs st. Proof. reflexivity. Qed.
Hint Rewrite out_enter outs_enter out_setlow outs_setlow : tjs.

Definition out_rel (st : tj) (m o : list N) : Prop :=
  NoDup o /\ forall c, In c o <-> exists u y, In u m /\ In y (out u) /\ ~ In y m /\ tj_compof st y = c.

Record Inv2 (gs : list N) (st : tj) : Prop := mkInv2 {
  O_sound : forall c p, In (c, p) (tj_out st) ->
      exists v y, In v (tj_stack st) /\ pos_in (tj_stack st) v = p /\
        In y (out v) /\ tj_lowof st y = Some LDone /\ tj_compof st y = c;
  O_black : forall v y, In v (tj_stack st) -> ~ In v gs -> In y (out v) -> tj_lowof st y = Some LDone ->
      In (tj_compof st y, pos_in (tj_stack st) v) (tj_out st);
  O_outs : Forall2 (out_rel st) (tj_comps st) (tj_outs st)
}.

Definition Frame2 (b : N) (st st' : tj) : Prop :=
  exists new, tj_out st' = new ++ tj_out st /\ forall e, In e new -> b <= snd e.

Record Loop2 (sp nid : N) (st : tj) (pre : list N) : Prop := mkLoop2 {
  L2_nid : In nid (tj_stack st);
  L2_pos : pos_in (tj_stack st) nid = sp;
  L2_pre : forall y, In y pre -> tj_lowof st y = Some LDone -> In (tj_compof st y, sp) (tj_out st)
}.

Lemma Frame2_refl : forall b st, Frame2 b st st.
Proof. intros b st. exists []. split. reflexivity. intros e []. Qed.

Lemma Frame2_trans : forall b st st1 st2, Frame2 b st st1 -> Frame2 b st1 st2 -> Frame2 b st st2.
Proof.
  intros b st st1 st2 [n1 [E1 H1]] [n2 [E2 H2]]. exists (n2 ++ n1). split.
  rewrite E2, E1, app_assoc. reflexivity.
  intros e He. apply in_app_or in He. destruct He; auto.
Qed.

Lemma Frame2_weaken : forall b b' st st', b' <= b -> Frame2 b st st' -> Frame2 b' st st'.
Proof.
  intros b b' st st' Hb [n1 [E1 H1]]. exists n1. split. exact E1. intros e He. specialize (H1 e He). lia.
Qed.

Definition connect_spec2 (rec : N -> tj -> option tj) : Prop :=
  forall d gs st nid st', Inv d gs st -> Inv2 gs st -> tj_lowof st nid = None -> nid < n ->
    (forall g, In g gs -> path out g nid) ->
    rec nid st = Some st' ->
    exists d', Inv d' gs st' /\ Frame d st d' st' /\ PostC st nid st' /\
               Inv2 gs st' /\ Frame2 (tj_slen st) st st'.

Lemma Loop_core : forall d gs nid a b mn pre, core_eq a b -> Loop d gs nid a mn pre -> Loop d gs nid b mn pre.
Proof.
  intros d gs nid a b mn pre H HL. destruct a, b. unfold core_eq in H. simpl in H.
  destruct H as (E1 & E2 & E3 & E4 & E5 & E6 & E7). subst.
  destruct HL. constructor; assumption.
Qed.

Definition d_enter (d : N -> N) (st : tj) (nid : N) : N -> N :=
  fun v => if v =? nid then tj_index st else d v.

Section Enter.
Variables (d : N -> N) (gs : list N) (st : tj) (nid : N).
Hypothesis HI : Inv d gs st.
Hypothesis Hnone : tj_lowof st nid = None.
Hypothesis Hn : nid < n.
Hypothesis Hreach : forall g, In g gs -> path out g nid.

Let d' := d_enter d st nid.
Let st' := tj_enter st nid.

Lemma enter_nin : ~ In nid (tj_stack st).
Proof. intros H. apply (I_stk _ _ _ HI) in H. destruct H as [k Hk]. congruence. Qed.

Lemma enter_d_other : forall v, v <> nid -> d' v = d v.
Proof. intros v H. unfold d', d_enter. destruct (N.eqb_spec v nid); congruence. Qed.

Lemma enter_d_same : d' nid = tj_index st.
Proof. unfold d', d_enter. rewrite N.eqb_refl. reflexivity. Qed.

Lemma enter_d_stk : forall v, In v (tj_stack st) -> d' v = d v /\ v <> nid.
Proof.
  intros v Hv. assert (v <> nid). { intros E. subst v. exact (enter_nin Hv). }
  split. apply enter_d_other; assumption. assumption.
Qed.

Lemma enter_Inv : Inv d' (nid :: gs) st'.
Proof.
  pose proof enter_nin as Hnin. pose proof enter_d_same as Hdn.
  constructor; unfold st'; autorewrite with tjs.
  - constructor. exact Hnin. exact (I_nd _ _ _ HI).
  - intros v. destruct (N.eq_dec v nid) as [E|E].
    + subst v. rewrite lowof_enter_same. split. eauto. intros _. left. reflexivity.
    + rewrite lowof_enter_other by exact E. rewrite <- (I_stk _ _ _ HI). simpl. split.
      intros [H|H]; [congruence | exact H]. auto.
  - intros v. rewrite (I_done _ _ _ HI). destruct (N.eq_dec v nid) as [E|E].
    + subst v. rewrite lowof_enter_same, Hnone. split; discriminate.
    + rewrite lowof_enter_other by exact E. reflexivity.
  - exact (I_ndc _ _ _ HI).
  - intros v. destruct (N.eq_dec v nid) as [E|E].
    + subst v. intros _. exact Hn.
    + rewrite lowof_enter_other by exact E. apply (I_lt _ _ _ HI).
  - rewrite (I_slen _ _ _ HI). simpl length. lia.
  - exact (I_ncomps _ _ _ HI).
  - intros v [E|Hv].
    + subst v. rewrite Hdn. lia.
    + destruct (enter_d_stk v Hv) as [E _]. rewrite E. pose proof (I_idx _ _ _ HI v Hv). lia.
  - intros g [E|Hg]. left. exact E. right. apply (I_gs _ _ _ HI). exact Hg.
  - intros v k. destruct (N.eq_dec v nid) as [E|E].
    + subst v. rewrite lowof_enter_same. intros H. injection H as <-.
      exists nid. split. left. reflexivity. split. symmetry. exact Hdn. constructor.
    + rewrite lowof_enter_other by exact E. intros H.
      destruct (I_low _ _ _ HI v k H) as [w [Hw [Ek Hp]]]. exists w. split. right. exact Hw.
      split. destruct (enter_d_stk w Hw) as [E' _]. congruence. exact Hp.
  - intros g [E|Hg].
    + subst g. rewrite lowof_enter_same, Hdn. reflexivity.
    + destruct (enter_d_stk g (I_gs _ _ _ HI g Hg)) as [E Hne].
      rewrite lowof_enter_other by exact Hne. rewrite E. apply (I_glow _ _ _ HI). exact Hg.
  - intros g v [E|Hg] [E'|Hv] Hle.
    + subst. constructor.
    + subst g. destruct (enter_d_stk v Hv) as [E _]. pose proof (I_idx _ _ _ HI v Hv). lia.
    + subst v. apply Hreach. exact Hg.
    + destruct (enter_d_stk g (I_gs _ _ _ HI g Hg)) as [E1 _]. destruct (enter_d_stk v Hv) as [E2 _].
      apply (I_greach _ _ _ HI); auto. lia.
  - intros v k Hk Hng.
    assert (Hne : v <> nid). { intros E. apply Hng. left. symmetry. exact E. }
    assert (Hng' : ~ In v gs). { intros H. apply Hng. right. exact H. }
    rewrite lowof_enter_other in Hk by exact Hne.
    destruct (I_black _ _ _ HI v k Hk Hng') as [Hlt Hs].
    rewrite (enter_d_other v Hne). split. exact Hlt.
    intros y Hy. destruct (Hs y Hy) as [Hvis Hstk].
    assert (Hyne : y <> nid). { intros E. subst y. congruence. }
    rewrite lowof_enter_other by exact Hyne. split. exact Hvis.
    intros [E|Hin]. congruence. rewrite (enter_d_other y Hyne). apply Hstk. exact Hin.
  - intros l1 m l2 E v Hv. apply (I_comp _ _ _ HI l1 m l2 E v Hv).
  - intros v y Hv Hy.
    assert (Hne : v <> nid). { intros E. subst v. rewrite lowof_enter_same in Hv. discriminate. }
    rewrite lowof_enter_other in Hv by exact Hne.
    destruct (I_dsucc _ _ _ HI v y Hv Hy) as [A B]. split; [| exact B].
    rewrite lowof_enter_other. exact A. intros E. subst y. congruence.
  - exact (I_scc _ _ _ HI).
Qed.

Lemma enter_Frame : Frame d st d' st'.
Proof.
  constructor; unfold st'; autorewrite with tjs.
  - exists [nid]. split. reflexivity. intros v [E|[]]. subst v. rewrite enter_d_same. lia.
  - lia.
  - intros v Hv. destruct (enter_d_stk v Hv) as [E Hne]. split. exact E. apply lowof_enter_other. exact Hne.
  - intros v Hv. split; [| reflexivity]. rewrite lowof_enter_other. exact Hv. intros E. subst v. congruence.
  - intros v Hv. rewrite lowof_enter_other. exact Hv. intros E. subst v. congruence.
Qed.

Lemma enter_Loop : Loop d' gs nid st' (tj_index st) [].
Proof.
  constructor; unfold st'; autorewrite with tjs.
  - exact Hreach.
  - intros g Hg. pose proof (I_gs _ _ _ HI g Hg) as Hs. destruct (enter_d_stk g Hs) as [E _].
    rewrite E, enter_d_same. apply (I_idx _ _ _ HI). exact Hs.
  - intros y [].
  - rewrite enter_d_same. split. lia. exists nid. split. left. reflexivity. split. symmetry. apply enter_d_same. constructor.
  - intros v k [E|Hv] Hlt.
    + subst v. lia.
    + destruct (enter_d_stk v Hv) as [E _]. rewrite E, enter_d_same in Hlt.
      pose proof (I_idx _ _ _ HI v Hv). lia.
Qed.

(* stage 2 *)
Hypothesis HI2 : Inv2 gs st.

Lemma enter_Inv2 : Inv2 (nid :: gs) st'.
Proof.
  pose proof enter_nin as Hnin.
  constructor; unfold st'; autorewrite with tjs.
  - intros c p H. destruct (O_sound _ _ HI2 c p H) as [v [y [Hv [Hp [Hy [Hd Hc]]]]]].
    exists v, y. split. right. exact Hv. split.
    { cbn [pos_in]. destruct (N.eqb_spec nid v) as [E|E]. subst v. contradiction. exact Hp. }
    split. exact Hy. split; [| exact Hc].
    rewrite lowof_enter_other. exact Hd. intros E. subst y. congruence.
  - intros v y Hv Hng Hy Hd.
    assert (Hne : nid <> v). { intros E. apply Hng. left. exact E. }
    assert (Hv' : In v (tj_stack st)). { destruct Hv as [E|Hv]. congruence. exact Hv. }
    assert (Hyne : y <> nid). { intros E. subst y. rewrite lowof_enter_same in Hd. discriminate. }
    rewrite lowof_enter_other in Hd by exact Hyne.
    cbn [pos_in]. destruct (N.eqb_spec nid v) as [E|E]. congruence.
    apply (O_black _ _ HI2 v y Hv'). intros Hg. apply Hng. right. exact Hg. exact Hy. exact Hd.
  - exact (O_outs _ _ HI2).
Qed.

Lemma enter_Loop2 : Loop2 (tj_slen st) nid st' [].
Proof.
  constructor; unfold st'; autorewrite with tjs.
  - left. reflexivity.
  - cbn [pos_in]. rewrite N.eqb_refl. symmetry. apply (I_slen _ _ _ HI).
  - intros y [].
Qed.
End Enter.
Section AfterLoop.
Variables (d : N -> N) (gs : list N) (st : tj) (nid : N) (d1 : N -> N) (st1 : tj) (S1 : list N) (mn : N).
Hypothesis HIe : Inv d gs st.
Hypothesis Hnone : tj_lowof st nid = None.
Hypothesis HF : Frame d st d1 st1.
Hypothesis Hstk : tj_stack st1 = S1 ++ nid :: tj_stack st.
Hypothesis HS1 : forall v, In v S1 -> d1 nid < d1 v.
Hypothesis Hdn : d1 nid = tj_index st.
Hypothesis HI1 : Inv d1 (nid :: gs) st1.
Hypothesis HL : Loop d1 gs nid st1 mn (out nid).

Lemma al_nin : ~ In nid (tj_stack st).
Proof. intros H. apply (I_stk _ _ _ HIe) in H. destruct H as [k Hk]. congruence. Qed.

Lemma al_old_lt : forall v, In v (tj_stack st) -> d1 v < d1 nid.
Proof.
  intros v Hv. destruct (F_old _ _ _ _ HF v Hv) as [E _]. rewrite E, Hdn. apply (I_idx _ _ _ HIe). exact Hv.
Qed.

Lemma al_ngs : ~ In nid gs.
Proof. intros H. pose proof (L_gs _ _ _ _ _ _ HL nid H). lia. Qed.

Lemma al_S1_black : forall v, In v S1 -> ~ In v (nid :: gs).
Proof.
  intros v Hv [E|Hg].
  - subst v. pose proof (HS1 nid Hv). lia.
  - pose proof (HS1 v Hv). pose proof (L_gs _ _ _ _ _ _ HL v Hg). lia.
Qed.

Lemma al_nS1 : ~ In nid S1.
Proof. intros H. pose proof (HS1 nid H). lia. Qed.

Lemma al_stack_cases : forall v, In v (tj_stack st1) <-> In v S1 \/ v = nid \/ In v (tj_stack st).
Proof.
  intros v. rewrite Hstk, in_app_iff. simpl. split.
  - intros [H|[H|H]]; auto.
  - intros [H|[H|H]]; auto.
Qed.

Lemma al_nid_stk : In nid (tj_stack st1).
Proof. apply al_stack_cases. auto. Qed.

Lemma al_nid_low : tj_lowof st1 nid = Some (LIdx (d1 nid)).
Proof. apply (I_glow _ _ _ HI1). left. reflexivity. Qed.

(* ---- not a root ---- *)
Lemma setlow_vis : forall x y, tj_lowof st1 y <> None -> tj_lowof (tj_setlow st1 nid x) y <> None.
Proof.
  intros x y H. destruct (N.eq_dec y nid) as [E|E].
  - subst y. rewrite lowof_setlow_same. discriminate.
  - rewrite lowof_setlow_other by exact E. exact H.
Qed.

Lemma nonroot_Inv : mn < d1 nid -> Inv d1 gs (tj_setlow st1 nid (LIdx mn)).
Proof.
  intros Hlt. pose proof al_nid_low as Hnl. pose proof al_ngs as Hngs.
  constructor; autorewrite with tjs.
  - exact (I_nd _ _ _ HI1).
  - intros v. destruct (N.eq_dec v nid) as [E|E].
    + subst v. rewrite lowof_setlow_same. split. eauto. intros _. exact al_nid_stk.
    + rewrite lowof_setlow_other by exact E. apply (I_stk _ _ _ HI1).
  - intros v. rewrite (I_done _ _ _ HI1). destruct (N.eq_dec v nid) as [E|E].
    + subst v. rewrite lowof_setlow_same, Hnl. split; discriminate.
    + rewrite lowof_setlow_other by exact E. reflexivity.
  - exact (I_ndc _ _ _ HI1).
  - intros v Hv. apply (I_lt _ _ _ HI1). destruct (N.eq_dec v nid) as [E|E].
    + subst v. rewrite Hnl. discriminate.
    + rewrite lowof_setlow_other in Hv by exact E. exact Hv.
  - exact (I_slen _ _ _ HI1).
  - exact (I_ncomps _ _ _ HI1).
  - exact (I_idx _ _ _ HI1).
  - intros g Hg. apply (I_gs _ _ _ HI1). right. exact Hg.
  - intros v k. destruct (N.eq_dec v nid) as [E|E].
    + subst v. rewrite lowof_setlow_same. intros H. injection H as <-.
      destruct (L_mn _ _ _ _ _ _ HL) as [_ Hw]. exact Hw.
    + rewrite lowof_setlow_other by exact E. apply (I_low _ _ _ HI1).
  - intros g Hg. rewrite lowof_setlow_other. apply (I_glow _ _ _ HI1). right. exact Hg.
    intros E. subst g. exact (Hngs Hg).
  - intros g v Hg. apply (I_greach _ _ _ HI1). right. exact Hg.
  - intros v k Hk Hng. destruct (N.eq_dec v nid) as [E|E].
    + subst v. rewrite lowof_setlow_same in Hk. injection Hk as <-. split. exact Hlt.
      intros y Hy. destruct (L_pre _ _ _ _ _ _ HL y Hy) as [A B]. split. apply setlow_vis. exact A. exact B.
    + rewrite lowof_setlow_other in Hk by exact E.
      assert (Hng' : ~ In v (nid :: gs)). { intros [H|H]. congruence. exact (Hng H). }
      destruct (I_black _ _ _ HI1 v k Hk Hng') as [A B]. split. exact A.
      intros y Hy. destruct (B y Hy) as [B1 B2]. split. apply setlow_vis. exact B1. exact B2.
  - exact (I_comp _ _ _ HI1).
  - intros v y Hv Hy.
    assert (Hne : v <> nid). { intros E. subst v. rewrite lowof_setlow_same in Hv. discriminate. }
    rewrite lowof_setlow_other in Hv by exact Hne.
    destruct (I_dsucc _ _ _ HI1 v y Hv Hy) as [A B]. split; [| exact B].
    rewrite lowof_setlow_other. exact A. intros E. subst y. congruence.
  - exact (I_scc _ _ _ HI1).
Qed.

Lemma nonroot_Frame : forall x, Frame d st d1 (tj_setlow st1 nid x).
Proof.
  intros x. pose proof al_nin as Hnin. constructor; autorewrite with tjs.
  - exact (F_stk _ _ _ _ HF).
  - exact (F_idx _ _ _ _ HF).
  - intros v Hv. destruct (F_old _ _ _ _ HF v Hv) as [A B]. split. exact A.
    rewrite lowof_setlow_other. exact B. intros E. subst v. exact (Hnin Hv).
  - intros v Hv. destruct (F_done _ _ _ _ HF v Hv) as [A B]. split; [| exact B].
    rewrite lowof_setlow_other. exact A. intros E. subst v. congruence.
  - intros v Hv. apply setlow_vis. apply (F_vis _ _ _ _ HF). exact Hv.
Qed.

Lemma nonroot_PostC : PostC st nid (tj_setlow st1 nid (LIdx mn)).
Proof.
  split. rewrite lowof_setlow_same. discriminate.
  intros v k Hv Hnv Hk. autorewrite with tjs in Hv. exists mn. split. apply lowof_setlow_same.
  apply al_stack_cases in Hv. destruct Hv as [Hv|[Hv|Hv]].
  - assert (Hne : v <> nid). { intros E. subst v. exact (al_nS1 Hv). }
    rewrite lowof_setlow_other in Hk by exact Hne.
    apply (L_above _ _ _ _ _ _ HL v k). apply al_stack_cases. auto. apply HS1. exact Hv. exact Hk.
  - subst v. rewrite lowof_setlow_same in Hk. injection Hk as <-. lia.
  - contradiction.
Qed.

(* ---- a root ---- *)
Hypothesis Hroot : d1 nid <= mn.
Variables (o : list (N * N)) (os : list (list N)).
Let members := nid :: rev S1.
Let md := tj_mark_done (tj_ncomps st1) members (tj_low st1) (tj_comp st1).
Let st' := mk_tj (fst md) (tj_stack st) (tj_slen st) (tj_index st1) o
                 (members :: tj_comps st1) (tj_ncomps st1 + 1) (snd md) os.

Lemma in_members : forall v, In v members <-> v = nid \/ In v S1.
Proof.
  intros v. unfold members. simpl. rewrite <- in_rev. split; intros [H|H]; auto.
Qed.

Lemma members_stk : forall v, In v members -> In v (tj_stack st1) /\ d1 nid <= d1 v.
Proof.
  intros v Hv. apply in_members in Hv. destruct Hv as [E|Hv].
  - subst v. split. exact al_nid_stk. lia.
  - split. apply al_stack_cases. auto. pose proof (HS1 v Hv). lia.
Qed.

Lemma stk_members : forall v, In v (tj_stack st1) -> d1 nid <= d1 v -> In v members.
Proof.
  intros v Hv Hle. apply in_members. apply al_stack_cases in Hv. destruct Hv as [Hv|[Hv|Hv]]; auto.
  pose proof (al_old_lt v Hv). lia.
Qed.

Lemma old_not_member : forall v, In v (tj_stack st) -> ~ In v members.
Proof.
  intros v Hv Hm. destruct (members_stk v Hm) as [_ H]. pose proof (al_old_lt v Hv). lia.
Qed.

Lemma member_not_done : forall v, In v members -> tj_lowof st1 v <> Some LDone /\ tj_lowof st1 v <> None.
Proof.
  intros v Hv. destruct (members_stk v Hv) as [H _]. apply (I_stk _ _ _ HI1) in H.
  destruct H as [k Hk]. rewrite Hk. split; discriminate.
Qed.

Lemma root_reach_from : forall v, In v members -> path out nid v.
Proof.
  intros v Hv. destruct (members_stk v Hv) as [A B].
  apply (I_greach _ _ _ HI1 nid v). left. reflexivity. exact A. exact B.
Qed.

Lemma root_reach_to : forall v, In v members -> path out v nid.
Proof.
  assert (H : forall m v, In v members -> (N.to_nat (d1 v) < m)%nat -> path out v nid).
  { induction m; intros v Hv Hm. lia.
    apply in_members in Hv. destruct Hv as [E|Hv]. subst v. constructor.
    assert (Hstkv : In v (tj_stack st1)). { apply al_stack_cases. auto. }
    pose proof Hstkv as Hk. apply (I_stk _ _ _ HI1) in Hk. destruct Hk as [k Hk].
    destruct (I_black _ _ _ HI1 v k Hk (al_S1_black v Hv)) as [Hlt _].
    destruct (I_low _ _ _ HI1 v k Hk) as [w [Hw [Ek Hp]]].
    pose proof (L_above _ _ _ _ _ _ HL v k Hstkv (HS1 v Hv) Hk) as Hmn.
    apply path_trans with w. exact Hp. apply IHm. apply stk_members. exact Hw. lia. lia. }
  intros v Hv. apply (H (S (N.to_nat (d1 v)))). exact Hv. lia.
Qed.

Lemma root_succ : forall v y, In v members -> In y (out v) ->
  tj_lowof st1 y = Some LDone \/ In y members.
Proof.
  intros v y Hv Hy.
  assert (H : tj_lowof st1 y <> None /\ (In y (tj_stack st1) -> d1 nid <= d1 y)).
  { apply in_members in Hv. destruct Hv as [E|Hv].
    - subst v. destruct (L_pre _ _ _ _ _ _ HL y Hy) as [A B]. split. exact A. intros H. specialize (B H). lia.
    - assert (Hstkv : In v (tj_stack st1)). { apply al_stack_cases. auto. }
      pose proof Hstkv as Hk. apply (I_stk _ _ _ HI1) in Hk. destruct Hk as [k Hk].
      destruct (I_black _ _ _ HI1 v k Hk (al_S1_black v Hv)) as [_ Hs].
      pose proof (L_above _ _ _ _ _ _ HL v k Hstkv (HS1 v Hv) Hk) as Hmn.
      destruct (Hs y Hy) as [A B]. split. exact A. intros H. specialize (B H). lia. }
  destruct H as [A B]. destruct (tj_lowof st1 y) as [[k|]|] eqn:E.
  - right. assert (Hs : In y (tj_stack st1)). { apply (I_stk _ _ _ HI1). eauto. }
    apply stk_members. exact Hs. apply B. exact Hs.
  - left. reflexivity.
  - congruence.
Qed.

Lemma root_low_in : forall v, In v members ->
  tj_lowof st' v = Some LDone /\ tj_compof st' v = tj_ncomps st1.
Proof.
  intros v Hv. unfold st', tj_lowof, tj_compof. cbn [tj_low tj_comp]. unfold md.
  destruct (mark_done_in (tj_ncomps st1) members (tj_low st1) (tj_comp st1) v Hv) as [E1 E2].
  rewrite E1, E2. split; reflexivity.
Qed.

Lemma root_low_out : forall v, ~ In v members ->
  tj_lowof st' v = tj_lowof st1 v /\ tj_compof st' v = tj_compof st1 v.
Proof.
  intros v Hv. unfold st', tj_lowof, tj_compof. cbn [tj_low tj_comp]. unfold md.
  destruct (mark_done_notin (tj_ncomps st1) members (tj_low st1) (tj_comp st1) v Hv) as [E1 E2].
  rewrite E1, E2. split; reflexivity.
Qed.

Lemma root_vis : forall v, tj_lowof st1 v <> None -> tj_lowof st' v <> None.
Proof.
  intros v H. destruct (in_dec N.eq_dec v members) as [Hm|Hm].
  - destruct (root_low_in v Hm) as [E _]. rewrite E. discriminate.
  - destruct (root_low_out v Hm) as [E _]. rewrite E. exact H.
Qed.

Lemma root_stk_iff : forall v, In v (tj_stack st) <-> exists k, tj_lowof st' v = Some (LIdx k).
Proof.
  intros v. split.
  - intros Hv. destruct (root_low_out v (old_not_member v Hv)) as [E _]. rewrite E.
    apply (I_stk _ _ _ HI1). apply al_stack_cases. auto.
  - intros [k Hk]. destruct (in_dec N.eq_dec v members) as [Hm|Hm].
    + destruct (root_low_in v Hm) as [E _]. congruence.
    + destruct (root_low_out v Hm) as [E _]. rewrite E in Hk.
      assert (Hs : In v (tj_stack st1)). { apply (I_stk _ _ _ HI1). eauto. }
      apply al_stack_cases in Hs. destruct Hs as [Hs|[Hs|Hs]].
      * exfalso. apply Hm. apply in_members. auto.
      * exfalso. apply Hm. apply in_members. auto.
      * exact Hs.
Qed.

Lemma root_Inv : Inv d1 gs st'.
Proof.
  constructor; change (tj_stack st') with (tj_stack st);
    change (tj_comps st') with (members :: tj_comps st1);
    change (tj_slen st') with (tj_slen st); change (tj_ncomps st') with (tj_ncomps st1 + 1);
    change (tj_index st') with (tj_index st1).
  - exact (I_nd _ _ _ HIe).
  - exact root_stk_iff.
  - intros v. cbn [concat]. rewrite in_app_iff. destruct (in_dec N.eq_dec v members) as [Hm|Hm].
    + destruct (root_low_in v Hm) as [E _]. rewrite E. tauto.
    + destruct (root_low_out v Hm) as [E _]. rewrite E, <- (I_done _ _ _ HI1). tauto.
  - cbn [concat]. apply nodup_app_iff. split; [| split].
    + unfold members. constructor. rewrite <- in_rev. exact al_nS1.
      apply NoDup_rev. pose proof (I_nd _ _ _ HI1) as H. rewrite Hstk in H.
      apply nodup_app_iff in H. apply H.
    + exact (I_ndc _ _ _ HI1).
    + intros v Hm Hc. apply (I_done _ _ _ HI1) in Hc. destruct (member_not_done v Hm). contradiction.
  - intros v Hv. apply (I_lt _ _ _ HI1). destruct (in_dec N.eq_dec v members) as [Hm|Hm].
    + apply member_not_done. exact Hm.
    + destruct (root_low_out v Hm) as [E _]. rewrite <- E. exact Hv.
  - exact (I_slen _ _ _ HIe).
  - rewrite (I_ncomps _ _ _ HI1). simpl length. lia.
  - intros v Hv. apply (I_idx _ _ _ HI1). apply al_stack_cases. auto.
  - exact (I_gs _ _ _ HIe).
  - intros v k Hk. assert (Hv : In v (tj_stack st)). { apply root_stk_iff. eauto. }
    destruct (root_low_out v (old_not_member v Hv)) as [E _]. rewrite E in Hk.
    destruct (I_low _ _ _ HI1 v k Hk) as [w [Hw [Ek Hp]]].
    pose proof (Inv_low_le _ _ _ _ _ HI1 Hk) as Hle. pose proof (al_old_lt v Hv) as Hlt.
    exists w. split; [| split; assumption].
    apply al_stack_cases in Hw. destruct Hw as [Hw|[Hw|Hw]].
    * pose proof (HS1 w Hw). lia.
    * subst w. lia.
    * exact Hw.
  - intros g Hg. pose proof (I_gs _ _ _ HIe g Hg) as Hs.
    destruct (root_low_out g (old_not_member g Hs)) as [E _]. rewrite E.
    apply (I_glow _ _ _ HI1). right. exact Hg.
  - intros g v Hg Hv. apply (I_greach _ _ _ HI1). right. exact Hg. apply al_stack_cases. auto.
  - intros v k Hk Hng. assert (Hv : In v (tj_stack st)). { apply root_stk_iff. eauto. }
    destruct (root_low_out v (old_not_member v Hv)) as [E _]. rewrite E in Hk.
    assert (Hng' : ~ In v (nid :: gs)).
    { intros [H|H]. subst v. exact (al_nin Hv). exact (Hng H). }
    destruct (I_black _ _ _ HI1 v k Hk Hng') as [A B]. split. exact A.
    intros y Hy. destruct (B y Hy) as [B1 B2]. split. apply root_vis. exact B1.
    intros Hys. apply B2. apply al_stack_cases. auto.
  - intros l1 m l2 E v Hv. destruct l1 as [|x l1]; simpl in E; injection E as E1 E2.
    + subst m l2. destruct (root_low_in v Hv) as [_ Ec]. rewrite Ec. apply (I_ncomps _ _ _ HI1).
    + assert (Hd : tj_lowof st1 v = Some LDone).
      { apply (I_done _ _ _ HI1). apply in_concat. exists m. split; [| exact Hv].
        rewrite E2. apply in_or_app. right. left. reflexivity. }
      assert (Hm : ~ In v members). { intros Hm. destruct (member_not_done v Hm). contradiction. }
      destruct (root_low_out v Hm) as [_ Ec]. rewrite Ec. apply (I_comp _ _ _ HI1 l1 m l2 E2 v Hv).
  - intros v y Hv Hy. destruct (in_dec N.eq_dec v members) as [Hm|Hm].
    + destruct (root_low_in v Hm) as [_ Ecv]. rewrite Ecv.
      destruct (root_succ v y Hm Hy) as [Hd|Hym].
      * assert (Hym : ~ In y members). { intros Hym. destruct (member_not_done y Hym). contradiction. }
        destruct (root_low_out y Hym) as [El Ec]. rewrite El, Ec. split. exact Hd.
        pose proof (Inv_compof_lt _ _ _ _ HI1 Hd). lia.
      * destruct (root_low_in y Hym) as [El Ec]. rewrite El, Ec. split. reflexivity. lia.
    + destruct (root_low_out v Hm) as [Elv Ecv]. rewrite Elv in Hv. rewrite Ecv.
      destruct (I_dsucc _ _ _ HI1 v y Hv Hy) as [A B].
      assert (Hym : ~ In y members). { intros Hym. destruct (member_not_done y Hym). contradiction. }
      destruct (root_low_out y Hym) as [El Ec]. rewrite El, Ec. split; assumption.
  - intros m [E|Hm].
    + subst m. split. unfold members. discriminate.
      intros u v Hu Hv. apply path_trans with nid. apply root_reach_to. exact Hu. apply root_reach_from. exact Hv.
    + apply (I_scc _ _ _ HI1). exact Hm.
Qed.

Lemma root_Frame : Frame d st d1 st'.
Proof.
  constructor; change (tj_stack st') with (tj_stack st); change (tj_index st') with (tj_index st1).
  - exists []. split. reflexivity. intros v [].
  - exact (F_idx _ _ _ _ HF).
  - intros v Hv. destruct (F_old _ _ _ _ HF v Hv) as [A B]. split. exact A.
    destruct (root_low_out v (old_not_member v Hv)) as [E _]. congruence.
  - intros v Hv. destruct (F_done _ _ _ _ HF v Hv) as [A B].
    assert (Hm : ~ In v members). { intros Hm. destruct (member_not_done v Hm). contradiction. }
    destruct (root_low_out v Hm) as [El Ec]. rewrite El, Ec. split; assumption.
  - intros v Hv. apply root_vis. apply (F_vis _ _ _ _ HF). exact Hv.
Qed.

Lemma root_PostC : PostC st nid st'.
Proof.
  split.
  - destruct (root_low_in nid) as [E _]. apply in_members. auto. rewrite E. discriminate.
  - intros v k Hv Hnv. contradiction.
Qed.


(* ---- stage 2 ---- *)
Variable new : list (N * N).
Hypothesis HI2e : Inv2 gs st.
Hypothesis HI2 : Inv2 (nid :: gs) st1.
Hypothesis HL2 : Loop2 (tj_slen st) nid st1 (out nid).
Hypothesis Hout1 : tj_out st1 = new ++ tj_out st.
Hypothesis Hnew : forall e, In e new -> tj_slen st <= snd e.

Lemma nonroot_Inv2 : Inv2 gs (tj_setlow st1 nid (LIdx mn)).
Proof.
  clear Hroot. pose proof al_nid_low as Hnl.
  constructor; autorewrite with tjs.
  - intros c p H. destruct (O_sound _ _ HI2 c p H) as [v [y [Hv [Hp [Hy [Hd Hc]]]]]].
    exists v, y. split. exact Hv. split. exact Hp. split. exact Hy. split; [| exact Hc].
    rewrite lowof_setlow_other. exact Hd. intros E. subst y. congruence.
  - intros v y Hv Hng Hy Hd.
    assert (Hyne : y <> nid). { intros E. subst y. rewrite lowof_setlow_same in Hd. discriminate. }
    rewrite lowof_setlow_other in Hd by exact Hyne.
    destruct (N.eq_dec v nid) as [E|E].
    + subst v. rewrite (L2_pos _ _ _ _ HL2). apply (L2_pre _ _ _ _ HL2 y Hy Hd).
    + apply (O_black _ _ HI2 v y Hv); [| exact Hy | exact Hd].
      intros [H|H]. congruence. exact (Hng H).
  - exact (O_outs _ _ HI2).
Qed.

Lemma nonroot_Frame2 : forall x, Frame2 (tj_slen st) st (tj_setlow st1 nid x).
Proof. intros x. exists new. split. exact Hout1. exact Hnew. Qed.

Hypothesis Ho : o = tj_out st.
Hypothesis Hos : os = dedup_adj (isort (map fst new)) :: tj_outs st1.

Lemma pos_member : forall v, In v members -> tj_slen st <= pos_in (tj_stack st1) v.
Proof.
  intros v Hv. rewrite (I_slen _ _ _ HIe), Hstk.
  change (S1 ++ nid :: tj_stack st) with (S1 ++ [nid] ++ tj_stack st). rewrite app_assoc.
  apply pos_in_app_l. apply in_members in Hv. apply in_or_app. destruct Hv as [E|Hv].
  right. left. symmetry. exact E. left. exact Hv.
Qed.

Lemma pos_old : forall v, In v (tj_stack st) -> pos_in (tj_stack st1) v = pos_in (tj_stack st) v.
Proof.
  intros v Hv. rewrite Hstk.
  change (S1 ++ nid :: tj_stack st) with (S1 ++ [nid] ++ tj_stack st). rewrite app_assoc.
  apply pos_in_app_r. intros H. apply (old_not_member v Hv). apply in_members.
  apply in_app_or in H. destruct H as [H|[H|[]]]; auto.
Qed.

Lemma old_out_lt : forall e, In e (tj_out st) -> snd e < tj_slen st.
Proof.
  intros [c p] H. destruct (O_sound _ _ HI2e c p H) as [v [y [Hv [Hp _]]]]. simpl.
  rewrite (I_slen _ _ _ HIe), <- Hp. apply pos_in_lt. exact Hv.
Qed.

Lemma done1_not_member : forall y, tj_lowof st1 y = Some LDone -> ~ In y members.
Proof. intros y Hd Hm. destruct (member_not_done y Hm). contradiction. Qed.

Lemma root_Inv2 : Inv2 gs st'.
Proof.
  pose proof root_Frame as HF'.
  constructor; change (tj_stack st') with (tj_stack st); change (tj_out st') with o;
    change (tj_comps st') with (members :: tj_comps st1); change (tj_outs st') with os.
  - intros c p H. rewrite Ho in H. destruct (O_sound _ _ HI2e c p H) as [v [y [Hv [Hp [Hy [Hd Hc]]]]]].
    destruct (F_done _ _ _ _ HF' y Hd) as [A B].
    exists v, y. split. exact Hv. split. exact Hp. split. exact Hy. split. exact A. congruence.
  - intros v y Hv Hng Hy Hd.
    pose proof Hv as Hk. apply (I_stk _ _ _ HIe) in Hk. destruct Hk as [k Hk].
    destruct (I_black _ _ _ HIe v k Hk Hng) as [_ Hs]. destruct (Hs y Hy) as [Hvis _].
    destruct (tj_lowof st y) as [[k'|]|] eqn:Ey.
    + exfalso. assert (Hys : In y (tj_stack st)). { apply (I_stk _ _ _ HIe). eauto. }
      apply root_stk_iff in Hys. destruct Hys as [k2 Hk2]. congruence.
    + destruct (F_done _ _ _ _ HF' y Ey) as [_ B]. rewrite B, Ho.
      apply (O_black _ _ HI2e v y Hv Hng Hy Ey).
    + congruence.
  - rewrite Hos. constructor.
    + destruct (dedup_isort_spec (map fst new)) as [Hnd Hin]. split. exact Hnd.
      intros c. rewrite Hin, in_map_iff. split.
      * intros [[c' p] [E Hcp]]. simpl in E. subst c'.
        assert (Hcp1 : In (c, p) (tj_out st1)). { rewrite Hout1. apply in_or_app. left. exact Hcp. }
        destruct (O_sound _ _ HI2 c p Hcp1) as [v [y [Hv [Hp [Hy [Hd Hc]]]]]].
        pose proof (Hnew _ Hcp) as Hge. simpl in Hge.
        assert (Hvm : In v members).
        { apply in_members. apply al_stack_cases in Hv. destruct Hv as [Hv|[Hv|Hv]]; auto.
          exfalso. rewrite (pos_old v Hv) in Hp. pose proof (pos_in_lt _ _ Hv) as Hlt.
          rewrite <- (I_slen _ _ _ HIe) in Hlt. lia. }
        exists v, y. split. exact Hvm. split. exact Hy. split. apply done1_not_member. exact Hd.
        destruct (root_low_out y (done1_not_member y Hd)) as [_ Ec]. congruence.
      * intros [u [y [Hu [Hy [Hny Hc]]]]].
        destruct (root_succ u y Hu Hy) as [Hd|Hym]; [| contradiction].
        destruct (root_low_out y Hny) as [_ Ec]. rewrite Ec in Hc.
        assert (Hin1 : In (c, pos_in (tj_stack st1) u) (tj_out st1)).
        { rewrite <- Hc. apply in_members in Hu. destruct Hu as [E|Hu].
          - subst u. rewrite (L2_pos _ _ _ _ HL2). apply (L2_pre _ _ _ _ HL2 y Hy Hd).
          - apply (O_black _ _ HI2 u y); auto. apply al_stack_cases. auto. apply al_S1_black. exact Hu. }
        rewrite Hout1 in Hin1. apply in_app_or in Hin1. destruct Hin1 as [Hin1|Hin1].
        -- exists (c, pos_in (tj_stack st1) u). split. reflexivity. exact Hin1.
        -- exfalso. pose proof (old_out_lt _ Hin1) as Hlt. simpl in Hlt.
           pose proof (pos_member u Hu). lia.
    + apply (Forall2_impl_in _ _ (out_rel st1)); [| exact (O_outs _ _ HI2)].
      intros m o' Hm [Hnd Hin]. split. exact Hnd.
      assert (Hcomp : forall u y, In u m -> In y (out u) -> tj_compof st' y = tj_compof st1 y).
      { intros u y Hu Hy.
        assert (Hud : tj_lowof st1 u = Some LDone).
        { apply (I_done _ _ _ HI1). apply in_concat. exists m. split; assumption. }
        destruct (I_dsucc _ _ _ HI1 u y Hud Hy) as [Hyd _].
        destruct (root_low_out y (done1_not_member y Hyd)) as [_ Ec]. exact Ec. }
      intros c. rewrite Hin. split; intros [u [y [Hu [Hy [Hny Hc]]]]]; exists u, y;
        (split; [exact Hu | split; [exact Hy | split; [exact Hny |]]]).
      * rewrite (Hcomp u y Hu Hy). exact Hc.
      * rewrite <- (Hcomp u y Hu Hy). exact Hc.
Qed.

Lemma root_Frame2 : Frame2 (tj_slen st) st st'.
Proof. exists []. split. exact Ho. intros e []. Qed.

End AfterLoop.

Lemma tj_mn_le : forall st1 oid mn, tj_mn st1 oid mn <= mn.
Proof.
  intros st1 oid mn. unfold tj_mn. destruct (tj_lowof st1 oid) as [[k|]|]; try lia.
  destruct (N.ltb_spec k mn); lia.
Qed.

Lemma tj_mn_low : forall st1 oid mn k, tj_lowof st1 oid = Some (LIdx k) -> tj_mn st1 oid mn <= k.
Proof.
  intros st1 oid mn k H. unfold tj_mn. rewrite H. destruct (N.ltb_spec k mn); lia.
Qed.

Lemma loop_step : forall d gs nid st mn pre oid d1 st1,
  Inv d (nid :: gs) st -> Loop d gs nid st mn pre -> In oid (out nid) ->
  Inv d1 (nid :: gs) st1 -> Frame d st d1 st1 -> PostC st oid st1 ->
  Loop d1 gs nid st1 (tj_mn st1 oid mn) (pre ++ [oid]).
Proof.
  intros d gs nid st mn pre oid d1 st1 HI HL Hoid HI1 HF [HP1 HP2].
  assert (Hnid : In nid (tj_stack st)). { apply (I_gs _ _ _ HI). left. reflexivity. }
  destruct (F_old _ _ _ _ HF nid Hnid) as [Ednid _].
  pose proof (tj_mn_le st1 oid mn) as Hmn'.
  destruct (F_stk _ _ _ _ HF) as [S' [ES' _]].
  assert (Hsub : forall v, In v (tj_stack st) -> In v (tj_stack st1)).
  { intros v Hv. rewrite ES'. apply in_or_app. right. exact Hv. }
  constructor.
  - exact (L_reach _ _ _ _ _ _ HL).
  - intros g Hg. assert (Hgs : In g (tj_stack st)). { apply (I_gs _ _ _ HI). right. exact Hg. }
    destruct (F_old _ _ _ _ HF g Hgs) as [E _]. rewrite E, Ednid. apply (L_gs _ _ _ _ _ _ HL). exact Hg.
  - intros y Hy. apply in_app_or in Hy. destruct Hy as [Hy|[Hy|[]]].
    + destruct (L_pre _ _ _ _ _ _ HL y Hy) as [A B]. split. apply (F_vis _ _ _ _ HF). exact A.
      intros Hs1. destruct (in_dec N.eq_dec y (tj_stack st)) as [Hs|Hs].
      * destruct (F_old _ _ _ _ HF y Hs) as [E _]. rewrite E. specialize (B Hs). lia.
      * exfalso. destruct (tj_lowof st y) as [[k|]|] eqn:Ey.
        -- apply Hs. apply (I_stk _ _ _ HI). eauto.
        -- destruct (F_done _ _ _ _ HF y Ey) as [Hd _]. apply (I_stk _ _ _ HI1) in Hs1.
           destruct Hs1 as [k Hk]. congruence.
        -- congruence.
    + subst y. split. exact HP1. intros Hs1. apply (I_stk _ _ _ HI1) in Hs1. destruct Hs1 as [k Hk].
      pose proof (tj_mn_low st1 oid mn k Hk). pose proof (Inv_low_le _ _ _ _ _ HI1 Hk). lia.
  - destruct (L_mn _ _ _ _ _ _ HL) as [Hle [w [Hw [Ew Hp]]]]. split. lia.
    unfold tj_mn. destruct (tj_lowof st1 oid) as [[k|]|] eqn:Eo.
    + destruct (N.ltb_spec k mn).
      * destruct (I_low _ _ _ HI1 oid k Eo) as [w' [Hw' [Ek Hp']]]. exists w'. split. exact Hw'.
        split. exact Ek. econstructor. exact Hoid. exact Hp'.
      * exists w. split. apply Hsub. exact Hw. split; [| exact Hp].
        destruct (F_old _ _ _ _ HF w Hw) as [E _]. congruence.
    + exists w. split. apply Hsub. exact Hw. split; [| exact Hp].
      destruct (F_old _ _ _ _ HF w Hw) as [E _]. congruence.
    + exists w. split. apply Hsub. exact Hw. split; [| exact Hp].
      destruct (F_old _ _ _ _ HF w Hw) as [E _]. congruence.
  - intros v k Hv Hlt Hk. destruct (in_dec N.eq_dec v (tj_stack st)) as [Hs|Hs].
    + destruct (F_old _ _ _ _ HF v Hs) as [E1 E2]. rewrite E1, Ednid in Hlt. rewrite E2 in Hk.
      pose proof (L_above _ _ _ _ _ _ HL v k Hs Hlt Hk). lia.
    + destruct (HP2 v k Hv Hs Hk) as [kc [Hkc Hle]]. pose proof (tj_mn_low st1 oid mn kc Hkc). lia.
Qed.

Lemma succs_spec : forall rec sp, connect_spec rec ->
  forall l pre d gs nid st mn st' mn',
   (forall y, In y l -> In y (out nid)) ->
   Inv d (nid :: gs) st -> Loop d gs nid st mn pre ->
   tj_succs rec edges sp l st mn = Some (st', mn') ->
   exists d', Inv d' (nid :: gs) st' /\ Frame d st d' st' /\ Loop d' gs nid st' mn' (pre ++ l).
Proof.
  intros rec sp Hrec. induction l as [|oid t IH]; intros pre d gs nid st mn st' mn' Hsub HI HL H.
  - simpl in H. injection H as <- <-. exists d. rewrite app_nil_r. split. exact HI. split. apply Frame_refl. exact HL.
  - rewrite tj_succs_cons in H.
    assert (Hoid : In oid (out nid)). { apply Hsub. left. reflexivity. }
    assert (Hsub' : forall y, In y t -> In y (out nid)). { intros y Hy. apply Hsub. right. exact Hy. }
    assert (Hstep : exists d1 st1,
      (match tj_lowof st oid with None => rec oid st | Some _ => Some st end) = Some st1 /\
      Inv d1 (nid :: gs) st1 /\ Frame d st d1 st1 /\ PostC st oid st1).
    { destruct (tj_lowof st oid) as [x|] eqn:Elo.
      - exists d, st. split. reflexivity. split. exact HI. split. apply Frame_refl.
        split. rewrite Elo. discriminate. intros v k Hv Hnv. contradiction.
      - destruct (rec oid st) as [st1|] eqn:Erec; [| discriminate H].
        destruct (Hrec d (nid :: gs) st oid st1 HI Elo (Hwf nid oid Hoid)) as [d1 [A [B C]]].
        + intros g [E|Hg]. subst g. econstructor. exact Hoid. constructor.
          eapply path_snoc. apply (L_reach _ _ _ _ _ _ HL). exact Hg. exact Hoid.
        + exact Erec.
        + exists d1, st1. auto. }
    destruct Hstep as [d1 [st1 [E1 [HI1 [HF1 HP1]]]]]. rewrite E1 in H.
    pose proof (loop_step _ _ _ _ _ _ _ _ _ HI HL Hoid HI1 HF1 HP1) as HL1.
    pose proof (core_eq_note edges sp oid st1) as Hce.
    destruct (IH (pre ++ [oid]) d1 gs nid _ _ st' mn' Hsub'
                 (Inv_core _ _ _ _ Hce HI1) (Loop_core _ _ _ _ _ _ _ Hce HL1) H) as [d' [A [B C]]].
    exists d'. split. exact A. split.
    + eapply Frame_trans. eapply Frame_core. exact Hce. exact HF1. exact B.
    + rewrite <- app_assoc in C. exact C.
Qed.
Lemma tj_root_form : forall sp nid st1 S1 S, tj_stack st1 = S1 ++ nid :: S -> ~ In nid S1 ->
  tj_root edges sp nid st1 =
  Some (mk_tj (fst (tj_mark_done (tj_ncomps st1) (nid :: rev S1) (tj_low st1) (tj_comp st1)))
              S sp (tj_index st1)
              (snd (if edges then tj_popout sp (tj_out st1) [] else ([], tj_out st1)))
              ((nid :: rev S1) :: tj_comps st1) (tj_ncomps st1 + 1)
              (snd (tj_mark_done (tj_ncomps st1) (nid :: rev S1) (tj_low st1) (tj_comp st1)))
              (dedup_adj (isort (rev_append (fst (if edges then tj_popout sp (tj_out st1) [] else ([], tj_out st1))) []))
                 :: tj_outs st1)).
Proof.
  intros sp nid st1 S1 S H Hn. unfold tj_root. rewrite H, tj_pop_app by exact Hn. rewrite app_nil_r.
  cbv beta iota zeta.
  destruct (tj_mark_done (tj_ncomps st1) (nid :: rev S1) (tj_low st1) (tj_comp st1)) as [low' comp'].
  destruct (if edges then tj_popout sp (tj_out st1) [] else ([], tj_out st1)) as [ocs outrest].
  reflexivity.
Qed.

Lemma connect_ok : forall fuel, connect_spec (tj_connect out edges fuel).
Proof.
  induction fuel as [|f IHf]; intros d gs st nid st' HI Hnone Hn Hreach H.
  - simpl in H. discriminate H.
  - rewrite tj_connect_S in H.
    destruct (tj_succs (tj_connect out edges f) edges (tj_slen st) (out nid) (tj_enter st nid) (tj_index st))
      as [[st1 mn]|] eqn:Es; [| discriminate H].
    destruct (succs_spec _ (tj_slen st) IHf (out nid) [] (d_enter d st nid) gs nid (tj_enter st nid)
                (tj_index st) st1 mn (fun y Hy => Hy)
                (enter_Inv d gs st nid HI Hnone Hn Hreach)
                (enter_Loop d gs st nid HI Hnone Hn Hreach) Es) as [d1 [HI1 [HF1 HL1]]].
    simpl app in HL1.
    destruct (F_stk _ _ _ _ HF1) as [S1 [Hstk HS1]]. rewrite stack_enter in Hstk. rewrite index_enter in HS1.
    assert (Hdn : d1 nid = tj_index st).
    { destruct (F_old _ _ _ _ HF1 nid) as [E _]. rewrite stack_enter. left. reflexivity.
      rewrite E. unfold d_enter. rewrite N.eqb_refl. reflexivity. }
    assert (HS1' : forall v, In v S1 -> d1 nid < d1 v).
    { intros v Hv. specialize (HS1 v Hv). lia. }
    pose proof (Frame_trans _ _ _ _ _ _ (enter_Frame d gs st nid HI Hnone Hn) HF1) as HF.
    destruct (N.ltb_spec mn (tj_index st)) as [Hlt|Hge].
    + injection H as <-. exists d1. split; [| split].
      * eapply nonroot_Inv; eauto. lia.
      * eapply nonroot_Frame; eauto.
      * eapply nonroot_PostC; eauto.
    + assert (HnS1 : ~ In nid S1). { intros Hin. specialize (HS1' nid Hin). lia. }
      rewrite (tj_root_form (tj_slen st) nid st1 S1 (tj_stack st) Hstk HnS1) in H. injection H as <-.
      assert (Hroot : d1 nid <= mn) by lia.
      exists d1. split; [| split].
      * eapply root_Inv; eauto.
      * eapply root_Frame; eauto.
      * eapply root_PostC; eauto.
Qed.
Lemma lowof_init : forall v, tj_lowof tj_init v = None.
Proof. intros v. unfold tj_lowof, tj_init. simpl. apply PositiveMap.gempty. Qed.

Lemma Inv_init : forall d, Inv d [] tj_init.
Proof.
  intros d. pose proof lowof_init as L.
  constructor; change (tj_stack tj_init) with (@nil N); change (tj_comps tj_init) with (@nil (list N)).
  - constructor.
  - intros v. rewrite L. split. intros []. intros [k H]. discriminate.
  - intros v. rewrite L. split. intros []. discriminate.
  - constructor.
  - intros v. rewrite L. congruence.
  - reflexivity.
  - reflexivity.
  - intros v [].
  - intros v [].
  - intros v k H. rewrite L in H. discriminate.
  - intros v [].
  - intros g0 v [].
  - intros v k H. rewrite L in H. discriminate.
  - intros l1 m l2 E. destruct l1; discriminate.
  - intros v y H. rewrite L in H. discriminate.
  - intros m [].
Qed.

Lemma all_spec : forall fuel g0 nid d st st',
  Inv d [] st -> nid + N.of_nat (length g0) <= n ->
  tj_all out edges fuel g0 nid st = Some st' ->
  exists d', Inv d' [] st' /\
     (forall v, tj_lowof st v <> None -> tj_lowof st' v <> None) /\
     (forall v, nid <= v < nid + N.of_nat (length g0) -> tj_lowof st' v <> None).
Proof.
  intros fuel. induction g0 as [|a g0 IH]; intros nid d st st' HI Hle H.
  - simpl in H. injection H as <-. exists d. split. exact HI. split. auto. simpl. intros v Hv. lia.
  - cbn [tj_all] in H. cbn [length] in Hle.
    assert (Hstep : exists d1 st1,
      (match tj_lowof st nid with None => tj_connect out edges fuel nid st | Some _ => Some st end) = Some st1 /\
      Inv d1 [] st1 /\ (forall v, tj_lowof st v <> None -> tj_lowof st1 v <> None) /\ tj_lowof st1 nid <> None).
    { destruct (tj_lowof st nid) as [x|] eqn:Elo.
      - exists d, st. split. reflexivity. split. exact HI. split. auto. rewrite Elo. discriminate.
      - destruct (tj_connect out edges fuel nid st) as [st1|] eqn:Ec; [| discriminate H].
        destruct (connect_ok fuel d [] st nid st1 HI Elo) as [d1 [A [B [C _]]]].
        + lia.
        + intros g [].
        + exact Ec.
        + exists d1, st1. split. reflexivity. split. exact A. split. exact (F_vis _ _ _ _ B). exact C. }
    destruct Hstep as [d1 [st1 [E1 [HI1 [Hv1 Hn1]]]]]. rewrite E1 in H.
    destruct (IH (nid + 1) d1 st1 st' HI1) as [d' [A [B C]]]. lia. exact H.
    exists d'. split. exact A. split. auto.
    intros v Hv. destruct (N.eq_dec v nid) as [E|E].
    + subst v. apply B. exact Hn1.
    + apply C. cbn [length] in Hv. lia.
Qed.

Lemma run_spec : forall g st, g_n g = n -> tarjan_run out edges g = Some st ->
  exists d, Inv d [] st /\ tj_stack st = [] /\ forall v, v < n -> tj_lowof st v = Some LDone.
Proof.
  intros g st Hg H. unfold tarjan_run in H.
  destruct (all_spec (S (length g)) g 0 (fun _ => 0) tj_init st (Inv_init _)) as [d [HI [_ Hall]]].
  - unfold g_n in Hg. lia.
  - exact H.
  - exists d. split. exact HI. pose proof (Inv_nogray_empty _ _ HI) as Hs. split. exact Hs.
    intros v Hv. destruct (tj_lowof st v) as [[k|]|] eqn:E.
    + exfalso. assert (Hin : In v (tj_stack st)). { apply (I_stk _ _ _ HI). eauto. }
      rewrite Hs in Hin. destruct Hin.
    + reflexivity.
    + exfalso. apply (Hall v). unfold g_n in Hg. lia. exact E.
Qed.

Section Edges.
Hypothesis Hedges : edges = true.

Lemma step2_loop : forall d gs nid st mn pre d1 st1 b sp,
  Inv d (nid :: gs) st -> Loop d gs nid st mn pre -> Inv d1 (nid :: gs) st1 -> Frame d st d1 st1 ->
  Frame2 b st st1 -> Loop2 sp nid st pre -> Loop2 sp nid st1 pre.
Proof.
  intros d gs nid st mn pre d1 st1 b sp HI HL HI1 HF [nw [Enw _]] HL2.
  destruct (F_stk _ _ _ _ HF) as [S' [ES' _]].
  pose proof (L2_nid _ _ _ _ HL2) as Hnid.
  constructor.
  - rewrite ES'. apply in_or_app. right. exact Hnid.
  - rewrite ES'. rewrite pos_in_app_r. exact (L2_pos _ _ _ _ HL2).
    pose proof (I_nd _ _ _ HI1) as Hnd. rewrite ES' in Hnd. apply nodup_app_iff in Hnd.
    destruct Hnd as [_ [_ Hd]]. intros H. exact (Hd nid H Hnid).
  - intros y Hy Hd. destruct (L_pre _ _ _ _ _ _ HL y Hy) as [Hvis _].
    destruct (tj_lowof st y) as [[k|]|] eqn:Ey.
    + exfalso. assert (Hys : In y (tj_stack st)). { apply (I_stk _ _ _ HI). eauto. }
      destruct (F_old _ _ _ _ HF y Hys) as [_ E]. congruence.
    + destruct (F_done _ _ _ _ HF y Ey) as [_ Ec]. rewrite Ec, Enw. apply in_or_app. right.
      apply (L2_pre _ _ _ _ HL2 y Hy Ey).
    + congruence.
Qed.

Lemma note_spec2 : forall gs nid st1 sp pre oid,
  In oid (out nid) -> Inv2 (nid :: gs) st1 -> Loop2 sp nid st1 pre ->
  Inv2 (nid :: gs) (tj_note edges sp oid st1) /\
  Loop2 sp nid (tj_note edges sp oid st1) (pre ++ [oid]) /\
  Frame2 sp st1 (tj_note edges sp oid st1).
Proof.
  intros gs nid st1 sp pre oid Hoid HI2 HL2. unfold tj_note. rewrite Hedges.
  destruct (tj_lowof st1 oid) as [[k|]|] eqn:Eo.
  - split. exact HI2. split; [| apply Frame2_refl].
    constructor. exact (L2_nid _ _ _ _ HL2). exact (L2_pos _ _ _ _ HL2).
    intros y Hy Hd. apply in_app_or in Hy. destruct Hy as [Hy|[Hy|[]]].
    apply (L2_pre _ _ _ _ HL2 y Hy Hd). subst y. congruence.
  - split; [| split].
    + constructor; cbn [tj_out tj_stack tj_comps tj_outs].
      * intros c p [E|H].
        -- injection E as <- <-. exists nid, oid. split. exact (L2_nid _ _ _ _ HL2).
           split. exact (L2_pos _ _ _ _ HL2). split. exact Hoid. split. exact Eo. reflexivity.
        -- exact (O_sound _ _ HI2 c p H).
      * intros v y Hv Hng Hy Hd. right. exact (O_black _ _ HI2 v y Hv Hng Hy Hd).
      * exact (O_outs _ _ HI2).
    + constructor; cbn [tj_out tj_stack].
      * exact (L2_nid _ _ _ _ HL2).
      * exact (L2_pos _ _ _ _ HL2).
      * intros y Hy Hd. apply in_app_or in Hy. destruct Hy as [Hy|[Hy|[]]].
        -- right. exact (L2_pre _ _ _ _ HL2 y Hy Hd).
        -- subst y. left. reflexivity.
    + exists [(tj_compof st1 oid, sp)]. split. reflexivity. intros e [E|[]]. subst e. simpl. lia.
  - split. exact HI2. split; [| apply Frame2_refl].
    constructor. exact (L2_nid _ _ _ _ HL2). exact (L2_pos _ _ _ _ HL2).
    intros y Hy Hd. apply in_app_or in Hy. destruct Hy as [Hy|[Hy|[]]].
    apply (L2_pre _ _ _ _ HL2 y Hy Hd). subst y. congruence.
Qed.

Lemma succs_spec2 : forall rec sp, connect_spec2 rec ->
  forall l pre d gs nid st mn st' mn',
   (forall y, In y l -> In y (out nid)) ->
   Inv d (nid :: gs) st -> Loop d gs nid st mn pre ->
   Inv2 (nid :: gs) st -> Loop2 sp nid st pre ->
   tj_succs rec edges sp l st mn = Some (st', mn') ->
   exists d', Inv d' (nid :: gs) st' /\ Frame d st d' st' /\ Loop d' gs nid st' mn' (pre ++ l) /\
              Inv2 (nid :: gs) st' /\ Loop2 sp nid st' (pre ++ l) /\ Frame2 sp st st'.
Proof.
  intros rec sp Hrec. induction l as [|oid t IH]; intros pre d gs nid st mn st' mn' Hsub HI HL HI2 HL2 H.
  - simpl in H. injection H as <- <-. exists d. rewrite app_nil_r.
    split. exact HI. split. apply Frame_refl. split. exact HL. split. exact HI2. split. exact HL2.
    apply Frame2_refl.
  - rewrite tj_succs_cons in H.
    assert (Hoid : In oid (out nid)). { apply Hsub. left. reflexivity. }
    assert (Hsub' : forall y, In y t -> In y (out nid)). { intros y Hy. apply Hsub. right. exact Hy. }
    assert (Hsp : sp <= tj_slen st).
    { rewrite <- (L2_pos _ _ _ _ HL2), (I_slen _ _ _ HI).
      pose proof (pos_in_lt _ _ (L2_nid _ _ _ _ HL2)). lia. }
    assert (Hstep : exists d1 st1,
      (match tj_lowof st oid with None => rec oid st | Some _ => Some st end) = Some st1 /\
      Inv d1 (nid :: gs) st1 /\ Frame d st d1 st1 /\ PostC st oid st1 /\
      Inv2 (nid :: gs) st1 /\ Frame2 sp st st1).
    { destruct (tj_lowof st oid) as [x|] eqn:Elo.
      - exists d, st. split. reflexivity. split. exact HI. split. apply Frame_refl.
        split. split. rewrite Elo. discriminate. intros v k Hv Hnv. contradiction.
        split. exact HI2. apply Frame2_refl.
      - destruct (rec oid st) as [st1|] eqn:Erec; [| discriminate H].
        destruct (Hrec d (nid :: gs) st oid st1 HI HI2 Elo (Hwf nid oid Hoid)) as [d1 [A [B [C [D E]]]]].
        + intros g [E|Hg]. subst g. econstructor. exact Hoid. constructor.
          eapply path_snoc. apply (L_reach _ _ _ _ _ _ HL). exact Hg. exact Hoid.
        + exact Erec.
        + exists d1, st1. split. reflexivity. split. exact A. split. exact B. split. exact C.
          split. exact D. eapply Frame2_weaken. exact Hsp. exact E. }
    destruct Hstep as [d1 [st1 [E1 [HI1 [HF1 [HP1 [HI21 HF21]]]]]]]. rewrite E1 in H.
    pose proof (loop_step _ _ _ _ _ _ _ _ _ HI HL Hoid HI1 HF1 HP1) as HL1.
    pose proof (step2_loop _ _ _ _ _ _ _ _ _ _ HI HL HI1 HF1 HF21 HL2) as HL21.
    pose proof (core_eq_note edges sp oid st1) as Hce.
    destruct (note_spec2 gs nid st1 sp pre oid Hoid HI21 HL21) as [HI22 [HL22 HF22]].
    destruct (IH (pre ++ [oid]) d1 gs nid _ _ st' mn' Hsub'
                 (Inv_core _ _ _ _ Hce HI1) (Loop_core _ _ _ _ _ _ _ Hce HL1) HI22 HL22 H)
      as [d' [A [B [C [D [E F]]]]]].
    exists d'. split. exact A. split.
    + eapply Frame_trans. eapply Frame_core. exact Hce. exact HF1. exact B.
    + rewrite <- app_assoc in C, E. split. exact C. split. exact D. split. exact E.
      eapply Frame2_trans. exact HF21. eapply Frame2_trans. exact HF22. exact F.
Qed.
Lemma connect_ok2 : forall fuel, connect_spec2 (tj_connect out edges fuel).
Proof.
  induction fuel as [|f IHf]; intros d gs st nid st' HI HI2 Hnone Hn Hreach H.
  - simpl in H. discriminate H.
  - rewrite tj_connect_S in H.
    destruct (tj_succs (tj_connect out edges f) edges (tj_slen st) (out nid) (tj_enter st nid) (tj_index st))
      as [[st1 mn]|] eqn:Es; [| discriminate H].
    destruct (succs_spec2 _ (tj_slen st) IHf (out nid) [] (d_enter d st nid) gs nid (tj_enter st nid)
                (tj_index st) st1 mn (fun y Hy => Hy)
                (enter_Inv d gs st nid HI Hnone Hn Hreach)
                (enter_Loop d gs st nid HI Hnone Hn Hreach)
                (enter_Inv2 d gs st nid HI Hnone HI2)
                (enter_Loop2 d gs st nid HI) Es) as [d1 [HI1 [HF1 [HL1 [HI21 [HL21 HF21]]]]]].
    simpl app in HL1, HL21.
    destruct (F_stk _ _ _ _ HF1) as [S1 [Hstk HS1]]. rewrite stack_enter in Hstk. rewrite index_enter in HS1.
    destruct HF21 as [new [Hout1 Hnew]]. rewrite out_enter in Hout1.
    assert (Hdn : d1 nid = tj_index st).
    { destruct (F_old _ _ _ _ HF1 nid) as [E _]. rewrite stack_enter. left. reflexivity.
      rewrite E. unfold d_enter. rewrite N.eqb_refl. reflexivity. }
    assert (HS1' : forall v, In v S1 -> d1 nid < d1 v).
    { intros v Hv. specialize (HS1 v Hv). lia. }
    pose proof (Frame_trans _ _ _ _ _ _ (enter_Frame d gs st nid HI Hnone Hn) HF1) as HF.
    destruct (N.ltb_spec mn (tj_index st)) as [Hlt|Hge].
    + injection H as <-. exists d1. split; [| split; [| split; [| split]]].
      * eapply nonroot_Inv; eauto. lia.
      * eapply nonroot_Frame; eauto.
      * eapply nonroot_PostC; eauto.
      * eapply nonroot_Inv2; eauto.
      * eapply nonroot_Frame2; eauto.
    + assert (HnS1 : ~ In nid S1). { intros Hin. specialize (HS1' nid Hin). lia. }
      rewrite (tj_root_form (tj_slen st) nid st1 S1 (tj_stack st) Hstk HnS1) in H.
      rewrite Hedges, Hout1 in H. rewrite popout_spec in H.
      2: exact Hnew.
      2: { eapply old_out_lt. exact HI. exact HI2. }
      cbn [fst snd] in H. rewrite app_nil_r, <- rev_alt, rev_involutive in H. injection H as <-.
      assert (Hroot : d1 nid <= mn) by lia.
      exists d1. split; [| split; [| split; [| split]]].
      * eapply root_Inv; eauto.
      * eapply root_Frame; eauto.
      * eapply root_PostC; eauto.
      * eapply root_Inv2; eauto.
      * eapply root_Frame2; eauto.
Qed.

Lemma Inv2_init : Inv2 [] tj_init.
Proof.
  constructor.
  - intros c p [].
  - intros v y [].
  - constructor.
Qed.

Lemma all_spec2 : forall fuel g0 nid d st st',
  Inv d [] st -> Inv2 [] st -> nid + N.of_nat (length g0) <= n ->
  tj_all out edges fuel g0 nid st = Some st' ->
  exists d', Inv d' [] st' /\ Inv2 [] st'.
Proof.
  intros fuel. induction g0 as [|a g0 IH]; intros nid d st st' HI HI2 Hle H.
  - simpl in H. injection H as <-. exists d. split; assumption.
  - cbn [tj_all] in H. cbn [length] in Hle.
    destruct (tj_lowof st nid) as [x|] eqn:Elo.
    + apply (IH (nid + 1) d st st' HI HI2). lia. exact H.
    + destruct (tj_connect out edges fuel nid st) as [st1|] eqn:Ec; [| discriminate H].
      destruct (connect_ok2 fuel d [] st nid st1 HI HI2 Elo) as [d1 [A [_ [_ [B _]]]]].
      * lia.
      * intros g [].
      * exact Ec.
      * apply (IH (nid + 1) d1 st1 st' A B). lia. exact H.
Qed.

Lemma run_spec2 : forall g st, g_n g = n -> tarjan_run out edges g = Some st -> Inv2 [] st.
Proof.
  intros g st Hg H. unfold tarjan_run in H.
  destruct (all_spec2 (S (length g)) g 0 (fun _ => 0) tj_init st (Inv_init _) Inv2_init) as [d [_ HI2]].
  - unfold g_n in Hg. lia.
  - exact H.
  - exact HI2.
Qed.
End Edges.
End TJ.

(* ------------------------------------------------------------------ stage 1: the components *)
Lemma rev_nth_split : forall (C : list (list N)) c v, In v (nth c (rev C) []) ->
  exists l1 l2, C = l1 ++ nth c (rev C) [] :: l2 /\ length l2 = c.
Proof.
  intros C c v Hv. apply in_nth_lt' in Hv.
  destruct (nth_split (rev C) [] Hv) as [l1 [l2 [E Hl]]].
  exists (rev l2), (rev l1). split.
  - remember (nth c (rev C) []) as m. apply (f_equal (@rev _)) in E.
    rewrite rev_involutive, rev_app_distr in E. simpl in E. rewrite <- app_assoc in E. exact E.
  - rewrite rev_length. exact Hl.
Qed.

Section Final.
Variable g : graph.
Variable edges : bool.
Hypothesis Hwf : g_wf g.
Variable st : tj.
Hypothesis Hrun : tarjan_run (g_out g) edges g = Some st.

Lemma final_inv : exists d, Inv (g_out g) (g_n g) d [] st /\ tj_stack st = [] /\
  forall v, v < g_n g -> tj_lowof st v = Some LDone.
Proof. apply (run_spec (g_out g) (g_n g) Hwf edges g st eq_refl Hrun). Qed.

Lemma final_comp : forall c v, In v (nth c (rev (tj_comps st)) []) ->
  In (nth c (rev (tj_comps st)) []) (tj_comps st) /\ tj_compof st v = N.of_nat c.
Proof.
  intros c v Hv. destruct final_inv as [d [HI _]].
  destruct (rev_nth_split _ _ _ Hv) as [l1 [l2 [E Hl]]]. split.
  - rewrite E at 2. apply in_or_app. right. left. reflexivity.
  - rewrite (I_comp _ _ _ _ _ HI l1 _ l2 E v Hv). rewrite Hl. reflexivity.
Qed.

Lemma final_edge : forall u v, In v (g_out g u) -> tj_compof st v <= tj_compof st u.
Proof.
  intros u v Huv. destruct final_inv as [d [HI [_ Hall]]].
  apply (I_dsucc _ _ _ _ _ HI u v). apply Hall. eapply g_out_lt. exact Huv. exact Huv.
Qed.

Lemma final_path : forall u v, path (g_out g) u v -> tj_compof st v <= tj_compof st u.
Proof.
  intros u v Hp. induction Hp as [u|u v w Hin Hp IH]. lia.
  pose proof (final_edge u v Hin). lia.
Qed.

Lemma final_scc : scc_spec g (rev (tj_comps st)).
Proof.
  destruct final_inv as [d [HI [Hs Hall]]]. constructor.
  - apply NoDup_Permutation.
    + apply (Permutation_NoDup (Permutation_sym (perm_concat_rev _ (tj_comps st)))). exact (I_ndc _ _ _ _ _ HI).
    + apply nodup_nodes_upto.
    + intros x. rewrite in_nodes_upto. split.
      * intros Hx. apply (Permutation_in _ (perm_concat_rev _ (tj_comps st))) in Hx.
        apply (I_done _ _ _ _ _ HI) in Hx. apply (I_lt _ _ _ _ _ HI). rewrite Hx. discriminate.
      * intros Hx. apply (Permutation_in _ (Permutation_sym (perm_concat_rev _ (tj_comps st)))).
        apply (I_done _ _ _ _ _ HI). apply Hall. exact Hx.
  - intros l Hl. apply in_rev in Hl. apply (I_scc _ _ _ _ _ HI l Hl).
  - intros c1 c2 u v Hu Hv. unfold comp_at in *.
    destruct (final_comp c1 u Hu) as [Hm1 Ec1]. destruct (final_comp c2 v Hv) as [Hm2 Ec2]. split.
    + intros E. subst c2. destruct (I_scc _ _ _ _ _ HI _ Hm1) as [_ Hp]. split; apply Hp; assumption.
    + intros [P1 P2]. pose proof (final_path _ _ P1). pose proof (final_path _ _ P2). lia.
  - intros c1 c2 u v Hu Hv Huv. unfold comp_at in *.
    destruct (final_comp c1 u Hu) as [_ Ec1]. destruct (final_comp c2 v Hv) as [_ Ec2].
    pose proof (final_edge u v Huv). lia.
Qed.

(* ---- stage 2 ---- *)
Hypothesis Hedges : edges = true.

Lemma final_inv2 : Inv2 (g_out g) [] st.
Proof. apply (run_spec2 (g_out g) (g_n g) Hwf edges Hedges g st eq_refl Hrun). Qed.

Lemma final_edges : scc_edges_spec g (rev (tj_comps st)) (rev (tj_outs st)).
Proof.
  destruct final_inv as [d [HI [Hs Hall]]]. pose proof final_inv2 as HI2.
  pose proof (O_outs _ _ _ HI2) as HF.
  unfold scc_edges_spec. split.
  - rewrite !rev_length. symmetry. eapply Forall2_len. exact HF.
  - intros c Hc.
    pose proof (Forall2_nth' _ _ _ _ _ [] [] (Forall2_rev' _ _ _ _ _ HF) c Hc) as HR.
    destruct HR as [Hnd Hin]. split. exact Hnd.
    intros dd. rewrite Hin. unfold comp_at. split.
    + intros [u [y [Hu [Hy [Hny Hcy]]]]].
      assert (Hyc : In y (concat (rev (tj_comps st)))).
      { apply (Permutation_in _ (Permutation_sym (perm_concat_rev _ (tj_comps st)))).
        apply (I_done _ _ _ _ _ HI). apply Hall. exact (Hwf u y Hy). }
      apply in_concat in Hyc. destruct Hyc as [l [Hl Hyl]].
      destruct (In_nth _ _ [] Hl) as [c' [Hc' El]]. rewrite <- El in Hyl.
      destruct (final_comp c' y Hyl) as [_ Ec']. rewrite Ec' in Hcy. subst dd. rewrite Nat2N.id.
      split. intros E. subst c'. contradiction.
      exists u, y. auto.
    + intros [Hne [u [v [Hu [Hv Huv]]]]]. exists u, v. split. exact Hu. split. exact Huv.
      destruct (final_comp _ v Hv) as [_ Ev]. rewrite N2Nat.id in Ev. split; [| exact Ev].
      intros Hvm. destruct (final_comp c v Hvm) as [_ Ev']. apply Hne. rewrite <- Ev, Ev'. apply Nat2N.id.
Qed.
End Final.

Theorem tarjan_components_sound : forall g edges comps outs, g_wf g ->
  tarjan g edges = Some (comps, outs) -> scc_spec g comps.
Proof.
  intros g edges comps outs Hwf H. unfold tarjan in H.
  destruct (tarjan_run (g_out g) edges g) as [st|] eqn:Hrun; [| discriminate H].
  injection H as <- _. rewrite <- rev_alt. eapply final_scc; eauto.
Qed.
Print Assumptions tarjan_components_sound.

Theorem tarjan_sound : forall g edges comps outs, g_wf g -> tarjan g edges = Some (comps, outs) ->
  scc_spec g comps /\ (edges = true -> scc_edges_spec g comps outs).
Proof.
  intros g edges comps outs Hwf H. split. eapply tarjan_components_sound; eauto.
  intros Hedges. unfold tarjan in H.
  destruct (tarjan_run (g_out g) edges g) as [st|] eqn:Hrun; [| discriminate H].
  injection H as <- <-. rewrite <- !rev_alt. eapply final_edges; eauto.
Qed.
Print Assumptions tarjan_sound.

(* Proofs/TarjanCorrect.v — termination (Proofs/TarjanPartial.v) + soundness (Proofs/Tarjan.v)
   of the model of Tarjan's algorithm as written in scc.go. *)
From Coq Require Import List NArith ZArith Lia Bool Permutation.
From MM Require Import Base.GCGraph Model.Scc Spec.Scc Proofs.TarjanPartial Proofs.Tarjan.
Import ListNotations.

Theorem tarjan_correct : forall g edges, g_wf g ->
  exists comps outs, tarjan g edges = Some (comps, outs) /\
    scc_spec g comps /\ (edges = true -> scc_edges_spec g comps outs).
Proof.
  intros g edges Hwf.
  destruct (tarjan_terminates g edges Hwf) as ([comps outs] & Hrun).
  exists comps, outs. split; [exact Hrun|].
  exact (tarjan_sound g edges comps outs Hwf Hrun).
Qed.

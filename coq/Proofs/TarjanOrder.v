(* Proofs/TarjanOrder.v — (group hM) the ORDER inside the Out(c) lists of the model of Tarjan's algorithm
   (Model/Scc.v, scc.go:131-149: pop the out-edge stack, sort.Ints, remove adjacent duplicates).
     tarjan_outs_ascending : in every final (and intermediate) state of the model every Out(c) list is
                             strictly ascending (StronglySorted N.lt), for ANY successor function and flags;
     ascending_unique      : a strictly ascending list is determined by its members;
   so an observation that equals the model's Out lists list for list is, for each component, THE ascending
   duplicate-free enumeration of whatever set it is proved to contain (scc_edges_spec: the other components
   entered).  Closed under the global context. *)
From Coq Require Import List NArith ZArith FMapPositive Lia Bool Sorted.
From MM Require Import Base.GCGraph Model.Graph Model.Scc Proofs.Tarjan.
Import ListNotations.
Local Open Scope N_scope.

Definition ascending (l : list N) : Prop := StronglySorted N.lt l.

Lemma ascending_unique : forall l1 l2, ascending l1 -> ascending l2 ->
  (forall x, In x l1 <-> In x l2) -> l1 = l2.
Proof.
  induction l1 as [|a l1 IH]; intros l2 H1 H2 Hm.
  - destruct l2 as [|b l2]; [reflexivity|]. exfalso. apply (proj2 (Hm b)). left. reflexivity.
  - destruct l2 as [|b l2]; [exfalso; apply (proj1 (Hm a)); left; reflexivity|].
    apply StronglySorted_inv in H1. destruct H1 as [S1 F1]. apply StronglySorted_inv in H2. destruct H2 as [S2 F2].
    rewrite Forall_forall in F1, F2.
    assert (a = b).
    { destruct (proj1 (Hm a) (or_introl eq_refl)) as [E|Ia]; [congruence|].
      destruct (proj2 (Hm b) (or_introl eq_refl)) as [E|Ib]; [exact E|].
      specialize (F1 _ Ib). specialize (F2 _ Ia). lia. }
    subst b. f_equal. apply IH; [exact S1|exact S2|].
    intro x. split; intro Hx.
    + destruct (proj1 (Hm x) (or_intror Hx)) as [E|I']; [|exact I']. subst x. specialize (F1 _ Hx). lia.
    + destruct (proj2 (Hm x) (or_intror Hx)) as [E|I']; [|exact I']. subst x. specialize (F2 _ Hx). lia.
Qed.

Lemma ascending_nodup : forall l, ascending l -> NoDup l.
Proof.
  induction 1 as [|a l S IH F]; constructor; [|exact IH].
  intro Ha. rewrite Forall_forall in F. specialize (F _ Ha). lia.
Qed.

(* scc.go:141-149 on the sorted list *)
Lemma dedup_adj_ascending : forall l, ssorted l -> ascending (dedup_adj l).
Proof.
  induction l as [|x t IH]; intros Hs; [constructor|].
  destruct t as [|y t]; [cbn; constructor; constructor|].
  rewrite dedup_adj_cons2. destruct Hs as [Hx Ht]. destruct (N.eqb_spec x y) as [E|E].
  - apply IH. exact Ht.
  - constructor; [apply IH; exact Ht|].
    apply Forall_forall. intros z Hz. rewrite dedup_adj_in in Hz.
    destruct (Hz : y = z \/ In z t) as [<-|Hz'].
    + specialize (Hx y (or_introl eq_refl)). lia.
    + destruct Ht as [Hy _]. specialize (Hy z Hz'). specialize (Hx y (or_introl eq_refl)). lia.
Qed.

Lemma sort_dedup_ascending : forall l, ascending (dedup_adj (isort l)).
Proof. intro l. apply dedup_adj_ascending, isort_ssorted. Qed.

Definition outs_asc (st : tj) : Prop := Forall ascending (tj_outs st).

Lemma outs_asc_note : forall edges sp oid st, outs_asc st -> outs_asc (tj_note edges sp oid st).
Proof.
  intros edges sp oid st H. unfold tj_note. destruct (tj_lowof st oid) as [[k|]|]; [exact H| |exact H].
  destruct edges; exact H.
Qed.

Lemma outs_asc_root : forall edges sp nid st1 st', outs_asc st1 -> tj_root edges sp nid st1 = Some st' -> outs_asc st'.
Proof.
  intros edges sp nid st1 st' H E. unfold tj_root in E.
  destruct (tj_pop nid (tj_stack st1) []) as [members rest].
  destruct (tj_mark_done (tj_ncomps st1) members (tj_low st1) (tj_comp st1)) as [low' comp'].
  destruct (if edges then tj_popout sp (tj_out st1) [] else ([], tj_out st1)) as [ocs outrest].
  injection E as <-. unfold outs_asc. cbn [tj_outs]. constructor; [apply sort_dedup_ascending|exact H].
Qed.

Lemma outs_asc_succs : forall (rec : N -> tj -> option tj) edges sp,
  (forall v st st', outs_asc st -> rec v st = Some st' -> outs_asc st') ->
  forall l st mn st' mn', outs_asc st -> tj_succs rec edges sp l st mn = Some (st', mn') -> outs_asc st'.
Proof.
  intros rec edges sp Hrec. induction l as [|oid t IH]; intros st mn st' mn' H E.
  - cbn in E. injection E as <- _. exact H.
  - rewrite tj_succs_cons in E.
    destruct (match tj_lowof st oid with None => rec oid st | Some _ => Some st end) as [st1|] eqn:E1; [|discriminate].
    assert (H1 : outs_asc st1).
    { destruct (tj_lowof st oid); [injection E1 as <-; exact H|]. eapply Hrec; eassumption. }
    eapply IH; [|exact E]. apply outs_asc_note. exact H1.
Qed.

Lemma outs_asc_connect : forall out edges fuel nid st st',
  outs_asc st -> tj_connect out edges fuel nid st = Some st' -> outs_asc st'.
Proof.
  intros out edges. induction fuel as [|f IH]; intros nid st st' H E; [discriminate|].
  rewrite tj_connect_S in E.
  destruct (tj_succs (tj_connect out edges f) edges (tj_slen st) (out nid) (tj_enter st nid) (tj_index st))
    as [[st1 mn]|] eqn:E1; [|discriminate].
  assert (H1 : outs_asc st1).
  { eapply outs_asc_succs; [|exact (H : outs_asc (tj_enter st nid))|exact E1]. intros v a b Ha Eb. eapply IH; eassumption. }
  destruct (mn <? tj_index st).
  - injection E as <-. exact H1.
  - eapply outs_asc_root; eassumption.
Qed.

Lemma outs_asc_all : forall out edges fuel g nid st st',
  outs_asc st -> tj_all out edges fuel g nid st = Some st' -> outs_asc st'.
Proof.
  intros out edges fuel. induction g as [|x g IH]; intros nid st st' H E.
  - cbn in E. injection E as <-. exact H.
  - cbn [tj_all] in E.
    destruct (match tj_lowof st nid with None => tj_connect out edges fuel nid st | Some _ => Some st end) as [st1|] eqn:E1;
      [|discriminate].
    eapply IH; [|exact E].
    destruct (tj_lowof st nid); [injection E1 as <-; exact H|]. eapply outs_asc_connect; eassumption.
Qed.

(* every Out(c) list of the model's result is strictly ascending: for any successor function [out]
   (the check runs the model on the trie view of the graph), with or without SCCEdges *)
Theorem tarjan_outs_ascending : forall out edges g st,
  tarjan_run out edges g = Some st -> Forall ascending (rev_append (tj_outs st) []).
Proof.
  intros out edges g st E. unfold tarjan_run in E.
  assert (H : outs_asc st) by (eapply outs_asc_all; [|exact E]; constructor).
  rewrite rev_append_rev, app_nil_r. apply Forall_rev. exact H.
Qed.

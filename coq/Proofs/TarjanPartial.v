(* TarjanPartial.v : the fuelled model of Tarjan's algorithm (Model/Scc.v) never runs out
   of fuel and returns a partition of the nodes. *)
From Coq Require Import List NArith ZArith FMapPositive Lia Bool Permutation.
From MM Require Import Base.GCGraph Base.GCReach Model.Graph Model.Scc.
Import ListNotations.
Local Open Scope N_scope.

(* ------------------------------------------------------------------ lists *)
Lemma NoDup_app_iff : forall (A : Type) (l1 l2 : list A),
  NoDup (l1 ++ l2) <-> NoDup l1 /\ NoDup l2 /\ (forall x, In x l1 -> ~ In x l2).
Proof.
  intros A l1 l2. induction l1 as [|a l1 IH]; simpl.
  - split.
    + intros H. split. constructor. split. exact H. intros x [].
    + intros (_ & H & _). exact H.
  - split.
    + intros H. inversion H as [|x l Hn Hnd]; subst. apply IH in Hnd. destruct Hnd as (H1 & H2 & H3).
      split.
      { constructor. intros Hin. apply Hn. apply in_or_app. left. exact Hin. exact H1. }
      split. exact H2.
      intros x [E|Hin] Hx.
      * subst x. apply Hn. apply in_or_app. right. exact Hx.
      * exact (H3 x Hin Hx).
    + intros (H1 & H2 & H3). inversion H1 as [|x l Hn Hnd]; subst. constructor.
      * intros Hin. apply in_app_or in Hin. destruct Hin as [Hin|Hin].
        exact (Hn Hin). exact (H3 a (or_introl eq_refl) Hin).
      * apply IH. split. exact Hnd. split. exact H2. intros x Hx. apply H3. right. exact Hx.
Qed.

Lemma NoDup_map_of_nat : forall k a, NoDup (map N.of_nat (seq a k)).
Proof.
  induction k as [|k IH]; intros a; simpl. constructor.
  constructor. 2: apply IH.
  intros Hin. apply in_map_iff in Hin. destruct Hin as (i & Hi & Hin). apply in_seq in Hin. lia.
Qed.

Lemma NoDup_nodes_upto : forall n, NoDup (nodes_upto n).
Proof. intros n. unfold nodes_upto. apply NoDup_map_of_nat. Qed.

Lemma Permutation_concat_rev : forall (A : Type) (l : list (list A)),
  Permutation (concat (rev l)) (concat l).
Proof.
  intros A l. induction l as [|a l IH]; simpl. constructor.
  rewrite concat_app. simpl. rewrite app_nil_r.
  apply Permutation_trans with (a ++ concat (rev l)). apply Permutation_app_comm.
  apply Permutation_app_head. exact IH.
Qed.

(* ------------------------------------------------------------------ tries *)
Lemma find_add_eq : forall (A : Type) (m : PositiveMap.t A) u x,
  PositiveMap.find (N.succ_pos u) (PositiveMap.add (N.succ_pos u) x m) = Some x.
Proof. intros. apply PositiveMap.gss. Qed.

Lemma find_add_neq : forall (A : Type) (m : PositiveMap.t A) u v x, v <> u ->
  PositiveMap.find (N.succ_pos v) (PositiveMap.add (N.succ_pos u) x m) = PositiveMap.find (N.succ_pos v) m.
Proof.
  intros A m u v x H. apply PositiveMap.gso. intros E. apply H. apply succ_pos_inj. exact E.
Qed.

(* ------------------------------------------------------------------ the pieces of the model *)
Lemma mark_done_cons : forall cid a t low comp,
  tj_mark_done cid (a :: t) low comp =
  tj_mark_done cid t (PositiveMap.add (N.succ_pos a) LDone low) (PositiveMap.add (N.succ_pos a) cid comp).
Proof. reflexivity. Qed.

Lemma mark_done_notin : forall cid members low comp v, ~ In v members ->
  PositiveMap.find (N.succ_pos v) (fst (tj_mark_done cid members low comp)) = PositiveMap.find (N.succ_pos v) low.
Proof.
  intros cid members. induction members as [|a t IH]; intros low comp v Hn.
  - reflexivity.
  - rewrite mark_done_cons. rewrite IH.
    + apply find_add_neq. intros E. apply Hn. left. symmetry. exact E.
    + intros H. apply Hn. right. exact H.
Qed.

Lemma mark_done_in : forall cid members low comp v, In v members ->
  PositiveMap.find (N.succ_pos v) (fst (tj_mark_done cid members low comp)) = Some LDone.
Proof.
  intros cid members. induction members as [|a t IH]; intros low comp v Hin.
  - destruct Hin.
  - rewrite mark_done_cons. destruct (in_dec N.eq_dec v t) as [Ht|Ht].
    + apply IH. exact Ht.
    + rewrite mark_done_notin by exact Ht. destruct Hin as [E|Hin].
      * subst a. apply find_add_eq.
      * contradiction.
Qed.

Lemma tj_pop_app : forall nid A B acc, ~ In nid A ->
  tj_pop nid (A ++ nid :: B) acc = (nid :: rev A ++ acc, B).
Proof.
  intros nid A. induction A as [|a A IH]; intros B acc Hn; simpl.
  - rewrite N.eqb_refl. reflexivity.
  - destruct (N.eqb_spec a nid) as [E|E].
    + exfalso. apply Hn. left. exact E.
    + rewrite IH.
      * rewrite <- app_assoc. reflexivity.
      * intros H. apply Hn. right. exact H.
Qed.

Definition tj_enter (st : tj) (nid : N) : tj :=
  mk_tj (PositiveMap.add (N.succ_pos nid) (LIdx (tj_index st)) (tj_low st))
        (nid :: tj_stack st) (tj_slen st + 1) (tj_index st + 1)
        (tj_out st) (tj_comps st) (tj_ncomps st) (tj_comp st) (tj_outs st).

Definition tj_root (edges : bool) (stackPos nid : N) (st1 : tj) : option tj :=
  let cid := tj_ncomps st1 in
  let '(members, rest) := tj_pop nid (tj_stack st1) [] in
  let '(low', comp') := tj_mark_done cid members (tj_low st1) (tj_comp st1) in
  let '(ocs, outrest) := if edges then tj_popout stackPos (tj_out st1) [] else ([], tj_out st1) in
  Some (mk_tj low' rest stackPos (tj_index st1) outrest
              (members :: tj_comps st1) (cid + 1) comp'
              (dedup_adj (isort (rev_append ocs [])) :: tj_outs st1)).

Lemma tj_connect_S : forall out edges f nid st,
  tj_connect out edges (S f) nid st =
  match tj_succs (tj_connect out edges f) edges (tj_slen st) (out nid) (tj_enter st nid) (tj_index st) with
  | None => None
  | Some (st1, mn) =>
      if mn <? tj_index st then Some (tj_setlow st1 nid (LIdx mn))
      else tj_root edges (tj_slen st) nid st1
  end.
Proof. reflexivity. Qed.

Lemma tj_root_spec : forall edges sp nid st1,
  exists members rest o os,
    tj_pop nid (tj_stack st1) [] = (members, rest) /\
    tj_root edges sp nid st1 =
    Some (mk_tj (fst (tj_mark_done (tj_ncomps st1) members (tj_low st1) (tj_comp st1)))
                rest sp (tj_index st1) o (members :: tj_comps st1) (tj_ncomps st1 + 1)
                (snd (tj_mark_done (tj_ncomps st1) members (tj_low st1) (tj_comp st1)))
                (os :: tj_outs st1)).
Proof.
  intros edges sp nid st1. unfold tj_root. cbv zeta.
  destruct (tj_pop nid (tj_stack st1) []) as [members rest].
  destruct (tj_mark_done (tj_ncomps st1) members (tj_low st1) (tj_comp st1)) as [low' comp'] eqn:Emd.
  destruct (if edges then tj_popout sp (tj_out st1) [] else ([], tj_out st1)) as [ocs outrest].
  exists members, rest, outrest, (dedup_adj (isort (rev_append ocs []))).
  split. reflexivity. rewrite Emd. reflexivity.
Qed.

Definition tj_note (edges : bool) (stackPos oid : N) (st1 : tj) : tj :=
  match tj_lowof st1 oid with
  | Some LDone =>
      if edges then
        mk_tj (tj_low st1) (tj_stack st1) (tj_slen st1) (tj_index st1)
              ((tj_compof st1 oid, stackPos) :: tj_out st1)
              (tj_comps st1) (tj_ncomps st1) (tj_comp st1) (tj_outs st1)
      else st1
  | _ => st1
  end.

Definition tj_mn (st1 : tj) (oid mn : N) : N :=
  match tj_lowof st1 oid with Some (LIdx k) => if k <? mn then k else mn | _ => mn end.

Lemma tj_succs_cons : forall rec edges sp oid t st mn,
  tj_succs rec edges sp (oid :: t) st mn =
  match (match tj_lowof st oid with None => rec oid st | Some _ => Some st end) with
  | None => None
  | Some st1 => tj_succs rec edges sp t (tj_note edges sp oid st1) (tj_mn st1 oid mn)
  end.
Proof. reflexivity. Qed.

Lemma lowof_note : forall edges sp oid st1 v, tj_lowof (tj_note edges sp oid st1) v = tj_lowof st1 v.
Proof.
  intros edges sp oid st1 v. unfold tj_note.
  destruct (tj_lowof st1 oid) as [[k|]|]; try reflexivity. destruct edges; reflexivity.
Qed.

Lemma stack_note : forall edges sp oid st1, tj_stack (tj_note edges sp oid st1) = tj_stack st1.
Proof.
  intros edges sp oid st1. unfold tj_note.
  destruct (tj_lowof st1 oid) as [[k|]|]; try reflexivity. destruct edges; reflexivity.
Qed.

Lemma index_note : forall edges sp oid st1, tj_index (tj_note edges sp oid st1) = tj_index st1.
Proof.
  intros edges sp oid st1. unfold tj_note.
  destruct (tj_lowof st1 oid) as [[k|]|]; try reflexivity. destruct edges; reflexivity.
Qed.

Lemma lowof_enter_same : forall st nid, tj_lowof (tj_enter st nid) nid = Some (LIdx (tj_index st)).
Proof. intros. unfold tj_lowof, tj_enter. simpl. apply find_add_eq. Qed.

Lemma lowof_enter_other : forall st nid v, v <> nid -> tj_lowof (tj_enter st nid) v = tj_lowof st v.
Proof. intros st nid v H. unfold tj_lowof, tj_enter. simpl. apply find_add_neq. exact H. Qed.

Lemma lowof_setlow_same : forall st nid x, tj_lowof (tj_setlow st nid x) nid = Some x.
Proof. intros. unfold tj_lowof, tj_setlow. simpl. apply find_add_eq. Qed.

Lemma lowof_setlow_other : forall st nid x v, v <> nid -> tj_lowof (tj_setlow st nid x) v = tj_lowof st v.
Proof. intros st nid x v H. unfold tj_lowof, tj_setlow. simpl. apply find_add_neq. exact H. Qed.

(* ------------------------------------------------------------------ the visited set only grows *)
Definition vle (st st' : tj) : Prop := forall v, tj_lowof st v <> None -> tj_lowof st' v <> None.
Definition unvb (st : tj) (v : N) : bool := match tj_lowof st v with None => true | Some _ => false end.
Definition unv (st : tj) (l : list N) : nat := length (filter (unvb st) l).

Lemma vle_refl : forall st, vle st st.
Proof. intros st v H. exact H. Qed.

Lemma vle_trans : forall a b c, vle a b -> vle b c -> vle a c.
Proof. intros a b c Hab Hbc v H. apply Hbc, Hab, H. Qed.

Lemma vle_enter : forall st nid, vle st (tj_enter st nid).
Proof.
  intros st nid v H. destruct (N.eq_dec v nid) as [E|E].
  - subst v. rewrite lowof_enter_same. discriminate.
  - rewrite lowof_enter_other by exact E. exact H.
Qed.

Lemma vle_setlow : forall st nid x, vle st (tj_setlow st nid x).
Proof.
  intros st nid x v H. destruct (N.eq_dec v nid) as [E|E].
  - subst v. rewrite lowof_setlow_same. discriminate.
  - rewrite lowof_setlow_other by exact E. exact H.
Qed.

Lemma vle_note : forall edges sp oid st, vle st (tj_note edges sp oid st).
Proof. intros edges sp oid st v H. rewrite lowof_note. exact H. Qed.

Lemma vle_root : forall st1 cid members stk sp idx o cs ncs os,
  vle st1 (mk_tj (fst (tj_mark_done cid members (tj_low st1) (tj_comp st1))) stk sp idx o cs ncs
                 (snd (tj_mark_done cid members (tj_low st1) (tj_comp st1))) os).
Proof.
  intros st1 cid members stk sp idx o cs ncs os v H. unfold tj_lowof. simpl.
  destruct (in_dec N.eq_dec v members) as [Hm|Hm].
  - rewrite mark_done_in by exact Hm. discriminate.
  - rewrite mark_done_notin by exact Hm. exact H.
Qed.

Lemma unvb_mono : forall st st' a, vle st st' -> unvb st a = false -> unvb st' a = false.
Proof.
  intros st st' a Hle H. unfold unvb in *.
  destruct (tj_lowof st a) eqn:E1; [|discriminate].
  destruct (tj_lowof st' a) eqn:E2; [reflexivity|].
  exfalso. apply (Hle a). rewrite E1. discriminate. exact E2.
Qed.

Lemma unv_mono : forall st st' l, vle st st' -> (unv st' l <= unv st l)%nat.
Proof.
  intros st st' l Hle. unfold unv. induction l as [|a t IH]; simpl. lia.
  destruct (unvb st a) eqn:Ea.
  - destruct (unvb st' a); simpl; lia.
  - rewrite (unvb_mono st st' a Hle Ea). exact IH.
Qed.

Lemma unv_strict : forall st st' l u, vle st st' -> In u l ->
  tj_lowof st u = None -> tj_lowof st' u <> None -> (unv st' l < unv st l)%nat.
Proof.
  intros st st' l u Hle. induction l as [|a t IH]; intros Hin Hu Hu'.
  - destruct Hin.
  - pose proof (unv_mono st st' t Hle) as Hmono. unfold unv in *. simpl.
    destruct Hin as [Ha|Hin].
    + subst a. assert (E1 : unvb st u = true) by (unfold unvb; rewrite Hu; reflexivity).
      assert (E2 : unvb st' u = false).
      { unfold unvb. destruct (tj_lowof st' u). reflexivity. exfalso. apply Hu'. reflexivity. }
      rewrite E1, E2. simpl. lia.
    + specialize (IH Hin Hu Hu').
      destruct (unvb st a) eqn:Ea.
      * destruct (unvb st' a); simpl; lia.
      * rewrite (unvb_mono st st' a Hle Ea). exact IH.
Qed.

Lemma unv_le_length : forall st l, (unv st l <= length l)%nat.
Proof.
  intros st l. unfold unv. induction l as [|a t IH]; simpl. lia.
  destruct (unvb st a); simpl; lia.
Qed.

(* ------------------------------------------------------------------ P1: enough fuel *)
Section Fuel.
  Variable out : N -> list N.
  Variable edges : bool.
  Variable n : N.
  Hypothesis Hwf : out_wf out n.

  Definition rec_total (f : nat) (rec : N -> tj -> option tj) : Prop :=
    forall r st, r < n -> tj_lowof st r = None -> (unv st (nodes_upto n) <= f)%nat ->
      exists st', rec r st = Some st' /\ vle st st'.

  Lemma succs_total : forall f rec, rec_total f rec ->
    forall sp l st mn, (forall v, In v l -> v < n) -> (unv st (nodes_upto n) <= f)%nat ->
      exists st' mn', tj_succs rec edges sp l st mn = Some (st', mn') /\ vle st st'.
  Proof.
    intros f rec Hrec sp l. induction l as [|oid t IH]; intros st mn Hl Hm.
    - exists st, mn. split. reflexivity. apply vle_refl.
    - rewrite tj_succs_cons.
      assert (Ht : forall v, In v t -> v < n) by (intros v Hv; apply Hl; right; exact Hv).
      destruct (tj_lowof st oid) eqn:Eo.
      + destruct (IH (tj_note edges sp oid st) (tj_mn st oid mn) Ht) as (st' & mn' & Hs & Hle).
        * pose proof (unv_mono st _ (nodes_upto n) (vle_note edges sp oid st)). lia.
        * exists st', mn'. split. exact Hs.
          apply vle_trans with (tj_note edges sp oid st). apply vle_note. exact Hle.
      + destruct (Hrec oid st (Hl oid (or_introl eq_refl)) Eo Hm) as (st1 & Er & Hle1).
        rewrite Er.
        destruct (IH (tj_note edges sp oid st1) (tj_mn st1 oid mn) Ht) as (st' & mn' & Hs & Hle).
        * pose proof (unv_mono st1 _ (nodes_upto n) (vle_note edges sp oid st1)).
          pose proof (unv_mono st st1 (nodes_upto n) Hle1). lia.
        * exists st', mn'. split. exact Hs.
          apply vle_trans with st1. exact Hle1.
          apply vle_trans with (tj_note edges sp oid st1). apply vle_note. exact Hle.
  Qed.

  Lemma connect_total : forall fuel nid st, nid < n -> tj_lowof st nid = None ->
    (unv st (nodes_upto n) <= fuel)%nat ->
    exists st', tj_connect out edges fuel nid st = Some st' /\ vle st st'.
  Proof.
    intros fuel. induction fuel as [|f IHf]; intros nid st Hnid Hu Hm.
    - exfalso.
      assert (Hlt : (unv (tj_enter st nid) (nodes_upto n) < unv st (nodes_upto n))%nat).
      { apply unv_strict with nid. apply vle_enter. apply in_nodes_upto. exact Hnid. exact Hu.
        rewrite lowof_enter_same. discriminate. }
      lia.
    - rewrite tj_connect_S.
      assert (Hlt : (unv (tj_enter st nid) (nodes_upto n) < unv st (nodes_upto n))%nat).
      { apply unv_strict with nid. apply vle_enter. apply in_nodes_upto. exact Hnid. exact Hu.
        rewrite lowof_enter_same. discriminate. }
      assert (Hrec : rec_total f (tj_connect out edges f)).
      { intros r0 st0. apply IHf. }
      destruct (succs_total f _ Hrec (tj_slen st) (out nid) (tj_enter st nid) (tj_index st))
        as (st1 & mn & Es & Hle1).
      + intros v Hv. apply (Hwf nid v Hv).
      + lia.
      + rewrite Es. destruct (mn <? tj_index st).
        * eexists. split. reflexivity.
          apply vle_trans with (tj_enter st nid). apply vle_enter.
          apply vle_trans with st1. exact Hle1. apply vle_setlow.
        * destruct (tj_root_spec edges (tj_slen st) nid st1) as (members & rest & o & os & Hpop & Er).
          rewrite Er. eexists. split. reflexivity.
          apply vle_trans with (tj_enter st nid). apply vle_enter.
          apply vle_trans with st1. exact Hle1. apply vle_root.
  Qed.

  Lemma all_total : forall fuel g nid st, (N.to_nat n <= fuel)%nat ->
    nid + N.of_nat (length g) <= n ->
    exists st', tj_all out edges fuel g nid st = Some st'.
  Proof.
    intros fuel g. induction g as [|a t IH]; intros nid st Hf Hn; simpl.
    - eexists. reflexivity.
    - simpl length in Hn.
      destruct (tj_lowof st nid) eqn:Eo.
      + apply IH. exact Hf. lia.
      + destruct (connect_total fuel nid st) as (st1 & Ec & _).
        * lia.
        * exact Eo.
        * pose proof (unv_le_length st (nodes_upto n)) as H. rewrite length_nodes_upto in H. lia.
        * rewrite Ec. apply IH. exact Hf. lia.
  Qed.
End Fuel.

Theorem tarjan_run_terminates : forall out n edges g, out_wf out n -> g_n g = n ->
  exists st, tj_all out edges (S (length g)) g 0 tj_init = Some st.
Proof.
  intros out n edges g Hwf Hn. apply (all_total out edges n Hwf).
  - subst n. unfold g_n. rewrite Nat2N.id. lia.
  - subst n. unfold g_n. lia.
Qed.

Theorem tarjan_terminates : forall g edges, g_wf g -> exists res, tarjan g edges = Some res.
Proof.
  intros g edges Hwf. unfold tarjan, tarjan_run.
  destruct (tarjan_run_terminates (g_out g) (g_n g) edges g Hwf eq_refl) as (st & Hs).
  rewrite Hs. eexists. reflexivity.
Qed.


(* ------------------------------------------------------------------ P2: a partition *)
(* lower bound on the index values stored in low[] *)
Definition LB (b : N) (st : tj) : Prop := forall v k, tj_lowof st v = Some (LIdx k) -> b <= k.

Section LowerBound.
  Variable out : N -> list N.
  Variable edges : bool.
  Variable b : N.

  Definition rec_lb (rec : N -> tj -> option tj) : Prop :=
    forall r st st', rec r st = Some st' -> b <= tj_index st -> LB b st ->
      LB b st' /\ tj_index st <= tj_index st'.

  Lemma LB_note : forall sp oid st, LB b st -> LB b (tj_note edges sp oid st).
  Proof. intros sp oid st H v k Hk. rewrite lowof_note in Hk. exact (H v k Hk). Qed.

  Lemma succs_LB : forall rec, rec_lb rec -> forall sp l st mn st' mn',
    tj_succs rec edges sp l st mn = Some (st', mn') ->
    b <= tj_index st -> LB b st -> b <= mn ->
    LB b st' /\ tj_index st <= tj_index st' /\ b <= mn'.
  Proof.
    intros rec Hrec sp l. induction l as [|oid t IH]; intros st mn st' mn' Hs Hb Hlb Hmn.
    - simpl in Hs. inversion Hs; subst. split. exact Hlb. split. lia. exact Hmn.
    - rewrite tj_succs_cons in Hs.
      assert (Hstep : forall st1, LB b st1 -> b <= tj_mn st1 oid mn).
      { intros st1 H1. unfold tj_mn. destruct (tj_lowof st1 oid) as [[k|]|] eqn:Ek; try exact Hmn.
        destruct (k <? mn). exact (H1 oid k Ek). exact Hmn. }
      destruct (tj_lowof st oid) eqn:Eo.
      + destruct (IH _ _ _ _ Hs) as (H1 & H2 & H3).
        * rewrite index_note. exact Hb.
        * apply LB_note. exact Hlb.
        * apply Hstep. exact Hlb.
        * rewrite index_note in H2. split. exact H1. split. exact H2. exact H3.
      + destruct (rec oid st) as [st1|] eqn:Er; [|discriminate].
        destruct (Hrec oid st st1 Er Hb Hlb) as (Hlb1 & Hi1).
        destruct (IH _ _ _ _ Hs) as (H1 & H2 & H3).
        * rewrite index_note. lia.
        * apply LB_note. exact Hlb1.
        * apply Hstep. exact Hlb1.
        * rewrite index_note in H2. split. exact H1. split. lia. exact H3.
  Qed.

  Lemma LB_enter : forall st nid, b <= tj_index st -> LB b st -> LB b (tj_enter st nid).
  Proof.
    intros st nid Hb Hlb v k Hk. destruct (N.eq_dec v nid) as [E|E].
    - subst v. rewrite lowof_enter_same in Hk. inversion Hk; subst. exact Hb.
    - rewrite lowof_enter_other in Hk by exact E. exact (Hlb v k Hk).
  Qed.

  Lemma connect_LB : forall fuel, rec_lb (tj_connect out edges fuel).
  Proof.
    intros fuel. induction fuel as [|f IHf]; intros nid st st' Hc Hb Hlb.
    - discriminate Hc.
    - rewrite tj_connect_S in Hc.
      destruct (tj_succs (tj_connect out edges f) edges (tj_slen st) (out nid) (tj_enter st nid) (tj_index st))
        as [[st1 mn]|] eqn:Es; [|discriminate].
      destruct (succs_LB _ IHf _ _ _ _ _ _ Es) as (Hlb1 & Hi1 & Hmn).
      + unfold tj_enter; simpl. lia.
      + apply LB_enter; assumption.
      + exact Hb.
      + assert (Hi : tj_index st <= tj_index st1) by (unfold tj_enter in Hi1; simpl in Hi1; lia).
        destruct (mn <? tj_index st).
        * inversion Hc; subst st'. split.
          -- intros v k Hk. destruct (N.eq_dec v nid) as [E|E].
             ++ subst v. rewrite lowof_setlow_same in Hk. inversion Hk; subst. exact Hmn.
             ++ rewrite lowof_setlow_other in Hk by exact E. exact (Hlb1 v k Hk).
          -- unfold tj_setlow; simpl. exact Hi.
        * destruct (tj_root_spec edges (tj_slen st) nid st1) as (members & rest & o & os & Hpop & Er).
          rewrite Er in Hc. inversion Hc; subst st'. split.
          -- intros v k Hk. unfold tj_lowof in Hk. simpl in Hk.
             destruct (in_dec N.eq_dec v members) as [Hm|Hm].
             ++ rewrite mark_done_in in Hk by exact Hm. discriminate.
             ++ rewrite mark_done_notin in Hk by exact Hm. exact (Hlb1 v k Hk).
          -- simpl. exact Hi.
  Qed.
End LowerBound.

Section Partition.
  Variable out : N -> list N.
  Variable edges : bool.
  Variable n : N.
  Hypothesis Hwf : out_wf out n.

  Record Inv (st : tj) : Prop := mk_Inv {
    inv_nd_stack : NoDup (tj_stack st);
    inv_nd_comps : NoDup (concat (tj_comps st));
    inv_stack : forall v, In v (tj_stack st) <-> exists k, tj_lowof st v = Some (LIdx k);
    inv_comps : forall v, In v (concat (tj_comps st)) <-> tj_lowof st v = Some LDone;
    inv_lt : forall v, tj_lowof st v <> None -> v < n;
    inv_nonempty : forall l, In l (tj_comps st) -> l <> [];
    inv_outs : length (tj_outs st) = length (tj_comps st)
  }.

  Lemma Inv_intro : forall low stack slen index o comps ncomps comp outs,
    NoDup stack -> NoDup (concat comps) ->
    (forall v, In v stack <-> exists k, PositiveMap.find (N.succ_pos v) low = Some (LIdx k)) ->
    (forall v, In v (concat comps) <-> PositiveMap.find (N.succ_pos v) low = Some LDone) ->
    (forall v, PositiveMap.find (N.succ_pos v) low <> None -> v < n) ->
    (forall l, In l comps -> l <> []) ->
    length outs = length comps ->
    Inv (mk_tj low stack slen index o comps ncomps comp outs).
  Proof. intros. constructor; assumption. Qed.

  Lemma Inv_init : Inv tj_init.
  Proof.
    unfold tj_init. apply Inv_intro.
    - constructor.
    - constructor.
    - intros v. rewrite PositiveMap.gempty. split. intros []. intros [k Hk]. discriminate.
    - intros v. rewrite PositiveMap.gempty. split. intros []. intros Hk. discriminate.
    - intros v. rewrite PositiveMap.gempty. intros H. exfalso. apply H. reflexivity.
    - intros l [].
    - reflexivity.
  Qed.

  Lemma Inv_enter : forall st nid, Inv st -> nid < n -> tj_lowof st nid = None -> Inv (tj_enter st nid).
  Proof.
    intros st nid Hinv Hnid Hnone. destruct Hinv as [H1 H2 H3 H4 H5 H6 H7].
    unfold tj_enter. apply Inv_intro.
    - constructor; [|exact H1]. intros Hin. apply H3 in Hin. destruct Hin as [k Hk].
      rewrite Hnone in Hk. discriminate.
    - exact H2.
    - intros v. destruct (N.eq_dec v nid) as [E|E].
      + subst v. rewrite find_add_eq. split.
        * intros _. eexists. reflexivity.
        * intros _. left. reflexivity.
      + rewrite find_add_neq by exact E. split.
        * intros [Hc|Hin]. congruence. apply H3. exact Hin.
        * intros Hk. right. apply H3. exact Hk.
    - intros v. destruct (N.eq_dec v nid) as [E|E].
      + subst v. rewrite find_add_eq. split.
        * intros Hin. apply H4 in Hin. rewrite Hnone in Hin. discriminate.
        * intros Hc. discriminate.
      + rewrite find_add_neq by exact E. apply H4.
    - intros v. destruct (N.eq_dec v nid) as [E|E].
      + subst v. intros _. exact Hnid.
      + rewrite find_add_neq by exact E. apply H5.
    - exact H6.
    - exact H7.
  Qed.

  Lemma Inv_setlow : forall st1 nid mn, Inv st1 -> (exists k, tj_lowof st1 nid = Some (LIdx k)) ->
    Inv (tj_setlow st1 nid (LIdx mn)).
  Proof.
    intros st1 nid mn Hinv [k0 Hk0]. destruct Hinv as [H1 H2 H3 H4 H5 H6 H7].
    unfold tj_setlow. apply Inv_intro.
    - exact H1.
    - exact H2.
    - intros v. destruct (N.eq_dec v nid) as [E|E].
      + subst v. rewrite find_add_eq. split.
        * intros _. eexists. reflexivity.
        * intros _. apply H3. exists k0. exact Hk0.
      + rewrite find_add_neq by exact E. apply H3.
    - intros v. destruct (N.eq_dec v nid) as [E|E].
      + subst v. rewrite find_add_eq. split.
        * intros Hin. apply H4 in Hin. rewrite Hk0 in Hin. discriminate.
        * intros Hc. discriminate.
      + rewrite find_add_neq by exact E. apply H4.
    - intros v. destruct (N.eq_dec v nid) as [E|E].
      + subst v. intros _. apply H5. rewrite Hk0. discriminate.
      + rewrite find_add_neq by exact E. apply H5.
    - exact H6.
    - exact H7.
  Qed.

  Lemma Inv_note : forall sp oid st1, Inv st1 -> Inv (tj_note edges sp oid st1).
  Proof.
    intros sp oid st1 Hinv. unfold tj_note.
    destruct (tj_lowof st1 oid) as [[k|]|]; try exact Hinv.
    destruct edges; try exact Hinv.
    destruct Hinv as [H1 H2 H3 H4 H5 H6 H7]. apply Inv_intro; assumption.
  Qed.

  Lemma Inv_root : forall st1 top nid stk cid sp idx o ncs os,
    Inv st1 -> tj_stack st1 = top ++ nid :: stk ->
    Inv (mk_tj (fst (tj_mark_done cid (nid :: rev top ++ []) (tj_low st1) (tj_comp st1)))
               stk sp idx o ((nid :: rev top ++ []) :: tj_comps st1) ncs
               (snd (tj_mark_done cid (nid :: rev top ++ []) (tj_low st1) (tj_comp st1)))
               (os :: tj_outs st1)).
  Proof.
    intros st1 top nid stk cid sp idx o ncs os Hinv Hstk.
    destruct Hinv as [H1 H2 H3 H4 H5 H6 H7].
    set (M := nid :: rev top ++ []).
    assert (HM : forall v, In v M <-> v = nid \/ In v top).
    { intros v. unfold M. rewrite app_nil_r. simpl. rewrite <- in_rev.
      split; intros [E|E]; auto. }
    rewrite Hstk in H1. apply NoDup_app_iff in H1. destruct H1 as (Ha & Hb & Hc).
    inversion Hb as [|x l Hnn Hnd]; subst x l.
    assert (HMstk : forall v, In v M -> ~ In v stk).
    { intros v Hv Hs. apply HM in Hv. destruct Hv as [E|Hv].
      - subst v. exact (Hnn Hs).
      - exact (Hc v Hv (or_intror Hs)). }
    assert (HMin : forall v, In v M -> In v (tj_stack st1)).
    { rewrite Hstk. intros v Hv. apply HM in Hv. apply in_or_app. destruct Hv as [E|Hv].
      - right. left. symmetry. exact E.
      - left. exact Hv. }
    assert (HstkM : forall v, In v (tj_stack st1) -> In v M \/ In v stk).
    { rewrite Hstk. intros v Hv. apply in_app_or in Hv. destruct Hv as [Hv|[E|Hv]].
      - left. apply HM. right. exact Hv.
      - left. apply HM. left. symmetry. exact E.
      - right. exact Hv. }
    assert (HndM : NoDup M).
    { unfold M. rewrite app_nil_r. constructor.
      - rewrite <- in_rev. intros Hin. apply (Hc nid Hin). left. reflexivity.
      - apply (Permutation_NoDup (Permutation_rev top)). exact Ha. }
    apply Inv_intro.
    - exact Hnd.
    - change (NoDup (M ++ concat (tj_comps st1))). apply NoDup_app_iff. split. exact HndM. split. exact H2.
      intros x Hx Hx2. apply HMin in Hx. apply H3 in Hx. destruct Hx as [k Hk].
      apply H4 in Hx2. rewrite Hk in Hx2. discriminate.
    - intros v. destruct (in_dec N.eq_dec v M) as [Hm|Hm].
      + rewrite mark_done_in by exact Hm. split.
        * intros Hs. exfalso. exact (HMstk v Hm Hs).
        * intros [k Hk]. discriminate.
      + rewrite mark_done_notin by exact Hm. split.
        * intros Hs. apply H3. rewrite Hstk. apply in_or_app. right. right. exact Hs.
        * intros Hk. apply H3 in Hk. apply HstkM in Hk. destruct Hk as [Hk|Hk].
          contradiction. exact Hk.
    - intros v. change (concat (M :: tj_comps st1)) with (M ++ concat (tj_comps st1)).
      rewrite in_app_iff. destruct (in_dec N.eq_dec v M) as [Hm|Hm].
      + rewrite mark_done_in by exact Hm. split.
        * intros _. reflexivity.
        * intros _. left. exact Hm.
      + rewrite mark_done_notin by exact Hm. split.
        * intros [Hc'|Hc']. contradiction. apply H4. exact Hc'.
        * intros Hd. right. apply H4. exact Hd.
    - intros v. destruct (in_dec N.eq_dec v M) as [Hm|Hm].
      + intros _. apply H5. apply HMin in Hm. apply H3 in Hm. destruct Hm as [k Hk].
        rewrite Hk. discriminate.
      + rewrite mark_done_notin by exact Hm. apply H5.
    - intros l [E|Hl].
      + subst l. unfold M. discriminate.
      + apply H6. exact Hl.
    - simpl. rewrite H7. reflexivity.
  Qed.

  Definition post (st st' : tj) : Prop :=
    Inv st' /\ (exists top, tj_stack st' = top ++ tj_stack st) /\ vle st st'.

  Definition rec_ok (rec : N -> tj -> option tj) : Prop :=
    forall r st st', r < n -> tj_lowof st r = None -> Inv st -> rec r st = Some st' -> post st st'.

  Lemma succs_inv : forall rec, rec_ok rec -> forall sp l st mn st' mn',
    (forall v, In v l -> v < n) -> Inv st ->
    tj_succs rec edges sp l st mn = Some (st', mn') -> post st st'.
  Proof.
    intros rec Hrec sp l. induction l as [|oid t IH]; intros st mn st' mn' Hl Hinv Hs.
    - simpl in Hs. inversion Hs; subst. split. exact Hinv. split. exists []. reflexivity. apply vle_refl.
    - rewrite tj_succs_cons in Hs.
      assert (Ht : forall v, In v t -> v < n) by (intros v Hv; apply Hl; right; exact Hv).
      destruct (tj_lowof st oid) eqn:Eo.
      + destruct (IH _ _ _ _ Ht (Inv_note sp oid st Hinv) Hs) as (Hi & (top & Htop) & Hle).
        split. exact Hi. split.
        * exists top. rewrite Htop. rewrite stack_note. reflexivity.
        * intros v Hv. apply Hle. rewrite lowof_note. exact Hv.
      + destruct (rec oid st) as [st1|] eqn:Er; [|discriminate].
        destruct (Hrec oid st st1 (Hl oid (or_introl eq_refl)) Eo Hinv Er) as (Hi1 & (top1 & Htop1) & Hle1).
        destruct (IH _ _ _ _ Ht (Inv_note sp oid st1 Hi1) Hs) as (Hi & (top & Htop) & Hle).
        split. exact Hi. split.
        * exists (top ++ top1). rewrite Htop, stack_note, Htop1. apply app_assoc.
        * intros v Hv. apply Hle. rewrite lowof_note. apply Hle1. exact Hv.
  Qed.

  Lemma connect_inv : forall fuel nid st st', nid < n -> tj_lowof st nid = None -> Inv st ->
    tj_connect out edges fuel nid st = Some st' ->
    post st st' /\ tj_lowof st' nid <> None /\ (LB (tj_index st) st -> tj_stack st' = tj_stack st).
  Proof.
    intros fuel. induction fuel as [|f IHf]; intros nid st st' Hnid Hnone Hinv Hc.
    - discriminate Hc.
    - rewrite tj_connect_S in Hc.
      destruct (tj_succs (tj_connect out edges f) edges (tj_slen st) (out nid) (tj_enter st nid) (tj_index st))
        as [[st1 mn]|] eqn:Es; [|discriminate].
      assert (Hrec : rec_ok (tj_connect out edges f)).
      { intros r s s' Hr1 Hr2 Hr3 Hr4. exact (proj1 (IHf r s s' Hr1 Hr2 Hr3 Hr4)). }
      assert (Hinv0 : Inv (tj_enter st nid)) by (apply Inv_enter; assumption).
      assert (Hl : forall v, In v (out nid) -> v < n) by (intros v Hv; exact (Hwf nid v Hv)).
      destruct (succs_inv _ Hrec _ _ _ _ _ _ Hl Hinv0 Es) as (Hinv1 & (top & Htop) & Hle1).
      change (tj_stack (tj_enter st nid)) with (nid :: tj_stack st) in Htop.
      assert (Hnid1 : exists k, tj_lowof st1 nid = Some (LIdx k)).
      { apply (inv_stack st1 Hinv1). rewrite Htop. apply in_or_app. right. left. reflexivity. }
      assert (Hle : vle st st1).
      { apply vle_trans with (tj_enter st nid). apply vle_enter. exact Hle1. }
      destruct (mn <? tj_index st) eqn:Emn.
      + inversion Hc; subst st'. split; [split; [|split]|split].
        * apply Inv_setlow; assumption.
        * exists (top ++ [nid]). change (tj_stack (tj_setlow st1 nid (LIdx mn))) with (tj_stack st1).
          rewrite Htop, <- app_assoc. reflexivity.
        * apply vle_trans with st1. exact Hle. apply vle_setlow.
        * rewrite lowof_setlow_same. discriminate.
        * intros Hlb. exfalso.
          destruct (succs_LB edges (tj_index st) _ (connect_LB out edges (tj_index st) f) _ _ _ _ _ _ Es)
            as (_ & _ & Hmn).
          -- unfold tj_enter; simpl. lia.
          -- apply LB_enter. lia. exact Hlb.
          -- lia.
          -- apply N.ltb_lt in Emn. lia.
      + destruct (tj_root_spec edges (tj_slen st) nid st1) as (members & rest & o & os & Hpop & Er).
        rewrite Er in Hc. inversion Hc; subst st'. clear Hc Er.
        assert (Hn : ~ In nid top).
        { pose proof (inv_nd_stack st1 Hinv1) as Hnd. rewrite Htop in Hnd.
          apply NoDup_remove_2 in Hnd. intros Hin. apply Hnd. apply in_or_app. left. exact Hin. }
        rewrite Htop, tj_pop_app in Hpop by exact Hn. inversion Hpop; subst members rest. clear Hpop.
        split; [split; [|split]|split].
        * apply Inv_root; assumption.
        * exists []. reflexivity.
        * apply vle_trans with st1. exact Hle. apply vle_root.
        * unfold tj_lowof. simpl. rewrite mark_done_in. discriminate. left. reflexivity.
        * intros _. reflexivity.
  Qed.

  Lemma all_inv : forall fuel g nid st st',
    tj_all out edges fuel g nid st = Some st' ->
    Inv st -> tj_stack st = [] -> nid + N.of_nat (length g) = n ->
    (forall v, v < nid -> tj_lowof st v <> None) ->
    Inv st' /\ tj_stack st' = [] /\ (forall v, v < n -> tj_lowof st' v <> None).
  Proof.
    intros fuel g. induction g as [|a t IH]; intros nid st st' Ha Hinv Hemp Hn Hvis.
    - simpl in Ha. inversion Ha; subst st'. simpl in Hn.
      split. exact Hinv. split. exact Hemp. intros v Hv. apply Hvis. lia.
    - simpl in Ha. simpl length in Hn.
      destruct (tj_lowof st nid) eqn:Eo.
      + apply (IH (nid + 1) st st' Ha Hinv Hemp). lia.
        intros v Hv. destruct (N.eq_dec v nid) as [E|E].
        * subst v. rewrite Eo. discriminate.
        * apply Hvis. lia.
      + destruct (tj_connect out edges fuel nid st) as [st1|] eqn:Ec; [|discriminate].
        assert (Hnid : nid < n) by lia.
        destruct (connect_inv fuel nid st st1 Hnid Eo Hinv Ec) as ((Hinv1 & _ & Hle) & Hv1 & Hstk).
        assert (Hlb : LB (tj_index st) st).
        { intros v k Hk. exfalso.
          assert (Hin : In v (tj_stack st)) by (apply (inv_stack st Hinv); exists k; exact Hk).
          rewrite Hemp in Hin. destruct Hin. }
        apply (IH (nid + 1) st1 st' Ha Hinv1).
        * rewrite (Hstk Hlb). exact Hemp.
        * lia.
        * intros v Hv. destruct (N.eq_dec v nid) as [E|E].
          -- subst v. exact Hv1.
          -- apply Hle. apply Hvis. lia.
  Qed.

  Lemma run_partition : forall fuel g st, N.of_nat (length g) = n ->
    tj_all out edges fuel g 0 tj_init = Some st ->
    Permutation (concat (tj_comps st)) (nodes_upto n) /\
    (forall l, In l (tj_comps st) -> l <> []) /\
    length (tj_outs st) = length (tj_comps st).
  Proof.
    intros fuel g st Hn Ha.
    destruct (all_inv fuel g 0 tj_init st Ha Inv_init eq_refl) as (Hinv & Hemp & Hall).
    - lia.
    - intros v Hv. lia.
    - split; [|split].
      + apply NoDup_Permutation.
        * exact (inv_nd_comps st Hinv).
        * apply NoDup_nodes_upto.
        * intros v. rewrite in_nodes_upto. split.
          -- intros Hin. apply (inv_lt st Hinv). apply (inv_comps st Hinv) in Hin.
             rewrite Hin. discriminate.
          -- intros Hv. apply (inv_comps st Hinv).
             destruct (tj_lowof st v) as [[k|]|] eqn:El.
             ++ exfalso. assert (Hin : In v (tj_stack st)) by (apply (inv_stack st Hinv); exists k; exact El).
                rewrite Hemp in Hin. destruct Hin.
             ++ reflexivity.
             ++ exfalso. exact (Hall v Hv El).
      + exact (inv_nonempty st Hinv).
      + exact (inv_outs st Hinv).
  Qed.
End Partition.

Theorem tarjan_run_partition : forall out n edges g st, out_wf out n -> g_n g = n ->
  tarjan_run out edges g = Some st ->
  Permutation (concat (tj_comps st)) (nodes_upto n) /\
  (forall l, In l (tj_comps st) -> l <> []) /\
  length (tj_outs st) = length (tj_comps st).
Proof.
  intros out n edges g st Hwf Hn Hr. unfold tarjan_run in Hr.
  apply (run_partition out edges n Hwf (S (length g)) g st). exact Hn. exact Hr.
Qed.

Theorem tarjan_partition : forall g edges comps outs, g_wf g ->
  tarjan g edges = Some (comps, outs) ->
  Permutation (concat comps) (nodes_upto (g_n g)) /\
  (forall l, In l comps -> l <> []) /\
  length outs = length comps.
Proof.
  intros g edges comps outs Hwf Ht. unfold tarjan in Ht.
  destruct (tarjan_run (g_out g) edges g) as [st|] eqn:Er; [|discriminate].
  inversion Ht; subst comps outs. clear Ht.
  destruct (tarjan_run_partition (g_out g) (g_n g) edges g st Hwf eq_refl Er) as (Hp & Hne & Hlen).
  rewrite <- !rev_alt. split; [|split].
  - apply Permutation_trans with (concat (tj_comps st)). apply Permutation_concat_rev. exact Hp.
  - intros l Hl. apply Hne. apply in_rev. exact Hl.
  - rewrite !rev_length. exact Hlen.
Qed.

Print Assumptions tarjan_run_terminates.
Print Assumptions tarjan_terminates.
Print Assumptions tarjan_run_partition.
Print Assumptions tarjan_partition.

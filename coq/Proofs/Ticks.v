(* Proofs/Ticks.v — C17, part 1: TickOptions.FindLevel (ticks.go:56-101) for EVERY count
   function, every guess and every level window. *)
From Coq Require Import Lia ZArith.
From MM Require Import Base.Num Model.Ticks.
Local Open Scope Z_scope.

Section FindLevel.
Variable cnt : Z -> Z.
Variable mx : Z.

(* going down from l: stops at the first level (or below lo) that does not fit *)
Lemma fl_down_spec lo : forall fuel l, lo - 1 <= l -> (Z.to_nat (l - lo + 1) < fuel)%nat ->
  exists r, fl_down fuel cnt mx lo l = FL_ok r /\ lo <= r <= l + 1 /\
            (forall k, r <= k <= l -> cnt k <= mx) /\ (r = lo \/ mx < cnt (r - 1)).
Proof.
  induction fuel as [|fuel IH]; intros l Hl Hf; [lia|]. cbn [fl_down].
  destruct ((lo <=? l) && (cnt l <=? mx)) eqn:E.
  - apply andb_true_iff in E. destruct E as [E1 E2]. apply Z.leb_le in E1, E2.
    destruct (IH (l - 1)) as (r & Hr & Hb & Hall & Hend); [lia | lia |].
    exists r. split; [exact Hr|]. split; [lia|]. split; [|exact Hend].
    intros k Hk. destruct (Z.eq_dec k l) as [->|]; [exact E2 | apply Hall; lia].
  - exists (l + 1). split; [reflexivity|]. split; [lia|]. split; [intros; lia|].
    apply andb_false_iff in E. destruct E as [E|E].
    + apply Z.leb_gt in E. left. lia.
    + apply Z.leb_gt in E. right. replace (l + 1 - 1) with l by lia. exact E.
Qed.

(* going up from l: the first level that fits, or failure when none up to hi does *)
Lemma fl_up_spec hi : forall fuel l, l <= hi + 1 -> (Z.to_nat (hi - l + 1) < fuel)%nat ->
  (exists r, fl_up fuel cnt mx hi l = FL_ok r /\ l <= r <= hi /\ cnt r <= mx /\
             forall k, l <= k < r -> mx < cnt k) \/
  (fl_up fuel cnt mx hi l = FL_fail /\ forall k, l <= k <= hi -> mx < cnt k).
Proof.
  induction fuel as [|fuel IH]; intros l Hl Hf; [lia|]. cbn [fl_up].
  destruct ((l <=? hi) && (mx <? cnt l)) eqn:E.
  - apply andb_true_iff in E. destruct E as [E1 E2]. apply Z.leb_le in E1. apply Z.ltb_lt in E2.
    destruct (IH (l + 1)) as [(r & Hr & Hb & Hfit & Hall)|[Hr Hall]]; [lia | lia | |].
    + left. exists r. split; [exact Hr|]. split; [lia|]. split; [exact Hfit|].
      intros k Hk. destruct (Z.eq_dec k l) as [->|]; [exact E2 | apply Hall; lia].
    + right. split; [exact Hr|]. intros k Hk. destruct (Z.eq_dec k l) as [->|]; [exact E2 | apply Hall; lia].
  - destruct (hi <? l) eqn:H.
    + apply Z.ltb_lt in H. right. split; [reflexivity|]. intros; lia.
    + apply Z.ltb_ge in H. left. exists l. split; [reflexivity|]. split; [lia|].
      apply andb_false_iff in E. destruct E as [E|E]; [apply Z.leb_gt in E; lia|].
      apply Z.ltb_ge in E. split; [exact E | intros; lia].
Qed.
End FindLevel.

(* the count function is non-increasing on the level window *)
Definition nonincreasing (cnt : Z -> Z) (lo hi : Z) : Prop :=
  forall a b, lo <= a -> a <= b -> b <= hi -> cnt b <= cnt a.

Definition start_level (lo hi guess : Z) : Z := if guess <? lo then lo else if hi <? guess then hi else guess.
Lemma start_level_in lo hi g : lo <= hi -> lo <= start_level lo hi g <= hi.
Proof. intros H. unfold start_level. destruct (g <? lo) eqn:A; [lia|]. apply Z.ltb_ge in A.
  destruct (hi <? g) eqn:B; [lia|]. apply Z.ltb_ge in B. lia. Qed.

Lemma level_bounds_ordered o lo hi : level_bounds o = Some (lo, hi) -> lo <= hi.
Proof. unfold level_bounds. destruct (_ && _); [intros [= <- <-]; lia|].
  destruct (o_maxlevel o <? o_minlevel o) eqn:E; [discriminate|]. apply Z.ltb_ge in E. intros [= <- <-]. exact E. Qed.

(* complete description of the outcome, for ANY count function (monotone or not): from the
   (clamped) starting level s, if s fits the result is the bottom of the run of fitting
   levels that contains s; otherwise it is the first fitting level above s, or failure. *)
Lemma find_level_outcome o cnt guess lo hi :
  level_bounds o = Some (lo, hi) -> 1 <= o_max o ->
  let s := start_level lo hi guess in
  (cnt s <= o_max o /\ exists r, find_level o cnt guess = FL_ok r /\ lo <= r <= s /\
       (forall k, r <= k <= s -> cnt k <= o_max o) /\ (r = lo \/ o_max o < cnt (r - 1))) \/
  (o_max o < cnt s /\ exists r, find_level o cnt guess = FL_ok r /\ s < r <= hi /\ cnt r <= o_max o /\
       forall k, s <= k < r -> o_max o < cnt k) \/
  (o_max o < cnt s /\ find_level o cnt guess = FL_fail /\ forall k, s <= k <= hi -> o_max o < cnt k).
Proof.
  intros Hb Hm s. pose proof (level_bounds_ordered o lo hi Hb) as Hlh.
  pose proof (start_level_in lo hi guess Hlh) as Hs. fold s in Hs.
  unfold find_level. rewrite Hb. replace (o_max o <? 1) with false by (symmetry; apply Z.ltb_ge; lia).
  change (if guess <? lo then lo else if hi <? guess then hi else guess) with s.
  destruct (cnt s <=? o_max o) eqn:E.
  - apply Z.leb_le in E. left. split; [exact E|].
    destruct (fl_down_spec cnt (o_max o) lo (fl_fuel lo hi) (s - 1)) as (r & Hr & Hrb & Hall & Hend);
      [lia | unfold fl_fuel; lia |].
    exists r. split; [exact Hr|]. split; [lia|]. split; [|exact Hend].
    intros k Hk. destruct (Z.eq_dec k s) as [->|]; [exact E | apply Hall; lia].
  - apply Z.leb_gt in E. right.
    destruct (fl_up_spec cnt (o_max o) hi (fl_fuel lo hi) (s + 1)) as [(r & Hr & Hrb & Hfit & Hall)|[Hr Hall]];
      [lia | unfold fl_fuel; lia | |].
    + left. split; [exact E|]. exists r. split; [exact Hr|]. split; [lia|]. split; [exact Hfit|].
      intros k Hk. destruct (Z.eq_dec k s) as [->|]; [exact E | apply Hall; lia].
    + right. split; [exact E|]. split; [exact Hr|].
      intros k Hk. destruct (Z.eq_dec k s) as [->|]; [exact E | apply Hall; lia].
Qed.

(* the search never runs out of fuel: the model's loops terminate like the code's *)
Lemma find_level_no_fuel o cnt guess : find_level o cnt guess <> FL_fuel.
Proof.
  destruct (level_bounds o) as [[lo hi]|] eqn:Hb.
  - destruct (Z_lt_le_dec (o_max o) 1) as [Hm|Hm].
    + unfold find_level. rewrite Hb. replace (o_max o <? 1) with true by (symmetry; apply Z.ltb_lt; lia). discriminate.
    + destruct (find_level_outcome o cnt guess lo hi Hb Hm) as [[_ (r & -> & _)]|[[_ (r & -> & _)]|[_ [-> _]]]]; discriminate.
  - unfold find_level. rewrite Hb. discriminate.
Qed.

(* FindLevel returns the LOWEST level of the window with count <= Max, for every
   non-increasing count function and every guess *)
Theorem find_level_lowest o cnt guess lo hi l :
  level_bounds o = Some (lo, hi) -> nonincreasing cnt lo hi ->
  find_level o cnt guess = FL_ok l ->
  lo <= l <= hi /\ cnt l <= o_max o /\ forall l', lo <= l' < l -> o_max o < cnt l'.
Proof.
  intros Hb Hmono H.
  destruct (Z_lt_le_dec (o_max o) 1) as [Hm|Hm].
  { unfold find_level in H. rewrite Hb in H. replace (o_max o <? 1) with true in H by (symmetry; apply Z.ltb_lt; lia). discriminate. }
  pose proof (level_bounds_ordered o lo hi Hb) as Hlh.
  pose proof (start_level_in lo hi guess Hlh) as Hs.
  destruct (find_level_outcome o cnt guess lo hi Hb Hm) as [[Hfit (r & Hr & Hrb & Hall & Hend)]|[[Hfit (r & Hr & Hrb & Hrfit & Hall)]|[_ [Hr _]]]];
    rewrite Hr in H; try discriminate; injection H as <-.
  - split; [lia|]. split; [apply Hall; lia|]. intros l' Hl'.
    destruct Hend as [->|Hend]; [lia|].
    assert (cnt (r - 1) <= cnt l') by (apply Hmono; lia). lia.
  - split; [lia|]. split; [exact Hrfit|]. intros l' Hl'.
    destruct (Z_lt_le_dec l' (start_level lo hi guess)) as [A|A]; [|apply Hall; lia].
    assert (cnt (start_level lo hi guess) <= cnt l') by (apply Hmono; lia). lia.
Qed.

(* ... and reports failure exactly when Max < 1, or the window is empty, or no level of
   the window fits; independently of the guess *)
Theorem find_level_fails_iff o cnt guess :
  (forall lo hi, level_bounds o = Some (lo, hi) -> nonincreasing cnt lo hi) ->
  (find_level o cnt guess = FL_fail <->
   o_max o < 1 \/ level_bounds o = None \/
   exists lo hi, level_bounds o = Some (lo, hi) /\ forall l, lo <= l <= hi -> o_max o < cnt l).
Proof.
  intros Hmono. destruct (level_bounds o) as [[lo hi]|] eqn:Hb.
  2:{ unfold find_level. rewrite Hb. split; [intros _; right; left; reflexivity | reflexivity]. }
  destruct (Z_lt_le_dec (o_max o) 1) as [Hm|Hm].
  { unfold find_level. rewrite Hb. replace (o_max o <? 1) with true by (symmetry; apply Z.ltb_lt; lia).
    split; [intros _; left; exact Hm | reflexivity]. }
  specialize (Hmono lo hi eq_refl).
  pose proof (level_bounds_ordered o lo hi Hb) as Hlh.
  pose proof (start_level_in lo hi guess Hlh) as Hs.
  destruct (find_level_outcome o cnt guess lo hi Hb Hm) as [[Hfit (r & Hr & Hrb & Hall & Hend)]|[[Hfit (r & Hr & Hrb & Hrfit & Hall)]|[Hfit [Hr Hall]]]];
    rewrite Hr.
  - split; [discriminate|]. intros [A|[A|(lo' & hi' & E & A)]]; [lia | discriminate |].
    injection E as <- <-. specialize (A (start_level lo hi guess) Hs). lia.
  - split; [discriminate|]. intros [A|[A|(lo' & hi' & E & A)]]; [lia | discriminate |].
    injection E as <- <-. assert (o_max o < cnt r) by (apply A; lia). lia.
  - split; [|reflexivity]. intros _. right. right. exists lo, hi. split; [reflexivity|].
    intros l Hl. destruct (Z_lt_le_dec l (start_level lo hi guess)) as [A|A]; [|apply Hall; lia].
    assert (cnt (start_level lo hi guess) <= cnt l) by (apply Hmono; lia). lia.
Qed.

(* hence the guess is irrelevant for a non-increasing count *)
Theorem find_level_guess_irrelevant o cnt g1 g2 :
  (forall lo hi, level_bounds o = Some (lo, hi) -> nonincreasing cnt lo hi) ->
  find_level o cnt g1 = find_level o cnt g2.
Proof.
  intros Hmono.
  destruct (find_level o cnt g1) as [l1| |] eqn:E1; destruct (find_level o cnt g2) as [l2| |] eqn:E2;
    try (exfalso; eapply find_level_no_fuel; eassumption); try reflexivity.
  - destruct (level_bounds o) as [[lo hi]|] eqn:Hb; [| unfold find_level in E1; rewrite Hb in E1; discriminate].
    pose proof (find_level_lowest o cnt g1 lo hi l1 Hb (Hmono lo hi eq_refl) E1) as (B1 & F1 & L1).
    pose proof (find_level_lowest o cnt g2 lo hi l2 Hb (Hmono lo hi eq_refl) E2) as (B2 & F2 & L2).
    f_equal. destruct (Z.lt_trichotomy l1 l2) as [A|[A|A]]; [|exact A|].
    + specialize (L2 l1). lia.
    + specialize (L1 l2). lia.
  - exfalso. apply (find_level_fails_iff o cnt g2 Hmono) in E2. apply (find_level_fails_iff o cnt g1 Hmono) in E2.
    congruence.
  - exfalso. apply (find_level_fails_iff o cnt g1 Hmono) in E1. apply (find_level_fails_iff o cnt g2 Hmono) in E1.
    congruence.
Qed.

(* Proofs/TicksCheck.v — C17: the cheaper count functions the correspondence check runs the
   level search with (Check.C17.lin_count_capped, log_count_capped) are extensionally equal to
   the model's, so the check decides exactly [lin_ticks], [lin_nice], [log_ticks], [log_nice]. *)
From Coq Require Import Lqa Lia ZArith QArith Qround Qabs.
From MM Require Import Base.Num Base.GBLemmas Model.Ticks Proofs.Ticks Proofs.TicksLinear Proofs.TicksLog Check.C17.
Local Open Scope Z_scope.

(* ---------- the level search depends on the count only pointwise ---------- *)
Lemma fl_down_ext c1 c2 mx lo : (forall l, c1 l = c2 l) -> forall fuel l, fl_down fuel c1 mx lo l = fl_down fuel c2 mx lo l.
Proof. intros E. induction fuel as [|f IH]; intros l; cbn [fl_down]; [reflexivity|]. rewrite E, IH. reflexivity. Qed.
Lemma fl_up_ext c1 c2 mx hi : (forall l, c1 l = c2 l) -> forall fuel l, fl_up fuel c1 mx hi l = fl_up fuel c2 mx hi l.
Proof. intros E. induction fuel as [|f IH]; intros l; cbn [fl_up]; [reflexivity|]. rewrite E, IH. reflexivity. Qed.
Lemma find_level_ext o c1 c2 g : (forall l, c1 l = c2 l) -> find_level o c1 g = find_level o c2 g.
Proof. intros E. unfold find_level. destruct (level_bounds o) as [[lo hi]|]; [|reflexivity].
  destruct (o_max o <? 1); [reflexivity|]. rewrite E.
  destruct (c2 _ <=? o_max o); [now apply fl_down_ext | now apply fl_up_ext]. Qed.

(* ---------- Linear: above [lin_cap] the count no longer changes ---------- *)
Local Open Scope Q_scope.
Lemma floor_small a sp : 0 < sp -> Qabs a < sp -> Qfloor (a / sp) = if Qleb 0 a then 0%Z else (-1)%Z.
Proof.
  intros P H. assert (I : 0 < / sp) by now apply Qinv_lt_0_compat.
  destruct (Qleb 0 a) eqn:S; gb_bool.
  - rewrite Qabs_pos in H by exact S. apply floor_unique.
    + change (inject_Z 0) with 0. unfold Qdiv. apply Qmult_le_0_compat; lra.
    + change (inject_Z 0) with 0. apply Qlt_shift_div_r; lra.
  - rewrite Qabs_neg in H by lra. apply floor_unique.
    + change (inject_Z (-1)) with (-(1)). apply Qle_shift_div_l; lra.
    + change (inject_Z (-1)) with (-(1)). apply Qlt_shift_div_r; lra.
Qed.
Lemma ceil_small a sp : 0 < sp -> Qabs a < sp -> Qceiling (a / sp) = if Qleb a 0 then 0%Z else 1%Z.
Proof.
  intros P H. unfold Qceiling.
  assert (E : - (a / sp) == (- a) / sp) by (field; lra). rewrite (Qfloor_comp _ _ E).
  rewrite floor_small; [| exact P | now rewrite Qabs_opp].
  destruct (Qleb 0 (- a)) eqn:A; destruct (Qleb a 0) eqn:B; gb_bool; try reflexivity; lra.
Qed.

Lemma first_last_small mn mx sp1 sp2 ro :
  0 < sp1 -> 0 < sp2 -> 2 * (Qabs mn + Qabs mx + 1) < sp1 -> 2 * (Qabs mn + Qabs mx + 1) < sp2 ->
  lin_first_last mn mx sp1 ro = lin_first_last mn mx sp2 ro.
Proof.
  intros P1 P2 B1 B2. unfold lin_first_last. rewrite !qfl_floor, !qcl_ceiling.
  set (sl := (mx - mn) * slack_factor).
  assert (SL : Qabs sl <= Qabs mn + Qabs mx).
  { unfold sl. rewrite Qabs_Qmult. change (Qabs slack_factor) with slack_factor.
    assert (Qabs (mx - mn) <= Qabs mx + Qabs mn).
    { unfold Qminus. eapply Qle_trans; [apply Qabs_triangle|]. rewrite Qabs_opp. lra. }
    assert (0 <= Qabs (mx - mn)) by apply Qabs_nonneg.
    unfold slack_factor. nra. }
  assert (T : forall x y, Qabs (x + y) <= Qabs x + Qabs y) by apply Qabs_triangle.
  assert (N := Qabs_nonneg mn). assert (N' := Qabs_nonneg mx).
  assert (A1 : Qabs (mn + sl) < sp1 /\ Qabs (mn + sl) < sp2) by (pose proof (T mn sl); split; lra).
  assert (A2 : Qabs (mx - sl) < sp1 /\ Qabs (mx - sl) < sp2).
  { pose proof (T mx (- sl)) as X. rewrite Qabs_opp in X. unfold Qminus. split; lra. }
  assert (A3 : Qabs (mn - sl) < sp1 /\ Qabs (mn - sl) < sp2).
  { pose proof (T mn (- sl)) as X. rewrite Qabs_opp in X. unfold Qminus. split; lra. }
  assert (A4 : Qabs (mx + sl) < sp1 /\ Qabs (mx + sl) < sp2) by (pose proof (T mx sl); split; lra).
  destruct ro; rewrite ?floor_small, ?ceil_small by tauto; reflexivity.
Qed.

Lemma qpow_ge_pow2 eb e : (2 <= eb)%Z -> (0 <= e)%Z -> inject_Z (2 ^ e) <= qpow eb e.
Proof. intros Hb He. unfold qpow. replace (0 <=? e)%Z with true by (symmetry; now apply Z.leb_le).
  rewrite <- Zle_Qle. apply Z.pow_le_mono_l. lia. Qed.

Lemma spacing_big base eb mn mx l : (2 <= eb)%Z -> (lin_cap mn mx <= l)%Z ->
  2 * (Qabs mn + Qabs mx + 1) < lin_spacing base eb l.
Proof.
  intros Hb Hl. unfold lin_cap in Hl. set (S := Qabs mn + Qabs mx + 1) in *.
  assert (S1 : 1 <= S) by (unfold S; pose proof (Qabs_nonneg mn); pose proof (Qabs_nonneg mx); lra).
  set (c := Qceiling S) in *.
  assert (C1 : (1 <= c)%Z).
  { unfold c. change 1%Z with (Qceiling 1). now apply Qceiling_resp_le. }
  assert (SC : S <= inject_Z c) by apply Qle_ceiling.
  pose proof (Z.log2_spec c ltac:(lia)) as [_ LS].
  set (E := (Z.log2 c + 3)%Z) in *.
  assert (HE : (E <= l / 2)%Z) by (apply Z.div_le_lower_bound; lia).
  assert (E0 : (0 <= E)%Z) by (unfold E; pose proof (Z.log2_nonneg c); lia).
  assert (P2 : (4 * c < 2 ^ (l / 2))%Z).
  { apply Z.lt_le_trans with (2 ^ E)%Z; [| apply Z.pow_le_mono_r; lia].
    unfold E. replace (Z.log2 c + 3)%Z with (Z.succ (Z.log2 c) + 2)%Z by lia.
    rewrite Z.pow_add_r by (pose proof (Z.log2_nonneg c); lia). change (2 ^ 2)%Z with 4%Z. lia. }
  assert (Q2 : 4 * inject_Z c < qpow eb (l / 2)).
  { eapply Qlt_le_trans; [| apply qpow_ge_pow2; [exact Hb | lia]].
    change 4 with (inject_Z 4). rewrite <- inject_Z_mult, <- Zlt_Qlt. exact P2. }
  unfold lin_spacing. destruct (Z.odd l && (base =? 0)%Z); [|lra].
  pose proof (qpow_pos eb (l / 2) ltac:(lia)). lra.
Qed.

Lemma lin_count_capped_eq base eb mn mx ro l : (2 <= eb)%Z ->
  lin_count_capped base eb mn mx ro l = lin_count base eb mn mx ro l.
Proof.
  intros Hb. unfold lin_count_capped. destruct (Z_le_gt_dec l (lin_cap mn mx)) as [A|A].
  - now rewrite Z.min_l.
  - rewrite Z.min_r by lia. unfold lin_count.
    rewrite (first_last_small mn mx (lin_spacing base eb (lin_cap mn mx)) (lin_spacing base eb l) ro);
      [reflexivity | now apply lin_spacing_pos | now apply lin_spacing_pos | apply spacing_big; [exact Hb | lia] | apply spacing_big; [exact Hb | lia]].
Qed.

(* the check's Linear.Ticks / Linear.Nice are the model's *)
Theorem lin_ticks_capped_eq base mn mx o g : lin_ticks_gen lin_count_capped base mn mx o g = lin_ticks base mn mx o g.
Proof.
  unfold lin_ticks, lin_ticks_gen. destruct (o_max o <=? 0)%Z; [reflexivity|]. destruct (Qeqb mn mx); [reflexivity|].
  destruct (if Qltb mx mn then (mx, mn) else (mn, mx)) as [a b].
  destruct (lin_ebase base) as [eb|] eqn:He; [|reflexivity].
  destruct (lin_ebase_ge base eb He) as [Hb _].
  rewrite (find_level_ext o (lin_count_capped base eb a b false) (lin_count base eb a b false)); [reflexivity|].
  intros l. now apply lin_count_capped_eq.
Qed.
Theorem lin_nice_capped_eq base mn mx o g : lin_nice_gen lin_count_capped base mn mx o g = lin_nice base mn mx o g.
Proof.
  unfold lin_nice, lin_nice_gen.
  destruct (if Qeqb mn mx then (mn - (1 # 2), mx + (1 # 2)) else if Qltb mx mn then (mx, mn) else (mn, mx)) as [a b].
  destruct (lin_ebase base) as [eb|] eqn:He; [|reflexivity].
  destruct (lin_ebase_ge base eb He) as [Hb _].
  rewrite (find_level_ext o (lin_count_capped base eb a b true) (lin_count base eb a b true)); [reflexivity|].
  intros l. now apply lin_count_capped_eq.
Qed.

(* ---------- Log: above [log_cap] the count no longer changes ---------- *)
Local Open Scope Z_scope.
Lemma div_small_any a k : Z.abs a < k -> a / k = if a <? 0 then -1 else 0.
Proof. intros H. destruct (a <? 0) eqn:S.
  - apply Z.ltb_lt in S. symmetry. apply (Z.div_unique a k (-1) (a + k)); lia.
  - apply Z.ltb_ge in S. apply Z.div_small. lia. Qed.

Lemma log_first_last_big e ro l1 l2 : log_cap e <= l1 -> log_cap e <= l2 ->
  log_first_last e ro l1 = log_first_last e ro l2.
Proof.
  intros H1 H2. unfold log_cap in *.
  set (A := Z.abs (le_in_lo e) + Z.abs (le_in_hi e) + Z.abs (le_out_lo e) + Z.abs (le_out_hi e) + 1) in *.
  assert (A1 : 1 <= A) by (unfold A; lia).
  pose proof (Z.log2_spec A ltac:(lia)) as [_ LS]. pose proof (Z.log2_nonneg A) as LN.
  assert (B : forall l, Z.log2 A + 2 <= l -> A < 2 ^ l).
  { intros l Hl. apply Z.lt_le_trans with (2 ^ Z.succ (Z.log2 A)); [exact LS|]. apply Z.pow_le_mono_r; lia. }
  pose proof (B l1 H1) as B1. pose proof (B l2 H2) as B2.
  unfold log_first_last, cdiv.
  destruct ro; rewrite !div_small_any by (unfold A in *; lia); reflexivity.
Qed.

Lemma log_count_capped_eq e ro l : log_count_capped e ro l = log_count e ro l.
Proof.
  unfold log_count_capped. destruct (Z_le_gt_dec l (log_cap e)) as [A|A].
  - now rewrite Z.min_l.
  - rewrite Z.min_r by lia. unfold log_count.
    assert (0 <= log_cap e) by (unfold log_cap; pose proof (Z.log2_nonneg (Z.abs (le_in_lo e) + Z.abs (le_in_hi e) + Z.abs (le_out_lo e) + Z.abs (le_out_hi e) + 1)); lia).
    replace (log_cap e <? 0) with false by (symmetry; apply Z.ltb_ge; lia).
    replace (l <? 0) with false by (symmetry; apply Z.ltb_ge; lia).
    rewrite (log_first_last_big e ro (log_cap e) l); [reflexivity | lia | lia].
Qed.

Theorem log_ticks_capped_eq b mn mx o : log_ticks_gen log_count_capped b mn mx o = log_ticks b mn mx o.
Proof.
  unfold log_ticks, log_ticks_gen. destruct (o_max o <=? 0); [reflexivity|]. destruct (Qeqb mn mx); [reflexivity|].
  destruct (log_fold mn mx) as [[neg emin] emax].
  rewrite (find_level_ext o (log_count_capped (log_exps b emin emax) false) (log_count (log_exps b emin emax) false)); [reflexivity|].
  intros l. apply log_count_capped_eq.
Qed.
Theorem log_nice_capped_eq b mn mx o : log_nice_gen log_count_capped b mn mx o = log_nice b mn mx o.
Proof.
  unfold log_nice, log_nice_gen. destruct (Qeqb mn mx); [reflexivity|].
  destruct (log_fold mn mx) as [[neg emin] emax].
  rewrite (find_level_ext o (log_count_capped (log_exps b emin emax) true) (log_count (log_exps b emin emax) true)); [reflexivity|].
  intros l. apply log_count_capped_eq.
Qed.

(* Proofs/TicksLinear.v — C17, part 2: Linear ticks (linear.go:81-173). *)
From Coq Require Import Lqa Lia ZArith QArith Qround Qpower Qabs Sorted.
From MM Require Import Base.Num Base.GBLemmas Model.Ticks Proofs.Ticks.
Local Open Scope Q_scope.

(* ---------- floor and ceiling ---------- *)
Lemma floor_spec q : inject_Z (Qfloor q) <= q /\ q < inject_Z (Qfloor q) + 1.
Proof. split; [apply Qfloor_le|]. pose proof (Qlt_floor q) as H. rewrite inject_Z_plus in H. exact H. Qed.
Lemma ceil_spec q : inject_Z (Qceiling q) - 1 < q /\ q <= inject_Z (Qceiling q).
Proof. split; [|apply Qle_ceiling]. pose proof (Qceiling_lt q) as H.
  unfold Z.sub in H. rewrite inject_Z_plus in H. exact H. Qed.
(* the floor is the greatest integer below, the ceiling the least integer above *)
Lemma floor_greatest q z : inject_Z z <= q -> (z <= Qfloor q)%Z.
Proof. intros H. destruct (Z_lt_le_dec (Qfloor q) z) as [L|L]; [|exact L]. exfalso.
  destruct (floor_spec q) as [_ U]. assert (inject_Z (Qfloor q) + 1 <= inject_Z z).
  { rewrite <- (inject_Z_plus _ 1). rewrite <- Zle_Qle. lia. } lra. Qed.
Lemma ceil_least q z : q <= inject_Z z -> (Qceiling q <= z)%Z.
Proof. intros H. destruct (Z_lt_le_dec z (Qceiling q)) as [L|L]; [|exact L]. exfalso.
  destruct (ceil_spec q) as [U _]. assert (inject_Z z <= inject_Z (Qceiling q) - 1).
  { unfold Qminus. change (- (1)) with (inject_Z (-1)). rewrite <- inject_Z_plus. rewrite <- Zle_Qle. lia. } lra. Qed.
Lemma floor_unique q z : inject_Z z <= q -> q < inject_Z z + 1 -> Qfloor q = z.
Proof. intros L U. apply Z.le_antisymm; [|now apply floor_greatest].
  destruct (Z_lt_le_dec z (Qfloor q)) as [A|A]; [|exact A]. exfalso.
  destruct (floor_spec q) as [F _]. assert (inject_Z z + 1 <= inject_Z (Qfloor q)).
  { rewrite <- (inject_Z_plus _ 1). rewrite <- Zle_Qle. lia. } lra. Qed.

(* the comparison shortcuts of the model are the floor and the ceiling *)
Lemma qfl_floor q : qfl q = Qfloor q.
Proof. unfold qfl. destruct (Qleb 0 q && Qltb q 1) eqn:A.
  - apply andb_true_iff in A. destruct A as [A1 A2]. gb_bool. symmetry. apply floor_unique; change (inject_Z 0) with 0; lra.
  - destruct (Qleb (- (1)) q && Qltb q 0) eqn:B; [|reflexivity].
    apply andb_true_iff in B. destruct B as [B1 B2]. gb_bool. symmetry. apply floor_unique.
    + change (inject_Z (-1)) with (-(1)). exact B1.
    + change (inject_Z (-1)) with (-(1)). lra. Qed.
Lemma qcl_ceiling q : qcl q = Qceiling q.
Proof. unfold qcl, Qceiling. now rewrite qfl_floor. Qed.

(* ---------- powers ---------- *)
Lemma qpow_Qpower b e : (1 <= b)%Z -> qpow b e == inject_Z b ^ e.
Proof. intros Hb. unfold qpow. destruct (0 <=? e)%Z eqn:E.
  - apply Z.leb_le in E. now apply Zpower_Qpower.
  - apply Z.leb_gt in E. destruct e as [|p|p]; try lia. cbn [Z.opp].
    change (inject_Z b ^ Z.neg p) with (/ (inject_Z b ^ Z.pos p)).
    rewrite <- Zpower_Qpower by lia.
    assert (P : (0 < b ^ Z.pos p)%Z) by (apply Z.pow_pos_nonneg; lia).
    destruct (b ^ Z.pos p)%Z as [|k|k] eqn:K; try lia. cbn. reflexivity. Qed.
Lemma inject_nz b : (1 <= b)%Z -> ~ inject_Z b == 0.
Proof. intros Hb E. unfold Qeq in E. cbn in E. lia. Qed.
Lemma qpow_succ b e : (1 <= b)%Z -> qpow b (e + 1) == inject_Z b * qpow b e.
Proof. intros Hb. rewrite !qpow_Qpower by assumption. rewrite Qpower_plus by now apply inject_nz.
  change (inject_Z b ^ 1) with (inject_Z b). ring. Qed.
Lemma qpow_pos b e : (1 <= b)%Z -> 0 < qpow b e.
Proof. intros Hb. unfold qpow. destruct (0 <=? e)%Z eqn:E.
  - change 0 with (inject_Z 0). rewrite <- Zlt_Qlt. apply Z.pow_pos_nonneg; [lia | now apply Z.leb_le].
  - reflexivity. Qed.

(* ---------- spacing (linear.go:88-92) ---------- *)
Lemma lin_ebase_ge base eb : lin_ebase base = Some eb -> (2 <= eb)%Z /\ (base = 0%Z -> eb = 10%Z) /\ (base <> 0%Z -> eb = base).
Proof. unfold lin_ebase. destruct (base =? 0)%Z eqn:A.
  - intros [= <-]. apply Z.eqb_eq in A. repeat split; lia.
  - destruct (base <=? 1)%Z eqn:B; [discriminate|]. intros [= <-]. apply Z.eqb_neq in A. apply Z.leb_gt in B.
    repeat split; lia. Qed.

Lemma lin_spacing_pos base eb l : (2 <= eb)%Z -> 0 < lin_spacing base eb l.
Proof. intros Hb. unfold lin_spacing. pose proof (qpow_pos eb (l / 2) ltac:(lia)).
  destruct (Z.odd l && (base =? 0)%Z); lra. Qed.

(* the spacing is a power of the base, or 5 times a power of ten by default *)
Lemma lin_spacing_form base eb l : lin_ebase base = Some eb ->
  lin_spacing base eb l == qpow eb (l / 2) \/ (base = 0%Z /\ lin_spacing base eb l == 5 * qpow 10 (l / 2)).
Proof. intros H. destruct (lin_ebase_ge base eb H) as (_ & H0 & _). unfold lin_spacing.
  destruct (Z.odd l && (base =? 0)%Z) eqn:E; [|left; reflexivity].
  apply andb_true_iff in E. destruct E as [_ E]. apply Z.eqb_eq in E. right. split; [exact E|].
  rewrite (H0 E). ring. Qed.

(* each level's spacing is an integer multiple (1, 2, 5 or the base) of the previous one *)
Lemma spacing_divides_next base eb l : lin_ebase base = Some eb ->
  exists m : Z, (1 <= m)%Z /\ lin_spacing base eb (l + 1) == inject_Z m * lin_spacing base eb l.
Proof.
  intros H. destruct (lin_ebase_ge base eb H) as (Hb & H0 & H1). unfold lin_spacing.
  rewrite Z.odd_add. change (Z.odd 1) with true.
  destruct (Z.odd l) eqn:O.
  - (* l odd: (l+1)/2 = l/2 + 1 *)
    assert (E : ((l + 1) / 2 = l / 2 + 1)%Z).
    { rewrite (Zodd_div2 l) at 1 by (now apply Zodd_bool_iff).
      rewrite Z.div2_div. replace (2 * (l / 2) + 1 + 1)%Z with ((l / 2 + 1) * 2)%Z by ring. now rewrite Z.div_mul. }
    rewrite E. cbn [xorb andb].
    destruct (base =? 0)%Z eqn:B.
    + apply Z.eqb_eq in B. rewrite (H0 B). exists 2%Z. split; [lia|]. rewrite qpow_succ by lia.
      change (inject_Z 10) with 10. change (inject_Z 2) with 2. ring.
    + exists eb. split; [lia|]. rewrite qpow_succ by lia. reflexivity.
  - (* l even: (l+1)/2 = l/2 *)
    assert (E : ((l + 1) / 2 = l / 2)%Z).
    { assert (Ev : Z.even l = true) by (rewrite <- Z.negb_odd, O; reflexivity).
      apply Zeven_bool_iff in Ev. rewrite (Zeven_div2 l Ev) at 1. rewrite Z.div2_div.
      rewrite Z.mul_comm, Z.div_add_l by lia. change (1 / 2)%Z with 0%Z. lia. }
    rewrite E. cbn [xorb andb].
    destruct (base =? 0)%Z eqn:B.
    + exists 5%Z. split; [lia|]. change (inject_Z 5) with 5. ring.
    + exists 1%Z. split; [lia|]. change (inject_Z 1) with 1. ring.
Qed.

(* ---------- firstN / lastN (linear.go:96-104) ---------- *)
(* the interval the code allows itself: the domain widened by the slack 1e-10 (Max-Min) *)
Definition in_range (mn mx v : Q) : Prop :=
  mn - (mx - mn) * slack_factor <= v /\ v <= mx + (mx - mn) * slack_factor.

Lemma div_le_iff a sp (k : Z) : 0 < sp -> (a / sp <= inject_Z k <-> a <= inject_Z k * sp).
Proof. intros P. split; intros H.
  - assert (E : a == a / sp * sp) by (field; lra). rewrite E. apply Qmult_le_compat_r; lra.
  - apply Qle_shift_div_r; assumption. Qed.
Lemma le_div_iff a sp (k : Z) : 0 < sp -> (inject_Z k <= a / sp <-> inject_Z k * sp <= a).
Proof. intros P. split; intros H.
  - assert (E : a == a / sp * sp) by (field; lra). rewrite E. apply Qmult_le_compat_r; lra.
  - apply Qle_shift_div_l; assumption. Qed.

(* k is between firstN and lastN exactly when k*spacing lies in the widened domain *)
Lemma first_last_in mn mx sp f la : 0 < sp -> lin_first_last mn mx sp false = (f, la) ->
  forall k : Z, (f <= k <= la)%Z <-> in_range mn mx (inject_Z k * sp).
Proof.
  intros P. unfold lin_first_last. rewrite qcl_ceiling, qfl_floor. intros H k.
  pose proof (f_equal fst H) as H1. pose proof (f_equal snd H) as H2. cbn [fst snd] in H1, H2. subst f la. clear H.
  unfold in_range.
  set (a := mn - (mx - mn) * slack_factor). set (b := mx + (mx - mn) * slack_factor). split.
  - intros [L U]. split.
    + apply (div_le_iff a sp k P). destruct (ceil_spec (a / sp)) as [_ C].
      apply Qle_trans with (inject_Z (Qceiling (a / sp))); [exact C | rewrite <- Zle_Qle; exact L].
    + apply (le_div_iff b sp k P). destruct (floor_spec (b / sp)) as [F _].
      apply Qle_trans with (inject_Z (Qfloor (b / sp))); [rewrite <- Zle_Qle; exact U | exact F].
  - intros [L U]. split.
    + apply ceil_least. now apply div_le_iff.
    + apply floor_greatest. now apply le_div_iff.
Qed.

Lemma first_last_count_nonneg mn mx sp f la : 0 < sp -> mn <= mx ->
  lin_first_last mn mx sp false = (f, la) -> (0 <= la - f + 1)%Z.
Proof.
  intros P O. unfold lin_first_last. rewrite qcl_ceiling, qfl_floor. intros H.
  pose proof (f_equal fst H) as H1. pose proof (f_equal snd H) as H2. cbn [fst snd] in H1, H2. subst f la. clear H.
  set (a := (mn - (mx - mn) * slack_factor) / sp). set (b := (mx + (mx - mn) * slack_factor) / sp).
  assert (AB : a <= b).
  { unfold a, b. apply Qmult_le_compat_r; [|apply Qlt_le_weak, Qinv_lt_0_compat, P].
    assert (0 <= (mx - mn) * slack_factor) by (apply Qmult_le_0_compat; [lra | discriminate]). lra. }
  assert (Qceiling a <= Qfloor b + 1)%Z; [|lia].
  apply ceil_least. destruct (floor_spec b) as [_ U]. rewrite inject_Z_plus. change (inject_Z 1) with 1. lra.
Qed.

(* ---------- the tick list (vec.Linspace over firstN*sp .. lastN*sp) ---------- *)
Lemma tick_seq_In n : forall f sp v, In v (tick_seq n f sp) <->
  exists k : Z, (f <= k < f + Z.of_nat n)%Z /\ v = inject_Z k * sp.
Proof.
  induction n as [|n IH]; intros f sp v; cbn [tick_seq In].
  - split; [tauto | intros (k & H & _); lia].
  - rewrite IH. split.
    + intros [<-|(k & H & E)]; [exists f; split; [lia | reflexivity] | exists k; split; [lia | exact E]].
    + intros (k & H & E). destruct (Z.eq_dec k f) as [->|N]; [left; now symmetry | right; exists k; split; [lia | exact E]].
Qed.
Lemma tick_seq_length n f sp : length (tick_seq n f sp) = n.
Proof. revert f. induction n as [|n IH]; intros f; cbn; [reflexivity | now rewrite IH]. Qed.
Lemma tick_seq_sorted n : forall f sp, 0 < sp -> StronglySorted Qlt (tick_seq n f sp).
Proof.
  induction n as [|n IH]; intros f sp P; cbn [tick_seq]; constructor; [now apply IH|].
  apply Forall_forall. intros v Hv. apply tick_seq_In in Hv. destruct Hv as (k & Hk & ->).
  apply Qmult_lt_compat_r; [exact P|]. rewrite <- Zlt_Qlt. lia.
Qed.

Section Level.
Variables (base eb : Z) (mn mx : Q).
Hypothesis Heb : lin_ebase base = Some eb.
Hypothesis Hord : mn <= mx.

Let sp (l : Z) := lin_spacing base eb l.
Lemma sp_pos l : 0 < sp l.
Proof. apply lin_spacing_pos. now destruct (lin_ebase_ge base eb Heb). Qed.

(* TicksAtLevel(l): exactly the integer multiples of the spacing in the widened domain *)
Lemma lin_ticks_at_spec l v : In v (lin_ticks_at base eb mn mx false l) <->
  exists k : Z, v = inject_Z k * sp l /\ in_range mn mx v.
Proof.
  unfold lin_ticks_at. fold (sp l). destruct (lin_first_last mn mx (sp l) false) as [f la] eqn:E.
  pose proof (first_last_in mn mx (sp l) f la (sp_pos l) E) as FL.
  pose proof (first_last_count_nonneg mn mx (sp l) f la (sp_pos l) Hord E) as NN.
  rewrite tick_seq_In. rewrite Z2Nat.id by exact NN. split.
  - intros (k & Hk & ->). exists k. split; [reflexivity|]. apply FL. lia.
  - intros (k & -> & R). exists k. split; [|reflexivity]. apply FL in R. lia.
Qed.

(* CountTicks(l) = len(TicksAtLevel(l)) at every level *)
Lemma lin_count_is_length l :
  lin_count base eb mn mx false l = Z.of_nat (length (lin_ticks_at base eb mn mx false l)).
Proof.
  unfold lin_count, lin_ticks_at. fold (sp l). destruct (lin_first_last mn mx (sp l) false) as [f la] eqn:E.
  rewrite tick_seq_length, Z2Nat.id; [reflexivity|].
  exact (first_last_count_nonneg mn mx (sp l) f la (sp_pos l) Hord E).
Qed.

(* ascending *)
Lemma lin_ticks_ascending l : StronglySorted Qlt (lin_ticks_at base eb mn mx false l).
Proof. unfold lin_ticks_at. fold (sp l). destruct (lin_first_last mn mx (sp l) false) as [f la].
  apply tick_seq_sorted, sp_pos. Qed.

(* every tick of level l+1 is a tick of level l *)
Lemma lin_ticks_nested l v : In v (lin_ticks_at base eb mn mx false (l + 1)) ->
  exists w, In w (lin_ticks_at base eb mn mx false l) /\ w == v.
Proof.
  intros H. apply lin_ticks_at_spec in H. destruct H as (k & -> & R).
  destruct (spacing_divides_next base eb l Heb) as (m & Hm & Em). fold (sp (l + 1)) (sp l) in Em.
  exists (inject_Z (k * m) * sp l).
  assert (E : inject_Z (k * m) * sp l == inject_Z k * sp (l + 1)) by (rewrite Em, inject_Z_mult; ring).
  split; [|exact E]. apply lin_ticks_at_spec. exists (k * m)%Z. split; [reflexivity|].
  unfold in_range in *. rewrite E. exact R.
Qed.

(* hence the count is non-increasing in the level *)
Lemma lin_count_step l : (lin_count base eb mn mx false (l + 1) <= lin_count base eb mn mx false l)%Z.
Proof.
  unfold lin_count. fold (sp (l + 1)) (sp l).
  destruct (lin_first_last mn mx (sp (l + 1)) false) as [f' la'] eqn:E'.
  destruct (lin_first_last mn mx (sp l) false) as [f la] eqn:E.
  pose proof (first_last_in mn mx _ f' la' (sp_pos (l + 1)) E') as FL'.
  pose proof (first_last_in mn mx _ f la (sp_pos l) E) as FL.
  pose proof (first_last_count_nonneg mn mx _ f la (sp_pos l) Hord E) as NN.
  destruct (Z_lt_le_dec la' f') as [Empty|NE]; [lia|].
  destruct (spacing_divides_next base eb l Heb) as (m & Hm & Em). fold (sp (l + 1)) (sp l) in Em.
  assert (T : forall k, (f' <= k <= la')%Z -> (f <= k * m <= la)%Z).
  { intros k Hk. apply FL. apply FL' in Hk. unfold in_range in *.
    assert (E2 : inject_Z (k * m) * sp l == inject_Z k * sp (l + 1)) by (rewrite Em, inject_Z_mult; ring).
    rewrite E2. exact Hk. }
  pose proof (T f' ltac:(lia)). pose proof (T la' ltac:(lia)). nia.
Qed.
End Level.

Lemma nonincreasing_of_step cnt : (forall l, cnt (l + 1) <= cnt l)%Z -> forall lo hi, nonincreasing cnt lo hi.
Proof.
  intros S lo hi a b _ Hab _.
  replace b with (a + Z.of_nat (Z.to_nat (b - a)))%Z by (rewrite Z2Nat.id; lia).
  induction (Z.to_nat (b - a)) as [|n IH]; [rewrite Z.add_0_r; lia|].
  rewrite Nat2Z.inj_succ. replace (a + Z.succ (Z.of_nat n))%Z with (a + Z.of_nat n + 1)%Z by lia.
  specialize (S (a + Z.of_nat n)%Z). lia.
Qed.

Lemma lin_count_nonincreasing base eb mn mx lo hi : lin_ebase base = Some eb -> mn <= mx ->
  nonincreasing (lin_count base eb mn mx false) lo hi.
Proof. intros He Ho. apply nonincreasing_of_step. intros l. now apply lin_count_step. Qed.

(* ---------- Ticks(o) (linear.go:136-150) ---------- *)
(* For a proper domain Min < Max and Max >= 1: the major ticks are TicksAtLevel(l) and the
   minor ticks TicksAtLevel(l-1) for the LOWEST level l of the window with at most Max ticks;
   whatever guess the search starts from *)
Lemma lin_ticks_correct base mn mx o guess major minor lo hi :
  mn < mx -> level_bounds o = Some (lo, hi) ->
  lin_ticks base mn mx o guess = TR_ticks major minor ->
  exists eb l, lin_ebase base = Some eb /\ (lo <= l <= hi)%Z /\
    major = lin_ticks_at base eb mn mx false l /\ minor = lin_ticks_at base eb mn mx false (l - 1) /\
    (Z.of_nat (length major) <= o_max o)%Z /\
    forall l', (lo <= l' < l)%Z -> (o_max o < Z.of_nat (length (lin_ticks_at base eb mn mx false l')))%Z.
Proof.
  intros Hlt Hb. unfold lin_ticks, lin_ticks_gen.
  destruct (o_max o <=? 0)%Z; [discriminate|].
  destruct (Qeqb mn mx) eqn:E; [gb_bool; lra|].
  destruct (Qltb mx mn) eqn:S; [gb_bool; lra|].
  destruct (lin_ebase base) as [eb|] eqn:He; [|discriminate].
  destruct (find_level o (lin_count base eb mn mx false) guess) as [l| |] eqn:F; try discriminate.
  intros [= <- <-]. exists eb, l. split; [reflexivity|].
  assert (Ho : mn <= mx) by lra.
  pose proof (find_level_lowest o _ guess lo hi l Hb (lin_count_nonincreasing base eb mn mx lo hi He Ho) F) as (B & Fit & Low).
  split; [exact B|]. split; [reflexivity|]. split; [reflexivity|]. split.
  - rewrite <- (lin_count_is_length base eb mn mx He Ho). exact Fit.
  - intros l' Hl'. rewrite <- (lin_count_is_length base eb mn mx He Ho). now apply Low.
Qed.

(* Ticks(o) returns no ticks exactly when no level of the window has few enough ticks
   (or the options are unusable) *)
Lemma lin_ticks_none_iff base eb mn mx o guess :
  mn < mx -> lin_ebase base = Some eb -> (1 <= o_max o)%Z ->
  (lin_ticks base mn mx o guess = TR_none <->
   level_bounds o = None \/
   exists lo hi, level_bounds o = Some (lo, hi) /\
     forall l, (lo <= l <= hi)%Z -> (o_max o < Z.of_nat (length (lin_ticks_at base eb mn mx false l)))%Z).
Proof.
  intros Hlt He Hm. unfold lin_ticks, lin_ticks_gen.
  replace (o_max o <=? 0)%Z with false by (symmetry; apply Z.leb_gt; lia).
  destruct (Qeqb mn mx) eqn:E; [gb_bool; lra|].
  destruct (Qltb mx mn) eqn:S; [gb_bool; lra|]. rewrite He.
  assert (Ho : mn <= mx) by lra.
  assert (Mono : forall lo hi, level_bounds o = Some (lo, hi) -> nonincreasing (lin_count base eb mn mx false) lo hi)
    by (intros; now apply lin_count_nonincreasing).
  pose proof (find_level_fails_iff o _ guess Mono) as FI.
  pose proof (find_level_no_fuel o (lin_count base eb mn mx false) guess) as NF.
  destruct (find_level o (lin_count base eb mn mx false) guess) as [l| |] eqn:F; [| |contradiction].
  - split; [discriminate|]. intros H. exfalso.
    assert (FL_ok l = FL_fail); [|discriminate]. apply FI.
    destruct H as [H|(lo & hi & H1 & H2)]; [right; left; exact H|].
    right. right. exists lo, hi. split; [exact H1|]. intros l' Hl'.
    rewrite (lin_count_is_length base eb mn mx He Ho). now apply H2.
  - split; [|reflexivity]. intros _. destruct (proj1 FI eq_refl) as [H|[H|(lo & hi & H1 & H2)]]; [lia | left; exact H|].
    right. exists lo, hi. split; [exact H1|]. intros l' Hl'.
    rewrite <- (lin_count_is_length base eb mn mx He Ho). now apply H2.
Qed.

(* ---------- Nice(o) (linear.go:152-173, repaired) ---------- *)
(* the IDEAL Nice: the model's Nice (Model.Ticks.lin_nice_gen) without the test that the new end
   is a finite float64.  The theory of Proofs/TicksNice.v is developed for it; the model's Nice
   coincides with it whenever the two candidate ends are representable (lin_nice_rep_eq). *)
Definition lin_nice_ideal_gen (C : Z -> Z -> Q -> Q -> bool -> Z -> Z)
    (base : Z) (mn mx : Q) (o : tickopts) (guess : Z) : nice_res :=
  let '(mn, mx) := if Qeqb mn mx then (mn - (1 # 2), mx + (1 # 2))
                   else if Qltb mx mn then (mx, mn) else (mn, mx) in
  match lin_ebase base with
  | None => NR_panic
  | Some eb =>
      match find_level o (C base eb mn mx true) guess with
      | FL_ok l =>
          let sp := lin_spacing base eb l in
          let '(f, la) := lin_first_last mn mx sp true in
          let nmn := inject_Z f * sp in let nmx := inject_Z la * sp in
          NR_dom (if Qleb nmn mn then nmn else mn) (if Qleb mx nmx then nmx else mx)
      | _ => NR_dom mn mx
      end
  end.
Definition lin_nice_ideal := lin_nice_ideal_gen lin_count.

(* the domain Nice starts from: a degenerate one is widened by 1/2 on each side, a reversed one
   swapped *)
Definition nice_start (mn mx : Q) : Q * Q :=
  if Qeqb mn mx then (mn - (1 # 2), mx + (1 # 2)) else if Qltb mx mn then (mx, mn) else (mn, mx).

(* Nice never shrinks the domain, for any options (Max >= 1 or not, level limits or not):
   when no level fits the domain is left as it is *)
Lemma lin_nice_ideal_expands base mn mx o guess a b :
  lin_nice_ideal base mn mx o guess = NR_dom a b ->
  let '(smn, smx) := nice_start mn mx in a <= smn /\ smx <= b.
Proof.
  unfold lin_nice_ideal, lin_nice_ideal_gen, nice_start.
  destruct (if Qeqb mn mx then (mn - (1 # 2), mx + (1 # 2)) else if Qltb mx mn then (mx, mn) else (mn, mx)) as [smn smx].
  destruct (lin_ebase base) as [eb|]; [|discriminate].
  destruct (find_level o (lin_count base eb smn smx true) guess) as [l| |].
  - destruct (lin_first_last smn smx (lin_spacing base eb l) true) as [f la].
    intros [= <- <-]. split.
    + destruct (Qleb (inject_Z f * lin_spacing base eb l) smn) eqn:E; gb_bool; lra.
    + destruct (Qleb smx (inject_Z la * lin_spacing base eb l)) eqn:E; gb_bool; lra.
  - intros [= <- <-]. split; lra.
  - intros [= <- <-]. split; lra.
Qed.

(* ... and moves each end by less than one major tick spacing, to a multiple of the spacing
   of the level it chose (or not at all) *)
Lemma nice_start_ordered mn mx : let '(smn, smx) := nice_start mn mx in smn < smx.
Proof. unfold nice_start. destruct (Qeqb mn mx) eqn:E; [gb_bool; lra|].
  destruct (Qltb mx mn) eqn:S; gb_bool; [exact S|].
  destruct (Qeq_dec mn mx); [contradiction | lra]. Qed.

Lemma lin_nice_ideal_adds_less_than_one_spacing base eb mn mx o guess a b :
  lin_ebase base = Some eb ->
  lin_nice_ideal base mn mx o guess = NR_dom a b ->
  let '(smn, smx) := nice_start mn mx in
  (a == smn /\ b == smx) \/
  exists l, find_level o (lin_count base eb smn smx true) guess = FL_ok l /\
    let sp := lin_spacing base eb l in
    smn - a < sp /\ b - smx < sp /\
    (a == smn \/ exists k : Z, a = inject_Z k * sp) /\ (b == smx \/ exists k : Z, b = inject_Z k * sp).
Proof.
  intros He. pose proof (nice_start_ordered mn mx) as Ord. unfold lin_nice_ideal, lin_nice_ideal_gen.
  change (if Qeqb mn mx then (mn - (1 # 2), mx + (1 # 2)) else if Qltb mx mn then (mx, mn) else (mn, mx)) with (nice_start mn mx).
  destruct (nice_start mn mx) as [smn smx].
  rewrite He.
  destruct (find_level o (lin_count base eb smn smx true) guess) as [l| |].
  2,3: intros [= <- <-]; left; split; reflexivity.
  pose proof (lin_spacing_pos base eb l ltac:(now destruct (lin_ebase_ge base eb He))) as P.
  unfold lin_first_last. rewrite qcl_ceiling, qfl_floor.
  set (sp := lin_spacing base eb l) in *. set (sl := (smx - smn) * slack_factor).
  assert (NN : 0 <= sl) by (apply Qmult_le_0_compat; [lra | discriminate]).
  destruct (floor_spec ((smn + sl) / sp)) as [F1 F2]. destruct (ceil_spec ((smx - sl) / sp)) as [C1 C2].
  set (f := Qfloor ((smn + sl) / sp)) in *. set (c := Qceiling ((smx - sl) / sp)) in *.
  assert (A1 : smn + sl < (inject_Z f + 1) * sp).
  { assert (E : smn + sl == (smn + sl) / sp * sp) by (field; lra). rewrite E. apply Qmult_lt_compat_r; assumption. }
  assert (A2 : (inject_Z c - 1) * sp < smx - sl).
  { assert (E : smx - sl == (smx - sl) / sp * sp) by (field; lra). rewrite E. apply Qmult_lt_compat_r; assumption. }
  assert (B1 : (inject_Z f + 1) * sp == inject_Z f * sp + sp) by ring.
  assert (B2 : (inject_Z c - 1) * sp == inject_Z c * sp - sp) by ring.
  rewrite B1 in A1. rewrite B2 in A2. clear B1 B2.
  intros [= <- <-]. right. exists l. split; [reflexivity|]. cbv zeta. fold sp.
  destruct (Qleb (inject_Z f * sp) smn) eqn:E1; destruct (Qleb smx (inject_Z c * sp)) eqn:E2; gb_bool;
    (split; [lra|]); (split; [lra|]); split.
  - right. exists f. reflexivity.
  - right. exists c. reflexivity.
  - right. exists f. reflexivity.
  - left. reflexivity.
  - left. reflexivity.
  - right. exists c. reflexivity.
  - left. reflexivity.
  - left. reflexivity.
Qed.

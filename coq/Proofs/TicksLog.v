(* Proofs/TicksLog.v — C17, part 3: Log ticks (log.go:111-232).  A Log scale's ticks are
   powers of Base; level l keeps the exponents that are multiples of 2^l.  The statements
   hold for ANY interval [in_lo, in_hi] of admitted exponents (computed once per scale by
   [log_exps], independent of the level), so they do not depend on how the slack is decided. *)
From Coq Require Import Lqa Lia ZArith QArith Sorted.
From MM Require Import Base.Num Base.GBLemmas Model.Ticks Proofs.Ticks Proofs.TicksLinear.
Local Open Scope Z_scope.

(* ---------- floor and ceiling division by k > 0 ---------- *)
Lemma fdiv_iff c k n : 0 < k -> (n <= c / k <-> n * k <= c).
Proof. intros K. pose proof (Z.div_mod c k ltac:(lia)). pose proof (Z.mod_pos_bound c k K). split; intros; nia. Qed.
Lemma cdiv_iff a k n : 0 < k -> (cdiv a k <= n <-> a <= n * k).
Proof. intros K. unfold cdiv. pose proof (Z.div_mod (- a) k ltac:(lia)). pose proof (Z.mod_pos_bound (- a) k K).
  split; intros; nia. Qed.

Lemma pow2_pos l : 0 <= l -> 0 < 2 ^ l.
Proof. intros. apply Z.pow_pos_nonneg; lia. Qed.

(* ---------- powers are strictly increasing in the exponent ---------- *)
Lemma qpow_lt b e1 e2 : 2 <= b -> e1 < e2 -> (qpow b e1 < qpow b e2)%Q.
Proof.
  intros Hb H. replace e2 with (e1 + 1 + Z.of_nat (Z.to_nat (e2 - e1 - 1))) by (rewrite Z2Nat.id; lia).
  induction (Z.to_nat (e2 - e1 - 1)) as [|n IH].
  - rewrite Z.add_0_r, qpow_succ by lia. pose proof (qpow_pos b e1 ltac:(lia)) as P.
    assert (2 <= inject_Z b)%Q by (change 2%Q with (inject_Z 2); rewrite <- Zle_Qle; lia). nra.
  - rewrite Nat2Z.inj_succ. replace (e1 + 1 + Z.succ (Z.of_nat n)) with (e1 + 1 + Z.of_nat n + 1) by lia.
    rewrite qpow_succ by lia. pose proof (qpow_pos b (e1 + 1 + Z.of_nat n) ltac:(lia)) as P.
    assert (2 <= inject_Z b)%Q by (change 2%Q with (inject_Z 2); rewrite <- Zle_Qle; lia). nra.
Qed.

(* ---------- the tick list of a level ---------- *)
Lemma pow_seq_In n : forall b f k v, In v (pow_seq n b f k) <->
  exists m, f <= m < f + Z.of_nat n /\ v = qpow b (m * k).
Proof.
  induction n as [|n IH]; intros b f k v; cbn [pow_seq In].
  - split; [tauto | intros (m & H & _); lia].
  - rewrite IH. split.
    + intros [<-|(m & H & E)]; [exists f; split; [lia | reflexivity] | exists m; split; [lia | exact E]].
    + intros (m & H & E). destruct (Z.eq_dec m f) as [->|N]; [left; now symmetry | right; exists m; split; [lia | exact E]].
Qed.
Lemma pow_seq_length n b f k : length (pow_seq n b f k) = n.
Proof. revert f. induction n as [|n IH]; intros f; cbn; [reflexivity | now rewrite IH]. Qed.
Lemma pow_seq_sorted n : forall b f k, 2 <= b -> 0 < k -> StronglySorted Qlt (pow_seq n b f k).
Proof.
  induction n as [|n IH]; intros b f k Hb Hk; cbn [pow_seq]; constructor; [now apply IH|].
  apply Forall_forall. intros v Hv. apply pow_seq_In in Hv. destruct Hv as (m & Hm & ->).
  apply qpow_lt; [exact Hb | nia].
Qed.

Section Level.
Variables (b : Z) (e : logexp) (emin emax : Q).
Hypothesis Hb : 2 <= b.
(* the admitted exponents form a (possibly empty) interval *)
Hypothesis Hexp : le_in_lo e <= le_in_hi e + 1.

Lemma log_first_last_in l n : 0 <= l ->
  let '(f, la) := log_first_last e false l in
  (f <= n <= la <-> le_in_lo e <= n * 2 ^ l <= le_in_hi e).
Proof. intros Hl. unfold log_first_last. pose proof (pow2_pos l Hl) as K.
  rewrite (cdiv_iff _ _ n K), (fdiv_iff _ _ n K). tauto. Qed.

Lemma log_count_nonneg l : 0 <= l -> let '(f, la) := log_first_last e false l in 0 <= la - f + 1.
Proof. intros Hl. unfold log_first_last. pose proof (pow2_pos l Hl) as K.
  set (k := 2 ^ l) in *. unfold cdiv.
  pose proof (Z.div_mod (le_in_hi e) k ltac:(lia)). pose proof (Z.mod_pos_bound (le_in_hi e) k K).
  pose proof (Z.div_mod (- le_in_lo e) k ltac:(lia)). pose proof (Z.mod_pos_bound (- le_in_lo e) k K). nia. Qed.

(* TicksAtLevel(l), l >= 0: exactly the powers Base^(n 2^l) with an admitted exponent *)
Lemma log_ticks_pos_spec l v : 0 <= l ->
  (In v (log_ticks_pos b e emin emax false l) <->
   exists n, v = qpow b (n * 2 ^ l) /\ le_in_lo e <= n * 2 ^ l <= le_in_hi e).
Proof.
  intros Hl. unfold log_ticks_pos. replace (l <? 0) with false by (symmetry; apply Z.ltb_ge; lia).
  pose proof (fun n => log_first_last_in l n Hl) as FL. pose proof (log_count_nonneg l Hl) as NN.
  destruct (log_first_last e false l) as [f la].
  rewrite pow_seq_In, Z2Nat.id by exact NN. split.
  - intros (m & Hm & ->). exists m. split; [reflexivity|]. apply FL. lia.
  - intros (n & -> & R). exists n. split; [|reflexivity]. apply FL in R. lia.
Qed.

Lemma log_ticks_pos_ascending l : 0 <= l -> StronglySorted Qlt (log_ticks_pos b e emin emax false l).
Proof. intros Hl. unfold log_ticks_pos. replace (l <? 0) with false by (symmetry; apply Z.ltb_ge; lia).
  destruct (log_first_last e false l) as [f la]. apply pow_seq_sorted; [exact Hb | now apply pow2_pos]. Qed.

(* CountTicks(l) = len(TicksAtLevel(l)) for l >= 0 *)
Lemma log_count_is_length l : 0 <= l ->
  log_count e false l = Z.of_nat (length (log_ticks_pos b e emin emax false l)).
Proof. intros Hl. unfold log_count, log_ticks_pos. replace (l <? 0) with false by (symmetry; apply Z.ltb_ge; lia).
  pose proof (log_count_nonneg l Hl) as NN. destruct (log_first_last e false l) as [f la].
  now rewrite pow_seq_length, Z2Nat.id. Qed.

(* each level eliminates ticks: level l+1 is contained in level l *)
Lemma log_ticks_nested l v : 0 <= l ->
  In v (log_ticks_pos b e emin emax false (l + 1)) -> In v (log_ticks_pos b e emin emax false l).
Proof.
  intros Hl H. apply log_ticks_pos_spec in H; [|lia]. destruct H as (n & -> & R).
  apply log_ticks_pos_spec; [exact Hl|]. exists (2 * n).
  assert (E : 2 * n * 2 ^ l = n * 2 ^ (l + 1)) by (rewrite Z.pow_add_r by lia; ring).
  rewrite E. split; [reflexivity | exact R].
Qed.

Lemma log_count_step l : 0 <= l -> log_count e false (l + 1) <= log_count e false l.
Proof.
  intros Hl. unfold log_count.
  replace (l <? 0) with false by (symmetry; apply Z.ltb_ge; lia).
  replace (l + 1 <? 0) with false by (symmetry; apply Z.ltb_ge; lia).
  pose proof (fun n => log_first_last_in l n Hl) as FL.
  pose proof (fun n => log_first_last_in (l + 1) n ltac:(lia)) as FL'.
  pose proof (log_count_nonneg l Hl) as NN.
  destruct (log_first_last e false l) as [f la]. destruct (log_first_last e false (l + 1)) as [f' la'].
  destruct (Z_lt_le_dec la' f') as [Empty|NE]; [lia|].
  assert (T : forall n, f' <= n <= la' -> f <= 2 * n <= la).
  { intros n Hn. apply FL. apply FL' in Hn. rewrite Z.pow_add_r in Hn by lia.
    replace (2 * n * 2 ^ l) with (n * (2 ^ l * 2 ^ 1)) by ring. exact Hn. }
  pose proof (T f' ltac:(lia)). pose proof (T la' ltac:(lia)). lia.
Qed.

(* CountTicks is non-increasing on every window (levels below 0 report maxInt, so the
   hypothesis says the count at level 0 fits an int) *)
Lemma log_count_nonincreasing lo hi : log_count e false 0 <= MAXINT ->
  nonincreasing (log_count e false) lo hi.
Proof.
  intros H0. apply nonincreasing_of_step. intros l.
  destruct (Z_lt_le_dec l (-1)) as [A|A].
  - unfold log_count. replace (l <? 0) with true by (symmetry; apply Z.ltb_lt; lia).
    replace (l + 1 <? 0) with true by (symmetry; apply Z.ltb_lt; lia). lia.
  - destruct (Z.eq_dec l (-1)) as [->|N].
    + change (-1 + 1) with 0. unfold log_count at 2. cbn [Z.ltb Z.compare]. exact H0.
    + apply log_count_step. lia.
Qed.
End Level.

(* ---------- Ticks(o) (log.go:193-207) for a positive domain ---------- *)
Lemma log_ticks_correct b mn mx o major minor lo hi :
  2 <= b -> (0 < mn)%Q -> (mn < mx)%Q -> level_bounds o = Some (lo, hi) ->
  let e := log_exps b mn mx in
  le_in_lo e <= le_in_hi e + 1 -> log_count e false 0 <= MAXINT ->
  log_ticks b mn mx o = TR_ticks major minor ->
  exists l, lo <= l <= hi /\
    major = log_ticks_pos b e mn mx false l /\ minor = log_ticks_pos b e mn mx false (l - 1) /\
    log_count e false l <= o_max o /\
    (forall l', lo <= l' < l -> o_max o < log_count e false l') /\
    (0 <= l -> Z.of_nat (length major) <= o_max o).
Proof.
  intros Hb Hpos Hlt Hbd e Hexp H0. unfold log_ticks, log_ticks_gen.
  destruct (o_max o <=? 0); [discriminate|].
  destruct (Qeqb mn mx) eqn:E; [gb_bool; lra|].
  unfold log_fold. destruct (Qltb mn 0) eqn:S; [gb_bool; lra|]. fold e.
  destruct (find_level o (log_count e false) 0) as [l| |] eqn:F; try discriminate.
  unfold log_ticks_at'. intros [= <- <-]. exists l.
  pose proof (find_level_lowest o _ 0 lo hi l Hbd (log_count_nonincreasing e Hexp lo hi H0) F) as (B & Fit & Low).
  split; [exact B|]. split; [reflexivity|]. split; [reflexivity|]. split; [exact Fit|]. split; [exact Low|].
  intros Hl. rewrite <- (log_count_is_length b e mn mx Hexp l Hl). exact Fit.
Qed.

(* ---------- negative domains: negate and reverse ---------- *)
Lemma neg_rev_In l v : In v (neg_rev l) <-> exists w, In w l /\ v = Qopp w.
Proof. unfold neg_rev. rewrite <- in_rev, in_map_iff. split; intros (w & A & B); exists w; auto. Qed.
Lemma neg_rev_length l : length (neg_rev l) = length l.
Proof. unfold neg_rev. now rewrite rev_length, map_length. Qed.

(* ---------- Nice(o) (log.go:209-232, repaired): never shrinks the domain ---------- *)
Lemma log_nice_expands b mn mx o a c : (mn <= mx)%Q ->
  log_nice b mn mx o = (a, c) -> (a <= mn /\ mx <= c)%Q.
Proof.
  intros Ho. unfold log_nice, log_nice_gen. destruct (Qeqb mn mx); [intros [= <- <-]; split; lra|].
  unfold log_fold. destruct (Qltb mn 0).
  - destruct (find_level o _ 0) as [l| |]; [| intros [= <- <-]; split; lra | intros [= <- <-]; split; lra].
    destruct (log_first_last _ true l) as [f la].
    set (nmn := qpow b (f * 2 ^ l)). set (nmx := qpow b (la * 2 ^ l)).
    intros [= <- <-]. split.
    + destruct (log_end_ok b (2 ^ l) la nmx && Qleb (- mn) nmx) eqn:G; [|lra].
      apply andb_true_iff in G. destruct G as [_ G]. gb_bool. lra.
    + destruct (log_end_ok b (2 ^ l) f nmn && Qleb nmn (- mx)) eqn:G; [|lra].
      apply andb_true_iff in G. destruct G as [_ G]. gb_bool. lra.
  - destruct (find_level o _ 0) as [l| |]; [| intros [= <- <-]; split; lra | intros [= <- <-]; split; lra].
    destruct (log_first_last _ true l) as [f la].
    set (nmn := qpow b (f * 2 ^ l)). set (nmx := qpow b (la * 2 ^ l)).
    intros [= <- <-]. split.
    + destruct (log_end_ok b (2 ^ l) f nmn && Qleb nmn mn) eqn:G; [|lra].
      apply andb_true_iff in G. destruct G as [_ G]. gb_bool. lra.
    + destruct (log_end_ok b (2 ^ l) la nmx && Qleb mx nmx) eqn:G; [|lra].
      apply andb_true_iff in G. destruct G as [_ G]. gb_bool. lra.
Qed.

(* a moved end is a power of the base (with an exponent that is a multiple of 2^level) and a
   positive finite float64 *)
Lemma log_nice_ends_are_powers b mn mx o a c : (0 < mn)%Q -> (mn < mx)%Q ->
  log_nice b mn mx o = (a, c) ->
  (a = mn \/ exists n, a = qpow b n /\ f64_pos_ok a = true) /\
  (c = mx \/ exists n, c = qpow b n /\ f64_pos_ok c = true).
Proof.
  intros Hp Hlt. unfold log_nice, log_nice_gen. destruct (Qeqb mn mx) eqn:E; [gb_bool; lra|].
  unfold log_fold. destruct (Qltb mn 0) eqn:S; [gb_bool; lra|].
  destruct (find_level o _ 0) as [l| |]; [| intros [= <- <-]; split; left; reflexivity | intros [= <- <-]; split; left; reflexivity].
  destruct (log_first_last _ true l) as [f la].
  set (nmn := qpow b (f * 2 ^ l)). set (nmx := qpow b (la * 2 ^ l)).
  intros [= <- <-]. split.
  - destruct (log_end_ok b (2 ^ l) f nmn && Qleb nmn mn) eqn:G; [|left; reflexivity].
    apply andb_true_iff in G. destruct G as [G _]. unfold log_end_ok in G. apply andb_true_iff in G. destruct G as [_ G].
    right. exists (f * 2 ^ l). split; [reflexivity | exact G].
  - destruct (log_end_ok b (2 ^ l) la nmx && Qleb mx nmx) eqn:G; [|left; reflexivity].
    apply andb_true_iff in G. destruct G as [G _]. unfold log_end_ok in G. apply andb_true_iff in G. destruct G as [_ G].
    right. exists (la * 2 ^ l). split; [reflexivity | exact G].
Qed.

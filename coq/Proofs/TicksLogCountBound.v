(* Proofs/TicksLogCountBound.v — (group hM) C17: on a Log domain whose (folded, positive) ends are positive finite
   float64 values (f64_pos_ok: 2^-1074 <= q < 2^1024) every admitted exponent of every base >= 2 lies in
   [-1074, 1024], so the level-0 tick counts are at most 2100: the hypotheses
   `log_count e false 0 <= MAXINT` / `log_count e true 0 <= MAXINT` of the Log theorems hold on every domain the
   Go code can hold.  Closed under the global context. *)
From Coq Require Import Lqa Lia ZArith QArith Qround Qpower.
From MM Require Import Base.Num Base.GBLemmas Model.Ticks Proofs.Ticks Proofs.TicksLinear Proofs.TicksLog Proofs.TicksLogExp Proofs.TicksCheck.
Local Open Scope Z_scope.

Lemma qpow_neg_le_pow2 b m : 2 <= b -> 0 <= m -> (qpow b (- m) <= qpow 2 (- m))%Q.
Proof.
  intros Hb Hm. pose proof (qpow_neg_mul b m Hb Hm) as E1. pose proof (qpow_neg_mul 2 m ltac:(lia) Hm) as E2.
  pose proof (qpow_pos b (- m) ltac:(lia)) as P1. pose proof (qpow_pos 2 (- m) ltac:(lia)) as P2.
  assert (L : (inject_Z (2 ^ m) <= inject_Z (b ^ m))%Q) by (rewrite <- Zle_Qle; apply Z.pow_le_mono_l; lia).
  assert (P3 : (0 < inject_Z (2 ^ m))%Q) by (change 0%Q with (inject_Z 0); rewrite <- Zlt_Qlt; apply Z.pow_pos_nonneg; lia).
  (* x * B == 1, y * A == 1, A <= B, all positive  ->  x <= y *)
  set (x := qpow b (- m)) in *. set (y := qpow 2 (- m)) in *. set (A := inject_Z (2 ^ m)) in *. set (B := inject_Z (b ^ m)) in *.
  clearbody x y A B. nra.
Qed.

Section Bound.
Variables (b : Z) (q : Q).
Hypothesis Hb : 2 <= b.
Hypothesis Hq : f64_pos_ok q = true.

Lemma f64_pos : (0 < q)%Q /\ (qpow 2 (-1074) <= q)%Q /\ (q < qpow 2 1024)%Q.
Proof.
  unfold f64_pos_ok in Hq. apply andb_prop in Hq. destruct Hq as [H1 H2]. gb_bool.
  split; [|split; assumption]. apply Qlt_le_trans with (qpow 2 (-1074)); [apply qpow_pos; lia|exact H1].
Qed.

Lemma floor_log_f64 : -1074 <= floor_log b q <= 1023.
Proof.
  destruct f64_pos as (P & L & U). split.
  - apply (floor_log_greatest b q Hb P). apply Qle_trans with (qpow 2 (-1074)); [|exact L].
    exact (qpow_neg_le_pow2 b 1074 Hb ltac:(lia)).
  - destruct (Z_le_gt_dec (floor_log b q) 1023) as [H|H]; [exact H|exfalso].
    assert (H' : 1024 <= floor_log b q) by lia. apply (floor_log_greatest b q Hb P) in H'.
    pose proof (qpow_ge_pow2 b 1024 Hb ltac:(lia)) as G. rewrite <- (qpow_nonneg_eq 2 1024 ltac:(lia)) in G. lra.
Qed.
Lemma ceil_log_f64 : -1074 <= ceil_log b q <= 1024.
Proof.
  pose proof floor_log_f64. unfold ceil_log. destruct (Qeqb (qpow b (floor_log b q)) q); lia.
Qed.
End Bound.

Lemma cdiv_1 a : cdiv a 1 = a.
Proof. unfold cdiv. rewrite Z.div_1_r. lia. Qed.

Theorem log_counts_bounded_f64 : forall b emin emax, 2 <= b -> f64_pos_ok emin = true -> f64_pos_ok emax = true ->
  let e := log_exps b emin emax in
  log_count e false 0 <= 2100 /\ log_count e true 0 <= 2100 /\ 2100 <= MAXINT /\
  -1074 <= le_in_lo e <= 1024 /\ -1074 <= le_in_hi e <= 1024 /\ -1074 <= le_out_lo e <= 1024 /\ -1074 <= le_out_hi e <= 1024.
Proof.
  intros b emin emax Hb H1 H2. cbv zeta.
  pose proof (floor_log_f64 b emin Hb H1). pose proof (ceil_log_f64 b emin Hb H1).
  pose proof (floor_log_f64 b emax Hb H2). pose proof (ceil_log_f64 b emax Hb H2).
  unfold log_count, log_first_last, log_exps. cbv zeta. cbn [Z.ltb Z.compare le_in_lo le_in_hi le_out_lo le_out_hi].
  change (2 ^ 0) with 1. rewrite !cdiv_1, !Z.div_1_r. unfold MAXINT.
  repeat match goal with |- context [if ?c then _ else _] => destruct c end; lia.
Qed.

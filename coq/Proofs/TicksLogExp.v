(* Proofs/TicksLogExp.v — C17: the integer logarithms of Model/Ticks.v are the real-valued
   ones, stated with powers only:  floor_log b q = the greatest n with b^n <= q,
   ceil_log b q = the least n with b^n >= q  (b >= 2, q > 0, any rational q). *)
From Coq Require Import Lqa Lia ZArith QArith Qround Qpower.
From MM Require Import Base.Num Base.GBLemmas Model.Ticks Proofs.Ticks Proofs.TicksLinear Proofs.TicksLog.
Local Open Scope Z_scope.

Lemma qpow_nonneg_eq b e : 0 <= e -> qpow b e = inject_Z (b ^ e).
Proof. intros H. unfold qpow. apply Z.leb_le in H. now rewrite H. Qed.

(* b^-m * b^m = 1 *)
Lemma qpow_neg_mul b m : 2 <= b -> 0 <= m -> (qpow b (- m) * inject_Z (b ^ m) == 1)%Q.
Proof.
  intros Hb Hm. rewrite <- (qpow_nonneg_eq b m Hm). rewrite !qpow_Qpower by lia.
  rewrite <- Qpower_plus by (apply inject_nz; lia). replace (- m + m) with 0 by lia. reflexivity.
Qed.

Lemma qpow_le b e1 e2 : 2 <= b -> e1 <= e2 -> (qpow b e1 <= qpow b e2)%Q.
Proof. intros Hb H. destruct (Z.eq_dec e1 e2) as [->|N]; [lra|]. apply Qlt_le_weak, qpow_lt; lia. Qed.

Section FloorLog.
Variables (b : Z) (q : Q).
Hypothesis Hb : 2 <= b.
Hypothesis Hq : (0 < q)%Q.

Lemma pow_b_pos n : 0 <= n -> 0 < b ^ n.
Proof. intros. apply Z.pow_pos_nonneg; lia. Qed.

(* the upward search: p = b^n <= q, q < b^(n + fuel) *)
Lemma flog_up_spec : forall fuel p n, 0 <= n -> p = b ^ n -> (inject_Z p <= q)%Q ->
  (q < inject_Z (b ^ (n + Z.of_nat fuel)))%Q ->
  let r := flog_up fuel b q p n in n <= r /\ (inject_Z (b ^ r) <= q)%Q /\ (q < inject_Z (b ^ (r + 1)))%Q.
Proof.
  induction fuel as [|fuel IH]; intros p n Hn Hp L U.
  - exfalso. rewrite Z.add_0_r, <- Hp in U. lra.
  - cbn [flog_up]. destruct (Qleb (inject_Z (p * b)) q) eqn:E.
    + gb_bool. assert (Hp' : p * b = b ^ (n + 1)) by (rewrite Z.pow_add_r, Z.pow_1_r by lia; now rewrite Hp).
      destruct (IH (p * b) (n + 1) ltac:(lia) Hp' E) as (R1 & R2 & R3).
      * replace (n + 1 + Z.of_nat fuel) with (n + Z.of_nat (S fuel)) by lia. exact U.
      * cbv zeta. split; [lia|]. split; assumption.
    + gb_bool. cbv zeta. split; [lia|]. split; [now rewrite <- Hp|].
      rewrite Z.pow_add_r, Z.pow_1_r, <- Hp by lia. exact E.
Qed.

(* the downward search: p = b^m, q b^(m-1) < 1, and 1 <= q b^(m + fuel - 1) *)
Lemma flog_down_spec : forall fuel p m, 1 <= m -> p = b ^ m -> (q * inject_Z (b ^ (m - 1)) < 1)%Q ->
  (1 <= q * inject_Z (b ^ (m + Z.of_nat fuel - 1)))%Q ->
  let r := flog_down fuel b q p m in r <= -1 /\ (1 <= q * inject_Z (b ^ (- r)))%Q /\ (q * inject_Z (b ^ (- r - 1)) < 1)%Q.
Proof.
  induction fuel as [|fuel IH]; intros p m Hm Hp L U.
  - exfalso. rewrite Z.add_0_r in U. lra.
  - cbn [flog_down]. destruct (Qleb 1 (q * inject_Z p)) eqn:E.
    + gb_bool. cbv zeta. rewrite Z.opp_involutive. split; [lia|]. split; [now rewrite <- Hp|].
      replace (m - 1) with (m - 1) by lia. exact L.
    + gb_bool. assert (Hp' : p * b = b ^ (m + 1)) by (rewrite Z.pow_add_r, Z.pow_1_r by lia; now rewrite Hp).
      apply (IH (p * b) (m + 1) ltac:(lia) Hp').
      * replace (m + 1 - 1) with m by lia. rewrite <- Hp. exact E.
      * replace (m + 1 + Z.of_nat fuel - 1) with (m + Z.of_nat (S fuel) - 1) by lia. exact U.
Qed.

(* fuel: 2^(log2 |num| + 1) > num and 2^(log2 den + 1) > den *)
Lemma num_pos : 0 < Qnum q.
Proof. unfold Qlt in Hq. cbn in Hq. lia. Qed.
Lemma q_le_num : (q <= inject_Z (Qnum q))%Q.
Proof. pose proof num_pos. pose proof (Pos2Z.is_pos (Qden q)). unfold Qle. cbn. apply Z.mul_le_mono_nonneg_l; lia. Qed.
Lemma q_den_ge1 : (1 <= q * inject_Z (Zpos (Qden q)))%Q.
Proof. pose proof num_pos. pose proof (Pos2Z.is_pos (Qden q)). unfold Qle. cbn. rewrite Z.mul_1_r, Pos.mul_1_r. assert (1 * QDen q <= Qnum q * QDen q) by (apply Z.mul_le_mono_nonneg_r; lia). lia. Qed.

Lemma pow2_le_powb n : 0 <= n -> 2 ^ n <= b ^ n.
Proof. intros. apply Z.pow_le_mono_l. lia. Qed.
Lemma lt_pow2_succ_log2 z : 0 < z -> z < 2 ^ (Z.log2 z + 1).
Proof. intros H. pose proof (Z.log2_spec z H). replace (Z.log2 z + 1) with (Z.succ (Z.log2 z)) by lia. lia. Qed.

Lemma log_fuel_ge : Z.log2 (Qnum q) + 1 <= Z.of_nat (log_fuel q) /\ Z.log2 (Zpos (Qden q)) + 1 <= Z.of_nat (log_fuel q).
Proof.
  unfold log_fuel. pose proof num_pos. rewrite Z.abs_eq by lia.
  pose proof (Z.log2_nonneg (Qnum q)). pose proof (Z.log2_nonneg (Zpos (Qden q))).
  rewrite Nat2Z.inj_add, Z2Nat.id by lia. change (Z.of_nat 2) with 2. lia.
Qed.

(* floor_log b q is an exponent n with b^n <= q < b^(n+1) *)
Theorem floor_log_spec : (qpow b (floor_log b q) <= q)%Q /\ (q < qpow b (floor_log b q + 1))%Q.
Proof.
  unfold floor_log. destruct log_fuel_ge as [Fn Fd]. destruct (Qleb 1 q) eqn:E; gb_bool.
  - destruct (flog_up_spec (log_fuel q) 1 0 ltac:(lia) eq_refl E) as (R0 & R1 & R2).
    + rewrite Z.add_0_l. apply Qle_lt_trans with (inject_Z (Qnum q)); [apply q_le_num|].
      rewrite <- Zlt_Qlt. pose proof (lt_pow2_succ_log2 (Qnum q) num_pos).
      pose proof (Z.log2_nonneg (Qnum q)).
      assert (2 ^ (Z.log2 (Qnum q) + 1) <= 2 ^ Z.of_nat (log_fuel q)) by (apply Z.pow_le_mono_r; lia).
      pose proof (pow2_le_powb (Z.of_nat (log_fuel q)) ltac:(lia)). lia.
    + cbv zeta in *. rewrite !qpow_nonneg_eq by lia. split; assumption.
  - destruct (flog_down_spec (log_fuel q) b 1 ltac:(lia) ltac:(now rewrite Z.pow_1_r)) as (R0 & R1 & R2).
    + replace (1 - 1) with 0 by lia. change (inject_Z (b ^ 0)) with 1%Q. lra.
    + apply Qle_trans with (q * inject_Z (Zpos (Qden q)))%Q; [apply q_den_ge1|].
      apply Qmult_le_l; [exact Hq|]. rewrite <- Zle_Qle.
      pose proof (lt_pow2_succ_log2 (Zpos (Qden q)) ltac:(lia)). pose proof (Z.log2_nonneg (Zpos (Qden q))).
      assert (2 ^ (Z.log2 (Zpos (Qden q)) + 1) <= 2 ^ (1 + Z.of_nat (log_fuel q) - 1)) by (apply Z.pow_le_mono_r; lia).
      pose proof (pow2_le_powb (1 + Z.of_nat (log_fuel q) - 1) ltac:(lia)). lia.
    + cbv zeta in *. set (r := flog_down (log_fuel q) b q b 1) in *.
      pose proof (qpow_neg_mul b (- r) Hb ltac:(lia)) as M1. rewrite Z.opp_involutive in M1.
      pose proof (qpow_neg_mul b (- r - 1) Hb ltac:(lia)) as M2. replace (- (- r - 1)) with (r + 1) in M2 by lia.
      pose proof (qpow_pos b r ltac:(lia)) as P1. pose proof (qpow_pos b (r + 1) ltac:(lia)) as P2.
      assert (B1 : (0 < inject_Z (b ^ (- r)))%Q) by (change 0%Q with (inject_Z 0); rewrite <- Zlt_Qlt; apply pow_b_pos; lia).
      assert (B2 : (0 < inject_Z (b ^ (- r - 1)))%Q) by (change 0%Q with (inject_Z 0); rewrite <- Zlt_Qlt; apply pow_b_pos; lia).
      split.
      * (* qpow b r <= q  <=  qpow b r * B <= q * B  with B = b^-r > 0 *)
        apply Qmult_le_r with (z := inject_Z (b ^ (- r))); [exact B1|]. rewrite M1. exact R1.
      * apply Qmult_lt_r with (z := inject_Z (b ^ (- r - 1))); [exact B2|]. rewrite M2. exact R2.
Qed.

(* ... the ONLY such exponent: n <= floor_log b q  <->  b^n <= q *)
Theorem floor_log_greatest n : n <= floor_log b q <-> (qpow b n <= q)%Q.
Proof.
  destruct floor_log_spec as [L U]. split; intros H.
  - apply Qle_trans with (qpow b (floor_log b q)); [apply qpow_le; assumption | exact L].
  - destruct (Z_lt_le_dec (floor_log b q) n) as [G|G]; [|exact G]. exfalso.
    assert (qpow b (floor_log b q + 1) <= qpow b n)%Q by (apply qpow_le; lia). lra.
Qed.

(* ceil_log b q is the least exponent n with q <= b^n *)
Theorem ceil_log_spec : (qpow b (ceil_log b q - 1) < q)%Q /\ (q <= qpow b (ceil_log b q))%Q.
Proof.
  destruct floor_log_spec as [L U]. unfold ceil_log. destruct (Qeqb (qpow b (floor_log b q)) q) eqn:E; gb_bool.
  - split; [|lra]. pose proof (qpow_lt b (floor_log b q - 1) (floor_log b q) Hb ltac:(lia)). lra.
  - replace (floor_log b q + 1 - 1) with (floor_log b q) by lia. split; [|lra].
    destruct (Qlt_le_dec (qpow b (floor_log b q)) q) as [A|A]; [exact A|]. exfalso. apply E. lra.
Qed.
Theorem ceil_log_least n : ceil_log b q <= n <-> (q <= qpow b n)%Q.
Proof.
  destruct ceil_log_spec as [L U]. split; intros H.
  - apply Qle_trans with (qpow b (ceil_log b q)); [exact U | apply qpow_le; assumption].
  - destruct (Z_lt_le_dec n (ceil_log b q)) as [G|G]; [|exact G]. exfalso.
    assert (qpow b n <= qpow b (ceil_log b q - 1))%Q by (apply qpow_le; lia). lra.
Qed.
End FloorLog.

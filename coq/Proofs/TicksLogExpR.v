(* Proofs/TicksLogExpR.v — (group hM) C17: the admitted exponent interval of [log_exps] (Model/Ticks.v) IS the
   real-valued one of log.go:118-131 whenever no slack decision is undecided (le_amb = false):
        lmin = log_b emin,  lmax = log_b emax,  slack = 1e-10 (lmax - lmin)
        le_in_lo  = ceil  (lmin - slack)      le_in_hi  = floor (lmax + slack)        (roundOut = false)
        le_out_lo = floor (lmin + slack)      le_out_hi = ceil  (lmax - slack)        (roundOut = true)
   floor/ceil are stated by their universal properties over the integers.  Composition of
   floor_log_spec / ceil_log_spec (Proofs/TicksLogExp.v: the integer logarithms) with near_inside_sound /
   near_outside_sound (Proofs/TicksNearR.v: the three-valued decision encloses the real rule).
   Hypothesis slack < 1: the domain ratio emax/emin is below Base^(10^10) (every float64 domain is).
   Real numbers: stdlib axioms only. *)
From Coq Require Import Reals Lra Lia ZArith QArith Qreals Qround Qpower.
From Coq Require Lqa.
From MM Require Import Base.Num Base.GBLemmas Model.Ticks Proofs.Ticks Proofs.TicksLinear Proofs.TicksLog
  Proofs.TicksLogExp Proofs.TicksNearR.
Local Open Scope R_scope.

Lemma Q2R_inject_Z z : Q2R (inject_Z z) = IZR z.
Proof. unfold Q2R. cbn. field. Qed.

Lemma Q2R_pos q : (0 < q)%Q -> 0 < Q2R q.
Proof. intro H. replace 0 with (Q2R 0) by (unfold Q2R; cbn; lra). now apply Qlt_Rlt. Qed.

(* ln (b^n) = n ln b for every integer n *)
Lemma ln_qpow b n : (2 <= b)%Z -> ln (Q2R (qpow b n)) = IZR n * ln (IZR b).
Proof.
  intro Hb.
  assert (Hbp : 0 < IZR b) by (apply IZR_lt; lia).
  assert (Nonneg : forall k : nat, ln (Q2R (qpow b (Z.of_nat k))) = IZR (Z.of_nat k) * ln (IZR b)).
  { induction k as [|k IH].
    - cbn. unfold qpow. cbn. rewrite Q2R_inject_Z. rewrite ln_1. lra.
    - rewrite Nat2Z.inj_succ. unfold Z.succ.
      rewrite (Qeq_eqR _ _ (qpow_succ b (Z.of_nat k) ltac:(lia))). rewrite Q2R_mult, Q2R_inject_Z.
      rewrite ln_mult; [|exact Hbp|apply Q2R_pos, qpow_pos; lia]. rewrite IH, plus_IZR. lra. }
  destruct (Z_le_gt_dec 0 n) as [Hn|Hn].
  - rewrite <- (Z2Nat.id n Hn). apply Nonneg.
  - pose proof (qpow_neg_mul b (- n) Hb ltac:(lia)) as E. replace (- - n)%Z with n in E by lia.
    rewrite <- (qpow_nonneg_eq b (- n) ltac:(lia)) in E. apply Qeq_eqR in E. rewrite Q2R_mult in E.
    replace (Q2R 1) with 1 in E by (unfold Q2R; cbn; lra).
    assert (P1 : 0 < Q2R (qpow b n)) by (apply Q2R_pos, qpow_pos; lia).
    assert (P2 : 0 < Q2R (qpow b (- n))) by (apply Q2R_pos, qpow_pos; lia).
    assert (L : ln (Q2R (qpow b n)) + ln (Q2R (qpow b (- n))) = 0) by (rewrite <- ln_mult by assumption; rewrite E; apply ln_1).
    pose proof (Nonneg (Z.to_nat (- n))) as H. rewrite Z2Nat.id in H by lia. rewrite H, opp_IZR in L. lra.
Qed.

Section Exps.
Variables (b : Z) (emin emax : Q).
Hypothesis Hb : (2 <= b)%Z.
Hypothesis Hmin : (0 < emin)%Q.
Hypothesis Hle : (emin <= emax)%Q.

Let LB := ln (IZR b).
Let lmin := ln (Q2R emin) / LB.
Let lmax := ln (Q2R emax) / LB.
Let slack := Q2R slack_factor * (lmax - lmin).
Let e := log_exps b emin emax.
Let t := (emax / emin)%Q.
Let mu := log_mu emin emax.

Lemma LB_pos : 0 < LB.
Proof. unfold LB. rewrite <- ln_1. apply ln_increasing; [lra|]. apply IZR_lt. lia. Qed.

Lemma Hmax : (0 < emax)%Q. Proof. apply Qlt_le_trans with emin; assumption. Qed.
Lemma t_ge1 : (1 <= t)%Q.
Proof. unfold t. apply Qle_shift_div_l; [exact Hmin|]. rewrite Qmult_1_l. exact Hle. Qed.
Lemma mu_pos : 0 < Q2R mu.
Proof.
  apply Q2R_pos. unfold mu, log_mu.
  assert (Hq : forall q, (0 < qbits q)%Q).
  { intro q. unfold qbits. change 0%Q with (inject_Z 0). rewrite <- Zlt_Qlt.
    pose proof (Z.log2_nonneg (Z.abs (Qnum q))). pose proof (Z.log2_nonneg (Z.pos (Qden q))). lia. }
  pose proof (Hq emin). pose proof (Hq emax).
  apply Qmult_lt_0_compat; [reflexivity|]. Lqa.lra.
Qed.

(* SF ln T = slack * ln b *)
Lemma slack_lnT : Q2R slack_factor * ln (Q2R t) = slack * LB.
Proof.
  unfold slack, lmax, lmin, t. pose proof LB_pos.
  assert (Ne : ~ (emin == 0)%Q) by (intro X; rewrite X in Hmin; revert Hmin; apply Qlt_irrefl).
  rewrite Q2R_div by exact Ne. unfold Rdiv at 1. rewrite ln_mult; [|apply Q2R_pos, Hmax|apply Rinv_0_lt_compat, Q2R_pos, Hmin].
  rewrite ln_Rinv by (apply Q2R_pos, Hmin). field. lra.
Qed.

Lemma slack_nonneg : 0 <= slack.
Proof.
  pose proof LB_pos. pose proof slack_lnT as E.
  assert (0 <= ln (Q2R t)).
  { rewrite <- ln_1. apply ln_le_mono; [lra|]. replace 1 with (Q2R 1) by (unfold Q2R; cbn; lra). apply Qle_Rle, t_ge1. }
  assert (0 < Q2R slack_factor) by (unfold slack_factor, Q2R; cbn; lra).
  assert (0 <= slack * LB) by (rewrite <- E; apply Rmult_le_pos; lra). nra.
Qed.

(* the integer logarithms bracket the real ones *)
Lemma lb_floor q : (0 < q)%Q -> IZR (floor_log b q) <= ln (Q2R q) / LB < IZR (floor_log b q) + 1.
Proof.
  intro Hq. destruct (floor_log_spec b q Hb Hq) as [L U]. pose proof LB_pos as P.
  apply Qle_Rle in L. apply Qlt_Rlt in U.
  apply ln_le_mono in L; [|apply Q2R_pos, qpow_pos; lia].
  apply ln_increasing in U; [|apply Q2R_pos, Hq].
  rewrite ln_qpow in L, U by exact Hb. rewrite plus_IZR in U. fold LB in L, U.
  split.
  - apply Rmult_le_reg_r with LB; [exact P|]. unfold Rdiv. rewrite Rmult_assoc, Rinv_l by lra. lra.
  - apply Rmult_lt_reg_r with LB; [exact P|]. unfold Rdiv. rewrite Rmult_assoc, Rinv_l by lra. lra.
Qed.
Lemma lb_ceil q : (0 < q)%Q -> IZR (ceil_log b q) - 1 < ln (Q2R q) / LB <= IZR (ceil_log b q).
Proof.
  intro Hq. destruct (ceil_log_spec b q Hb Hq) as [L U]. pose proof LB_pos as P.
  apply Qlt_Rlt in L. apply Qle_Rle in U.
  apply ln_increasing in L; [|apply Q2R_pos, qpow_pos; lia].
  apply ln_le_mono in U; [|apply Q2R_pos, Hq].
  rewrite ln_qpow in L, U by exact Hb. rewrite minus_IZR in L. fold LB in L, U.
  split.
  - apply Rmult_lt_reg_r with LB; [exact P|]. unfold Rdiv. rewrite Rmult_assoc, Rinv_l by lra. lra.
  - apply Rmult_le_reg_r with LB; [exact P|]. unfold Rdiv. rewrite Rmult_assoc, Rinv_l by lra. lra.
Qed.

(* a decision of [near] between a power b^n and a positive q, in log_b units: d = |log_b q - n| *)
Lemma near_small_pow n q : (0 < q)%Q -> (qpow b n <= q)%Q ->
  (near (qpow b n) q t mu = N_inside -> ln (Q2R q) / LB - IZR n <= slack) /\
  (near (qpow b n) q t mu = N_outside -> slack < ln (Q2R q) / LB - IZR n).
Proof.
  intros Hq Hle'. pose proof LB_pos as P. pose proof mu_pos as PM.
  assert (Hp : (0 < qpow b n)%Q) by (apply qpow_pos; lia).
  assert (E : ln (Q2R q / Q2R (qpow b n)) = (ln (Q2R q) / LB - IZR n) * LB).
  { unfold Rdiv at 1. rewrite ln_mult; [|apply Q2R_pos, Hq|apply Rinv_0_lt_compat, Q2R_pos, Hp].
    rewrite ln_Rinv by (apply Q2R_pos, Hp). rewrite ln_qpow by exact Hb. fold LB. field. lra. }
  split; intro N.
  - pose proof (near_inside_sound _ _ _ _ Hp Hle' t_ge1 N) as S. rewrite E, slack_lnT in S. nra.
  - pose proof (near_outside_sound _ _ _ _ Hp Hle' t_ge1 N) as S. rewrite E, slack_lnT in S. nra.
Qed.
Lemma near_big_pow n q : (0 < q)%Q -> (q <= qpow b n)%Q ->
  (near q (qpow b n) t mu = N_inside -> IZR n - ln (Q2R q) / LB <= slack) /\
  (near q (qpow b n) t mu = N_outside -> slack < IZR n - ln (Q2R q) / LB).
Proof.
  intros Hq Hle'. pose proof LB_pos as P. pose proof mu_pos as PM.
  assert (Hp : (0 < qpow b n)%Q) by (apply qpow_pos; lia).
  assert (E : ln (Q2R (qpow b n) / Q2R q) = (IZR n - ln (Q2R q) / LB) * LB).
  { unfold Rdiv at 1. rewrite ln_mult; [|apply Q2R_pos, Hp|apply Rinv_0_lt_compat, Q2R_pos, Hq].
    rewrite ln_Rinv by (apply Q2R_pos, Hq). rewrite ln_qpow by exact Hb. fold LB. field. lra. }
  split; intro N.
  - pose proof (near_inside_sound _ _ _ _ Hq Hle' t_ge1 N) as S. rewrite E, slack_lnT in S. nra.
  - pose proof (near_outside_sound _ _ _ _ Hq Hle' t_ge1 N) as S. rewrite E, slack_lnT in S. nra.
Qed.

(* a rational sufficient condition for slack < 1: the ends are within a factor b^k, k < 10^10 *)
Lemma slack_lt_1 k : (0 <= k < 10 ^ 10)%Z -> (emax <= emin * qpow b k)%Q -> slack < 1.
Proof.
  intros Hk Hr. pose proof LB_pos as P. unfold slack, lmax, lmin.
  apply Qle_Rle in Hr. rewrite Q2R_mult in Hr.
  pose proof (Q2R_pos _ Hmin) as P1. pose proof (Q2R_pos _ Hmax) as P2.
  assert (P3 : 0 < Q2R (qpow b k)) by (apply Q2R_pos, qpow_pos; lia).
  apply ln_le_mono in Hr; [|exact P2]. rewrite ln_mult in Hr by assumption. rewrite ln_qpow in Hr by exact Hb. fold LB in Hr.
  assert (D : ln (Q2R emax) / LB - ln (Q2R emin) / LB <= IZR k).
  { apply Rmult_le_reg_r with LB; [exact P|]. unfold Rdiv. rewrite Rmult_minus_distr_r, !Rmult_assoc, Rinv_l by lra. lra. }
  assert (K : IZR k <= 9999999999) by (apply IZR_le; lia).
  assert (SFv : Q2R slack_factor = / 10000000000) by (unfold slack_factor, Q2R; cbn; lra).
  rewrite SFv. lra.
Qed.

Hypothesis Hslack : slack < 1.
Hypothesis Hamb : le_amb e = false.

Theorem log_exps_real :
  (forall n : Z, (le_in_lo e <= n)%Z <-> lmin - slack <= IZR n) /\
  (forall n : Z, (n <= le_in_hi e)%Z <-> IZR n <= lmax + slack) /\
  (forall n : Z, (n <= le_out_lo e)%Z <-> IZR n <= lmin + slack) /\
  (forall n : Z, (le_out_hi e <= n)%Z <-> lmax - slack <= IZR n).
Proof.
  pose proof slack_nonneg as S0. pose proof Hmax as Hmx.
  pose proof (lb_floor emin Hmin) as [F1 F2]. pose proof (lb_ceil emin Hmin) as [C1 C2].
  pose proof (lb_floor emax Hmx) as [G1 G2]. pose proof (lb_ceil emax Hmx) as [D1 D2].
  fold lmin in F1, F2, C1, C2. fold lmax in G1, G2, D1, D2.
  destruct (floor_log_spec b emin Hb Hmin) as [FL _]. destruct (ceil_log_spec b emin Hb Hmin) as [_ CU].
  destruct (floor_log_spec b emax Hb Hmx) as [GL _]. destruct (ceil_log_spec b emax Hb Hmx) as [_ DU].
  pose proof (near_small_pow (floor_log b emin) emin Hmin FL) as [N1i N1o].
  pose proof (near_big_pow (ceil_log b emax) emax Hmx DU) as [N2i N2o].
  pose proof (near_big_pow (ceil_log b emin) emin Hmin CU) as [N3i N3o].
  pose proof (near_small_pow (floor_log b emax) emax Hmx GL) as [N4i N4o].
  fold lmin in N1i, N1o, N3i, N3o. fold lmax in N2i, N2o, N4i, N4o.
  assert (FC : (floor_log b emin <= ceil_log b emin <= floor_log b emin + 1)%Z).
  { split; [apply le_IZR|apply lt_IZR in F2 as X || idtac].
    - lra.
    - assert (IZR (ceil_log b emin) < IZR (floor_log b emin) + 2) by lra.
      rewrite <- plus_IZR in H. apply lt_IZR in H. lia. }
  assert (GD : (floor_log b emax <= ceil_log b emax <= floor_log b emax + 1)%Z).
  { split; [apply le_IZR; lra|].
    assert (IZR (ceil_log b emax) < IZR (floor_log b emax) + 2) by lra.
    rewrite <- plus_IZR in H. apply lt_IZR in H. lia. }
  unfold e, log_exps in Hamb |- *. cbv zeta in Hamb |- *. fold t mu in Hamb |- *. cbn [le_amb le_in_lo le_in_hi le_out_lo le_out_hi] in Hamb |- *.
  apply Bool.orb_false_iff in Hamb. destruct Hamb as [Hamb' A4]. apply Bool.orb_false_iff in Hamb'. destruct Hamb' as [Hamb' A3].
  apply Bool.orb_false_iff in Hamb'. destruct Hamb' as [A1 A2].
  split; [|split; [|split]]; intro n.
  - destruct (near (qpow b (floor_log b emin)) emin t mu) eqn:K; [|clear A1|discriminate A1].
    + specialize (N1i eq_refl). split; intro H.
      * apply IZR_le in H. lra.
      * apply le_IZR. assert (IZR (floor_log b emin) - 1 < IZR n) by lra. rewrite <- minus_IZR in H0. apply lt_IZR in H0.
        apply IZR_le. lia.
    + specialize (N1o eq_refl). split; intro H.
      * apply IZR_le in H. lra.
      * assert (IZR (floor_log b emin) < IZR n) by lra. apply lt_IZR in H0.
        destruct (Z.eq_dec (ceil_log b emin) (floor_log b emin)) as [Eq|Ne]; [|lia].
        exfalso. rewrite Eq in C2. lra.
  - destruct (near emax (qpow b (ceil_log b emax)) t mu) eqn:K; [|clear A2|discriminate A2].
    + specialize (N2i eq_refl). split; intro H.
      * apply IZR_le in H. lra.
      * assert (IZR n < IZR (ceil_log b emax) + 1) by lra. rewrite <- plus_IZR in H0. apply lt_IZR in H0. lia.
    + specialize (N2o eq_refl). split; intro H.
      * apply IZR_le in H. lra.
      * assert (IZR n < IZR (ceil_log b emax)) by lra. apply lt_IZR in H0.
        destruct (Z.eq_dec (ceil_log b emax) (floor_log b emax)) as [Eq|Ne]; [|lia].
        exfalso. rewrite Eq in N2o. lra.
  - destruct (near emin (qpow b (ceil_log b emin)) t mu) eqn:K; [|clear A3|discriminate A3].
    + specialize (N3i eq_refl). split; intro H.
      * apply IZR_le in H. lra.
      * assert (IZR n < IZR (ceil_log b emin) + 1) by lra. rewrite <- plus_IZR in H0. apply lt_IZR in H0. lia.
    + specialize (N3o eq_refl). split; intro H.
      * apply IZR_le in H. lra.
      * assert (IZR n < IZR (ceil_log b emin)) by lra. apply lt_IZR in H0.
        destruct (Z.eq_dec (ceil_log b emin) (floor_log b emin)) as [Eq|Ne]; [|lia].
        exfalso. rewrite Eq in N3o. lra.
  - destruct (near (qpow b (floor_log b emax)) emax t mu) eqn:K; [|clear A4|discriminate A4].
    + specialize (N4i eq_refl). split; intro H.
      * apply IZR_le in H. lra.
      * apply le_IZR. assert (IZR (floor_log b emax) - 1 < IZR n) by lra. rewrite <- minus_IZR in H0. apply lt_IZR in H0.
        apply IZR_le. lia.
    + specialize (N4o eq_refl). split; intro H.
      * apply IZR_le in H. lra.
      * assert (IZR (floor_log b emax) < IZR n) by lra. apply lt_IZR in H0.
        destruct (Z.eq_dec (ceil_log b emax) (floor_log b emax)) as [Eq|Ne]; [|lia].
        exfalso. rewrite Eq in D2. lra.
Qed.
End Exps.

(* the same with the rational side condition: the ends are within a factor Base^k, k < 10^10 *)
Theorem log_exps_real_q : forall (b : Z) (emin emax : Q) (k : Z), (2 <= b)%Z -> (0 < emin)%Q -> (emin <= emax)%Q ->
  (0 <= k < 10 ^ 10)%Z -> (emax <= emin * qpow b k)%Q ->
  le_amb (log_exps b emin emax) = false ->
  let lmin := ln (Q2R emin) / ln (IZR b) in
  let lmax := ln (Q2R emax) / ln (IZR b) in
  let slack := Q2R slack_factor * (lmax - lmin) in
  let e := log_exps b emin emax in
  (forall n : Z, (le_in_lo e <= n)%Z <-> lmin - slack <= IZR n) /\
  (forall n : Z, (n <= le_in_hi e)%Z <-> IZR n <= lmax + slack) /\
  (forall n : Z, (n <= le_out_lo e)%Z <-> IZR n <= lmin + slack) /\
  (forall n : Z, (le_out_hi e <= n)%Z <-> lmax - slack <= IZR n).
Proof.
  intros b emin emax k Hb Hmin Hle Hk Hr Hamb. cbv zeta.
  exact (log_exps_real b emin emax Hb Hmin Hle (slack_lt_1 b emin emax Hb Hmin Hle k Hk Hr) Hamb).
Qed.

(* Proofs/TicksLogGroupM.v — (group hM) three Q-only facts about Log scales grouped for Properties/C17.v
   (one Print Assumptions): the exponent/count bounds on float64 domains (Proofs/TicksLogCountBound.v) and the
   ends of Nice on a negative domain (Proofs/TicksLogNeg.v), the minor-tick list is strictly ascending
   (Proofs/TicksLogMinorOrder.v).  Closed under the global context. *)
From Coq Require Import ZArith QArith List Sorted.
From MM Require Import Base.Num Model.Ticks Proofs.TicksLogCountBound Proofs.TicksLogNeg Proofs.TicksLogMinorOrder.
Local Open Scope Z_scope.

Lemma log_float_domain_facts :
  (forall b emin emax, 2 <= b -> f64_pos_ok emin = true -> f64_pos_ok emax = true ->
     let e := log_exps b emin emax in
     log_count e false 0 <= 2100 /\ log_count e true 0 <= 2100 /\ 2100 <= MAXINT /\
     -1074 <= le_in_lo e <= 1024 /\ -1074 <= le_in_hi e <= 1024 /\ -1074 <= le_out_lo e <= 1024 /\ -1074 <= le_out_hi e <= 1024) /\
  (forall b mn mx o a c, (mx < 0)%Q -> (mn < mx)%Q -> log_nice b mn mx o = (a, c) ->
     ((a == mn)%Q \/ exists n, a = (- qpow b n)%Q /\ f64_pos_ok (qpow b n) = true) /\
     ((c == mx)%Q \/ exists n, c = (- qpow b n)%Q /\ f64_pos_ok (qpow b n) = true)) /\
  (forall b e emin emax ro l, 2 <= b -> l < 0 -> StronglySorted Qlt (log_ticks_pos b e emin emax ro l)).
Proof. split; [exact log_counts_bounded_f64 | split; [exact log_nice_ends_are_powers_neg | exact log_minor_ticks_sorted]]. Qed.

(* Proofs/TicksLogGroupM.v — (group hM) four Q-only facts about Log scales grouped for Properties/C17.v
   (one Print Assumptions): the exponent/count bounds on float64 domains (Proofs/TicksLogCountBound.v) and the
   ends of Nice on a negative domain (Proofs/TicksLogNeg.v), the minor-tick list is strictly ascending
   (Proofs/TicksLogMinorOrder.v), every parsed Log case has float64 ends and bounded counts
   (Proofs/CheckC17LogRange.v).  Closed under the global context. *)
From Coq Require Import ZArith QArith List Sorted.
From MM Require Import Base.Num Model.Ticks Proofs.TicksLogCountBound Proofs.TicksLogNeg Proofs.TicksLogMinorOrder
  Check.C17 Proofs.CheckC17Log Proofs.CheckC17LogRange.
Local Open Scope Z_scope.

Lemma log_float_domain_facts :
  (forall b emin emax, 2 <= b -> f64_pos_ok emin = true -> f64_pos_ok emax = true ->
     let e := log_exps b emin emax in
     log_count e false 0 <= 2100 /\ log_count e true 0 <= 2100 /\ 2100 <= MAXINT /\
     -1074 <= le_in_lo e <= 1024 /\ -1074 <= le_in_hi e <= 1024 /\ -1074 <= le_out_lo e <= 1024 /\ -1074 <= le_out_hi e <= 1024) /\
  (forall b mn mx o a c, (mx < 0)%Q -> (mn < mx)%Q -> log_nice b mn mx o = (a, c) ->
     ((a == mn)%Q \/ exists n, a = (- qpow b n)%Q /\ f64_pos_ok (qpow b n) = true) /\
     ((c == mx)%Q \/ exists n, c = (- qpow b n)%Q /\ f64_pos_ok (qpow b n) = true)) /\
  (forall b e emin emax ro l, 2 <= b -> l < 0 -> StronglySorted Qlt (log_ticks_pos b e emin emax ro l)) /\
  (forall r c r', p_sccase r = Some (c, r') -> log_pre (sc_base c) (sc_mn c) (sc_mx c) = true ->
     let e := log_e (sc_base c) (sc_mn c) (sc_mx c) in
     (f64_pos_ok (lf_emin (sc_mn c) (sc_mx c)) = true /\ f64_pos_ok (lf_emax (sc_mn c) (sc_mx c)) = true) /\
     log_count e false 0 <= MAXINT /\ log_count e true 0 <= MAXINT).
Proof.
  split; [exact log_counts_bounded_f64 | split; [exact log_nice_ends_are_powers_neg | split; [exact log_minor_ticks_sorted|]]].
  intros r c r' H Hp. cbv zeta. split; [exact (log_case_domain_f64 r c r' H Hp) | exact (log_case_counts_bounded r c r' H Hp)].
Qed.

(* Proofs/TicksLogMinorOrder.v — (group hM) C17: the minor-tick list of a Log scale (TicksAtLevel(l < 0),
   log.go:160-174) is STRICTLY ASCENDING on the folded positive domain; with the membership theorem
   log_minor_ticks_spec (Proofs/CheckC17Log.v) the list is determined: the multiples j Base^k inside the
   domain in ascending order.  Closed under the global context. *)
From Coq Require Import Lqa Lia ZArith QArith Bool List Sorted.
From MM Require Import Base.Num Base.GBLemmas Model.Ticks Proofs.Ticks Proofs.TicksLinear Proofs.TicksLog Proofs.TicksLogExp
  Proofs.CheckC17Log.
Import ListNotations.
Local Open Scope Z_scope.

Lemma sorted_app (l1 l2 : list Q) : StronglySorted Qlt l1 -> StronglySorted Qlt l2 ->
  (forall x y, In x l1 -> In y l2 -> (x < y)%Q) -> StronglySorted Qlt (l1 ++ l2).
Proof.
  induction l1 as [|a l1 IH]; intros S1 S2 H; [exact S2|].
  apply StronglySorted_inv in S1. destruct S1 as [S1 F1]. cbn. constructor.
  - apply IH; [exact S1|exact S2|]. intros x y Hx Hy. apply H; [right; exact Hx|exact Hy].
  - apply Forall_app. split; [exact F1|]. apply Forall_forall. intros y Hy. apply H; [left; reflexivity|exact Hy].
Qed.

Lemma minor_run_sorted cnt : forall i step emin emax, (0 < step)%Q ->
  StronglySorted Qlt (minor_run cnt i step emin emax).
Proof.
  induction cnt as [|n IH]; intros i step emin emax Hs; cbn [minor_run]; [constructor|].
  apply sorted_app; [|apply IH; exact Hs|].
  - destruct (Qleb emin (inject_Z i * step) && Qleb (inject_Z i * step) emax); repeat constructor.
  - intros x y Hx Hy. destruct (Qleb emin (inject_Z i * step) && Qleb (inject_Z i * step) emax); [|destruct Hx].
    destruct Hx as [<-|[]]. apply minor_run_In in Hy. destruct Hy as (j & Hj & -> & _).
    assert (L : (inject_Z i < inject_Z j)%Q) by (rewrite <- Zlt_Qlt; lia). nra.
Qed.

Theorem minor_seq_sorted n : forall b f emin emax, 2 <= b -> StronglySorted Qlt (minor_seq n b f emin emax).
Proof.
  induction n as [|n IH]; intros b f emin emax Hb; cbn [minor_seq]; [constructor|].
  apply sorted_app; [apply minor_run_sorted, qpow_pos; lia|apply IH; exact Hb|].
  intros x y Hx Hy. apply minor_run_In in Hx. destruct Hx as (j & Hj & -> & _).
  apply minor_seq_In in Hy; [|lia]. destruct Hy as (k & j' & Hk & Hj' & -> & _).
  rewrite Z2Nat.id in Hj by lia.
  pose proof (qpow_pos b f ltac:(lia)) as P.
  pose proof (qpow_le b (f + 1) k Hb ltac:(lia)) as L. rewrite (qpow_succ b f ltac:(lia)) in L.
  assert (J : (inject_Z j <= inject_Z b - 1)%Q).
  { change 1%Q with (inject_Z 1). unfold Qminus. rewrite <- inject_Z_opp, <- inject_Z_plus, <- Zle_Qle. lia. }
  assert (J' : (1 <= inject_Z j')%Q) by (change 1%Q with (inject_Z 1); rewrite <- Zle_Qle; lia).
  pose proof (qpow_pos b k ltac:(lia)) as Pk.
  set (B := inject_Z b) in *. set (X := qpow b f) in *. set (Y := qpow b k) in *.
  set (u := inject_Z j) in *. set (w := inject_Z j') in *. clearbody B X Y u w. nra.
Qed.

(* TicksAtLevel(l < 0) on the folded positive domain is strictly ascending *)
Theorem log_minor_ticks_sorted b e emin emax ro l : 2 <= b -> l < 0 ->
  StronglySorted Qlt (log_ticks_pos b e emin emax ro l).
Proof.
  intros Hb Hl. unfold log_ticks_pos. replace (l <? 0) with true by (symmetry; now apply Z.ltb_lt).
  destruct (log_first_last e true 0) as [f la]. apply minor_seq_sorted. exact Hb.
Qed.

(* Proofs/TicksLogNeg.v — (group hM) C17: Log Nice on a NEGATIVE domain mn < mx < 0: each new end is the old
   one or minus a power of the base that is a positive finite float64 (the mirror image of
   log_nice_ends_are_powers, which is stated for positive domains).  The code folds the domain to
   [-mx, -mn], rounds out there and negates back (log.go ebounds / Nice).  Closed under the global context. *)
From Coq Require Import Lqa Lia ZArith QArith Bool.
From MM Require Import Base.Num Base.GBLemmas Model.Ticks Proofs.Ticks Proofs.TicksLog.
Local Open Scope Z_scope.

Lemma log_nice_ends_are_powers_neg b mn mx o a c : (mx < 0)%Q -> (mn < mx)%Q ->
  log_nice b mn mx o = (a, c) ->
  ((a == mn)%Q \/ exists n, a = (- qpow b n)%Q /\ f64_pos_ok (qpow b n) = true) /\
  ((c == mx)%Q \/ exists n, c = (- qpow b n)%Q /\ f64_pos_ok (qpow b n) = true).
Proof.
  intros Hn Hlt. unfold log_nice, log_nice_gen. destruct (Qeqb mn mx) eqn:E; [gb_bool; lra|].
  unfold log_fold. destruct (Qltb mn 0) eqn:S; [|gb_bool; lra].
  destruct (find_level o _ 0) as [l| |]; [| intros [= <- <-]; split; left; reflexivity | intros [= <- <-]; split; left; reflexivity].
  destruct (log_first_last _ true l) as [f la].
  set (nmn := qpow b (f * 2 ^ l)). set (nmx := qpow b (la * 2 ^ l)).
  intros [= <- <-]. split.
  - destruct (log_end_ok b (2 ^ l) la nmx && Qleb (- mn) nmx) eqn:G; [|left; ring].
    apply andb_true_iff in G. destruct G as [G _]. unfold log_end_ok in G. apply andb_true_iff in G. destruct G as [_ G].
    right. exists (la * 2 ^ l). split; [reflexivity | exact G].
  - destruct (log_end_ok b (2 ^ l) f nmn && Qleb nmn (- mx)) eqn:G; [|left; ring].
    apply andb_true_iff in G. destruct G as [G _]. unfold log_end_ok in G. apply andb_true_iff in G. destruct G as [_ G].
    right. exists (f * 2 ^ l). split; [reflexivity | exact G].
Qed.

(* Proofs/TicksLogNice.v — C17, Nice on Log scales: the rounded-out count is non-increasing
   in the level; a domain whose ends are the powers Nice rounded out to is a fixed point of
   Nice (idempotence when both ends landed on their powers), and its first and last major
   ticks are those ends. *)
From Coq Require Import Lqa Lia ZArith QArith Qround Qpower Sorted.
From MM Require Import Base.Num Base.GBLemmas Model.Ticks Proofs.Ticks Proofs.TicksLinear Proofs.TicksLog
  Proofs.TicksLogExp Proofs.TicksNice.
Local Open Scope Z_scope.

(* ---------- floor / ceiling division ---------- *)
Lemma fdiv_lt_iff c k n : 0 < k -> (c / k < n <-> c < n * k).
Proof. intros K. pose proof (fdiv_iff c k n K). lia. Qed.
Lemma cdiv_gt_iff a k n : 0 < k -> (n < cdiv a k <-> n * k < a).
Proof. intros K. pose proof (cdiv_iff a k n K). lia. Qed.

Section OutCount.
Variable e : logexp.
Hypothesis Hlh : le_out_lo e < le_out_hi e.

Lemma out_first_lt_last_log l : 0 <= l -> le_out_lo e / 2 ^ l < cdiv (le_out_hi e) (2 ^ l).
Proof.
  intros Hl. pose proof (pow2_pos l Hl) as K.
  apply cdiv_gt_iff; [exact K|].
  pose proof (proj1 (fdiv_iff (le_out_lo e) (2 ^ l) (le_out_lo e / 2 ^ l) K) ltac:(lia)). lia.
Qed.

(* THE ROUNDED-OUT COUNT OF A LOG SCALE IS NON-INCREASING IN THE LEVEL *)
Lemma log_count_out_step l : 0 <= l -> log_count e true (l + 1) <= log_count e true l.
Proof.
  intros Hl. unfold log_count, log_first_last.
  replace (l <? 0) with false by (symmetry; apply Z.ltb_ge; lia).
  replace (l + 1 <? 0) with false by (symmetry; apply Z.ltb_ge; lia).
  pose proof (pow2_pos l Hl) as K. rewrite Z.pow_add_r, Z.pow_1_r by lia.
  set (k := 2 ^ l) in *. set (lo := le_out_lo e) in *. set (hi := le_out_hi e) in *.
  assert (K2 : 0 < k * 2) by lia.
  pose proof (out_first_lt_last_log l Hl) as Lt. fold k lo hi in Lt.
  (* f <= 2 f' + 1 and 2 c' - 1 <= c *)
  assert (B : lo / k <= 2 * (lo / (k * 2)) + 1).
  { assert (X : lo / k < 2 * (lo / (k * 2)) + 2); [|lia].
    apply fdiv_lt_iff; [exact K|].
    pose proof (proj1 (fdiv_lt_iff lo (k * 2) (lo / (k * 2) + 1) K2) ltac:(lia)). lia. }
  assert (D : 2 * cdiv hi (k * 2) - 1 <= cdiv hi k).
  { assert (X : 2 * cdiv hi (k * 2) - 2 < cdiv hi k); [|lia].
    apply cdiv_gt_iff; [exact K|].
    pose proof (proj1 (cdiv_gt_iff hi (k * 2) (cdiv hi (k * 2) - 1) K2) ltac:(lia)). lia. }
  destruct (Z_le_dec 2 (cdiv hi (k * 2) - lo / (k * 2))); lia.
Qed.

Lemma log_count_out_nonincreasing lo hi : log_count e true 0 <= MAXINT ->
  nonincreasing (log_count e true) lo hi.
Proof.
  intros H0. apply nonincreasing_of_step. intros l.
  destruct (Z_lt_le_dec l (-1)) as [A|A].
  - unfold log_count. replace (l <? 0) with true by (symmetry; apply Z.ltb_lt; lia).
    replace (l + 1 <? 0) with true by (symmetry; apply Z.ltb_lt; lia). lia.
  - destruct (Z.eq_dec l (-1)) as [->|N].
    + change (-1 + 1) with 0. unfold log_count at 2. cbn [Z.ltb Z.compare]. exact H0.
    + apply log_count_out_step. lia.
Qed.
End OutCount.

(* ---------- the exponents Nice rounds out to are a fixed point of the level search ---------- *)
Section Fixed.
Variables (e e' : logexp) (o : tickopts) (l : Z).
Hypothesis Hlh : le_out_lo e < le_out_hi e.
Hypothesis H0 : log_count e true 0 <= MAXINT.
Hypothesis Hmax : o_max o < MAXINT.
Hypothesis Hl : find_level o (log_count e true) 0 = FL_ok l.
Let f := fst (log_first_last e true l).
Let la := snd (log_first_last e true l).
(* e' = the exponents of the niced domain: both ends on the powers Nice rounded out to *)
Hypothesis Hlo' : le_out_lo e' = f * 2 ^ l.
Hypothesis Hhi' : le_out_hi e' = la * 2 ^ l.
Hypothesis H0' : log_count e' true 0 <= MAXINT.

Lemma level_nonneg : 0 <= l.
Proof.
  destruct (level_bounds o) as [[lo hi]|] eqn:Hb; [|unfold find_level in Hl; rewrite Hb in Hl; discriminate].
  pose proof (find_level_lowest o _ 0 lo hi l Hb (log_count_out_nonincreasing e Hlh lo hi H0) Hl) as (_ & Fit & _).
  destruct (Z_lt_le_dec l 0) as [G|G]; [|exact G]. exfalso.
  unfold log_count in Fit. replace (l <? 0) with true in Fit by (symmetry; apply Z.ltb_lt; lia). lia.
Qed.

Lemma f_la : f = le_out_lo e / 2 ^ l /\ la = cdiv (le_out_hi e) (2 ^ l) /\ f < la.
Proof. unfold f, la, log_first_last. cbn [fst snd]. repeat split. apply out_first_lt_last_log; [exact Hlh | apply level_nonneg]. Qed.

Lemma e'_lt : le_out_lo e' < le_out_hi e'.
Proof. destruct f_la as (_ & _ & Lt). pose proof (pow2_pos l level_nonneg). rewrite Hlo', Hhi'. nia. Qed.

Lemma first_last_e' : log_first_last e' true l = (f, la).
Proof.
  pose proof (pow2_pos l level_nonneg) as K. unfold log_first_last. rewrite Hlo', Hhi'. f_equal.
  - now rewrite Z.div_mul by lia.
  - unfold cdiv. rewrite <- Z.mul_opp_l, Z.div_mul by lia. lia.
Qed.

(* at every level 0 <= j <= l the niced exponents give at least the old count *)
Lemma count_e'_ge j : 0 <= j <= l -> log_count e true j <= log_count e' true j.
Proof.
  intros Hj. unfold log_count, log_first_last.
  replace (j <? 0) with false by (symmetry; apply Z.ltb_ge; lia).
  pose proof (pow2_pos j ltac:(lia)) as Kj. pose proof (pow2_pos (l - j) ltac:(lia)) as Kd.
  assert (E : 2 ^ l = 2 ^ (l - j) * 2 ^ j) by (rewrite <- Z.pow_add_r by lia; f_equal; lia).
  destruct f_la as (Ef & Ela & _). pose proof (pow2_pos l level_nonneg) as K.
  rewrite Hlo', Hhi', E, !Z.mul_assoc. rewrite Z.div_mul by lia.
  assert (C' : cdiv (la * 2 ^ (l - j) * 2 ^ j) (2 ^ j) = la * 2 ^ (l - j)).
  { unfold cdiv. rewrite <- Z.mul_opp_l, Z.div_mul by lia. lia. }
  rewrite C'.
  (* f 2^(l-j) <= lo / 2^j  and  cdiv hi 2^j <= la 2^(l-j) *)
  assert (A : f * 2 ^ (l - j) <= le_out_lo e / 2 ^ j).
  { apply fdiv_iff; [exact Kj|]. rewrite <- Z.mul_assoc, <- E.
    rewrite Ef. pose proof (proj1 (fdiv_iff (le_out_lo e) (2 ^ l) (le_out_lo e / 2 ^ l) K) ltac:(lia)). lia. }
  assert (B : cdiv (le_out_hi e) (2 ^ j) <= la * 2 ^ (l - j)).
  { apply cdiv_iff; [exact Kj|]. rewrite <- Z.mul_assoc, <- E.
    rewrite Ela. pose proof (proj1 (cdiv_iff (le_out_hi e) (2 ^ l) (cdiv (le_out_hi e) (2 ^ l)) K) ltac:(lia)). lia. }
  lia.
Qed.

Theorem find_level_niced : find_level o (log_count e' true) 0 = FL_ok l.
Proof.
  destruct (level_bounds o) as [[lo hi]|] eqn:Hb; [|unfold find_level in Hl; rewrite Hb in Hl; discriminate].
  pose proof (find_level_lowest o _ 0 lo hi l Hb (log_count_out_nonincreasing e Hlh lo hi H0) Hl) as (Lb & Fit & Low).
  pose proof level_nonneg as Ln. destruct f_la as (Ef & Ela & Lt).
  assert (M1 : 1 <= o_max o).
  { unfold log_count in Fit. replace (l <? 0) with false in Fit by (symmetry; apply Z.ltb_ge; lia).
    unfold log_first_last in Fit. rewrite <- Ef, <- Ela in Fit. lia. }
  apply (find_level_is_lowest o _ 0 lo hi l Hb (log_count_out_nonincreasing e' e'_lt lo hi H0') M1 Lb).
  - unfold log_count. replace (l <? 0) with false by (symmetry; apply Z.ltb_ge; lia).
    rewrite first_last_e'. unfold log_count in Fit. replace (l <? 0) with false in Fit by (symmetry; apply Z.ltb_ge; lia).
    unfold log_first_last in Fit. rewrite <- Ef, <- Ela in Fit. exact Fit.
  - intros j Hj. specialize (Low j Hj). destruct (Z_lt_le_dec j 0) as [G|G].
    + unfold log_count. replace (j <? 0) with true by (symmetry; apply Z.ltb_lt; lia). exact Hmax.
    + pose proof (count_e'_ge j ltac:(lia)). lia.
Qed.
End Fixed.

(* ---------- exact powers: floor_log = ceil_log = the exponent ---------- *)
Lemma floor_log_pow b n : 2 <= b -> floor_log b (qpow b n) = n.
Proof.
  intros Hb. pose proof (qpow_pos b n ltac:(lia)) as P.
  destruct (floor_log_spec b (qpow b n) Hb P) as [L U].
  apply Z.le_antisymm.
  - destruct (Z_lt_le_dec n (floor_log b (qpow b n))) as [G|G]; [|exact G]. exfalso.
    pose proof (qpow_lt b n (floor_log b (qpow b n)) Hb G). lra.
  - apply (floor_log_greatest b (qpow b n) Hb P). lra.
Qed.
Lemma ceil_log_pow b n : 2 <= b -> ceil_log b (qpow b n) = n.
Proof.
  intros Hb. unfold ceil_log. rewrite floor_log_pow by exact Hb.
  assert (X : Qeqb (qpow b n) (qpow b n) = true) by (apply Qeq_bool_iff; reflexivity). now rewrite X.
Qed.

(* the rounded-out exponents of a domain whose ends are powers: independent of the slack decisions *)
Lemma log_exps_pow_out b n1 n2 : 2 <= b ->
  le_out_lo (log_exps b (qpow b n1) (qpow b n2)) = n1 /\ le_out_hi (log_exps b (qpow b n1) (qpow b n2)) = n2.
Proof.
  intros Hb. unfold log_exps. rewrite !floor_log_pow, !ceil_log_pow by exact Hb. cbn [le_out_lo le_out_hi].
  split.
  - destruct (near (qpow b n1) (qpow b n1) _ _); reflexivity.
  - destruct (near (qpow b n2) (qpow b n2) _ _); reflexivity.
Qed.

(* LOG NICE, IDEMPOTENCE ON LANDED ENDS: for a positive domain mn < mx whose Nice found level l
   and rounded out to the exponents f 2^l, la 2^l, the domain [b^(f 2^l), b^(la 2^l)] - what Nice
   returns when both ends move (or already were those powers) - is left unchanged by Nice *)
Theorem log_nice_fixed_on_landed_ends b mn mx o l : 2 <= b -> (0 < mn)%Q -> (mn < mx)%Q ->
  let e := log_exps b mn mx in
  le_out_lo e < le_out_hi e -> log_count e true 0 <= MAXINT -> o_max o < MAXINT ->
  find_level o (log_count e true) 0 = FL_ok l ->
  let f := fst (log_first_last e true l) in let la := snd (log_first_last e true l) in
  (la * 2 ^ l - f * 2 ^ l + 1 <= MAXINT) ->
  let a := qpow b (f * 2 ^ l) in let c := qpow b (la * 2 ^ l) in
  log_nice b a c o = (a, c).
Proof.
  intros Hb Hp Hlt e Hlh H0 Hmax Hl f la Hcnt a c.
  destruct (log_exps_pow_out b (f * 2 ^ l) (la * 2 ^ l) Hb) as [Elo Ehi]. fold a c in Elo, Ehi.
  set (e' := log_exps b a c) in *.
  assert (H0' : log_count e' true 0 <= MAXINT).
  { unfold log_count, log_first_last. cbn [Z.ltb Z.compare]. rewrite Elo, Ehi. change (2 ^ 0) with 1.
    rewrite Z.div_1_r. unfold cdiv. rewrite Z.div_1_r. lia. }
  pose proof (find_level_niced e e' o l Hlh H0 Hmax Hl Elo Ehi H0') as F.
  pose proof (first_last_e' e e' o l Hlh H0 Hmax Hl Elo Ehi) as FL. fold f la in FL.
  destruct (f_la e o l Hlh H0 Hmax Hl) as (_ & _ & Lt). fold f la in Lt.
  pose proof (pow2_pos l (level_nonneg e o l Hlh H0 Hmax Hl)) as K.
  assert (Hac : (a < c)%Q) by (apply qpow_lt; [exact Hb | nia]).
  pose proof (qpow_pos b (f * 2 ^ l) ltac:(lia)) as Pa. fold a in Pa.
  unfold log_nice, log_nice_gen.
  destruct (Qeqb a c) eqn:E1; [gb_bool; lra|].
  unfold log_fold. destruct (Qltb a 0) eqn:E2; [gb_bool; lra|].
  fold e'. rewrite F, FL. fold a c.
  destruct (log_end_ok b (2 ^ l) f a && Qleb a a); destruct (log_end_ok b (2 ^ l) la c && Qleb c c); reflexivity.
Qed.

(* ---------- after Nice the first and last major ticks are the landed ends ---------- *)
Lemma log_exps_pow_in b n1 n2 : 2 <= b ->
  le_in_lo (log_exps b (qpow b n1) (qpow b n2)) = n1 /\ le_in_hi (log_exps b (qpow b n1) (qpow b n2)) = n2.
Proof.
  intros Hb. unfold log_exps. rewrite !floor_log_pow, !ceil_log_pow by exact Hb. cbn [le_in_lo le_in_hi].
  split.
  - destruct (near (qpow b n1) (qpow b n1) _ _); reflexivity.
  - destruct (near (qpow b n2) (qpow b n2) _ _); reflexivity.
Qed.

Lemma pow_seq_last n : forall b f0 k d, last (pow_seq (S n) b f0 k) d = qpow b ((f0 + Z.of_nat n) * k).
Proof.
  induction n as [|n IH]; intros b f0 k d.
  - cbn. now rewrite Z.add_0_r.
  - change (pow_seq (S (S n)) b f0 k) with (qpow b (f0 * k) :: pow_seq (S n) b (f0 + 1) k).
    change (last (qpow b (f0 * k) :: pow_seq (S n) b (f0 + 1) k) d) with (last (pow_seq (S n) b (f0 + 1) k) d).
    rewrite IH. f_equal. f_equal. lia.
Qed.

Theorem log_ticks_on_landed_ends b mn mx o l major minor : 2 <= b -> (0 < mn)%Q -> (mn < mx)%Q ->
  let e := log_exps b mn mx in
  le_out_lo e < le_out_hi e -> log_count e true 0 <= MAXINT -> o_max o < MAXINT ->
  find_level o (log_count e true) 0 = FL_ok l ->
  let f := fst (log_first_last e true l) in let la := snd (log_first_last e true l) in
  (la * 2 ^ l - f * 2 ^ l + 1 <= MAXINT) ->
  let a := qpow b (f * 2 ^ l) in let c := qpow b (la * 2 ^ l) in
  log_ticks b a c o = TR_ticks major minor ->
  exists rest, major = a :: rest /\ last major a = c.
Proof.
  intros Hb Hp Hlt e Hlh H0 Hmax Hl f la Hcnt a c HT.
  destruct (log_exps_pow_in b (f * 2 ^ l) (la * 2 ^ l) Hb) as [Elo Ehi]. fold a c in Elo, Ehi.
  set (e' := log_exps b a c) in *.
  destruct (f_la e o l Hlh H0 Hmax Hl) as (Ef & Ela & Lt). fold f la in Ef, Ela, Lt.
  pose proof (level_nonneg e o l Hlh H0 Hmax Hl) as Ln. pose proof (pow2_pos l Ln) as K.
  assert (Hac : (a < c)%Q) by (apply qpow_lt; [exact Hb | nia]).
  pose proof (qpow_pos b (f * 2 ^ l) ltac:(lia)) as Pa. fold a in Pa.
  destruct (level_bounds o) as [[lo hi]|] eqn:Hbd; [|unfold find_level in Hl; rewrite Hbd in Hl; discriminate].
  pose proof (find_level_lowest o _ 0 lo hi l Hbd (log_count_out_nonincreasing e Hlh lo hi H0) Hl) as (Lb & Fit & _).
  unfold log_count in Fit. replace (l <? 0) with false in Fit by (symmetry; apply Z.ltb_ge; lia).
  unfold log_first_last in Fit. rewrite <- Ef, <- Ela in Fit.
  unfold log_ticks, log_ticks_gen in HT.
  destruct (o_max o <=? 0) eqn:M0; [discriminate|].
  destruct (Qeqb a c) eqn:E1; [gb_bool; lra|].
  unfold log_fold in HT. destruct (Qltb a 0) eqn:E2; [gb_bool; lra|]. fold e' in HT.
  destruct (find_level o (log_count e' false) 0) as [l2| |] eqn:F2; try discriminate.
  injection HT as <- _.
  assert (Hexp : le_in_lo e' <= le_in_hi e' + 1) by (rewrite Elo, Ehi; nia).
  assert (H0i : log_count e' false 0 <= MAXINT).
  { unfold log_count, log_first_last. cbn [Z.ltb Z.compare]. rewrite Elo, Ehi. change (2 ^ 0) with 1.
    rewrite Z.div_1_r. unfold cdiv. rewrite Z.div_1_r. lia. }
  pose proof (find_level_lowest o _ 0 lo hi l2 Hbd (log_count_nonincreasing e' Hexp lo hi H0i) F2) as (L2b & L2fit & L2low).
  assert (L2n : 0 <= l2).
  { destruct (Z_lt_le_dec l2 0) as [G|G]; [|exact G]. exfalso.
    unfold log_count in L2fit. replace (l2 <? 0) with true in L2fit by (symmetry; apply Z.ltb_lt; lia). lia. }
  (* the inner count at level l is la - f + 1, so l2 <= l *)
  assert (Cin : log_count e' false l = la - f + 1).
  { unfold log_count, log_first_last. replace (l <? 0) with false by (symmetry; apply Z.ltb_ge; lia).
    rewrite Elo, Ehi. rewrite Z.div_mul by lia. unfold cdiv. rewrite <- Z.mul_opp_l, Z.div_mul by lia. lia. }
  assert (L2l : l2 <= l).
  { destruct (Z_lt_le_dec l l2) as [G|G]; [|exact G]. exfalso. specialize (L2low l ltac:(lia)). lia. }
  pose proof (pow2_pos l2 L2n) as K2. pose proof (pow2_pos (l - l2) ltac:(lia)) as Kd.
  assert (E : 2 ^ l = 2 ^ (l - l2) * 2 ^ l2) by (rewrite <- Z.pow_add_r by lia; f_equal; lia).
  unfold log_ticks_at', log_ticks_pos. replace (l2 <? 0) with false by (symmetry; apply Z.ltb_ge; lia).
  unfold log_first_last. rewrite Elo, Ehi, E, !Z.mul_assoc, Z.div_mul by lia.
  assert (C' : cdiv (f * 2 ^ (l - l2) * 2 ^ l2) (2 ^ l2) = f * 2 ^ (l - l2)).
  { unfold cdiv. rewrite <- Z.mul_opp_l, Z.div_mul by lia. lia. }
  rewrite C'.
  assert (Npos : 0 < la * 2 ^ (l - l2) - f * 2 ^ (l - l2)) by nia.
  destruct (Z.to_nat (la * 2 ^ (l - l2) - f * 2 ^ (l - l2) + 1)) as [|n] eqn:En; [lia|].
  exists (pow_seq n b (f * 2 ^ (l - l2) + 1) (2 ^ l2)). split.
  - cbn [pow_seq]. f_equal. unfold a. f_equal. rewrite E. ring.
  - rewrite pow_seq_last. unfold c. f_equal. rewrite E.
    assert (Z.of_nat n = la * 2 ^ (l - l2) - f * 2 ^ (l - l2)) by lia. nia.
Qed.

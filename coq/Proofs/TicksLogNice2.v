(* Proofs/TicksLogNice2.v — C17, Nice on Log scales with an end LEFT IN PLACE by the D10 repair. *)
From Coq Require Import Lqa Lia ZArith QArith Qround Qpower Sorted.
From MM Require Import Base.Num Base.GBLemmas Model.Ticks Proofs.Ticks Proofs.TicksLinear Proofs.TicksLog
  Proofs.TicksLogExp Proofs.TicksNice Proofs.TicksLogNice.
Local Open Scope Z_scope.

(* ---------- the exact MODEL is not idempotent where the re-taken slack decision is undecided ---------- *)
Definition wit_mn : Q := (9007199254740992 - 896451) # 9007199254740992.     (* (2^53 - 896451) / 2^53 *)
Definition wit_mx : Q := inject_Z (3 * 2 ^ 100).
Lemma log_nice_model_not_idempotent_refuted :
  exists b mn mx o mn1 mx1, 2 <= b /\ (0 < mn)%Q /\ (mn < mx)%Q /\ 3 <= o_max o /\
    log_nice b mn mx o = (mn1, mx1) /\ mn1 = mn /\ le_amb (log_exps b mn mx) = false /\
    le_amb (log_exps b mn1 mx1) = true /\
    log_nice b mn1 mx1 o = (qpow 2 (-32), mx1) /\ ~ (qpow 2 (-32) == mn1)%Q.
Proof.
  exists 2, wit_mn, wit_mx, (mkOpts 6 0 0), wit_mn, (inject_Z (2 ^ 128)).
  repeat split; try (vm_compute; congruence); try lia.
Qed.

(* ---------- rational facts behind the slack decision ---------- *)
Local Open Scope Q_scope.
Lemma q_inv_mul t : 0 < t -> t * (1 / t) == 1.
Proof. intros H. field. lra. Qed.
Lemma q_div_mul x y : 0 < y -> (x / y) * y == x.
Proof. intros H. field. lra. Qed.

Lemma ln_lo_mono t t' : 0 < t -> t <= t' -> ln_lo t <= ln_lo t'.
Proof.
  intros H L. unfold ln_lo. pose proof (q_inv_mul t H) as E. pose proof (q_inv_mul t' ltac:(lra)) as E'.
  set (u := 1 / t) in *. set (u' := 1 / t') in *.
  assert (U : 0 < u) by nra. assert (U' : 0 < u') by nra.
  assert (u' <= u); [|lra]. nra.
Qed.
Lemma ln_lo_lt1 t : 0 < t -> ln_lo t < 1.
Proof. intros H. unfold ln_lo. pose proof (q_inv_mul t H) as E. set (u := 1 / t) in *. assert (0 < u) by nra. lra. Qed.
Lemma ln_lo_le_hi t : 0 < t -> ln_lo t <= ln_hi t.
Proof.
  intros H. unfold ln_hi, Qminb. destruct (Qle_bool _ _).
  - unfold ln_lo. pose proof (q_inv_mul t H) as E. set (u := 1 / t) in *. assert (U : 0 < u) by nra.
    assert (S2 : 0 <= (t - 1) * (t - 1)) by (destruct (Qlt_le_dec t 1); [setoid_replace ((t-1)*(t-1)) with ((1-t)*(1-t)) by ring|]; apply Qmult_le_0_compat; lra).
    assert (S3 : 0 <= u * ((t - 1) * (t - 1))) by (apply Qmult_le_0_compat; lra).
    assert (S4 : u * ((t - 1) * (t - 1)) == (t * u) * t - 2 * (t * u) + u) by ring.
    rewrite E in S4. lra.
  - apply Qle_trans with 1; [apply Qlt_le_weak, ln_lo_lt1, H|].
    change 1 with (inject_Z 1). rewrite <- Zle_Qle. pose proof (Z.log2_nonneg (Qceil t)). lia.
Qed.
Lemma slack_factor_pos : 0 < slack_factor. Proof. reflexivity. Qed.
Lemma slack_factor_small : slack_factor <= 1 # 10. Proof. unfold slack_factor, Qle. cbn. lia. Qed.
Lemma qbits_ge2 q : 2 <= qbits q.
Proof. unfold qbits. change 2 with (inject_Z 2). rewrite <- Zle_Qle.
  pose proof (Z.log2_nonneg (Z.abs (Qnum q))). pose proof (Z.log2_nonneg (Zpos (Qden q))). lia. Qed.
Lemma log_mu_pos a c : 0 < log_mu a c.
Proof. unfold log_mu. pose proof (qbits_ge2 a). pose proof (qbits_ge2 c).
  assert (0 < 2 # 1000000000000000) by reflexivity. nra. Qed.

Lemma q_div_le_mono a a0 x0 c : 0 < a -> a <= a0 -> 0 < x0 -> x0 <= c -> x0 / a0 <= c / a.
Proof.
  intros A L X C. pose proof (q_div_mul x0 a0 ltac:(lra)) as E. pose proof (q_div_mul c a A) as E'.
  set (u := x0 / a0) in *. set (v := c / a) in *.
  assert (U : 0 < u) by nra. destruct (Qlt_le_dec v u) as [G|G]; [|exact G]. exfalso. nra.
Qed.
Lemma q_div_pos x y : 0 < x -> 0 < y -> 0 < x / y.
Proof. intros X Y. pose proof (q_div_mul x y Y) as E. set (u := x / y) in *. nra. Qed.

(* a decision that was INSIDE cannot become OUTSIDE when the domain grows (whatever the two mu) *)
Lemma near_inside_mono s bg t mu t' mu' : 0 < s -> s <= bg -> 0 < t -> t <= t' -> 0 < mu -> 0 < mu' ->
  near s bg t mu = N_inside -> near s bg t' mu' <> N_outside.
Proof.
  intros S L T TT M M' Hin. unfold near in *.
  destruct (Qleb ((bg - s) / s) (slack_factor * ln_lo t - mu)) eqn:E1; [|destruct (Qleb _ _) in Hin; discriminate].
  destruct (Qleb ((bg - s) / s) (slack_factor * ln_lo t' - mu')) eqn:E2; [discriminate|].
  destruct (Qleb (slack_factor * ln_hi t' + mu') ((bg - s) / bg)) eqn:E3; [|discriminate].
  exfalso. gb_bool.
  pose proof (q_div_mul (bg - s) s S) as X. pose proof (q_div_mul (bg - s) bg ltac:(lra)) as Y.
  set (x := (bg - s) / s) in *. set (y := (bg - s) / bg) in *.
  assert (X0 : 0 <= x) by nra.
  assert (YX : y <= x). { destruct (Qlt_le_dec x y) as [G|G]; [|exact G]. exfalso. nra. }
  pose proof (ln_lo_mono t t' T TT). pose proof (ln_lo_le_hi t' ltac:(lra)). pose proof slack_factor_pos. nra.
Qed.

(* two INSIDE decisions around one end (just above b^n and just below b^(n+1)) exclude each other *)
Lemma near_inside_both_impossible x y z t1 mu1 t2 mu2 : 0 < x -> x <= y -> y <= z -> 2 * x <= z ->
  0 < t1 -> 0 < t2 -> 0 < mu1 -> 0 < mu2 ->
  near x y t1 mu1 = N_inside -> near y z t2 mu2 = N_inside -> False.
Proof.
  intros X XY YZ XZ T1 T2 M1 M2 H1 H2. unfold near in *.
  destruct (Qleb ((y - x) / x) _) eqn:E1; [|destruct (Qleb _ _) in H1; discriminate].
  destruct (Qleb ((z - y) / y) _) eqn:E2; [|destruct (Qleb _ _) in H2; discriminate].
  gb_bool. pose proof (q_div_mul (y - x) x X) as A. pose proof (q_div_mul (z - y) y ltac:(lra)) as B.
  set (p := (y - x) / x) in *. set (q := (z - y) / y) in *.
  pose proof (ln_lo_lt1 t1 T1). pose proof (ln_lo_lt1 t2 T2). pose proof slack_factor_pos. pose proof slack_factor_small.
  assert (P : p <= 1 # 10) by nra. assert (Q : q <= 1 # 10) by nra.
  assert (P0 : 0 <= p) by nra. assert (Q0 : 0 <= q) by nra.
  (* y = x (1 + p), z = y (1 + q) <= x * 1.21 < 2 x *)
  assert (y <= x * (11 # 10)) by nra. assert (z <= y * (11 # 10)) by nra. nra.
Qed.
Local Close Scope Q_scope.

(* Proofs/TicksLogNice2.v — C17, Nice on Log scales with an end LEFT IN PLACE by the D10 repair:
   the exact model is NOT idempotent where the re-taken three-valued slack decision of such an end is
   undecided (witness below; the Go code is idempotent on it); where it is decided, Nice is
   idempotent and the first / last major tick is the power the end is within the slack of. *)
From Coq Require Import Lqa Lia ZArith QArith Qround Qpower Sorted.
From MM Require Import Base.Num Base.GBLemmas Model.Ticks Proofs.Ticks Proofs.TicksLinear Proofs.TicksLog
  Proofs.TicksLogExp Proofs.TicksNice Proofs.TicksLogNice.
Local Open Scope Z_scope.

(* ---------- the exact MODEL is not idempotent where the re-taken slack decision is undecided ---------- *)
Definition wit_mn : Q := (9007199254740992 - 896451) # 9007199254740992.     (* (2^53 - 896451) / 2^53 *)
Definition wit_mx : Q := inject_Z (3 * 2 ^ 100).
Lemma log_nice_model_not_idempotent_refuted :
  exists b mn mx o mn1 mx1, 2 <= b /\ (0 < mn)%Q /\ (mn < mx)%Q /\ 3 <= o_max o /\
    log_nice b mn mx o = (mn1, mx1) /\ mn1 = mn /\ le_amb (log_exps b mn mx) = false /\
    le_amb (log_exps b mn1 mx1) = true /\
    log_nice b mn1 mx1 o = (qpow 2 (-32), mx1) /\ ~ (qpow 2 (-32) == mn1)%Q.
Proof.
  exists 2, wit_mn, wit_mx, (mkOpts 6 0 0), wit_mn, (inject_Z (2 ^ 128)).
  repeat split; try (vm_compute; congruence); try lia.
Qed.

(* ---------- rational facts behind the slack decision ---------- *)
Local Open Scope Q_scope.
Lemma q_inv_mul t : 0 < t -> t * (1 / t) == 1.
Proof. intros H. field. lra. Qed.
Lemma q_div_mul x y : 0 < y -> (x / y) * y == x.
Proof. intros H. field. lra. Qed.

Lemma ln_lo_mono t t' : 0 < t -> t <= t' -> ln_lo t <= ln_lo t'.
Proof.
  intros H L. unfold ln_lo. pose proof (q_inv_mul t H) as E. pose proof (q_inv_mul t' ltac:(lra)) as E'.
  set (u := 1 / t) in *. set (u' := 1 / t') in *.
  assert (U : 0 < u) by nra. assert (U' : 0 < u') by nra.
  assert (u' <= u); [|lra]. nra.
Qed.
Lemma ln_lo_lt1 t : 0 < t -> ln_lo t < 1.
Proof. intros H. unfold ln_lo. pose proof (q_inv_mul t H) as E. set (u := 1 / t) in *. assert (0 < u) by nra. lra. Qed.
Lemma ln_lo_le_hi t : 0 < t -> ln_lo t <= ln_hi t.
Proof.
  intros H. unfold ln_hi, Qminb. destruct (Qle_bool _ _).
  - unfold ln_lo. pose proof (q_inv_mul t H) as E. set (u := 1 / t) in *. assert (U : 0 < u) by nra.
    assert (S2 : 0 <= (t - 1) * (t - 1)) by (destruct (Qlt_le_dec t 1); [setoid_replace ((t-1)*(t-1)) with ((1-t)*(1-t)) by ring|]; apply Qmult_le_0_compat; lra).
    assert (S3 : 0 <= u * ((t - 1) * (t - 1))) by (apply Qmult_le_0_compat; lra).
    assert (S4 : u * ((t - 1) * (t - 1)) == (t * u) * t - 2 * (t * u) + u) by ring.
    rewrite E in S4. lra.
  - apply Qle_trans with 1; [apply Qlt_le_weak, ln_lo_lt1, H|].
    change 1 with (inject_Z 1). rewrite <- Zle_Qle. pose proof (Z.log2_nonneg (Qceil t)). lia.
Qed.
Lemma slack_factor_pos : 0 < slack_factor. Proof. reflexivity. Qed.
Lemma slack_factor_small : slack_factor <= 1 # 10. Proof. unfold slack_factor, Qle. cbn. lia. Qed.
Lemma qbits_ge2 q : 2 <= qbits q.
Proof. unfold qbits. change 2 with (inject_Z 2). rewrite <- Zle_Qle.
  pose proof (Z.log2_nonneg (Z.abs (Qnum q))). pose proof (Z.log2_nonneg (Zpos (Qden q))). lia. Qed.
Lemma log_mu_pos a c : 0 < log_mu a c.
Proof. unfold log_mu. pose proof (qbits_ge2 a). pose proof (qbits_ge2 c).
  assert (0 < 2 # 1000000000000000) by reflexivity. nra. Qed.

Lemma q_div_le_mono a a0 x0 c : 0 < a -> a <= a0 -> 0 < x0 -> x0 <= c -> x0 / a0 <= c / a.
Proof.
  intros A L X C. pose proof (q_div_mul x0 a0 ltac:(lra)) as E. pose proof (q_div_mul c a A) as E'.
  set (u := x0 / a0) in *. set (v := c / a) in *.
  assert (U : 0 < u) by nra. destruct (Qlt_le_dec v u) as [G|G]; [|exact G]. exfalso. nra.
Qed.
Lemma q_div_pos x y : 0 < x -> 0 < y -> 0 < x / y.
Proof. intros X Y. pose proof (q_div_mul x y Y) as E. set (u := x / y) in *. nra. Qed.

(* a decision that was INSIDE cannot become OUTSIDE when the domain grows (whatever the two mu) *)
Lemma near_inside_mono s bg t mu t' mu' : 0 < s -> s <= bg -> 0 < t -> t <= t' -> 0 < mu -> 0 < mu' ->
  near s bg t mu = N_inside -> near s bg t' mu' <> N_outside.
Proof.
  intros S L T TT M M' Hin. unfold near in *.
  destruct (Qleb ((bg - s) / s) (slack_factor * ln_lo t - mu)) eqn:E1; [|destruct (Qleb _ _) in Hin; discriminate].
  destruct (Qleb ((bg - s) / s) (slack_factor * ln_lo t' - mu')) eqn:E2; [discriminate|].
  destruct (Qleb (slack_factor * ln_hi t' + mu') ((bg - s) / bg)) eqn:E3; [|discriminate].
  exfalso. gb_bool.
  pose proof (q_div_mul (bg - s) s S) as X. pose proof (q_div_mul (bg - s) bg ltac:(lra)) as Y.
  set (x := (bg - s) / s) in *. set (y := (bg - s) / bg) in *.
  assert (X0 : 0 <= x) by nra.
  assert (YX : y <= x). { destruct (Qlt_le_dec x y) as [G|G]; [|exact G]. exfalso. nra. }
  pose proof (ln_lo_mono t t' T TT). pose proof (ln_lo_le_hi t' ltac:(lra)). pose proof slack_factor_pos. nra.
Qed.

(* two INSIDE decisions around one end (just above b^n and just below b^(n+1)) exclude each other *)
Lemma near_inside_both_impossible x y z t1 mu1 t2 mu2 : 0 < x -> x <= y -> y <= z -> 2 * x <= z ->
  0 < t1 -> 0 < t2 -> 0 < mu1 -> 0 < mu2 ->
  near x y t1 mu1 = N_inside -> near y z t2 mu2 = N_inside -> False.
Proof.
  intros X XY YZ XZ T1 T2 M1 M2 H1 H2. unfold near in *.
  destruct (Qleb ((y - x) / x) _) eqn:E1; [|destruct (Qleb _ _) in H1; discriminate].
  destruct (Qleb ((z - y) / y) _) eqn:E2; [|destruct (Qleb _ _) in H2; discriminate].
  gb_bool. pose proof (q_div_mul (y - x) x X) as A. pose proof (q_div_mul (z - y) y ltac:(lra)) as B.
  set (p := (y - x) / x) in *. set (q := (z - y) / y) in *.
  pose proof (ln_lo_lt1 t1 T1). pose proof (ln_lo_lt1 t2 T2). pose proof slack_factor_pos. pose proof slack_factor_small.
  assert (P : p <= 1 # 10) by nra. assert (Q : q <= 1 # 10) by nra.
  assert (P0 : 0 <= p) by nra. assert (Q0 : 0 <= q) by nra.
  (* y = x (1 + p), z = y (1 + q) <= x * 1.21 < 2 x *)
  assert (y <= x * (11 # 10)) by nra. assert (z <= y * (11 # 10)) by nra. nra.
Qed.
Local Close Scope Q_scope.

(* ---------- the level search on exponents that lie between the old ones and the rounded-out ones ---------- *)
Section Fixed2.
Variables (e e' : logexp) (o : tickopts) (l : Z).
Hypothesis Hlh : le_out_lo e < le_out_hi e.
Hypothesis H0 : log_count e true 0 <= MAXINT.
Hypothesis Hmax : o_max o < MAXINT.
Hypothesis Hl : find_level o (log_count e true) 0 = FL_ok l.
Let f := fst (log_first_last e true l).
Let la := snd (log_first_last e true l).
(* e' = the exponents of the niced domain: each end on the power Nice rounded out to, or where it was *)
Hypothesis Hlo' : f * 2 ^ l <= le_out_lo e' <= le_out_lo e.
Hypothesis Hhi' : le_out_hi e <= le_out_hi e' <= la * 2 ^ l.
Hypothesis H0' : log_count e' true 0 <= MAXINT.

Lemma e'_lt2 : le_out_lo e' < le_out_hi e'.
Proof. lia. Qed.

Lemma first_last_e'2 : log_first_last e' true l = (f, la).
Proof.
  pose proof (level_nonneg e o l Hlh H0 Hmax Hl) as Ln. pose proof (pow2_pos l Ln) as K.
  destruct (f_la e o l Hlh H0 Hmax Hl) as (Ef & Ela & _). fold f la in Ef, Ela.
  unfold log_first_last. f_equal.
  - apply Z.le_antisymm.
    + rewrite Ef. apply Z.div_le_mono; lia.
    + apply fdiv_iff; [exact K | lia].
  - apply Z.le_antisymm.
    + apply cdiv_iff; [exact K | lia].
    + rewrite Ela. apply cdiv_iff; [exact K|].
      pose proof (proj1 (cdiv_iff (le_out_hi e') (2 ^ l) (cdiv (le_out_hi e') (2 ^ l)) K) ltac:(lia)). lia.
Qed.

Lemma count_e'_ge2 j : 0 <= j -> log_count e true j <= log_count e' true j.
Proof.
  intros Hj. unfold log_count, log_first_last.
  replace (j <? 0) with false by (symmetry; apply Z.ltb_ge; lia).
  pose proof (pow2_pos j Hj) as Kj.
  assert (A : le_out_lo e' / 2 ^ j <= le_out_lo e / 2 ^ j) by (apply Z.div_le_mono; lia).
  assert (B : cdiv (le_out_hi e) (2 ^ j) <= cdiv (le_out_hi e') (2 ^ j)).
  { apply cdiv_iff; [exact Kj|].
    pose proof (proj1 (cdiv_iff (le_out_hi e') (2 ^ j) (cdiv (le_out_hi e') (2 ^ j)) Kj) ltac:(lia)). lia. }
  lia.
Qed.

Theorem find_level_niced2 : find_level o (log_count e' true) 0 = FL_ok l.
Proof.
  destruct (level_bounds o) as [[lo hi]|] eqn:Hb; [|unfold find_level in Hl; rewrite Hb in Hl; discriminate].
  pose proof (find_level_lowest o _ 0 lo hi l Hb (log_count_out_nonincreasing e Hlh lo hi H0) Hl) as (Lb & Fit & Low).
  pose proof (level_nonneg e o l Hlh H0 Hmax Hl) as Ln.
  destruct (f_la e o l Hlh H0 Hmax Hl) as (Ef & Ela & Lt). fold f la in Ef, Ela, Lt.
  assert (Fit2 : la - f + 1 <= o_max o).
  { unfold log_count in Fit. replace (l <? 0) with false in Fit by (symmetry; apply Z.ltb_ge; lia).
    unfold log_first_last in Fit. rewrite <- Ef, <- Ela in Fit. exact Fit. }
  apply (find_level_is_lowest o _ 0 lo hi l Hb (log_count_out_nonincreasing e' e'_lt2 lo hi H0') ltac:(lia) Lb).
  - unfold log_count. replace (l <? 0) with false by (symmetry; apply Z.ltb_ge; lia).
    rewrite first_last_e'2. exact Fit2.
  - intros j Hj. specialize (Low j Hj). destruct (Z_lt_le_dec j 0) as [G|G].
    + unfold log_count. replace (j <? 0) with true by (symmetry; apply Z.ltb_lt; lia). exact Hmax.
    + pose proof (count_e'_ge2 j G). lia.
Qed.
End Fixed2.

(* ---------- the exponents of log_exps, one field at a time ---------- *)
Definition isin3 (n : near3) : bool := match n with N_inside => true | _ => false end.
Lemma log_exps_out_lo b a c : le_out_lo (log_exps b a c) =
  if isin3 (near a (qpow b (ceil_log b a)) (c / a) (log_mu a c)) then ceil_log b a else floor_log b a.
Proof. reflexivity. Qed.
Lemma log_exps_out_hi b a c : le_out_hi (log_exps b a c) =
  if isin3 (near (qpow b (floor_log b c)) c (c / a) (log_mu a c)) then floor_log b c else ceil_log b c.
Proof. reflexivity. Qed.
Lemma log_exps_in_lo b a c : le_in_lo (log_exps b a c) =
  if isin3 (near (qpow b (floor_log b a)) a (c / a) (log_mu a c)) then floor_log b a else ceil_log b a.
Proof. reflexivity. Qed.
Lemma log_exps_in_hi b a c : le_in_hi (log_exps b a c) =
  if isin3 (near c (qpow b (ceil_log b c)) (c / a) (log_mu a c)) then ceil_log b c else floor_log b c.
Proof. reflexivity. Qed.
Lemma log_exps_amb_false b a c : le_amb (log_exps b a c) = false ->
  near (qpow b (floor_log b a)) a (c / a) (log_mu a c) <> N_border /\
  near c (qpow b (ceil_log b c)) (c / a) (log_mu a c) <> N_border /\
  near a (qpow b (ceil_log b a)) (c / a) (log_mu a c) <> N_border /\
  near (qpow b (floor_log b c)) c (c / a) (log_mu a c) <> N_border.
Proof.
  unfold log_exps. cbn [le_amb]. intros H.
  destruct (near (qpow b (floor_log b a)) a _ _), (near c (qpow b (ceil_log b c)) _ _),
    (near a (qpow b (ceil_log b a)) _ _), (near (qpow b (floor_log b c)) c _ _); cbn in H; try discriminate;
    repeat split; discriminate.
Qed.

Lemma out_lo_pow b n c : 2 <= b -> le_out_lo (log_exps b (qpow b n) c) = n.
Proof. intros Hb. rewrite log_exps_out_lo, floor_log_pow, ceil_log_pow by exact Hb. now destruct (isin3 _). Qed.
Lemma out_hi_pow b a n : 2 <= b -> le_out_hi (log_exps b a (qpow b n)) = n.
Proof. intros Hb. rewrite log_exps_out_hi, floor_log_pow, ceil_log_pow by exact Hb. now destruct (isin3 _). Qed.
Lemma in_lo_pow b n c : 2 <= b -> le_in_lo (log_exps b (qpow b n) c) = n.
Proof. intros Hb. rewrite log_exps_in_lo, floor_log_pow, ceil_log_pow by exact Hb. now destruct (isin3 _). Qed.
Lemma in_hi_pow b a n : 2 <= b -> le_in_hi (log_exps b a (qpow b n)) = n.
Proof. intros Hb. rewrite log_exps_in_hi, floor_log_pow, ceil_log_pow by exact Hb. now destruct (isin3 _). Qed.

(* an end that stays where it is, with an INSIDE decision, keeps the decision when the domain grows
   and the new decision is not undecided *)
Lemma out_lo_keep b emin emax c : 2 <= b -> (0 < emin)%Q -> (emin < emax)%Q -> (emax <= c)%Q ->
  near emin (qpow b (ceil_log b emin)) (emax / emin) (log_mu emin emax) = N_inside ->
  near emin (qpow b (ceil_log b emin)) (c / emin) (log_mu emin c) <> N_border ->
  near emin (qpow b (ceil_log b emin)) (c / emin) (log_mu emin c) = N_inside.
Proof.
  intros Hb P Lt Lc Hin N3.
  destruct (ceil_log_spec b emin Hb P) as [_ U].
  pose proof (near_inside_mono emin (qpow b (ceil_log b emin)) (emax / emin) (log_mu emin emax) (c / emin) (log_mu emin c)
    P U (q_div_pos emax emin ltac:(lra) P) (q_div_le_mono emin emin emax c P ltac:(lra) ltac:(lra) Lc)
    (log_mu_pos _ _) (log_mu_pos _ _) Hin) as N.
  destruct (near emin (qpow b (ceil_log b emin)) (c / emin) (log_mu emin c)); congruence.
Qed.
Lemma out_hi_keep b emin emax a : 2 <= b -> (0 < a)%Q -> (a <= emin)%Q -> (emin < emax)%Q ->
  near (qpow b (floor_log b emax)) emax (emax / emin) (log_mu emin emax) = N_inside ->
  near (qpow b (floor_log b emax)) emax (emax / a) (log_mu a emax) <> N_border ->
  near (qpow b (floor_log b emax)) emax (emax / a) (log_mu a emax) = N_inside.
Proof.
  intros Hb P La Lt Hin N4.
  destruct (floor_log_spec b emax Hb ltac:(lra)) as [L _].
  pose proof (near_inside_mono (qpow b (floor_log b emax)) emax (emax / emin) (log_mu emin emax) (emax / a) (log_mu a emax)
    (qpow_pos b _ ltac:(lia)) L (q_div_pos emax emin ltac:(lra) ltac:(lra)) (q_div_le_mono a emin emax emax P La ltac:(lra) ltac:(lra))
    (log_mu_pos _ _) (log_mu_pos _ _) Hin) as N.
  destruct (near (qpow b (floor_log b emax)) emax (emax / a) (log_mu a emax)); congruence.
Qed.

(* ---------- Nice twice, with ends that may have been left in place ---------- *)
(* [mvlo]/[mvhi]: did the first Nice move the lower / upper end (log.go:233, 236)?  An end that was
   left in place must have been within the slack of the power next to it (decision N_inside: the
   D10 situation), and that decision re-taken for the niced domain must not be undecided. *)
Lemma log_nice_core b emin emax o l (mvlo mvhi : bool) a c : 2 <= b -> (0 < emin)%Q -> (emin < emax)%Q ->
  let e := log_exps b emin emax in
  le_out_lo e < le_out_hi e -> log_count e true 0 <= MAXINT -> o_max o < MAXINT ->
  find_level o (log_count e true) 0 = FL_ok l ->
  let f := fst (log_first_last e true l) in let la := snd (log_first_last e true l) in
  (la * 2 ^ l - f * 2 ^ l + 1 <= MAXINT) ->
  let nmn := qpow b (f * 2 ^ l) in let nmx := qpow b (la * 2 ^ l) in
  mvlo = log_end_ok b (2 ^ l) f nmn && Qleb nmn emin ->
  mvhi = log_end_ok b (2 ^ l) la nmx && Qleb emax nmx ->
  a = (if mvlo then nmn else emin) -> c = (if mvhi then nmx else emax) ->
  (mvlo = false -> isin3 (near emin (qpow b (ceil_log b emin)) (c / a) (log_mu a c)) =
                   isin3 (near emin (qpow b (ceil_log b emin)) (emax / emin) (log_mu emin emax))) ->
  (mvhi = false -> isin3 (near (qpow b (floor_log b emax)) emax (c / a) (log_mu a c)) =
                   isin3 (near (qpow b (floor_log b emax)) emax (emax / emin) (log_mu emin emax))) ->
  let e' := log_exps b a c in
  ((0 < a)%Q /\ (a <= emin)%Q /\ (emax <= c)%Q) /\
  (f * 2 ^ l <= le_out_lo e' <= le_out_lo e /\ le_out_hi e <= le_out_hi e' <= la * 2 ^ l) /\
  log_nice b emin emax o = (a, c) /\ log_nice b a c o = (a, c).
Proof.
  intros Hb P Lt e Hlh H0 Hmax Hl f la Hcnt nmn nmx Elo Ehi Ea Ec Klo Khi e'.
  pose proof (level_nonneg e o l Hlh H0 Hmax Hl) as Ln. pose proof (pow2_pos l Ln) as K.
  destruct (f_la e o l Hlh H0 Hmax Hl) as (Ef & Ela & Flt). fold f la in Ef, Ela, Flt.
  assert (Fk : f * 2 ^ l <= le_out_lo e) by (apply fdiv_iff; [exact K | lia]).
  assert (Lk : le_out_hi e <= la * 2 ^ l) by (apply cdiv_iff; [exact K | lia]).
  pose proof (qpow_pos b (f * 2 ^ l) ltac:(lia)) as Pn. fold nmn in Pn.
  assert (Aa : (0 < a)%Q /\ (a <= emin)%Q).
  { destruct mvlo; subst a; [|split; lra]. symmetry in Elo. apply andb_true_iff in Elo. destruct Elo as [_ Q1].
    gb_bool. split; lra. }
  assert (Cc : (emax <= c)%Q).
  { destruct mvhi; subst c; [|lra]. symmetry in Ehi. apply andb_true_iff in Ehi. destruct Ehi as [_ Q1].
    gb_bool. exact Q1. }
  destruct Aa as [Pa La]. assert (Ac : (a < c)%Q) by lra.
  assert (Hlo' : f * 2 ^ l <= le_out_lo e' <= le_out_lo e).
  { unfold e'. destruct mvlo; subst a.
    - unfold nmn. rewrite out_lo_pow by exact Hb. lia.
    - specialize (Klo eq_refl). rewrite log_exps_out_lo, Klo. unfold e in Fk |- *. rewrite log_exps_out_lo in Fk |- *. lia. }
  assert (Hhi' : le_out_hi e <= le_out_hi e' <= la * 2 ^ l).
  { unfold e'. destruct mvhi; subst c.
    - unfold nmx. rewrite out_hi_pow by exact Hb. lia.
    - specialize (Khi eq_refl). rewrite log_exps_out_hi, Khi. unfold e in Lk |- *. rewrite log_exps_out_hi in Lk |- *. lia. }
  assert (H0' : log_count e' true 0 <= MAXINT).
  { unfold log_count, log_first_last. cbn [Z.ltb Z.compare]. change (2 ^ 0) with 1.
    rewrite Z.div_1_r. unfold cdiv. rewrite Z.div_1_r. lia. }
  pose proof (find_level_niced2 e e' o l Hlh H0 Hmax Hl Hlo' Hhi' H0') as F.
  pose proof (first_last_e'2 e e' o l Hlh H0 Hmax Hl Hlo' Hhi') as FL. fold f la in FL.
  assert (FLe : log_first_last e true l = (f, la)) by (unfold f, la; destruct (log_first_last e true l); reflexivity).
  split; [repeat split; assumption|]. split; [split; assumption|]. split.
  - unfold log_nice, log_nice_gen.
    destruct (Qeqb emin emax) eqn:E1; [gb_bool; lra|].
    unfold log_fold. destruct (Qltb emin 0) eqn:E2; [gb_bool; lra|].
    fold e. rewrite Hl, FLe. fold nmn nmx. rewrite <- Elo, <- Ehi, <- Ea, <- Ec. reflexivity.
  - unfold log_nice, log_nice_gen.
    destruct (Qeqb a c) eqn:E1; [gb_bool; lra|].
    unfold log_fold. destruct (Qltb a 0) eqn:E2; [gb_bool; lra|].
    fold e'. rewrite F, FL. fold nmn nmx. f_equal.
    + destruct mvlo; subst a.
      * match goal with |- (if ?x then _ else _) = _ => destruct x end; reflexivity.
      * rewrite <- Elo. reflexivity.
    + destruct mvhi; subst c.
      * match goal with |- (if ?x then _ else _) = _ => destruct x end; reflexivity.
      * rewrite <- Ehi. reflexivity.
Qed.

Lemma log_nice_core_inside b emin emax o l (mvlo mvhi : bool) a c : 2 <= b -> (0 < emin)%Q -> (emin < emax)%Q ->
  let e := log_exps b emin emax in
  le_out_lo e < le_out_hi e -> log_count e true 0 <= MAXINT -> o_max o < MAXINT ->
  find_level o (log_count e true) 0 = FL_ok l ->
  let f := fst (log_first_last e true l) in let la := snd (log_first_last e true l) in
  (la * 2 ^ l - f * 2 ^ l + 1 <= MAXINT) ->
  let nmn := qpow b (f * 2 ^ l) in let nmx := qpow b (la * 2 ^ l) in
  mvlo = log_end_ok b (2 ^ l) f nmn && Qleb nmn emin ->
  mvhi = log_end_ok b (2 ^ l) la nmx && Qleb emax nmx ->
  a = (if mvlo then nmn else emin) -> c = (if mvhi then nmx else emax) ->
  (mvlo = false -> near emin (qpow b (ceil_log b emin)) (emax / emin) (log_mu emin emax) = N_inside) ->
  (mvhi = false -> near (qpow b (floor_log b emax)) emax (emax / emin) (log_mu emin emax) = N_inside) ->
  (mvlo = false -> near emin (qpow b (ceil_log b emin)) (c / a) (log_mu a c) <> N_border) ->
  (mvhi = false -> near (qpow b (floor_log b emax)) emax (c / a) (log_mu a c) <> N_border) ->
  let e' := log_exps b a c in
  ((0 < a)%Q /\ (a <= emin)%Q /\ (emax <= c)%Q) /\
  (f * 2 ^ l <= le_out_lo e' <= le_out_lo e /\ le_out_hi e <= le_out_hi e' <= la * 2 ^ l) /\
  log_nice b emin emax o = (a, c) /\ log_nice b a c o = (a, c).
Proof.
  intros Hb P Lt e Hlh H0 Hmax Hl f la Hcnt nmn nmx Elo Ehi Ea Ec Ilo Ihi Blo Bhi.
  pose proof (qpow_pos b (f * 2 ^ l) ltac:(lia)) as Pn. fold nmn in Pn.
  assert (Aa : (0 < a)%Q /\ (a <= emin)%Q).
  { destruct mvlo; subst a; [|split; lra]. symmetry in Elo. apply andb_true_iff in Elo. destruct Elo as [_ Q1].
    gb_bool. split; lra. }
  assert (Cc : (emax <= c)%Q).
  { destruct mvhi; subst c; [|lra]. symmetry in Ehi. apply andb_true_iff in Ehi. destruct Ehi as [_ Q1].
    gb_bool. exact Q1. }
  destruct Aa as [Pa La].
  apply (log_nice_core b emin emax o l mvlo mvhi a c Hb P Lt Hlh H0 Hmax Hl Hcnt Elo Ehi Ea Ec).
  - intros M. specialize (Ilo M). specialize (Blo M).
    assert (Ea' : a = emin) by (rewrite Ea, M; reflexivity). rewrite Ea' in Blo |- *.
    rewrite Ilo, (out_lo_keep b emin emax c Hb P Lt Cc Ilo Blo). reflexivity.
  - intros M. specialize (Ihi M). specialize (Bhi M).
    assert (Ec' : c = emax) by (rewrite Ec, M; reflexivity). rewrite Ec' in Bhi |- *.
    rewrite Ihi, (out_hi_keep b emin emax a Hb Pa La Lt Ihi Bhi). reflexivity.
Qed.

(* ---------- the ticks of a domain whose admitted exponents are [f 2^l, la 2^l] ---------- *)
Lemma isin3_true n : isin3 n = true -> n = N_inside.
Proof. destruct n; [reflexivity | discriminate | discriminate]. Qed.

Lemma qpow_succ_ge2 b n : 2 <= b -> (2 * qpow b n <= qpow b (n + 1))%Q.
Proof.
  intros Hb. rewrite qpow_succ by lia. pose proof (qpow_pos b n ltac:(lia)) as P.
  assert (B : (2 <= inject_Z b)%Q) by (change 2%Q with (inject_Z 2); rewrite <- Zle_Qle; exact Hb).
  apply Qmult_le_compat_r; lra.
Qed.

(* an end just below b^cmin (INSIDE) is not also just above b^fmin: the first admitted exponent is cmin *)
Lemma in_lo_keep b emin c : 2 <= b -> (0 < emin)%Q -> (emin < c)%Q ->
  near emin (qpow b (ceil_log b emin)) (c / emin) (log_mu emin c) = N_inside ->
  le_in_lo (log_exps b emin c) = ceil_log b emin.
Proof.
  intros Hb P Lt N3. rewrite log_exps_in_lo.
  destruct (isin3 (near (qpow b (floor_log b emin)) emin (c / emin) (log_mu emin c))) eqn:I; [|reflexivity].
  apply isin3_true in I. destruct (floor_log_spec b emin Hb P) as [L U].
  unfold ceil_log in *. destruct (Qeqb (qpow b (floor_log b emin)) emin) eqn:Q1; [reflexivity|]. exfalso.
  pose proof (q_div_pos c emin ltac:(lra) P) as T. pose proof (log_mu_pos emin c) as M.
  exact (near_inside_both_impossible _ _ _ _ _ _ _ (qpow_pos b _ ltac:(lia)) L (Qlt_le_weak _ _ U)
           (qpow_succ_ge2 b _ Hb) T T M M I N3).
Qed.
Lemma in_hi_keep b a emax : 2 <= b -> (0 < a)%Q -> (a < emax)%Q ->
  near (qpow b (floor_log b emax)) emax (emax / a) (log_mu a emax) = N_inside ->
  le_in_hi (log_exps b a emax) = floor_log b emax.
Proof.
  intros Hb P Lt N4. rewrite log_exps_in_hi.
  destruct (isin3 (near emax (qpow b (ceil_log b emax)) (emax / a) (log_mu a emax))) eqn:I; [|reflexivity].
  apply isin3_true in I. destruct (floor_log_spec b emax Hb ltac:(lra)) as [L U].
  unfold ceil_log in *. destruct (Qeqb (qpow b (floor_log b emax)) emax) eqn:Q1; [reflexivity|]. exfalso.
  pose proof (q_div_pos emax a ltac:(lra) P) as T. pose proof (log_mu_pos a emax) as M.
  exact (near_inside_both_impossible _ _ _ _ _ _ _ (qpow_pos b _ ltac:(lia)) L (Qlt_le_weak _ _ U)
           (qpow_succ_ge2 b _ Hb) T T M M N4 I).
Qed.

Lemma log_ticks_first_last_gen b a c o l f la lo hi major minor : 2 <= b -> (0 < a)%Q -> (a < c)%Q ->
  let e' := log_exps b a c in
  le_in_lo e' = f * 2 ^ l -> le_in_hi e' = la * 2 ^ l -> 0 <= l -> f < la ->
  la * 2 ^ l - f * 2 ^ l + 1 <= MAXINT ->
  level_bounds o = Some (lo, hi) -> lo <= l <= hi -> la - f + 1 <= o_max o -> o_max o < MAXINT ->
  log_ticks b a c o = TR_ticks major minor ->
  (exists rest, major = qpow b (f * 2 ^ l) :: rest) /\ forall d, last major d = qpow b (la * 2 ^ l).
Proof.
  intros Hb Pa Hac e' Elo Ehi Ln Lt Hcnt Hbd Lb Fit Hmax HT. pose proof (pow2_pos l Ln) as K.
  unfold log_ticks, log_ticks_gen in HT.
  destruct (o_max o <=? 0) eqn:M0; [discriminate|].
  destruct (Qeqb a c) eqn:E1; [gb_bool; lra|].
  unfold log_fold in HT. destruct (Qltb a 0) eqn:E2; [gb_bool; lra|]. fold e' in HT.
  destruct (find_level o (log_count e' false) 0) as [l2| |] eqn:F2; try discriminate.
  injection HT as <- _.
  assert (Hexp : le_in_lo e' <= le_in_hi e' + 1) by (rewrite Elo, Ehi; nia).
  assert (H0i : log_count e' false 0 <= MAXINT).
  { unfold log_count, log_first_last. cbn [Z.ltb Z.compare]. rewrite Elo, Ehi. change (2 ^ 0) with 1.
    rewrite Z.div_1_r. unfold cdiv. rewrite Z.div_1_r. lia. }
  pose proof (find_level_lowest o _ 0 lo hi l2 Hbd (log_count_nonincreasing e' Hexp lo hi H0i) F2) as (L2b & L2fit & L2low).
  assert (L2n : 0 <= l2).
  { destruct (Z_lt_le_dec l2 0) as [G|G]; [|exact G]. exfalso.
    unfold log_count in L2fit. replace (l2 <? 0) with true in L2fit by (symmetry; apply Z.ltb_lt; lia).
    lia. }
  assert (Cin : log_count e' false l = la - f + 1).
  { unfold log_count, log_first_last. replace (l <? 0) with false by (symmetry; apply Z.ltb_ge; lia).
    rewrite Elo, Ehi. rewrite Z.div_mul by lia. unfold cdiv. rewrite <- Z.mul_opp_l, Z.div_mul by lia. lia. }
  assert (L2l : l2 <= l).
  { destruct (Z_lt_le_dec l l2) as [G|G]; [|exact G]. exfalso. specialize (L2low l ltac:(lia)). lia. }
  pose proof (pow2_pos l2 L2n) as K2. pose proof (pow2_pos (l - l2) ltac:(lia)) as Kd.
  assert (E : 2 ^ l = 2 ^ (l - l2) * 2 ^ l2) by (rewrite <- Z.pow_add_r by lia; f_equal; lia).
  unfold log_ticks_at', log_ticks_pos. replace (l2 <? 0) with false by (symmetry; apply Z.ltb_ge; lia).
  unfold log_first_last. rewrite Elo, Ehi, E, !Z.mul_assoc, Z.div_mul by lia.
  assert (C' : cdiv (f * 2 ^ (l - l2) * 2 ^ l2) (2 ^ l2) = f * 2 ^ (l - l2)).
  { unfold cdiv. rewrite <- Z.mul_opp_l, Z.div_mul by lia. lia. }
  rewrite C'.
  assert (Npos : 0 < la * 2 ^ (l - l2) - f * 2 ^ (l - l2)) by nia.
  destruct (Z.to_nat (la * 2 ^ (l - l2) - f * 2 ^ (l - l2) + 1)) as [|n] eqn:En; [lia|].
  split.
  - exists (pow_seq n b (f * 2 ^ (l - l2) + 1) (2 ^ l2)). cbn [pow_seq]. reflexivity.
  - intros d. rewrite pow_seq_last. f_equal.
    assert (Z.of_nat n = la * 2 ^ (l - l2) - f * 2 ^ (l - l2)) by lia. nia.
Qed.

(* after Nice, the first / last major tick is the power Nice rounded out to: the new end itself when
   the end moved, the power the end is within the slack of when the D10 repair left it in place *)
Lemma log_ticks_core b emin emax o l (mvlo mvhi : bool) a c major minor : 2 <= b -> (0 < emin)%Q -> (emin < emax)%Q ->
  let e := log_exps b emin emax in
  le_out_lo e < le_out_hi e -> log_count e true 0 <= MAXINT -> o_max o < MAXINT ->
  find_level o (log_count e true) 0 = FL_ok l ->
  let f := fst (log_first_last e true l) in let la := snd (log_first_last e true l) in
  (la * 2 ^ l - f * 2 ^ l + 1 <= MAXINT) ->
  let nmn := qpow b (f * 2 ^ l) in let nmx := qpow b (la * 2 ^ l) in
  mvlo = log_end_ok b (2 ^ l) f nmn && Qleb nmn emin ->
  mvhi = log_end_ok b (2 ^ l) la nmx && Qleb emax nmx ->
  a = (if mvlo then nmn else emin) -> c = (if mvhi then nmx else emax) ->
  (mvlo = false -> near emin (qpow b (ceil_log b emin)) (emax / emin) (log_mu emin emax) = N_inside) ->
  (mvhi = false -> near (qpow b (floor_log b emax)) emax (emax / emin) (log_mu emin emax) = N_inside) ->
  (mvlo = false -> near emin (qpow b (ceil_log b emin)) (c / a) (log_mu a c) <> N_border) ->
  (mvhi = false -> near (qpow b (floor_log b emax)) emax (c / a) (log_mu a c) <> N_border) ->
  (mvlo = false -> Qleb nmn emin = false) -> (mvhi = false -> Qleb emax nmx = false) ->
  log_ticks b a c o = TR_ticks major minor ->
  (exists rest, major = nmn :: rest) /\ (forall d, last major d = nmx) /\
  (mvlo = false -> near a nmn (c / a) (log_mu a c) = N_inside) /\
  (mvhi = false -> near nmx c (c / a) (log_mu a c) = N_inside).
Proof.
  intros Hb P Lt e Hlh H0 Hmax Hl f la Hcnt nmn nmx Elo Ehi Ea Ec Ilo Ihi Blo Bhi Slo Shi HT.
  destruct (log_nice_core_inside b emin emax o l mvlo mvhi a c Hb P Lt Hlh H0 Hmax Hl Hcnt Elo Ehi Ea Ec Ilo Ihi Blo Bhi)
    as ((Pa & La & Cc) & _ & _ & _).
  pose proof (level_nonneg e o l Hlh H0 Hmax Hl) as Ln. pose proof (pow2_pos l Ln) as K.
  destruct (f_la e o l Hlh H0 Hmax Hl) as (Ef & Ela & Flt). fold f la in Ef, Ela, Flt.
  assert (Fk : f * 2 ^ l <= le_out_lo e) by (apply fdiv_iff; [exact K | lia]).
  assert (Lk : le_out_hi e <= la * 2 ^ l) by (apply cdiv_iff; [exact K | lia]).
  destruct (level_bounds o) as [[lo hi]|] eqn:Hbd; [|unfold find_level in Hl; rewrite Hbd in Hl; discriminate].
  pose proof (find_level_lowest o _ 0 lo hi l Hbd (log_count_out_nonincreasing e Hlh lo hi H0) Hl) as (Lb & Fit & _).
  unfold log_count in Fit. replace (l <? 0) with false in Fit by (symmetry; apply Z.ltb_ge; lia).
  unfold log_first_last in Fit. rewrite <- Ef, <- Ela in Fit.
  assert (Ac : (a < c)%Q) by lra.
  assert (LO : le_in_lo (log_exps b a c) = f * 2 ^ l /\ (mvlo = false -> near a nmn (c / a) (log_mu a c) = N_inside)).
  { destruct mvlo; subst a.
    - split; [unfold nmn; apply in_lo_pow; exact Hb | discriminate].
    - specialize (Ilo eq_refl). specialize (Slo eq_refl). gb_bool.
      pose proof (out_lo_keep b emin emax c Hb P Lt Cc Ilo (Blo eq_refl)) as N3.
      assert (Oe : le_out_lo e = ceil_log b emin) by (unfold e; rewrite log_exps_out_lo, Ilo; reflexivity).
      assert (Fc : f * 2 ^ l = ceil_log b emin).
      { destruct (Z.eq_dec (f * 2 ^ l) (ceil_log b emin)) as [Q1|Q1]; [exact Q1|]. exfalso.
        destruct (ceil_log_spec b emin Hb P) as [L1 _].
        pose proof (qpow_le b (f * 2 ^ l) (ceil_log b emin - 1) Hb ltac:(lia)) as L2. fold nmn in L2. lra. }
      split.
      + rewrite Fc. apply in_lo_keep; [exact Hb | exact P | lra | exact N3].
      + intros _. unfold nmn. rewrite Fc. exact N3. }
  assert (HI : le_in_hi (log_exps b a c) = la * 2 ^ l /\ (mvhi = false -> near nmx c (c / a) (log_mu a c) = N_inside)).
  { destruct mvhi; subst c.
    - split; [unfold nmx; apply in_hi_pow; exact Hb | discriminate].
    - specialize (Ihi eq_refl). specialize (Shi eq_refl). gb_bool.
      pose proof (out_hi_keep b emin emax a Hb Pa La Lt Ihi (Bhi eq_refl)) as N4.
      assert (Oe : le_out_hi e = floor_log b emax) by (unfold e; rewrite log_exps_out_hi, Ihi; reflexivity).
      assert (Lc : la * 2 ^ l = floor_log b emax).
      { destruct (Z.eq_dec (la * 2 ^ l) (floor_log b emax)) as [Q1|Q1]; [exact Q1|]. exfalso.
        destruct (floor_log_spec b emax Hb ltac:(lra)) as [_ U1].
        pose proof (qpow_le b (floor_log b emax + 1) (la * 2 ^ l) Hb ltac:(lia)) as L2. fold nmx in L2. lra. }
      split.
      + rewrite Lc. apply in_hi_keep; [exact Hb | exact Pa | lra | exact N4].
      + intros _. unfold nmx. rewrite Lc. exact N4. }
  destruct LO as [Elo' Nlo]. destruct HI as [Ehi' Nhi].
  destruct (log_ticks_first_last_gen b a c o l f la lo hi major minor Hb Pa Ac Elo' Ehi' Ln Flt Hcnt Hbd Lb Fit Hmax HT) as [R1 R2].
  repeat split; assumption.
Qed.

(* LOG NICE IS IDEMPOTENT AND ITS ENDS ARE THE FIRST / LAST MAJOR TICK, ALSO WITH AN END LEFT IN PLACE:
   for a positive domain emin < emax whose Nice found level l and the candidates nmn = b^(f 2^l),
   nmx = b^(la 2^l), let mvlo / mvhi say whether Nice moved the lower / upper end (log.go:233, 236)
   and [a, c] be the niced domain.  If every end that Nice left in place was within the slack of the
   power next to it (its rounding-out decision was N_inside), and that decision, re-taken for the
   niced domain (other ratio t, other mu), is not undecided (N_border) - implied by
   le_amb (log_exps b a c) = false -, then
     * the second Nice returns [a, c] again;
     * if moreover the candidate of an unmoved end lies strictly outside the domain (the end is just
       inside the power: the D10 situation), Ticks on [a, c] starts at nmn and ends at nmx, which is
       the end itself for an end that moved and the power the end is within the slack of (N_inside
       for the niced domain) for an end left in place.
   Nothing is assumed about an end that moved; with both ends moved this is
   log_nice_fixed_on_landed_ends / log_ticks_on_landed_ends.  Last conjunct: for idempotence alone
   it is enough that the rounding-out decision of every unmoved end selects the same exponent for
   the niced domain, whatever it was (this also covers an end left in place because its candidate
   power is not a positive finite float64, as long as its decision stays 'not inside'). *)
Theorem log_nice_idempotent_with_unmoved_end b emin emax o l : 2 <= b -> (0 < emin)%Q -> (emin < emax)%Q ->
  let e := log_exps b emin emax in
  le_out_lo e < le_out_hi e -> log_count e true 0 <= MAXINT -> o_max o < MAXINT ->
  find_level o (log_count e true) 0 = FL_ok l ->
  let f := fst (log_first_last e true l) in let la := snd (log_first_last e true l) in
  (la * 2 ^ l - f * 2 ^ l + 1 <= MAXINT) ->
  let nmn := qpow b (f * 2 ^ l) in let nmx := qpow b (la * 2 ^ l) in
  let mvlo := log_end_ok b (2 ^ l) f nmn && Qleb nmn emin in
  let mvhi := log_end_ok b (2 ^ l) la nmx && Qleb emax nmx in
  let a := if mvlo then nmn else emin in let c := if mvhi then nmx else emax in
  (* the re-taken decisions of the unmoved ends are decided *)
  let decided :=
    (mvlo = false -> near emin (qpow b (ceil_log b emin)) (c / a) (log_mu a c) <> N_border) /\
    (mvhi = false -> near (qpow b (floor_log b emax)) emax (c / a) (log_mu a c) <> N_border) in
  (le_amb (log_exps b a c) = false -> decided) /\
  ((mvlo = false -> near emin (qpow b (ceil_log b emin)) (emax / emin) (log_mu emin emax) = N_inside) ->
   (mvhi = false -> near (qpow b (floor_log b emax)) emax (emax / emin) (log_mu emin emax) = N_inside) ->
   decided ->
   log_nice b emin emax o = (a, c) /\ log_nice b a c o = (a, c) /\
   ((mvlo = false -> Qleb nmn emin = false) -> (mvhi = false -> Qleb emax nmx = false) ->
    forall major minor, log_ticks b a c o = TR_ticks major minor ->
    (exists rest, major = nmn :: rest) /\ (forall d, last major d = nmx) /\
    (mvlo = true -> a = nmn) /\ (mvhi = true -> c = nmx) /\
    (mvlo = false -> a = emin /\ near a nmn (c / a) (log_mu a c) = N_inside) /\
    (mvhi = false -> c = emax /\ near nmx c (c / a) (log_mu a c) = N_inside))) /\
  (* idempotence alone: it is enough that the rounding-out decision of each unmoved end selects the
     same exponent for the niced domain (whatever the decision was) *)
  ((mvlo = false -> isin3 (near emin (qpow b (ceil_log b emin)) (c / a) (log_mu a c)) =
                    isin3 (near emin (qpow b (ceil_log b emin)) (emax / emin) (log_mu emin emax))) ->
   (mvhi = false -> isin3 (near (qpow b (floor_log b emax)) emax (c / a) (log_mu a c)) =
                    isin3 (near (qpow b (floor_log b emax)) emax (emax / emin) (log_mu emin emax))) ->
   log_nice b emin emax o = (a, c) /\ log_nice b a c o = (a, c)).
Proof.
  intros Hb P Lt e Hlh H0 Hmax Hl f la Hcnt nmn nmx mvlo mvhi a c decided. split; [|split].
  - intros Amb. destruct (log_exps_amb_false b a c Amb) as (_ & _ & N3 & N4). split.
    + intros M. assert (Ea : a = emin) by (unfold a; rewrite M; reflexivity). rewrite Ea in N3 |- *. exact N3.
    + intros M. assert (Ec : c = emax) by (unfold c; rewrite M; reflexivity). rewrite Ec in N4 |- *. exact N4.
  - intros Ilo Ihi [Blo Bhi].
    destruct (log_nice_core_inside b emin emax o l mvlo mvhi a c Hb P Lt Hlh H0 Hmax Hl Hcnt eq_refl eq_refl eq_refl eq_refl Ilo Ihi Blo Bhi)
      as (_ & _ & N1 & N2).
    split; [exact N1|]. split; [exact N2|]. intros Slo Shi major minor HT.
    destruct (log_ticks_core b emin emax o l mvlo mvhi a c major minor Hb P Lt Hlh H0 Hmax Hl Hcnt eq_refl eq_refl eq_refl eq_refl
                Ilo Ihi Blo Bhi Slo Shi HT) as (R1 & R2 & R3 & R4).
    split; [exact R1|]. split; [exact R2|].
    split; [intros M; unfold a; rewrite M; reflexivity|]. split; [intros M; unfold c; rewrite M; reflexivity|].
    split; intros M.
    + split; [unfold a; rewrite M; reflexivity | exact (R3 M)].
    + split; [unfold c; rewrite M; reflexivity | exact (R4 M)].
  - intros Klo Khi.
    destruct (log_nice_core b emin emax o l mvlo mvhi a c Hb P Lt Hlh H0 Hmax Hl Hcnt eq_refl eq_refl eq_refl eq_refl Klo Khi)
      as (_ & _ & N1 & N2). split; assumption.
Qed.

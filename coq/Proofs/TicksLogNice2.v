(* Proofs/TicksLogNice2.v — C17, Nice on Log scales with an end LEFT IN PLACE by the D10 repair. *)
From Coq Require Import Lqa Lia ZArith QArith Qround Qpower Sorted.
From MM Require Import Base.Num Base.GBLemmas Model.Ticks Proofs.Ticks Proofs.TicksLinear Proofs.TicksLog
  Proofs.TicksLogExp Proofs.TicksNice Proofs.TicksLogNice.
Local Open Scope Z_scope.

(* ---------- the exact MODEL is not idempotent where the re-taken slack decision is undecided ---------- *)
Definition wit_mn : Q := (9007199254740992 - 896451) # 9007199254740992.     (* (2^53 - 896451) / 2^53 *)
Definition wit_mx : Q := inject_Z (3 * 2 ^ 100).
Lemma log_nice_model_not_idempotent_refuted :
  exists b mn mx o mn1 mx1, 2 <= b /\ (0 < mn)%Q /\ (mn < mx)%Q /\ 3 <= o_max o /\
    log_nice b mn mx o = (mn1, mx1) /\ mn1 = mn /\ le_amb (log_exps b mn mx) = false /\
    le_amb (log_exps b mn1 mx1) = true /\
    log_nice b mn1 mx1 o = (qpow 2 (-32), mx1) /\ ~ (qpow 2 (-32) == mn1)%Q.
Proof.
  exists 2, wit_mn, wit_mx, (mkOpts 6 0 0), wit_mn, (inject_Z (2 ^ 128)).
  repeat split; try (vm_compute; congruence); try lia.
Qed.

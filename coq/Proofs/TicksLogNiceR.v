(* Proofs/TicksLogNiceR.v — (group hM) C17: with the REAL-valued slack rule of log.go:118-128 the rounding-out
   decision of an end that Nice left in place is the same for the niced domain: the slack only grows when the
   other end moves outwards.  lmin, lmax: the logarithms of the ends to the effective base; s = 1e-10;
   c: the integer exponent the lower end lies just below (within the slack); lmax': the new upper end.
   So the non-idempotence of the exact model at an N_border re-decision (C17_log_nice_model_not_idempotent_refuted)
   is an artefact of its three-valued decision, not of the rule.  Real numbers: stdlib axioms only. *)
From Coq Require Import Reals Lra Lia ZArith.
Local Open Scope R_scope.

(* floor (lmin + slack') = c = floor (lmin + slack) *)
Lemma slack_rule_stable_lo (s lmin lmax lmax' : R) (c : Z) :
  0 <= s -> lmax <= lmax' -> s * (lmax' - lmin) < 1 ->
  lmin <= IZR c -> IZR c - lmin <= s * (lmax - lmin) ->
  forall n : Z, IZR n <= lmin + s * (lmax' - lmin) <-> (n <= c)%Z.
Proof.
  intros Hs Hm H1 Hc Hin n.
  assert (G : s * (lmax - lmin) <= s * (lmax' - lmin)) by (apply Rmult_le_compat_l; lra).
  split; intro H.
  - assert (IZR n < IZR c + 1) by lra. rewrite <- plus_IZR in H0. apply lt_IZR in H0. lia.
  - apply IZR_le in H. lra.
Qed.

(* ceil (lmax - slack') = c = ceil (lmax - slack) *)
Lemma slack_rule_stable_hi (s lmin lmin' lmax : R) (c : Z) :
  0 <= s -> lmin' <= lmin -> s * (lmax - lmin') < 1 ->
  IZR c <= lmax -> lmax - IZR c <= s * (lmax - lmin) ->
  forall n : Z, lmax - s * (lmax - lmin') <= IZR n <-> (c <= n)%Z.
Proof.
  intros Hs Hm H1 Hc Hin n.
  assert (G : s * (lmax - lmin) <= s * (lmax - lmin')) by (apply Rmult_le_compat_l; lra).
  split; intro H.
  - assert (IZR c - 1 < IZR n) by lra. rewrite <- minus_IZR in H0. apply lt_IZR in H0. lia.
  - apply IZR_le in H. lra.
Qed.

(* an end that landed on an integer exponent H rounds out to H again, whatever the (sub-unit) slack *)
Lemma slack_rule_landed (slack : R) (H : Z) : 0 <= slack < 1 ->
  (forall n : Z, IZR n <= IZR H + slack <-> (n <= H)%Z) /\ (forall n : Z, IZR H - slack <= IZR n <-> (H <= n)%Z).
Proof.
  intros [S0 S1]. split; intro n; split; intro K.
  - assert (IZR n < IZR H + 1) by lra. rewrite <- plus_IZR in H0. apply lt_IZR in H0. lia.
  - apply IZR_le in K. lra.
  - assert (IZR H - 1 < IZR n) by lra. rewrite <- minus_IZR in H0. apply lt_IZR in H0. lia.
  - apply IZR_le in K. lra.
Qed.

Lemma slack_rule_stable :
  (forall (s lmin lmax lmax' : R) (c : Z), 0 <= s -> lmax <= lmax' -> s * (lmax' - lmin) < 1 ->
     lmin <= IZR c -> IZR c - lmin <= s * (lmax - lmin) ->
     forall n : Z, IZR n <= lmin + s * (lmax' - lmin) <-> (n <= c)%Z) /\
  (forall (s lmin lmin' lmax : R) (c : Z), 0 <= s -> lmin' <= lmin -> s * (lmax - lmin') < 1 ->
     IZR c <= lmax -> lmax - IZR c <= s * (lmax - lmin) ->
     forall n : Z, lmax - s * (lmax - lmin') <= IZR n <-> (c <= n)%Z) /\
  (forall (slack : R) (H : Z), 0 <= slack < 1 ->
     (forall n : Z, IZR n <= IZR H + slack <-> (n <= H)%Z) /\ (forall n : Z, IZR H - slack <= IZR n <-> (H <= n)%Z)).
Proof. exact (conj slack_rule_stable_lo (conj slack_rule_stable_hi slack_rule_landed)). Qed.

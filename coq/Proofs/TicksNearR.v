(* Proofs/TicksNearR.v — C17: the three-valued slack decision [near] of Model/Ticks.v (rational
   bounds of the logarithm) ENCLOSES the real-valued rule of log.go:118-128
        |log big - log small| <= 1e-10 * (log emax - log emin)
   N_inside implies the rule holds (with the margin mu to spare), N_outside implies it fails
   (by more than mu); only N_border leaves it open.  Real numbers: stdlib axioms only. *)
From Coq Require Import Reals Lra Lia ZArith QArith Qreals Qround.
From MM Require Import Base.Num Base.GBLemmas Model.Ticks.
Local Open Scope R_scope.

Lemma ln_le_sub1 x : 0 < x -> ln x <= x - 1.
Proof.
  intros Hx. pose proof (exp_ineq1_le (x - 1)) as H. replace (1 + (x - 1)) with x in H by ring.
  destruct (Req_dec x (exp (x - 1))) as [E|N].
  - rewrite E at 1. rewrite ln_exp. lra.
  - assert (L : x < exp (x - 1)) by lra. apply ln_increasing in L; [|exact Hx]. rewrite ln_exp in L. lra.
Qed.
Lemma ln_ge_1_sub_inv x : 0 < x -> 1 - / x <= ln x.
Proof.
  intros Hx. pose proof (ln_le_sub1 (/ x) (Rinv_0_lt_compat x Hx)) as H. rewrite ln_Rinv in H by exact Hx. lra.
Qed.
Lemma ln2_lt1 : ln 2 < 1.
Proof.
  assert (H : 1 + 1 < exp 1) by (apply exp_ineq1; lra).
  replace (1 + 1) with 2 in H by ring. apply ln_increasing in H; [|lra]. now rewrite ln_exp in H.
Qed.
Lemma ln_le_mono x y : 0 < x -> x <= y -> ln x <= ln y.
Proof. intros Hx [L| ->]; [left; now apply ln_increasing | right; reflexivity]. Qed.

(* ln T <= log2 z + 1 for 0 < T <= z *)
Lemma ln_le_log2 (z : Z) T : (1 <= z)%Z -> 0 < T -> T <= IZR z -> ln T <= IZR (Z.log2 z + 1).
Proof.
  intros Hz HT HTz. pose proof (Z.log2_spec z ltac:(lia)) as [_ U]. pose proof (Z.log2_nonneg z) as NN.
  set (n := Z.log2 z) in *. replace (Z.succ n) with (n + 1)%Z in U by lia.
  assert (E : IZR (2 ^ (n + 1)) = 2 ^ Z.to_nat (n + 1)).
  { rewrite pow_IZR. now rewrite Z2Nat.id by lia. }
  assert (L1 : ln T <= ln (IZR z)) by (apply ln_le_mono; assumption).
  assert (L2 : ln (IZR z) < ln (2 ^ Z.to_nat (n + 1))).
  { apply ln_increasing; [apply IZR_lt; lia|]. rewrite <- E. apply IZR_lt. exact U. }
  rewrite ln_pow in L2 by lra. rewrite INR_IZR_INZ, Z2Nat.id in L2 by lia.
  pose proof ln2_lt1. assert (0 < ln 2) by (rewrite <- ln_1; apply ln_increasing; lra).
  assert (0 <= IZR (n + 1)) by (apply IZR_le; lia). nra.
Qed.

Section Near.
Variables (small big t mu : Q).
Hypothesis Hs : (0 < small)%Q.
Hypothesis Hsb : (small <= big)%Q.
Hypothesis Ht : (1 <= t)%Q.

Let S := Q2R small.
Let B := Q2R big.
Let T := Q2R t.
Let M := Q2R mu.
Let SF := Q2R slack_factor.

Lemma S_pos : 0 < S. Proof. unfold S. replace 0 with (Q2R 0) by (unfold Q2R; cbn; lra). now apply Qlt_Rlt. Qed.
Lemma SB : S <= B. Proof. now apply Qle_Rle. Qed.
Lemma T_ge1 : 1 <= T. Proof. unfold T. replace 1 with (Q2R 1) by (unfold Q2R; cbn; lra). now apply Qle_Rle. Qed.
Lemma SF_pos : 0 < SF. Proof. unfold SF, slack_factor, Q2R. cbn. lra. Qed.

(* N_inside: the two values are within the slack, with mu to spare *)
Theorem near_inside_sound : near small big t mu = N_inside -> ln (B / S) <= SF * ln T - M.
Proof.
  unfold near. destruct (Qleb ((big - small) / small) (slack_factor * ln_lo t - mu)) eqn:E; [|destruct (Qleb (slack_factor * ln_hi t + mu) ((big - small) / big)); intros X; discriminate X].
  intros _. gb_bool. apply Qle_Rle in E. pose proof S_pos as PS. pose proof SB as HB. pose proof T_ge1 as HT. pose proof SF_pos as PF.
  assert (NS : ~ (small == 0)%Q) by (intros X; rewrite X in Hs; revert Hs; apply Qlt_irrefl).
  assert (NT : ~ (t == 0)%Q) by (intros X; rewrite X in Ht; revert Ht; apply Qlt_not_le; reflexivity).
  unfold ln_lo in E. rewrite Q2R_div, !Q2R_minus, Q2R_mult, Q2R_minus, Q2R_div in E by assumption.
  fold S B T M SF in E. replace (Q2R 1) with 1 in E by (unfold Q2R; cbn; lra).
  assert (L1 : ln (B / S) <= (B - S) / S).
  { replace (B / S) with (1 + (B - S) / S) by (field; lra).
    pose proof (ln_le_sub1 (1 + (B - S) / S)) as H.
    assert (0 <= (B - S) / S) by (apply Rmult_le_pos; [lra | left; now apply Rinv_0_lt_compat]).
    specialize (H ltac:(lra)). lra. }
  assert (L2 : 1 - 1 / T <= ln T).
  { pose proof (ln_ge_1_sub_inv T ltac:(lra)). unfold Rdiv. lra. }
  nra.
Qed.

(* N_outside: the two values are farther apart than the slack, by more than mu *)
Theorem near_outside_sound : near small big t mu = N_outside -> SF * ln T + M <= ln (B / S).
Proof.
  unfold near. destruct (Qleb ((big - small) / small) (slack_factor * ln_lo t - mu)); [intros X; discriminate X|].
  destruct (Qleb (slack_factor * ln_hi t + mu) ((big - small) / big)) eqn:E; [|intros X; discriminate X].
  intros _. gb_bool. apply Qle_Rle in E. pose proof S_pos as PS. pose proof SB as HB. pose proof T_ge1 as HT. pose proof SF_pos as PF.
  assert (PB : 0 < B) by lra.
  assert (NB : ~ (big == 0)%Q).
  { intros X. assert (Y : (0 < big)%Q) by (apply Qlt_le_trans with small; assumption). rewrite X in Y. revert Y. apply Qlt_irrefl. }
  rewrite Q2R_plus, Q2R_mult, Q2R_div, Q2R_minus in E by assumption. fold S B M SF in E.
  (* ln T <= Q2R (ln_hi t) *)
  assert (H1 : ln T <= Q2R (ln_hi t)).
  { unfold ln_hi, Qminb. destruct (Qle_bool (t - 1) (inject_Z (Z.log2 (Qceil t) + 1))).
    - rewrite Q2R_minus. fold T. replace (Q2R 1) with 1 by (unfold Q2R; cbn; lra). apply ln_le_sub1. lra.
    - assert (C : (t <= inject_Z (Qceil t))%Q) by apply Qle_ceiling.
      assert (C1 : (1 <= Qceil t)%Z).
      { rewrite Zle_Qle. change (inject_Z 1) with 1%Q. apply Qle_trans with t; assumption. }
      apply Qle_Rle in C. fold T in C.
      assert (EZ : forall z, Q2R (inject_Z z) = IZR z) by (intros z; unfold Q2R; cbn; field).
      rewrite EZ in C. rewrite EZ. apply ln_le_log2; [exact C1 | lra | exact C]. }
  assert (H2 : (B - S) / B <= ln (B / S)).
  { replace (B / S) with (/ (S / B)) by (field; lra). rewrite ln_Rinv by (apply Rdiv_lt_0_compat; lra).
    pose proof (ln_le_sub1 (S / B) ltac:(apply Rdiv_lt_0_compat; lra)).
    replace ((B - S) / B) with (1 - S / B) by (field; lra). lra. }
  nra.
Qed.
End Near.

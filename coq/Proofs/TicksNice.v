(* Proofs/TicksNice.v — C17, Nice for Max >= 3 (Linear): the rounding-out count is
   non-increasing in the level, so Nice picks the LOWEST level whose rounded-out tick count is
   at most Max; Nice is idempotent; afterwards the first and last major ticks are the new ends
   (exactly when the end was moved onto a tick or was on one; within the slack the code grants
   itself when the D10 repair left an end that was within the slack of a tick). *)
From Coq Require Import Lqa Lia ZArith QArith Qround Qpower Qabs Sorted.
From MM Require Import Base.Num Base.GBLemmas Model.Ticks Proofs.Ticks Proofs.TicksLinear.
Local Open Scope Q_scope.

(* ---------- FindLevel is determined by the lowest fitting level ---------- *)
Lemma find_level_is_lowest o cnt guess lo hi l :
  level_bounds o = Some (lo, hi) -> nonincreasing cnt lo hi -> (1 <= o_max o)%Z ->
  (lo <= l <= hi)%Z -> (cnt l <= o_max o)%Z -> (forall l', lo <= l' < l -> o_max o < cnt l')%Z ->
  find_level o cnt guess = FL_ok l.
Proof.
  intros Hb Hm H1 Hl Hfit Hlow.
  destruct (find_level o cnt guess) as [l2| |] eqn:E.
  - pose proof (find_level_lowest o cnt guess lo hi l2 Hb Hm E) as (B & F & L).
    f_equal. destruct (Z.lt_trichotomy l2 l) as [A|[A|A]]; [|exact A|].
    + specialize (Hlow l2). lia.
    + specialize (L l). lia.
  - exfalso. apply (find_level_fails_iff o cnt guess) in E.
    + destruct E as [A|[A|(lo' & hi' & E & A)]]; [lia | congruence |].
      rewrite Hb in E. injection E as <- <-. specialize (A l Hl). lia.
    + intros lo' hi' E'. rewrite Hb in E'. injection E' as <- <-. exact Hm.
  - exfalso. exact (find_level_no_fuel o cnt guess E).
Qed.

(* ---------- floors and ceilings of quotients, by multiplication ---------- *)
Lemma inject_Z_sub1 z : inject_Z (z - 1) == inject_Z z - 1.
Proof. unfold Z.sub. rewrite inject_Z_plus. reflexivity. Qed.
Lemma inject_Z_add1 z : inject_Z (z + 1) == inject_Z z + 1.
Proof. rewrite inject_Z_plus. reflexivity. Qed.
Lemma mul_div x s : 0 < s -> x == x / s * s.
Proof. intros H. field. lra. Qed.
Lemma floor_ge_of x s (k : Z) : 0 < s -> inject_Z k * s <= x -> (k <= Qfloor (x / s))%Z.
Proof. intros Hs H. apply floor_greatest. now apply le_div_iff. Qed.
Lemma floor_le_of x s (k : Z) : 0 < s -> x < (inject_Z k + 1) * s -> (Qfloor (x / s) <= k)%Z.
Proof.
  intros Hs H. destruct (floor_spec (x / s)) as [F _].
  assert (A : inject_Z (Qfloor (x / s)) * s <= x).
  { rewrite (mul_div x s Hs) at 2. apply Qmult_le_compat_r; [exact F | lra]. }
  assert (B : inject_Z (Qfloor (x / s)) * s < (inject_Z k + 1) * s) by lra.
  apply Qmult_lt_r in B; [|exact Hs].
  assert (E : inject_Z k + 1 == inject_Z (k + 1)) by (rewrite inject_Z_plus; reflexivity).
  rewrite E in B. rewrite <- Zlt_Qlt in B. lia.
Qed.
Lemma ceil_le_of x s (k : Z) : 0 < s -> x <= inject_Z k * s -> (Qceiling (x / s) <= k)%Z.
Proof. intros Hs H. apply ceil_least. now apply div_le_iff. Qed.
Lemma ceil_ge_of x s (k : Z) : 0 < s -> (inject_Z k - 1) * s < x -> (k <= Qceiling (x / s))%Z.
Proof.
  intros Hs H. destruct (ceil_spec (x / s)) as [_ C].
  assert (A : x <= inject_Z (Qceiling (x / s)) * s).
  { rewrite (mul_div x s Hs) at 1. apply Qmult_le_compat_r; [exact C | lra]. }
  assert (B : (inject_Z k - 1) * s < inject_Z (Qceiling (x / s)) * s) by lra.
  apply Qmult_lt_r in B; [|exact Hs].
  rewrite <- inject_Z_sub1 in B. rewrite <- Zlt_Qlt in B. lia.
Qed.
Lemma floor_mul_spec x s : 0 < s ->
  inject_Z (Qfloor (x / s)) * s <= x /\ x < (inject_Z (Qfloor (x / s)) + 1) * s.
Proof.
  intros Hs. destruct (floor_spec (x / s)) as [F1 F2]. split.
  - rewrite (mul_div x s Hs) at 2. apply Qmult_le_compat_r; [exact F1 | lra].
  - rewrite (mul_div x s Hs) at 1. apply Qmult_lt_compat_r; assumption.
Qed.
Lemma ceil_mul_spec x s : 0 < s ->
  (inject_Z (Qceiling (x / s)) - 1) * s < x /\ x <= inject_Z (Qceiling (x / s)) * s.
Proof.
  intros Hs. destruct (ceil_spec (x / s)) as [C1 C2]. split.
  - rewrite (mul_div x s Hs) at 2. apply Qmult_lt_compat_r; assumption.
  - rewrite (mul_div x s Hs) at 1. apply Qmult_le_compat_r; [exact C2 | lra].
Qed.

Lemma slack_small mn mx : mn < mx -> 0 <= (mx - mn) * slack_factor /\ mn + (mx - mn) * slack_factor < mx - (mx - mn) * slack_factor.
Proof. intros H. unfold slack_factor. split; lra. Qed.

(* rounding out: firstN = floor((min+slack)/sp), lastN = ceil((max-slack)/sp) *)
Lemma first_last_out mn mx s :
  lin_first_last mn mx s true =
  (Qfloor ((mn + (mx - mn) * slack_factor) / s), Qceiling ((mx - (mx - mn) * slack_factor) / s)).
Proof. unfold lin_first_last. now rewrite qfl_floor, qcl_ceiling. Qed.

Section Out.
Variables (base eb : Z).
Hypothesis Heb : lin_ebase base = Some eb.
Let sp (l : Z) := lin_spacing base eb l.
Let sp_pos' l : 0 < sp l.
Proof. apply lin_spacing_pos. now destruct (lin_ebase_ge base eb Heb). Qed.

(* with a proper domain the rounded-out first index is below the last one *)
Lemma out_first_lt_last mn mx s : 0 < s -> mn < mx ->
  (Qfloor ((mn + (mx - mn) * slack_factor) / s) < Qceiling ((mx - (mx - mn) * slack_factor) / s))%Z.
Proof.
  intros Hs H. destruct (slack_small mn mx H) as [S0 S1].
  destruct (floor_mul_spec (mn + (mx - mn) * slack_factor) s Hs) as [F _].
  destruct (ceil_mul_spec (mx - (mx - mn) * slack_factor) s Hs) as [_ C].
  set (f := Qfloor _) in *. set (c := Qceiling _) in *.
  assert (B : inject_Z f * s < inject_Z c * s) by lra.
  apply Qmult_lt_r in B; [|exact Hs]. now rewrite <- Zlt_Qlt in B.
Qed.

(* THE ROUNDED-OUT COUNT IS NON-INCREASING IN THE LEVEL (what makes "the level Nice picks"
   well defined: the lowest level of the window with count <= Max, whatever the guess) *)
Lemma lin_count_out_step mn mx l : mn < mx ->
  (lin_count base eb mn mx true (l + 1) <= lin_count base eb mn mx true l)%Z.
Proof.
  intros H. unfold lin_count. rewrite !first_last_out. fold (sp (l + 1)) (sp l).
  set (sl := (mx - mn) * slack_factor).
  destruct (spacing_divides_next base eb l Heb) as (m & Hm & Em). fold (sp (l + 1)) (sp l) in Em.
  pose proof (sp_pos' l) as P. pose proof (sp_pos' (l + 1)) as P'.
  destruct (floor_mul_spec (mn + sl) (sp (l + 1)) P') as [F1' F2'].
  destruct (ceil_mul_spec (mx - sl) (sp (l + 1)) P') as [C1' C2'].
  pose proof (out_first_lt_last mn mx (sp l) P H) as Lt. fold sl in Lt.
  set (f' := Qfloor ((mn + sl) / sp (l + 1))) in *. set (c' := Qceiling ((mx - sl) / sp (l + 1))) in *.
  (* f <= (f'+1) m - 1 and (c'-1) m + 1 <= c *)
  assert (B : (Qfloor ((mn + sl) / sp l) <= (f' + 1) * m - 1)%Z).
  { apply floor_le_of; [exact P|].
    assert (E : (inject_Z ((f' + 1) * m - 1) + 1) * sp l == (inject_Z f' + 1) * sp (l + 1)).
    { rewrite Em, inject_Z_sub1, inject_Z_mult, inject_Z_add1. ring. }
    rewrite E. exact F2'. }
  assert (D : ((c' - 1) * m + 1 <= Qceiling ((mx - sl) / sp l))%Z).
  { apply ceil_ge_of; [exact P|].
    assert (E : (inject_Z ((c' - 1) * m + 1) - 1) * sp l == (inject_Z c' - 1) * sp (l + 1)).
    { rewrite Em, inject_Z_add1, inject_Z_mult, inject_Z_sub1. ring. }
    rewrite E. exact C1'. }
  set (f := Qfloor ((mn + sl) / sp l)) in *. set (c := Qceiling ((mx - sl) / sp l)) in *.
  destruct (Z_le_dec 2 (c' - f')) as [G|G]; nia.
Qed.

Lemma lin_count_out_nonincreasing mn mx lo hi : mn < mx -> nonincreasing (lin_count base eb mn mx true) lo hi.
Proof. intros H. apply nonincreasing_of_step. intros l. now apply lin_count_out_step. Qed.

(* the ends Nice produces at level l *)
Definition nice_at (mn mx : Q) (l : Z) : Q * Q :=
  let '(f, la) := lin_first_last mn mx (sp l) true in
  (if Qleb (inject_Z f * sp l) mn then inject_Z f * sp l else mn,
   if Qleb mx (inject_Z la * sp l) then inject_Z la * sp l else mx).

Lemma lin_nice_ordered mn mx o guess : mn < mx ->
  lin_nice_ideal base mn mx o guess =
  match find_level o (lin_count base eb mn mx true) guess with
  | FL_ok l => NR_dom (fst (nice_at mn mx l)) (snd (nice_at mn mx l))
  | _ => NR_dom mn mx
  end.
Proof.
  intros H. unfold lin_nice_ideal, lin_nice_ideal_gen.
  destruct (Qeqb mn mx) eqn:E1; [gb_bool; lra|]. destruct (Qltb mx mn) eqn:E2; [gb_bool; lra|].
  rewrite Heb. destruct (find_level o (lin_count base eb mn mx true) guess); reflexivity.
Qed.

(* ---------- IDEMPOTENCE ---------- *)
(* mn < mx a proper domain, l the level Nice finds, (a, b) the niced domain; the slack of the
   niced domain is smaller than the next finer spacing (true whenever Max * base < 10^10, see
   nice_slack_small below) *)
Section Idem.
Variables (mn mx : Q) (o : tickopts) (guess : Z) (l : Z).
Hypothesis Hord : mn < mx.
Hypothesis Hl : find_level o (lin_count base eb mn mx true) guess = FL_ok l.
Let a := fst (nice_at mn mx l).
Let b := snd (nice_at mn mx l).
Hypothesis Hslack : (b - a) * slack_factor < sp (l - 1).

Let sl := (mx - mn) * slack_factor.
Let f := Qfloor ((mn + sl) / sp l).
Let c := Qceiling ((mx - sl) / sp l).
Let T := inject_Z f * sp l.
Let U := inject_Z c * sp l.

Lemma nice_at_eq : a = (if Qleb T mn then T else mn) /\ b = (if Qleb mx U then U else mx).
Proof. unfold a, b, nice_at. rewrite first_last_out. fold sl f c T U. split; reflexivity. Qed.

Lemma nice_facts :
  a <= mn /\ mx <= b /\ a <= T /\ U <= b /\ T <= mn + sl /\ mx - sl <= U /\ 0 <= sl /\
  sl <= (b - a) * slack_factor /\ T <= a + (b - a) * slack_factor /\ b - (b - a) * slack_factor <= U /\ a < b.
Proof.
  destruct nice_at_eq as [Ea Eb]. destruct (slack_small mn mx Hord) as [S0 S1]. fold sl in S0, S1.
  destruct (floor_mul_spec (mn + sl) (sp l) (sp_pos' l)) as [F1 _].
  destruct (ceil_mul_spec (mx - sl) (sp l) (sp_pos' l)) as [_ C2].
  fold f T in F1. fold c U in C2.
  assert (A1 : a <= mn /\ a <= T /\ (a == T \/ a == mn)).
  { rewrite Ea. destruct (Qleb T mn) eqn:E; gb_bool.
    - split; [lra|]. split; [lra|]. left. reflexivity.
    - split; [lra|]. split; [lra|]. right. reflexivity. }
  assert (B1 : mx <= b /\ U <= b /\ (b == U \/ b == mx)).
  { rewrite Eb. destruct (Qleb mx U) eqn:E; gb_bool.
    - split; [lra|]. split; [lra|]. left. reflexivity.
    - split; [lra|]. split; [lra|]. right. reflexivity. }
  destruct A1 as (A1 & A2 & A3). destruct B1 as (B1 & B2 & B3).
  assert (W : sl <= (b - a) * slack_factor).
  { unfold sl, slack_factor. lra. }
  repeat split; lra.
Qed.

(* s(l-1) <= s(l), and s(l) = k s(l-1) *)
Lemma sp_prev : exists k : Z, (1 <= k)%Z /\ sp l == inject_Z k * sp (l - 1).
Proof.
  destruct (spacing_divides_next base eb (l - 1) Heb) as (m & Hm & Em).
  replace (l - 1 + 1)%Z with l in Em by lia. exists m. split; [exact Hm | exact Em].
Qed.

(* on the niced domain the indices at any level j whose spacing divides s(l) and exceeds the
   new slack lie outside (or on) those of the old domain *)
Lemma niced_indices_outside (sj : Q) (k : Z) : 0 < sj -> sp l == inject_Z k * sj -> (b - a) * slack_factor < sj ->
  (Qfloor ((a + (b - a) * slack_factor) / sj) <= f * k)%Z /\ (f * k <= Qfloor ((mn + sl) / sj))%Z /\
  (Qceiling ((mx - sl) / sj) <= c * k)%Z /\ (c * k <= Qceiling ((b - (b - a) * slack_factor) / sj))%Z.
Proof.
  intros Hs Hk Hsl.
  destruct nice_facts as (A1 & B1 & A2 & B2 & T1 & U1 & S0 & W & T2 & U2 & AB).
  assert (ET : inject_Z (f * k) * sj == T) by (unfold T; rewrite Hk, inject_Z_mult; ring).
  assert (EU : inject_Z (c * k) * sj == U) by (unfold U; rewrite Hk, inject_Z_mult; ring).
  repeat split.
  - apply floor_le_of; [exact Hs|].
    assert (E : (inject_Z (f * k) + 1) * sj == T + sj) by (rewrite <- ET; ring). rewrite E. lra.
  - apply floor_ge_of; [exact Hs|]. rewrite ET. exact T1.
  - apply ceil_le_of; [exact Hs|]. rewrite EU. exact U1.
  - apply ceil_ge_of; [exact Hs|].
    assert (E : (inject_Z (c * k) - 1) * sj == U - sj) by (rewrite <- EU; ring). rewrite E. lra.
Qed.

Lemma sp_prev_le : sp (l - 1) <= sp l.
Proof.
  destruct sp_prev as (k & Hk & Ek). pose proof (sp_pos' (l - 1)) as P. rewrite Ek.
  assert (1 <= inject_Z k) by (change 1 with (inject_Z 1); rewrite <- Zle_Qle; exact Hk). nra.
Qed.

(* at level l the niced domain has the same first and last index *)
Lemma niced_same_indices :
  Qfloor ((a + (b - a) * slack_factor) / sp l) = f /\ Qceiling ((b - (b - a) * slack_factor) / sp l) = c.
Proof.
  destruct nice_facts as (A1 & B1 & A2 & B2 & T1 & U1 & S0 & W & T2 & U2 & AB).
  pose proof sp_prev_le as LE.
  destruct (niced_indices_outside (sp l) 1 (sp_pos' l)) as (I1 & _ & _ & I4); [change (inject_Z 1) with 1; ring | lra |].
  rewrite Z.mul_1_r in I1, I4. split; apply Z.le_antisymm; try assumption.
  - apply floor_ge_of; [apply sp_pos' | exact T2].
  - apply ceil_le_of; [apply sp_pos' | exact U2].
Qed.

Theorem lin_nice_idempotent_at g2 : lin_nice_ideal base a b o g2 = NR_dom a b.
Proof.
  destruct nice_facts as (A1 & B1 & A2 & B2 & T1 & U1 & S0 & W & T2 & U2 & AB).
  rewrite (lin_nice_ordered a b o g2 AB).
  destruct (level_bounds o) as [[lo hi]|] eqn:Hb; [|unfold find_level in Hl; rewrite Hb in Hl; discriminate].
  pose proof (find_level_lowest o _ guess lo hi l Hb (lin_count_out_nonincreasing mn mx lo hi Hord) Hl) as (Lb & Lfit & Llow).
  destruct niced_same_indices as [If Ic].
  (* the counts at level l agree *)
  assert (Cl : lin_count base eb a b true l = lin_count base eb mn mx true l).
  { unfold lin_count. rewrite !first_last_out. fold (sp l). fold sl. fold f c. rewrite If, Ic. reflexivity. }
  assert (Hmax : (1 <= o_max o)%Z).
  { pose proof (out_first_lt_last mn mx (sp l) (sp_pos' l) Hord) as Lt. fold sl f c in Lt.
    unfold lin_count in Lfit. rewrite first_last_out in Lfit. fold (sp l) sl f c in Lfit. lia. }
  assert (F : find_level o (lin_count base eb a b true) g2 = FL_ok l).
  { apply (find_level_is_lowest o _ g2 lo hi l Hb (lin_count_out_nonincreasing a b lo hi AB) Hmax Lb).
    - rewrite Cl. exact Lfit.
    - intros l' Hl'.
      assert (M : (lin_count base eb a b true (l - 1) <= lin_count base eb a b true l')%Z).
      { apply (lin_count_out_nonincreasing a b lo hi AB); lia. }
      assert (O : (o_max o < lin_count base eb mn mx true (l - 1))%Z) by (apply Llow; lia).
      destruct sp_prev as (k & Hk & Ek).
      destruct (niced_indices_outside (sp (l - 1)) k (sp_pos' (l - 1)) Ek Hslack) as (I1 & I2 & I3 & I4).
      assert (G : (lin_count base eb mn mx true (l - 1) <= lin_count base eb a b true (l - 1))%Z).
      { unfold lin_count. rewrite !first_last_out. fold (sp (l - 1)). fold sl. lia. }
      lia. }
  destruct nice_at_eq as [Ea Eb].
  assert (Xa : (if Qleb T a then T else a) = a).
  { revert Ea. destruct (Qleb T mn) eqn:E; intros Ea.
    - rewrite Ea. destruct (Qleb T T); reflexivity.
    - rewrite Ea, E. reflexivity. }
  assert (Xb : (if Qleb b U then U else b) = b).
  { revert Eb. destruct (Qleb mx U) eqn:E; intros Eb.
    - rewrite Eb. destruct (Qleb U U); reflexivity.
    - rewrite Eb, E. reflexivity. }
  rewrite F. unfold nice_at. rewrite first_last_out. rewrite If, Ic. cbn [fst snd].
  f_equal; [exact Xa | exact Xb].
Qed.
End Idem.

(* ---------- the slack hypothesis follows from a bound on Max ---------- *)
(* each level's spacing is at most Base (10 by default) times the previous one *)
Lemma spacing_ratio_bound l : exists m : Z, (1 <= m <= eb)%Z /\ sp (l + 1) == inject_Z m * sp l.
Proof.
  destruct (lin_ebase_ge base eb Heb) as (Hb & H0 & H1). unfold sp, lin_spacing.
  rewrite Z.odd_add. change (Z.odd 1) with true.
  destruct (Z.odd l) eqn:O.
  - assert (E : ((l + 1) / 2 = l / 2 + 1)%Z).
    { rewrite (Zodd_div2 l) at 1 by (now apply Zodd_bool_iff).
      rewrite Z.div2_div. replace (2 * (l / 2) + 1 + 1)%Z with ((l / 2 + 1) * 2)%Z by ring. now rewrite Z.div_mul. }
    rewrite E. cbn [xorb andb].
    destruct (base =? 0)%Z eqn:B.
    + apply Z.eqb_eq in B. rewrite (H0 B). exists 2%Z. split; [lia|]. rewrite qpow_succ by lia.
      change (inject_Z 10) with 10. change (inject_Z 2) with 2. ring.
    + exists eb. split; [lia|]. rewrite qpow_succ by lia. reflexivity.
  - assert (E : ((l + 1) / 2 = l / 2)%Z).
    { assert (Ev : Z.even l = true) by (rewrite <- Z.negb_odd, O; reflexivity).
      apply Zeven_bool_iff in Ev. rewrite (Zeven_div2 l Ev) at 1. rewrite Z.div2_div.
      rewrite Z.mul_comm, Z.div_add_l by lia. change (1 / 2)%Z with 0%Z. lia. }
    rewrite E. cbn [xorb andb].
    destruct (base =? 0)%Z eqn:B.
    + apply Z.eqb_eq in B. rewrite (H0 B). exists 5%Z. split; [lia|]. change (inject_Z 5) with 5. ring.
    + exists 1%Z. split; [lia|]. change (inject_Z 1) with 1. ring.
Qed.

(* if Max * Base <= 10^9 the slack of the niced domain is below a tenth ... of the next finer
   spacing (the width of the niced domain is at most (Max-1) spacings plus twice the old slack) *)
Lemma nice_slack_small mn mx o guess l : mn < mx -> (o_max o * eb <= 10 ^ 9)%Z ->
  find_level o (lin_count base eb mn mx true) guess = FL_ok l ->
  4 * ((snd (nice_at mn mx l) - fst (nice_at mn mx l)) * slack_factor) < sp (l - 1).
Proof.
  intros Hord HM Hl.
  destruct (nice_at_eq mn mx l) as [Ea Eb]. destruct (nice_facts mn mx l Hord) as (A1 & B1 & A2 & B2 & T1 & U1 & S0 & W & T2 & U2 & AB).
  set (a := fst (nice_at mn mx l)) in *. set (b := snd (nice_at mn mx l)) in *.
  set (sl := (mx - mn) * slack_factor) in *.
  set (f := Qfloor ((mn + sl) / sp l)) in *. set (c := Qceiling ((mx - sl) / sp l)) in *.
  destruct (level_bounds o) as [[lo hi]|] eqn:Hb; [|unfold find_level in Hl; rewrite Hb in Hl; discriminate].
  pose proof (find_level_lowest o _ guess lo hi l Hb (lin_count_out_nonincreasing mn mx lo hi Hord) Hl) as (_ & Lfit & _).
  unfold lin_count in Lfit. rewrite first_last_out in Lfit. fold (sp l) sl f c in Lfit.
  pose proof (out_first_lt_last mn mx (sp l) (sp_pos' l) Hord) as Lt. fold sl f c in Lt.
  destruct (spacing_ratio_bound (l - 1)) as (k & Hk & Ek). replace (l - 1 + 1)%Z with l in Ek by lia.
  pose proof (sp_pos' (l - 1)) as P.
  (* b - a <= (c - f) s + 2 sl, and (c - f) k <= 10^9 *)
  assert (Ba : a == inject_Z f * sp l \/ a == mn).
  { rewrite Ea. destruct (Qleb (inject_Z f * sp l) mn); [left | right]; reflexivity. }
  assert (Bb : b == inject_Z c * sp l \/ b == mx).
  { rewrite Eb. destruct (Qleb mx (inject_Z c * sp l)); [left | right]; reflexivity. }
  assert (N : ((c - f) * k <= 10 ^ 9)%Z) by nia.
  assert (NQ : inject_Z ((c - f) * k) <= inject_Z (10 ^ 9)) by (rewrite <- Zle_Qle; exact N).
  assert (D : inject_Z c * sp l - inject_Z f * sp l == inject_Z ((c - f) * k) * sp (l - 1)).
  { rewrite Ek, inject_Z_mult. unfold Z.sub. rewrite inject_Z_plus, inject_Z_opp. ring. }
  assert (D2 : inject_Z ((c - f) * k) * sp (l - 1) <= inject_Z (10 ^ 9) * sp (l - 1)).
  { apply Qmult_le_compat_r; [exact NQ | lra]. }
  change (inject_Z (10 ^ 9)) with 1000000000 in D2.
  unfold slack_factor in *. lra.
Qed.

(* NICE IS IDEMPOTENT (Linear): for every domain (proper, reversed or degenerate), every base,
   every options with Max * Base <= 10^9 (Max >= 3 is not even needed: when no level fits the
   domain is left as it is both times) and whatever the two starting guesses *)
Theorem lin_nice_idempotent mn mx o g g2 a b : (o_max o * eb <= 10 ^ 9)%Z ->
  lin_nice_ideal base mn mx o g = NR_dom a b -> lin_nice_ideal base a b o g2 = NR_dom a b.
Proof.
  intros HM H. pose proof (nice_start_ordered mn mx) as Ord.
  assert (S : lin_nice_ideal base mn mx o g = lin_nice_ideal base (fst (nice_start mn mx)) (snd (nice_start mn mx)) o g).
  { unfold lin_nice_ideal, lin_nice_ideal_gen, nice_start.
    destruct (Qeqb mn mx) eqn:E1.
    - cbn [fst snd]. gb_bool.
      assert (X : Qeqb (mn - (1 # 2)) (mx + (1 # 2)) = false).
      { destruct (Qeqb (mn - (1 # 2)) (mx + (1 # 2))) eqn:E; [gb_bool; lra | reflexivity]. }
      assert (Y : Qltb (mx + (1 # 2)) (mn - (1 # 2)) = false).
      { destruct (Qltb (mx + (1 # 2)) (mn - (1 # 2))) eqn:E; [gb_bool; lra | reflexivity]. }
      rewrite X, Y. reflexivity.
    - destruct (Qltb mx mn) eqn:E2; cbn [fst snd].
      + gb_bool. assert (X : Qeqb mx mn = false).
        { destruct (Qeqb mx mn) eqn:E; [gb_bool; lra | reflexivity]. }
        assert (Y : Qltb mn mx = false).
        { destruct (Qltb mn mx) eqn:E; [gb_bool; lra | reflexivity]. }
        rewrite X, Y. reflexivity.
      + rewrite E1, E2. reflexivity. }
  destruct (nice_start mn mx) as [smn smx]. cbn [fst snd] in S. rewrite S in H.
  rewrite (lin_nice_ordered smn smx o g Ord) in H.
  destruct (find_level o (lin_count base eb smn smx true) g) as [l| |] eqn:F.
  - injection H as <- <-. apply (lin_nice_idempotent_at smn smx o g l Ord F).
    pose proof (nice_slack_small smn smx o g l Ord HM F). pose proof (sp_pos' (l - 1)).
    destruct (nice_facts smn smx l Ord) as (_ & _ & _ & _ & _ & _ & _ & _ & _ & _ & AB). unfold slack_factor in *. lra.
  - injection H as <- <-. rewrite (lin_nice_ordered smn smx o g2 Ord).
    rewrite (find_level_guess_irrelevant o _ g2 g), F; [reflexivity|].
    intros lo hi _. now apply lin_count_out_nonincreasing.
  - exfalso. exact (find_level_no_fuel o _ g F).
Qed.

(* ---------- AFTER NICE THE FIRST AND LAST MAJOR TICKS ARE THE NEW ENDS ---------- *)
(* spacings of lower levels divide those of higher levels *)
Lemma sp_multiple (l2 : Z) (d : nat) : exists K : Z, (1 <= K)%Z /\ sp (l2 + Z.of_nat d) == inject_Z K * sp l2.
Proof.
  induction d as [|d (K & HK & EK)].
  - exists 1%Z. split; [lia|]. rewrite Z.add_0_r. change (inject_Z 1) with 1. ring.
  - destruct (spacing_divides_next base eb (l2 + Z.of_nat d) Heb) as (m & Hm & Em). fold (sp (l2 + Z.of_nat d + 1)) (sp (l2 + Z.of_nat d)) in Em.
    exists (m * K)%Z. split; [nia|]. rewrite Nat2Z.inj_succ. replace (l2 + Z.succ (Z.of_nat d))%Z with (l2 + Z.of_nat d + 1)%Z by lia.
    rewrite Em, EK, inject_Z_mult. ring.
Qed.

Lemma tick_seq_hd n f0 s : tick_seq (S n) f0 s = inject_Z f0 * s :: tick_seq n (f0 + 1) s.
Proof. reflexivity. Qed.
Lemma tick_seq_last n : forall f0 s d, last (tick_seq (S n) f0 s) d = inject_Z (f0 + Z.of_nat n) * s.
Proof.
  induction n as [|n IH]; intros f0 s d.
  - cbn. now rewrite Z.add_0_r.
  - change (tick_seq (S (S n)) f0 s) with (inject_Z f0 * s :: tick_seq (S n) (f0 + 1) s).
    change (last (inject_Z f0 * s :: tick_seq (S n) (f0 + 1) s) d) with (last (tick_seq (S n) (f0 + 1) s) d).
    rewrite IH. f_equal. f_equal. lia.
Qed.

(* Ticks on the niced domain (a, b): whatever level l2 <= l it chooses, its major ticks run
   from T = f s(l) to U = c s(l), the level-l ticks Nice rounded out to.  By nice_at_eq / nice_facts
   a = T, or the end was left at mn because T lay above it, in which case T - a <= the slack. *)
Theorem lin_nice_ends_are_major mn mx o g l g3 major minor :
  mn < mx -> (o_max o * eb <= 10 ^ 9)%Z ->
  find_level o (lin_count base eb mn mx true) g = FL_ok l ->
  lin_ticks base (fst (nice_at mn mx l)) (snd (nice_at mn mx l)) o g3 = TR_ticks major minor ->
  let sl := (mx - mn) * slack_factor in
  let T := inject_Z (Qfloor ((mn + sl) / sp l)) * sp l in
  let U := inject_Z (Qceiling ((mx - sl) / sp l)) * sp l in
  exists t1 rest, major = t1 :: rest /\ t1 == T /\ last major t1 == U.
Proof.
  intros Hord HM Hl HT sl T U.
  destruct (nice_at_eq mn mx l) as [Ea Eb]. destruct (nice_facts mn mx l Hord) as (A1 & B1 & A2 & B2 & T1 & U1 & S0 & W & T2 & U2 & AB).
  pose proof (nice_slack_small mn mx o g l Hord HM Hl) as Sm.
  set (a := fst (nice_at mn mx l)) in *. set (b := snd (nice_at mn mx l)) in *.
  fold sl in Ea, Eb, A2, B2, T1, U1, S0, W, T2, U2.
  set (f := Qfloor ((mn + sl) / sp l)) in *. set (c := Qceiling ((mx - sl) / sp l)) in *.
  fold T in Ea, A2, T1, T2. fold U in Eb, B2, U1, U2.
  set (sl' := (b - a) * slack_factor) in *.
  assert (Ba : a == T \/ a == mn) by (rewrite Ea; destruct (Qleb T mn); [left | right]; reflexivity).
  assert (Bb : b == U \/ b == mx) by (rewrite Eb; destruct (Qleb mx U); [left | right]; reflexivity).
  assert (A3 : T - sl <= a) by (destruct Ba; lra). assert (B3 : b <= U + sl) by (destruct Bb; lra).
  destruct (level_bounds o) as [[lo hi]|] eqn:Hb; [|unfold find_level in Hl; rewrite Hb in Hl; discriminate].
  pose proof (find_level_lowest o _ g lo hi l Hb (lin_count_out_nonincreasing mn mx lo hi Hord) Hl) as (Lb & Lfit & _).
  unfold lin_count in Lfit. rewrite first_last_out in Lfit. fold (sp l) sl f c in Lfit.
  pose proof (out_first_lt_last mn mx (sp l) (sp_pos' l) Hord) as Lt. fold sl f c in Lt.
  pose proof (sp_pos' l) as P. pose proof (sp_pos' (l - 1)) as P1.
  pose proof (sp_prev_le mn mx l) as LE.
  (* the run of Ticks *)
  unfold lin_ticks, lin_ticks_gen in HT.
  destruct (o_max o <=? 0)%Z eqn:M0; [discriminate|]. apply Z.leb_gt in M0.
  destruct (Qeqb a b) eqn:E1; [gb_bool; lra|]. destruct (Qltb b a) eqn:E2; [gb_bool; lra|].
  rewrite Heb in HT.
  destruct (find_level o (lin_count base eb a b false) g3) as [l2| |] eqn:F2; try discriminate.
  injection HT as <- _.
  assert (Hab : a <= b) by lra.
  pose proof (find_level_lowest o _ g3 lo hi l2 Hb (lin_count_nonincreasing base eb a b lo hi Heb Hab) F2) as (L2b & L2fit & L2low).
  (* inner count of (a, b) at level l is c - f + 1 <= Max, hence l2 <= l *)
  assert (Cin : lin_count base eb a b false l = (c - f + 1)%Z).
  { unfold lin_count, lin_first_last. rewrite qcl_ceiling, qfl_floor. fold (sp l) sl'.
    assert (X : Qceiling ((a - sl') / sp l) = f).
    { apply Z.le_antisymm; [apply ceil_le_of; [exact P | fold T; lra] | apply ceil_ge_of; [exact P|]].
      assert (E : (inject_Z f - 1) * sp l == T - sp l) by (unfold T; ring). rewrite E. lra. }
    assert (Y : Qfloor ((b + sl') / sp l) = c).
    { apply Z.le_antisymm; [apply floor_le_of; [exact P|] | apply floor_ge_of; [exact P | fold U; lra]].
      assert (E : (inject_Z c + 1) * sp l == U + sp l) by (unfold U; ring). rewrite E. lra. }
    now rewrite X, Y. }
  assert (L2l : (l2 <= l)%Z).
  { destruct (Z_lt_le_dec l l2) as [G|G]; [|exact G]. exfalso. specialize (L2low l ltac:(lia)). lia. }
  destruct (sp_multiple l2 (Z.to_nat (l - l2))) as (K & HK & EK). rewrite Z2Nat.id in EK by lia.
  replace (l2 + (l - l2))%Z with l in EK by lia.
  pose proof (sp_pos' l2) as P2.
  (* the new slack is far below the spacing of level l2 *)
  unfold lin_count in L2fit. unfold lin_ticks_at. fold (sp l2) in L2fit |- *.
  unfold lin_first_last in L2fit |- *. rewrite qcl_ceiling, qfl_floor in L2fit |- *. fold sl' in L2fit |- *.
  destruct (ceil_mul_spec (a - sl') (sp l2) P2) as [C1 _]. destruct (floor_mul_spec (b + sl') (sp l2) P2) as [_ F1].
  set (f2 := Qceiling ((a - sl') / sp l2)) in *. set (c2 := Qfloor ((b + sl') / sp l2)) in *.
  assert (W2 : 4 * sl' < sp l2).
  { assert (N : (c2 - f2 + 2 <= 10 ^ 9)%Z) by (destruct (lin_ebase_ge base eb Heb) as (Hb2 & _); nia).
    assert (NQ : inject_Z (c2 - f2 + 2) * sp l2 <= inject_Z (10 ^ 9) * sp l2).
    { apply Qmult_le_compat_r; [rewrite <- Zle_Qle; exact N | lra]. }
    assert (E : inject_Z (c2 - f2 + 2) * sp l2 == (inject_Z c2 + 1) * sp l2 - (inject_Z f2 - 1) * sp l2).
    { unfold Z.sub. rewrite !inject_Z_plus, inject_Z_opp. change (inject_Z 2) with 2. ring. }
    change (inject_Z (10 ^ 9)) with 1000000000 in NQ. unfold sl', slack_factor in *. lra. }
  assert (ET : inject_Z (f * K) * sp l2 == T) by (unfold T; rewrite EK, inject_Z_mult; ring).
  assert (EU : inject_Z (c * K) * sp l2 == U) by (unfold U; rewrite EK, inject_Z_mult; ring).
  assert (X : f2 = (f * K)%Z).
  { unfold f2. apply Z.le_antisymm; [apply ceil_le_of; [exact P2 | rewrite ET; lra] | apply ceil_ge_of; [exact P2|]].
    assert (E : (inject_Z (f * K) - 1) * sp l2 == T - sp l2) by (rewrite <- ET; ring). rewrite E. lra. }
  assert (Y : c2 = (c * K)%Z).
  { unfold c2. apply Z.le_antisymm; [apply floor_le_of; [exact P2|] | apply floor_ge_of; [exact P2 | rewrite EU; lra]].
    assert (E : (inject_Z (c * K) + 1) * sp l2 == U + sp l2) by (rewrite <- EU; ring). rewrite E. lra. }
  rewrite X, Y. 
  assert (Npos : (0 < c * K - f * K)%Z) by nia.
  destruct (Z.to_nat (c * K - f * K + 1)) as [|n] eqn:En; [lia|].
  exists (inject_Z (f * K) * sp l2), (tick_seq n (f * K + 1) (sp l2)).
  split; [apply tick_seq_hd|]. split; [exact ET|].
  rewrite tick_seq_last. rewrite <- EU. 
  assert (Z.of_nat n = c * K - f * K)%Z by lia. replace (f * K + Z.of_nat n)%Z with (c * K)%Z by lia. reflexivity.
Qed.
End Out.

(* FOR Max >= 3 NICE ALWAYS FINDS A LEVEL (this is where "Max >= 3" enters the property): at a
   level whose spacing exceeds the width of the domain the rounded-out count is 2 or 3.  With the
   default level limits the top level is 1000, spacing Base^500. *)
Theorem lin_nice_finds_level base eb mn mx o g lo hi :
  lin_ebase base = Some eb -> mn < mx -> level_bounds o = Some (lo, hi) -> (3 <= o_max o)%Z ->
  mx - mn < lin_spacing base eb hi ->
  exists l, find_level o (lin_count base eb mn mx true) g = FL_ok l.
Proof.
  intros He Hord Hb HM Hw.
  destruct (find_level o (lin_count base eb mn mx true) g) as [l| |] eqn:F; [exists l; reflexivity | | exfalso; exact (find_level_no_fuel o _ g F)].
  exfalso. apply (find_level_fails_iff o _ g) in F.
  2:{ intros lo' hi' _. now apply (lin_count_out_nonincreasing base eb He). }
  destruct F as [A|[A|(lo' & hi' & E & A)]]; [lia | congruence |].
  rewrite Hb in E. injection E as <- <-.
  pose proof (level_bounds_ordered o lo hi Hb) as Hlh. specialize (A hi ltac:(lia)).
  unfold lin_count in A. rewrite first_last_out in A.
  assert (P : 0 < lin_spacing base eb hi) by (apply lin_spacing_pos; now destruct (lin_ebase_ge base eb He)).
  destruct (slack_small mn mx Hord) as [S0 S1].
  set (sl := (mx - mn) * slack_factor) in *. set (sp := lin_spacing base eb hi) in *.
  destruct (floor_mul_spec (mn + sl) sp P) as [_ F2].
  assert (C : (Qceiling ((mx - sl) / sp) <= Qfloor ((mn + sl) / sp) + 2)%Z).
  { apply ceil_le_of; [exact P|]. rewrite !inject_Z_plus. change (inject_Z 2) with 2.
    assert (E : (inject_Z (Qfloor ((mn + sl) / sp)) + 2) * sp == (inject_Z (Qfloor ((mn + sl) / sp)) + 1) * sp + sp) by ring.
    rewrite E. lra. }
  lia.
Qed.

(* the same, stated on what Nice and Ticks return *)
Theorem lin_nice_ends_are_first_last_major base eb mn mx o g g3 l a b major minor :
  lin_ebase base = Some eb -> mn < mx -> (o_max o * eb <= 10 ^ 9)%Z ->
  find_level o (lin_count base eb mn mx true) g = FL_ok l ->
  lin_nice_ideal base mn mx o g = NR_dom a b ->
  lin_ticks base a b o g3 = TR_ticks major minor ->
  exists t1 rest, major = t1 :: rest /\
    0 <= t1 - a <= (mx - mn) * slack_factor /\ 0 <= b - last major t1 <= (mx - mn) * slack_factor /\
    (a < mn -> t1 == a) /\ (mx < b -> last major t1 == b).
Proof.
  intros He Hord HM Hl HN HT.
  rewrite (lin_nice_ordered base eb He mn mx o g Hord), Hl in HN.
  set (a' := fst (nice_at base eb mn mx l)) in *. set (b' := snd (nice_at base eb mn mx l)) in *.
  injection HN as <- <-.
  destruct (lin_nice_ends_are_major base eb He mn mx o g l g3 major minor Hord HM Hl HT) as (t1 & rest & E & E1 & E2).
  exists t1, rest. split; [exact E|].
  destruct (nice_at_eq base eb mn mx l) as [Ea Eb].
  destruct (nice_facts base eb He mn mx l Hord) as (A1 & B1 & A2 & B2 & T1 & U1 & S0 & W & T2 & U2 & AB).
  set (sl := (mx - mn) * slack_factor) in *.
  set (T := inject_Z (Qfloor ((mn + sl) / lin_spacing base eb l)) * lin_spacing base eb l) in *.
  set (U := inject_Z (Qceiling ((mx - sl) / lin_spacing base eb l)) * lin_spacing base eb l) in *.
  fold a' in Ea, A1, A2, W, T2, U2, AB. fold b' in Eb, B1, B2, W, T2, U2, AB.
  assert (Ba : a' == T \/ a' == mn) by (rewrite Ea; destruct (Qleb T mn); [left | right]; reflexivity).
  assert (Bb : b' == U \/ b' == mx) by (rewrite Eb; destruct (Qleb mx U); [left | right]; reflexivity).
  rewrite E2. rewrite E1. repeat split; intros; destruct Ba, Bb; lra.
Qed.

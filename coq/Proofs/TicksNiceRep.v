(* Proofs/TicksNiceRep.v — (helper hI-c17) the model's Linear Nice (Model.Ticks.lin_nice_gen) moves an
   end only to a FINITE FLOAT64 value (guard f64_fin: a level whose spacing overflows gives
   n * Inf = +-Inf or NaN in the code, and the end stays).  The theory of Proofs/TicksNice.v is
   about the ideal Nice without that guard (lin_nice_ideal); this file proves directly what
   holds for every input (never shrinks, moves less than one spacing onto a multiple) and
   transfers idempotence and "first and last major tick are the new ends" to the model's Nice
   whenever the candidate ends of the level it chose are representable. *)
From Coq Require Import Qround Lqa.
From MM Require Import Base.Num Base.GBLemmas Model.Ticks Proofs.Ticks Proofs.TicksLinear Proofs.TicksNice.
Local Open Scope Q_scope.

Lemma lin_nice_expands base mn mx o guess a b :
  lin_nice base mn mx o guess = NR_dom a b ->
  let '(smn, smx) := nice_start mn mx in a <= smn /\ smx <= b.
Proof.
  unfold lin_nice, lin_nice_gen, nice_start.
  destruct (if Qeqb mn mx then (mn - (1 # 2), mx + (1 # 2)) else if Qltb mx mn then (mx, mn) else (mn, mx)) as [smn smx].
  destruct (lin_ebase base) as [eb|]; [|discriminate].
  destruct (find_level o (lin_count base eb smn smx true) guess) as [l| |].
  - destruct (lin_first_last smn smx (lin_spacing base eb l) true) as [f la].
    intros [= <- <-]. split.
    + destruct (f64_fin (inject_Z f * lin_spacing base eb l)); cbn [andb]; [|lra].
      destruct (Qleb (inject_Z f * lin_spacing base eb l) smn) eqn:E; gb_bool; lra.
    + destruct (f64_fin (inject_Z la * lin_spacing base eb l)); cbn [andb]; [|lra].
      destruct (Qleb smx (inject_Z la * lin_spacing base eb l)) eqn:E; gb_bool; lra.
  - intros [= <- <-]. split; lra.
  - intros [= <- <-]. split; lra.
Qed.

(* the two candidate ends of the level Nice chooses are finite float64 values *)
Definition lin_nice_rep (base : Z) (mn mx : Q) (o : tickopts) (guess : Z) : Prop :=
  forall eb l, lin_ebase base = Some eb ->
    let '(smn, smx) := nice_start mn mx in
    find_level o (lin_count base eb smn smx true) guess = FL_ok l ->
    let '(f, la) := lin_first_last smn smx (lin_spacing base eb l) true in
    f64_fin (inject_Z f * lin_spacing base eb l) = true /\ f64_fin (inject_Z la * lin_spacing base eb l) = true.

Lemma lin_nice_rep_eq base mn mx o guess : lin_nice_rep base mn mx o guess ->
  lin_nice base mn mx o guess = lin_nice_ideal base mn mx o guess.
Proof.
  unfold lin_nice_rep, lin_nice, lin_nice_gen, lin_nice_ideal, lin_nice_ideal_gen, nice_start. intro R.
  destruct (if Qeqb mn mx then (mn - (1 # 2), mx + (1 # 2)) else if Qltb mx mn then (mx, mn) else (mn, mx)) as [smn smx].
  destruct (lin_ebase base) as [eb|]; [|reflexivity].
  specialize (R eb).
  destruct (find_level o (lin_count base eb smn smx true) guess) as [l| |]; try reflexivity.
  specialize (R l eq_refl eq_refl).
  destruct (lin_first_last smn smx (lin_spacing base eb l) true) as [f la]. destruct R as [R1 R2].
  rewrite R1, R2. reflexivity.
Qed.

(* an end either stays or moves, by less than one spacing, onto a multiple of the spacing *)
Lemma lin_nice_adds_less_than_one_spacing base eb mn mx o guess a b :
  lin_ebase base = Some eb ->
  lin_nice base mn mx o guess = NR_dom a b ->
  let '(smn, smx) := nice_start mn mx in
  (a == smn /\ b == smx) \/
  exists l, find_level o (lin_count base eb smn smx true) guess = FL_ok l /\
    let sp := lin_spacing base eb l in
    smn - a < sp /\ b - smx < sp /\
    (a == smn \/ exists k : Z, a = inject_Z k * sp) /\ (b == smx \/ exists k : Z, b = inject_Z k * sp).
Proof.
  intros He H.
  pose proof (lin_nice_ideal_adds_less_than_one_spacing base eb mn mx o guess) as I.
  pose proof (lin_nice_expands base mn mx o guess a b H) as X.
  revert H I X. unfold lin_nice, lin_nice_gen, lin_nice_ideal, lin_nice_ideal_gen.
  change (if Qeqb mn mx then (mn - (1 # 2), mx + (1 # 2)) else if Qltb mx mn then (mx, mn) else (mn, mx)) with (nice_start mn mx).
  destruct (nice_start mn mx) as [smn smx]. rewrite He.
  destruct (find_level o (lin_count base eb smn smx true) guess) as [l| |].
  2,3: intros [= <- <-] _ _; left; split; reflexivity.
  destruct (lin_first_last smn smx (lin_spacing base eb l) true) as [f la].
  set (sp := lin_spacing base eb l). set (T := inject_Z f * sp). set (U := inject_Z la * sp).
  intros H I X. specialize (I _ _ eq_refl eq_refl).
  destruct I as [[I1 I2]|(l' & El & I)].
  - (* the ideal ends equal the start: so do the guarded ones *)
    injection H as <- <-. left.
    destruct (f64_fin T), (f64_fin U); cbn [andb]; split; try reflexivity; try exact I1; try exact I2.
  - injection El as <-. cbv zeta in I. fold sp in I. destruct I as (J1 & J2 & J3 & J4).
    injection H as <- <-. right. exists l. split; [reflexivity|]. cbv zeta. fold sp.
    pose proof (lin_spacing_pos base eb l ltac:(now destruct (lin_ebase_ge base eb He))) as P. fold sp in P.
    destruct (f64_fin T), (f64_fin U); cbn [andb] in *.
    + repeat split; assumption.
    + split; [exact J1|]. split; [lra|]. split; [exact J3 | left; reflexivity].
    + split; [lra|]. split; [exact J2|]. split; [left; reflexivity | exact J4].
    + split; [lra|]. split; [lra|]. split; left; reflexivity.
Qed.

(* idempotence and the ends law, for the model's Nice, when the candidate ends are representable *)
Theorem lin_nice_rep_idempotent base eb : lin_ebase base = Some eb ->
  forall mn mx o g g2 a b, (o_max o * eb <= 10 ^ 9)%Z ->
  lin_nice_rep base mn mx o g -> lin_nice_rep base a b o g2 ->
  lin_nice base mn mx o g = NR_dom a b -> lin_nice base a b o g2 = NR_dom a b.
Proof.
  intros He mn mx o g g2 a b HM R1 R2 H.
  rewrite (lin_nice_rep_eq _ _ _ _ _ R1) in H. rewrite (lin_nice_rep_eq _ _ _ _ _ R2).
  exact (lin_nice_idempotent base eb He mn mx o g g2 a b HM H).
Qed.

Theorem lin_nice_rep_ends_are_first_last_major base eb mn mx o g g3 l a b major minor :
  lin_ebase base = Some eb -> mn < mx -> (o_max o * eb <= 10 ^ 9)%Z ->
  lin_nice_rep base mn mx o g ->
  find_level o (lin_count base eb mn mx true) g = FL_ok l ->
  lin_nice base mn mx o g = NR_dom a b ->
  lin_ticks base a b o g3 = TR_ticks major minor ->
  exists t1 rest, major = t1 :: rest /\
    0 <= t1 - a <= (mx - mn) * slack_factor /\ 0 <= b - last major t1 <= (mx - mn) * slack_factor /\
    (a < mn -> t1 == a) /\ (mx < b -> last major t1 == b).
Proof.
  intros He Hord HM R Hl HN HT. rewrite (lin_nice_rep_eq _ _ _ _ _ R) in HN.
  exact (lin_nice_ends_are_first_last_major base eb mn mx o g g3 l a b major minor He Hord HM Hl HN HT).
Qed.

(* non-vacuity of the guard: [2, 3] at level 618 (spacing 10^309): Min moves to 0, Max stays *)
Example lin_nice_overflow_example :
  lin_nice 0 2 3 (mkOpts 3 618 618) 0 = NR_dom (0 * qpow 10 309) 3 /\
  lin_nice_ideal 0 2 3 (mkOpts 3 618 618) 0 = NR_dom (0 * qpow 10 309) (1 * qpow 10 309).
Proof. vm_compute. split; reflexivity. Qed.

(* non-vacuity of lin_nice_rep: [0.3, 2.7], Max 4 (level 0, candidate ends 0 and 3) and its niced domain [0, 3] *)
Example lin_nice_rep_example :
  lin_nice_rep 0 (3 # 10) (27 # 10) (mkOpts 4 0 0) 5 /\ lin_nice_rep 0 0 3 (mkOpts 4 0 0) (-3).
Proof.
  split; intros eb l He; vm_compute in He; injection He as <-.
  - change (nice_start (3 # 10) (27 # 10)) with (3 # 10, 27 # 10).
    intro H. assert (E : find_level (mkOpts 4 0 0) (lin_count 0 10 (3 # 10) (27 # 10) true) 5 = FL_ok 0%Z) by (vm_compute; reflexivity).
    rewrite E in H. injection H as <-. vm_compute. split; reflexivity.
  - change (nice_start 0 3) with (0, 3).
    intro H. assert (E : find_level (mkOpts 4 0 0) (lin_count 0 10 0 3 true) (-3) = FL_ok 0%Z) by (vm_compute; reflexivity).
    rewrite E in H. injection H as <-. vm_compute. split; reflexivity.
Qed.

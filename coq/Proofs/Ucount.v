(* Proofs/Ucount.v — labellings, splits, and the pair-count formula.
   Main results:
     labs_count          : there are C(N,n) labellings
     sum_labs_by_split   : a sum over labellings that only depends on the induced split is the
                           sum over splits weighted by prod C(t_k, r_k)   (splits <-> labellings)
     twoU_lab_split      : 2U of a relabelling = the split formula of Klotz
     count_le_cntS       : #{labellings | 2U <= w} = weighted count of splits                      *)
From Coq Require Import List ZArith Lia Arith Bool.
From MM Require Import Base.GEComb Spec.Ucount.
Import ListNotations.
Open Scope Z_scope.

(* ---------- labellings ---------- *)
Lemma ntrue_cons b l : ntrue (b :: l) = ((if b then 1 else 0) + ntrue l)%nat.
Proof. unfold ntrue. destruct b; reflexivity. Qed.
Lemma nfalse_cons b l : nfalse (b :: l) = ((if b then 0 else 1) + nfalse l)%nat.
Proof. unfold nfalse. destruct b; reflexivity. Qed.
Lemma ntrue_nfalse l : (ntrue l + nfalse l = length l)%nat.
Proof. induction l as [|[|] t IH]; rewrite ?ntrue_cons, ?nfalse_cons; cbn [length]; [reflexivity|lia|lia]. Qed.
Lemma ntrue_app l1 l2 : ntrue (l1 ++ l2) = (ntrue l1 + ntrue l2)%nat.
Proof. unfold ntrue. now rewrite filter_app, app_length. Qed.

Lemma labs_spec N : forall n l, In l (labs N n) <-> (length l = N /\ ntrue l = n).
Proof.
  induction N as [|N IH]; intros n l; cbn [labs].
  - destruct (Nat.eqb_spec n 0) as [->|Hn]; cbn.
    + split. intros [<-|[]]; auto. intros [Hl _]. destruct l; [auto|discriminate].
    + split. intros []. intros [Hl Ht]. destruct l; [|discriminate]. cbn in Ht. congruence.
  - rewrite in_app_iff. split.
    + intros [H|H].
      * destruct n as [|n']; [destruct H|]. apply in_map_iff in H as (t & <- & Ht).
        apply IH in Ht as [H1 H2]. rewrite ntrue_cons. cbn [length]. split; lia.
      * apply in_map_iff in H as (t & <- & Ht). apply IH in Ht as [H1 H2]. rewrite ntrue_cons. cbn [length]. split; lia.
    + intros [Hl Ht]. destruct l as [|[|] t]; [discriminate| |]; rewrite ntrue_cons in Ht; cbn [length] in Hl.
      * left. destruct n as [|n']; [discriminate|]. apply in_map. apply IH. split; lia.
      * right. apply in_map. apply IH. split; lia.
Qed.

Lemma labs_out N n : (N < n)%nat -> labs N n = [].
Proof.
  intros H. destruct (labs N n) as [|l r] eqn:E; [reflexivity|].
  assert (Hin: In l (labs N n)) by (rewrite E; left; reflexivity).
  apply labs_spec in Hin as [H1 H2]. pose proof (ntrue_nfalse l). lia.
Qed.

Lemma labs_count N : forall n, zsum (fun _ => 1) (labs N n) = C N n.
Proof.
  induction N as [|N IH]; intros n; cbn [labs].
  - destruct n; reflexivity.
  - rewrite zsum_app, !zsum_map. destruct n as [|n'].
    + cbn [zsum]. rewrite IH, !C_n0. lia.
    + rewrite zsum_map, !IH. reflexivity.
Qed.

(* product decomposition of the labellings of a + b positions *)
Lemma labs_app_sum a : forall b n (g : list bool -> Z),
  zsum g (labs (a + b) n) =
  zsum (fun r => zsum (fun l1 => zsum (fun l2 => g (l1 ++ l2)) (labs b (n - r))) (labs a r)) (seq 0 (S n)).
Proof.
  induction a as [|a IH]; intros b n g.
  - cbn [Nat.add seq]. cbn [zsum]. change (labs 0 0) with [@nil bool]. cbn [zsum app].
    rewrite Nat.sub_0_r. rewrite (zsum_zero_in _ (seq 1 n)); [rewrite !Z.add_0_r; reflexivity|].
    intros r Hr. apply in_seq in Hr. destruct r; [lia|]. reflexivity.
  - change (S a + b)%nat with (S (a + b)). cbn [labs]. rewrite zsum_app.
    (* right-hand side: split each inner labs (S a) r the same way *)
    transitivity (zsum (fun r => match r with O => 0 | S r' =>
                          zsum (fun l1 => zsum (fun l2 => g (true :: l1 ++ l2)) (labs b (n - r))) (labs a r') end) (seq 0 (S n))
                  + zsum (fun r => zsum (fun l1 => zsum (fun l2 => g (false :: l1 ++ l2)) (labs b (n - r))) (labs a r)) (seq 0 (S n))).
    + f_equal.
      * destruct n as [|n'].
        { cbn. reflexivity. }
        rewrite zsum_map, IH. change (seq 0 (S (S n'))) with (0%nat :: seq 1 (S n')).
        rewrite <- seq_shift. cbn [zsum]. rewrite zsum_map.
        rewrite Z.add_0_l. apply zsum_ext. intros r. reflexivity.
      * rewrite zsum_map, IH. reflexivity.
    + rewrite <- zsum_plus. apply zsum_ext. intros r. cbn [labs]. rewrite zsum_app, !zsum_map.
      destruct r as [|r']; cbn [zsum]; [reflexivity|]. rewrite zsum_map. reflexivity.
Qed.

(* ---------- splits <-> labellings ---------- *)
Lemma firstn_skipn_exact {X} (l1 l2 : list X) t : length l1 = t -> firstn t (l1 ++ l2) = l1 /\ skipn t (l1 ++ l2) = l2.
Proof. intros <-. induction l1 as [|x l1 IH]; cbn; [auto|]. destruct IH as [-> ->]. auto. Qed.

Lemma splits_sum Tr : forall n1 r, In r (splits Tr n1) -> lsum r = n1.
Proof.
  induction Tr as [|tK rest IH]; intros n1 r; cbn [splits].
  - destruct (Nat.eqb_spec n1 0); cbn; [intros [<-|[]]; cbn; lia | intros []].
  - rewrite in_flat_map. intros (rK & HrK & Hin). apply in_seq in HrK.
    apply in_map_iff in Hin as (rr & <- & Hrr). apply IH in Hrr. cbn. lia.
Qed.
Lemma splits_le Tr : forall n1 r, In r (splits Tr n1) -> (n1 <= lsum Tr)%nat.
Proof.
  induction Tr as [|tK rest IH]; intros n1 r; cbn [splits].
  - destruct (Nat.eqb_spec n1 0); cbn; [lia | intros []].
  - rewrite in_flat_map. intros (rK & HrK & Hin). apply in_seq in HrK.
    apply in_map_iff in Hin as (rr & <- & Hrr). apply IH in Hrr. cbn. lia.
Qed.
Lemma splits_infeasible Tr n1 : (lsum Tr < n1)%nat -> splits Tr n1 = [].
Proof.
  intros H. destruct (splits Tr n1) as [|r l] eqn:E; [reflexivity|].
  assert (Hin: In r (splits Tr n1)) by (rewrite E; left; reflexivity). apply splits_le in Hin. lia.
Qed.

Lemma zsum_const1 {X} c (l : list X) : zsum (fun _ => c) l = c * zsum (fun _ => 1) l.
Proof. induction l as [|a l IH]; cbn [zsum]; [lia|]. rewrite IH. lia. Qed.

Theorem sum_labs_by_split Tr : forall n (f : list nat -> Z),
  zsum (fun l => f (gsplit Tr l)) (labs (lsum Tr) n) = zsum (fun r => weight Tr r * f r) (splits Tr n).
Proof.
  induction Tr as [|tK rest IH]; intros n f.
  - cbn [lsum labs splits gsplit]. destruct (n =? 0)%nat; cbn [zsum weight]; lia.
  - cbn [lsum]. rewrite labs_app_sum. cbn [splits]. rewrite zsum_flat_map.
    rewrite <- (zsum_seq_extend _ 0 (Nat.min n tK + 1) (S n)) by
      (try lia; intros r Hr; rewrite zsum_map; apply zsum_zero_in; intros rr _; cbn [weight];
       rewrite C_out by lia; lia).
    apply zsum_ext_in. intros r Hr. apply in_seq in Hr. rewrite zsum_map.
    transitivity (zsum (fun _ : list bool => zsum (fun rr => weight rest rr * f (r :: rr)) (splits rest (n - r))) (labs tK r)).
    + apply zsum_ext_in. intros l1 Hl1. apply labs_spec in Hl1 as [Hlen Hnt].
      rewrite <- (IH (n - r)%nat (fun rr => f (r :: rr))). apply zsum_ext. intros l2.
      cbn [gsplit]. destruct (firstn_skipn_exact l1 l2 tK Hlen) as [-> ->]. rewrite Hnt. reflexivity.
    + rewrite zsum_const1, labs_count, Z.mul_comm, <- zsum_scale. apply zsum_ext. intros rr. cbn [weight]. lia.
Qed.

(* Vandermonde, generalised to any number of groups: the weights of all splits add up to C(sum t, n) *)
Corollary weight_sum Tr n : zsum (fun r => weight Tr r) (splits Tr n) = C (lsum Tr) n.
Proof.
  rewrite <- labs_count. rewrite (sum_labs_by_split Tr n (fun _ => 1)). apply zsum_ext. intros; lia.
Qed.

(* ---------- the pair count of a relabelling is the split formula ---------- *)
Section Pairs.
  Context {A : Type} (cmp : A -> A -> comparison).

  Lemma twoU_pairs_app_l x1 x1' x2 : twoU_pairs cmp (x1 ++ x1') x2 = twoU_pairs cmp x1 x2 + twoU_pairs cmp x1' x2.
  Proof. unfold twoU_pairs. apply zsum_app. Qed.
  Lemma twoU_pairs_app_r x1 x2 x2' : twoU_pairs cmp x1 (x2 ++ x2') = twoU_pairs cmp x1 x2 + twoU_pairs cmp x1 x2'.
  Proof. unfold twoU_pairs. rewrite <- zsum_plus. apply zsum_ext. intros a. apply zsum_app. Qed.
  Lemma twoU_pairs_const c x1 x2 : (forall a b, In a x1 -> In b x2 -> pairw cmp a b = c) ->
    twoU_pairs cmp x1 x2 = c * Z.of_nat (length x1) * Z.of_nat (length x2).
  Proof.
    intros H. unfold twoU_pairs.
    rewrite (zsum_ext_in _ (fun _ => c * Z.of_nat (length x2))).
    - rewrite zsum_const. lia.
    - intros a Ha. rewrite (zsum_ext_in _ (fun _ => c)); [apply zsum_const|]. intros b Hb. auto.
  Qed.

  Lemma sel_app b : forall l1 l2 (g z' : list A), length l1 = length g ->
    sel b (l1 ++ l2) (g ++ z') = sel b l1 g ++ sel b l2 z'.
  Proof.
    induction l1 as [|x l1 IH]; intros l2 g z' H; destruct g as [|v g]; try discriminate; cbn [app sel].
    - destruct l2; reflexivity.
    - cbn in H. destruct (Bool.eqb x b); cbn [app]; rewrite IH by lia; reflexivity.
  Qed.
  Lemma sel_in b : forall l (z : list A) x, In x (sel b l z) -> In x z.
  Proof.
    induction l as [|lb l IH]; intros [|v z] x; cbn [sel]; try (intros []).
    destruct (Bool.eqb lb b); cbn; intros H; [destruct H; auto|]; right; eauto.
  Qed.
  Lemma sel_true_length : forall l (z : list A), length l = length z -> length (sel true l z) = ntrue l.
  Proof.
    induction l as [|lb l IH]; intros [|v z] H; try discriminate; [reflexivity|].
    cbn [sel]. rewrite ntrue_cons. cbn in H. destruct lb; cbn [Bool.eqb length]; rewrite IH by lia; lia.
  Qed.
  Lemma sel_false_length : forall l (z : list A), length l = length z -> length (sel false l z) = nfalse l.
  Proof.
    induction l as [|lb l IH]; intros [|v z] H; try discriminate; [reflexivity|].
    cbn [sel]. rewrite nfalse_cons. cbn in H. destruct lb; cbn [Bool.eqb length]; rewrite IH by lia; lia.
  Qed.

  Lemma grouped_length Tr : forall z, grouped cmp Tr z -> length z = lsum Tr.
  Proof.
    induction Tr as [|t rest IH]; intros z; cbn [grouped lsum].
    - intros ->. reflexivity.
    - intros (g & z' & -> & Hg & _ & _ & Hr). rewrite app_length, (IH _ Hr). lia.
  Qed.

  Lemma gsplit_sum Tr : forall l, length l = lsum Tr -> lsum (gsplit Tr l) = ntrue l.
  Proof.
    induction Tr as [|t rest IH]; intros l H; cbn [gsplit lsum] in *.
    - destruct l; [reflexivity|discriminate].
    - rewrite IH by (rewrite skipn_length; lia). rewrite <- ntrue_app, firstn_skipn. reflexivity.
  Qed.

  Theorem twoU_lab_split Tr : forall z l, grouped cmp Tr z -> length l = lsum Tr ->
    twoU_lab cmp z l = twoU Tr (gsplit Tr l).
  Proof.
    induction Tr as [|t rest IH]; intros z l; cbn [grouped lsum gsplit twoU].
    - intros -> Hl. destruct l; [reflexivity|discriminate].
    - intros (g & z' & -> & Hg & Heq & Hgt & Hr) Hl.
      rewrite <- (firstn_skipn t l) at 1. set (l1 := firstn t l). set (l2 := skipn t l).
      assert (Hl1: length l1 = t) by (unfold l1; rewrite firstn_length; lia).
      assert (Hl2: length l2 = lsum rest) by (unfold l2; rewrite skipn_length; lia).
      unfold twoU_lab. rewrite !sel_app by lia.
      rewrite twoU_pairs_app_l, !twoU_pairs_app_r.
      pose proof (grouped_length _ _ Hr) as Hz'.
      rewrite (twoU_pairs_const 1 (sel true l1 g) (sel false l1 g)).
      2:{ intros a b Ha Hb. unfold pairw. rewrite Heq; eauto using sel_in. }
      rewrite (twoU_pairs_const 2 (sel true l1 g) (sel false l2 z')).
      2:{ intros a b Ha Hb. unfold pairw. destruct (Hgt a b) as [-> _]; eauto using sel_in. }
      rewrite (twoU_pairs_const 0 (sel true l2 z') (sel false l1 g)).
      2:{ intros a b Ha Hb. unfold pairw. destruct (Hgt b a) as [_ ->]; eauto using sel_in. }
      fold (twoU_lab cmp z' l2). rewrite (IH z' l2 Hr Hl2).
      rewrite !sel_true_length, !sel_false_length by lia.
      rewrite (gsplit_sum rest l2 Hl2).
      pose proof (ntrue_nfalse l1). pose proof (ntrue_nfalse l2). nia.
  Qed.

  (* number of subsets with 2U <= w (resp. = w) is the binomially weighted number of splits *)
  Theorem count_le_cntS Tr z n w : grouped cmp Tr z -> count_le cmp z n w = cntS Tr n w.
  Proof.
    intros Hg. unfold count_le, cntS. rewrite (grouped_length _ _ Hg).
    rewrite (zsum_ext_in _ (fun l => (fun r => ind (twoU Tr r <=? w)) (gsplit Tr l))).
    - rewrite (sum_labs_by_split Tr n (fun r => ind (twoU Tr r <=? w))). apply zsum_ext. intros r. unfold ind. destruct (twoU Tr r <=? w); lia.
    - intros l Hl. apply labs_spec in Hl as [Hl _]. cbv beta. rewrite (twoU_lab_split Tr z l Hg Hl). reflexivity.
  Qed.
  Theorem count_eq_massS Tr z n w : grouped cmp Tr z -> count_eq cmp z n w = massS Tr n w.
  Proof.
    intros Hg. unfold count_eq, massS. rewrite (grouped_length _ _ Hg).
    rewrite (zsum_ext_in _ (fun l => (fun r => ind (twoU Tr r =? w)) (gsplit Tr l))).
    - rewrite (sum_labs_by_split Tr n (fun r => ind (twoU Tr r =? w))). apply zsum_ext. intros r. unfold ind. destruct (twoU Tr r =? w); lia.
    - intros l Hl. apply labs_spec in Hl as [Hl _]. cbv beta. rewrite (twoU_lab_split Tr z l Hg Hl). reflexivity.
  Qed.
End Pairs.

(* the canonical ranked pool is grouped by its tie vector *)
Lemma rank_pool_bound Tr : forall y, In y (rank_pool Tr) -> (y <= length Tr)%nat.
Proof.
  induction Tr as [|t rest IH]; intros y; cbn [rank_pool]; [intros []|].
  rewrite in_app_iff. intros [H|H].
  - apply repeat_spec in H. subst. lia.
  - apply IH in H. cbn [length]. lia.
Qed.
Lemma rank_pool_grouped Tr : grouped Nat.compare Tr (rank_pool Tr).
Proof.
  induction Tr as [|t rest IH]; cbn [grouped rank_pool]; [reflexivity|].
  exists (repeat (S (length rest)) t), (rank_pool rest). repeat split; auto.
  - apply repeat_length.
  - intros x y Hx Hy. apply repeat_spec in Hx, Hy. subst. apply Nat.compare_refl.
  - apply repeat_spec in H. apply rank_pool_bound in H0. subst. apply Nat.compare_gt_iff. lia.
  - apply repeat_spec in H. apply rank_pool_bound in H0. subst. apply Nat.compare_lt_iff. lia.
Qed.

(* Proofs/Udist.v — the model of stats/udist.go computes the counts of Spec/Ucount.v.
   Part 1: Choose, the Klotz/Cheung recurrence A, the two-rank base case, the feasible range. *)
From Coq Require Import List ZArith Lia Arith Bool QArith Qround.
From MM Require Import Base.Num Base.GEComb Spec.Ucount Proofs.Ucount Model.GEChoose Model.Udist.
Import ListNotations.
Open Scope Z_scope.

(* ---------- Choose (mathx/choose.go) is the binomial coefficient ---------- *)
Lemma C_step n : forall k, Z.of_nat (S k) * C n (S k) = (Z.of_nat n - Z.of_nat k) * C n k.
Proof.
  induction n as [|n IH]; intros k.
  - destruct k; cbn; lia.
  - destruct k as [|k].
    + assert (E: C (S n) 1 = C n 0 + C n 1) by reflexivity. rewrite E. pose proof (IH 0%nat) as H.
      rewrite !C_n0 in *. lia.
    + assert (E1: C (S n) (S (S k)) = C n (S k) + C n (S (S k))) by reflexivity.
      assert (E2: C (S n) (S k) = C n k + C n (S k)) by reflexivity.
      pose proof (IH k) as H1. pose proof (IH (S k)) as H2. rewrite E1, E2.
      rewrite !Nat2Z.inj_succ in *.
      set (X := C n k) in *. set (Y := C n (S k)) in *. set (W := C n (S (S k))) in *. clearbody X Y W. nia.
Qed.
Lemma zfact_pos k : 0 < zfact k.
Proof. induction k as [|k IH]; cbn [zfact]; [lia|]. apply Z.mul_pos_pos; lia. Qed.
Lemma ffact_C n k : ffact (Z.of_nat n) k = C n k * zfact k.
Proof.
  induction k as [|k IH]; cbn [ffact zfact]; [rewrite C_n0; lia|]. rewrite IH.
  pose proof (C_step n k) as H.
  replace (C n k * zfact k * (Z.of_nat n - Z.of_nat k)) with (((Z.of_nat n - Z.of_nat k) * C n k) * zfact k) by ring.
  rewrite <- H. ring.
Qed.
Theorem choose_C n k : choosen n k = C n k.
Proof.
  unfold choosen, choose.
  destruct (Z.eqb_spec (Z.of_nat k) 0) as [E|E]; cbn [orb].
  - assert (k = 0)%nat by lia. subst. now rewrite C_n0.
  - destruct (Z.eqb_spec (Z.of_nat k) (Z.of_nat n)) as [E2|E2]; cbn [orb].
    + assert (k = n) by lia. subst. now rewrite C_nn.
    + destruct (Z.ltb_spec (Z.of_nat k) 0); [lia|]. cbn [orb].
      destruct (Z.ltb_spec (Z.of_nat n) (Z.of_nat k)).
      * rewrite C_out by lia. reflexivity.
      * rewrite Nat2Z.id, ffact_C. apply Z.div_mul. pose proof (zfact_pos k). lia.
Qed.
Lemma choose_neg n k : k < 0 -> 0 <= n -> choose n k = 0.
Proof.
  intros Hk Hn. unfold choose. destruct (Z.eqb_spec k 0); [lia|]. destruct (Z.eqb_spec k n); [lia|]. cbn [orb].
  destruct (Z.ltb_spec k 0); [reflexivity|lia].
Qed.

(* ---------- the recurrence of makeUmemo without memo table and without pruning ---------- *)
Fixpoint A (Tr : list nat) (n1 : nat) (w : Z) : Z :=
  match Tr with
  | [] => if (n1 =? 0)%nat && (0 <=? w) then 1 else 0
  | tK :: rest =>
      zsum (fun r => C tK r * A rest (n1 - r) (w - stepw tK (lsum rest) n1 r))
           (seq 0 (Nat.min n1 tK + 1))
  end.

Lemma stepw_eq tK srest n1 r :
  stepw tK srest n1 r = Z.of_nat r * (2 * Z.of_nat srest + Z.of_nat tK - 2 * Z.of_nat n1 + Z.of_nat r).
Proof. reflexivity. Qed.

Theorem A_counts_splits Tr : forall n1 w, A Tr n1 w = cntS Tr n1 w.
Proof.
  induction Tr as [|tK rest IH]; intros n1 w; unfold cntS; cbn [A splits].
  - destruct (Nat.eqb_spec n1 0); cbn; [|reflexivity]. destruct (0 <=? w); reflexivity.
  - rewrite zsum_flat_map. apply zsum_ext_in. intros rK HrK. apply in_seq in HrK.
    rewrite zsum_map, IH. unfold cntS. rewrite <- zsum_scale. apply zsum_ext_in. intros rr Hrr.
    apply splits_sum in Hrr. cbn [twoU weight]. rewrite stepw_eq.
    replace (Z.of_nat (lsum rr)) with (Z.of_nat n1 - Z.of_nat rK) by lia.
    destruct (Z.leb_spec (twoU rest rr) (w - Z.of_nat rK * (2 * Z.of_nat (lsum rest) + Z.of_nat tK - 2 * Z.of_nat n1 + Z.of_nat rK)));
    destruct (Z.leb_spec (Z.of_nat rK * (2 * (Z.of_nat (lsum rest) - (Z.of_nat n1 - Z.of_nat rK)) + (Z.of_nat tK - Z.of_nat rK)) + twoU rest rr) w);
    try lia; nia.
Qed.
(* same recurrence for the exact masses *)
Lemma massS_cons tK rest n1 v :
  massS (tK :: rest) n1 v =
  zsum (fun r => C tK r * massS rest (n1 - r) (v - stepw tK (lsum rest) n1 r)) (seq 0 (Nat.min n1 tK + 1)).
Proof.
  unfold massS; cbn [splits]. rewrite zsum_flat_map. apply zsum_ext_in. intros rK HrK. apply in_seq in HrK.
  rewrite zsum_map. rewrite <- zsum_scale. apply zsum_ext_in. intros rr Hrr.
  apply splits_sum in Hrr. cbn [twoU weight]. rewrite stepw_eq.
  replace (Z.of_nat (lsum rr)) with (Z.of_nat n1 - Z.of_nat rK) by lia.
  destruct (Z.eqb_spec (twoU rest rr) (v - Z.of_nat rK * (2 * Z.of_nat (lsum rest) + Z.of_nat tK - 2 * Z.of_nat n1 + Z.of_nat rK)));
  destruct (Z.eqb_spec (Z.of_nat rK * (2 * (Z.of_nat (lsum rest) - (Z.of_nat n1 - Z.of_nat rK)) + (Z.of_nat tK - Z.of_nat rK)) + twoU rest rr) v);
  try lia; nia.
Qed.

Lemma A_cons tK rest n1 w : A (tK :: rest) n1 w =
  zsum (fun r => C tK r * A rest (n1 - r) (w - stepw tK (lsum rest) n1 r)) (seq 0 (Nat.min n1 tK + 1)).
Proof. reflexivity. Qed.

Lemma A_infeasible Tr n1 w : (lsum Tr < n1)%nat -> A Tr n1 w = 0.
Proof. intros H. rewrite A_counts_splits. unfold cntS. now rewrite splits_infeasible. Qed.

Lemma A_one t0 n w : A [t0] n w = if (n <=? t0)%nat && (Z.of_nat n * (Z.of_nat t0 - Z.of_nat n) <=? w) then C t0 n else 0.
Proof.
  cbn [A lsum]. rewrite !stepw_eq || idtac.
  destruct (Nat.leb_spec n t0) as [Hn|Hn]; cbn [andb].
  - replace (Nat.min n t0 + 1)%nat with (S n) by lia. rewrite seq_S, zsum_app. cbn [zsum Nat.add].
    rewrite Nat.sub_diag. cbn [Nat.eqb andb]. rewrite stepw_eq.
    rewrite (zsum_zero_in _ (seq 0 n)).
    + destruct (Z.leb_spec (Z.of_nat n * (Z.of_nat t0 - Z.of_nat n)) w), (Z.leb_spec 0 (w - Z.of_nat n * (2 * Z.of_nat 0 + Z.of_nat t0 - 2 * Z.of_nat n + Z.of_nat n))); try lia; nia.
    + intros r Hr. apply in_seq in Hr. destruct (Nat.eqb_spec (n - r) 0); [lia|]. cbn. lia.
  - replace (Nat.min n t0 + 1)%nat with (S t0) by lia. apply zsum_zero_in.
    intros r Hr. apply in_seq in Hr. destruct (Nat.eqb_spec (n - r) 0); [lia|]. cbn. lia.
Qed.

Lemma le_div_iff r x d : 0 < d -> (r <= x / d <-> r * d <= x).
Proof.
  intros Hd. split; intros H.
  - pose proof (Z.mul_div_le x d Hd). nia.
  - apply Z.div_le_lower_bound; lia.
Qed.

(* closed form in the shape of the prototype: bounded range, explicit test r2 <= hi *)
Definition base2p (t0 t1 n1 : nat) (w : Z) : Z :=
  let hi := (w - Z.of_nat n1 * (Z.of_nat t0 - Z.of_nat n1)) / (Z.of_nat t0 + Z.of_nat t1) in
  zsum (fun r2 => if Z.of_nat r2 <=? hi then C t0 (n1 - r2) * C t1 r2 else 0)
       (seq (n1 - t0) (Nat.min n1 t1 + 1 - (n1 - t0))).

Lemma base2p_is_A t0 t1 n1 w : (0 < t0 + t1)%nat -> A [t1; t0] n1 w = base2p t0 t1 n1 w.
Proof.
  intros Hpos. unfold base2p. cbn zeta.
  set (hi := (w - Z.of_nat n1 * (Z.of_nat t0 - Z.of_nat n1)) / (Z.of_nat t0 + Z.of_nat t1)).
  set (g := fun r2 : nat => if (n1 - r2 <=? t0)%nat && (Z.of_nat r2 <=? hi) then C t0 (n1 - r2) * C t1 r2 else 0).
  transitivity (zsum g (seq 0 (Nat.min n1 t1 + 1))).
  - rewrite A_cons. apply zsum_ext_in. intros r Hr. apply in_seq in Hr. rewrite A_one. unfold g. rewrite stepw_eq. cbn [lsum].
    assert (Hiff: Z.of_nat r <= hi <-> Z.of_nat r * (Z.of_nat t0 + Z.of_nat t1) <= w - Z.of_nat n1 * (Z.of_nat t0 - Z.of_nat n1))
      by (apply le_div_iff; lia).
    destruct (Nat.leb_spec (n1 - r) t0); cbn [andb]; [|lia].
    destruct (Z.leb_spec (Z.of_nat r) hi) as [H1|H1];
    destruct (Z.leb_spec (Z.of_nat (n1 - r) * (Z.of_nat t0 - Z.of_nat (n1 - r)))
               (w - Z.of_nat r * (2 * Z.of_nat (t0 + 0) + Z.of_nat t1 - 2 * Z.of_nat n1 + Z.of_nat r))) as [H2|H2];
    try lia; exfalso; rewrite Nat2Z.inj_sub in H2 by lia; nia.
  - rewrite (zsum_seq_skip g (n1 - t0)).
    + apply zsum_ext_in. intros r Hr. apply in_seq in Hr. unfold g.
      destruct (Nat.leb_spec (n1 - r) t0); [reflexivity|lia].
    + intros r Hr. unfold g. destruct (Nat.leb_spec (n1 - r) t0); [lia|reflexivity].
Qed.

Lemma base2_term_eq t0 t1 n1 r2 :
  base2_term t0 t1 n1 r2 = if (r2 <=? n1)%nat then C t0 (n1 - r2) * C t1 r2 else 0.
Proof.
  unfold base2_term. fold (choosen t1 r2). rewrite choose_C.
  destruct (Nat.leb_spec r2 n1).
  - replace (Z.of_nat n1 - Z.of_nat r2) with (Z.of_nat (n1 - r2)) by lia. fold (choosen t0 (n1 - r2)). now rewrite choose_C.
  - rewrite choose_neg by lia. lia.
Qed.

(* the code's loop (model base2) = the closed form = the recurrence, for EVERY integer w *)
Theorem base2_is_A t0 t1 n1 w : (0 < t0 + t1)%nat -> base2 t0 t1 n1 w = A [t1; t0] n1 w.
Proof.
  intros Hpos. rewrite base2p_is_A by assumption. unfold base2, base2p. cbn zeta.
  set (hi := (w - Z.of_nat n1 * (Z.of_nat t0 - Z.of_nat n1)) / (Z.of_nat t0 + Z.of_nat t1)).
  set (lo := (n1 - t0)%nat).
  set (g := fun r2 : nat => if (Z.of_nat r2 <=? hi) && (r2 <=? Nat.min n1 t1)%nat then C t0 (n1 - r2) * C t1 r2 else 0).
  set (L1 := Z.to_nat (hi + 1 - Z.of_nat lo)). set (L2 := (Nat.min n1 t1 + 1 - lo)%nat).
  transitivity (zsum g (seq lo (Nat.max L1 L2))).
  - rewrite (zsum_seq_extend g lo L1 (Nat.max L1 L2)) by
      (first [lia | intros r Hr; unfold g; destruct (Z.leb_spec (Z.of_nat r) hi); [lia|reflexivity]]).
    apply zsum_ext_in. intros r Hr. apply in_seq in Hr. rewrite base2_term_eq. unfold g.
    destruct (Z.leb_spec (Z.of_nat r) hi); [|lia]. cbn [andb].
    destruct (Nat.leb_spec r n1), (Nat.leb_spec r (Nat.min n1 t1)); try lia; try reflexivity.
    rewrite (C_out t1 r) by lia. lia.
  - rewrite (zsum_seq_extend g lo L2 (Nat.max L1 L2)) by
      (first [lia | intros r Hr; unfold g; destruct (Nat.leb_spec r (Nat.min n1 t1)); [lia|now rewrite andb_false_r]]).
    apply zsum_ext_in. intros r Hr. apply in_seq in Hr. unfold g.
    destruct (Nat.leb_spec r (Nat.min n1 t1)); [|lia]. now rewrite andb_true_r.
Qed.

(* D1: with Go's truncating division the base case is wrong for negative numerators *)
Example D1_refuted : base2_trunc 2 1 1 0 = 2 /\ A [1%nat; 2%nat] 1 0 = 0 /\ base2 2 1 1 0 = 0.
Proof. repeat split; vm_compute; reflexivity. Qed.

(* Proofs/UdistCor.v — corollaries about UDist.CDF as a function of the real argument. *)
From Coq Require Import List ZArith Lia Arith Bool QArith Qround Lqa.
From MM Require Import Base.Num Base.GEComb Spec.Ucount Proofs.Ucount Model.GEChoose Model.Udist
  Proofs.Udist Proofs.UdistTied Proofs.UdistTable Proofs.UdistLaws Proofs.UdistUntied.
Import ListNotations.
Local Open Scope Q_scope.

Theorem cdf_zero_below N1 N2 T u : u < 0 -> udist_cdf N1 N2 T u == 0.
Proof. intros H. unfold udist_cdf. apply Qltb_true in H. rewrite H. reflexivity. Qed.
Theorem cdf_one_from_top N1 N2 T u : QN (N1 * N2) <= u -> udist_cdf N1 N2 T u == 1.
Proof.
  intros H. unfold udist_cdf. destruct (Qltb u 0) eqn:E.
  - apply Qltb_true in E. assert (0 <= QN (N1 * N2)) by (unfold QN; change 0 with (inject_Z 0); rewrite <- Zle_Qle; lia). lra.
  - apply Qleb_true in H. rewrite H. reflexivity.
Qed.
Theorem pmf_zero_outside N1 N2 T u : u < 0 \/ (1 # 2) + QN (N1 * N2) <= u -> udist_pmf N1 N2 T u == 0.
Proof.
  intros [H|H]; unfold udist_pmf.
  - apply Qltb_true in H. rewrite H. reflexivity.
  - apply Qleb_true in H. rewrite H, orb_true_r. reflexivity.
Qed.

Lemma qdiv_le a b d : (a <= b)%Z -> (0 < d)%Z -> inject_Z a / inject_Z d <= inject_Z b / inject_Z d.
Proof.
  intros Hab Hd. unfold Qdiv. apply Qmult_le_compat_r; [now rewrite <- Zle_Qle|].
  apply Qinv_le_0_compat. change 0 with (inject_Z 0). rewrite <- Zle_Qle. lia.
Qed.

Theorem cdf_monotone_tied {X} (cmp : X -> X -> comparison) N1 N2 T z u u' :
  valid_T N1 N2 T -> has_ties T = true -> grouped cmp (rev T) z ->
  u <= u' -> udist_cdf N1 N2 T u <= udist_cdf N1 N2 T u'.
Proof.
  intros HV HT HG Hu. rewrite !(udist_cdf_tied cmp N1 N2 T z HV HT HG).
  apply qdiv_le; [|apply C_pos; lia]. apply count_le_mono. apply Qfloor_resp_le. lra.
Qed.
Theorem cdf_monotone_untied {X} (cmp : X -> X -> comparison) N1 N2 T z u u' :
  (1 <= N1)%nat -> (1 <= N2)%nat -> has_ties T = false -> grouped cmp (ones (N1 + N2)) z ->
  (forall a b, cmp b a = CompOpp (cmp a b)) ->
  u <= u' -> udist_cdf N1 N2 T u <= udist_cdf N1 N2 T u'.
Proof.
  intros H1 H2 HT HG Ha Hu. rewrite !(udist_cdf_untied cmp N1 N2 T z H1 H2 HT HG Ha).
  apply qdiv_le; [|apply C_pos; lia]. apply count_le_mono.
  pose proof (Qfloor_resp_le u u' Hu) as Hfl. apply Z.mul_le_mono_nonneg_l; [discriminate|exact Hfl].
Qed.

(* all masses together: the C(N,n) subsets *)
Theorem masses_sum_to_total {X} (cmp : X -> X -> comparison) z n :
  (n <= length z)%nat ->
  zsum (fun v => count_eq cmp z n v) (zrange 0 (2 * Z.of_nat n * Z.of_nat (length z - n))) = C (length z) n.
Proof.
  intros Hn. rewrite count_eq_sum by nia. apply count_le_top; [assumption|lia].
Qed.

(* Proofs/UdistLaws.v — laws of the subset counts (any pool, any comparison) and what
   UDist.PMF / UDist.CDF (tied path) are in terms of them, for every real argument u. *)
From Coq Require Import List ZArith Lia Arith Bool QArith Qround Lqa.
From MM Require Import Base.Num Base.GEComb Spec.Ucount Proofs.Ucount Model.GEChoose Model.Udist
  Proofs.Udist Proofs.UdistTied Proofs.UdistTable.
Import ListNotations.
Open Scope Z_scope.

Lemma zsum_minus {A} (f g : A -> Z) l : zsum (fun a => f a - g a) l = zsum f l - zsum g l.
Proof. induction l as [|a l IH]; cbn [zsum]; [lia|]. rewrite IH. lia. Qed.

Section Laws.
  Context {X : Type} (cmp : X -> X -> comparison).

  Lemma pairw_range a b : 0 <= pairw cmp a b <= 2.
  Proof. unfold pairw. destruct (cmp a b); lia. Qed.
  Lemma twoU_pairs_range x1 x2 : 0 <= twoU_pairs cmp x1 x2 <= 2 * Z.of_nat (length x1) * Z.of_nat (length x2).
  Proof.
    unfold twoU_pairs. split.
    - apply zsum_nonneg. intros a _. apply zsum_nonneg. intros b _. apply pairw_range.
    - rewrite <- (Z.mul_comm (Z.of_nat (length x2))), Z.mul_assoc.
      replace (Z.of_nat (length x2) * 2 * Z.of_nat (length x1)) with ((2 * Z.of_nat (length x2)) * Z.of_nat (length x1)) by lia.
      rewrite <- zsum_const. apply zsum_le. intros a _. rewrite <- zsum_const. apply zsum_le. intros b _. apply pairw_range.
  Qed.
  Lemma twoU_lab_range z l : length l = length z ->
    0 <= twoU_lab cmp z l <= 2 * Z.of_nat (ntrue l) * Z.of_nat (nfalse l).
  Proof.
    intros H. unfold twoU_lab. pose proof (twoU_pairs_range (sel true l z) (sel false l z)) as R.
    rewrite sel_true_length, sel_false_length in R by assumption. exact R.
  Qed.

  Lemma count_le_mono z n w w' : w <= w' -> count_le cmp z n w <= count_le cmp z n w'.
  Proof.
    intros H. unfold count_le. apply zsum_le. intros l _. unfold ind.
    destruct (Z.leb_spec (twoU_lab cmp z l) w), (Z.leb_spec (twoU_lab cmp z l) w'); lia.
  Qed.
  Lemma count_le_nonneg z n w : 0 <= count_le cmp z n w.
  Proof. unfold count_le. apply zsum_nonneg. intros l _. unfold ind. destruct (_ <=? _); lia. Qed.
  Lemma count_le_neg z n w : w < 0 -> count_le cmp z n w = 0.
  Proof.
    intros H. unfold count_le. apply zsum_zero_in. intros l Hl. apply labs_spec in Hl as [Hl _].
    pose proof (twoU_lab_range z l Hl). unfold ind. destruct (Z.leb_spec (twoU_lab cmp z l) w); [lia|reflexivity].
  Qed.
  Lemma count_le_top z n w : (n <= length z)%nat -> 2 * Z.of_nat n * Z.of_nat (length z - n) <= w ->
    count_le cmp z n w = C (length z) n.
  Proof.
    intros Hn H. rewrite <- labs_count. unfold count_le. apply zsum_ext_in. intros l Hl.
    apply labs_spec in Hl as [Hl Hn1]. pose proof (twoU_lab_range z l Hl) as R. pose proof (ntrue_nfalse l).
    replace (nfalse l) with (length z - n)%nat in R by lia. rewrite Hn1 in R.
    unfold ind. destruct (Z.leb_spec (twoU_lab cmp z l) w); [reflexivity|lia].
  Qed.
  Lemma count_eq_diff z n w : count_eq cmp z n w = count_le cmp z n w - count_le cmp z n (w - 1).
  Proof.
    unfold count_eq, count_le. rewrite <- zsum_minus. apply zsum_ext. intros l. unfold ind.
    destruct (Z.eqb_spec (twoU_lab cmp z l) w), (Z.leb_spec (twoU_lab cmp z l) w), (Z.leb_spec (twoU_lab cmp z l) (w - 1)); lia.
  Qed.
  Lemma count_eq_nonneg z n w : 0 <= count_eq cmp z n w.
  Proof. unfold count_eq. apply zsum_nonneg. intros l _. unfold ind. destruct (_ =? _); lia. Qed.
  (* the masses at 0..W add up to the cumulative count at W *)
  Lemma count_eq_sum z n W : -1 <= W -> zsum (fun v => count_eq cmp z n v) (zrange 0 W) = count_le cmp z n W.
  Proof.
    intros HW. unfold zrange. rewrite zsum_map. replace (W - 0 + 1) with (W + 1) by lia.
    remember (Z.to_nat (W + 1)) as m eqn:Em. assert (Hm: W = Z.of_nat m - 1) by lia. rewrite Hm. clear Hm HW Em.
    induction m as [|m IH].
    - cbn [seq zsum]. symmetry. apply count_le_neg. lia.
    - rewrite seq_S, zsum_app, IH. cbn [zsum Nat.add]. rewrite count_eq_diff.
      replace (0 + Z.of_nat m - 1) with (Z.of_nat m - 1) by lia.
      replace (0 + Z.of_nat m) with (Z.of_nat (S m) - 1) by lia. lia.
  Qed.

  (* mirror: complementing the labelling swaps the samples *)
  Hypothesis cmp_antisym : forall a b, cmp b a = CompOpp (cmp a b).
  Lemma pairw_swap a b : pairw cmp b a = 2 - pairw cmp a b.
  Proof. unfold pairw. rewrite (cmp_antisym a b). destruct (cmp a b); cbn; lia. Qed.
  Lemma twoU_pairs_swap x1 x2 :
    twoU_pairs cmp x2 x1 = 2 * Z.of_nat (length x1) * Z.of_nat (length x2) - twoU_pairs cmp x1 x2.
  Proof.
    unfold twoU_pairs. rewrite zsum_swap.
    rewrite (zsum_ext _ (fun a => 2 * Z.of_nat (length x2) - zsum (fun b => pairw cmp a b) x2)).
    - rewrite zsum_minus, zsum_const. lia.
    - intros a. rewrite (zsum_ext _ (fun b => 2 - pairw cmp a b)) by (intros; apply pairw_swap).
      rewrite zsum_minus, zsum_const. reflexivity.
  Qed.
  Lemma sel_negb b : forall l (z : list X), sel b (map negb l) z = sel (negb b) l z.
  Proof.
    induction l as [|lb l IH]; intros [|v z]; cbn [map sel]; try reflexivity.
    rewrite IH. destruct lb, b; reflexivity.
  Qed.
  Lemma twoU_lab_negb z l : length l = length z ->
    twoU_lab cmp z (map negb l) = 2 * Z.of_nat (ntrue l) * Z.of_nat (nfalse l) - twoU_lab cmp z l.
  Proof.
    intros H. unfold twoU_lab. rewrite !sel_negb. cbn [negb]. rewrite twoU_pairs_swap.
    rewrite sel_true_length, sel_false_length by assumption. reflexivity.
  Qed.
End Laws.

Lemma labs_negb_sum N : forall n (f : list bool -> Z), (n <= N)%nat ->
  zsum (fun l => f (map negb l)) (labs N n) = zsum f (labs N (N - n)).
Proof.
  induction N as [|N IH]; intros n f Hn.
  - assert (n = 0)%nat by lia. subst. reflexivity.
  - destruct n as [|n'].
    + rewrite Nat.sub_0_r. cbn [labs]. rewrite (labs_out N (S N)) by lia. cbn [map app]. rewrite app_nil_r, !zsum_map.
      cbn [map negb]. rewrite (IH 0%nat (fun l => f (true :: l))) by lia. now rewrite Nat.sub_0_r.
    + change (labs (S N) (S n')) with (map (cons true) (labs N n') ++ map (cons false) (labs N (S n'))).
      rewrite zsum_app, !zsum_map. cbn [map negb].
      rewrite (IH n' (fun l => f (false :: l))) by lia.
      destruct (Nat.eq_dec n' N) as [->|Hne].
      * rewrite (labs_out N (S N)) by lia. rewrite !Nat.sub_diag. cbn [zsum labs app]. rewrite zsum_map. lia.
      * rewrite (IH (S n') (fun l => f (true :: l))) by lia.
        replace (S N - S n')%nat with (S (N - S n')) by lia. replace (N - n')%nat with (S (N - S n')) by lia.
        cbn [labs]. rewrite zsum_app, !zsum_map. lia.
Qed.

Theorem count_eq_mirror {X} (cmp : X -> X -> comparison) z n w :
  (forall a b, cmp b a = CompOpp (cmp a b)) -> (n <= length z)%nat ->
  count_eq cmp z n w = count_eq cmp z (length z - n) (2 * Z.of_nat n * Z.of_nat (length z - n) - w).
Proof.
  intros Ha Hn. unfold count_eq at 2.
  rewrite <- (labs_negb_sum (length z) n (fun l => ind (twoU_lab cmp z l =? 2 * Z.of_nat n * Z.of_nat (length z - n) - w))) by assumption.
  unfold count_eq. apply zsum_ext_in. intros l Hl. apply labs_spec in Hl as [Hl Hn1].
  rewrite (twoU_lab_negb cmp Ha z l Hl). pose proof (ntrue_nfalse l).
  replace (nfalse l) with (length z - n)%nat by lia. rewrite Hn1. unfold ind.
  destruct (Z.eqb_spec (twoU_lab cmp z l) w), (Z.eqb_spec (2 * Z.of_nat n * Z.of_nat (length z - n) - twoU_lab cmp z l) (2 * Z.of_nat n * Z.of_nat (length z - n) - w)); lia.
Qed.
Corollary count_le_mirror {X} (cmp : X -> X -> comparison) z n w :
  (forall a b, cmp b a = CompOpp (cmp a b)) -> (n <= length z)%nat ->
  count_le cmp z n w = C (length z) n - count_le cmp z (length z - n) (2 * Z.of_nat n * Z.of_nat (length z - n) - w - 1).
Proof.
  intros Ha Hn. unfold count_le at 2.
  rewrite <- (labs_negb_sum (length z) n (fun l => ind (twoU_lab cmp z l <=? 2 * Z.of_nat n * Z.of_nat (length z - n) - w - 1))) by assumption.
  rewrite <- labs_count, <- zsum_minus. unfold count_le. apply zsum_ext_in. intros l Hl. apply labs_spec in Hl as [Hl Hn1].
  rewrite (twoU_lab_negb cmp Ha z l Hl). pose proof (ntrue_nfalse l).
  replace (nfalse l) with (length z - n)%nat by lia. rewrite Hn1. unfold ind.
  destruct (Z.leb_spec (twoU_lab cmp z l) w), (Z.leb_spec (2 * Z.of_nat n * Z.of_nat (length z - n) - twoU_lab cmp z l) (2 * Z.of_nat n * Z.of_nat (length z - n) - w - 1)); lia.
Qed.

(* ---------- UDist.CDF / UDist.PMF with ties, every real u ---------- *)
Definition valid_T (N1 N2 : nat) (T : list nat) : Prop :=
  (1 <= N1)%nat /\ (1 <= N2)%nat /\ (2 <= length T)%nat /\ Forall (fun t => (1 <= t)%nat) T /\ lsum T = (N1 + N2)%nat.
Lemma valid_T_rev N1 N2 T : valid_T N1 N2 T -> valid_Tr (rev T).
Proof.
  intros (_ & _ & Hl & Hp & _). split; [now rewrite rev_length|]. apply Forall_rev. exact Hp.
Qed.

Local Open Scope Q_scope.
Lemma Qltb_true a b : Qltb a b = true <-> a < b.
Proof. unfold Qltb. rewrite negb_true_iff. split; intros H.
  - apply Qnot_le_lt. intros Hle. apply Qle_bool_iff in Hle. congruence.
  - destruct (Qle_bool b a) eqn:E; [|reflexivity]. apply Qle_bool_iff in E. apply Qle_not_lt in E. contradiction.
Qed.
Lemma Qleb_true a b : Qleb a b = true <-> a <= b.
Proof. apply Qle_bool_iff. Qed.
Lemma Qfloor_neg (u : Q) : u < 0 -> (Qfloor (2 * u) < 0)%Z.
Proof.
  intros H. pose proof (Qfloor_le (2 * u)) as H1. assert (H2: inject_Z (Qfloor (2 * u)) < 0) by lra.
  rewrite <- (Zlt_Qlt _ 0) in H2 || (apply (proj2 (Zlt_Qlt _ 0)) in H2). exact H2.
Qed.
Lemma Qfloor_ge_int (u : Q) (k : Z) : inject_Z k <= u -> (k <= Qfloor u)%Z.
Proof. intros H. rewrite <- (Qfloor_Z k). now apply Qfloor_resp_le. Qed.
Lemma Qfloor_lt_int (u : Q) (k : Z) : u < inject_Z k -> (Qfloor u < k)%Z.
Proof.
  intros H. pose proof (Qfloor_le u) as H1. assert (H2: inject_Z (Qfloor u) < inject_Z k) by lra.
  rewrite Zlt_Qlt. exact H2.
Qed.
Lemma inject_Z_nonzero c : (0 < c)%Z -> ~ inject_Z c == 0.
Proof. intros H E. unfold Qeq in E. cbn in E. lia. Qed.
Lemma qdiv0 d : 0 == inject_Z 0 / d.
Proof. unfold Qdiv. now rewrite Qmult_0_l. Qed.
Lemma qdiv1 d : ~ d == 0 -> 1 == d / d.
Proof. intros H. field. exact H. Qed.
Lemma QN_mul2 n : 2 * QN n == inject_Z (2 * Z.of_nat n).
Proof. unfold QN. rewrite inject_Z_mult. reflexivity. Qed.

Section Tied.
  Context {X : Type} (cmp : X -> X -> comparison).
  Variables (N1 N2 : nat) (T : list nat) (z : list X).
  Hypothesis HV : valid_T N1 N2 T.
  Hypothesis HT : has_ties T = true.
  Hypothesis HG : grouped cmp (rev T) z.

  Let Hlen : length z = (N1 + N2)%nat.
  Proof. rewrite (grouped_length cmp _ _ HG), lsum_rev. apply HV. Qed.

  (* CDF(u) = #{subsets with 2U <= floor(2u)} / C(N1+N2, N1), i.e. the mass at points <= u *)
  Theorem udist_cdf_tied u :
    udist_cdf N1 N2 T u == inject_Z (count_le cmp z N1 (Qfloor (2 * u))) / inject_Z (C (N1 + N2) N1).
  Proof.
    assert (HC: (0 < C (N1 + N2) N1)%Z) by (apply C_pos; lia).
    assert (HCq: ~ inject_Z (C (N1 + N2) N1) == 0) by (apply inject_Z_nonzero; exact HC).
    unfold udist_cdf. destruct (Qltb u 0) eqn:E0.
    - apply Qltb_true in E0. rewrite count_le_neg by (now apply Qfloor_neg). apply qdiv0.
    - destruct (Qleb (QN (N1 * N2)) u) eqn:E1.
      + apply Qleb_true in E1. rewrite count_le_top; rewrite ?Hlen; [apply qdiv1; exact HCq|lia|].
        replace (N1 + N2 - N1)%nat with N2 by lia. apply Qfloor_ge_int.
        rewrite <- Z.mul_assoc, <- Nat2Z.inj_mul, <- QN_mul2. lra.
      + rewrite HT. unfold qcount. rewrite choose_C.
        rewrite (tied_A_counts_subsets cmp (rev T) z N1 _ (valid_T_rev _ _ _ HV) HG). reflexivity.
  Qed.

  (* PMF(u) = #{subsets with 2U = floor(2u)} / C(N1+N2, N1) *)
  Theorem udist_pmf_tied u :
    udist_pmf N1 N2 T u == inject_Z (count_eq cmp z N1 (Qfloor (2 * u))) / inject_Z (C (N1 + N2) N1).
  Proof.
    assert (HC: (0 < C (N1 + N2) N1)%Z) by (apply C_pos; lia).
    assert (HCq: ~ inject_Z (C (N1 + N2) N1) == 0) by (apply inject_Z_nonzero; exact HC).
    unfold udist_pmf. rewrite count_eq_diff.
    destruct (Qltb u 0) eqn:E0; cbn [orb].
    - apply Qltb_true in E0. pose proof (Qfloor_neg u E0). rewrite !count_le_neg by lia. apply qdiv0.
    - destruct (Qleb ((1 # 2) + QN (N1 * N2)) u) eqn:E1.
      + apply Qleb_true in E1.
        assert (H2: (2 * Z.of_nat N1 * Z.of_nat N2 + 1 <= Qfloor (2 * u))%Z).
        { apply Qfloor_ge_int. rewrite inject_Z_plus, <- Z.mul_assoc, <- Nat2Z.inj_mul, <- QN_mul2. change (inject_Z 1) with 1. lra. }
        rewrite !count_le_top; rewrite ?Hlen; try lia; try (replace (N1 + N2 - N1)%nat with N2 by lia; lia).
        rewrite Z.sub_diag. apply qdiv0.
      + rewrite HT. unfold qcount. rewrite choose_C.
        rewrite !(tied_A_counts_subsets cmp (rev T) z N1 _ (valid_T_rev _ _ _ HV) HG). reflexivity.
  Qed.
End Tied.

(* Proofs/UdistSym.v (group hD) — laws of UDist.PMF itself (not only of the subset counts), stated
   without reference to a pool: mirror image (N1,N2,T) <-> (N2,N1,T) about N1*N2/2, the masses at the
   attainable points sum to 1, and symmetry about N1*N2/2 for a palindromic tie vector.
   The canonical ranked pool of T (Spec.Ucount.rank_pool) is the witness behind the counting theorems. *)
From Coq Require Import List ZArith Lia Arith Bool Permutation QArith Qround Lqa.
From MM Require Import Base.Num Base.GEComb Spec.Ucount Proofs.Ucount Model.GEChoose Model.Udist
  Proofs.Udist Proofs.UdistTied Proofs.UdistTable Proofs.UdistLaws Proofs.UdistUntied Proofs.UdistCor
  Proofs.UtestSym.
Import ListNotations.
Open Scope Z_scope.

Lemma natcmp_antisym : forall a b, Nat.compare b a = CompOpp (Nat.compare a b).
Proof. intros. apply Nat.compare_antisym. Qed.

Lemma valid_T_swap N1 N2 T : valid_T N1 N2 T -> valid_T N2 N1 T.
Proof. intros (H1 & H2 & H3 & H4 & H5). repeat split; try assumption. lia. Qed.

Lemma C_swap N1 N2 : C (N1 + N2) N1 = C (N2 + N1) N2.
Proof. rewrite (Nat.add_comm N2 N1). apply C_sym. Qed.

Local Open Scope Q_scope.
Lemma Qfloor_2half w : Qfloor (2 * (w # 2)) = w.
Proof.
  unfold Qmult, Qfloor. cbn [Qnum Qden]. rewrite Z.mul_comm. change (Z.pos (1 * 2)) with 2%Z. apply Z.div_mul. lia.
Qed.
Lemma half_mirror (n : nat) w : QN n - (w # 2) == (2 * Z.of_nat n - w # 2).
Proof. unfold QN, Qeq, Qminus, Qplus, Qopp, inject_Z. cbn [Qnum Qden]. lia. Qed.

Section TiedLaws.
  Variables (N1 N2 : nat) (T : list nat).
  Hypothesis HV : valid_T N1 N2 T.
  Hypothesis HT : has_ties T = true.
  Let z := rank_pool (rev T).
  Let HG : grouped Nat.compare (rev T) z. Proof. apply rank_pool_grouped. Qed.
  Let Hlen : length z = (N1 + N2)%nat.
  Proof. rewrite (grouped_length Nat.compare _ _ HG), lsum_rev. apply HV. Qed.
  Let HC : (0 < C (N1 + N2) N1)%Z. Proof. apply C_pos; lia. Qed.
  Let M := (2 * Z.of_nat N1 * Z.of_nat N2)%Z.

  Lemma pmf_at w : udist_pmf N1 N2 T (w # 2) == inject_Z (count_eq Nat.compare z N1 w) / inject_Z (C (N1 + N2) N1).
  Proof. rewrite (udist_pmf_tied Nat.compare N1 N2 T z HV HT HG), Qfloor_2half. reflexivity. Qed.

  Lemma floor_mirror w : Qfloor (2 * (QN (N1 * N2) - (w # 2))) = (M - w)%Z.
  Proof.
    rewrite (Qfloor_comp _ (2 * ((2 * Z.of_nat (N1 * N2) - w) # 2))) by (rewrite half_mirror; reflexivity).
    rewrite Qfloor_2half. unfold M. rewrite Nat2Z.inj_mul. lia.
  Qed.

  (* mirror image: PMF_{N1,N2,T}(u) = PMF_{N2,N1,T}(N1 N2 - u) at every point u = w/2 of the grid *)
  Theorem udist_pmf_mirror_tied w : udist_pmf N1 N2 T (w # 2) == udist_pmf N2 N1 T (QN (N1 * N2) - (w # 2)).
  Proof.
    rewrite pmf_at.
    rewrite (udist_pmf_tied Nat.compare N2 N1 T z (valid_T_swap _ _ _ HV) HT HG).
    rewrite floor_mirror, <- C_swap.
    rewrite (count_eq_mirror Nat.compare z N1 w natcmp_antisym) by lia.
    rewrite Hlen. replace (N1 + N2 - N1)%nat with N2 by lia. reflexivity.
  Qed.

  (* the masses at the attainable points 0, 1/2, ..., N1 N2 sum to 1 *)
  Theorem udist_pmf_sum_tied : Qsum (map (fun w => udist_pmf N1 N2 T (w # 2)) (zrange 0 M)) == 1.
  Proof.
    assert (HCq: ~ inject_Z (C (N1 + N2) N1) == 0) by (apply inject_Z_nonzero; exact HC).
    pose proof (Qsum_map_count (fun w => udist_pmf N1 N2 T (w # 2)) (fun w => count_eq Nat.compare z N1 w)
                  (inject_Z (C (N1 + N2) N1)) (zrange 0 M)) as H.
    assert (Hj: forall j, udist_pmf N1 N2 T (j # 2) * inject_Z (C (N1 + N2) N1) == inject_Z (count_eq Nat.compare z N1 j)).
    { intros j. rewrite pmf_at. field. exact HCq. }
    specialize (H Hj).
    pose proof (masses_sum_to_total Nat.compare z N1 ltac:(lia)) as Hs.
    rewrite Hlen in Hs. replace (N1 + N2 - N1)%nat with N2 in Hs by lia. fold M in Hs. rewrite Hs in H.
    apply (Qmul_to_div _ _ _ HCq) in H. rewrite H. field. exact HCq.
  Qed.

  (* palindromic tie vector: symmetric about N1 N2 / 2 *)
  Theorem udist_pmf_symmetric_palin w : rev T = T -> udist_pmf N1 N2 T (w # 2) == udist_pmf N1 N2 T (QN (N1 * N2) - (w # 2)).
  Proof.
    intros Hpal. rewrite pmf_at, (udist_pmf_tied Nat.compare N1 N2 T z HV HT HG), floor_mirror.
    assert (Hp2: rev (rev T) = rev T) by (rewrite Hpal; exact Hpal).
    rewrite (count_eq_palin Nat.compare natcmp_antisym (rev T) z N1 w HG Hp2) by lia.
    rewrite Hlen. replace (N1 + N2 - N1)%nat with N2 by lia. reflexivity.
  Qed.
End TiedLaws.

Section UntiedLaws.
  Variables (N1 N2 : nat) (T : list nat).
  Hypothesis H1 : (1 <= N1)%nat.
  Hypothesis H2 : (1 <= N2)%nat.
  Hypothesis HT : has_ties T = false.
  Let z := rank_pool (ones (N1 + N2)).
  Let HG : grouped Nat.compare (ones (N1 + N2)) z. Proof. apply rank_pool_grouped. Qed.
  Let HG' : grouped Nat.compare (ones (N2 + N1)) z. Proof. rewrite (Nat.add_comm N2 N1). exact HG. Qed.
  Let Hlen : length z = (N1 + N2)%nat.
  Proof. rewrite (grouped_length Nat.compare _ _ HG). apply lsum_ones. Qed.
  Let HC : (0 < C (N1 + N2) N1)%Z. Proof. apply C_pos; lia. Qed.

  Lemma pmf_at_int k : udist_pmf N1 N2 T (inject_Z k) == inject_Z (count_eq Nat.compare z N1 (2 * k)) / inject_Z (C (N1 + N2) N1).
  Proof. exact (udist_pmf_untied Nat.compare N1 N2 T z H1 H2 HT HG k). Qed.

  (* mirror image at every integer point (untied U is an integer) *)
  Theorem udist_pmf_mirror_untied k :
    udist_pmf N1 N2 T (inject_Z k) == udist_pmf N2 N1 T (inject_Z (Z.of_nat (N1 * N2) - k)).
  Proof.
    rewrite pmf_at_int, (udist_pmf_untied Nat.compare N2 N1 T z H2 H1 HT HG'), <- C_swap.
    rewrite (count_eq_mirror Nat.compare z N1 (2 * k) natcmp_antisym) by lia.
    rewrite Hlen. replace (N1 + N2 - N1)%nat with N2 by lia. rewrite Nat2Z.inj_mul.
    replace (2 * Z.of_nat N1 * Z.of_nat N2 - 2 * k)%Z with (2 * (Z.of_nat N1 * Z.of_nat N2 - k))%Z by lia. reflexivity.
  Qed.
  (* without ties the distribution is always symmetric about N1 N2 / 2 *)
  Theorem udist_pmf_symmetric_untied k :
    udist_pmf N1 N2 T (inject_Z k) == udist_pmf N1 N2 T (inject_Z (Z.of_nat (N1 * N2) - k)).
  Proof.
    rewrite !pmf_at_int.
    assert (Hp: rev (ones (N1 + N2)) = ones (N1 + N2)) by apply UtestP.rev_ones.
    rewrite (count_eq_palin Nat.compare natcmp_antisym (ones (N1 + N2)) z N1 (2 * k) HG Hp) by lia.
    rewrite Hlen. replace (N1 + N2 - N1)%nat with N2 by lia. rewrite Nat2Z.inj_mul.
    replace (2 * Z.of_nat N1 * Z.of_nat N2 - 2 * k)%Z with (2 * (Z.of_nat N1 * Z.of_nat N2 - k))%Z by lia. reflexivity.
  Qed.
  (* the masses at 0, 1, ..., N1 N2 sum to 1 *)
  Theorem udist_pmf_sum_untied :
    Qsum (map (fun k => udist_pmf N1 N2 T (inject_Z k)) (zrange 0 (Z.of_nat (N1 * N2)))) == 1.
  Proof.
    assert (HCq: ~ inject_Z (C (N1 + N2) N1) == 0) by (apply inject_Z_nonzero; exact HC).
    pose proof (Qsum_map_count (fun k => udist_pmf N1 N2 T (inject_Z k)) (fun k => untied_c N1 N2 k)
                  (inject_Z (C (N1 + N2) N1)) (zrange 0 (Z.of_nat (N1 * N2)))) as H.
    assert (Hj: forall j, udist_pmf N1 N2 T (inject_Z j) * inject_Z (C (N1 + N2) N1) == inject_Z (untied_c N1 N2 j)).
    { intros j. rewrite pmf_at_int, (count_eq_massS Nat.compare _ _ _ _ HG), <- untied_c_massS. field. exact HCq. }
    specialize (H Hj). fold (cumC N1 N2 (Z.of_nat (N1 * N2))) in H.
    rewrite cumC_cntS in H by lia.
    rewrite <- (count_le_cntS Nat.compare _ z N1 _ HG) in H.
    rewrite count_le_top in H; [|lia|rewrite Hlen; replace (N1 + N2 - N1)%nat with N2 by lia; rewrite Nat2Z.inj_mul; lia].
    rewrite Hlen in H. apply (Qmul_to_div _ _ _ HCq) in H. rewrite H. field. exact HCq.
  Qed.
End UntiedLaws.

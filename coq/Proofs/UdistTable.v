(* Proofs/UdistTable.v — the executable twin used by the correspondence check (mass_table,
   cumsum, coef, cum_at) yields exactly the counts of Spec/Ucount.v. *)
From Coq Require Import List ZArith Lia Arith Bool.
From MM Require Import Base.GEComb Spec.Ucount Proofs.Ucount Model.GEChoose Model.Udist Proofs.Udist Proofs.UdistTied.
Import ListNotations.
Open Scope Z_scope.

Lemma nth_nil {X} n (d : X) : nth n [] d = d. Proof. destruct n; reflexivity. Qed.
Lemma coef_nil v : coef [] v = 0.
Proof. unfold coef. destruct (v <? 0); [reflexivity|apply nth_nil]. Qed.

Lemma nth_padd : forall p q n, nth n (padd p q) 0 = nth n p 0 + nth n q 0.
Proof.
  induction p as [|a p IH]; intros q n; cbn [padd].
  - rewrite nth_nil. lia.
  - destruct q as [|b q]; [rewrite nth_nil; lia|]. destruct n; cbn [nth]; [reflexivity|apply IH].
Qed.
Lemma coef_padd p q v : coef (padd p q) v = coef p v + coef q v.
Proof. unfold coef. destruct (v <? 0); [reflexivity|apply nth_padd]. Qed.
Lemma coef_pscale c p v : coef (pscale c p) v = c * coef p v.
Proof.
  unfold coef, pscale. destruct (v <? 0); [lia|]. replace 0 with (c * 0) at 1 by lia. apply map_nth.
Qed.
Lemma coef_pshift k p v : coef (pshift k p) v = coef p (v - Z.of_nat k).
Proof.
  unfold pshift. destruct p as [|a p]; [now rewrite !coef_nil|]. unfold coef.
  destruct (Z.ltb_spec v 0).
  - destruct (Z.ltb_spec (v - Z.of_nat k) 0); [reflexivity|lia].
  - destruct (Z.ltb_spec (v - Z.of_nat k) 0).
    + rewrite app_nth1 by (rewrite repeat_length; lia). apply nth_repeat.
    + rewrite app_nth2 by (rewrite repeat_length; lia). rewrite repeat_length. f_equal. lia.
Qed.
Lemma coef_fold {X} (F : X -> list Z) l : forall init v,
  coef (fold_left (fun acc r => padd acc (F r)) l init) v = coef init v + zsum (fun r => coef (F r) v) l.
Proof.
  induction l as [|x l IH]; intros init v; cbn [fold_left zsum]; [lia|]. rewrite IH, coef_padd. lia.
Qed.

Lemma massS_infeasible Tr n v : (lsum Tr < n)%nat -> massS Tr n v = 0.
Proof. intros H. unfold massS. now rewrite splits_infeasible. Qed.

Lemma stepw_nonneg tK srest n r : (r <= tK)%nat -> (n - r <= srest)%nat -> (r <= n)%nat -> 0 <= stepw tK srest n r.
Proof. intros. rewrite stepw_eq. nia. Qed.

Theorem rows_massS nmax Tr : forall n v, (n <= nmax)%nat -> coef (nth n (rows nmax Tr) []) v = massS Tr n v.
Proof.
  induction Tr as [|tK rest IH]; intros n v Hn; cbn [rows].
  - destruct n as [|n]; cbn [nth].
    + unfold massS, coef. cbn [splits Nat.eqb zsum twoU weight].
      destruct (Z.ltb_spec v 0); [destruct (Z.eqb_spec 0 v); lia|].
      destruct (Z.eqb_spec 0 v) as [<-|]; [reflexivity|]. destruct (Z.to_nat v) eqn:E; [lia|]. cbn [nth]. apply nth_nil.
    + rewrite nth_repeat. rewrite coef_nil. symmetry. apply massS_infeasible. cbn; lia.
  - rewrite (nth_indep _ [] (row_step tK (lsum rest) (rows nmax rest) 0)) by (rewrite map_length, seq_length; lia).
    rewrite map_nth, seq_nth by lia. cbn [Nat.add]. unfold row_step. rewrite coef_fold, coef_nil, Z.add_0_l.
    rewrite massS_cons. apply zsum_ext_in. intros r Hr. apply in_seq in Hr.
    rewrite coef_pshift, coef_pscale, choose_C, IH by lia. f_equal.
    destruct (Nat.le_gt_cases (n - r) (lsum rest)).
    + rewrite Z2Nat.id by (apply stepw_nonneg; lia). reflexivity.
    + rewrite !massS_infeasible by lia. reflexivity.
Qed.

(* 2U of a split is never negative *)
Lemma twoU_nonneg Tr : forall r, fits Tr r -> 0 <= twoU Tr r.
Proof.
  induction Tr as [|tK rest IH]; intros r H; inversion H as [|t x Tr' rr Hx Hrr]; subst; cbn [twoU]; [lia|].
  specialize (IH rr Hrr). pose proof (fits_sum _ _ Hrr). nia.
Qed.

Lemma zsum_indicator_range x c w : 0 <= w + 1 ->
  zsum (fun v => if x =? v then c else 0) (zrange 0 w) = if (0 <=? x) && (x <=? w) then c else 0.
Proof.
  intros Hw. unfold zrange. rewrite zsum_map. replace (w - 0 + 1) with (w + 1) by lia.
  remember (Z.to_nat (w + 1)) as m eqn:Em.
  assert (Hm: w = Z.of_nat m - 1) by lia. rewrite Hm. clear Hm Hw Em.
  induction m as [|m IH].
  - cbn [seq zsum]. destruct (0 <=? x) eqn:E1; destruct (x <=? _) eqn:E2; cbn [andb]; try reflexivity.
    apply Z.leb_le in E1, E2. lia.
  - rewrite seq_S, zsum_app, IH. cbn [zsum Nat.add].
    destruct (Z.eqb_spec x (0 + Z.of_nat m)); destruct (Z.leb_spec 0 x); cbn [andb];
    destruct (Z.leb_spec x (Z.of_nat m - 1)); destruct (Z.leb_spec x (Z.of_nat (S m) - 1)); try lia.
Qed.

Theorem cntS_sum_massS Tr n w : -1 <= w -> cntS Tr n w = zsum (fun v => massS Tr n v) (zrange 0 w).
Proof.
  intros Hw. unfold massS. rewrite zsum_swap. unfold cntS. apply zsum_ext_in. intros r Hr.
  rewrite zsum_indicator_range by lia. pose proof (twoU_nonneg Tr r (splits_fits _ _ _ Hr)).
  destruct (Z.leb_spec 0 (twoU Tr r)); [|lia]. reflexivity.
Qed.
Lemma cntS_neg Tr n w : w < 0 -> cntS Tr n w = 0.
Proof.
  intros Hw. unfold cntS. apply zsum_zero_in. intros r Hr.
  pose proof (twoU_nonneg Tr r (splits_fits _ _ _ Hr)). destruct (Z.leb_spec (twoU Tr r) w); [lia|reflexivity].
Qed.

Lemma last_indep {X} (y : X) l d d' : last (y :: l) d = last (y :: l) d'.
Proof.
  revert y. induction l as [|z l IH]; intros y; [reflexivity|].
  change (last (y :: z :: l) d) with (last (z :: l) d). change (last (y :: z :: l) d') with (last (z :: l) d'). apply IH.
Qed.
Lemma last_cons {X} (x : X) l d : last (x :: l) d = last l x.
Proof. destruct l as [|y l]; [reflexivity|]. change (last (x :: y :: l) d) with (last (y :: l) d). apply last_indep. Qed.

Lemma nth_cumsum p : forall acc w,
  nth w (cumsum acc p) (last (cumsum acc p) acc) = acc + zsum (fun v => nth v p 0) (seq 0 (S w)).
Proof.
  induction p as [|a p IH]; intros acc w; cbn [cumsum].
  - rewrite nth_nil. cbn [last]. rewrite zsum_zero_in; [lia|]. intros v _. apply nth_nil.
  - rewrite last_cons. destruct w as [|w]; cbn [nth].
    + cbn. lia.
    + rewrite IH. change (seq 0 (S (S w))) with (0%nat :: seq 1 (S w)). rewrite <- seq_shift.
      cbn [zsum nth]. rewrite zsum_map. cbn [nth]. lia.
Qed.

(* the cumulative table read by the check = the number of labellings with 2U <= w, all w *)
Theorem cum_at_cntS nmax Tr n w : (n <= nmax)%nat ->
  cum_at (cumsum 0 (nth n (rows nmax Tr) [])) w = cntS Tr n w.
Proof.
  intros Hn. unfold cum_at. destruct (Z.ltb_spec w 0); [symmetry; now apply cntS_neg|].
  rewrite nth_cumsum, Z.add_0_l, cntS_sum_massS by lia. unfold zrange. rewrite zsum_map.
  replace (Z.to_nat (w - 0 + 1)) with (S (Z.to_nat w)) by lia.
  apply zsum_ext. intros v. rewrite <- (rows_massS nmax Tr n) by assumption. unfold coef.
  destruct (Z.ltb_spec (0 + Z.of_nat v) 0); [lia|]. f_equal. lia.
Qed.

Corollary table_counts_subsets {X} (cmp : X -> X -> comparison) N1 N2 T z w :
  grouped cmp (rev (eff_T N1 N2 T)) z ->
  cum_at (cumsum 0 (mass_table N1 N2 T)) w = count_le cmp z N1 w /\
  coef (mass_table N1 N2 T) w = count_eq cmp z N1 w.
Proof.
  intros Hg. unfold mass_table. split.
  - rewrite cum_at_cntS by lia. symmetry. now apply count_le_cntS.
  - rewrite rows_massS by lia. symmetry. now apply count_eq_massS.
Qed.

(* Proofs/UdistTied.v — feasible range of 2U (twoUmin/twoUmax) and the memoised recurrence with
   its three leaves: tiedA = number of labellings with 2U <= w, for every tie vector, n1, w in Z. *)
From Coq Require Import List ZArith Lia Arith Bool.
From MM Require Import Base.GEComb Spec.Ucount Proofs.Ucount Model.GEChoose Model.Udist Proofs.Udist.
Import ListNotations.
Open Scope Z_scope.

(* ---------- split formula: 2U = sum_k r_k a_k - n1^2 ---------- *)
Fixpoint lin (Tr r : list nat) : Z :=
  match Tr, r with
  | tK :: rest, rK :: rr => Z.of_nat rK * acoef tK (lsum rest) + lin rest rr
  | _, _ => 0
  end.
Theorem twoU_split_formula Tr : forall r, length r = length Tr ->
  twoU Tr r = lin Tr r - Z.of_nat (lsum r) * Z.of_nat (lsum r).
Proof.
  induction Tr as [|tK rest IH]; intros [|rK rr] H; try discriminate; cbn [twoU lin lsum]; [lia|].
  rewrite IH by (cbn in H; lia). unfold acoef. rewrite Nat2Z.inj_add. nia.
Qed.

Definition fits (Tr r : list nat) : Prop := Forall2 (fun t x => (x <= t)%nat) Tr r.
Lemma splits_fits Tr : forall n r, In r (splits Tr n) -> fits Tr r.
Proof.
  induction Tr as [|tK rest IH]; intros n r; cbn [splits].
  - destruct (n =? 0)%nat; cbn; [intros [<-|[]]; constructor | intros []].
  - rewrite in_flat_map. intros (rK & HrK & Hin). apply in_seq in HrK.
    apply in_map_iff in Hin as (rr & <- & Hrr). constructor; [lia|exact (IH _ _ Hrr)].
Qed.
Lemma fits_length Tr r : fits Tr r -> length r = length Tr.
Proof. induction 1; cbn [length]; lia. Qed.
Lemma fits_sum Tr r : fits Tr r -> (lsum r <= lsum Tr)%nat.
Proof. induction 1; cbn [lsum]; lia. Qed.

Lemma acoef_nonneg t s : 0 <= acoef t s. Proof. unfold acoef; lia. Qed.
Lemma acoef_le t rest B : 2 * Z.of_nat (lsum (t :: rest)) <= B -> acoef t (lsum rest) <= B.
Proof. unfold acoef. cbn [lsum]. lia. Qed.

(* ---------- upper bound: greedy fill from the highest rank ---------- *)
Lemma gmax_step rest : forall B m d, 2 * Z.of_nat (lsum rest) <= B ->
  gmax rest (m + d) <= gmax rest m + Z.of_nat d * B.
Proof.
  induction rest as [|t rest IH]; intros B m d HB; cbn [gmax]; [nia|].
  pose proof (acoef_le t rest B HB) as Ha. pose proof (acoef_nonneg t (lsum rest)) as Ha0.
  set (a := acoef t (lsum rest)) in *. clearbody a.
  set (g := Nat.min m t). set (g' := Nat.min (m + d) t).
  assert (He: exists e, (g' = g + e /\ e <= d)%nat) by (exists (g' - g)%nat; unfold g, g'; lia).
  destruct He as (e & He & Hed).
  replace (m + d - g')%nat with ((m - g) + (d - e))%nat by (unfold g, g' in *; lia).
  assert (HB': 2 * Z.of_nat (lsum rest) <= B) by (cbn [lsum] in HB; lia).
  pose proof (IH B (m - g)%nat (d - e)%nat HB') as H1.
  rewrite He. rewrite Nat2Z.inj_add. rewrite Nat2Z.inj_sub in H1 by lia. nia.
Qed.
Theorem gmax_upper Tr : forall r, fits Tr r -> lin Tr r <= gmax Tr (lsum r).
Proof.
  induction Tr as [|tK rest IH]; intros r H; inversion H as [|t x Tr' rr Hx Hrr]; subst; cbn [lin gmax lsum]; [lia|].
  specialize (IH rr Hrr). set (n := (x + lsum rr)%nat). set (g := Nat.min n tK).
  assert (Hg: (x <= g)%nat) by (unfold g, n; lia).
  pose proof (gmax_step rest (acoef tK (lsum rest)) (n - g) (g - x)) as Hs.
  assert (HB: 2 * Z.of_nat (lsum rest) <= acoef tK (lsum rest)) by (unfold acoef; lia). specialize (Hs HB).
  replace (n - g + (g - x))%nat with (lsum rr) in Hs by (unfold n in *; lia).
  rewrite Nat2Z.inj_sub in Hs by lia. pose proof (acoef_nonneg tK (lsum rest)). nia.
Qed.

(* ---------- lower bound: greedy fill from the lowest rank ---------- *)
(* top-down description of the same greedy: rank K only receives what does not fit below *)
Fixpoint gminD (Tr : list nat) (n : nat) : Z :=
  match Tr with
  | [] => 0
  | tK :: rest => Z.of_nat (Nat.min (n - Nat.min n (lsum rest)) tK) * acoef tK (lsum rest) + gminD rest n
  end.
Lemma gminD_cap Tr : forall n, gminD Tr n = gminD Tr (Nat.min n (lsum Tr)).
Proof.
  induction Tr as [|t rest IH]; intros n; cbn [gminD lsum]; [reflexivity|].
  rewrite (IH n), (IH (Nat.min n (t + lsum rest))). f_equal; [f_equal; f_equal; lia | f_equal; lia].
Qed.
Lemma gminD_step rest : forall B m d, 2 * Z.of_nat (lsum rest) <= B ->
  gminD rest (m + d) <= gminD rest m + Z.of_nat d * B.
Proof.
  induction rest as [|t rest IH]; intros B m d HB; cbn [gminD]; [nia|].
  pose proof (acoef_le t rest B HB) as Ha. pose proof (acoef_nonneg t (lsum rest)) as Ha0.
  set (a := acoef t (lsum rest)) in *. clearbody a. set (S := lsum rest) in *.
  assert (HB': 2 * Z.of_nat S <= B) by (cbn [lsum] in HB; fold S in HB; lia).
  rewrite (gminD_cap rest (m + d)), (gminD_cap rest m). fold S.
  set (lo := Nat.min m S). set (lo' := Nat.min (m + d) S).
  assert (He: exists e, (lo' = lo + e /\ e <= d)%nat) by (exists (lo' - lo)%nat; unfold lo, lo'; lia).
  destruct He as (e & He & Hed). rewrite He.
  pose proof (IH B lo e HB') as H1.
  assert (Htop: (Nat.min (m + d - (lo + e)) t <= Nat.min (m - lo) t + (d - e))%nat) by (unfold lo, lo' in *; lia).
  apply inj_le in Htop. rewrite Nat2Z.inj_add, Nat2Z.inj_sub in Htop by lia. nia.
Qed.
Theorem gminD_lower Tr : forall r, fits Tr r -> gminD Tr (lsum r) <= lin Tr r.
Proof.
  induction Tr as [|tK rest IH]; intros r H; inversion H as [|t x Tr' rr Hx Hrr]; subst; cbn [lin gminD lsum]; [lia|].
  specialize (IH rr Hrr). pose proof (fits_sum _ _ Hrr) as Hle.
  set (n := (x + lsum rr)%nat). set (S := lsum rest) in *. set (lo := Nat.min n S).
  assert (Hx': (n - lo <= x)%nat) by (unfold lo, n; lia).
  replace (Nat.min (n - lo) tK) with (n - lo)%nat by lia.
  rewrite (gminD_cap rest n). fold S. fold lo.
  pose proof (gminD_step rest (acoef tK S) (lsum rr) (lo - lsum rr)) as Hs.
  assert (HB: 2 * Z.of_nat (lsum rest) <= acoef tK S) by (unfold acoef, S; lia). specialize (Hs HB).
  replace (lsum rr + (lo - lsum rr))%nat with lo in Hs by (unfold lo, n in *; lia).
  assert (E: (x = (n - lo) + (lo - lsum rr))%nat) by (unfold lo, n in *; lia).
  pose proof (acoef_nonneg tK S). rewrite E at 1. rewrite Nat2Z.inj_add. nia.
Qed.

(* the ascending loop of twoUmin computes the same greedy *)
Lemma lsum_app l1 l2 : lsum (l1 ++ l2) = (lsum l1 + lsum l2)%nat.
Proof. induction l1; cbn [lsum app]; lia. Qed.
Lemma lsum_rev l : lsum (rev l) = lsum l.
Proof. induction l; cbn [rev lsum]; [reflexivity|]. rewrite lsum_app. cbn [lsum]. lia. Qed.
Lemma gmin_asc_snoc ts t : forall base n,
  gmin_asc (ts ++ [t]) base n =
  gmin_asc ts base n + Z.of_nat (Nat.min (n - Nat.min n (lsum ts)) t) * acoef t (base + lsum ts).
Proof.
  induction ts as [|t' ts IH]; intros base n; cbn [app gmin_asc lsum].
  - rewrite Nat.min_0_r, Nat.sub_0_r, Nat.add_0_r. lia.
  - rewrite IH. rewrite <- Z.add_assoc. f_equal. f_equal. f_equal; [f_equal; lia | f_equal; lia].
Qed.
Lemma gmin_asc_gminD Tr : forall n, gmin_asc (rev Tr) 0 n = gminD Tr n.
Proof.
  induction Tr as [|t rest IH]; intros n; cbn [rev gminD]; [reflexivity|].
  rewrite gmin_asc_snoc, IH, lsum_rev. cbn [Nat.add]. lia.
Qed.

Theorem twoUmax_is_upper_bound Tr n r : In r (splits Tr n) -> twoU Tr r <= twoUmax n Tr.
Proof.
  intros H. pose proof (splits_fits _ _ _ H) as Hf. pose proof (splits_sum _ _ _ H) as Hs.
  rewrite twoU_split_formula by (apply fits_length; assumption). unfold twoUmax.
  pose proof (gmax_upper Tr r Hf). rewrite Hs in *. lia.
Qed.
Theorem twoUmin_is_lower_bound Tr n r : In r (splits Tr n) -> twoUmin n Tr <= twoU Tr r.
Proof.
  intros H. pose proof (splits_fits _ _ _ H) as Hf. pose proof (splits_sum _ _ _ H) as Hs.
  rewrite twoU_split_formula by (apply fits_length; assumption). unfold twoUmin.
  rewrite gmin_asc_gminD. pose proof (gminD_lower Tr r Hf). rewrite Hs in *. lia.
Qed.

(* the two pruning leaves *)
Lemma cntS_below Tr n w : w < twoUmin n Tr -> cntS Tr n w = 0.
Proof.
  intros H. unfold cntS. apply zsum_zero_in. intros r Hr. pose proof (twoUmin_is_lower_bound _ _ _ Hr).
  destruct (Z.leb_spec (twoU Tr r) w); [lia|reflexivity].
Qed.
Lemma cntS_above Tr n w : twoUmax n Tr <= w -> cntS Tr n w = C (lsum Tr) n.
Proof.
  intros H. rewrite <- weight_sum. unfold cntS. apply zsum_ext_in. intros r Hr.
  pose proof (twoUmax_is_upper_bound _ _ _ Hr). destruct (Z.leb_spec (twoU Tr r) w); [reflexivity|lia].
Qed.

(* ---------- the memoised recurrence with its leaves = the plain recurrence ---------- *)
Definition valid_Tr (Tr : list nat) : Prop := (2 <= length Tr)%nat /\ Forall (fun t => (1 <= t)%nat) Tr.

Lemma tiedA_cons3 tK a b rest n1 w :
  tiedA (tK :: a :: b :: rest) n1 w =
  zsum (fun rk =>
          let w' := w - stepw tK (lsum (a :: b :: rest)) n1 rk in
          let n' := (n1 - rk)%nat in
          (if w' <? twoUmin n' (a :: b :: rest) then 0
           else if twoUmax n' (a :: b :: rest) <? w' then choosen (lsum (a :: b :: rest)) n'
           else tiedA (a :: b :: rest) n' w') * choosen tK rk)
       (seq (n1 - lsum (a :: b :: rest)) (Nat.min n1 tK + 1 - (n1 - lsum (a :: b :: rest)))).
Proof. reflexivity. Qed.

Theorem tiedA_is_A Tr : valid_Tr Tr -> forall n1 w, tiedA Tr n1 w = A Tr n1 w.
Proof.
  induction Tr as [|tK rest IH]; intros [Hlen Hpos] n1 w; [cbn in Hlen; lia|].
  destruct rest as [|t0 rest]; [cbn in Hlen; lia|].
  destruct rest as [|t1 rest].
  - change (tiedA [tK; t0] n1 w) with (base2 t0 tK n1 w). apply base2_is_A.
    inversion Hpos as [|? ? H1 H2]; subst. lia.
  - assert (Hv: valid_Tr (t0 :: t1 :: rest)) by (split; [cbn; lia | inversion Hpos; assumption]).
    rewrite tiedA_cons3, A_cons. set (R := t0 :: t1 :: rest) in *.
    rewrite (zsum_seq_skip _ (n1 - lsum R)).
    2:{ intros r Hr. rewrite A_infeasible by lia. lia. }
    apply zsum_ext_in. intros r Hr. apply in_seq in Hr. cbv zeta. rewrite !choose_C.
    rewrite (Z.mul_comm (C tK r)). f_equal.
    destruct (Z.ltb_spec (w - stepw tK (lsum R) n1 r) (twoUmin (n1 - r) R)) as [H1|H1].
    { rewrite A_counts_splits, cntS_below; auto. }
    destruct (Z.ltb_spec (twoUmax (n1 - r) R) (w - stepw tK (lsum R) n1 r)) as [H2|H2].
    { rewrite A_counts_splits, cntS_above by lia. reflexivity. }
    apply IH. exact Hv.
Qed.

(* C02 main theorem, tied case: for every valid tie vector (highest rank first), every n1 and
   every integer w (negative ones included), the count the (repaired) code computes is the number
   of size-n1 subsets of ANY pool with that tie structure whose 2U is at most w. *)
Theorem tied_A_counts_subsets {X} (cmp : X -> X -> comparison) Tr z n1 w :
  valid_Tr Tr -> grouped cmp Tr z -> tiedA Tr n1 w = count_le cmp z n1 w.
Proof.
  intros Hv Hg. rewrite tiedA_is_A by assumption. rewrite A_counts_splits. symmetry. now apply count_le_cntS.
Qed.

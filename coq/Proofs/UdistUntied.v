(* Proofs/UdistUntied.v — the untied path of stats/udist.go: the Mann-Whitney recurrence counts
   subsets, is symmetric in (n,m), and the float recurrence p_{n,m} (with the diagonal read through
   symmetry) is count / C(n+m,n).  Then UDist.PMF / UDist.CDF without ties, for every real u. *)
From Coq Require Import List ZArith Lia Arith Bool QArith Qround Lqa.
From MM Require Import Base.Num Base.GEComb Spec.Ucount Proofs.Ucount Model.GEChoose Model.Udist
  Proofs.Udist Proofs.UdistTied Proofs.UdistTable Proofs.UdistLaws.
Import ListNotations.
Open Scope Z_scope.

Definition ones (N : nat) : list nat := repeat 1%nat N.
Lemma lsum_ones N : lsum (ones N) = N.
Proof. induction N; cbn [ones repeat lsum] in *; [reflexivity|]. unfold ones in IHN. rewrite IHN. reflexivity. Qed.
Lemma ones_S N : ones (S N) = 1%nat :: ones N. Proof. reflexivity. Qed.

(* ---------- the integer recurrence ---------- *)
Lemma uc_0 m u : untied_c 0 m u = if u =? 0 then 1 else 0. Proof. reflexivity. Qed.
Lemma uc_n0 n u : untied_c n 0 u = if u =? 0 then 1 else 0. Proof. destruct n; reflexivity. Qed.
Lemma uc_SS n m u : untied_c (S n) (S m) u = untied_c n (S m) (u - Z.of_nat (S m)) + untied_c (S n) m u.
Proof. reflexivity. Qed.
Lemma uc_neg n : forall m u, u < 0 -> untied_c n m u = 0.
Proof.
  induction n as [|n IHn]; intros m u Hu.
  - rewrite uc_0. destruct (Z.eqb_spec u 0); [lia|reflexivity].
  - induction m as [|m IHm].
    + rewrite uc_n0. destruct (Z.eqb_spec u 0); [lia|reflexivity].
    + rewrite uc_SS, IHm, IHn by lia. reflexivity.
Qed.

Lemma massS_ones_0 N v : massS (ones N) 0 v = if v =? 0 then 1 else 0.
Proof.
  revert v. induction N as [|N IH]; intros v.
  - unfold massS. cbn [ones repeat splits Nat.eqb zsum twoU weight]. rewrite (Z.eqb_sym 0 v). destruct (v =? 0); reflexivity.
  - rewrite ones_S, massS_cons. cbn [Nat.min Nat.add seq zsum]. rewrite stepw_eq. cbn [Nat.sub].
    rewrite IH, C_n0. cbn [Z.of_nat]. rewrite Z.mul_0_l, Z.sub_0_r. lia.
Qed.
Lemma massS_ones_n n v : massS (ones n) n v = if v =? 0 then 1 else 0.
Proof.
  revert v. induction n as [|n IH]; intros v; [apply massS_ones_0|].
  rewrite ones_S, massS_cons. replace (Nat.min (S n) 1 + 1)%nat with 2%nat by lia. cbn [seq zsum].
  rewrite massS_infeasible by (rewrite lsum_ones; lia).
  replace (S n - 1)%nat with n by lia. rewrite stepw_eq, lsum_ones, IH.
  replace (v - Z.of_nat 1 * (2 * Z.of_nat n + Z.of_nat 1 - 2 * Z.of_nat (S n) + Z.of_nat 1)) with v by lia.
  change (C 1 1) with 1. lia.
Qed.
Theorem untied_c_massS n : forall m u, untied_c n m u = massS (ones (n + m)) n (2 * u).
Proof.
  induction n as [|n IHn]; intros m u.
  - rewrite uc_0, massS_ones_0. destruct (Z.eqb_spec u 0), (Z.eqb_spec (2 * u) 0); lia.
  - induction m as [|m IHm].
    + rewrite uc_n0, Nat.add_0_r, massS_ones_n. destruct (Z.eqb_spec u 0), (Z.eqb_spec (2 * u) 0); lia.
    + rewrite uc_SS, IHm, IHn.
      change (S n + S m)%nat with (S (n + S m)). rewrite ones_S, massS_cons.
      replace (Nat.min (S n) 1 + 1)%nat with 2%nat by lia. cbn [seq zsum].
      rewrite !stepw_eq, lsum_ones. rewrite C_n0. change (C 1 1) with 1.
      replace (S n - 0)%nat with (S n) by lia. replace (S n - 1)%nat with n by lia.
      replace (S n + m)%nat with (n + S m)%nat by lia.
      replace (2 * u - Z.of_nat 0 * (2 * Z.of_nat (n + S m) + Z.of_nat 1 - 2 * Z.of_nat (S n) + Z.of_nat 0)) with (2 * u) by lia.
      replace (2 * u - Z.of_nat 1 * (2 * Z.of_nat (n + S m) + Z.of_nat 1 - 2 * Z.of_nat (S n) + Z.of_nat 1))
        with (2 * (u - Z.of_nat (S m))) by lia.
      lia.
Qed.

(* C02: the Mann-Whitney recurrence counts the size-n subsets of n+m distinct values with U = u *)
Theorem untied_c_counts_subsets {X} (cmp : X -> X -> comparison) n m z u :
  grouped cmp (ones (n + m)) z -> untied_c n m u = count_eq cmp z n (2 * u).
Proof. intros Hg. rewrite untied_c_massS. symmetry. now apply count_eq_massS. Qed.

(* ---------- symmetry in (n, m): by the recurrence taken from the other end ---------- *)
Lemma uc_R2 n : forall m u, untied_c (S n) (S m) u = untied_c n (S m) u + untied_c (S n) m (u - Z.of_nat (S n)).
Proof.
  induction n as [|n IHn]; intros m; induction m as [|m IHm]; intros u.
  - rewrite !uc_SS, !uc_0, !uc_n0. lia.
  - rewrite uc_SS, (IHm u), uc_SS. rewrite !uc_0.
    rewrite (uc_SS 0 m (u - Z.of_nat 1)) || idtac.
    repeat match goal with |- context [?a =? ?b] => destruct (Z.eqb_spec a b) end; lia.
  - rewrite uc_SS. rewrite (IHn 0%nat). rewrite !uc_n0. rewrite (uc_SS n 0 u).
    rewrite !uc_n0. repeat match goal with |- context [?a =? ?b] => destruct (Z.eqb_spec a b) end; lia.
  - rewrite uc_SS. rewrite (IHn (S m)). rewrite (IHm u).
    rewrite (uc_SS n (S m) u). rewrite (uc_SS (S n) m (u - Z.of_nat (S (S n)))).
    replace (u - Z.of_nat (S (S m)) - Z.of_nat (S n)) with (u - Z.of_nat (S (S n)) - Z.of_nat (S m)) by lia.
    lia.
Qed.
Theorem untied_c_sym n : forall m u, untied_c n m u = untied_c m n u.
Proof.
  induction n as [|n IHn]; intros m u.
  - now rewrite uc_0, uc_n0.
  - induction m as [|m IHm].
    + now rewrite uc_0, uc_n0.
    + rewrite uc_SS, uc_R2. rewrite IHn, IHm. lia.
Qed.

(* ---------- the float recurrence p_{n,m}(U) = count / C(n+m, n) ---------- *)
Lemma C_sym a : forall b, C (a + b) a = C (a + b) b.
Proof.
  induction a as [|a IHa]; intros b.
  - cbn [Nat.add]. now rewrite C_n0, C_nn.
  - induction b as [|b IHb].
    + rewrite Nat.add_0_r. now rewrite C_n0, C_nn.
    + change (S a + S b)%nat with (S (a + S b)).
      change (C (S (a + S b)) (S a)) with (C (a + S b) a + C (a + S b) (S a)).
      change (C (S (a + S b)) (S b)) with (C (a + S b) b + C (a + S b) (S b)).
      rewrite (IHa (S b)). replace (a + S b)%nat with (S a + b)%nat by lia. rewrite IHb. lia.
Qed.

Local Open Scope Q_scope.
Lemma QN_nonzero n : (0 < n)%nat -> ~ QN n == 0.
Proof. intros H. apply inject_Z_nonzero. lia. Qed.
Lemma QN_Zmul_eq a X b Y : (Z.of_nat a * X = Z.of_nat b * Y)%Z -> QN a * inject_Z X == QN b * inject_Z Y.
Proof. intros H. unfold QN. rewrite <- !inject_Z_mult, H. reflexivity. Qed.

Theorem untied_p_count : forall fuel n m U, (n <= m)%nat -> (n + m < fuel)%nat ->
  untied_p fuel n m U * inject_Z (C (n + m) n) == inject_Z (untied_c n m U).
Proof.
  induction fuel as [|f IH]; intros n m U Hnm Hf; [lia|].
  destruct n as [|n'].
  - cbn [untied_p]. rewrite C_n0, uc_0. destruct (U =? 0)%Z; ring.
  - destruct m as [|m']; [lia|].
    cbn [untied_p]. set (n := S n') in *. set (m := S m') in *.
    (* left operand *)
    set (p1 := if (0 <=? U - Z.of_nat m)%Z then untied_p f n' m (U - Z.of_nat m) else 0).
    assert (Hl: (if (0 <=? U - Z.of_nat m)%Z then QN n * untied_p f n' m (U - Z.of_nat m) else 0) == QN n * p1)
      by (unfold p1; destruct (0 <=? U - Z.of_nat m)%Z; ring).
    assert (H1: p1 * inject_Z (C (n' + m) n') == inject_Z (untied_c n' m (U - Z.of_nat m))).
    { unfold p1. destruct (Z.leb_spec 0 (U - Z.of_nat m)).
      - apply IH; unfold n, m in *; lia.
      - rewrite uc_neg by lia. ring. }
    (* right operand, read through symmetry on the diagonal *)
    set (rp := if (n <=? m - 1)%nat then untied_p f n (m - 1) U else untied_p f (m - 1) n U).
    assert (H2: rp * inject_Z (C (n + m') n) == inject_Z (untied_c n m' U)).
    { unfold rp. replace (m - 1)%nat with m' by (unfold m; lia). destruct (Nat.leb_spec n m').
      - apply IH; unfold n, m in *; lia.
      - assert (m' = n') by (unfold n, m in *; lia). subst m'.
        rewrite (untied_c_sym n n' U). rewrite (C_sym n n'). replace (n + n')%nat with (n' + n)%nat by lia.
        apply IH; unfold n in *; lia. }
    rewrite Hl. clear Hl. clearbody p1 rp.
    assert (Hc: untied_c n m U = (untied_c n' m (U - Z.of_nat m) + untied_c n m' U)%Z) by reflexivity.
    rewrite Hc, inject_Z_plus, <- H1, <- H2. clear Hc.
    (* binomial identities *)
    assert (E2: (n' + m)%nat = (n + m')%nat) by (unfold n, m; lia).
    assert (HW: C (n + m) n = (C (n' + m) n' + C (n' + m) n)%Z) by reflexivity.
    assert (E3: C (n' + m) n = C (n + m') n) by (rewrite E2; reflexivity).
    rewrite E3 in HW. clear E3.
    assert (HX: (Z.of_nat n * C (n + m) n = Z.of_nat (n + m) * C (n' + m) n')%Z).
    { exact (C_absorb (n' + m) n'). }
    assert (HY: (Z.of_nat m * C (n + m) n = Z.of_nat (n + m) * C (n + m') n)%Z).
    { rewrite Nat2Z.inj_add in *. nia. }
    apply QN_Zmul_eq in HX, HY. clear HW.
    assert (Hnz: ~ QN (n + m) == 0) by (apply QN_nonzero; unfold n; lia).
    set (W := inject_Z (C (n + m) n)) in *. set (Xq := inject_Z (C (n' + m) n')) in *.
    set (Yq := inject_Z (C (n + m') n)) in *.
    setoid_replace ((QN n * p1 + QN m * rp) / QN (n + m) * W)
      with ((p1 * (QN n * W) + rp * (QN m * W)) / QN (n + m)) by (field; exact Hnz).
    rewrite HX, HY. field. exact Hnz.
Qed.

(* ---------- cumulative counts without ties ---------- *)
Local Open Scope Z_scope.
Lemma twoU_ones_even N : forall r, fits (ones N) r -> exists q, twoU (ones N) r = 2 * q.
Proof.
  induction N as [|N IH]; intros r H.
  - exists 0. destruct r; reflexivity.
  - rewrite ones_S in *. inversion H as [|t x Tr' rr Hx Hrr]; subst. destruct (IH rr Hrr) as [q Hq].
    cbn [twoU]. rewrite Hq. destruct x as [|[|x]]; [exists q; lia| |lia].
    exists (Z.of_nat (lsum (ones N)) - Z.of_nat (lsum rr) + q). lia.
Qed.
Lemma cntS_ones_odd N n k : cntS (ones N) n (2 * k + 1) = cntS (ones N) n (2 * k).
Proof.
  unfold cntS. apply zsum_ext_in. intros r Hr. destruct (twoU_ones_even N r (splits_fits _ _ _ Hr)) as [q Hq].
  rewrite Hq. destruct (Z.leb_spec (2 * q) (2 * k + 1)), (Z.leb_spec (2 * q) (2 * k)); lia.
Qed.
Lemma massS_diff Tr n w : massS Tr n w = cntS Tr n w - cntS Tr n (w - 1).
Proof.
  unfold massS, cntS. rewrite <- zsum_minus. apply zsum_ext. intros r.
  destruct (Z.eqb_spec (twoU Tr r) w), (Z.leb_spec (twoU Tr r) w), (Z.leb_spec (twoU Tr r) (w - 1)); lia.
Qed.
Definition cumC (n m : nat) (k : Z) : Z := zsum (fun j => untied_c n m j) (zrange 0 k).
Lemma cumC_cntS n m k : -1 <= k -> cumC n m k = cntS (ones (n + m)) n (2 * k).
Proof.
  intros Hk. unfold cumC, zrange. rewrite zsum_map. replace (k - 0 + 1) with (k + 1) by lia.
  remember (Z.to_nat (k + 1)) as j eqn:Ej. assert (Hj: k = Z.of_nat j - 1) by lia. rewrite Hj. clear Hj Hk Ej.
  induction j as [|j IH].
  - cbn [seq zsum]. symmetry. apply cntS_neg. lia.
  - rewrite seq_S, zsum_app, IH. cbn [zsum Nat.add]. rewrite untied_c_massS, massS_diff.
    replace (2 * (0 + Z.of_nat j) - 1) with (2 * (Z.of_nat j - 1) + 1) by lia. rewrite cntS_ones_odd.
    replace (2 * (0 + Z.of_nat j)) with (2 * (Z.of_nat (S j) - 1)) by lia. lia.
Qed.
Lemma cumC_sym n m k : cumC n m k = cumC m n k.
Proof. unfold cumC. apply zsum_ext. intros j. apply untied_c_sym. Qed.

Local Open Scope Q_scope.
Lemma Qsum_map_count (f : Z -> Q) (g : Z -> Z) d L :
  (forall j, f j * d == inject_Z (g j)) -> Qsum (map f L) * d == inject_Z (zsum g L).
Proof.
  intros H. induction L as [|a L IH]; cbn [map Qsum zsum]; [ring|].
  rewrite inject_Z_plus, <- IH, <- H. ring.
Qed.
Lemma Qmul_to_div p c d : ~ d == 0 -> p * d == c -> p == c / d.
Proof. intros Hd H. rewrite <- H. field. exact Hd. Qed.

Section Untied.
  Context {X : Type} (cmp : X -> X -> comparison).
  Variables (N1 N2 : nat) (T : list nat) (z : list X).
  Hypothesis H1 : (1 <= N1)%nat.
  Hypothesis H2 : (1 <= N2)%nat.
  Hypothesis HT : has_ties T = false.
  Hypothesis HG : grouped cmp (ones (N1 + N2)) z.

  Let N := Nat.min N1 N2.
  Let M := Nat.max N1 N2.
  Let Hlen : length z = (N1 + N2)%nat.
  Proof. rewrite (grouped_length cmp _ _ HG). apply lsum_ones. Qed.
  Let HC : (0 < C (N1 + N2) N1)%Z. Proof. apply C_pos; lia. Qed.
  Let HCq : ~ inject_Z (C (N1 + N2) N1) == 0. Proof. apply inject_Z_nonzero. exact HC. Qed.

  (* what the code's table p(U)[j] holds, in terms of the pool *)
  Lemma untied_p_top j :
    untied_p (S (N1 + N2)) N M j * inject_Z (C (N1 + N2) N1) == inject_Z (untied_c N1 N2 j).
  Proof.
    pose proof (untied_p_count (S (N1 + N2)) N M j) as Hp.
    assert (HNM: (N + M = N1 + N2)%nat) by (unfold N, M; lia).
    destruct (Nat.le_ge_cases N1 N2) as [Hle|Hge].
    - assert (N = N1) by (unfold N; lia). assert (M = N2) by (unfold M; lia).
      rewrite H, H0 in *. apply Hp; lia.
    - assert (EN: N = N2) by (unfold N; lia). assert (EM: M = N1) by (unfold M; lia).
      rewrite EN, EM in *. rewrite (untied_c_sym N1 N2 j).
      replace (C (N1 + N2) N1) with (C (N2 + N1) N2) by (rewrite (C_sym N2 N1); f_equal; lia).
      apply Hp; lia.
  Qed.

  (* PMF at the attainable points (integers): #{subsets with U = k} / C(N1+N2,N1), every k in Z *)
  Theorem udist_pmf_untied (k : Z) :
    udist_pmf N1 N2 T (inject_Z k) == inject_Z (count_eq cmp z N1 (2 * k)) / inject_Z (C (N1 + N2) N1).
  Proof.
    unfold udist_pmf. destruct (Qltb (inject_Z k) 0) eqn:E0; cbn [orb].
    - apply Qltb_true in E0. assert (k < 0)%Z by (rewrite Zlt_Qlt; exact E0).
      rewrite count_eq_diff, !count_le_neg by lia. apply qdiv0.
    - destruct (Qleb ((1 # 2) + QN (N1 * N2)) (inject_Z k)) eqn:E1.
      + apply Qleb_true in E1.
        assert (Z.of_nat (N1 * N2) < k)%Z.
        { rewrite Zlt_Qlt. unfold QN in E1. lra. }
        rewrite count_eq_diff, !count_le_top; rewrite ?Hlen; try lia;
          try (replace (N1 + N2 - N1)%nat with N2 by lia; nia).
        rewrite Z.sub_diag. apply qdiv0.
      + rewrite HT. rewrite Qfloor_Z. fold N M. apply Qmul_to_div; [exact HCq|].
        rewrite untied_p_top. now rewrite (untied_c_counts_subsets cmp N1 N2 z k HG).
  Qed.

  Hypothesis cmp_antisym : forall a b, cmp b a = CompOpp (cmp a b).

  Lemma cumC_count n m k : (n + m = N1 + N2)%nat -> (-1 <= k)%Z -> cumC n m k = count_le cmp z n (2 * k).
  Proof. intros E Hk. rewrite cumC_cntS by assumption. rewrite E. symmetry. now apply count_le_cntS. Qed.

  (* CDF(u) = #{subsets with U <= floor(u)} / C(N1+N2,N1) for every real u; the code sums the
     smaller tail and uses the symmetry of the distribution about N1*N2/2 *)
  Theorem udist_cdf_untied (u : Q) :
    udist_cdf N1 N2 T u == inject_Z (count_le cmp z N1 (2 * Qfloor u)) / inject_Z (C (N1 + N2) N1).
  Proof.
    unfold udist_cdf. destruct (Qltb u 0) eqn:E0.
    - apply Qltb_true in E0. pose proof (Qfloor_lt_int u 0 E0). rewrite count_le_neg by lia. apply qdiv0.
    - destruct (Qleb (QN (N1 * N2)) u) eqn:E1.
      + apply Qleb_true in E1. pose proof (Qfloor_ge_int u _ E1) as Hf.
        rewrite count_le_top; rewrite ?Hlen; [apply qdiv1; exact HCq|lia|].
        replace (N1 + N2 - N1)%nat with N2 by lia. nia.
      + rewrite HT. fold N M.
        assert (Hu0: (0 <= Qfloor u)%Z).
        { apply Qfloor_ge_int. destruct (Qlt_le_dec u 0) as [Hlt|Hge]; [|exact Hge].
          apply Qltb_true in Hlt. congruence. }
        assert (Hu1: (Qfloor u < Z.of_nat (N1 * N2))%Z).
        { apply Qfloor_lt_int. destruct (Qlt_le_dec u (QN (N1 * N2))) as [Hlt|Hge]; [exact Hlt|].
          apply Qleb_true in Hge. congruence. }
        set (Ui := Qfloor u) in *. set (nm := Z.of_nat (N1 * N2)) in *.
        assert (Hsum: forall k, (-1 <= k)%Z ->
                  Qsum (map (untied_p (S (N1 + N2)) N M) (zrange 0 k)) ==
                  inject_Z (count_le cmp z N1 (2 * k)) / inject_Z (C (N1 + N2) N1)).
        { intros k Hk. apply Qmul_to_div; [exact HCq|].
          rewrite (Qsum_map_count _ (untied_c N1 N2) _ _ untied_p_top).
          change (zsum (untied_c N1 N2) (zrange 0 k)) with (cumC N1 N2 k). now rewrite cumC_count by lia. }
        destruct ((nm + 1) / 2 <=? Ui)%Z.
        * rewrite Hsum by lia.
          (* mirror + symmetry: count_le (2Ui) + count_le (2(nm-Ui-1)) = C *)
          pose proof (count_le_mirror cmp z N1 (2 * Ui) cmp_antisym) as Hm.
          rewrite Hlen in Hm. specialize (Hm ltac:(lia)). replace (N1 + N2 - N1)%nat with N2 in Hm by lia.
          assert (E: count_le cmp z N2 (2 * Z.of_nat N1 * Z.of_nat N2 - 2 * Ui - 1) = count_le cmp z N1 (2 * (nm - Ui - 1))).
          { replace (2 * Z.of_nat N1 * Z.of_nat N2 - 2 * Ui - 1)%Z with (2 * (nm - Ui - 1) + 1)%Z by (unfold nm; lia).
            rewrite <- (cumC_count N1 N2) by lia. rewrite cumC_sym.
            rewrite (count_le_cntS cmp (ones (N1 + N2)) z N2 _ HG).
            replace (N1 + N2)%nat with (N2 + N1)%nat by lia. rewrite cntS_ones_odd.
            symmetry. apply cumC_cntS. lia. }
          rewrite E in Hm. rewrite Hm. unfold Z.sub. rewrite inject_Z_plus, inject_Z_opp. field. exact HCq.
        * apply Hsum. lia.
  Qed.
End Untied.

(* ---------- the untied executable twin (urows / untied_table) ---------- *)
Local Open Scope Z_scope.
Lemma urow_step_length m prev : forall left, length (urow_step m prev left) = length prev.
Proof. induction prev as [|q prev IH]; intros left; cbn [urow_step length]; [reflexivity|]. now rewrite IH. Qed.
Lemma urows_length nmax m : length (urows nmax m) = S nmax.
Proof.
  induction m as [|m IH]; cbn [urows]; [apply repeat_length|].
  destruct (urows nmax m) as [|p0 rest]; [discriminate|]. cbn [length] in *. now rewrite urow_step_length.
Qed.
Lemma urow_step_spec m' prev : forall left k,
  (forall u, coef left u = untied_c k (S m') u) ->
  (forall j u, (j < length prev)%nat -> coef (nth j prev []) u = untied_c (S k + j) m' u) ->
  forall j u, (j < length prev)%nat -> coef (nth j (urow_step (S m') prev left) []) u = untied_c (S k + j) (S m') u.
Proof.
  induction prev as [|q prev IH]; intros left k Hl Hp j u Hj; [cbn in Hj; lia|].
  cbn [urow_step]. set (p := padd q (pshift (S m') left)).
  assert (Hpq: forall u, coef p u = untied_c (S k) (S m') u).
  { intros v. unfold p. rewrite coef_padd, coef_pshift, Hl. specialize (Hp 0%nat v ltac:(cbn; lia)).
    cbn [nth] in Hp. rewrite Hp, Nat.add_0_r, uc_SS. lia. }
  destruct j as [|j]; cbn [nth].
  - rewrite Nat.add_0_r. apply Hpq.
  - replace (S k + S j)%nat with (S (S k) + j)%nat by lia. apply IH; [exact Hpq| |cbn in Hj; lia].
    intros j' v Hj'. specialize (Hp (S j') v ltac:(cbn; lia)). cbn [nth] in Hp. rewrite Hp. f_equal. lia.
Qed.
Theorem urows_spec nmax m : forall n u, (n <= nmax)%nat -> coef (nth n (urows nmax m) []) u = untied_c n m u.
Proof.
  induction m as [|m IH]; intros n u Hn.
  - cbn [urows]. rewrite (nth_indep _ [] [1]) by (rewrite repeat_length; lia). rewrite nth_repeat, uc_n0.
    unfold coef. destruct (Z.ltb_spec u 0); [destruct (Z.eqb_spec u 0); lia|].
    destruct (Z.eqb_spec u 0) as [->|]; [reflexivity|]. destruct (Z.to_nat u) eqn:E; [lia|]. cbn [nth]. apply nth_nil.
  - cbn [urows]. pose proof (urows_length nmax m) as HL.
    destruct (urows nmax m) as [|p0 rest] eqn:E; [discriminate|]. cbn [length] in HL.
    destruct n as [|n]; cbn [nth].
    + pose proof (IH 0%nat u ltac:(lia)) as H0. cbn [nth] in H0. rewrite H0. now rewrite !uc_0.
    + replace (S n) with (1 + n)%nat by lia. apply (urow_step_spec m rest p0 0%nat).
      * intros v. pose proof (IH 0%nat v ltac:(lia)) as H0. cbn [nth] in H0. rewrite H0. now rewrite !uc_0.
      * intros j v Hj. specialize (IH (S j) v ltac:(lia)). cbn [nth] in IH. exact IH.
      * lia.
Qed.

Theorem untied_table_counts_subsets {X} (cmp : X -> X -> comparison) N1 N2 z k :
  grouped cmp (ones (N1 + N2)) z ->
  coef (untied_table N1 N2) k = count_eq cmp z N1 (2 * k) /\
  cum_at (cumsum 0 (untied_table N1 N2)) k = count_le cmp z N1 (2 * k).
Proof.
  intros HG. unfold untied_table. split.
  - rewrite urows_spec by lia. now apply untied_c_counts_subsets.
  - rewrite (count_le_cntS cmp (ones (N1 + N2)) z N1 _ HG). unfold cum_at.
    destruct (Z.ltb_spec k 0); [symmetry; apply cntS_neg; lia|].
    rewrite <- cumC_cntS by lia. rewrite nth_cumsum, Z.add_0_l. unfold cumC, zrange. rewrite zsum_map.
    replace (Z.to_nat (k - 0 + 1)) with (S (Z.to_nat k)) by lia.
    apply zsum_ext. intros v. rewrite <- (urows_spec N1 N2 N1) by lia. unfold coef.
    destruct (Z.ltb_spec (0 + Z.of_nat v) 0); [lia|]. f_equal. lia.
Qed.

(* Proofs/Utest.v — the rank pass of MannWhitneyUTest: U is the pair count, T the tie vector.
   Generic in the value type; the comparison is a total preorder given as a three-way function. *)
From Coq Require Import List ZArith Lia Arith Bool Permutation Sorted QArith.
From MM Require Import Base.Num Base.GEComb Base.GESort Spec.Ucount Proofs.Ucount Model.GEChoose Model.Udist
  Model.Utest Proofs.Udist Proofs.UdistTied Proofs.UdistLaws.
Import ListNotations.
Open Scope Z_scope.

Section RankPass.
  Context {A : Type} (cmp : A -> A -> comparison).
  Hypothesis cmp_refl : forall a, cmp a a = Eq.
  Hypothesis cmp_antisym : forall a b, cmp b a = CompOpp (cmp a b).
  Hypothesis cmp_trans : forall a b c, cmp a b <> Gt -> cmp b c <> Gt -> cmp a c <> Gt.

  Definition flip (a b : A) : comparison := cmp b a.
  Notation leb := (leb cmp).

  Lemma leb_iff a b : leb a b = true <-> cmp a b <> Gt.
  Proof. unfold Utest.leb. destruct (cmp a b); split; congruence. Qed.
  Lemma leb_total a b : leb a b = true \/ leb b a = true.
  Proof. rewrite !leb_iff. rewrite (cmp_antisym a b). destruct (cmp a b); cbn; [left|left|right]; congruence. Qed.
  Lemma leb_trans a b c : leb a b = true -> leb b c = true -> leb a c = true.
  Proof. rewrite !leb_iff. apply cmp_trans. Qed.

  (* equal values compare alike against everything *)
  Lemma cmp_eq_compat a b c : cmp a b = Eq -> cmp a c = cmp b c.
  Proof.
    intros Hab. assert (Hba: cmp b a = Eq) by (rewrite cmp_antisym, Hab; reflexivity).
    destruct (cmp b c) eqn:Hbc.
    - destruct (cmp a c) eqn:Hac; [reflexivity| |].
      + exfalso. assert (Hcb: cmp c b <> Gt) by (rewrite cmp_antisym, Hbc; cbn; congruence).
        assert (Hca: cmp c a <> Gt) by (apply (cmp_trans c b a); [exact Hcb|congruence]).
        rewrite cmp_antisym, Hac in Hca. cbn in Hca. congruence.
      + exfalso. assert (H: cmp a c <> Gt) by (apply (cmp_trans a b c); congruence). congruence.
    - destruct (cmp a c) eqn:Hac; [|reflexivity|].
      + exfalso. assert (Hca: cmp c a <> Gt) by (rewrite cmp_antisym, Hac; cbn; congruence).
        assert (Hcb: cmp c b <> Gt) by (apply (cmp_trans c a b); [exact Hca|congruence]).
        rewrite cmp_antisym, Hbc in Hcb. cbn in Hcb. congruence.
      + exfalso. assert (H: cmp a c <> Gt) by (apply (cmp_trans a b c); congruence). congruence.
    - destruct (cmp a c) eqn:Hac; [| |reflexivity].
      + exfalso. assert (H: cmp b c <> Gt) by (apply (cmp_trans b a c); congruence). congruence.
      + exfalso. assert (H: cmp b c <> Gt) by (apply (cmp_trans b a c); congruence). congruence.
  Qed.
  Lemma cmp_lt_le_lt a b c : cmp a b = Lt -> cmp b c <> Gt -> cmp a c = Lt.
  Proof.
    intros Hab Hbc. destruct (cmp a c) eqn:Hac; [|reflexivity|].
    - exfalso. assert (Hca: cmp c a = Eq) by (rewrite cmp_antisym, Hac; reflexivity).
      assert (H: cmp b a <> Gt) by (apply (cmp_trans b c a); congruence).
      rewrite cmp_antisym, Hab in H. cbn in H. congruence.
    - exfalso. assert (H: cmp a c <> Gt) by (apply (cmp_trans a b c); congruence). congruence.
  Qed.

  (* ---------- labeledMerge ---------- *)
  Definition mvals (m : list (A * bool)) : list A := map fst m.
  Definition mlabs (m : list (A * bool)) : list bool := map snd m.

  Lemma sel_map_const b (l : list A) :
    sel b (mlabs (map (fun v => (v, b)) l)) (mvals (map (fun v => (v, b)) l)) = l /\
    sel (negb b) (mlabs (map (fun v => (v, b)) l)) (mvals (map (fun v => (v, b)) l)) = [].
  Proof.
    unfold mlabs, mvals. destruct b; induction l as [|a l [IH1 IH2]]; cbn [map sel fst snd negb Bool.eqb] in *; auto;
      rewrite IH1; auto.
  Qed.

  Lemma lmerge_sel : forall x1 x2,
    sel true (mlabs (lmerge cmp x1 x2)) (mvals (lmerge cmp x1 x2)) = x1 /\
    sel false (mlabs (lmerge cmp x1 x2)) (mvals (lmerge cmp x1 x2)) = x2.
  Proof.
    induction x1 as [|a x1 IH1]; intros x2.
    - destruct x2 as [|b x2]; [cbn; auto|].
      change (lmerge cmp [] (b :: x2)) with (map (fun v : A => (v, false)) (b :: x2)).
      destruct (sel_map_const false (b :: x2)) as [H1 H2]. cbn [negb] in H2. auto.
    - induction x2 as [|b x2 IH2].
      + change (lmerge cmp (a :: x1) []) with (map (fun v : A => (v, true)) (a :: x1)).
        destruct (sel_map_const true (a :: x1)) as [H1 H2]. cbn [negb] in H2. auto.
      + assert (E: lmerge cmp (a :: x1) (b :: x2) =
                   match cmp a b with Lt => (a, true) :: lmerge cmp x1 (b :: x2) | _ => (b, false) :: lmerge cmp (a :: x1) x2 end)
          by reflexivity.
        rewrite E. destruct (cmp a b); unfold mlabs, mvals in *; cbn [map fst snd sel Bool.eqb];
          try (destruct IH2 as [-> ->]; auto); destruct (IH1 (b :: x2)) as [-> ->]; auto.
  Qed.
  Lemma lmerge_perm x1 x2 : Permutation (mvals (lmerge cmp x1 x2)) (x1 ++ x2).
  Proof.
    revert x2. induction x1 as [|a x1 IH1]; intros x2.
    - destruct x2 as [|b x2]; [constructor|].
      change (lmerge cmp [] (b :: x2)) with (map (fun v : A => (v, false)) (b :: x2)).
      unfold mvals. rewrite map_map. cbn [fst app]. rewrite map_id. reflexivity.
    - induction x2 as [|b x2 IH2].
      + change (lmerge cmp (a :: x1) []) with (map (fun v : A => (v, true)) (a :: x1)).
        unfold mvals. rewrite map_map. cbn [fst]. rewrite map_id, app_nil_r. reflexivity.
      + assert (E: lmerge cmp (a :: x1) (b :: x2) =
                   match cmp a b with Lt => (a, true) :: lmerge cmp x1 (b :: x2) | _ => (b, false) :: lmerge cmp (a :: x1) x2 end)
          by reflexivity.
        rewrite E. destruct (cmp a b); unfold mvals in *; cbn [map fst].
        * rewrite IH2. apply Permutation_middle.
        * rewrite (IH1 (b :: x2)). reflexivity.
        * rewrite IH2. apply Permutation_middle.
  Qed.
  Lemma lmerge_sorted : forall x1 x2, sorted leb x1 -> sorted leb x2 -> sorted leb (mvals (lmerge cmp x1 x2)).
  Proof.
    unfold sorted. induction x1 as [|a x1 IH1]; intros x2 H1 H2.
    - destruct x2 as [|b x2]; [constructor|].
      change (lmerge cmp [] (b :: x2)) with (map (fun v : A => (v, false)) (b :: x2)).
      unfold mvals. rewrite map_map. cbn [fst]. rewrite map_id. exact H2.
    - induction x2 as [|b x2 IH2].
      + change (lmerge cmp (a :: x1) []) with (map (fun v : A => (v, true)) (a :: x1)).
        unfold mvals. rewrite map_map. cbn [fst]. rewrite map_id. exact H1.
      + assert (E: lmerge cmp (a :: x1) (b :: x2) =
                   match cmp a b with Lt => (a, true) :: lmerge cmp x1 (b :: x2) | _ => (b, false) :: lmerge cmp (a :: x1) x2 end)
          by reflexivity.
        rewrite E. inversion H1 as [|? ? Hs1 Hf1]; inversion H2 as [|? ? Hs2 Hf2]; subst.
        assert (Hcase: forall (le_ab : leb a b = true), StronglySorted (fun a0 b0 => leb a0 b0 = true) (a :: mvals (lmerge cmp x1 (b :: x2)))).
        { intros le_ab. constructor; [apply IH1; assumption|].
          eapply Permutation_Forall; [symmetry; apply lmerge_perm|]. apply Forall_app. split; [exact Hf1|].
          constructor; [exact le_ab|]. eapply Forall_impl; [|exact Hf2]. intros c Hc. eapply leb_trans; eauto. }
        assert (Hcase2: forall (le_ba : leb b a = true), StronglySorted (fun a0 b0 => leb a0 b0 = true) (b :: mvals (lmerge cmp (a :: x1) x2))).
        { intros le_ba. constructor; [apply IH2; assumption|].
          eapply Permutation_Forall; [symmetry; apply lmerge_perm|]. apply Forall_app. split; [|exact Hf2].
          constructor; [exact le_ba|]. eapply Forall_impl; [|exact Hf1]. intros c Hc. eapply leb_trans; eauto. }
        destruct (cmp a b) eqn:Hab; unfold mvals in *; cbn [map fst].
        * apply Hcase2. apply leb_iff. rewrite cmp_antisym, Hab. cbn. congruence.
        * apply Hcase. apply leb_iff. congruence.
        * apply Hcase2. apply leb_iff. rewrite cmp_antisym, Hab. cbn. congruence.
  Qed.

  (* ---------- the scan over tie groups ---------- *)
  Definition gsizes (gs : list (A * nat * nat)) : list nat := map (@gsize A) gs.
  Definition gnx1s (gs : list (A * nat * nat)) : list nat := map (@gnx1 A) gs.

  Lemma tgroups_cons v b l' :
    tgroups cmp ((v, b) :: l') =
    match tgroups cmp l' with
    | (v', g, k) :: rest => match cmp v v' with
                            | Eq => (v, S g, (k + b2n b)%nat) :: rest
                            | _ => (v, 1%nat, b2n b) :: (v', g, k) :: rest
                            end
    | [] => [(v, 1%nat, b2n b)]
    end.
  Proof. reflexivity. Qed.

  Lemma ntrue_b2n b l : ntrue (b :: l) = (b2n b + ntrue l)%nat.
  Proof. rewrite ntrue_cons. destruct b; reflexivity. Qed.

  Lemma grouped_cons_new v T z : grouped flip T z -> (forall y, In y z -> cmp v y = Lt) ->
    grouped flip (1%nat :: T) (v :: z).
  Proof.
    intros Hg Hlt. cbn [grouped]. exists [v], z. split; [reflexivity|]. split; [reflexivity|]. split; [|split].
    - intros x y Hx Hy. destruct Hx as [<-|[]]. destruct Hy as [<-|[]]. unfold flip. apply cmp_refl.
    - intros x y Hx Hy. destruct Hx as [<-|[]]. unfold flip. specialize (Hlt y Hy). split; [|exact Hlt].
      rewrite cmp_antisym, Hlt. reflexivity.
    - exact Hg.
  Qed.
  Lemma grouped_cons_join v v' t Trest z0 : grouped flip (t :: Trest) (v' :: z0) -> (1 <= t)%nat -> cmp v v' = Eq ->
    grouped flip (S t :: Trest) (v :: v' :: z0).
  Proof.
    intros Hg Ht Hc. cbn [grouped] in *. destruct Hg as (grp & z' & Hz & Hlen & Heq & Hgt & Hrest).
    assert (Hv'grp: In v' grp).
    { destruct grp as [|x grp]; [cbn in Hlen; lia|]. cbn in Hz. inversion Hz; subst. left; reflexivity. }
    assert (Hvx: forall x, In x grp -> cmp v x = Eq).
    { intros x Hx. rewrite (cmp_eq_compat v v' x Hc). apply (Heq x v' Hx Hv'grp). }
    exists (v :: grp), z'. split; [cbn; now rewrite Hz|]. split; [cbn; now rewrite Hlen|]. split; [|split].
    - intros x y Hx Hy. unfold flip. destruct Hx as [<-|Hx]; destruct Hy as [<-|Hy].
      + apply cmp_refl.
      + rewrite cmp_antisym, (Hvx y Hy). reflexivity.
      + apply Hvx. exact Hx.
      + apply (Heq x y Hx Hy).
    - intros x y Hx Hy. destruct Hx as [<-|Hx]; [|apply (Hgt x y Hx Hy)]. unfold flip.
      destruct (Hgt v' y Hv'grp Hy) as [H1 H2]. unfold flip in H1, H2. split.
      + rewrite cmp_antisym, (cmp_eq_compat v v' y Hc), <- cmp_antisym. exact H1.
      + rewrite (cmp_eq_compat v v' y Hc). exact H2.
    - exact Hrest.
  Qed.

  (* on a sorted labelled list the scan yields the tie groups (ascending): sizes T, sample-1 counts r *)
  Theorem tgroups_spec : forall m, sorted leb (mvals m) ->
    grouped flip (gsizes (tgroups cmp m)) (mvals m) /\
    gsplit (gsizes (tgroups cmp m)) (mlabs m) = gnx1s (tgroups cmp m) /\
    Forall (fun t => (1 <= t)%nat) (gsizes (tgroups cmp m)) /\
    match m with [] => tgroups cmp m = [] | (v, _) :: _ => exists g k rest, tgroups cmp m = (v, g, k) :: rest end.
  Proof.
    unfold sorted. induction m as [|[v b] m IH]; intros Hs.
    - cbn. repeat split; constructor.
    - unfold mvals in Hs. cbn [map fst] in Hs. inversion Hs as [|? ? Hs' Hf]; subst.
      destruct (IH Hs') as (Hg & Hsp & Hpos & Hhd). rewrite tgroups_cons.
      destruct m as [|[v' b'] m'].
      + rewrite Hhd. unfold gsizes, gnx1s, mvals, mlabs. cbn [map fst snd gsize gnx1 gsplit firstn skipn].
        split; [apply (grouped_cons_new v [] []); [reflexivity|intros y []]|].
        split; [rewrite ntrue_b2n; cbn; now rewrite Nat.add_0_r|].
        split; [repeat constructor|eauto].
      + destruct Hhd as (g & k & rest & E). rewrite E in *.
        assert (Hvv': cmp v v' <> Gt).
        { apply leb_iff. rewrite Forall_forall in Hf. apply Hf. left. reflexivity. }
        unfold gsizes, gnx1s, mvals, mlabs in *. cbn [map fst snd gsize gnx1] in *.
        assert (Hg1: (1 <= g)%nat) by (inversion Hpos; assumption).
        destruct (cmp v v') eqn:Hc; [| |congruence]; cbn [map fst snd gsize gnx1].
        * (* v joins the first group *)
          split; [apply (grouped_cons_join v v' g _ _ Hg Hg1 Hc)|].
          split.
          { cbn [gsplit] in *. cbn [firstn skipn]. rewrite ntrue_b2n. inversion Hsp as [[H1 H2]]. rewrite H1, H2. f_equal. lia. }
          split; [inversion Hpos; subst; constructor; [lia|assumption]|eauto].
        * (* v starts a new group: it is strictly below everything that follows *)
          split.
          { apply grouped_cons_new; [exact Hg|]. intros y Hy. apply (cmp_lt_le_lt v v' y Hc).
            destruct Hy as [<-|Hy]; [rewrite cmp_refl; congruence|].
            inversion Hs' as [|? ? _ Hf']; subst. rewrite Forall_forall in Hf'. apply leb_iff. apply Hf'. exact Hy. }
          split.
          { cbn [gsplit] in *. cbn [firstn skipn]. rewrite ntrue_b2n. unfold ntrue at 1. cbn [filter length].
            rewrite Nat.add_0_r. f_equal. exact Hsp. }
          split; [constructor; [lia|assumption]|eauto].
  Qed.

  (* ---------- rank sum ---------- *)
  Lemma rank_sum2_lin : forall gs i,
    rank_sum2 gs i = (2 * (Z.of_nat i + Z.of_nat (lsum (gsizes gs))) + 1) * Z.of_nat (lsum (gnx1s gs))
                     - lin (gsizes gs) (gnx1s gs).
  Proof.
    induction gs as [|x gs IH]; intros i; cbn [rank_sum2 gsizes gnx1s map lsum lin]; [lia|].
    fold (gsizes gs). fold (gnx1s gs). rewrite IH. unfold acoef.
    set (g := gsize x). set (k := gnx1 x). set (S' := lsum (gsizes gs)). set (K' := lsum (gnx1s gs)).
    set (L := lin (gsizes gs) (gnx1s gs)).
    assert (E: (if (k =? 0)%nat then 0 else (Z.of_nat (i + g) + Z.of_nat (i + 1)) * Z.of_nat k)
               = (2 * Z.of_nat i + Z.of_nat g + 1) * Z.of_nat k).
    { destruct (Nat.eqb_spec k 0) as [->|]; [cbn; lia|]. rewrite !Nat2Z.inj_add. cbn [Z.of_nat]. lia. }
    rewrite E. rewrite !Nat2Z.inj_add. nia.
  Qed.

  Lemma zsum_perm {X} (f : X -> Z) l l' : Permutation l l' -> zsum f l = zsum f l'.
  Proof. induction 1; cbn [zsum]; lia. Qed.
  Lemma twoU_pairs_perm (c : A -> A -> comparison) x1 x1' x2 x2' :
    Permutation x1 x1' -> Permutation x2 x2' -> twoU_pairs c x1 x2 = twoU_pairs c x1' x2'.
  Proof.
    intros H1 H2. unfold twoU_pairs. rewrite (zsum_perm _ _ _ H1). apply zsum_ext. intros a. apply zsum_perm. exact H2.
  Qed.
  Lemma twoU_pairs_flip s1 s2 : twoU_pairs flip s1 s2 = twoU_pairs cmp s2 s1.
  Proof. unfold twoU_pairs. rewrite zsum_swap. reflexivity. Qed.

  Definition merged (x1 x2 : list A) : list (A * bool) := lmerge cmp (msort cmp x1) (msort cmp x2).

  Lemma merged_sorted x1 x2 : sorted leb (mvals (merged x1 x2)).
  Proof. apply lmerge_sorted; apply isort_sorted; first [exact leb_total | exact leb_trans]. Qed.
  Lemma merged_lengths x1 x2 :
    length (mlabs (merged x1 x2)) = length (mvals (merged x1 x2)) /\
    length (mvals (merged x1 x2)) = (length x1 + length x2)%nat.
  Proof.
    unfold mlabs, mvals. rewrite !map_length. split; [reflexivity|].
    rewrite <- (map_length fst). fold (mvals (merged x1 x2)). unfold merged.
    rewrite (Permutation_length (lmerge_perm _ _)), app_length. unfold msort. now rewrite !isort_length.
  Qed.

  (* C01: U1 = R1 - n1(n1+1)/2 computed from average ranks is the pair count:
     2*U1 = 2*#{(a,b) : a > b} + #{(a,b) : a = b} *)
  Theorem mw_U_is_pair_count x1 x2 : ms_twoU (mw_stat cmp x1 x2) = twoU_pairs cmp x1 x2.
  Proof.
    unfold mw_stat. cbn [ms_twoU]. fold (merged x1 x2).
    set (m := merged x1 x2). set (gs := tgroups cmp m).
    destruct (tgroups_spec m (merged_sorted x1 x2)) as (Hg & Hsp & Hpos & _). fold gs in Hg, Hsp, Hpos.
    destruct (merged_lengths x1 x2) as [HL1 HL2]. fold m in HL1, HL2.
    pose proof (grouped_length flip _ _ Hg) as HN.
    assert (Hlab: length (mlabs m) = lsum (gsizes gs)) by lia.
    pose proof (twoU_lab_split flip (gsizes gs) (mvals m) (mlabs m) Hg Hlab) as HU. rewrite Hsp in HU.
    assert (Hlenk: length (gnx1s gs) = length (gsizes gs)) by (unfold gnx1s, gsizes; now rewrite !map_length).
    rewrite (twoU_split_formula _ _ Hlenk) in HU.
    pose proof (gsplit_sum (gsizes gs) (mlabs m) Hlab) as Hk. rewrite Hsp in Hk.
    destruct (lmerge_sel (msort cmp x1) (msort cmp x2)) as [S1 S2]. fold (merged x1 x2) in S1, S2. fold m in S1, S2.
    unfold twoU_lab in HU. rewrite S1, S2, twoU_pairs_flip in HU.
    rewrite (twoU_pairs_swap cmp cmp_antisym (msort cmp x1) (msort cmp x2)) in HU.
    assert (Hn1: ntrue (mlabs m) = length x1).
    { rewrite <- (sel_true_length (mlabs m) (mvals m) HL1), S1. unfold msort. apply isort_length. }
    unfold msort in HU. rewrite !isort_length in HU.
    rewrite (twoU_pairs_perm cmp (isort leb x1) x1 (isort leb x2) x2) in HU
      by (symmetry; apply isort_perm).
    rewrite rank_sum2_lin. rewrite Hk, Hn1 in *. rewrite <- HN, HL2. rewrite Nat2Z.inj_add. cbn [Z.of_nat]. nia.
  Qed.
End RankPass.

(* Proofs/UtestLaws.v — laws of MannWhitneyUTest at every size (C03): errors, invariance under
   reordering and strictly increasing maps, swapping the samples, ranges, the normal approximation. *)
From Coq Require Import List ZArith Lia Arith Bool Permutation Sorted QArith Qround Lqa.
From MM Require Import Base.Num Base.GEComb Base.GESort Spec.Ucount Proofs.Ucount Model.GEChoose Model.Udist
  Model.Utest Proofs.Udist Proofs.UdistTied Proofs.UdistTable Proofs.UdistLaws Proofs.UdistUntied Proofs.UdistCor
  Proofs.Utest Proofs.UtestP.
Import ListNotations.
Open Scope Z_scope.

(* ---------- strictly increasing maps: the code only compares ---------- *)
Section Mono.
  Context {A B : Type} (cmpA : A -> A -> comparison) (cmpB : B -> B -> comparison) (f : A -> B).
  Hypothesis f_mono : forall a b, cmpB (f a) (f b) = cmpA a b.

  Lemma leb_map a b : leb cmpB (f a) (f b) = leb cmpA a b.
  Proof. unfold leb. now rewrite f_mono. Qed.
  Lemma msort_map l : msort cmpB (map f l) = map f (msort cmpA l).
  Proof. unfold msort. apply isort_map. exact leb_map. Qed.
  Definition fl (p : A * bool) : B * bool := (f (fst p), snd p).
  Lemma lmerge_map : forall x1 x2, lmerge cmpB (map f x1) (map f x2) = map fl (lmerge cmpA x1 x2).
  Proof.
    induction x1 as [|a x1 IH1]; intros x2.
    - destruct x2 as [|b x2]; [reflexivity|].
      change (lmerge cmpB (map f []) (map f (b :: x2))) with (map (fun v : B => (v, false)) (map f (b :: x2))).
      change (lmerge cmpA [] (b :: x2)) with (map (fun v : A => (v, false)) (b :: x2)).
      rewrite !map_map. reflexivity.
    - induction x2 as [|b x2 IH2].
      + change (lmerge cmpB (map f (a :: x1)) (map f [])) with (map (fun v : B => (v, true)) (map f (a :: x1))).
        change (lmerge cmpA (a :: x1) []) with (map (fun v : A => (v, true)) (a :: x1)).
        rewrite !map_map. reflexivity.
      + assert (EA: lmerge cmpA (a :: x1) (b :: x2) =
                   match cmpA a b with Lt => (a, true) :: lmerge cmpA x1 (b :: x2) | _ => (b, false) :: lmerge cmpA (a :: x1) x2 end)
          by reflexivity.
        assert (EB: lmerge cmpB (map f (a :: x1)) (map f (b :: x2)) =
                   match cmpB (f a) (f b) with Lt => (f a, true) :: lmerge cmpB (map f x1) (map f (b :: x2))
                                          | _ => (f b, false) :: lmerge cmpB (map f (a :: x1)) (map f x2) end)
          by reflexivity.
        rewrite EA, EB, f_mono. destruct (cmpA a b); rewrite ?IH2, ?(IH1 (b :: x2)); reflexivity.
  Qed.
  Definition fg (x : A * nat * nat) : B * nat * nat := (f (fst (fst x)), snd (fst x), snd x).
  Lemma tgroups_map : forall m, tgroups cmpB (map fl m) = map fg (tgroups cmpA m).
  Proof.
    induction m as [|[v b] m IH]; [reflexivity|].
    cbn [map]. unfold fl at 1. cbn [fst snd]. rewrite (tgroups_cons cmpB), (tgroups_cons cmpA), IH.
    destruct (tgroups cmpA m) as [|[[v' g] k] rest]; [reflexivity|].
    cbn [map]. unfold fg at 1. cbn [fst snd]. rewrite f_mono. destruct (cmpA v v'); reflexivity.
  Qed.
  Lemma rank_sum2_map gs : forall i, rank_sum2 (map fg gs) i = rank_sum2 gs i.
  Proof. induction gs as [|x gs IH]; intros i; cbn [map rank_sum2]; [reflexivity|]. rewrite IH. reflexivity. Qed.
  Lemma gsize_map gs : map (@gsize B) (map fg gs) = map (@gsize A) gs.
  Proof. rewrite map_map. reflexivity. Qed.

  Theorem mw_stat_map x1 x2 : mw_stat cmpB (map f x1) (map f x2) = mw_stat cmpA x1 x2.
  Proof.
    unfold mw_stat. rewrite !msort_map, lmerge_map, tgroups_map, gsize_map, rank_sum2_map, !map_length. reflexivity.
  Qed.
  (* C03: applying one strictly increasing map to all values changes nothing *)
  Theorem mw_mono_invariant cdf EL TL x1 x2 alt :
    mw_test cmpB cdf EL TL (map f x1) (map f x2) alt = mw_test cmpA cdf EL TL x1 x2 alt.
  Proof.
    unfold mw_test. rewrite mw_stat_map. destruct x1, x2; reflexivity.
  Qed.
End Mono.

(* ---------- reordering ---------- *)
Section Perm.
  Context {A : Type} (cmp : A -> A -> comparison).
  Hypothesis cmp_refl : forall a, cmp a a = Eq.
  Hypothesis cmp_antisym : forall a b, cmp b a = CompOpp (cmp a b).
  Hypothesis cmp_trans : forall a b c, cmp a b <> Gt -> cmp b c <> Gt -> cmp a c <> Gt.
  (* values that compare equal are the same value (true of Z, of canonical rationals, and of the
     exactly decoded float64 values the check feeds in, where +0 and -0 decode to the same 0) *)
  Hypothesis cmp_eq : forall a b, cmp a b = Eq -> a = b.

  Lemma leb_antisym a b : leb cmp a b = true -> leb cmp b a = true -> a = b.
  Proof.
    intros H1 H2. apply cmp_eq. apply leb_iff in H1, H2. rewrite (cmp_antisym a b) in H2.
    destruct (cmp a b); cbn in *; congruence.
  Qed.
  Lemma msort_perm l l' : Permutation l l' -> msort cmp l = msort cmp l'.
  Proof.
    unfold msort. apply isort_perm_eq.
    - apply leb_total; assumption.
    - apply leb_trans; assumption.
    - exact leb_antisym.
  Qed.
  Lemma is_nil_perm (l l' : list A) : Permutation l l' -> is_nil l = is_nil l'.
  Proof. intros H. apply Permutation_length in H. destruct l, l'; cbn in *; congruence. Qed.

  (* C03: the result does not depend on the order of either sample *)
  Theorem mw_perm_invariant cdf EL TL x1 x1' x2 x2' alt :
    Permutation x1 x1' -> Permutation x2 x2' ->
    mw_test cmp cdf EL TL x1' x2' alt = mw_test cmp cdf EL TL x1 x2 alt.
  Proof.
    intros H1 H2. unfold mw_test, mw_stat.
    rewrite (msort_perm _ _ H1), (msort_perm _ _ H2), (Permutation_length H1), (Permutation_length H2),
            (is_nil_perm _ _ H1), (is_nil_perm _ _ H2). reflexivity.
  Qed.
End Perm.

(* ---------- errors ---------- *)
Lemma mw_finish_not_size cdf EL TL s alt : mw_finish cdf EL TL s alt <> MWErrSize.
Proof.
  unfold mw_finish. destruct (use_exact _ _ _ _ _).
  - destruct (_ =? _)%nat; discriminate.
  - destruct (Qeqb _ _); discriminate.
Qed.
(* C03: ErrSampleSize exactly when a sample is empty *)
Theorem mw_err_size_iff {A} (cmp : A -> A -> comparison) cdf EL TL x1 x2 alt :
  mw_test cmp cdf EL TL x1 x2 alt = MWErrSize <-> (x1 = [] \/ x2 = []).
Proof.
  unfold mw_test, mw_test_s. split.
  - destruct x1; [auto|]. destruct x2; [auto|]. cbn [is_nil orb]. intros H. now apply mw_finish_not_size in H.
  - intros [-> | ->]; [reflexivity|]. destruct x1; reflexivity.
Qed.

Local Open Scope Z_scope.
Definition cubes (T : list nat) : Z := zsum (fun t => Z.of_nat t * Z.of_nat t * Z.of_nat t) T.
Lemma cubes_le T : Forall (fun t => (1 <= t)%nat) T ->
  cubes T <= Z.of_nat (lsum T) * Z.of_nat (lsum T) * Z.of_nat (lsum T) /\
  ((2 <= length T)%nat -> cubes T < Z.of_nat (lsum T) * Z.of_nat (lsum T) * Z.of_nat (lsum T)).
Proof.
  induction 1 as [|t T Ht HT [IH1 IH2]]; cbn [cubes zsum lsum length]; [split; [lia|intros; lia]|].
  fold (cubes T). rewrite Nat2Z.inj_add. set (a := Z.of_nat t) in *. set (S := Z.of_nat (lsum T)) in *.
  assert (Ha: 1 <= a) by (unfold a; lia). assert (HS: 0 <= S) by (unfold S; lia).
  split; [nia|]. intros HL.
  assert (HS1: 1 <= S).
  { destruct T as [|t' T']; [cbn in HL; lia|]. inversion HT; subst. unfold S. cbn [lsum]. lia. }
  nia.
Qed.
Lemma tie_correction_cubes T : tie_correction T = cubes T - Z.of_nat (lsum T).
Proof.
  unfold tie_correction, cubes. induction T as [|t T IH]; cbn [zsum lsum]; [reflexivity|].
  rewrite IH, Nat2Z.inj_add. lia.
Qed.

Local Open Scope Q_scope.
(* sigma_U^2 in closed form: n1 n2 (N^3 - sum t^3) / (12 N (N-1)) *)
Lemma sigma2_closed n1 n2 T : lsum T = (n1 + n2)%nat -> (2 <= n1 + n2)%nat ->
  sigma2 n1 n2 T ==
  inject_Z (Z.of_nat (n1 * n2) * (Z.of_nat (n1 + n2) * Z.of_nat (n1 + n2) * Z.of_nat (n1 + n2) - cubes T))
  / inject_Z (12 * (Z.of_nat (n1 + n2) * (Z.of_nat (n1 + n2) - 1))).
Proof.
  intros Hs HN. unfold sigma2. rewrite tie_correction_cubes, Hs. unfold QN.
  set (N := Z.of_nat (n1 + n2)). set (P := Z.of_nat (n1 * n2)). set (K := cubes T).
  assert (HD: ~ inject_Z N == 0) by (apply inject_Z_nonzero; unfold N; lia).
  assert (HD2: ~ inject_Z (N - 1) == 0) by (apply inject_Z_nonzero; unfold N; lia).
  unfold Z.sub in *.
  repeat (rewrite inject_Z_mult in * || rewrite inject_Z_plus in * || rewrite inject_Z_opp in * ).
  change (inject_Z 12) with 12 in *. change (inject_Z 1) with 1 in *. change (inject_Z (-(1))) with (-(1)) in *.
  field. repeat split; assumption.
Qed.
Theorem sigma2_zero_iff n1 n2 T : (1 <= n1)%nat -> (1 <= n2)%nat -> Forall (fun t => (1 <= t)%nat) T ->
  lsum T = (n1 + n2)%nat -> (sigma2 n1 n2 T == 0 <-> length T = 1%nat) /\ 0 <= sigma2 n1 n2 T.
Proof.
  intros H1 H2 Hpos Hs. rewrite sigma2_closed by (try assumption; lia).
  destruct (cubes_le T Hpos) as [Hle Hlt]. rewrite Hs in *.
  set (N := Z.of_nat (n1 + n2)) in *. set (P := Z.of_nat (n1 * n2)). set (K := cubes T) in *.
  assert (HP: (0 < P)%Z) by (unfold P; nia).
  assert (HD: (0 < 12 * (N * (N - 1)))%Z) by (unfold N; nia).
  assert (Hnum: (0 <= P * (N * N * N - K))%Z) by nia.
  split.
  - split.
    + intros E. apply (Qmult_inj_r _ _ (inject_Z (12 * (N * (N - 1))))) in E; [|apply inject_Z_nonzero; exact HD].
      unfold Qdiv in E. rewrite <- Qmult_assoc, (Qmult_comm (/ _)), Qmult_inv_r, Qmult_1_r, Qmult_0_l in E
        by (apply inject_Z_nonzero; exact HD).
      change 0 with (inject_Z 0) in E. apply (proj1 (inject_Z_injective _ _)) in E || (unfold Qeq in E; cbn in E).
      assert (EK: (K = N * N * N)%Z) by nia.
      destruct T as [|t [|t' T']]; cbn [length] in *; [cbn in Hs; lia|reflexivity|].
      specialize (Hlt ltac:(lia)). lia.
    + intros HL. destruct T as [|t [|t' T']]; cbn [length] in HL; try lia.
      unfold K, cubes. cbn [zsum]. cbn [lsum] in Hs. rewrite Nat.add_0_r in Hs. subst t. fold N.
      replace (P * (N * N * N - (N * N * N + 0)))%Z with 0%Z by ring. unfold Qdiv. now rewrite Qmult_0_l.
  - unfold Qdiv. apply Qmult_le_0_compat.
    + change 0 with (inject_Z 0). rewrite <- Zle_Qle. exact Hnum.
    + apply Qinv_le_0_compat. change 0 with (inject_Z 0). rewrite <- Zle_Qle. lia.
Qed.

Local Open Scope Z_scope.
Section Laws.
  Context {A : Type} (cmp : A -> A -> comparison).
  Hypothesis cmp_refl : forall a, cmp a a = Eq.
  Hypothesis cmp_antisym : forall a b, cmp b a = CompOpp (cmp a b).
  Hypothesis cmp_trans : forall a b c, cmp a b <> Gt -> cmp b c <> Gt -> cmp a c <> Gt.

  Definition all_equal (l : list A) : Prop := forall a b, In a l -> In b l -> cmp a b = Eq.

  (* one tie group <-> all pooled values are equal *)
  Lemma one_group_iff x1 x2 : x1 <> [] -> x2 <> [] ->
    (length (ms_T (mw_stat cmp x1 x2)) = 1%nat <-> all_equal (x1 ++ x2)).
  Proof.
    intros H1 H2. destruct (mw_T_is_tie_vector cmp cmp_refl cmp_antisym cmp_trans x1 x2) as (Hg & Hp & _ & Hpos & Hsum & _).
    set (T := ms_T (mw_stat cmp x1 x2)) in *. set (z := mvals (merged cmp x1 x2)) in *. split.
    - intros HL. destruct T as [|t [|t' T']]; cbn [length] in HL; try lia.
      cbn [grouped] in Hg. destruct Hg as (g & z' & Hz & _ & Heq & _ & Hz'). subst z'. rewrite app_nil_r in Hz.
      intros a b Ha Hb. apply (Permutation_in _ (Permutation_sym Hp)) in Ha, Hb. rewrite Hz in Ha, Hb.
      specialize (Heq b a Hb Ha). exact Heq.
    - intros Hall. destruct T as [|t [|t' T']]; cbn [length]; [|reflexivity|exfalso].
      + cbn in Hsum. destruct x1; [congruence|cbn in Hsum; lia].
      + cbn [grouped] in Hg. destruct Hg as (g & z' & Hz & Hlen & _ & Hgt & (g' & z'' & Hz' & Hlen' & _)).
        inversion Hpos as [|? ? Ht Hpos']; inversion Hpos' as [|? ? Ht' _]; subst.
        destruct g as [|x g]; [cbn in Ht; lia|]. destruct g' as [|y g']; [cbn in Ht'; lia|].
        destruct (Hgt x y (or_introl eq_refl) (or_introl eq_refl)) as [Hxy _]. unfold flip in Hxy.
        assert (Hx: In x (x1 ++ x2)) by (apply (Permutation_in _ Hp); rewrite Hz; left; reflexivity).
        assert (Hy: In y (x1 ++ x2)) by (apply (Permutation_in _ Hp); rewrite Hz; apply in_or_app; right; left; reflexivity).
        rewrite (Hall y x Hy Hx) in Hxy. discriminate.
  Qed.

  (* C03: ErrSamplesEqual exactly when all pooled values are equal — in both branches *)
  Theorem mw_err_equal_iff cdf EL TL x1 x2 alt : x1 <> [] -> x2 <> [] ->
    (mw_test cmp cdf EL TL x1 x2 alt = MWErrEqual <-> all_equal (x1 ++ x2)).
  Proof.
    intros H1 H2. rewrite <- (one_group_iff x1 x2 H1 H2).
    destruct (mw_T_is_tie_vector cmp cmp_refl cmp_antisym cmp_trans x1 x2) as (_ & _ & _ & Hpos & Hsum & _).
    unfold mw_test, mw_test_s. destruct x1 as [|a x1]; [congruence|]. destruct x2 as [|b x2]; [congruence|].
    cbn [is_nil orb]. unfold mw_finish. set (s := mw_stat cmp (a :: x1) (b :: x2)) in *.
    change (ms_n1 s) with (length (a :: x1)). change (ms_n2 s) with (length (b :: x2)).
    destruct (use_exact _ _ _ _ _).
    - destruct (Nat.eqb_spec (length (ms_T s)) 1); split; intros H; try discriminate; auto; contradiction.
    - destruct (sigma2_zero_iff (length (a :: x1)) (length (b :: x2)) (ms_T s)) as [Hz _];
        [cbn; lia|cbn; lia|exact Hpos|exact Hsum|].
      unfold Qeqb. destruct (Qeq_bool (sigma2 (length (a :: x1)) (length (b :: x2)) (ms_T s)) 0) eqn:E.
      + apply Qeq_bool_iff in E. split; [intros _; now apply Hz|reflexivity].
      + split; [discriminate|]. intros HL. apply Hz in HL. apply Qeq_bool_iff in HL. congruence.
  Qed.

  (* ---------- swapping the samples ---------- *)
  Hypothesis cmp_eq : forall a b, cmp a b = Eq -> a = b.

  Definition gkey (x : A * nat * nat) : A * nat := fst x.
  Lemma tgroups_keys : forall m m', mvals m = mvals m' -> map gkey (tgroups cmp m) = map gkey (tgroups cmp m').
  Proof.
    induction m as [|[v b] m IH]; intros [|[v' b'] m'] H; try discriminate; [reflexivity|].
    unfold mvals in H. cbn [map fst] in H. inversion H; subst v'. rewrite !tgroups_cons.
    specialize (IH m' H2).
    destruct (tgroups cmp m) as [|[[w g] k] rest], (tgroups cmp m') as [|[[w' g'] k'] rest']; try discriminate IH; [reflexivity|].
    cbn [map gkey fst] in IH. inversion IH; subst. destruct (cmp v w'); cbn [map gkey fst]; congruence.
  Qed.
  Lemma gsizes_keys gs gs' : map gkey gs = map gkey gs' -> gsizes gs = gsizes gs'.
  Proof.
    intros H. unfold gsizes. assert (E: forall l, map (@gsize A) l = map snd (map gkey l)) by (intros; rewrite map_map; reflexivity).
    rewrite !E, H. reflexivity.
  Qed.

  Lemma merged_vals_swap x1 x2 : mvals (merged cmp x2 x1) = mvals (merged cmp x1 x2).
  Proof.
    apply (sorted_unique (leb cmp)).
    - apply leb_antisym; assumption.
    - apply merged_sorted; assumption.
    - apply merged_sorted; assumption.
    - unfold merged. rewrite !lmerge_perm. apply Permutation_app_comm.
  Qed.

  Theorem mw_swap_stat x1 x2 :
    let s := mw_stat cmp x1 x2 in
    mw_stat cmp x2 x1 = mkStat (ms_n2 s) (ms_n1 s) (ms_T s) (ms_ties s)
                               (2 * Z.of_nat (ms_n1 s) * Z.of_nat (ms_n2 s) - ms_twoU s).
  Proof.
    intros s.
    assert (ET: ms_T (mw_stat cmp x2 x1) = ms_T s).
    { apply gsizes_keys, tgroups_keys, merged_vals_swap. }
    assert (EU: ms_twoU (mw_stat cmp x2 x1) = 2 * Z.of_nat (ms_n1 s) * Z.of_nat (ms_n2 s) - ms_twoU s).
    { unfold s. rewrite !(mw_U_is_pair_count cmp cmp_refl cmp_antisym cmp_trans).
      rewrite (twoU_pairs_swap cmp cmp_antisym x1 x2). reflexivity. }
    change (mw_stat cmp x2 x1) with (mkStat (length x2) (length x1) (ms_T (mw_stat cmp x2 x1))
                                           (has_ties (ms_T (mw_stat cmp x2 x1))) (ms_twoU (mw_stat cmp x2 x1))).
    rewrite ET, EU. reflexivity.
  Qed.
End Laws.

(* the pieces of the result under the swap *)
Lemma use_exact_swap ties n1 n2 EL TL : use_exact ties n2 n1 EL TL = use_exact ties n1 n2 EL TL.
Proof. unfold use_exact. destruct ties; cbn [negb andb orb]; rewrite ?orb_false_r; apply andb_comm. Qed.
Lemma sigma2_swap n1 n2 T : sigma2 n2 n1 T = sigma2 n1 n2 T.
Proof. unfold sigma2. now rewrite (Nat.mul_comm n2 n1), (Nat.add_comm n2 n1). Qed.
(* continuity-corrected numerator: negated, with Less and Greater exchanged *)
Lemma numer2_swap n1 n2 tu alt : (alt = -1 \/ alt = 0 \/ alt = 1) ->
  numer2 n2 n1 (2 * Z.of_nat n1 * Z.of_nat n2 - tu) alt = - numer2 n1 n2 tu (- alt).
Proof.
  intros H. unfold numer2. rewrite (Nat.mul_comm n2 n1), Nat2Z.inj_mul.
  destruct H as [->|[->| ->]]; cbn [Z.eqb Z.ltb Z.opp Z.compare]; lia.
Qed.

Section SwapTails.
  Context {A : Type} (cmp : A -> A -> comparison).
  Hypothesis cmp_refl : forall a, cmp a a = Eq.
  Hypothesis cmp_antisym : forall a b, cmp b a = CompOpp (cmp a b).
  Hypothesis cmp_trans : forall a b c, cmp a b <> Gt -> cmp b c <> Gt -> cmp a c <> Gt.
  Hypothesis cmp_eq : forall a b, cmp a b = Eq -> a = b.
  Variables x1 x2 : list A.
  Hypothesis Hx1 : x1 <> [].
  Hypothesis Hx2 : x2 <> [].
  Let s := mw_stat cmp x1 x2.
  Let n1 := length x1.
  Let n2 := length x2.
  Let T := ms_T s.
  Let tu := ms_twoU s.
  Hypothesis HK : length T <> 1%nat.

  Lemma pool_swap : pool cmp x2 x1 = pool cmp x1 x2.
  Proof. unfold pool. now rewrite (merged_vals_swap cmp cmp_antisym cmp_trans cmp_eq). Qed.
  Lemma pool_length : length (pool cmp x1 x2) = (n1 + n2)%nat.
  Proof. unfold pool. rewrite rev_length. apply (merged_lengths cmp x1 x2). Qed.

  Let swap_eq := mw_swap_stat cmp cmp_refl cmp_antisym cmp_trans cmp_eq x1 x2.

  (* C03: swapping the samples exchanges the LocationLess and LocationGreater p-values (exact branch) *)
  Theorem mw_swap_less_greater :
    (mw_exact_p (udist_cdf n2 n1 T) n2 n1 (2 * Z.of_nat n1 * Z.of_nat n2 - tu) (-1) ==
     mw_exact_p (udist_cdf n1 n2 T) n1 n2 tu 1)%Q.
  Proof.
    pose proof (mw_less_is_perm_tail cmp cmp_refl cmp_antisym cmp_trans x2 x1 Hx2 Hx1) as HL.
    cbv zeta in swap_eq. rewrite swap_eq in HL. cbn [ms_T ms_twoU] in HL. specialize (HL HK).
    rewrite pool_swap in HL.
    eapply Qeq_trans; [exact HL|]. symmetry.
    eapply Qeq_trans; [exact (mw_greater_is_perm_tail cmp cmp_refl cmp_antisym cmp_trans x1 x2 Hx1 Hx2 HK)|].
    pose proof (count_le_mirror cmp (pool cmp x1 x2) n2 (2 * Z.of_nat n1 * Z.of_nat n2 - tu) cmp_antisym) as Hm.
    rewrite pool_length in Hm. specialize (Hm ltac:(lia)). replace (n1 + n2 - n2)%nat with n1 in Hm by lia.
    replace (2 * Z.of_nat n2 * Z.of_nat n1 - (2 * Z.of_nat n1 * Z.of_nat n2 - tu) - 1) with (tu - 1) in Hm by lia.
    rewrite <- (C_sym n1 n2) in Hm.
    assert (EC: C (n1 + n2) n1 = C (n2 + n1) n2) by (rewrite (Nat.add_comm n2 n1); apply C_sym).
    match goal with |- (inject_Z ?X / inject_Z ?C1 == inject_Z ?Y / inject_Z ?C2)%Q =>
      replace Y with X by (symmetry; exact Hm); replace C2 with C1 by (exact EC) end.
    reflexivity.
  Qed.
  Theorem mw_swap_greater_less :
    (mw_exact_p (udist_cdf n2 n1 T) n2 n1 (2 * Z.of_nat n1 * Z.of_nat n2 - tu) 1 ==
     mw_exact_p (udist_cdf n1 n2 T) n1 n2 tu (-1))%Q.
  Proof.
    pose proof (mw_greater_is_perm_tail cmp cmp_refl cmp_antisym cmp_trans x2 x1 Hx2 Hx1) as HL.
    cbv zeta in swap_eq. rewrite swap_eq in HL. cbn [ms_T ms_twoU] in HL. specialize (HL HK).
    rewrite pool_swap in HL.
    eapply Qeq_trans; [exact HL|]. symmetry.
    eapply Qeq_trans; [exact (mw_less_is_perm_tail cmp cmp_refl cmp_antisym cmp_trans x1 x2 Hx1 Hx2 HK)|].
    pose proof (count_le_mirror cmp (pool cmp x1 x2) n1 tu cmp_antisym) as Hm.
    rewrite pool_length in Hm. specialize (Hm ltac:(lia)). replace (n1 + n2 - n1)%nat with n2 in Hm by lia.
    assert (EC: C (n1 + n2) n1 = C (n2 + n1) n2) by (rewrite (Nat.add_comm n2 n1); apply C_sym).
    rewrite EC in Hm.
    match goal with |- (inject_Z ?X / inject_Z ?C1 == inject_Z ?Y / inject_Z ?C2)%Q =>
      replace Y with X by (exact Hm); replace C2 with C1 by (exact EC) end.
    reflexivity.
  Qed.

End SwapTails.

Section RangeExact.
  Context {A : Type} (cmp : A -> A -> comparison).
  Hypothesis cmp_refl : forall a, cmp a a = Eq.
  Hypothesis cmp_antisym : forall a b, cmp b a = CompOpp (cmp a b).
  Hypothesis cmp_trans : forall a b c, cmp a b <> Gt -> cmp b c <> Gt -> cmp a c <> Gt.
  Variables x1 x2 : list A.
  Hypothesis Hx1 : x1 <> [].
  Hypothesis Hx2 : x2 <> [].
  Let s := mw_stat cmp x1 x2.
  Let n1 := length x1.
  Let n2 := length x2.
  Let T := ms_T s.
  Let tu := ms_twoU s.
  Hypothesis HK : length T <> 1%nat.
  Let pool_length : length (pool cmp x1 x2) = (n1 + n2)%nat.
  Proof. unfold pool. rewrite rev_length. apply (merged_lengths cmp x1 x2). Qed.

  (* C03: the one-sided exact p-values are probabilities *)
  Theorem mw_exact_P_range alt : alt = -1 \/ alt = 1 ->
    (0 <= mw_exact_p (udist_cdf n1 n2 T) n1 n2 tu alt <= 1)%Q.
  Proof.
    assert (Hn1: (1 <= n1)%nat) by (unfold n1; destruct x1; [congruence|cbn; lia]).
    assert (HC: 0 < C (n1 + n2) n1) by (apply C_pos; lia).
    assert (Hb: forall w, 0 <= count_le cmp (pool cmp x1 x2) n1 w <= C (n1 + n2) n1).
    { intros w. split; [apply count_le_nonneg|].
      rewrite <- pool_length. rewrite <- (count_le_top cmp (pool cmp x1 x2) n1 (Z.max w (2 * Z.of_nat n1 * Z.of_nat (length (pool cmp x1 x2) - n1))));
        [apply count_le_mono; lia|rewrite pool_length; lia|lia]. }
    assert (Hq: forall c, 0 <= c <= C (n1 + n2) n1 -> (0 <= inject_Z c / inject_Z (C (n1 + n2) n1) <= 1)%Q).
    { intros c [Hc0 Hc1]. split.
      - apply (Qle_trans _ (inject_Z 0 / inject_Z (C (n1 + n2) n1))); [rewrite <- qdiv0; apply Qle_refl|].
        apply qdiv_le; assumption.
      - apply (Qle_trans _ (inject_Z (C (n1 + n2) n1) / inject_Z (C (n1 + n2) n1))); [apply qdiv_le; assumption|].
        rewrite <- qdiv1 by (apply inject_Z_nonzero; exact HC). apply Qle_refl. }
    assert (Hr: forall p r : Q, (p == r)%Q -> (0 <= r <= 1)%Q -> (0 <= p <= 1)%Q) by (intros p r E [? ?]; rewrite E; split; assumption).
    intros [-> | ->].
    - refine (Hr _ _ (mw_less_is_perm_tail cmp cmp_refl cmp_antisym cmp_trans x1 x2 Hx1 Hx2 HK) _). apply Hq, Hb.
    - refine (Hr _ _ (mw_greater_is_perm_tail cmp cmp_refl cmp_antisym cmp_trans x1 x2 Hx1 Hx2 HK) _). apply Hq.
      specialize (Hb (tu - 1)). fold n1 n2. fold s. fold tu. lia.
  Qed.
End RangeExact.


(* ---------- the normal approximation ---------- *)
(* what MannWhitneyUTest returns above the limits: U (pair count), the continuity-corrected numerator and
   sigma^2 of the statement; z = (num2/2)/sqrt(sig2), p from Phi(z) by [mw_approx_p] *)
Theorem mw_approx_result {A} (cmp : A -> A -> comparison) :
  (forall a, cmp a a = Eq) -> (forall a b, cmp b a = CompOpp (cmp a b)) ->
  (forall a b c, cmp a b <> Gt -> cmp b c <> Gt -> cmp a c <> Gt) ->
  forall (cdf : nat -> nat -> list nat -> Q -> Q) EL TL x1 x2 alt,
  x1 <> [] -> x2 <> [] ->
  let s := mw_stat cmp x1 x2 in
  use_exact (ms_ties s) (length x1) (length x2) EL TL = false -> length (ms_T s) <> 1%nat ->
  mw_test cmp cdf EL TL x1 x2 alt =
  MWApprox (length x1) (length x2) (twoU_pairs cmp x1 x2)
           (numer2 (length x1) (length x2) (twoU_pairs cmp x1 x2) alt) (sigma2 (length x1) (length x2) (ms_T s))
  /\ (0 < sigma2 (length x1) (length x2) (ms_T s))%Q.
Proof.
  intros Hr Ha Ht cdf EL TL x1 x2 alt H1 H2 s He HK.
  destruct (mw_T_is_tie_vector cmp Hr Ha Ht x1 x2) as (_ & _ & _ & Hpos & Hsum & _). fold s in Hpos, Hsum.
  assert (Hl1: (1 <= length x1)%nat) by (destruct x1; [congruence|cbn; lia]).
  assert (Hl2: (1 <= length x2)%nat) by (destruct x2; [congruence|cbn; lia]).
  destruct (sigma2_zero_iff (length x1) (length x2) (ms_T s) Hl1 Hl2 Hpos Hsum) as [Hz Hnn].
  assert (Hs2: ~ (sigma2 (length x1) (length x2) (ms_T s) == 0)%Q) by (intros E; apply Hz in E; contradiction).
  split.
  - unfold mw_test, mw_test_s. destruct x1 as [|a x1]; [congruence|]. destruct x2 as [|b x2]; [congruence|].
    cbn [is_nil orb]. unfold mw_finish. fold s.
    change (ms_n1 s) with (length (a :: x1)). change (ms_n2 s) with (length (b :: x2)).
    rewrite He. unfold Qeqb. destruct (Qeq_bool _ 0) eqn:E; [apply Qeq_bool_iff in E; contradiction|].
    unfold s. rewrite (mw_U_is_pair_count cmp Hr Ha Ht). reflexivity.
  - apply Qle_lteq in Hnn as [Hlt|Heq]; [exact Hlt|]. symmetry in Heq. contradiction.
Qed.

(* the continuity correction of the statement: U+0.5 (lower tail), U-0.5 (upper tail), |U-mean|-0.5 two-sided *)
Theorem numer2_textbook n1 n2 tu :
  let d := tu - Z.of_nat (n1 * n2) in                      (* 2 (U - n1 n2 / 2) *)
  numer2 n1 n2 tu (-1) = d + 1 /\ numer2 n1 n2 tu 1 = d - 1 /\
  Z.abs (numer2 n1 n2 tu 0) = Z.max 0 (Z.abs d - 1) /\ (d <> 0 -> Z.sgn (numer2 n1 n2 tu 0) = Z.sgn d \/ numer2 n1 n2 tu 0 = 0).
Proof.
  unfold numer2. cbn [Z.eqb Z.ltb Z.compare]. set (d := tu - Z.of_nat (n1 * n2)). cbv zeta.
  split; [reflexivity|]. split; [reflexivity|].
  destruct (Z.sgn_spec d) as [[Hd ->]|[[Hd ->]|[Hd ->]]]; split; lia.
Qed.

(* C03: the approximate p-value is a probability whenever Phi is (oracle-instantiation hypothesis) *)
Theorem mw_approx_P_range phi alt : (0 <= phi <= 1)%Q -> (0 <= mw_approx_p phi alt <= 1)%Q.
Proof.
  intros [H0 H1]. unfold mw_approx_p. destruct (alt =? 0); [|destruct (alt <? 0); split; lra].
  unfold Qminb. destruct (Qle_bool phi (1 - phi)) eqn:E.
  - apply Qle_bool_iff in E. split; lra.
  - assert (~ (phi <= 1 - phi)%Q) by (intros H; apply Qle_bool_iff in H; congruence). split; lra.
Qed.
(* C03: in the normal branch swapping preserves the two-sided value and exchanges the one-sided ones,
   for every Phi with Phi(-z) = 1 - Phi(z): the swapped numerator is the negated one (numer2_swap) *)
Theorem mw_approx_swap (phi_z phi_mz : Q) alt : (phi_mz == 1 - phi_z)%Q -> alt = -1 \/ alt = 0 \/ alt = 1 ->
  (mw_approx_p phi_mz alt == mw_approx_p phi_z (- alt))%Q.
Proof.
  intros H [->|[->| ->]]; unfold mw_approx_p; cbn [Z.eqb Z.ltb Z.opp Z.compare]; try lra.
  unfold Qminb. destruct (Qle_bool phi_mz (1 - phi_mz)) eqn:E1, (Qle_bool phi_z (1 - phi_z)) eqn:E2;
    try apply Qle_bool_iff in E1; try apply Qle_bool_iff in E2; try lra.
  assert (~ (phi_z <= 1 - phi_z)%Q) by (intros H'; apply Qle_bool_iff in H'; congruence).
  assert (~ (phi_mz <= 1 - phi_mz)%Q) by (intros H'; apply Qle_bool_iff in H'; congruence). lra.
Qed.

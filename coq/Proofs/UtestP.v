(* Proofs/UtestP.v — the exact branch of MannWhitneyUTest: T is the tie vector of the pool and the
   one-sided p-values are the exact permutation tails (built on the counting theorems of C02). *)
From Coq Require Import List ZArith Lia Arith Bool Permutation Sorted QArith Qround Lqa.
From MM Require Import Base.Num Base.GEComb Base.GESort Spec.Ucount Proofs.Ucount Model.GEChoose Model.Udist
  Model.Utest Proofs.Udist Proofs.UdistTied Proofs.UdistTable Proofs.UdistLaws Proofs.UdistUntied Proofs.UdistCor Proofs.Utest.
Import ListNotations.
Open Scope Z_scope.

(* appending a lowest group / reversing a grouped pool *)
Lemma grouped_snoc {X} (c : X -> X -> comparison) Tr : forall z g,
  grouped c Tr z -> (forall x y, In x g -> In y g -> c x y = Eq) ->
  (forall x y, In x z -> In y g -> c x y = Gt /\ c y x = Lt) ->
  grouped c (Tr ++ [length g]) (z ++ g).
Proof.
  induction Tr as [|t rest IH]; intros z g Hg Heq Hgt; cbn [grouped app] in *.
  - subst z. exists g, []. rewrite app_nil_r. split; [reflexivity|]. split; [reflexivity|]. split; [exact Heq|].
    split; [|reflexivity]. intros x0 y0 _ [].
  - destruct Hg as (g0 & z' & -> & Hlen & Heq0 & Hgt0 & Hrest).
    exists g0, (z' ++ g). rewrite app_assoc. split; [reflexivity|]. split; [exact Hlen|]. split; [exact Heq0|]. split.
    + intros x y Hx Hy. apply in_app_or in Hy as [Hy|Hy]; [apply Hgt0; assumption|].
      apply Hgt; [apply in_or_app; left; exact Hx|exact Hy].
    + apply IH; [exact Hrest|exact Heq|]. intros x y Hx Hy. apply Hgt; [apply in_or_app; right; exact Hx|exact Hy].
Qed.
Lemma grouped_rev {X} (c : X -> X -> comparison) Ta : forall z,
  grouped (fun a b => c b a) Ta z -> grouped c (rev Ta) (rev z).
Proof.
  induction Ta as [|t rest IH]; intros z Hg; cbn [grouped rev] in *.
  - subst. reflexivity.
  - destruct Hg as (g & z' & -> & Hlen & Heq & Hgt & Hrest). rewrite rev_app_distr.
    rewrite <- Hlen, <- (rev_length g). apply grouped_snoc.
    + apply IH. exact Hrest.
    + intros x y Hx Hy. apply in_rev in Hx, Hy. apply (Heq y x Hy Hx).
    + intros x y Hx Hy. apply in_rev in Hx, Hy. destruct (Hgt y x Hy Hx) as [H1 H2]. split; assumption.
Qed.

Lemma no_ties_ones T : Forall (fun t => (1 <= t)%nat) T -> has_ties T = false -> T = ones (length T).
Proof.
  induction 1 as [|t T Ht _ IH]; cbn [has_ties existsb length]; [reflexivity|].
  intros H. apply orb_false_iff in H as [H1 H2]. apply Nat.ltb_ge in H1.
  rewrite ones_S. f_equal; [lia|]. apply IH. exact H2.
Qed.
Lemma rev_ones N : rev (ones N) = ones N.
Proof.
  unfold ones. induction N as [|N IH]; [reflexivity|]. cbn [repeat rev]. rewrite IH.
  clear IH. induction N as [|N IH]; [reflexivity|]. cbn [repeat app]. now rewrite IH.
Qed.

Section ExactBranch.
  Context {A : Type} (cmp : A -> A -> comparison).
  Hypothesis cmp_refl : forall a, cmp a a = Eq.
  Hypothesis cmp_antisym : forall a b, cmp b a = CompOpp (cmp a b).
  Hypothesis cmp_trans : forall a b c, cmp a b <> Gt -> cmp b c <> Gt -> cmp a c <> Gt.
  Variables x1 x2 : list A.
  Hypothesis Hx1 : x1 <> [].
  Hypothesis Hx2 : x2 <> [].

  Let s := mw_stat cmp x1 x2.
  Let n1 := length x1.
  Let n2 := length x2.
  Let T := ms_T s.
  (* the pooled values, from the largest down *)
  Definition pool : list A := rev (mvals (merged cmp x1 x2)).

  Let Hn1 : (1 <= n1)%nat. Proof. unfold n1. destruct x1; [congruence|cbn; lia]. Qed.
  Let Hn2 : (1 <= n2)%nat. Proof. unfold n2. destruct x2; [congruence|cbn; lia]. Qed.

  Lemma stat_T : T = gsizes (tgroups cmp (merged cmp x1 x2)).
  Proof. reflexivity. Qed.

  (* C01: T lists the multiplicities of the distinct pooled values in ascending order *)
  Theorem mw_T_is_tie_vector :
    grouped (flip cmp) T (mvals (merged cmp x1 x2)) /\
    Permutation (mvals (merged cmp x1 x2)) (x1 ++ x2) /\
    sorted (leb cmp) (mvals (merged cmp x1 x2)) /\
    Forall (fun t => (1 <= t)%nat) T /\ lsum T = (n1 + n2)%nat /\ ms_ties s = has_ties T.
  Proof.
    pose proof (merged_sorted cmp cmp_antisym cmp_trans x1 x2) as Hs.
    destruct (tgroups_spec cmp cmp_refl cmp_antisym cmp_trans _ Hs) as (Hg & _ & Hpos & _).
    split; [exact Hg|]. split.
    { unfold merged. rewrite lmerge_perm. unfold msort. rewrite <- !isort_perm. reflexivity. }
    split; [exact Hs|]. split; [exact Hpos|]. split; [|reflexivity].
    change (lsum (gsizes (tgroups cmp (merged cmp x1 x2))) = (length x1 + length x2)%nat).
    rewrite <- (grouped_length _ _ _ Hg). apply (merged_lengths cmp x1 x2).
  Qed.

  Lemma pool_grouped : grouped cmp (rev T) pool.
  Proof. apply (grouped_rev cmp). apply mw_T_is_tie_vector. Qed.

  Hypothesis HK : length T <> 1%nat.

  Lemma stat_valid : valid_T n1 n2 T.
  Proof.
    destruct mw_T_is_tie_vector as (_ & _ & _ & Hpos & Hsum & _).
    split; [exact Hn1|]. split; [exact Hn2|]. split; [|split; assumption].
    destruct T as [|t [|t' T']] eqn:E; cbn [length] in *; try lia. cbn in Hsum. lia.
  Qed.

  Let Ctot := C (n1 + n2) n1.

  (* UDist{n1,n2,T}.CDF at a half-integer point w/2 = #{relabellings with 2U' <= w} / C(N,n1) *)
  Lemma cdf_half_int (u : Q) (w : Z) : (u == half w)%Q ->
    (udist_cdf n1 n2 T u == inject_Z (count_le cmp pool n1 w) / inject_Z Ctot)%Q.
  Proof.
    intros Hu. destruct (has_ties T) eqn:HT.
    - rewrite (udist_cdf_tied cmp n1 n2 T pool stat_valid HT pool_grouped).
      assert (E: Qfloor (2 * u) = w).
      { rewrite Hu. unfold half, Qmult, Qfloor. cbn [Qnum Qden]. rewrite Z.mul_comm.
        change (Z.pos (1 * 2)) with 2. apply Z.div_mul. lia. }
      rewrite E. reflexivity.
    - destruct mw_T_is_tie_vector as (_ & _ & _ & Hpos & Hsum & _).
      pose proof (no_ties_ones T Hpos HT) as Eo.
      assert (EN: length T = (n1 + n2)%nat).
      { rewrite <- Hsum. transitivity (lsum (ones (length T))); [now rewrite lsum_ones | now rewrite <- Eo]. }
      assert (ER: rev T = ones (n1 + n2)) by (rewrite Eo, rev_ones, EN; reflexivity).
      assert (HG: grouped cmp (ones (n1 + n2)) pool) by (rewrite <- ER; apply pool_grouped).
      rewrite (udist_cdf_untied cmp n1 n2 T pool Hn1 Hn2 HT HG cmp_antisym).
      assert (E: count_le cmp pool n1 (2 * Qfloor u) = count_le cmp pool n1 w).
      { rewrite Hu. unfold half, Qfloor. cbn [Qnum Qden].
        rewrite !(count_le_cntS cmp (ones (n1 + n2)) pool n1 _ HG).
        pose proof (Z.div_mod w 2 ltac:(lia)) as Hd. pose proof (Z.mod_pos_bound w 2 ltac:(lia)) as Hm.
        destruct (Z.eq_dec (w mod 2) 0) as [E0|E1].
        - f_equal. lia.
        - replace w with (2 * (w / 2) + 1) at 2 by lia. now rewrite cntS_ones_odd. }
      rewrite E. reflexivity.
  Qed.

  Let tu := ms_twoU s.
  (* C01: P(LocationLess) = Pr[U' <= U] over all C(n1+n2,n1) relabellings of the pooled values *)
  Theorem mw_less_is_perm_tail :
    (mw_exact_p (udist_cdf n1 n2 T) n1 n2 tu (-1) == inject_Z (count_le cmp pool n1 tu) / inject_Z Ctot)%Q.
  Proof. unfold mw_exact_p. cbn [Z.eqb Z.ltb Z.compare]. apply cdf_half_int. reflexivity. Qed.

  (* C01: P(LocationGreater) = Pr[U' >= U] (repaired code: 1 - CDF(U - 0.5)) *)
  Theorem mw_greater_is_perm_tail :
    (mw_exact_p (udist_cdf n1 n2 T) n1 n2 tu 1 ==
     inject_Z (Ctot - count_le cmp pool n1 (tu - 1)) / inject_Z Ctot)%Q.
  Proof.
    unfold mw_exact_p. cbn [Z.eqb Z.ltb Z.compare].
    rewrite (cdf_half_int (half tu - (1 # 2)) (tu - 1)).
    - assert (HCq: ~ (inject_Z Ctot == 0)%Q) by (apply inject_Z_nonzero; apply C_pos; lia).
      unfold Z.sub. rewrite inject_Z_plus, inject_Z_opp. field. exact HCq.
    - unfold half, Qeq, Qminus, Qplus, Qopp. cbn [Qnum Qden]. lia.
  Qed.

  (* and U itself is the pair count *)
  Theorem mw_tu_pairs : tu = twoU_pairs cmp x1 x2.
  Proof. apply (mw_U_is_pair_count cmp cmp_refl cmp_antisym cmp_trans). Qed.
End ExactBranch.

(* D2: the two-sided exact value of the code differs from the specified one *)
Theorem mw_two_sided_refuted : exists x1 x2 : list Z,
  match mw_test Z.compare udist_cdf 50 25 x1 x2 0 with
  | MWExact _ _ _ p pspec => ~ (p == pspec)%Q
  | _ => False
  end.
Proof. exists [2; 1; 3; 5], [1; 1; 1; 1; 1]. vm_compute. intros H. discriminate H. Qed.

(* what MannWhitneyUTest returns on the exact branch, for every alternative *)
Theorem mw_exact_result {A} (cmp : A -> A -> comparison) :
  (forall a, cmp a a = Eq) -> (forall a b, cmp b a = CompOpp (cmp a b)) ->
  (forall a b c, cmp a b <> Gt -> cmp b c <> Gt -> cmp a c <> Gt) ->
  forall (cdf : nat -> nat -> list nat -> Q -> Q) EL TL x1 x2 alt,
  x1 <> [] -> x2 <> [] ->
  let s := mw_stat cmp x1 x2 in
  use_exact (ms_ties s) (length x1) (length x2) EL TL = true -> length (ms_T s) <> 1%nat ->
  mw_test cmp cdf EL TL x1 x2 alt =
  MWExact (length x1) (length x2) (twoU_pairs cmp x1 x2)
          (mw_exact_p (cdf (length x1) (length x2) (ms_T s)) (length x1) (length x2) (twoU_pairs cmp x1 x2) alt)
          (mw_spec_p (cdf (length x1) (length x2) (ms_T s)) (length x1) (length x2) (twoU_pairs cmp x1 x2) alt).
Proof.
  intros Hr Ha Ht cdf EL TL x1 x2 alt H1 H2 s He HK.
  unfold mw_test, mw_test_s. destruct x1 as [|a x1]; [congruence|]. destruct x2 as [|b x2]; [congruence|].
  cbn [is_nil orb]. unfold mw_finish. fold s.
  change (ms_n1 s) with (length (a :: x1)). change (ms_n2 s) with (length (b :: x2)).
  rewrite He. destruct (Nat.eqb_spec (length (ms_T s)) 1); [contradiction|].
  unfold s. rewrite (mw_U_is_pair_count cmp Hr Ha Ht). reflexivity.
Qed.

(* Z.compare is an instance of the comparison hypotheses (non-vacuity) *)
Lemma Zcmp_refl : forall a, Z.compare a a = Eq. Proof. exact Z.compare_refl. Qed.
Lemma Zcmp_antisym : forall a b, Z.compare b a = CompOpp (Z.compare a b). Proof. intros. apply Z.compare_antisym. Qed.
Lemma Zcmp_trans : forall a b c, Z.compare a b <> Gt -> Z.compare b c <> Gt -> Z.compare a c <> Gt.
Proof. intros a b c. exact (Z.le_trans a b c). Qed.
(* so is Qcompare, the instance the correspondence check runs *)
Lemma Qcmp_refl : forall a, Qcompare a a = Eq. Proof. intros. apply Qeq_alt. reflexivity. Qed.
Lemma Qcmp_antisym : forall a b, Qcompare b a = CompOpp (Qcompare a b). Proof. intros. symmetry. apply Qcompare_antisym. Qed.
Lemma Qcmp_trans : forall a b c, Qcompare a b <> Gt -> Qcompare b c <> Gt -> Qcompare a c <> Gt.
Proof. intros a b c H1 H2. apply Qle_alt in H1, H2. apply Qle_alt. eapply Qle_trans; eauto. Qed.

(* Proofs/UtestSym.v (group hD) — symmetry of the exact null distribution of U for a palindromic tie
   vector, and what follows for the two-sided exact p-value of MannWhitneyUTest:

   1. the subset counts depend on the pool only as a multiset (any arrangement of the pooled values
      gives the same counts): [count_le_perm];
   2. reversing the order (flip cmp) maps 2U to 2 n1 n2 - 2U: [count_le_flip];
   3. hence, for a pool whose tie vector reads the same in both directions (T = rev T, in particular
      no ties), #{2U' <= w} = C - #{2U' <= 2 n1 n2 - w - 1}: the null distribution is symmetric about
      n1 n2 / 2: [count_le_palin], [count_eq_palin];
   4. hence the legacy two-sided value of the code, 2 CDF(min(U1,U2)) (1 when U1 = U2), equals the
      specified min(1, 2 min(Pr[U' <= U], Pr[U' >= U])) whenever T is palindromic:
      [mw_two_sided_symmetric].  Finding D2 is therefore confined to non-palindromic tie vectors. *)
From Coq Require Import List ZArith Lia Arith Bool Permutation Sorted QArith Qround Lqa.
From MM Require Import Base.Num Base.GEComb Base.GESort Spec.Ucount Proofs.Ucount Model.GEChoose Model.Udist
  Model.Utest Proofs.Udist Proofs.UdistTied Proofs.UdistTable Proofs.UdistLaws Proofs.UdistUntied Proofs.UdistCor
  Proofs.Utest Proofs.UtestP.
Import ListNotations.
Open Scope Z_scope.

(* ---------- 1. the counts do not depend on the arrangement of the pool ---------- *)
Section PoolPerm.
  Context {X : Type} (cmp : X -> X -> comparison).
  Variable g : Z -> Z.

  (* sum over the labellings of z, with the values already dealt to the two samples in a1, a2 *)
  Definition accF (z : list X) (n : nat) (a1 a2 : list X) : Z :=
    zsum (fun l => g (twoU_pairs cmp (a1 ++ sel true l z) (a2 ++ sel false l z))) (labs (length z) n).

  Lemma accF_cons x z n a1 a2 :
    accF (x :: z) n a1 a2 =
    (match n with O => 0 | S n' => accF z n' (a1 ++ [x]) a2 end) + accF z n a1 (a2 ++ [x]).
  Proof.
    unfold accF. cbn [length labs]. rewrite zsum_app, !zsum_map. f_equal.
    - destruct n as [|n']; [reflexivity|]. rewrite zsum_map. apply zsum_ext. intros l.
      cbn [sel Bool.eqb]. rewrite <- app_assoc. reflexivity.
    - apply zsum_ext. intros l. cbn [sel Bool.eqb]. rewrite <- app_assoc. reflexivity.
  Qed.

  Lemma accF_acc_perm z n a1 a1' a2 a2' : Permutation a1 a1' -> Permutation a2 a2' ->
    accF z n a1 a2 = accF z n a1' a2'.
  Proof.
    intros H1 H2. unfold accF. apply zsum_ext. intros l. f_equal.
    apply twoU_pairs_perm; apply Permutation_app_tail; assumption.
  Qed.

  Theorem accF_perm z z' : Permutation z z' -> forall n a1 a2, accF z n a1 a2 = accF z' n a1 a2.
  Proof.
    induction 1 as [|x z z' Hp IH|x y z|z z' z'' H1 IH1 H2 IH2]; intros n a1 a2.
    - reflexivity.
    - rewrite !accF_cons. destruct n; rewrite ?IH; reflexivity.
    - assert (P1: Permutation ((a1 ++ [y]) ++ [x]) ((a1 ++ [x]) ++ [y])).
      { rewrite <- !app_assoc. apply Permutation_app_head. apply perm_swap. }
      assert (P2: Permutation ((a2 ++ [y]) ++ [x]) ((a2 ++ [x]) ++ [y])).
      { rewrite <- !app_assoc. apply Permutation_app_head. apply perm_swap. }
      destruct n as [|[|n]]; rewrite !accF_cons;
        rewrite (accF_acc_perm z _ a1 a1 _ _ (Permutation_refl _) P2); try lia.
      rewrite (accF_acc_perm z n _ _ a2 a2 P1 (Permutation_refl _)). lia.
    - rewrite IH1. apply IH2.
  Qed.
End PoolPerm.

Theorem count_le_perm {X} (cmp : X -> X -> comparison) z z' n w :
  Permutation z z' -> count_le cmp z n w = count_le cmp z' n w.
Proof. intros H. exact (accF_perm cmp (fun v => ind (v <=? w)) z z' H n [] []). Qed.
Theorem count_eq_perm {X} (cmp : X -> X -> comparison) z z' n w :
  Permutation z z' -> count_eq cmp z n w = count_eq cmp z' n w.
Proof. intros H. exact (accF_perm cmp (fun v => ind (v =? w)) z z' H n [] []). Qed.

(* ---------- 2. reversing the order ---------- *)
Section Flip.
  Context {X : Type} (cmp : X -> X -> comparison).
  Hypothesis cmp_antisym : forall a b, cmp b a = CompOpp (cmp a b).

  Lemma twoU_lab_flip z l : length l = length z ->
    twoU_lab (flip cmp) z l = 2 * Z.of_nat (ntrue l) * Z.of_nat (nfalse l) - twoU_lab cmp z l.
  Proof.
    intros H. unfold twoU_lab. rewrite twoU_pairs_flip, (twoU_pairs_swap cmp cmp_antisym).
    rewrite sel_true_length, sel_false_length by assumption. reflexivity.
  Qed.

  Theorem count_le_flip z n w : (n <= length z)%nat ->
    count_le (flip cmp) z n w = C (length z) n - count_le cmp z n (2 * Z.of_nat n * Z.of_nat (length z - n) - w - 1).
  Proof.
    intros Hn. rewrite <- labs_count. unfold count_le. rewrite <- zsum_minus. apply zsum_ext_in. intros l Hl.
    apply labs_spec in Hl as [Hl Hn1]. rewrite (twoU_lab_flip z l Hl). pose proof (ntrue_nfalse l).
    replace (nfalse l) with (length z - n)%nat by lia. rewrite Hn1. unfold ind.
    destruct (Z.leb_spec (2 * Z.of_nat n * Z.of_nat (length z - n) - twoU_lab cmp z l) w),
             (Z.leb_spec (twoU_lab cmp z l) (2 * Z.of_nat n * Z.of_nat (length z - n) - w - 1)); lia.
  Qed.

  (* ---------- 3. palindromic tie vector: the distribution of U is symmetric ---------- *)
  Theorem count_le_palin Tr z n w : grouped cmp Tr z -> rev Tr = Tr -> (n <= length z)%nat ->
    count_le cmp z n w = C (length z) n - count_le cmp z n (2 * Z.of_nat n * Z.of_nat (length z - n) - w - 1).
  Proof.
    intros Hg Hpal Hn.
    assert (Hg': grouped (flip cmp) (rev Tr) (rev z)).
    { apply (grouped_rev (flip cmp) Tr z). exact Hg. }
    rewrite (count_le_cntS cmp Tr z n w Hg), <- Hpal, <- (count_le_cntS (flip cmp) (rev Tr) (rev z) n w Hg').
    rewrite count_le_flip by (rewrite rev_length; exact Hn). rewrite rev_length.
    f_equal. apply count_le_perm. symmetry. apply Permutation_rev.
  Qed.
  Corollary count_eq_palin Tr z n w : grouped cmp Tr z -> rev Tr = Tr -> (n <= length z)%nat ->
    count_eq cmp z n w = count_eq cmp z n (2 * Z.of_nat n * Z.of_nat (length z - n) - w).
  Proof.
    intros Hg Hpal Hn. rewrite !count_eq_diff.
    rewrite (count_le_palin Tr z n w Hg Hpal Hn), (count_le_palin Tr z n (w - 1) Hg Hpal Hn).
    set (M := 2 * Z.of_nat n * Z.of_nat (length z - n)).
    replace (M - (w - 1) - 1) with (M - w) by lia. replace (M - w - 1) with (M - w - 1) by lia. lia.
  Qed.
End Flip.

(* ---------- 4. the two-sided exact p-value ---------- *)
Local Open Scope Q_scope.
Lemma Qminb_spec a b : (a <= b /\ Qminb a b = a) \/ (b < a /\ Qminb a b = b).
Proof.
  unfold Qminb. destruct (Qle_bool a b) eqn:E; [left|right]; (split; [|reflexivity]).
  - apply Qle_bool_iff. exact E.
  - apply Qnot_le_lt. intros H. apply Qle_bool_iff in H. congruence.
Qed.
Lemma Qminb_compat a a' b b' : a == a' -> b == b' -> Qminb a b == Qminb a' b'.
Proof.
  intros Ha Hb. destruct (Qminb_spec a b) as [[H ->]|[H ->]], (Qminb_spec a' b') as [[H' ->]|[H' ->]]; lra.
Qed.
Lemma Qminb_comm a b : Qminb a b == Qminb b a.
Proof. destruct (Qminb_spec a b) as [[H ->]|[H ->]], (Qminb_spec b a) as [[H' ->]|[H' ->]]; lra. Qed.

(* the three cases of the comparison legacy/specified, over arbitrary rationals *)
Lemma ts_case_eq ple cm : ple + cm == 1 -> cm <= ple -> 1 == Qminb 1 (2 * Qminb ple (1 - cm)).
Proof.
  intros H1 H2. destruct (Qminb_spec ple (1 - cm)) as [[H ->]|[H ->]];
  match goal with |- _ == Qminb 1 ?e => destruct (Qminb_spec 1 e) as [[H' ->]|[H' ->]] end; lra.
Qed.
Lemma ts_case_lo ple cm x y : ple + x == 1 -> ple <= x -> y + cm == 1 -> ple <= y ->
  2 * ple == Qminb 1 (2 * Qminb ple (1 - cm)).
Proof.
  intros H1 H2 H3 H4. destruct (Qminb_spec ple (1 - cm)) as [[H ->]|[H ->]];
  match goal with |- _ == Qminb 1 ?e => destruct (Qminb_spec 1 e) as [[H' ->]|[H' ->]] end; lra.
Qed.
Lemma ts_case_hi ple cm c3 y : c3 == y -> y + cm == 1 -> y <= cm -> y <= ple ->
  2 * c3 == Qminb 1 (2 * Qminb ple (1 - cm)).
Proof.
  intros H0 H1 H2 H3. destruct (Qminb_spec ple (1 - cm)) as [[H ->]|[H ->]];
  match goal with |- _ == Qminb 1 ?e => destruct (Qminb_spec 1 e) as [[H' ->]|[H' ->]] end; lra.
Qed.

Section TwoSided.
  Context {A : Type} (cmp : A -> A -> comparison).
  Hypothesis cmp_refl : forall a, cmp a a = Eq.
  Hypothesis cmp_antisym : forall a b, cmp b a = CompOpp (cmp a b).
  Hypothesis cmp_trans : forall a b c, cmp a b <> Gt -> cmp b c <> Gt -> cmp a c <> Gt.
  Variables x1 x2 : list A.
  Hypothesis Hx1 : x1 <> [].
  Hypothesis Hx2 : x2 <> [].
  Let s := mw_stat cmp x1 x2.
  Let n1 := length x1.
  Let n2 := length x2.
  Let T := ms_T s.
  Let tu := ms_twoU s.
  Hypothesis HK : length T <> 1%nat.
  Let P := pool cmp x1 x2.
  Let Ctot := C (n1 + n2) n1.
  Let M := (2 * Z.of_nat n1 * Z.of_nat n2)%Z.
  Let cdf := udist_cdf n1 n2 T.
  Let qc (w : Z) : Q := inject_Z (count_le cmp P n1 w) / inject_Z Ctot.

  Let HP : length P = (n1 + n2)%nat.
  Proof. unfold P, pool. rewrite rev_length. apply (merged_lengths cmp x1 x2). Qed.
  Let HC : (0 < Ctot)%Z. Proof. apply C_pos. lia. Qed.

  Lemma cdf_at u w : u == half w -> cdf u == qc w.
  Proof. exact (cdf_half_int cmp cmp_refl cmp_antisym cmp_trans x1 x2 Hx1 Hx2 HK u w). Qed.
  Lemma qc_mono w w' : (w <= w')%Z -> qc w <= qc w'.
  Proof. intros H. apply qdiv_le; [apply count_le_mono; exact H|exact HC]. Qed.

  (* the specified two-sided value in terms of the subset counts — for EVERY tie vector *)
  Theorem mw_spec_two_sided_is_perm_tails :
    mw_spec_p cdf n1 n2 tu 0 ==
    Qminb 1 (2 * Qminb (inject_Z (count_le cmp P n1 tu) / inject_Z Ctot)
                       (inject_Z (Ctot - count_le cmp P n1 (tu - 1)) / inject_Z Ctot)).
  Proof.
    unfold mw_spec_p. cbn [Z.eqb]. apply Qminb_compat; [reflexivity|].
    apply Qmult_comp; [reflexivity|]. apply Qminb_compat.
    - apply cdf_at. reflexivity.
    - rewrite (cdf_at (half tu - (1 # 2)) (tu - 1)).
      + unfold qc. assert (HCq: ~ inject_Z Ctot == 0) by (apply inject_Z_nonzero; exact HC).
        unfold Z.sub. rewrite inject_Z_plus, inject_Z_opp. field. exact HCq.
      + unfold half, Qeq, Qminus, Qplus, Qopp. cbn [Qnum Qden]. lia.
  Qed.

  Hypothesis Hpal : rev T = T.

  (* the null distribution of U is symmetric about n1 n2 / 2 *)
  Lemma count_le_sym w : count_le cmp P n1 w = (Ctot - count_le cmp P n1 (M - w - 1))%Z.
  Proof.
    pose proof (pool_grouped cmp cmp_refl cmp_antisym cmp_trans x1 x2) as Hg. fold s T P in Hg.
    assert (Hp2: rev (rev T) = rev T) by (rewrite Hpal; exact Hpal).
    pose proof (count_le_palin cmp cmp_antisym (rev T) P n1 w Hg Hp2) as H.
    rewrite HP in H. replace (n1 + n2 - n1)%nat with n2 in H by lia. apply H. lia.
  Qed.
  Theorem mw_null_distribution_symmetric w : count_eq cmp P n1 w = count_eq cmp P n1 (M - w).
  Proof.
    pose proof (pool_grouped cmp cmp_refl cmp_antisym cmp_trans x1 x2) as Hg. fold s T P in Hg.
    assert (Hp2: rev (rev T) = rev T) by (rewrite Hpal; exact Hpal).
    pose proof (count_eq_palin cmp cmp_antisym (rev T) P n1 w Hg Hp2) as H.
    rewrite HP in H. replace (n1 + n2 - n1)%nat with n2 in H by lia. apply H. lia.
  Qed.
  Lemma qc_sym w : qc w + qc (M - w - 1) == 1.
  Proof.
    unfold qc. rewrite (count_le_sym w).
    assert (HCq: ~ inject_Z Ctot == 0) by (apply inject_Z_nonzero; exact HC).
    unfold Z.sub at 1. rewrite inject_Z_plus, inject_Z_opp. field. exact HCq.
  Qed.

  (* C01 mw_two_sided_symmetric: for a palindromic tie vector the value the code computes,
     2 CDF(min(U1,U2)) (1 when U1 = U2), IS the specified min(1, 2 min(Pr[U'<=U], Pr[U'>=U])) *)
  Theorem mw_two_sided_symmetric : mw_exact_p cdf n1 n2 tu 0 == mw_spec_p cdf n1 n2 tu 0.
  Proof.
    unfold mw_exact_p, mw_spec_p. cbn [Z.eqb].
    assert (EM: (2 * Z.of_nat (n1 * n2) = M)%Z) by (unfold M; rewrite Nat2Z.inj_mul; lia).
    rewrite EM.
    pose proof (cdf_at (half tu) tu ltac:(reflexivity)) as E1.
    assert (E2: cdf (half tu - (1 # 2)) == qc (tu - 1)).
    { apply cdf_at. unfold half, Qeq, Qminus, Qplus, Qopp. cbn [Qnum Qden]. lia. }
    assert (EU2: QN (n1 * n2) - half tu == half (M - tu)).
    { unfold QN, half, Qeq, Qminus, Qplus, Qopp, inject_Z. cbn [Qnum Qden]. lia. }
    pose proof (cdf_at _ _ EU2) as E3.
    pose proof (qc_sym tu) as S1.
    pose proof (qc_sym (M - tu)) as S2. replace (M - (M - tu) - 1)%Z with (tu - 1)%Z in S2 by lia.
    destruct (Z.eqb_spec tu (M - tu)) as [Heq|Hne].
    - (* U1 = U2 *)
      rewrite <- Heq in S2. pose proof (qc_mono (tu - 1) tu ltac:(lia)) as Hm.
      apply ts_case_eq; [rewrite E1, E2; exact S2 | rewrite E1, E2; exact Hm].
    - destruct (Qminb_spec (half tu) (QN (n1 * n2) - half tu)) as [[H ->]|[H ->]].
      + (* U1 < U2 *)
        assert (Hz: (tu <= M - tu - 1)%Z).
        { rewrite EU2 in H. unfold half, Qle in H. cbn [Qnum Qden] in H. lia. }
        pose proof (qc_mono tu (M - tu - 1) Hz) as Hm1. pose proof (qc_mono tu (M - tu) ltac:(lia)) as Hm2.
        apply (ts_case_lo _ _ (qc (M - tu - 1)) (qc (M - tu))); rewrite ?E1, ?E2; assumption.
      + (* U2 < U1 *)
        assert (Hz: (M - tu <= tu - 1)%Z).
        { rewrite EU2 in H. unfold half, Qlt in H. cbn [Qnum Qden] in H. lia. }
        pose proof (qc_mono (M - tu) (tu - 1) Hz) as Hm1. pose proof (qc_mono (M - tu) tu ltac:(lia)) as Hm2.
        apply (ts_case_hi _ _ _ (qc (M - tu))); rewrite ?E1, ?E2; assumption.
  Qed.
End TwoSided.

(* Proofs/UtestSym.v (group hD) — symmetry of the exact null distribution of U for a palindromic tie
   vector, and what follows for the two-sided exact p-value of MannWhitneyUTest:

   1. the subset counts depend on the pool only as a multiset (any arrangement of the pooled values
      gives the same counts): [count_le_perm];
   2. reversing the order (flip cmp) maps 2U to 2 n1 n2 - 2U: [count_le_flip];
   3. hence, for a pool whose tie vector reads the same in both directions (T = rev T, in particular
      no ties), #{2U' <= w} = C - #{2U' <= 2 n1 n2 - w - 1}: the null distribution is symmetric about
      n1 n2 / 2: [count_le_palin], [count_eq_palin];
   4. hence the legacy two-sided value of the code, 2 CDF(min(U1,U2)) (1 when U1 = U2), equals the
      specified min(1, 2 min(Pr[U' <= U], Pr[U' >= U])) whenever T is palindromic:
      [mw_two_sided_symmetric].  Finding D2 is therefore confined to non-palindromic tie vectors. *)
From Coq Require Import List ZArith Lia Arith Bool Permutation Sorted QArith Qround Lqa.
From MM Require Import Base.Num Base.GEComb Base.GESort Spec.Ucount Proofs.Ucount Model.GEChoose Model.Udist
  Model.Utest Proofs.Udist Proofs.UdistTied Proofs.UdistTable Proofs.UdistLaws Proofs.UdistUntied Proofs.UdistCor
  Proofs.Utest Proofs.UtestP.
Import ListNotations.
Open Scope Z_scope.

(* ---------- 1. the counts do not depend on the arrangement of the pool ---------- *)
Section PoolPerm.
  Context {X : Type} (cmp : X -> X -> comparison).
  Variable g : Z -> Z.

  (* sum over the labellings of z, with the values already dealt to the two samples in a1, a2 *)
  Definition accF (z : list X) (n : nat) (a1 a2 : list X) : Z :=
    zsum (fun l => g (twoU_pairs cmp (a1 ++ sel true l z) (a2 ++ sel false l z))) (labs (length z) n).

  Lemma accF_cons x z n a1 a2 :
    accF (x :: z) n a1 a2 =
    (match n with O => 0 | S n' => accF z n' (a1 ++ [x]) a2 end) + accF z n a1 (a2 ++ [x]).
  Proof.
    unfold accF. cbn [length labs]. rewrite zsum_app, !zsum_map. f_equal.
    - destruct n as [|n']; [reflexivity|]. rewrite zsum_map. apply zsum_ext. intros l.
      cbn [sel Bool.eqb]. rewrite <- app_assoc. reflexivity.
    - apply zsum_ext. intros l. cbn [sel Bool.eqb]. rewrite <- app_assoc. reflexivity.
  Qed.

  Lemma accF_acc_perm z n a1 a1' a2 a2' : Permutation a1 a1' -> Permutation a2 a2' ->
    accF z n a1 a2 = accF z n a1' a2'.
  Proof.
    intros H1 H2. unfold accF. apply zsum_ext. intros l. f_equal.
    apply twoU_pairs_perm; apply Permutation_app_tail; assumption.
  Qed.

  Theorem accF_perm z z' : Permutation z z' -> forall n a1 a2, accF z n a1 a2 = accF z' n a1 a2.
  Proof.
    induction 1 as [|x z z' Hp IH|x y z|z z' z'' H1 IH1 H2 IH2]; intros n a1 a2.
    - reflexivity.
    - rewrite !accF_cons. destruct n; rewrite ?IH; reflexivity.
    - assert (P1: Permutation ((a1 ++ [y]) ++ [x]) ((a1 ++ [x]) ++ [y])).
      { rewrite <- !app_assoc. apply Permutation_app_head. apply perm_swap. }
      assert (P2: Permutation ((a2 ++ [y]) ++ [x]) ((a2 ++ [x]) ++ [y])).
      { rewrite <- !app_assoc. apply Permutation_app_head. apply perm_swap. }
      destruct n as [|[|n]]; rewrite !accF_cons;
        rewrite (accF_acc_perm z _ a1 a1 _ _ (Permutation_refl _) P2); try lia.
      rewrite (accF_acc_perm z n _ _ a2 a2 P1 (Permutation_refl _)). lia.
    - rewrite IH1. apply IH2.
  Qed.
End PoolPerm.

Theorem count_le_perm {X} (cmp : X -> X -> comparison) z z' n w :
  Permutation z z' -> count_le cmp z n w = count_le cmp z' n w.
Proof. intros H. exact (accF_perm cmp (fun v => ind (v <=? w)) z z' H n [] []). Qed.
Theorem count_eq_perm {X} (cmp : X -> X -> comparison) z z' n w :
  Permutation z z' -> count_eq cmp z n w = count_eq cmp z' n w.
Proof. intros H. exact (accF_perm cmp (fun v => ind (v =? w)) z z' H n [] []). Qed.

(* ---------- 2. reversing the order ---------- *)
Section Flip.
  Context {X : Type} (cmp : X -> X -> comparison).
  Hypothesis cmp_antisym : forall a b, cmp b a = CompOpp (cmp a b).

  Lemma twoU_lab_flip z l : length l = length z ->
    twoU_lab (flip cmp) z l = 2 * Z.of_nat (ntrue l) * Z.of_nat (nfalse l) - twoU_lab cmp z l.
  Proof.
    intros H. unfold twoU_lab. rewrite twoU_pairs_flip, (twoU_pairs_swap cmp cmp_antisym).
    rewrite sel_true_length, sel_false_length by assumption. reflexivity.
  Qed.

  Theorem count_le_flip z n w : (n <= length z)%nat ->
    count_le (flip cmp) z n w = C (length z) n - count_le cmp z n (2 * Z.of_nat n * Z.of_nat (length z - n) - w - 1).
  Proof.
    intros Hn. rewrite <- labs_count. unfold count_le. rewrite <- zsum_minus. apply zsum_ext_in. intros l Hl.
    apply labs_spec in Hl as [Hl Hn1]. rewrite (twoU_lab_flip z l Hl). pose proof (ntrue_nfalse l).
    replace (nfalse l) with (length z - n)%nat by lia. rewrite Hn1. unfold ind.
    destruct (Z.leb_spec (2 * Z.of_nat n * Z.of_nat (length z - n) - twoU_lab cmp z l) w),
             (Z.leb_spec (twoU_lab cmp z l) (2 * Z.of_nat n * Z.of_nat (length z - n) - w - 1)); lia.
  Qed.

  (* ---------- 3. palindromic tie vector: the distribution of U is symmetric ---------- *)
  Theorem count_le_palin Tr z n w : grouped cmp Tr z -> rev Tr = Tr -> (n <= length z)%nat ->
    count_le cmp z n w = C (length z) n - count_le cmp z n (2 * Z.of_nat n * Z.of_nat (length z - n) - w - 1).
  Proof.
    intros Hg Hpal Hn.
    assert (Hg': grouped (flip cmp) (rev Tr) (rev z)).
    { apply (grouped_rev (flip cmp) Tr z). exact Hg. }
    rewrite (count_le_cntS cmp Tr z n w Hg), <- Hpal, <- (count_le_cntS (flip cmp) (rev Tr) (rev z) n w Hg').
    rewrite count_le_flip by (rewrite rev_length; exact Hn). rewrite rev_length.
    f_equal. apply count_le_perm. symmetry. apply Permutation_rev.
  Qed.
  Corollary count_eq_palin Tr z n w : grouped cmp Tr z -> rev Tr = Tr -> (n <= length z)%nat ->
    count_eq cmp z n w = count_eq cmp z n (2 * Z.of_nat n * Z.of_nat (length z - n) - w).
  Proof.
    intros Hg Hpal Hn. rewrite !count_eq_diff.
    rewrite (count_le_palin Tr z n w Hg Hpal Hn), (count_le_palin Tr z n (w - 1) Hg Hpal Hn).
    set (M := 2 * Z.of_nat n * Z.of_nat (length z - n)).
    replace (M - (w - 1) - 1) with (M - w) by lia. replace (M - w - 1) with (M - w - 1) by lia. lia.
  Qed.
End Flip.

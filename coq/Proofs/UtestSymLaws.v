(* Proofs/UtestSymLaws.v (group hD) — consequences of Proofs/UtestSym.v for C01 and C03:
   untied data are palindromic; ranges of the specified and (palindromic T) legacy two-sided values;
   the swap law for the two-sided exact p-value; which inputs take the exact branch. *)
From Coq Require Import List ZArith Lia Arith Bool Permutation Sorted QArith Qround Lqa.
From MM Require Import Base.Num Base.GEComb Base.GESort Spec.Ucount Proofs.Ucount Model.GEChoose Model.Udist
  Model.Utest Proofs.Udist Proofs.UdistTied Proofs.UdistTable Proofs.UdistLaws Proofs.UdistUntied Proofs.UdistCor
  Proofs.Utest Proofs.UtestP Proofs.UtestLaws Proofs.UtestSym.
Import ListNotations.
Open Scope Z_scope.

Lemma untied_palin T : Forall (fun t => (1 <= t)%nat) T -> has_ties T = false -> rev T = T.
Proof. intros Hpos HT. rewrite (no_ties_ones T Hpos HT). apply rev_ones. Qed.

(* hasTies <-> fewer distinct pooled values (= ranks, length T) than values *)
Lemma has_ties_iff_short T : Forall (fun t => (1 <= t)%nat) T -> (has_ties T = true <-> (length T < lsum T)%nat).
Proof.
  induction 1 as [|t T Ht HF IH]; cbn [has_ties existsb length lsum]; [split; [discriminate|lia]|].
  fold (has_ties T). rewrite orb_true_iff, IH, Nat.ltb_lt.
  assert (length T <= lsum T)%nat.
  { clear IH. induction HF as [|t' T' Ht' _ IH']; cbn [length lsum]; lia. }
  lia.
Qed.

(* method selection (utest.go:168-169) spelled out *)
Lemma use_exact_iff ties n1 n2 EL TL :
  use_exact ties n1 n2 EL TL = true <->
  (ties = false /\ Z.of_nat n1 <= EL /\ Z.of_nat n2 <= EL) \/ (ties = true /\ Z.of_nat n1 <= TL /\ Z.of_nat n2 <= TL).
Proof.
  unfold use_exact. destruct ties; cbn [negb andb orb]; rewrite ?orb_false_r, andb_true_iff, !Z.leb_le;
    split; [intros [? ?]; right; auto | intros [(E & _)|(_ & ? & ?)]; [discriminate|auto]
           | intros [? ?]; left; auto | intros [(_ & ? & ?)|(E & _)]; [auto|discriminate]].
Qed.

Local Open Scope Q_scope.
Lemma Qminb_range01 a b : 0 <= a -> 0 <= b -> 0 <= Qminb 1 (2 * Qminb a b) <= 1.
Proof.
  intros Ha Hb. destruct (Qminb_spec a b) as [[H ->]|[H ->]];
  match goal with |- _ <= Qminb 1 ?e <= _ => destruct (Qminb_spec 1 e) as [[H' ->]|[H' ->]] end; lra.
Qed.

Section SymLaws.
  Context {A : Type} (cmp : A -> A -> comparison).
  Hypothesis cmp_refl : forall a, cmp a a = Eq.
  Hypothesis cmp_antisym : forall a b, cmp b a = CompOpp (cmp a b).
  Hypothesis cmp_trans : forall a b c, cmp a b <> Gt -> cmp b c <> Gt -> cmp a c <> Gt.
  Variables x1 x2 : list A.
  Hypothesis Hx1 : x1 <> [].
  Hypothesis Hx2 : x2 <> [].
  Let s := mw_stat cmp x1 x2.
  Let n1 := length x1.
  Let n2 := length x2.
  Let T := ms_T s.
  Let tu := ms_twoU s.
  Hypothesis HK : length T <> 1%nat.
  Let cdf := udist_cdf n1 n2 T.

  (* no ties at all: T = [1; ...; 1] is palindromic *)
  Theorem mw_two_sided_untied : ms_ties s = false -> mw_exact_p cdf n1 n2 tu 0 == mw_spec_p cdf n1 n2 tu 0.
  Proof.
    intros Hnt. destruct (mw_T_is_tie_vector cmp cmp_refl cmp_antisym cmp_trans x1 x2) as (_ & _ & _ & Hpos & _ & Hties).
    apply (mw_two_sided_symmetric cmp cmp_refl cmp_antisym cmp_trans x1 x2 Hx1 Hx2 HK).
    apply untied_palin; [exact Hpos|]. rewrite <- Hties. exact Hnt.
  Qed.

  (* the specified p-value is a probability for every alternative and EVERY tie vector *)
  Theorem mw_spec_P_range (alt : Z) : (alt = -1 \/ alt = 0 \/ alt = 1)%Z -> 0 <= mw_spec_p cdf n1 n2 tu alt <= 1.
  Proof.
    pose proof (mw_exact_P_range cmp cmp_refl cmp_antisym cmp_trans x1 x2 Hx1 Hx2 HK (-1) ltac:(auto)) as RL.
    pose proof (mw_exact_P_range cmp cmp_refl cmp_antisym cmp_trans x1 x2 Hx1 Hx2 HK 1 ltac:(auto)) as RG.
    intros [->|[->| ->]]; [exact RL| |exact RG].
    change (mw_spec_p cdf n1 n2 tu 0) with
      (Qminb 1 (2 * Qminb (mw_exact_p cdf n1 n2 tu (-1)) (mw_exact_p cdf n1 n2 tu 1))).
    apply Qminb_range01; [apply RL|apply RG].
  Qed.
  (* ... and so is the value the code computes, whenever T is palindromic *)
  Theorem mw_exact_two_sided_range : rev T = T -> 0 <= mw_exact_p cdf n1 n2 tu 0 <= 1.
  Proof.
    intros Hpal. pose proof (mw_two_sided_symmetric cmp cmp_refl cmp_antisym cmp_trans x1 x2 Hx1 Hx2 HK Hpal) as E.
    fold s T tu n1 n2 cdf in E. rewrite E. apply mw_spec_P_range. auto.
  Qed.

  (* ---------- swap ---------- *)
  Hypothesis cmp_eq : forall a b, cmp a b = Eq -> a = b.
  Let M := (2 * Z.of_nat n1 * Z.of_nat n2)%Z.
  Let cdf' := udist_cdf n2 n1 T.

  (* the specified two-sided value is preserved by swapping the samples, for EVERY tie vector *)
  Theorem mw_swap_spec_two_sided : mw_spec_p cdf' n2 n1 (M - tu) 0 == mw_spec_p cdf n1 n2 tu 0.
  Proof.
    change (mw_spec_p cdf' n2 n1 (M - tu) 0) with
      (Qminb 1 (2 * Qminb (mw_exact_p cdf' n2 n1 (M - tu) (-1)) (mw_exact_p cdf' n2 n1 (M - tu) 1))).
    change (mw_spec_p cdf n1 n2 tu 0) with
      (Qminb 1 (2 * Qminb (mw_exact_p cdf n1 n2 tu (-1)) (mw_exact_p cdf n1 n2 tu 1))).
    apply Qminb_compat; [reflexivity|]. apply Qmult_comp; [reflexivity|].
    rewrite (Qminb_comm (mw_exact_p cdf n1 n2 tu (-1))). apply Qminb_compat.
    - exact (mw_swap_less_greater cmp cmp_refl cmp_antisym cmp_trans cmp_eq x1 x2 Hx1 Hx2 HK).
    - exact (mw_swap_greater_less cmp cmp_refl cmp_antisym cmp_trans cmp_eq x1 x2 Hx1 Hx2 HK).
  Qed.

  (* C03: swapping the samples preserves the two-sided exact p-value the code computes when T is
     palindromic (otherwise finding D2) *)
  Theorem mw_swap_two_sided_palin : rev T = T -> mw_exact_p cdf' n2 n1 (M - tu) 0 == mw_exact_p cdf n1 n2 tu 0.
  Proof.
    intros Hpal.
    pose proof (mw_swap_stat cmp cmp_refl cmp_antisym cmp_trans cmp_eq x1 x2) as Esw. cbv zeta in Esw.
    pose proof (mw_two_sided_symmetric cmp cmp_refl cmp_antisym cmp_trans x2 x1 Hx2 Hx1) as E2.
    rewrite Esw in E2. cbn [ms_T ms_twoU] in E2. specialize (E2 HK Hpal).
    change (ms_n1 (mw_stat cmp x1 x2)) with n1 in E2. change (ms_n2 (mw_stat cmp x1 x2)) with n2 in E2.
    eapply Qeq_trans; [exact E2|]. eapply Qeq_trans; [exact mw_swap_spec_two_sided|].
    symmetry. exact (mw_two_sided_symmetric cmp cmp_refl cmp_antisym cmp_trans x1 x2 Hx1 Hx2 HK Hpal).
  Qed.
End SymLaws.

(* ---------- which inputs take the exact branch ---------- *)
Theorem mw_exact_selected_iff {A} (cmp : A -> A -> comparison) :
  (forall a, cmp a a = Eq) -> (forall a b, cmp b a = CompOpp (cmp a b)) ->
  (forall a b c, cmp a b <> Gt -> cmp b c <> Gt -> cmp a c <> Gt) ->
  forall (cdf : nat -> nat -> list nat -> Q -> Q) EL TL x1 x2 alt,
  x1 <> [] -> x2 <> [] ->
  let s := mw_stat cmp x1 x2 in let n1 := length x1 in let n2 := length x2 in
  length (ms_T s) <> 1%nat ->
  (* hasTies: fewer distinct pooled values than values *)
  (ms_ties s = true <-> (length (ms_T s) < n1 + n2)%nat) /\
  (* exact result <-> both sizes within the limit that applies *)
  ((exists p ps, mw_test cmp cdf EL TL x1 x2 alt = MWExact n1 n2 (twoU_pairs cmp x1 x2) p ps) <->
   (Z.of_nat n1 <= (if ms_ties s then TL else EL) /\ Z.of_nat n2 <= (if ms_ties s then TL else EL))%Z) /\
  (* otherwise the normal approximation *)
  ((exists num sig, mw_test cmp cdf EL TL x1 x2 alt = MWApprox n1 n2 (twoU_pairs cmp x1 x2) num sig) <->
   ~ (Z.of_nat n1 <= (if ms_ties s then TL else EL) /\ Z.of_nat n2 <= (if ms_ties s then TL else EL))%Z).
Proof.
  intros Hr Ha Ht cdf EL TL x1 x2 alt H1 H2 s n1 n2 HK.
  destruct (mw_T_is_tie_vector cmp Hr Ha Ht x1 x2) as (_ & _ & _ & Hpos & Hsum & Hties). fold s in Hpos, Hsum, Hties.
  split.
  { rewrite Hties, (has_ties_iff_short _ Hpos), Hsum. reflexivity. }
  assert (Hsel: use_exact (ms_ties s) n1 n2 EL TL = true <->
                (Z.of_nat n1 <= (if ms_ties s then TL else EL) /\ Z.of_nat n2 <= (if ms_ties s then TL else EL))%Z).
  { rewrite use_exact_iff. destruct (ms_ties s); split;
      [intros [(E & _)|(_ & ? & ?)]; [discriminate|auto] | intros [? ?]; right; auto
      | intros [(_ & ? & ?)|(E & _)]; [auto|discriminate] | intros [? ?]; left; auto]. }
  destruct (use_exact (ms_ties s) n1 n2 EL TL) eqn:E.
  - pose proof (mw_exact_result cmp Hr Ha Ht cdf EL TL x1 x2 alt H1 H2 E HK) as R. fold s n1 n2 in R.
    split; split.
    + intros _. apply Hsel. reflexivity.
    + intros _. eexists _, _. exact R.
    + intros (num & sig & R'). rewrite R in R'. discriminate R'.
    + intros Hn. exfalso. apply Hn, Hsel. reflexivity.
  - destruct (mw_approx_result cmp Hr Ha Ht cdf EL TL x1 x2 alt H1 H2 E HK) as [R _]. fold s n1 n2 in R.
    split; split.
    + intros (p & ps & R'). rewrite R in R'. discriminate R'.
    + intros Hy. apply Hsel in Hy. discriminate Hy.
    + intros _ Hy. apply Hsel in Hy. discriminate Hy.
    + intros _. eexists _, _. exact R.
Qed.

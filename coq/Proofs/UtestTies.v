(* Proofs/UtestTies.v (group hD) — hasTies at the level of the data: MannWhitneyUTest's hasTies flag is
   false exactly when the pooled values are pairwise distinct. *)
From Coq Require Import List ZArith Lia Arith Bool Permutation Sorted QArith.
From MM Require Import Base.Num Base.GEComb Base.GESort Spec.Ucount Proofs.Ucount Model.GEChoose Model.Udist
  Model.Utest Proofs.Utest Proofs.UtestP.
Import ListNotations.

Section FOP.
  Context {A : Type} (R : A -> A -> Prop).
  Hypothesis Rsym : forall a b, R a b -> R b a.

  Lemma FOP_perm l l' : Permutation l l' -> ForallOrdPairs R l -> ForallOrdPairs R l'.
  Proof.
    induction 1 as [|x l l' Hp IH|x y l|l l' l'' H1 IH1 H2 IH2]; intros H.
    - exact H.
    - inversion H as [|a l0 Hf Hr]; subst. constructor; [eapply Permutation_Forall; eauto|auto].
    - inversion H as [|a l0 Hf Hr]; subst. inversion Hr as [|b l1 Hf' Hr']; subst.
      inversion Hf as [|c l2 Hxy Hf'']; subst.
      constructor; [constructor; [apply Rsym; exact Hxy|exact Hf']|]. constructor; assumption.
    - auto.
  Qed.
  Lemma FOP_app_r l1 : forall l2, ForallOrdPairs R (l1 ++ l2) -> ForallOrdPairs R l2.
  Proof. induction l1 as [|a l1 IH]; intros l2 H; [exact H|]. inversion H; subst. auto. Qed.
End FOP.
Lemma FOP_impl {A} (R R' : A -> A -> Prop) l : (forall a b, R a b -> R' a b) -> ForallOrdPairs R l -> ForallOrdPairs R' l.
Proof.
  intros HI. induction 1 as [|a l Hf Hr IH]; constructor; [|exact IH].
  eapply Forall_impl; [|exact Hf]. intros b. apply HI.
Qed.

Lemma grouped_ties {X} (c : X -> X -> comparison) Tr : Forall (fun t => (1 <= t)%nat) Tr ->
  forall z, grouped c Tr z -> (has_ties Tr = false <-> ForallOrdPairs (fun a b => c a b <> Eq) z).
Proof.
  induction 1 as [|t rest Ht HF IH]; intros z Hg; cbn [grouped] in Hg.
  - subst z. split; [constructor|reflexivity].
  - destruct Hg as (g & z' & -> & Hlen & Heq & Hgt & Hrest). specialize (IH z' Hrest).
    cbn [has_ties existsb]. fold (has_ties rest). rewrite orb_false_iff, Nat.ltb_ge. split.
    + intros [Ht1 Hr]. assert (Hg1: length g = 1%nat) by lia.
      destruct g as [|x [|y g]]; try discriminate Hg1. cbn [app].
      constructor; [|apply IH; exact Hr].
      apply Forall_forall. intros y Hy. destruct (Hgt x y (or_introl eq_refl) Hy) as [E _]. congruence.
    + intros Hf. split.
      * destruct g as [|x [|y g]]; cbn in Hlen; try lia. exfalso.
        cbn [app] in Hf. inversion Hf as [|a l0 Hfa _]; subst. inversion Hfa as [|b l1 Hxy _]; subst.
        apply Hxy. apply Heq; cbn; auto.
      * apply IH. eapply FOP_app_r; exact Hf.
Qed.

Section Ties.
  Context {A : Type} (cmp : A -> A -> comparison).
  Hypothesis cmp_refl : forall a, cmp a a = Eq.
  Hypothesis cmp_antisym : forall a b, cmp b a = CompOpp (cmp a b).
  Hypothesis cmp_trans : forall a b c, cmp a b <> Gt -> cmp b c <> Gt -> cmp a c <> Gt.

  (* hasTies = false <-> no two of the pooled values (at different positions) compare equal *)
  Theorem mw_ties_iff_duplicate x1 x2 :
    ms_ties (mw_stat cmp x1 x2) = false <-> ForallOrdPairs (fun a b => cmp a b <> Eq) (x1 ++ x2).
  Proof.
    destruct (mw_T_is_tie_vector cmp cmp_refl cmp_antisym cmp_trans x1 x2) as (Hg & Hp & _ & Hpos & _ & Hties).
    rewrite Hties, (grouped_ties (flip cmp) _ Hpos _ Hg).
    assert (Hsym: forall a b : A, cmp a b <> Eq -> cmp b a <> Eq).
    { intros a b H E. apply H. rewrite (cmp_antisym b a), E. reflexivity. }
    split; intros H.
    - apply (FOP_perm _ Hsym _ _ Hp). eapply FOP_impl; [|exact H]. intros a b. unfold flip. apply Hsym.
    - apply (FOP_perm _ Hsym _ _ (Permutation_sym Hp)) in H. eapply FOP_impl; [|exact H]. intros a b. unfold flip. apply Hsym.
  Qed.
End Ties.

(* placeholder while the pipeline is brought up *)
From MM Require Import Base.Num Base.GEComb.
Theorem C01_placeholder : forall n, C n 0 = 1%Z.
Proof. exact C_n0. Qed.
Print Assumptions C01_placeholder.
